import Model.Engine.SkelSys
import Model.Engine.SkelAutoAck
import Model.Engine.Ack
import Lemmas.EngineAck
/-! The system that interprets the regenerated skeleton (`SkelSys`) refines the `Ack` machine (C06), under item-level
interleaving. -/
namespace Engine.Skel.AckRef
open Engine Engine.Skel Engine.Skel.Sys


theorem arun_snoc (tx : Kind) (ph : APh) (xs : Path) (x : Item) :
    arun tx ph (xs ++ [x]) = (arun tx ph xs).bind (fun ph' => astep tx ph' (atok x)) := by
  induction xs generalizing ph with
  | nil =>
    simp only [List.nil_append, arun]
    cases h : astep tx ph (atok x) <;> simp [h]
  | cons y ys ih =>
    simp only [List.cons_append, arun]
    cases astep tx ph (atok y) with
    | none => simp
    | some ph' => exact ih ph'

theorem arun_cons_some (tx : Kind) (ph : APh) (x : Item) (rest : Path) (h : (arun tx ph (x :: rest)).isSome = true) :
    ∃ ph', astep tx ph (atok x) = some ph' ∧ (arun tx ph' rest).isSome = true := by
  simp only [arun] at h
  cases hc : astep tx ph (atok x) with
  | none => simp [hc] at h
  | some ph' => exact ⟨ph', rfl, by simpa [hc] using h⟩

def metaKind (l : LogE) : Prop := l.kind = .setMeta ∨ l.kind = .delMeta

/-- what `Ack` knows about one request, and what the request's registers hold, by phase -/
structure API (dry : Nat → Bool) (s : Ack.S) (p : Proc) (ph : APh) : Prop where
  run : arun p.job.req.kind {} p.done = some ph
  rest : p.alive = true → (arun p.job.req.kind ph p.todo).isSome = true
  dryOk : ∀ b, ph.dry = some b → dry p.job.a = b
  ntx : p.job.isTx = false → p.regs.txid = none
  nchn : ph.chained = false → p.regs.chained = none
  chn : ph.chained = true → ∃ l, p.regs.chained = some l ∧ l.kind = p.job.req.kind ∧ (p.job.isTx = false → l.txid = none) ∧
          (p.job.req.kind = .revert → l.reverts = some p.job.req.target)
  com : ph.committed = true → ∃ l, p.regs.chained = some l ∧ Ack.logOf s p.job.a = some l ∧
          (p.alive = true → (p.job.a, l) ∈ s.pending ∨ (p.job.a, l) ∈ s.written)
  ncom : ph.committed = false → Ack.logOf s p.job.a = none
  cc : ph.committed = true → ph.chained = true
  wcm : ph.waited = true → ph.committed = true
  wtd : ph.waited = true → p.alive = true → ∃ l, p.regs.chained = some l ∧ (p.job.a, l) ∈ s.written
  fnd : ph.found = true → ∃ l, p.regs.found = some l ∧ Ack.foundOf s p.job.a = some l
  nfnd : ph.found = false → p.regs.found = none
  kok : ph.kindOk = true → ph.chained = false → ∀ l, p.regs.found = some l → l.kind = p.job.req.kind
  nfin : ph.fin = false → Ack.answered s p.job.a = false
  ansC : ph.answered = some "chained" → ∀ l, p.regs.chained = some l → p.regs.answer = l.txid
  ansF : ph.answered = some "ikRead" → ph.chained = false → ∀ l, p.regs.found = some l → p.regs.answer = l.txid
  npois : ph.poisoned = false

structure AInv (dry : Nat → Bool) (st : State) (s : Ack.S) : Prop where
  dur : s.durable = st.sh.store
  pend : s.pending = st.sh.queue
  nodup : (st.procs.map (·.job.a)).Nodup
  procs : ∀ p ∈ st.procs, ∃ ph, API dry s p ph
  known : ∀ a, ((Ack.logOf s a).isSome = true ∨ Ack.answered s a = true ∨ (Ack.foundOf s a).isSome = true) → ∃ p ∈ st.procs, p.job.a = a
  ainv : Ack.Inv dry s
  kinds : ∀ l ∈ s.durable, metaKind l → l.txid = none
  kindsP : ∀ x ∈ s.pending, metaKind x.2 → x.2.txid = none
  jobs : ∀ p ∈ st.procs, p.job.req.dry = dry p.job.a

/-- what a step of actor `a` may do to what `Ack` knows about the others -/
structure Others (a : Nat) (s s' : Ack.S) : Prop where
  log : ∀ b, b ≠ a → Ack.logOf s' b = Ack.logOf s b
  fnd : ∀ b, b ≠ a → Ack.foundOf s' b = Ack.foundOf s b
  ans : ∀ b, b ≠ a → Ack.answered s' b = Ack.answered s b
  mem : ∀ x, x ∈ s.pending ∨ x ∈ s.written → x ∈ s'.pending ∨ x ∈ s'.written
  wr : ∀ x, x ∈ s.written → x ∈ s'.written

theorem Others.refl (a : Nat) (s : Ack.S) : Others a s s := ⟨fun _ _ => rfl, fun _ _ => rfl, fun _ _ => rfl, fun _ h => h, fun _ h => h⟩

/-- a request that did not move keeps its part of the invariant -/
theorem api_other (dry : Nat → Bool) (s s' : Ack.S) (a : Nat) (q : Proc) (ph : APh) (h : API dry s q ph)
    (hne : q.job.a ≠ a) (ho : Others a s s') : API dry s' q ph := by
  refine { h with com := ?_, ncom := ?_, wtd := ?_, fnd := ?_, nfin := ?_ }
  · intro hc
    obtain ⟨l, h1, h2, h3⟩ := h.com hc
    exact ⟨l, h1, by rw [ho.log _ hne]; exact h2, fun hal => ho.mem _ (h3 hal)⟩
  · intro hc; rw [ho.log _ hne]; exact h.ncom hc
  · intro hw hal
    obtain ⟨l, h1, h2⟩ := h.wtd hw hal
    exact ⟨l, h1, ho.wr _ h2⟩
  · intro hf
    obtain ⟨l, h1, h2⟩ := h.fnd hf
    exact ⟨l, h1, by rw [ho.fnd _ hne]; exact h2⟩
  · intro hf; rw [ho.ans _ hne]; exact h.nfin hf

-- ------------------------------------------------------------------------------------------------ frames

/-- the events `Ack` may react to -/
def isAckEv : Ev → Bool
  | .committed .. => true
  | .gate .. => true
  | .crash => true
  | .finish .. => true
  | .ikRead _ _ (some _) => true
  | .arrive _ pt => pt = "done"
  | _ => false

theorem ack_ignores (dry : Nat → Bool) (s : Ack.S) (ev : Ev) (h : isAckEv ev = false) : Ack.step dry s ev = .ok s := by
  cases ev <;> simp_all [isAckEv, Ack.step]
  all_goals (rename_i f; cases f <;> simp_all [isAckEv, Ack.step])

theorem runOn_ignored (dry : Nat → Bool) (s : Ack.S) (evs : List Ev) (h : ∀ ev ∈ evs, isAckEv ev = false) :
    runOn (Ack.step dry) s evs = .ok s := by
  induction evs with
  | nil => rfl
  | cons e es ih =>
    simp only [runOn, ack_ignores dry s e (h e (List.mem_cons_self ..))]
    exact ih (fun ev hev => h ev (List.mem_cons_of_mem _ hev))

theorem atok_append_ne (o : String) : (if o = "chained" then ATok.appendC else ATok.appendX) ≠ ATok.other := by
  split <;> simp

theorem effSh_other (sh : Shared) (j : Job) (rg : Regs) (x : Item) (hx : atok x = .other) :
    (effSh sh j rg x).store = sh.store ∧ (effSh sh j rg x).queue = sh.queue := by
  unfold effSh
  split <;> simp_all [atok, atok_append_ne]

theorem effRg_other (sh : Shared) (j : Job) (rg : Regs) (x : Item) (hx : atok x = .other) :
    (effRg sh j rg x).txid = rg.txid ∧ (effRg sh j rg x).chained = rg.chained ∧ (effRg sh j rg x).found = rg.found ∧
    (effRg sh j rg x).answer = rg.answer := by
  unfold effRg
  split <;> simp_all [atok]

theorem evs_other (sh : Shared) (j : Job) (rg : Regs) (x : Item) (hx : atok x = .other) :
    ∀ ev ∈ evsOf sh j rg x, isAckEv ev = false := by
  unfold evsOf
  split <;> (try split) <;> simp_all [atok, isAckEv, atok_append_ne]
  · rename_i ok _; cases ok <;> simp [atok] at hx
  · intro ev x y z _ h
    subst h
    rfl

-- ------------------------------------------------------------------------------------------------ one item

theorem atok_cases (x : Item) :
    atok x = .other ∨ (∃ b, x = .choose "dry" b) ∨ (∃ b, x = .choose "payload-kind-ok" b) ∨
    (∃ b, x = .choose "payload-id=lookup-id" b) ∨ (∃ key v, x = .act (.readIk key) .ok v) ∨ (∃ o v, x = .act .chainLog o v) ∨
    (∃ og cs o v, x = .act (.append og cs) o v) ∨ (∃ o v, x = .act (.wait "persisted") o v) ∨
    (∃ o v, x = .act (.yield "done") o v) ∨ (∃ pv o v, x = .act (.answer pv) o v) ∨ (∃ o v, x = .act .stampTxid o v) ∨
    (∃ o v, x = .act .peekTxid o v) ∨ (∃ cls, x = .fin true cls) ∨ (∃ cls, x = .fin false cls) := by
  cases x with
  | choose a b =>
    by_cases h1 : a = "dry"
    · subst h1; exact .inr (.inl ⟨b, rfl⟩)
    · by_cases h2 : a = "payload-kind-ok"
      · subst h2; exact .inr (.inr (.inl ⟨b, rfl⟩))
      · by_cases h3 : a = "payload-id=lookup-id"
        · subst h3; exact .inr (.inr (.inr (.inl ⟨b, rfl⟩)))
        · left; simp [atok, h1, h2, h3]
  | fin ok cls => cases ok <;> simp
  | panic w => simp [atok]
  | act a o v =>
    cases a <;> try (simp [atok]; done)
    · rename_i pt
      by_cases h : pt = "done"
      · subst h; simp
      · simp [atok, h]
    · cases o <;> simp [atok]
    · rename_i c
      by_cases h : c = "persisted"
      · subst h; simp
      · simp [atok, h]

theorem find_id_ik (ls : List LogE) (key : String) (l : LogE) (h : ls.find? (fun x => decide (x.ik = key)) = some l) :
    ls.find? (fun x => decide (x.id = l.id ∧ x.ik = key)) = some l := by
  induction ls with
  | nil => simp at h
  | cons y ys ih =>
    simp only [List.find?_cons] at h ⊢
    by_cases hy : y.ik = key
    · simp only [hy, decide_true] at h
      cases h
      simp [hy]
    · simp only [hy, decide_false] at h
      simp only [hy, and_false, decide_false]
      exact ih h

theorem logOf_cons_self (s s' : Ack.S) (a : Nat) (l : LogE) (h : s'.mine = (a, l) :: s.mine) : Ack.logOf s' a = some l := by
  simp [Ack.logOf, h]

theorem logOf_cons_other (s s' : Ack.S) (a b : Nat) (l : LogE) (h : s'.mine = (a, l) :: s.mine) (hb : b ≠ a) :
    Ack.logOf s' b = Ack.logOf s b := by
  simp [Ack.logOf, h, List.find?_cons, Ne.symm hb]

/-- what one item of one live request does: `Ack` accepts the events, the request's part of the invariant moves to the
next phase, the others' is untouched -/
theorem item_step (dry : Nat → Bool) (s : Ack.S) (sh : Shared) (j : Job) (rg : Regs) (dn : Path) (x : Item) (rest : Path)
    (ph ph' : APh) (hP : API dry s ⟨j, rg, dn, true, x :: rest⟩ ph)
    (hen : enabled sh j rg x = true) (hph : astep j.req.kind ph (atok x) = some ph')
    (hrest : (arun j.req.kind ph' rest).isSome = true)
    (hdur : s.durable = sh.store) (hpend : s.pending = sh.queue) (hjob : j.req.dry = dry j.a)
    (hainv : Ack.Inv dry s) (hkinds : ∀ l ∈ s.durable, metaKind l → l.txid = none) :
    ∃ s', runOn (Ack.step dry) s (evsOf sh j rg x) = .ok s' ∧
      API dry s' ⟨j, effRg sh j rg x, dn ++ [x], true, rest⟩ ph' ∧ Others j.a s s' ∧
      s'.durable = s.durable ∧ (effSh sh j rg x).store = sh.store ∧ s'.pending = (effSh sh j rg x).queue ∧
      (∀ y ∈ s'.pending, y ∈ s.pending ∨ (metaKind y.2 → y.2.txid = none)) := by
  have hfin : ph.fin = false := by
    cases h : ph.fin with
    | false => rfl
    | true => simp [astep, h] at hph
  have hrun' : arun j.req.kind {} (dn ++ [x]) = some ph' := by
    rw [arun_snoc, hP.run]; exact hph
  simp only [astep, hfin, Bool.false_eq_true, if_false] at hph
  rcases atok_cases x with hx | ⟨b, rfl⟩ | ⟨b, rfl⟩ | ⟨b, rfl⟩ | ⟨key, v, rfl⟩ | ⟨o, v, rfl⟩ | ⟨og, cs, o, v, rfl⟩ | ⟨o, v, rfl⟩ |
      ⟨o, v, rfl⟩ | ⟨pv, o, v, rfl⟩ | ⟨o, v, rfl⟩ | ⟨o, v, rfl⟩ | ⟨cls, rfl⟩ | ⟨cls, rfl⟩
  · -- an item `Ack` does not look at
    rw [hx] at hph
    simp only [Option.some.injEq] at hph
    subst hph
    obtain ⟨e1, e2⟩ := effSh_other sh j rg x hx
    obtain ⟨r1, r2, r3, r4⟩ := effRg_other sh j rg x hx
    refine ⟨s, runOn_ignored dry s _ (evs_other sh j rg x hx), ?_, Others.refl _ _, rfl, e1, by rw [e2]; exact hpend, fun y hy => .inl hy⟩
    exact { run := hrun', rest := fun _ => hrest, dryOk := hP.dryOk, ntx := by simpa [r1] using hP.ntx,
            nchn := by simpa [r2] using hP.nchn, chn := by simpa [r2] using hP.chn, com := by simpa [r2] using hP.com,
            ncom := hP.ncom, cc := hP.cc, wcm := hP.wcm, wtd := by simpa [r2] using hP.wtd, fnd := by simpa [r3] using hP.fnd,
            nfnd := by simpa [r3] using hP.nfnd, kok := by simpa [r3] using hP.kok, nfin := fun _ => hP.nfin hfin,
            ansC := by simpa [r2, r4] using hP.ansC, ansF := by simpa [r3, r4] using hP.ansF, npois := hP.npois }
  · -- choose "dry" b
    simp only [atok, if_true, Option.some.injEq] at hph
    subst hph
    have hb : b = j.req.dry := by simpa [enabled, atomOk] using hen
    refine ⟨s, rfl, ?_, Others.refl _ _, rfl, rfl, hpend, fun y hy => .inl hy⟩
    exact { run := hrun', rest := fun _ => hrest, dryOk := by intro b' hb'; simp at hb'; rw [← hb', hb, hjob], ntx := hP.ntx,
            nchn := hP.nchn, chn := hP.chn, com := hP.com, ncom := hP.ncom, cc := hP.cc, wcm := hP.wcm, wtd := hP.wtd, fnd := hP.fnd,
            nfnd := hP.nfnd, kok := hP.kok, nfin := fun _ => hP.nfin hfin, ansC := hP.ansC, ansF := hP.ansF, npois := hP.npois }
  · -- choose "payload-kind-ok" b
    have hat : atok (.choose "payload-kind-ok" b) = .kindCmp b := by simp [atok]
    rw [hat] at hph
    cases b with
    | true =>
      simp only [Option.some.injEq] at hph
      subst hph
      refine ⟨s, rfl, ?_, Others.refl _ _, rfl, rfl, hpend, fun y hy => .inl hy⟩
      exact { run := hrun', rest := fun _ => hrest, dryOk := hP.dryOk, ntx := hP.ntx,
              nchn := hP.nchn, chn := hP.chn, com := hP.com, ncom := hP.ncom, cc := hP.cc, wcm := hP.wcm, wtd := hP.wtd, fnd := hP.fnd,
              nfnd := hP.nfnd, nfin := fun _ => hP.nfin hfin, ansC := hP.ansC, ansF := hP.ansF, npois := hP.npois,
              kok := by
                intro _ hc l hl
                have hn : rg.chained = none := hP.nchn hc
                change rg.found = some l at hl
                have hr : returned rg = some l := by simp [returned, hn, hl]
                simpa [enabled, atomOk, hr] using hen }
    | false =>
      simp only [Option.some.injEq] at hph
      subst hph
      have hnc : ph.committed = false := by
        cases hc : ph.committed with
        | false => rfl
        | true =>
          obtain ⟨l, hl, _⟩ := hP.com hc
          obtain ⟨l', hl', hk, _⟩ := hP.chn (hP.cc hc)
          change rg.chained = some l at hl
          change rg.chained = some l' at hl'
          rw [hl] at hl'; cases hl'
          have hr : returned rg = some l := by simp [returned, hl]
          simp [enabled, atomOk, hr, hk] at hen
      refine ⟨s, rfl, ?_, Others.refl _ _, rfl, rfl, hpend, fun y hy => .inl hy⟩
      exact { run := hrun', rest := fun _ => hrest, dryOk := hP.dryOk, ntx := hP.ntx,
              nchn := hP.nchn, chn := hP.chn, com := hP.com, ncom := hP.ncom, cc := hP.cc, wcm := hP.wcm, wtd := hP.wtd, fnd := hP.fnd,
              nfnd := hP.nfnd, kok := hP.kok, nfin := fun _ => hP.nfin hfin, ansC := hP.ansC, ansF := hP.ansF,
              npois := by simp [hP.npois, hnc] }
  · -- choose "payload-id=lookup-id" b
    have hat : atok (.choose "payload-id=lookup-id" b) = .idCmp b := by simp [atok]
    rw [hat] at hph
    have hk : j.req.kind = .revert := by
      cases h : j.req.kind <;> simp [h] at hph
      rfl
    simp only [hk, if_true] at hph
    cases b with
    | true =>
      simp only [if_true, Option.some.injEq] at hph
      subst hph
      refine ⟨s, rfl, ?_, Others.refl _ _, rfl, rfl, hpend, fun y hy => .inl hy⟩
      exact { run := hrun', rest := fun _ => hrest, dryOk := hP.dryOk, ntx := hP.ntx,
              nchn := hP.nchn, chn := hP.chn, com := hP.com, ncom := hP.ncom, cc := hP.cc, wcm := hP.wcm, wtd := hP.wtd, fnd := hP.fnd,
              nfnd := hP.nfnd, kok := hP.kok, nfin := fun _ => hP.nfin hfin, ansC := hP.ansC, ansF := hP.ansF, npois := hP.npois }
    | false =>
      simp only [Bool.false_eq_true, if_false, Option.some.injEq] at hph
      subst hph
      have hnc : ph.committed = false := by
        cases hc : ph.committed with
        | false => rfl
        | true =>
          obtain ⟨l, hl, _⟩ := hP.com hc
          obtain ⟨l', hl', _, _, hr⟩ := hP.chn (hP.cc hc)
          change rg.chained = some l at hl
          change rg.chained = some l' at hl'
          rw [hl] at hl'; cases hl'
          have hrv := hr hk
          have hr' : returned rg = some l := by simp [returned, hl]
          simp [enabled, atomOk, hr', hrv] at hen
      refine ⟨s, rfl, ?_, Others.refl _ _, rfl, rfl, hpend, fun y hy => .inl hy⟩
      exact { run := hrun', rest := fun _ => hrest, dryOk := hP.dryOk, ntx := hP.ntx,
              nchn := hP.nchn, chn := hP.chn, com := hP.com, ncom := hP.ncom, cc := hP.cc, wcm := hP.wcm, wtd := hP.wtd, fnd := hP.fnd,
              nfnd := hP.nfnd, kok := hP.kok, nfin := fun _ => hP.nfin hfin, ansC := hP.ansC, ansF := hP.ansF,
              npois := by simp [hP.npois, hnc] }
  · -- the key lookup found a log
    have hat : atok (.act (.readIk key) .ok v) = .readIkOk := rfl
    rw [hat] at hph
    have hnf : ph.found = false ∧ ph.chained = false := by
      cases h1 : ph.found <;> cases h2 : ph.chained <;> simp [h1, h2] at hph ⊢
    have hor : (ph.found || ph.chained) = false := by simp [hnf.1, hnf.2]
    simp only [hor, Bool.false_eq_true, if_false, Option.some.injEq] at hph
    subst hph
    have hsome : (sh.store.find? (fun l => decide (l.ik = j.req.ik))).isSome = true := by simpa [enabled] using hen
    obtain ⟨l, hl⟩ := Option.isSome_iff_exists.1 hsome
    have hfind := find_id_ik sh.store j.req.ik l hl
    simp only [Bool.decide_and] at hfind
    have hch : rg.chained = none := hP.nchn hnf.2
    refine ⟨{ s with found := (j.a, l) :: s.found }, ?_, ?_, ?_, rfl, rfl, hpend, fun y hy => .inl hy⟩
    · simp [evsOf, hl, runOn, Ack.step, hdur, hfind]
    · exact { run := hrun', rest := fun _ => hrest, dryOk := hP.dryOk, ntx := hP.ntx, nchn := fun _ => by simpa [effRg] using hch,
              chn := fun hc => by simp [hnf.2] at hc,
              com := fun hc => by have := hP.cc hc; simp [hnf.2] at this, ncom := hP.ncom,
              cc := fun hc => by have := hP.cc hc; simp [hnf.2] at this, wcm := hP.wcm,
              wtd := fun hw => by have := hP.cc (hP.wcm hw); simp [hnf.2] at this,
              fnd := fun _ => ⟨l, by simp [effRg, hl], by simp [Ack.foundOf]⟩,
              nfnd := by simp, kok := by simp, nfin := fun _ => hP.nfin hfin, ansC := by simp, ansF := by simp, npois := hP.npois }
    · exact ⟨fun _ _ => rfl, fun b hb => by simp [Ack.foundOf, List.find?_cons, Ne.symm hb], fun _ _ => rfl, fun _ h => h, fun _ h => h⟩
  · -- chainLog
    have hat : atok (.act .chainLog o v) = .chain := rfl
    rw [hat] at hph
    have hnc : ph.committed = false ∧ ph.chained = false := by
      cases h1 : ph.committed <;> cases h2 : ph.chained <;> simp [h1, h2] at hph ⊢
    have hor : (ph.committed || ph.chained) = false := by simp [hnc.1, hnc.2]
    simp only [hor, Bool.false_eq_true, if_false, Option.some.injEq] at hph
    subst hph
    have hnw : ph.waited = false := by
      cases h : ph.waited with
      | false => rfl
      | true => have := hP.wcm h; simp [hnc.1] at this
    refine ⟨s, rfl, ?_, Others.refl _ _, rfl, rfl, hpend, fun y hy => .inl hy⟩
    exact { run := hrun', rest := fun _ => hrest, dryOk := hP.dryOk, ntx := hP.ntx, nchn := by simp,
            chn := fun _ => ⟨_, rfl, by simp [Job.content], fun ht => by simpa using hP.ntx ht,
              fun hk => by simp [Job.content, show j.req.kind = .revert from hk]⟩,
            com := by simp [hnc.1], ncom := fun _ => hP.ncom hnc.1, cc := by simp, wcm := by simp [hnw], wtd := by simp [hnw],
            fnd := hP.fnd, nfnd := hP.nfnd, kok := by simp, nfin := fun _ => hP.nfin hfin, ansC := by simp, ansF := by simp,
            npois := hP.npois }
  · -- Batcher.Append
    have hog : og = "chained" := by
      by_cases h : og = "chained"
      · exact h
      · simp [atok, h] at hph
    subst hog
    have hat : atok (.act (.append "chained" cs) o v) = .appendC := by simp [atok]
    rw [hat] at hph
    have hc3 : ph.dry = some false ∧ ph.chained = true ∧ ph.committed = false := by
      by_cases h : ph.dry = some false ∧ ph.chained = true ∧ ph.committed = false
      · exact h
      · simp [h] at hph
    rw [if_pos hc3] at hph
    simp only [Option.some.injEq] at hph
    subst hph
    obtain ⟨l, hl, hlk, hltx, _⟩ := hP.chn hc3.2.1
    change rg.chained = some l at hl
    have hd : dry j.a = false := hP.dryOk false hc3.1
    have hlog : Ack.logOf s j.a = none := hP.ncom hc3.2.2
    have hans : Ack.answered s j.a = false := hP.nfin hfin
    have hnw : ph.waited = false := by
      cases h : ph.waited with
      | false => rfl
      | true => have := hP.wcm h; simp [hc3.2.2] at this
    refine ⟨{ s with mine := (j.a, l) :: s.mine, pending := s.pending ++ [(j.a, l)] }, ?_, ?_, ?_, rfl, rfl,
      by simp [effSh, hl, hpend], ?_⟩
    · simp [evsOf, hl, runOn, Ack.step, hd, hlog, hans]
    · exact { run := hrun', rest := fun _ => hrest, dryOk := hP.dryOk, ntx := hP.ntx, nchn := by simp [hc3.2.1],
              chn := fun _ => hP.chn hc3.2.1,
              com := fun _ => ⟨l, hl, logOf_cons_self s _ _ _ rfl, fun _ => .inl (by simp)⟩, ncom := by simp, cc := fun _ => hc3.2.1,
              wcm := by simp [hnw], wtd := by simp [hnw], fnd := hP.fnd, nfnd := hP.nfnd, kok := by simp [hc3.2.1],
              nfin := fun _ => by simpa [Ack.answered] using hans, ansC := hP.ansC, ansF := by simp [hc3.2.1], npois := hP.npois }
    · refine ⟨fun b hb => ?_, fun _ _ => rfl, fun _ _ => rfl, fun y hy => ?_, fun _ h => h⟩
      · exact logOf_cons_other s _ _ _ _ rfl hb
      · rcases hy with hy | hy
        · exact .inl (by simp [hy])
        · exact .inr hy
    · intro y hy
      simp only [List.mem_append, List.mem_singleton] at hy
      rcases hy with hy | rfl
      · exact .inl hy
      · right
        intro hm
        apply hltx
        rcases hm with hm | hm <;> simp only [hlk] at hm <;> simp [Job.isTx, hm]
  · -- the wait for persistence
    have hat : atok (.act (.wait "persisted") o v) = .waitP := by simp [atok]
    rw [hat] at hph
    have hc : ph.committed = true := by
      cases h : ph.committed with
      | true => rfl
      | false => simp [h] at hph
    simp only [hc, if_true, Option.some.injEq] at hph
    subst hph
    have hq : sh.queue.any (fun q => decide (q.1 = j.a)) = false := by simpa [enabled] using hen
    obtain ⟨l, hl, hlog, hmem⟩ := hP.com hc
    have hw : (j.a, l) ∈ s.written := by
      rcases hmem rfl with h | h
      · rw [hpend] at h
        have : sh.queue.any (fun q => decide (q.1 = j.a)) = true := List.any_eq_true.2 ⟨_, h, by simp⟩
        rw [hq] at this; cases this
      · exact h
    refine ⟨s, rfl, ?_, Others.refl _ _, rfl, rfl, hpend, fun y hy => .inl hy⟩
    exact { run := hrun', rest := fun _ => hrest, dryOk := hP.dryOk, ntx := hP.ntx, nchn := hP.nchn, chn := hP.chn,
            com := fun _ => hP.com hc, ncom := by simp, cc := fun _ => hP.cc hc, wcm := fun _ => rfl,
            wtd := fun _ _ => ⟨l, hl, hw⟩, fnd := hP.fnd, nfnd := hP.nfnd, kok := hP.kok, nfin := fun _ => hP.nfin hfin,
            ansC := hP.ansC, ansF := hP.ansF, npois := hP.npois }
  · -- the scheduling point after the wait
    have hat : atok (.act (.yield "done") o v) = .yieldDone := by simp [atok]
    rw [hat] at hph
    have hc : ph.dry = some true ∨ ph.waited = true := by
      by_cases h : ph.dry = some true ∨ ph.waited = true
      · exact h
      · simp [h] at hph
    rw [if_pos hc] at hph
    simp only [Option.some.injEq] at hph
    subst hph
    refine ⟨s, ?_, ?_, Others.refl _ _, rfl, rfl, hpend, fun y hy => .inl hy⟩
    · by_cases hd : dry j.a = true
      · simp [evsOf, runOn, Ack.step, hd]
      · have hd' : dry j.a = false := by simpa using hd
        have hw : ph.waited = true := by
          rcases hc with h | h
          · have := hP.dryOk true h; change dry j.a = true at this; rw [hd'] at this; cases this
          · exact h
        obtain ⟨l, hl, hlog, _⟩ := hP.com (hP.wcm hw)
        obtain ⟨l', hl', hwr⟩ := hP.wtd hw rfl
        change rg.chained = some l at hl
        change rg.chained = some l' at hl'
        rw [hl] at hl'; cases hl'
        change Ack.logOf s j.a = some l at hlog
        change (j.a, l) ∈ s.written at hwr
        simp [evsOf, runOn, Ack.step, hd', hlog, hwr]
    · exact { run := hrun', rest := fun _ => hrest, dryOk := hP.dryOk, ntx := hP.ntx, nchn := hP.nchn, chn := hP.chn,
              com := hP.com, ncom := hP.ncom, cc := hP.cc, wcm := hP.wcm, wtd := hP.wtd, fnd := hP.fnd, nfnd := hP.nfnd,
              kok := hP.kok, nfin := fun _ => hP.nfin hfin, ansC := hP.ansC, ansF := hP.ansF, npois := hP.npois }
  · -- what the entry point hands back
    have hat : atok (.act (.answer pv) o v) = .answer (provOrigin pv) := rfl
    rw [hat] at hph
    simp only [Option.some.injEq] at hph
    subst hph
    refine ⟨s, rfl, ?_, Others.refl _ _, rfl, rfl, hpend, fun y hy => .inl hy⟩
    exact { run := hrun', rest := fun _ => hrest, dryOk := hP.dryOk, ntx := hP.ntx, nchn := hP.nchn, chn := hP.chn,
            com := hP.com, ncom := hP.ncom, cc := hP.cc, wcm := hP.wcm, wtd := hP.wtd, fnd := hP.fnd, nfnd := hP.nfnd,
            kok := hP.kok, nfin := fun _ => hP.nfin hfin, npois := hP.npois,
            ansC := by
              intro ho l hl
              simp only [Option.some.injEq] at ho
              change rg.chained = some l at hl
              simp [effRg, logOfOrigin, ho, hl],
            ansF := by
              intro ho _ l hl
              simp only [Option.some.injEq] at ho
              change rg.found = some l at hl
              simp [effRg, logOfOrigin, ho, hl] }
  · -- stampTxid
    have hat : atok (.act .stampTxid o v) = .stamp := rfl
    rw [hat] at hph
    have htx : isTxKind j.req.kind = true := by
      cases h : isTxKind j.req.kind with
      | true => rfl
      | false => simp [h] at hph
    simp only [htx, if_true, Option.some.injEq] at hph
    subst hph
    refine ⟨s, rfl, ?_, Others.refl _ _, rfl, rfl, hpend, fun y hy => .inl hy⟩
    exact { run := hrun', rest := fun _ => hrest, dryOk := hP.dryOk,
            ntx := fun h => by change j.isTx = false at h; simp [Job.isTx, isTxKind] at h htx; simp [h] at htx,
            nchn := hP.nchn, chn := hP.chn,
            com := hP.com, ncom := hP.ncom, cc := hP.cc, wcm := hP.wcm, wtd := hP.wtd, fnd := hP.fnd, nfnd := hP.nfnd,
            kok := hP.kok, nfin := fun _ => hP.nfin hfin, ansC := hP.ansC, ansF := hP.ansF, npois := hP.npois }
  · -- peekTxid
    have hat : atok (.act .peekTxid o v) = .stamp := rfl
    rw [hat] at hph
    have htx : isTxKind j.req.kind = true := by
      cases h : isTxKind j.req.kind with
      | true => rfl
      | false => simp [h] at hph
    simp only [htx, if_true, Option.some.injEq] at hph
    subst hph
    refine ⟨s, rfl, ?_, Others.refl _ _, rfl, rfl, hpend, fun y hy => .inl hy⟩
    exact { run := hrun', rest := fun _ => hrest, dryOk := hP.dryOk,
            ntx := fun h => by change j.isTx = false at h; simp [Job.isTx, isTxKind] at h htx; simp [h] at htx,
            nchn := hP.nchn, chn := hP.chn,
            com := hP.com, ncom := hP.ncom, cc := hP.cc, wcm := hP.wcm, wtd := hP.wtd, fnd := hP.fnd, nfnd := hP.nfnd,
            kok := hP.kok, nfin := fun _ => hP.nfin hfin, ansC := hP.ansC, ansF := hP.ansF, npois := hP.npois }
  · -- the entry point returns without error
    have hat : atok (.fin true cls) = .finT := rfl
    rw [hat] at hph
    by_cases hd : dry j.a = true
    · -- a preview: `Ack` does not look at its answer
      have hph' : ph' = { ph with fin := true } := by
        by_cases h1 : ph.dry = some true
        · simpa [h1] using hph.symm
        · simp only [h1, if_false] at hph
          split at hph
          · split at hph
            · simpa using hph.symm
            · cases hph
          · split at hph
            · simpa using hph.symm
            · cases hph
      subst hph'
      refine ⟨s, by simp [evsOf, runOn, Ack.step, hd], ?_, Others.refl _ _, rfl, rfl, hpend, fun y hy => .inl hy⟩
      exact { run := hrun', rest := fun _ => hrest, dryOk := hP.dryOk, ntx := hP.ntx, nchn := hP.nchn, chn := hP.chn,
              com := hP.com, ncom := hP.ncom, cc := hP.cc, wcm := hP.wcm, wtd := hP.wtd, fnd := hP.fnd, nfnd := hP.nfnd,
              kok := hP.kok, nfin := by simp, ansC := hP.ansC, ansF := hP.ansF, npois := hP.npois }
    · have hd' : dry j.a = false := by simpa using hd
      have h1 : ¬ ph.dry = some true := fun h => by
        have := hP.dryOk true h; change dry j.a = true at this; rw [hd'] at this; cases this
      simp only [h1, if_false] at hph
      by_cases hc : ph.committed = true
      · -- its own log
        rw [if_pos hc] at hph
        have hcond : ph.waited = true ∧ (isTxKind j.req.kind = true → ph.answered = some "chained") := by
          by_cases h : ph.waited = true ∧ (isTxKind j.req.kind = true → ph.answered = some "chained")
          · exact h
          · simp [h] at hph
        rw [if_pos hcond] at hph
        simp only [Option.some.injEq] at hph
        subst hph
        obtain ⟨l, hl, hlog, _⟩ := hP.com hc
        obtain ⟨l', hl', hwr⟩ := hP.wtd hcond.1 rfl
        change rg.chained = some l at hl
        change rg.chained = some l' at hl'
        rw [hl] at hl'; cases hl'
        change Ack.logOf s j.a = some l at hlog
        change (j.a, l) ∈ s.written at hwr
        have hans : l.isTx = true → rg.answer = l.txid := by
          intro hist
          by_cases htx : isTxKind j.req.kind = true
          · exact hP.ansC (hcond.2 htx) l hl
          · obtain ⟨l2, hl2, _, hnt, _⟩ := hP.chn (hP.cc hc)
            change rg.chained = some l2 at hl2
            rw [hl] at hl2; cases hl2
            have : l.txid = none := hnt (by simpa [Job.isTx, isTxKind] using htx)
            simp [LogE.isTx, this] at hist
        refine ⟨{ s with acks := ⟨j.a, l, rg.answer⟩ :: s.acks }, ?_, ?_, ?_, rfl, rfl, hpend, fun y hy => .inl hy⟩
        · simp only [evsOf, runOn, Ack.step, hd', Bool.false_eq_true, if_false, hlog]
          have hnw : ¬ (j.a, l) ∉ s.written := fun h => h hwr
          simp only [hnw, if_false]
          by_cases hist : l.isTx = true
          · simp [hist, hans hist]
          · simp [hist]
        · exact { run := hrun', rest := fun _ => hrest, dryOk := hP.dryOk, ntx := hP.ntx, nchn := hP.nchn, chn := hP.chn,
                  com := hP.com, ncom := hP.ncom, cc := hP.cc, wcm := hP.wcm, wtd := hP.wtd, fnd := hP.fnd, nfnd := hP.nfnd,
                  kok := hP.kok, nfin := by simp, ansC := hP.ansC, ansF := hP.ansF, npois := hP.npois }
        · exact ⟨fun _ _ => rfl, fun _ _ => rfl, fun b hb => by simp [Ack.answered, Ne.symm hb], fun _ h => h, fun _ h => h⟩
      · -- the log its key designates
        have hc' : ph.committed = false := by simpa using hc
        rw [if_neg hc] at hph
        have hcond : ph.found = true ∧ ph.chained = false ∧ ph.kindOk = true ∧ (isTxKind j.req.kind = true → ph.answered = some "ikRead") := by
          by_cases h : ph.found = true ∧ ph.chained = false ∧ ph.kindOk = true ∧ (isTxKind j.req.kind = true → ph.answered = some "ikRead")
          · exact h
          · simp [h] at hph
        rw [if_pos hcond] at hph
        simp only [Option.some.injEq] at hph
        subst hph
        obtain ⟨l, hl, hfo⟩ := hP.fnd hcond.1
        change rg.found = some l at hl
        change Ack.foundOf s j.a = some l at hfo
        have hlog : Ack.logOf s j.a = none := hP.ncom hc'
        have hans : l.isTx = true → rg.answer = l.txid := by
          intro hist
          by_cases htx : isTxKind j.req.kind = true
          · exact hP.ansF (hcond.2.2.2 htx) hcond.2.1 l hl
          · have hk : l.kind = j.req.kind := hP.kok hcond.2.2.1 hcond.2.1 l hl
            have hmem : (j.a, l) ∈ s.found := Ack.find_some_mem s.found j.a l hfo
            have hdurable : l ∈ s.durable := hainv.foundOk _ hmem
            have hmk : metaKind l := by
              unfold metaKind
              rw [hk]
              cases hkk : j.req.kind <;> simp [isTxKind, hkk] at htx ⊢
            have := hkinds l hdurable hmk
            simp [LogE.isTx, this] at hist
        refine ⟨{ s with acks := ⟨j.a, l, rg.answer⟩ :: s.acks }, ?_, ?_, ?_, rfl, rfl, hpend, fun y hy => .inl hy⟩
        · simp only [evsOf, runOn, Ack.step, hd', Bool.false_eq_true, if_false, hlog, hfo]
          by_cases hist : l.isTx = true
          · simp [hist, hans hist]
          · simp [hist]
        · exact { run := hrun', rest := fun _ => hrest, dryOk := hP.dryOk, ntx := hP.ntx, nchn := hP.nchn, chn := hP.chn,
                  com := hP.com, ncom := hP.ncom, cc := hP.cc, wcm := hP.wcm, wtd := hP.wtd, fnd := hP.fnd, nfnd := hP.nfnd,
                  kok := hP.kok, nfin := by simp, ansC := hP.ansC, ansF := hP.ansF, npois := hP.npois }
        · exact ⟨fun _ _ => rfl, fun _ _ => rfl, fun b hb => by simp [Ack.answered, Ne.symm hb], fun _ h => h, fun _ h => h⟩
  · -- the entry point returns an error
    have hat : atok (.fin false cls) = .finF := rfl
    rw [hat] at hph
    have hnc : ph.committed = false := by
      cases h : ph.committed with
      | false => rfl
      | true => simp [h, hP.npois] at hph
    have hcnd : (!ph.committed || ph.poisoned) = true := by simp [hnc]
    rw [if_pos hcnd] at hph
    simp only [Option.some.injEq] at hph
    subst hph
    have hlog : Ack.logOf s j.a = none := hP.ncom hnc
    refine ⟨{ s with errs := j.a :: s.errs }, by simp [evsOf, runOn, Ack.step, hlog], ?_, ?_, rfl, rfl, hpend, fun y hy => .inl hy⟩
    · exact { run := hrun', rest := fun _ => hrest, dryOk := hP.dryOk, ntx := hP.ntx, nchn := hP.nchn, chn := hP.chn,
              com := hP.com, ncom := hP.ncom, cc := hP.cc, wcm := hP.wcm, wtd := hP.wtd, fnd := hP.fnd, nfnd := hP.nfnd,
              kok := hP.kok, nfin := by simp, ansC := hP.ansC, ansF := hP.ansF, npois := hP.npois }
    · exact ⟨fun _ _ => rfl, fun _ _ => rfl, fun b hb => by simp [Ack.answered, hb], fun _ h => h, fun _ h => h⟩

-- ------------------------------------------------------------------------------------------------ the step lemma

/-- a request about which `Ack` knows the same as before keeps its part of the invariant -/
theorem api_frame (dry : Nat → Bool) (s s' : Ack.S) (q q' : Proc) (ph : APh) (h : API dry s q ph)
    (hj : q'.job = q.job) (hr : q'.regs = q.regs) (hd : q'.done = q.done)
    (hrest : q'.alive = true → (arun q.job.req.kind ph q'.todo).isSome = true) (hal : q'.alive = true → q.alive = true)
    (hlog : Ack.logOf s' q.job.a = Ack.logOf s q.job.a) (hfnd : Ack.foundOf s' q.job.a = Ack.foundOf s q.job.a)
    (hans : Ack.answered s' q.job.a = Ack.answered s q.job.a)
    (hmem : ∀ x, x ∈ s.pending ∨ x ∈ s.written → q'.alive = true → x ∈ s'.pending ∨ x ∈ s'.written)
    (hwr : ∀ x, x ∈ s.written → x ∈ s'.written) : API dry s' q' ph := by
  refine { run := by rw [hj, hd]; exact h.run, rest := by rw [hj]; exact hrest, dryOk := by rw [hj]; exact h.dryOk,
           ntx := by rw [hj, hr]; exact h.ntx, nchn := by rw [hr]; exact h.nchn, chn := by rw [hj, hr]; exact h.chn,
           com := ?_, ncom := by rw [hj, hlog]; exact h.ncom, cc := h.cc, wcm := h.wcm, wtd := ?_, fnd := ?_,
           nfnd := by rw [hr]; exact h.nfnd, kok := by rw [hj, hr]; exact h.kok, nfin := by rw [hj, hans]; exact h.nfin,
           ansC := by rw [hr]; exact h.ansC, ansF := by rw [hr]; exact h.ansF, npois := h.npois }
  · intro hc
    obtain ⟨l, h1, h2, h3⟩ := h.com hc
    exact ⟨l, by rw [hr]; exact h1, by rw [hj, hlog]; exact h2, fun ha => by rw [hj]; exact hmem _ (h3 (hal ha)) ha⟩
  · intro hw ha
    obtain ⟨l, h1, h2⟩ := h.wtd hw (hal ha)
    exact ⟨l, by rw [hr]; exact h1, by rw [hj]; exact hwr _ h2⟩
  · intro hf
    obtain ⟨l, h1, h2⟩ := h.fnd hf
    exact ⟨l, by rw [hr]; exact h1, by rw [hj, hfnd]; exact h2⟩

theorem others_ne (pre post : List Proc) (P q : Proc) (hnd : ((pre ++ P :: post).map (·.job.a)).Nodup)
    (hq : q ∈ pre ∨ q ∈ post) : q.job.a ≠ P.job.a := by
  simp only [List.map_append, List.map_cons] at hnd
  have h1 := List.nodup_append.1 hnd
  rcases hq with hq | hq
  · intro he
    exact h1.2.2 _ (List.mem_map_of_mem hq) _ (List.mem_cons_self ..) he
  · intro he
    have h2 := (List.nodup_cons.1 h1.2.1).1
    exact h2 (he ▸ List.mem_map_of_mem hq)

/-- has `Ack` heard of actor `a`? -/
def Known (s : Ack.S) (a : Nat) : Prop :=
  (Ack.logOf s a).isSome = true ∨ Ack.answered s a = true ∨ (Ack.foundOf s a).isSome = true

theorem step_inv (dry : Nat → Bool) (adm : Job → Path → Prop)
    (hadm : ∀ j p, adm j p → (arun j.req.kind {} p).isSome = true ∧ j.req.dry = dry j.a)
    (st st' : State) (evs : List Ev) (h : Step adm st evs st') (s : Ack.S) (hi : AInv dry st s) :
    ∃ s', runOn (Ack.step dry) s evs = .ok s' ∧ AInv dry st' s' := by
  cases h with
  | item pre post j rg dn x rest hp hen hq =>
    have hmemP : (⟨j, rg, dn, true, x :: rest⟩ : Proc) ∈ st.procs := by rw [hp]; simp
    obtain ⟨ph, hP⟩ := hi.procs _ hmemP
    obtain ⟨ph', hph, hrest⟩ := arun_cons_some j.req.kind ph x rest (hP.rest rfl)
    obtain ⟨s', hrun, hP', hO, hdur', hstore, hpend', hkp⟩ :=
      item_step dry s st.sh j rg dn x rest ph ph' hP hen hph hrest hi.dur hi.pend (hi.jobs _ hmemP) hi.ainv hi.kinds
    have hnd := hi.nodup
    rw [hp] at hnd
    refine ⟨s', hrun, ?_⟩
    refine { dur := by rw [hdur', hi.dur, hstore], pend := hpend', nodup := by simpa using hnd, procs := ?_, known := ?_,
             ainv := Ack.run_inv dry _ s s' hi.ainv hrun, kinds := by rw [hdur']; exact hi.kinds, kindsP := ?_, jobs := ?_ }
    · intro q hq
      simp only [List.mem_append, List.mem_cons] at hq
      rcases hq with hq | rfl | hq
      · obtain ⟨phq, hQ⟩ := hi.procs q (by rw [hp]; simp [hq])
        exact ⟨phq, api_other dry s s' j.a q phq hQ (others_ne pre post _ q hnd (.inl hq)) hO⟩
      · exact ⟨ph', hP'⟩
      · obtain ⟨phq, hQ⟩ := hi.procs q (by rw [hp]; simp [hq])
        exact ⟨phq, api_other dry s s' j.a q phq hQ (others_ne pre post _ q hnd (.inr hq)) hO⟩
    · intro a ha
      by_cases hae : a = j.a
      · exact ⟨⟨j, effRg st.sh j rg x, dn ++ [x], true, rest⟩, by simp, hae.symm⟩
      · have hk : (Ack.logOf s a).isSome = true ∨ Ack.answered s a = true ∨ (Ack.foundOf s a).isSome = true := by
          rw [← hO.log a hae, ← hO.ans a hae, ← hO.fnd a hae]; exact ha
        obtain ⟨q, hq, hqa⟩ := hi.known a hk
        rw [hp] at hq
        simp only [List.mem_append, List.mem_cons] at hq
        rcases hq with hq | rfl | hq
        · exact ⟨q, by simp [hq], hqa⟩
        · exact absurd hqa.symm hae
        · exact ⟨q, by simp [hq], hqa⟩
    · intro y hy
      rcases hkp y hy with h | h
      · exact hi.kindsP y h
      · exact h
    · intro q hq
      simp only [List.mem_append, List.mem_cons] at hq
      rcases hq with hq | rfl | hq
      · exact hi.jobs q (by rw [hp]; simp [hq])
      · exact hi.jobs ⟨j, rg, dn, true, x :: rest⟩ hmemP
      · exact hi.jobs q (by rw [hp]; simp [hq])
  | gate n ok h0 hn =>
    have hlen : s.pending.length = st.sh.queue.length := by rw [hi.pend]
    have hcond : ¬ (n = 0 ∨ n > s.pending.length) := by omega
    cases ok with
    | false =>
      refine ⟨s, by simp [runOn, Ack.step, hcond], ?_⟩
      simpa using hi
    | true =>
      let s' : Ack.S :=
        { s with durable := s.durable ++ (s.pending.take n).map (·.2), written := (s.written ++ s.pending.take n), pending := (s.pending.drop n) }
      have hrun : runOn (Ack.step dry) s [.gate n true] = .ok s' := by simp [runOn, Ack.step, hcond, s']
      refine ⟨s', hrun, ?_⟩
      simp only [if_true]
      refine { dur := by simp [s', persist, hi.dur, hi.pend], pend := by simp [s', persist, hi.pend], nodup := hi.nodup,
               procs := ?_, known := hi.known, ainv := Ack.run_inv dry _ s s' hi.ainv hrun, kinds := ?_, kindsP := ?_, jobs := hi.jobs }
      · intro q hq
        obtain ⟨phq, hQ⟩ := hi.procs q hq
        refine ⟨phq, api_frame dry s s' q q phq hQ rfl rfl rfl hQ.rest (fun h => h) rfl rfl rfl ?_ ?_⟩
        · intro y hy _
          rcases hy with hy | hy
          · have := List.take_append_drop n s.pending
            rw [← this] at hy
            rcases List.mem_append.1 hy with h | h
            · exact .inr (by simp [s', h])
            · exact .inl h
          · exact .inr (by simp [s', hy])
        · intro y hy; simp [s', hy]
      · intro l hl hm
        simp only [s', List.mem_append, List.mem_map] at hl
        rcases hl with hl | ⟨y, hy, rfl⟩
        · exact hi.kinds l hl hm
        · exact hi.kindsP y (List.mem_of_mem_take hy) hm
      · intro y hy hm
        exact hi.kindsP y (List.mem_of_mem_drop hy) hm
  | crash =>
    let s' : Ack.S := { s with pending := [], dropped := s.pending.map (·.1) ++ s.dropped }
    have hrun : runOn (Ack.step dry) s [.crash] = .ok s' := by simp [runOn, Ack.step, s']
    refine ⟨s', hrun, ?_⟩
    refine { dur := by simp [s', restart, hi.dur], pend := by simp [s', restart], nodup := ?_, procs := ?_, known := ?_,
             ainv := Ack.run_inv dry _ s s' hi.ainv hrun, kinds := hi.kinds, kindsP := by simp [s'], jobs := ?_ }
    · have := hi.nodup
      simpa [List.map_map, Function.comp_def] using this
    · intro q hq
      simp only [List.mem_map] at hq
      obtain ⟨q0, hq0, rfl⟩ := hq
      obtain ⟨phq, hQ⟩ := hi.procs q0 hq0
      exact ⟨phq, api_frame dry s s' q0 _ phq hQ rfl rfl rfl (by simp) (by simp) rfl rfl rfl (by simp) (fun _ h => h)⟩
    · intro a ha
      obtain ⟨q, hq, hqa⟩ := hi.known a ha
      exact ⟨_, List.mem_map_of_mem hq, hqa⟩
    · intro q hq
      simp only [List.mem_map] at hq
      obtain ⟨q0, hq0, rfl⟩ := hq
      exact hi.jobs q0 hq0
  | arrive j p hfresh hadm' =>
    have hunk : ¬ ((Ack.logOf s j.a).isSome = true ∨ Ack.answered s j.a = true ∨ (Ack.foundOf s j.a).isSome = true) := by
      intro hk
      obtain ⟨q, hq, hqa⟩ := hi.known j.a hk
      exact hfresh q hq hqa
    have hl : Ack.logOf s j.a = none := by
      cases h : Ack.logOf s j.a with
      | none => rfl
      | some l => exact absurd (.inl (by simp [h])) hunk
    have ha : Ack.answered s j.a = false := by
      cases h : Ack.answered s j.a with
      | false => rfl
      | true => exact absurd (.inr (.inl h)) hunk
    refine ⟨s, rfl, ?_⟩
    refine { dur := hi.dur, pend := hi.pend, nodup := ?_, procs := ?_, known := ?_, ainv := hi.ainv, kinds := hi.kinds,
             kindsP := hi.kindsP, jobs := ?_ }
    · simp only [List.map_append, List.map_cons, List.map_nil]
      refine List.nodup_append.2 ⟨hi.nodup, by simp, ?_⟩
      intro a ha b hb
      simp only [List.mem_map] at ha
      obtain ⟨q, hq, rfl⟩ := ha
      simp only [List.mem_singleton] at hb
      subst hb
      exact hfresh q hq
    · intro q hq
      simp only [List.mem_append, List.mem_singleton] at hq
      rcases hq with hq | rfl
      · exact hi.procs q hq
      · exact ⟨{}, { run := rfl, rest := fun _ => (hadm j p hadm').1, dryOk := by simp, ntx := fun _ => rfl, nchn := fun _ => rfl,
                      chn := by simp, com := by simp, ncom := fun _ => hl, cc := by simp, wcm := by simp, wtd := by simp,
                      fnd := by simp, nfnd := fun _ => rfl, kok := by simp, nfin := fun _ => ha, ansC := by simp, ansF := by simp,
                      npois := rfl }⟩
    · intro a hk
      obtain ⟨q, hq, hqa⟩ := hi.known a hk
      exact ⟨q, by simp [hq], hqa⟩
    · intro q hq
      simp only [List.mem_append, List.mem_singleton] at hq
      rcases hq with hq | rfl
      · exact hi.jobs q hq
      · exact (hadm j p hadm').2

theorem init_inv (dry : Nat → Bool) (store : List LogE) (hk : ∀ l ∈ store, metaKind l → l.txid = none) :
    AInv dry (init store) (Ack.init store) := by
  refine { dur := rfl, pend := rfl, nodup := by simp [init], procs := by intro p hp; simp [init] at hp, known := ?_,
           ainv := Ack.init_inv dry store, kinds := hk, kindsP := by simp [Ack.init], jobs := by intro p hp; simp [init] at hp }
  intro a ha
  simp [Ack.init, Ack.logOf, Ack.answered, Ack.foundOf] at ha

/-- **`SkelSys` refines `Ack`**: every trace of the system that interprets admitted control paths is accepted -/
theorem run_refines (dry : Nat → Bool) (adm : Job → Path → Prop)
    (hadm : ∀ j p, adm j p → (arun j.req.kind {} p).isSome = true ∧ j.req.dry = dry j.a)
    (st0 st : State) (tr : List Ev) (h : Run adm st0 tr st) (s0 : Ack.S) (hi : AInv dry st0 s0) :
    ∃ s, runOn (Ack.step dry) s0 tr = .ok s ∧ AInv dry st s := by
  induction h with
  | nil => exact ⟨s0, rfl, hi⟩
  | cons st1 st2 evs tr _ hstep ih =>
    obtain ⟨s1, h1, hi1⟩ := ih
    obtain ⟨s2, h2, hi2⟩ := step_inv dry adm hadm st1 st2 evs hstep s1 hi1
    exact ⟨s2, by rw [runOn_append, h1]; exact h2, hi2⟩

end Engine.Skel.AckRef
