import Lemmas.PaginateSort
/-! Helper lemmas for C17: what one call of `UsingColumn` answers, in closed form, when the listing is cut at the
position the query stands for. -/
namespace Paginate

theorem listing_strict (o : Order) {tbl : List Row} (h : UniqueIds tbl) (keep : Row → Bool) :
    Strict o (listing tbl keep o) := orderBy_strict o (h.filter keep)

theorem select_fwd {tbl : List Row} (h : UniqueIds tbl) (keep b : Row → Bool) (o : Order) (lim : Option Nat) (off : Nat) :
    select tbl (fun r => keep r && b r) o lim off = limit lim (((listing tbl keep o).filter b).drop off) := by
  have : tbl.filter (fun r => keep r && b r) = (tbl.filter keep).filter b := by
    rw [List.filter_filter]; congr 1; funext r; exact Bool.and_comm _ _
  unfold select listing
  rw [this, orderBy_filter o (h.filter keep) b]

theorem select_rev {tbl : List Row} (h : UniqueIds tbl) (keep b : Row → Bool) (o : Order) (lim : Option Nat) (off : Nat) :
    select tbl (fun r => keep r && b r) o.rev lim off = limit lim ((((listing tbl keep o).filter b).reverse).drop off) := by
  have : tbl.filter (fun r => keep r && b r) = (tbl.filter keep).filter b := by
    rw [List.filter_filter]; congr 1; funext r; exact Bool.and_comm _ _
  unfold select listing
  rw [this, orderBy_rev o ((h.filter keep).filter b), orderBy_filter o (h.filter keep) b]

theorem select_plain {tbl : List Row} (keep : Row → Bool) (o : Order) (lim : Option Nat) (off : Nat) :
    select tbl keep o lim off = limit lim ((listing tbl keep o).drop off) := rfl

/-! the `WHERE` clause of `UsingColumn` -/

theorem bound_none {F} (q : ColQuery F) (h : q.paginationID = none) (x : Int) : bound q x = true := by
  simp [bound, h]

theorem bound_fwd {F} (q : ColQuery F) (p : Int) (h : q.paginationID = some p) (hr : q.reverse = false) (x : Int) :
    bound q x = !q.order.ltb x p := by
  cases ho : q.order <;> simp [bound, h, hr, ho, Order.ltb]
  · by_cases hx : x < p <;> simp [hx] <;> omega
  · by_cases hx : p < x <;> simp [hx] <;> omega

theorem bound_rev {F} (q : ColQuery F) (p : Int) (h : q.paginationID = some p) (hr : q.reverse = true) (x : Int) :
    bound q x = q.order.ltb x p := by
  cases ho : q.order <;> simp [bound, h, hr, ho, Order.ltb]

/-! cutting a strictly ordered list at one of its rows -/

theorem filter_from {o : Order} {pre rest : List Row} {x : Row} (h : Strict o (pre ++ x :: rest)) :
    (pre ++ x :: rest).filter (fun y => !o.ltb y.id x.id) = x :: rest := by
  obtain ⟨_, h2, h3⟩ := List.pairwise_append.mp h
  have hx := List.pairwise_cons.mp h2
  rw [List.filter_append]
  have e1 : pre.filter (fun y => !o.ltb y.id x.id) = [] := by
    apply List.filter_eq_nil_iff.mpr
    intro y hy
    simp [h3 y hy x (by simp)]
  have e2 : (x :: rest).filter (fun y => !o.ltb y.id x.id) = x :: rest := by
    apply List.filter_eq_self.mpr
    intro y hy
    rcases List.mem_cons.mp hy with rfl | hy
    · simp [o.ltb_irrefl]
    · simp [o.ltb_asymm (hx.1 y hy)]
  rw [e1, e2]; rfl

theorem filter_before {o : Order} {pre rest : List Row} {x : Row} (h : Strict o (pre ++ x :: rest)) :
    (pre ++ x :: rest).filter (fun y => o.ltb y.id x.id) = pre := by
  obtain ⟨_, h2, h3⟩ := List.pairwise_append.mp h
  have hx := List.pairwise_cons.mp h2
  rw [List.filter_append]
  have e1 : pre.filter (fun y => o.ltb y.id x.id) = pre := by
    apply List.filter_eq_self.mpr
    intro y hy
    exact h3 y hy x (by simp)
  have e2 : (x :: rest).filter (fun y => o.ltb y.id x.id) = [] := by
    apply List.filter_eq_nil_iff.mpr
    intro y hy
    rcases List.mem_cons.mp hy with rfl | hy
    · simp [o.ltb_irrefl]
    · simp [o.ltb_asymm (hx.1 y hy)]
  rw [e1, e2]; simp

theorem exists_split {α} (n : Nat) (S : List α) (h : n < S.length) : ∃ A y B, S = A ++ y :: B ∧ A.length = n := by
  refine ⟨S.take n, S[n], S.drop (n + 1), ?_, by simp; omega⟩
  rw [← List.drop_eq_getElem_cons h, List.take_append_drop]

/-- the `previous` link of a page that was reached going forward -/
def prevOf {F} (q : ColQuery F) (p b : Int) : Option (ColQuery F) :=
  if (q.order == .asc && decide (p > b)) || (q.order == .desc && decide (p < b)) then some { q with reverse := true } else none

/-! the part of `UsingColumn` after the scan, on the row lists that occur -/

theorem prevOf_eq {F} (ps : Nat) (b : Int) (col : String) (p : Int) (o : Order) (f : F) :
    prevOf (⟨ps, some b, col, some p, o, f, false⟩ : ColQuery F) p b =
      if (o == .asc && decide (p > b)) || (o == .desc && decide (p < b)) then some ⟨ps, some b, col, some p, o, f, true⟩ else none := rfl

/-- forward page, not the last one: the database returned `A ++ [y]`, `A` fills the page -/
theorem pageRows_fwd_more {F} (ps : Nat) (b : Int) (col : String) (p : Int) (o : Order) (f : F) (A : List Row) (y : Row)
    (hA : A.length = ps) :
    pageRows (⟨ps, some b, col, some p, o, f, false⟩ : ColQuery F) (A ++ [y]) =
      .ok ⟨A, true, prevOf ⟨ps, some b, col, some p, o, f, false⟩ p b, some ⟨ps, some b, col, some y.id, o, f, false⟩⟩ := by
  simp [pageRows, hA, prevOf]

theorem pageRows_fwd_last {F} (ps : Nat) (b : Int) (col : String) (p : Int) (o : Order) (f : F) (S : List Row)
    (hS : S.length ≤ ps) :
    pageRows (⟨ps, some b, col, some p, o, f, false⟩ : ColQuery F) S =
      .ok ⟨S, false, prevOf ⟨ps, some b, col, some p, o, f, false⟩ p b, none⟩ := by
  have : ¬ ps < S.length := by omega
  simp [pageRows, this, prevOf]

theorem pageRows_first_more {F} (ps : Nat) (col : String) (o : Order) (f : F) (a : Row) (A : List Row) (y : Row)
    (hA : (a :: A).length = ps) :
    pageRows (⟨ps, none, col, none, o, f, false⟩ : ColQuery F) (a :: A ++ [y]) =
      .ok ⟨a :: A, true, none, some ⟨ps, some a.id, col, some y.id, o, f, false⟩⟩ := by
  simp at hA
  simp [pageRows, ← hA]
  constructor
  · rw [← List.cons_append, List.dropLast_concat]
  · rw [← List.cons_append, List.getLast?_concat]

theorem pageRows_first_last {F} (ps : Nat) (col : String) (o : Order) (f : F) (S : List Row) (hS : S.length ≤ ps) :
    pageRows (⟨ps, none, col, none, o, f, false⟩ : ColQuery F) S = .ok ⟨S, false, none, none⟩ := by
  have : ¬ ps < S.length := by omega
  simp [pageRows, this]

/-- backward page that shows everything before the position -/
theorem pageRows_rev_all {F} (ps : Nat) (b : Int) (col : String) (p : Int) (o : Order) (f : F) (pre : List Row)
    (hS : pre.length ≤ ps) :
    pageRows (⟨ps, some b, col, some p, o, f, true⟩ : ColQuery F) pre.reverse =
      .ok ⟨pre, true, none, some ⟨ps, some b, col, some p, o, f, false⟩⟩ := by
  have : ¬ ps < pre.length := by omega
  simp [pageRows, this]

/-- backward page with more before it: the database returned `A.reverse ++ [z]` -/
theorem pageRows_rev_more {F} (ps : Nat) (b : Int) (col : String) (p : Int) (o : Order) (f : F) (a : Row) (A : List Row) (z : Row)
    (hA : (a :: A).length = ps) :
    pageRows (⟨ps, some b, col, some p, o, f, true⟩ : ColQuery F) ((a :: A).reverse ++ [z]) =
      .ok ⟨a :: A, true, some ⟨ps, some b, col, some a.id, o, f, true⟩, some ⟨ps, some b, col, some p, o, f, false⟩⟩ := by
  simp at hA
  simp [pageRows, ← hA]

/-! one call of `UsingColumn` when the listing is cut at the row the query points at -/

theorem pageCol_first {F} {tbl : List Row} (keep : Row → Bool) (ps : Nat) (o : Order) (f : F) :
    pageCol tbl keep (⟨ps, none, idColumn, none, o, f, false⟩ : ColQuery F) =
      pageRows ⟨ps, none, idColumn, none, o, f, false⟩ ((listing tbl keep o).take (ps + 1)) := by
  have hb : (fun r : Row => keep r && bound (⟨ps, none, idColumn, none, o, f, false⟩ : ColQuery F) r.id) = keep := by
    funext r; simp [bound]
  simp [pageCol, hb, select_plain, limit]

theorem pageCol_fwd {F} {tbl : List Row} (h : UniqueIds tbl) (keep : Row → Bool) (ps : Nat) (b : Int) (o : Order) (f : F)
    (pre rest : List Row) (x : Row) (hL : listing tbl keep o = pre ++ x :: rest) :
    pageCol tbl keep (⟨ps, some b, idColumn, some x.id, o, f, false⟩ : ColQuery F) =
      pageRows ⟨ps, some b, idColumn, some x.id, o, f, false⟩ ((x :: rest).take (ps + 1)) := by
  have hb : (fun r : Row => keep r && bound (⟨ps, some b, idColumn, some x.id, o, f, false⟩ : ColQuery F) r.id)
      = (fun r => keep r && (fun y : Row => !o.ltb y.id x.id) r) := by
    funext r; rw [bound_fwd _ x.id rfl rfl]
  have hs := listing_strict o h keep
  rw [hL] at hs
  simp only [pageCol, bne_self_eq_false, Bool.false_eq_true, if_false]
  rw [hb, select_fwd h, hL, filter_from hs]
  simp [limit]

theorem pageCol_rev {F} {tbl : List Row} (h : UniqueIds tbl) (keep : Row → Bool) (ps : Nat) (b : Int) (o : Order) (f : F)
    (pre rest : List Row) (x : Row) (hL : listing tbl keep o = pre ++ x :: rest) :
    pageCol tbl keep (⟨ps, some b, idColumn, some x.id, o, f, true⟩ : ColQuery F) =
      pageRows ⟨ps, some b, idColumn, some x.id, o, f, true⟩ (pre.reverse.take (ps + 1)) := by
  have hb : (fun r : Row => keep r && bound (⟨ps, some b, idColumn, some x.id, o, f, true⟩ : ColQuery F) r.id)
      = (fun r => keep r && (fun y : Row => o.ltb y.id x.id) r) := by
    funext r; rw [bound_rev _ x.id rfl rfl]
  have hs := listing_strict o h keep
  rw [hL] at hs
  simp only [pageCol, bne_self_eq_false, Bool.false_eq_true, if_false, if_true]
  rw [hb, select_rev h, hL, filter_before hs]
  simp [limit]

/-- closed form of a forward page in the middle of the listing -/
theorem page_fwd {F} {tbl : List Row} (hU : UniqueIds tbl) (keep : Row → Bool) (ps : Nat) (b : Int) (o : Order) (f : F)
    (pre : List Row) (x : Row) (rest : List Row) (hL : listing tbl keep o = pre ++ x :: rest) :
    (x :: rest).length ≤ ps ∧
      pageCol tbl keep (⟨ps, some b, idColumn, some x.id, o, f, false⟩ : ColQuery F) =
        .ok ⟨x :: rest, false, prevOf ⟨ps, some b, idColumn, some x.id, o, f, false⟩ x.id b, none⟩
    ∨ ∃ A y B, x :: rest = A ++ y :: B ∧ A.length = ps ∧
      pageCol tbl keep (⟨ps, some b, idColumn, some x.id, o, f, false⟩ : ColQuery F) =
        .ok ⟨A, true, prevOf ⟨ps, some b, idColumn, some x.id, o, f, false⟩ x.id b, some ⟨ps, some b, idColumn, some y.id, o, f, false⟩⟩ := by
  rw [pageCol_fwd hU keep ps b o f pre rest x hL]
  by_cases hlen : (x :: rest).length ≤ ps
  · left
    refine ⟨hlen, ?_⟩
    rw [List.take_of_length_le (by omega)]
    exact pageRows_fwd_last ps b idColumn x.id o f _ hlen
  · right
    obtain ⟨A, y, B, hS, hA⟩ := exists_split ps (x :: rest) (by omega)
    refine ⟨A, y, B, hS, hA, ?_⟩
    rw [hS, ← hA, List.take_length_add_append]
    simp only [List.take_succ_cons, List.take_zero]
    exact pageRows_fwd_more _ b idColumn x.id o f A y rfl

theorem page_first {F} {tbl : List Row} (keep : Row → Bool) (ps : Nat) (hps : 1 ≤ ps) (o : Order) (f : F) :
    (listing tbl keep o).length ≤ ps ∧
      pageCol tbl keep (⟨ps, none, idColumn, none, o, f, false⟩ : ColQuery F) = .ok ⟨listing tbl keep o, false, none, none⟩
    ∨ ∃ a A y B, listing tbl keep o = (a :: A) ++ y :: B ∧ (a :: A).length = ps ∧
      pageCol tbl keep (⟨ps, none, idColumn, none, o, f, false⟩ : ColQuery F) =
        .ok ⟨a :: A, true, none, some ⟨ps, some a.id, idColumn, some y.id, o, f, false⟩⟩ := by
  rw [pageCol_first]
  by_cases hlen : (listing tbl keep o).length ≤ ps
  · left
    refine ⟨hlen, ?_⟩
    rw [List.take_of_length_le (by omega)]
    exact pageRows_first_last ps idColumn o f _ hlen
  · right
    obtain ⟨A, y, B, hS, hA⟩ := exists_split ps (listing tbl keep o) (by omega)
    cases A with
    | nil => simp at hA; omega
    | cons a A =>
      refine ⟨a, A, y, B, hS, hA, ?_⟩
      rw [hS, ← hA, List.take_length_add_append]
      simp only [List.take_succ_cons, List.take_zero]
      exact pageRows_first_more _ idColumn o f a A y rfl

/-- closed form of the page `previous` leads to: the `ps` rows just before the position -/
theorem page_rev {F} {tbl : List Row} (hU : UniqueIds tbl) (keep : Row → Bool) (ps : Nat) (hps : 1 ≤ ps) (b : Int) (o : Order) (f : F)
    (pre A : List Row) (y : Row) (B : List Row) (hA : A.length = ps) (hL : listing tbl keep o = pre ++ A ++ y :: B) :
    ∃ prev, pageCol tbl keep (⟨ps, some b, idColumn, some y.id, o, f, true⟩ : ColQuery F) =
      .ok ⟨A, true, prev, some ⟨ps, some b, idColumn, some y.id, o, f, false⟩⟩ := by
  rw [pageCol_rev hU keep ps b o f (pre ++ A) B y hL]
  rcases List.eq_nil_or_concat pre with rfl | ⟨pre0, z, rfl⟩
  · refine ⟨none, ?_⟩
    simp only [List.nil_append]
    rw [List.take_of_length_le (by simp; omega)]
    exact pageRows_rev_all ps b idColumn y.id o f A (by omega)
  · cases A with
    | nil => simp at hA; omega
    | cons a A =>
      refine ⟨some ⟨ps, some b, idColumn, some a.id, o, f, true⟩, ?_⟩
      have e : (pre0.concat z ++ a :: A).reverse = (a :: A).reverse ++ z :: pre0.reverse := by simp
      have hl : (a :: A).reverse.length = ps := by simpa using hA
      rw [e, ← hl, List.take_length_add_append]
      simp only [List.take_succ_cons, List.take_zero]
      rw [hl]
      exact pageRows_rev_more ps b idColumn y.id o f a A z hA

end Paginate
