import Model.Log.Time
import Lemmas.LogCalendar
/-! Helper lemmas for `accepted_wf` (Props/C13): whatever `parseTime` accepts is a well-formed time. -/
namespace LogM

theorem digitVal_le (c : Char) (d : Nat) (h : digitVal c = some d) : d ≤ 9 := by
  unfold digitVal at h
  repeat' split at h
  all_goals first | (injection h with h; omega) | contradiction

theorem num4_lt (cs rest : List Char) (n : Nat) (h : num4 cs = some (n, rest)) : n < 10000 := by
  unfold num4 at h
  split at h
  · rename_i a b c d r
    split at h
    · rename_i x y z w hx hy hz hw
      have := digitVal_le _ _ hx; have := digitVal_le _ _ hy; have := digitVal_le _ _ hz; have := digitVal_le _ _ hw
      injection h with h; injection h with h1 h2
      omega
    · contradiction
  · contradiction

theorem spanDigits_le (cs : List Char) : ∀ d ∈ (spanDigits cs).1, d ≤ 9 := by
  induction cs with
  | nil => simp [spanDigits]
  | cons c cs ih =>
    unfold spanDigits
    split
    · rename_i d hd
      intro x hx
      simp only [List.mem_cons] at hx
      rcases hx with hx | hx
      · subst hx; exact digitVal_le _ _ hd
      · exact ih x hx
    · simp

theorem fracVal_lt (ds : List Nat) (w : Nat) (h : ∀ d ∈ ds, d ≤ 9) : fracVal ds w < 10 ^ w := by
  induction w generalizing ds with
  | zero => simp [fracVal]
  | succ w ih =>
    cases ds with
    | nil => simp only [fracVal]; exact Nat.pow_pos (by decide)
    | cons d ds =>
      have hd := h d (List.mem_cons_self ..)
      have := ih ds (fun x hx => h x (List.mem_cons_of_mem _ hx))
      simp only [fracVal]
      have hp : 10 ^ (w + 1) = 10 * 10 ^ w := by rw [Nat.pow_succ, Nat.mul_comm]
      have : d * 10 ^ w ≤ 9 * 10 ^ w := Nat.mul_le_mul_right _ hd
      omega

theorem parseFrac_lt (cs : List Char) : (parseFrac cs).1 < 1000000000 := by
  unfold parseFrac
  split
  · rename_i sep c rest
    by_cases hc : (sep = '.' ∨ sep = ',') ∧ (digitVal c).isSome
    · rw [if_pos hc]
      have := fracVal_lt (spanDigits (c :: rest)).1 9 (spanDigits_le _)
      simpa using this
    · rw [if_neg hc]; simp
  · simp

theorem parseZone_range (cs : List Char) (off : Int) (h : parseZone cs = .ok off) :
    off % 60 = 0 ∧ -90000 ≤ off ∧ off ≤ 90000 := by
  unfold parseZone at h
  split at h
  · injection h with h; subst h; decide
  · split at h
    · contradiction
    · split at h
      · contradiction
      · split at h
        · contradiction
        · rename_i hh _ _ _ _ mm _ _
          split at h
          · contradiction
          · split at h
            · contradiction
            · split at h
              · contradiction
              · rename_i hr
                injection h with h
                subst h
                split <;> omega
  · contradiction

/-- what `time.Parse` can return: fields in range, any nanosecond, offset up to ±25 h -/
def RawValid (t : Time) : Prop :=
  0 ≤ t.year ∧ t.year ≤ 9999 ∧ 1 ≤ t.month ∧ t.month ≤ 12 ∧ 1 ≤ t.day ∧ t.day ≤ daysIn t.month t.year ∧
  t.hour ≤ 23 ∧ t.min ≤ 59 ∧ t.sec ≤ 59 ∧ t.nanos < 1000000000 ∧ t.off % 60 = 0 ∧ -90000 ≤ t.off ∧ t.off ≤ 90000

theorem parseRaw_valid (cs : List Char) (t : Time) (h : parseRaw cs = .ok t) : RawValid t := by
  unfold parseRaw at h
  repeat' split at h
  all_goals try contradiction
  rename_i hrange
  simp only at h
  split at h
  · contradiction
  · rename_i off hz
    injection h with h
    subst h
    have hy4 := num4_lt _ _ _ ‹num4 cs = some _›
    have hzr := parseZone_range _ _ hz
    have hf := parseFrac_lt ‹List Char›
    simp only [RawValid]
    omega

theorem daysIn_pos (m : Nat) (y : Int) : 28 ≤ daysIn m y := by
  unfold daysIn; split <;> (try split) <;> omega

theorem addSecond_valid (t : Time) (h : RawValid t) (h0 : t.nanos = 0) :
    0 ≤ (addSecond t).year ∧ (addSecond t).year ≤ 10000 ∧ 1 ≤ (addSecond t).month ∧ (addSecond t).month ≤ 12 ∧
    1 ≤ (addSecond t).day ∧ (addSecond t).day ≤ daysIn (addSecond t).month (addSecond t).year ∧
    (addSecond t).hour ≤ 23 ∧ (addSecond t).min ≤ 59 ∧ (addSecond t).sec ≤ 59 ∧ (addSecond t).nanos = 0 ∧
    (addSecond t).off = t.off := by
  obtain ⟨a1, a2, a3, a4, a5, a6, a7, a8, a9, _, _⟩ := h
  have hp1 := daysIn_pos (t.month + 1) t.year
  have hp2 := daysIn_pos 1 (t.year + 1)
  unfold addSecond
  repeat' split
  all_goals (first | (simp; omega) | omega)

/-- civil fields in range, on a microsecond — everything `TimeWF` asks except the year bounds and the offset -/
def FieldsValid (t : Time) : Prop :=
  1 ≤ t.month ∧ t.month ≤ 12 ∧ 1 ≤ t.day ∧ t.day ≤ daysIn t.month t.year ∧
  t.hour ≤ 23 ∧ t.min ≤ 59 ∧ t.sec ≤ 59 ∧ t.nanos < 1000000000 ∧ t.nanos % 1000 = 0

/-- `Round(Microsecond)` of what `time.Parse` returns: fields still in range (the carry of a full second may run up to the
year), now on a microsecond, same offset -/
theorem roundMicro_valid (t0 : Time) (hv : RawValid t0) : FieldsValid (roundMicro t0) ∧ (roundMicro t0).off = t0.off := by
  obtain ⟨a0, a1, a2, a3, a4, a5, a6, a7, a8, a9, a10, a11, a12⟩ := hv
  by_cases h0 : t0.nanos % 1000 = 0
  · simp only [roundMicro, h0, if_true]
    exact ⟨⟨a2, a3, a4, a5, a6, a7, a8, a9, h0⟩, trivial⟩
  · by_cases h1 : 2 * (t0.nanos % 1000) < 1000
    · simp only [roundMicro, h0, h1, if_true, if_false]
      exact ⟨⟨a2, a3, a4, a5, a6, a7, a8, by show t0.nanos - t0.nanos % 1000 < 1000000000; omega,
        by show (t0.nanos - t0.nanos % 1000) % 1000 = 0; omega⟩, trivial⟩
    · by_cases h2 : t0.nanos - t0.nanos % 1000 + 1000 < 1000000000
      · simp only [roundMicro, h0, h1, h2, if_true, if_false]
        exact ⟨⟨a2, a3, a4, a5, a6, a7, a8, h2, by show (t0.nanos - t0.nanos % 1000 + 1000) % 1000 = 0; omega⟩, trivial⟩
      · simp only [roundMicro, h0, h1, h2, if_false]
        have hv0 : RawValid { t0 with nanos := 0 } := ⟨a0, a1, a2, a3, a4, a5, a6, a7, a8, by simp, a10, a11, a12⟩
        obtain ⟨b0, b1, b2, b3, b4, b5, b6, b7, b8, b9, b10⟩ := addSecond_valid { t0 with nanos := 0 } hv0 rfl
        exact ⟨⟨b2, b3, b4, b5, b6, b7, b8, by rw [b9]; decide, by rw [b9]⟩, b10⟩

/-- `UTC()` of a time with fields in range: fields in range again (for the reading at offset 0 of ANY instant:
`ofUnix_valid`), same nanoseconds, offset 0 -/
theorem toUTC_valid (t : Time) (hv : FieldsValid t) : FieldsValid (toUTC t) ∧ (toUTC t).off = 0 := by
  unfold toUTC
  split
  · rename_i h; exact ⟨hv, h⟩
  · obtain ⟨c1, c2, c3, c4, c5, c6, c7, c8, c9⟩ := ofUnix_valid t.unixSec t.nanos 0
    obtain ⟨_, _, _, _, _, _, _, n1, n2⟩ := hv
    exact ⟨⟨c1, c2, c3, c4, c5, c6, c7, by rw [c8]; exact n1, by rw [c8]; exact n2⟩, c9⟩

theorem parseTime_wf (s : String) (t : Time) (h : parseTime s = .ok t) : TimeWF t := by
  unfold parseTime at h
  split at h
  · contradiction
  · rename_i t0 hp
    have hv := parseRaw_valid _ _ hp
    simp only at h
    split at h
    · rename_i hr
      injection h with h
      subst h
      simp only [readable, decide_eq_true_eq] at hr
      obtain ⟨⟨f1, f2, f3, f4, f5, f6, f7, f8, f9⟩, ho⟩ := toUTC_valid _ (roundMicro_valid t0 hv).1
      exact ⟨hr.1, hr.2, f1, f2, f3, f4, f5, f6, f7, f8, f9, ho⟩
    · contradiction

end LogM
