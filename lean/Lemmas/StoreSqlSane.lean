import Lemmas.StoreSqlAbs
/-! C04 stage 2, layer 2a: **referential sanity of the typed tables** (`Sane`), kept by every log entry whatever it says, and
the **frame theorem**: an entry of ledger `l` leaves the rows of every other ledger, in all five projection tables, exactly
as they were — for EVERY log entry and every sane database, hence along every history.

`insert_move` patches later-dated rows selected by `accounts_seq` and asset, without a ledger predicate; that this never reaches
into another ledger is the content of `Sane.mv_acct` (a move's `accounts_seq` names a row of `accounts` with the move's ledger)
together with the uniqueness of `accounts.seq`. -/
namespace StoreSql
open Sql Schema Store

structure Sane (A : ADB) : Prop where
  acct_lt : ∀ a ∈ A.accounts, a.seq < A.acctSeq
  acct_seq : A.accounts.Pairwise (fun a b => a.seq < b.seq)
  acct_key : A.accounts.Pairwise (fun a b => ¬ (a.ledger = b.ledger ∧ a.address = b.address))
  am_lt : ∀ h ∈ A.acctMeta, h.base < A.acctSeq
  mv_lt : ∀ m ∈ A.moves, m.seq < A.movesSeq
  mv_seq : A.moves.Pairwise (fun a b => a.seq < b.seq)
  mv_acct : ∀ m ∈ A.moves, ∃ a ∈ A.accounts, a.seq = m.acctSeq ∧ a.ledger = m.ledger ∧ a.address = m.account
  tx_lt : ∀ t ∈ A.txs, t.seq < A.txSeq
  tx_seq : A.txs.Pairwise (fun a b => a.seq < b.seq)
  tm_lt : ∀ h ∈ A.txMeta, h.base < A.txSeq

theorem sane_empty : Sane {} := by
  constructor <;> simp

-- ---------------------------------------------------------------- general list facts

theorem pairwise_map_keep {α} (R : α → α → Prop) (xs : List α) (p : α → Bool) (u : α → α)
    (h : xs.Pairwise R) (hu : ∀ a b, R a b → R (if p a then u a else a) (if p b then u b else b)) :
    (xs.map (fun r => if p r then u r else r)).Pairwise R := by
  rw [List.pairwise_map]
  exact h.imp (fun {a b} hab => hu a b hab)

theorem mem_map_ite {α} {xs : List α} {p : α → Bool} {u : α → α} {y : α} (h : y ∈ xs.map (fun r => if p r then u r else r)) :
    ∃ x ∈ xs, y = x ∨ y = u x := by
  rw [List.mem_map] at h
  obtain ⟨x, hx, rfl⟩ := h
  exact ⟨x, hx, by by_cases hp : p x = true <;> simp [hp]⟩

theorem pairwise_lt_inj {α} {f : α → Nat} {xs : List α} (h : xs.Pairwise (fun a b => f a < f b)) {a b : α} (ha : a ∈ xs) (hb : b ∈ xs)
    (e : f a = f b) : a = b := by
  induction xs with
  | nil => cases ha
  | cons x xs ih =>
    rw [List.pairwise_cons] at h
    rcases List.mem_cons.mp ha with rfl | ha' <;> rcases List.mem_cons.mp hb with rfl | hb'
    · rfl
    · have := h.1 b hb'; omega
    · have := h.1 a ha'; omega
    · exact ih h.2 ha' hb'

-- ---------------------------------------------------------------- what each typed function does to each table

theorem foldl_acctUpdHist_acctMeta (rows : List AAcct) (A : ADB) :
    ∃ hs : List AAcctMeta, (rows.foldl aAcctUpdHist A).acctMeta = A.acctMeta ++ hs ∧
      (∀ h ∈ hs, ∃ r ∈ rows, h.base = r.seq ∧ h.ledger = r.ledger) := by
  induction rows generalizing A with
  | nil => exact ⟨[], by simp, by simp⟩
  | cons r rs ih =>
    obtain ⟨hs, h1, h2⟩ := ih (aAcctUpdHist A r)
    refine ⟨{ seq := A.acctMetaSeq, ledger := r.ledger, base := r.seq, md := r.md, revision := nextRevA A.acctMeta r.seq, date := r.upd } :: hs,
      by rw [List.foldl_cons, h1]; simp [aAcctUpdHist], ?_⟩
    intro h hh
    rcases List.mem_cons.mp hh with rfl | hh
    · exact ⟨r, List.mem_cons_self .., rfl, rfl⟩
    · obtain ⟨r', hr', e⟩ := h2 h hh
      exact ⟨r', List.mem_cons_of_mem _ hr', e⟩

theorem aUpdateAccounts_acctMeta (A : ADB) (p : AAcct → Bool) (u : AAcct → AAcct) (hu : ∀ r, (u r).seq = r.seq ∧ (u r).ledger = r.ledger) :
    ∃ hs : List AAcctMeta, (aUpdateAccounts A p u).acctMeta = A.acctMeta ++ hs ∧
      (∀ h ∈ hs, ∃ r ∈ A.accounts, p r = true ∧ h.base = r.seq ∧ h.ledger = r.ledger) := by
  obtain ⟨hs, h1, h2⟩ := foldl_acctUpdHist_acctMeta ((A.accounts.filter p).map u) { A with accounts := A.accounts.map (fun r => if p r then u r else r) }
  refine ⟨hs, h1, ?_⟩
  intro h hh
  obtain ⟨r, hr, e1, e2⟩ := h2 h hh
  obtain ⟨r0, hr0, rfl⟩ := List.mem_map.mp hr
  rw [List.mem_filter] at hr0
  exact ⟨r0, hr0.1, hr0.2, by rw [e1, (hu r0).1], by rw [e2, (hu r0).2]⟩

@[simp] theorem aUpdateAccounts_seqs (A : ADB) (p : AAcct → Bool) (u : AAcct → AAcct) :
    (aUpdateAccounts A p u).acctSeq = A.acctSeq ∧ (aUpdateAccounts A p u).movesSeq = A.movesSeq ∧
    (aUpdateAccounts A p u).txSeq = A.txSeq ∧ (aUpdateAccounts A p u).txMetaSeq = A.txMetaSeq ∧
    (aUpdateAccounts A p u).logs = A.logs ∧ (aUpdateAccounts A p u).logsSeq = A.logsSeq := by
  simp [aUpdateAccounts]

/-- an `update accounts` that keeps `seq`, `ledger` and `address` keeps the tables sane -/
theorem sane_updateAccounts (A : ADB) (p : AAcct → Bool) (u : AAcct → AAcct)
    (hu : ∀ r, (u r).seq = r.seq ∧ (u r).ledger = r.ledger ∧ (u r).address = r.address) (h : Sane A) : Sane (aUpdateAccounts A p u) := by
  obtain ⟨hs, e1, e2⟩ := aUpdateAccounts_acctMeta A p u (fun r => ⟨(hu r).1, (hu r).2.1⟩)
  have keep : ∀ r, (if p r = true then u r else r).seq = r.seq ∧ (if p r = true then u r else r).ledger = r.ledger ∧
      (if p r = true then u r else r).address = r.address := by
    intro r; by_cases hp : p r = true <;> simp [hp, hu r]
  constructor
  · intro a ha
    rw [aUpdateAccounts_accounts, List.mem_map] at ha
    obtain ⟨r, hr, rfl⟩ := ha
    rw [(keep r).1, (aUpdateAccounts_seqs A p u).1]; exact h.acct_lt r hr
  · rw [aUpdateAccounts_accounts]
    exact pairwise_map_keep _ _ _ _ h.acct_seq (fun a b hab => by rw [(keep a).1, (keep b).1]; exact hab)
  · rw [aUpdateAccounts_accounts]
    exact pairwise_map_keep _ _ _ _ h.acct_key (fun a b hab => by rw [(keep a).2.1, (keep b).2.1, (keep a).2.2, (keep b).2.2]; exact hab)
  · intro x hx
    rw [e1, List.mem_append] at hx
    rw [(aUpdateAccounts_seqs A p u).1]
    rcases hx with hx | hx
    · exact h.am_lt x hx
    · obtain ⟨r, hr, _, e, _⟩ := e2 x hx; rw [e]; exact h.acct_lt r hr
  · intro m hm; rw [aUpdateAccounts_moves] at hm; rw [(aUpdateAccounts_seqs A p u).2.1]; exact h.mv_lt m hm
  · rw [aUpdateAccounts_moves]; exact h.mv_seq
  · intro m hm
    rw [aUpdateAccounts_moves] at hm
    obtain ⟨a, ha, e⟩ := h.mv_acct m hm
    refine ⟨if p a = true then u a else a, ?_, ?_⟩
    · rw [aUpdateAccounts_accounts]; exact List.mem_map.mpr ⟨a, ha, rfl⟩
    · rw [(keep a).1, (keep a).2.1, (keep a).2.2]; exact e
  · intro t ht; rw [aUpdateAccounts_txs] at ht; rw [(aUpdateAccounts_seqs A p u).2.2.1]; exact h.tx_lt t ht
  · rw [aUpdateAccounts_txs]; exact h.tx_seq
  · intro x hx; rw [aUpdateAccounts_txMeta] at hx; rw [(aUpdateAccounts_seqs A p u).2.2.1]; exact h.tm_lt x hx

theorem any_acctKey_false {A : ADB} {l a : String} (h : ¬ A.accounts.any (acctKey l a) = true) :
    ∀ r ∈ A.accounts, ¬ (r.ledger = l ∧ r.address = a) := by
  intro r hr hk
  apply h
  rw [List.any_eq_true]
  exact ⟨r, hr, by simp [acctKey, hk.1, hk.2]⟩

theorem sane_upsertAccount (A : ADB) (l a : String) (m : Kvs) (d : Val) (h : Sane A) : Sane (aUpsertAccount A l a m d) := by
  unfold aUpsertAccount
  by_cases hany : A.accounts.any (acctKey l a) = true
  · simp only [hany, if_true]
    exact sane_updateAccounts A _ _ (fun r => ⟨rfl, rfl, rfl⟩) h
  · simp only [hany, Bool.false_eq_true, if_false, aAcctInsHist]
    have hno := any_acctKey_false hany
    constructor
    · intro x hx
      simp only [List.mem_append, List.mem_singleton] at hx
      rcases hx with hx | rfl
      · exact Nat.lt_succ_of_lt (h.acct_lt x hx)
      · exact Nat.lt_succ_self _
    · simp only [List.pairwise_append, List.pairwise_cons, List.Pairwise.nil, List.mem_singleton]
      exact ⟨h.acct_seq, ⟨by simp, trivial⟩, fun x hx y hy => by subst hy; exact h.acct_lt x hx⟩
    · simp only [List.pairwise_append, List.pairwise_cons, List.Pairwise.nil, List.mem_singleton]
      exact ⟨h.acct_key, ⟨by simp, trivial⟩, fun x hx y hy => by subst hy; exact hno x hx⟩
    · intro x hx
      simp only [List.mem_append, List.mem_singleton] at hx
      rcases hx with hx | rfl
      · exact Nat.lt_succ_of_lt (h.am_lt x hx)
      · exact Nat.lt_succ_self _
    · exact h.mv_lt
    · exact h.mv_seq
    · intro mv hmv
      obtain ⟨x, hx, e⟩ := h.mv_acct mv hmv
      exact ⟨x, List.mem_append_left _ hx, e⟩
    · exact h.tx_lt
    · exact h.tx_seq
    · exact h.tm_lt

-- ---------------------------------------------------------------- insert_move

/-- the patch `insert_move` applies to the rows already there: later-dated rows of the same account and asset get the amount -/
def patchMove (eff : Int) (x : String) (amt : Int) (src ex : Bool) (acc : Nat) (r : AMove) : AMove :=
  if ex && moveSel acc x r && decide (eff < r.eff) then bumpEff src amt r else r

/-- `insert_move` in one line: patch the later-dated rows, append the new row.  (The second `update moves`, for rows of the same
effective date and a greater `seq`, never finds a row: the new row has the greatest `seq`.) -/
theorem aInsertMove_eq (A : ADB) (txSeq : Val) (l : String) (ins : Val) (eff : Int) (a x : String) (amt : Int) (src ex : Bool) (acc : Nat)
    (hlt : ∀ r ∈ A.moves, r.seq < A.movesSeq) :
    aInsertMove A txSeq l ins eff a x amt src ex acc =
      { A with moves := A.moves.map (patchMove eff x amt src ex acc) ++ [newMove A txSeq l ins eff a x amt src ex acc],
               movesSeq := A.movesSeq + 1 } := by
  unfold aInsertMove
  cases ex
  · have : ∀ r : AMove, patchMove eff x amt src false acc r = r := by intro r; simp [patchMove]
    simp only [Bool.false_eq_true, if_false, funext this, List.map_id']
  · simp only [if_true, List.map_append, List.map_map, List.map_cons, List.map_nil]
    have f2id : ∀ y : AMove, y.seq ≤ A.movesSeq →
        (if moveSel acc x y && y.eff == eff && decide ((A.movesSeq : Int) < y.seq) then bumpEff src amt y else y) = y := by
      intro y hy
      have : ¬ ((A.movesSeq : Int) < y.seq) := by omega
      simp [this]
    have h1 : ∀ r ∈ A.moves, ((fun r => if moveSel acc x r && r.eff == eff && decide ((A.movesSeq : Int) < r.seq) then bumpEff src amt r else r) ∘
        (fun r => if moveSel acc x r && decide (eff < r.eff) then bumpEff src amt r else r)) r = patchMove eff x amt src true acc r := by
      intro r hr
      have hs := hlt r hr
      simp only [Function.comp]
      rw [f2id]
      · simp [patchMove]
      · by_cases hp : (moveSel acc x r && decide (eff < r.eff)) = true
        · simp only [hp, if_true, bumpEff]; omega
        · simp only [hp]; simp only [Bool.false_eq_true, if_false]; omega
    rw [List.map_congr_left h1]
    have hn : (newMove A txSeq l ins eff a x amt src true acc).eff = eff ∧ (newMove A txSeq l ins eff a x amt src true acc).seq = A.movesSeq := ⟨rfl, rfl⟩
    rw [f2id _ (by simp [hn.1, hn.2])]
    simp [hn.1]

@[simp] theorem newMove_fields (A : ADB) (txSeq : Val) (l : String) (ins : Val) (eff : Int) (a x : String) (amt : Int) (src ex : Bool) (acc : Nat) :
    (newMove A txSeq l ins eff a x amt src ex acc).seq = A.movesSeq ∧ (newMove A txSeq l ins eff a x amt src ex acc).ledger = l ∧
    (newMove A txSeq l ins eff a x amt src ex acc).acctSeq = acc ∧ (newMove A txSeq l ins eff a x amt src ex acc).account = a ∧
    (newMove A txSeq l ins eff a x amt src ex acc).asset = x ∧ (newMove A txSeq l ins eff a x amt src ex acc).amount = amt ∧
    (newMove A txSeq l ins eff a x amt src ex acc).eff = eff ∧ (newMove A txSeq l ins eff a x amt src ex acc).isSource = src :=
  ⟨rfl, rfl, rfl, rfl, rfl, rfl, rfl, rfl⟩

theorem patchMove_id (eff : Int) (x : String) (amt : Int) (src ex : Bool) (acc : Nat) (r : AMove) :
    (patchMove eff x amt src ex acc r).seq = r.seq ∧ (patchMove eff x amt src ex acc r).ledger = r.ledger ∧
    (patchMove eff x amt src ex acc r).acctSeq = r.acctSeq ∧ (patchMove eff x amt src ex acc r).account = r.account ∧
    (patchMove eff x amt src ex acc r).asset = r.asset ∧ (patchMove eff x amt src ex acc r).amount = r.amount ∧
    (patchMove eff x amt src ex acc r).eff = r.eff ∧ (patchMove eff x amt src ex acc r).isSource = r.isSource ∧
    (patchMove eff x amt src ex acc r).pcvIn = r.pcvIn ∧ (patchMove eff x amt src ex acc r).pcvOut = r.pcvOut := by
  unfold patchMove
  split <;> simp [bumpEff]

theorem patchMove_ne (eff : Int) (x : String) (amt : Int) (src ex : Bool) (acc : Nat) (r : AMove)
    (h : r.acctSeq ≠ acc) : patchMove eff x amt src ex acc r = r := by
  simp [patchMove, moveSel, h]

theorem sane_insertMove (A : ADB) (txSeq : Val) (l : String) (ins : Val) (eff : Int) (a x : String) (amt : Int) (src ex : Bool) (acc : Nat)
    (h : Sane A) (hacc : ∃ r ∈ A.accounts, r.seq = acc ∧ r.ledger = l ∧ r.address = a) :
    Sane (aInsertMove A txSeq l ins eff a x amt src ex acc) := by
  rw [aInsertMove_eq A txSeq l ins eff a x amt src ex acc h.mv_lt]
  constructor
  · exact h.acct_lt
  · exact h.acct_seq
  · exact h.acct_key
  · exact h.am_lt
  · intro m hm
    simp only [List.mem_append, List.mem_map, List.mem_singleton] at hm
    rcases hm with ⟨r, hr, rfl⟩ | rfl
    · rw [(patchMove_id ..).1]; exact Nat.lt_succ_of_lt (h.mv_lt r hr)
    · exact Nat.lt_succ_self _
  · simp only [List.pairwise_append, List.pairwise_map, List.pairwise_cons, List.Pairwise.nil, List.mem_map, List.mem_singleton]
    refine ⟨h.mv_seq.imp (fun {r s} hrs => by rw [(patchMove_id ..).1, (patchMove_id ..).1]; exact hrs), ⟨by simp, trivial⟩, ?_⟩
    rintro _ ⟨r, hr, rfl⟩ _ rfl
    rw [(patchMove_id ..).1]; exact h.mv_lt r hr
  · intro m hm
    simp only [List.mem_append, List.mem_map, List.mem_singleton] at hm
    rcases hm with ⟨r, hr, rfl⟩ | rfl
    · rw [(patchMove_id ..).2.2.1, (patchMove_id ..).2.1, (patchMove_id ..).2.2.2.1]; exact h.mv_acct r hr
    · exact hacc
  · exact h.tx_lt
  · exact h.tx_seq
  · exact h.tm_lt

-- ---------------------------------------------------------------- frame

/-- the rows of every ledger but `l`, table by table -/
def aOther (A : ADB) (l : String) : List ATx × List ATxMeta × List AAcct × List AAcctMeta × List AMove :=
  (A.txs.filter (fun r => !(r.ledger == l)), A.txMeta.filter (fun r => !(r.ledger == l)), A.accounts.filter (fun r => !(r.ledger == l)),
   A.acctMeta.filter (fun r => !(r.ledger == l)), A.moves.filter (fun r => !(r.ledger == l)))

theorem filter_map_same {α} (xs : List α) (p : α → Bool) (g : α → α) (h : ∀ x ∈ xs, p (g x) = p x ∧ (p x = true → g x = x)) :
    (xs.map g).filter p = xs.filter p := by
  induction xs with
  | nil => rfl
  | cons x xs ih =>
    have hx := h x (List.mem_cons_self ..)
    have ih' := ih (fun y hy => h y (List.mem_cons_of_mem _ hy))
    by_cases hp : p x = true
    · simp [hp, hx.2 hp, ih']
    · simp [hx.1, hp, ih']

theorem filter_append_none' {α} (xs hs : List α) (p : α → Bool) (h : ∀ x ∈ hs, p x = false) : (xs ++ hs).filter p = xs.filter p := by
  have : hs.filter p = [] := List.filter_eq_nil_iff.mpr (fun x hx => by simp [h x hx])
  simp [List.filter_append, this]

theorem frame_updateAccounts (A : ADB) (l : String) (p : AAcct → Bool) (u : AAcct → AAcct)
    (hp : ∀ r, p r = true → r.ledger = l) (hu : ∀ r, (u r).seq = r.seq ∧ (u r).ledger = r.ledger) :
    aOther (aUpdateAccounts A p u) l = aOther A l := by
  obtain ⟨hs, e1, e2⟩ := aUpdateAccounts_acctMeta A p u hu
  simp only [aOther, aUpdateAccounts_accounts, aUpdateAccounts_moves, aUpdateAccounts_txs, aUpdateAccounts_txMeta, e1]
  rw [filter_map_same, filter_append_none']
  · intro x hx
    obtain ⟨r, _, hr, _, e⟩ := e2 x hx
    simp [e, hp r hr]
  · intro r _
    by_cases hr : p r = true
    · simp [hr, (hu r).2, hp r hr]
    · simp [hr]

theorem frame_upsertAccount (A : ADB) (l a : String) (m : Kvs) (d : Val) : aOther (aUpsertAccount A l a m d) l = aOther A l := by
  unfold aUpsertAccount
  split
  · exact frame_updateAccounts A l _ _ (fun r hr => by simp [acctKey] at hr; exact hr.1.1) (fun r => ⟨rfl, rfl⟩)
  · simp [aOther, aAcctInsHist, List.filter_append]

theorem frame_insertMove (A : ADB) (txSeq : Val) (l : String) (ins : Val) (eff : Int) (a x : String) (amt : Int) (src ex : Bool) (acc : Nat)
    (h : Sane A) (hacc : ∃ r ∈ A.accounts, r.seq = acc ∧ r.ledger = l ∧ r.address = a) :
    aOther (aInsertMove A txSeq l ins eff a x amt src ex acc) l = aOther A l := by
  rw [aInsertMove_eq A txSeq l ins eff a x amt src ex acc h.mv_lt]
  simp only [aOther, List.filter_append]
  rw [filter_map_same]
  · simp
  · intro r hr
    refine ⟨by rw [(patchMove_id ..).2.1], fun hl => ?_⟩
    apply patchMove_ne
    intro hacc'
    obtain ⟨a1, ha1, e1, e2, _⟩ := h.mv_acct r hr
    obtain ⟨a2, ha2, f1, f2, _⟩ := hacc
    have : a1 = a2 := pairwise_lt_inj h.acct_seq ha1 ha2 (by rw [e1, f1, hacc'])
    subst this
    simp [← e2, f2] at hl

-- ---------------------------------------------------------------- insert_posting

theorem acctSeqOf_spec (A : ADB) (l a : String) (h : A.accounts.any (acctKey l a) = true) :
    ∃ r ∈ A.accounts, r.seq = acctSeqOf A l a ∧ r.ledger = l ∧ r.address = a := by
  unfold acctSeqOf
  cases hf : A.accounts.find? (acctKey l a) with
  | none => rw [List.find?_eq_none] at hf; rw [List.any_eq_true] at h; obtain ⟨r, hr, hk⟩ := h; exact absurd hk (hf r hr)
  | some r =>
    have hk := List.find?_some hf
    simp only [acctKey, Bool.and_eq_true, beq_iff_eq] at hk
    exact ⟨r, List.mem_of_find?_eq_some hf, rfl, hk.1, hk.2⟩

theorem posting_accts (A : ADB) (l : String) (p : Posting) (m1 m2 : Kvs) (d : Val) :
    (aUpsertAccount (aUpsertAccount A l p.source m1 d) l p.destination m2 d).accounts.any (acctKey l p.source) = true ∧
    (aUpsertAccount (aUpsertAccount A l p.source m1 d) l p.destination m2 d).accounts.any (acctKey l p.destination) = true := by
  simp [aUpsertAccount_any]

theorem sane_frame_insertPosting (A : ADB) (txSeq : Val) (l : String) (ins : Val) (eff : Int) (p : Posting) (am : List (String × Meta))
    (h : Sane A) : Sane (aInsertPosting A txSeq l ins eff p am) ∧ aOther (aInsertPosting A txSeq l ins eff p am) l = aOther A l := by
  unfold aInsertPosting
  have s1 := sane_upsertAccount A l p.source (amKvs am p.source) ins h
  have s2 := sane_upsertAccount _ l p.destination (amKvs am p.destination) ins s1
  obtain ⟨k1, k2⟩ := posting_accts A l p (amKvs am p.source) (amKvs am p.destination) ins
  have a1 := acctSeqOf_spec _ l p.source k1
  have s3 := sane_insertMove _ txSeq l ins eff p.source p.asset p.amount true (A.accounts.any (acctKey l p.source)) _ s2 a1
  have k2' : (aInsertMove (aUpsertAccount (aUpsertAccount A l p.source (amKvs am p.source) ins) l p.destination (amKvs am p.destination) ins)
      txSeq l ins eff p.source p.asset p.amount true (A.accounts.any (acctKey l p.source))
      (acctSeqOf (aUpsertAccount (aUpsertAccount A l p.source (amKvs am p.source) ins) l p.destination (amKvs am p.destination) ins) l p.source)).accounts.any
        (acctKey l p.destination) = true := by rw [aInsertMove_accounts]; exact k2
  have a2 := acctSeqOf_spec _ l p.destination k2'
  refine ⟨sane_insertMove _ txSeq l ins eff p.destination p.asset p.amount false _ _ s3 a2, ?_⟩
  rw [frame_insertMove _ _ _ _ _ _ _ _ _ _ _ s3 a2, frame_insertMove _ _ _ _ _ _ _ _ _ _ _ s2 a1, frame_upsertAccount, frame_upsertAccount]

theorem sane_frame_postings (ps : List Posting) (A : ADB) (txSeq : Val) (l : String) (ins : Val) (eff : Int) (am : List (String × Meta)) (h : Sane A) :
    Sane (ps.foldl (fun A p => aInsertPosting A txSeq l ins eff p am) A) ∧
      aOther (ps.foldl (fun A p => aInsertPosting A txSeq l ins eff p am) A) l = aOther A l := by
  induction ps generalizing A with
  | nil => exact ⟨h, rfl⟩
  | cons p ps ih =>
    obtain ⟨s1, f1⟩ := sane_frame_insertPosting A txSeq l ins eff p am h
    obtain ⟨s2, f2⟩ := ih _ s1
    exact ⟨s2, by rw [List.foldl_cons, f2, f1]⟩

@[simp] theorem aUpsertAccount_txSeqs (A : ADB) (l a : String) (m : Kvs) (d : Val) :
    (aUpsertAccount A l a m d).txSeq = A.txSeq ∧ (aUpsertAccount A l a m d).txMetaSeq = A.txMetaSeq ∧
    (aUpsertAccount A l a m d).movesSeq = A.movesSeq := by
  unfold aUpsertAccount; split <;> simp [aAcctInsHist]

@[simp] theorem aInsertPosting_tx (A : ADB) (txSeq : Val) (l : String) (ins : Val) (eff : Int) (p : Posting) (am : List (String × Meta)) :
    (aInsertPosting A txSeq l ins eff p am).txs = A.txs ∧ (aInsertPosting A txSeq l ins eff p am).txMeta = A.txMeta ∧
    (aInsertPosting A txSeq l ins eff p am).txSeq = A.txSeq ∧ (aInsertPosting A txSeq l ins eff p am).txMetaSeq = A.txMetaSeq := by
  simp [aInsertPosting, aInsertMove]

@[simp] theorem postings_tx (ps : List Posting) (A : ADB) (txSeq : Val) (l : String) (ins : Val) (eff : Int) (am : List (String × Meta)) :
    (ps.foldl (fun A p => aInsertPosting A txSeq l ins eff p am) A).txs = A.txs ∧
    (ps.foldl (fun A p => aInsertPosting A txSeq l ins eff p am) A).txMeta = A.txMeta ∧
    (ps.foldl (fun A p => aInsertPosting A txSeq l ins eff p am) A).txSeq = A.txSeq ∧
    (ps.foldl (fun A p => aInsertPosting A txSeq l ins eff p am) A).txMetaSeq = A.txMetaSeq := by
  induction ps generalizing A with
  | nil => simp
  | cons p ps ih => simp [ih]

-- ---------------------------------------------------------------- transactions

@[simp] theorem foldl_txUpdHist_proj (rows : List ATx) (A : ADB) :
    (rows.foldl aTxUpdHist A).txs = A.txs ∧ (rows.foldl aTxUpdHist A).accounts = A.accounts ∧ (rows.foldl aTxUpdHist A).acctMeta = A.acctMeta ∧
    (rows.foldl aTxUpdHist A).moves = A.moves ∧ (rows.foldl aTxUpdHist A).txSeq = A.txSeq ∧ (rows.foldl aTxUpdHist A).acctSeq = A.acctSeq ∧
    (rows.foldl aTxUpdHist A).movesSeq = A.movesSeq ∧ (rows.foldl aTxUpdHist A).acctMetaSeq = A.acctMetaSeq := by
  induction rows generalizing A with
  | nil => simp
  | cons r rs ih => simp [ih, aTxUpdHist]

theorem foldl_txUpdHist_txMeta (rows : List ATx) (A : ADB) :
    ∃ hs : List ATxMeta, (rows.foldl aTxUpdHist A).txMeta = A.txMeta ++ hs ∧
      (∀ h ∈ hs, ∃ r ∈ rows, h.base = r.seq ∧ h.ledger = r.ledger) := by
  induction rows generalizing A with
  | nil => exact ⟨[], by simp, by simp⟩
  | cons r rs ih =>
    obtain ⟨hs, h1, h2⟩ := ih (aTxUpdHist A r)
    refine ⟨{ seq := A.txMetaSeq, ledger := r.ledger, base := r.seq, revision := nextRevT A.txMeta r.seq, date := r.updatedAt, md := r.md } :: hs,
      by rw [List.foldl_cons, h1]; simp [aTxUpdHist], ?_⟩
    intro h hh
    rcases List.mem_cons.mp hh with rfl | hh
    · exact ⟨r, List.mem_cons_self .., rfl, rfl⟩
    · obtain ⟨r', hr', e⟩ := h2 h hh
      exact ⟨r', List.mem_cons_of_mem _ hr', e⟩

theorem aUpdateTxs_txMeta (A : ADB) (p : ATx → Bool) (u : ATx → ATx) (hu : ∀ r, (u r).seq = r.seq ∧ (u r).ledger = r.ledger) :
    ∃ hs : List ATxMeta, (aUpdateTxs A p u).txMeta = A.txMeta ++ hs ∧
      (∀ h ∈ hs, ∃ r ∈ A.txs, p r = true ∧ h.base = r.seq ∧ h.ledger = r.ledger) := by
  obtain ⟨hs, h1, h2⟩ := foldl_txUpdHist_txMeta ((A.txs.filter p).map u) { A with txs := A.txs.map (fun r => if p r then u r else r) }
  refine ⟨hs, h1, ?_⟩
  intro h hh
  obtain ⟨r, hr, e1, e2⟩ := h2 h hh
  obtain ⟨r0, hr0, rfl⟩ := List.mem_map.mp hr
  rw [List.mem_filter] at hr0
  exact ⟨r0, hr0.1, hr0.2, by rw [e1, (hu r0).1], by rw [e2, (hu r0).2]⟩

@[simp] theorem aUpdateTxs_proj (A : ADB) (p : ATx → Bool) (u : ATx → ATx) :
    (aUpdateTxs A p u).txs = A.txs.map (fun r => if p r then u r else r) ∧ (aUpdateTxs A p u).accounts = A.accounts ∧
    (aUpdateTxs A p u).acctMeta = A.acctMeta ∧ (aUpdateTxs A p u).moves = A.moves ∧ (aUpdateTxs A p u).txSeq = A.txSeq ∧
    (aUpdateTxs A p u).acctSeq = A.acctSeq ∧ (aUpdateTxs A p u).movesSeq = A.movesSeq ∧ (aUpdateTxs A p u).acctMetaSeq = A.acctMetaSeq := by
  simp [aUpdateTxs]

theorem sane_updateTxs (A : ADB) (p : ATx → Bool) (u : ATx → ATx) (hu : ∀ r, (u r).seq = r.seq ∧ (u r).ledger = r.ledger) (h : Sane A) :
    Sane (aUpdateTxs A p u) := by
  obtain ⟨hs, e1, e2⟩ := aUpdateTxs_txMeta A p u hu
  obtain ⟨p1, p2, p3, p4, p5, p6, p7, p8⟩ := aUpdateTxs_proj A p u
  have keep : ∀ r, (if p r = true then u r else r).seq = r.seq := by
    intro r; by_cases hp : p r = true <;> simp [hp, hu r]
  constructor
  · rw [p2, p6]; exact h.acct_lt
  · rw [p2]; exact h.acct_seq
  · rw [p2]; exact h.acct_key
  · rw [p3, p6]; exact h.am_lt
  · rw [p4, p7]; exact h.mv_lt
  · rw [p4]; exact h.mv_seq
  · rw [p4, p2]; exact h.mv_acct
  · intro t ht
    rw [p1, List.mem_map] at ht
    obtain ⟨r, hr, rfl⟩ := ht
    rw [keep r, p5]; exact h.tx_lt r hr
  · rw [p1]
    exact pairwise_map_keep _ _ _ _ h.tx_seq (fun a b hab => by rw [keep a, keep b]; exact hab)
  · intro x hx
    rw [e1, List.mem_append] at hx
    rw [p5]
    rcases hx with hx | hx
    · exact h.tm_lt x hx
    · obtain ⟨r, hr, _, e, _⟩ := e2 x hx; rw [e]; exact h.tx_lt r hr

theorem frame_updateTxs (A : ADB) (l : String) (p : ATx → Bool) (u : ATx → ATx)
    (hp : ∀ r, p r = true → r.ledger = l) (hu : ∀ r, (u r).seq = r.seq ∧ (u r).ledger = r.ledger) :
    aOther (aUpdateTxs A p u) l = aOther A l := by
  obtain ⟨hs, e1, e2⟩ := aUpdateTxs_txMeta A p u hu
  obtain ⟨p1, p2, p3, p4, _⟩ := aUpdateTxs_proj A p u
  simp only [aOther, p1, p2, p3, p4, e1]
  rw [filter_map_same, filter_append_none']
  · intro x hx
    obtain ⟨r, _, hr, _, e⟩ := e2 x hx
    simp [e, hp r hr]
  · intro r _
    by_cases hr : p r = true
    · simp [hr, (hu r).2, hp r hr]
    · simp [hr]

theorem txKey_ledger (l : String) (id : Int) (r : ATx) (h : txKey l id r = true) : r.ledger = l := by
  simp [txKey] at h; exact h.2

theorem sane_txInserted (A : ADB) (l : String) (tx : Tx) (h : Sane A) : Sane (aTxInserted A l tx) := by
  unfold aTxInserted
  constructor
  · exact h.acct_lt
  · exact h.acct_seq
  · exact h.acct_key
  · exact h.am_lt
  · exact h.mv_lt
  · exact h.mv_seq
  · exact h.mv_acct
  · intro t ht
    simp only [aTxInsHist, List.mem_append, List.mem_singleton] at ht
    rcases ht with ht | rfl
    · exact Nat.lt_succ_of_lt (h.tx_lt t ht)
    · exact Nat.lt_succ_self _
  · simp only [aTxInsHist, List.pairwise_append, List.pairwise_cons, List.Pairwise.nil, List.mem_singleton]
    exact ⟨h.tx_seq, ⟨by simp, trivial⟩, fun x hx y hy => by subst hy; exact h.tx_lt x hx⟩
  · intro x hx
    simp only [aTxInsHist, List.mem_append, List.mem_singleton] at hx
    rcases hx with hx | rfl
    · exact Nat.lt_succ_of_lt (h.tm_lt x hx)
    · exact Nat.lt_succ_self _

theorem sane_frame_insertTransaction (A : ADB) (l : String) (tx : Tx) (d : Val) (am : List (String × Meta)) (h : Sane A) :
    Sane (aInsertTransaction A l tx d am) ∧ aOther (aInsertTransaction A l tx d am) l = aOther A l := by
  unfold aInsertTransaction
  have s1 := sane_txInserted A l tx h
  have f1 : aOther (aTxInserted A l tx) l = aOther A l := by
    simp [aOther, aTxInserted, aTxInsHist, List.filter_append, aTxRow]
  obtain ⟨s2, f2⟩ := sane_frame_postings tx.postings _ (.int A.txSeq) l d tx.timestamp am s1
  constructor
  · constructor
    · exact s2.acct_lt
    · exact s2.acct_seq
    · exact s2.acct_key
    · exact s2.am_lt
    · exact s2.mv_lt
    · exact s2.mv_seq
    · exact s2.mv_acct
    · exact s2.tx_lt
    · exact s2.tx_seq
    · intro x hx
      simp only [List.mem_append, List.mem_singleton] at hx
      rcases hx with hx | rfl
      · exact s2.tm_lt x hx
      · simp [aTxInserted, aTxInsHist]
  · rw [← f1, ← f2]
    simp [aOther, List.filter_append]

-- ---------------------------------------------------------------- one log entry

theorem sane_frame_accountMeta (am : List (String × Meta)) (A : ADB) (l : String) (d : Val) (h : Sane A) :
    Sane (am.foldl (fun A km => aUpsertAccount A l km.1 (kvsOf km.2) d) A) ∧
      aOther (am.foldl (fun A km => aUpsertAccount A l km.1 (kvsOf km.2) d) A) l = aOther A l := by
  induction am generalizing A with
  | nil => exact ⟨h, rfl⟩
  | cons km rest ih =>
    obtain ⟨s2, f2⟩ := ih _ (sane_upsertAccount A l km.1 (kvsOf km.2) d h)
    exact ⟨s2, by rw [List.foldl_cons, f2, frame_upsertAccount]⟩

theorem sane_frame_handle (A : ADB) (log : CLog) (h : Sane A) : Sane (aHandle A log) ∧ aOther (aHandle A log) log.ledger = aOther A log.ledger := by
  obtain ⟨l, id, d, ik, payload⟩ := log
  cases payload with
  | newTx tx am =>
    obtain ⟨s1, f1⟩ := sane_frame_insertTransaction A l tx (.ts d) am h
    obtain ⟨s2, f2⟩ := sane_frame_accountMeta am _ l (.ts tx.timestamp) s1
    exact ⟨s2, by simp only [aHandle]; rw [f2, f1]⟩
  | revert rid tx =>
    obtain ⟨s1, f1⟩ := sane_frame_insertTransaction A l tx (.ts d) [] h
    exact ⟨sane_updateTxs _ _ _ (fun r => ⟨rfl, rfl⟩) s1,
      by simp only [aHandle, aRevertTransaction]
         refine (frame_updateTxs _ l _ _ (txKey_ledger l _) ?_).trans f1
         intro r; exact ⟨rfl, rfl⟩⟩
  | setMeta t m =>
    cases t with
    | account a => exact ⟨sane_upsertAccount A l a _ _ h, frame_upsertAccount A l a _ _⟩
    | transaction tid =>
      exact ⟨sane_updateTxs _ _ _ (fun r => ⟨rfl, rfl⟩) h, frame_updateTxs _ l _ _ (txKey_ledger l _) (fun r => ⟨rfl, rfl⟩)⟩
  | delMeta t k =>
    cases t with
    | account a =>
      exact ⟨sane_updateAccounts A _ _ (fun r => ⟨rfl, rfl, rfl⟩) h,
        frame_updateAccounts A l _ _ (fun r hr => by simp at hr; exact hr.2) (fun r => ⟨rfl, rfl⟩)⟩
    | transaction tid =>
      exact ⟨sane_updateTxs _ _ _ (fun r => ⟨rfl, rfl⟩) h, frame_updateTxs _ l _ _ (txKey_ledger l _) (fun r => ⟨rfl, rfl⟩)⟩

theorem sane_logged (A : ADB) (log : CLog) (h : Sane A) : Sane (aLogged A log) := by
  constructor
  · exact h.acct_lt
  · exact h.acct_seq
  · exact h.acct_key
  · exact h.am_lt
  · exact h.mv_lt
  · exact h.mv_seq
  · exact h.mv_acct
  · exact h.tx_lt
  · exact h.tx_seq
  · exact h.tm_lt

/-- **every log entry keeps the typed tables sane and leaves the rows of every other ledger exactly as they were** -/
theorem sane_frame_step (A : ADB) (log : CLog) (h : Sane A) : Sane (aStep A log) ∧ aOther (aStep A log) log.ledger = aOther A log.ledger := by
  obtain ⟨s, f⟩ := sane_frame_handle (aLogged A log) log (sane_logged A log h)
  exact ⟨s, by unfold aStep; rw [f]; rfl⟩

theorem sane_steps (logs : List CLog) (A : ADB) (h : Sane A) : Sane (logs.foldl aStep A) := by
  induction logs generalizing A with
  | nil => exact h
  | cons l ls ih => exact ih _ (sane_frame_step A l h).1

-- ---------------------------------------------------------------- the same, about the generated projection

theorem otherRows_conc (A : ADB) (l : String) :
    otherRows (conc A) l = ((aOther A l).1.map ATx.row, (aOther A l).2.1.map AMeta.rowT, (aOther A l).2.2.1.map AAcct.row,
      (aOther A l).2.2.2.1.map AMeta.rowA, (aOther A l).2.2.2.2.map AMove.row) := by
  simp only [otherRows, aOther, conc, List.filter_map]
  rfl

/-- **frame, for every history and every entry**: whatever log sequence `pre` was projected, inserting one more entry leaves the
rows of every ledger other than the entry's own — in `transactions`, `transactions_metadata`, `accounts`, `accounts_metadata` and
`moves` — exactly as they were (equality of the row lists, not the `==` of the executable check) -/
theorem ledger_frame_step (pre : List CLog) (log : CLog) :
    otherRows (stepDB 0 (project pre) log) log.ledger = otherRows (project pre) log.ledger := by
  have hp : project pre = conc (pre.foldl aStep {}) := by
    unfold project; rw [← conc_empty]; exact project_conc pre {}
  rw [hp, stepDB_conc, otherRows_conc, otherRows_conc, (sane_frame_step _ log (sane_steps pre {} sane_empty)).2]

end StoreSql
