import Lemmas.NumRun
/-! The resolution stage of the VM (`SetVarsFromJSON`, `ResolveResources`, `ResolveBalances`) on a COMPILED program
is `Spec`'s preparation (`bindPlain`, `resolveVars`, `checkBalanceVars`, `initBal ∘ needed`): same success / failure,
same error class, and on success the resolved table is the value of the resources under `Spec`'s environment and
the tracked balances are `Spec`'s initial balances. -/
namespace Num
open VM

/-! ### shape of `visitVar` -/

theorem allocRes_nonconst {st st' : CState} {r : Resource} {a : Addr} (hnc : ∀ v, r ≠ .const v)
    (h : allocRes st r = .ok (a, st')) : a = st.resources.length ∧ st' = { st with resources := st.resources ++ [r] } := by
  have happ : appendResource st r = .ok (a, st') := by
    unfold allocRes at h
    cases r with
    | const v => exact absurd rfl (hnc v)
    | var _ _ => exact h
    | varMeta _ _ _ _ => exact h
    | varBalance _ _ _ => exact h
    | monetary _ _ => exact h
  exact appendResource_ok happ

/-- one declaration: the name is new; the origin's literals are appended (state `st0`), then ONE declaration
resource, whose address is recorded under the name -/
theorem visitVar_cases {st st' : CState} {d : VarDecl} (h : visitVar st d = .ok st') :
    st.varIdx.any (·.1 = d.name) = false ∧
    ∃ st0 r, Ext st st0 ∧
      st' = { st0 with resources := st0.resources ++ [r], varIdx := st0.varIdx ++ [(d.name, st0.resources.length)] } ∧
      (match d.origin with
       | .none => st0 = st ∧ r = .var d.ty d.name
       | .metaOf acc key => ∃ a c, visitTyped st .account acc = .ok (a, c, st0) ∧ r = .varMeta d.ty d.name a key
       | .balance acc ae => d.ty = .monetary ∧ ∃ a c st1 s c', visitTyped st .account acc = .ok (a, c, st1) ∧
           visitTyped st1 .asset ae = .ok (s, c', st0) ∧ r = .varBalance d.name a s) := by
  unfold visitVar at h
  split at h
  · cases h
  · rename_i hnew
    refine ⟨(Bool.not_eq_true _).mp hnew, ?_⟩
    simp only at h
    split at h
    · cases h
    · rename_i addr st1 hr
      simp only [Except.ok.injEq] at h; subst h
      cases ho : d.origin with
      | none =>
        simp only [ho] at hr
        obtain ⟨rfl, rfl⟩ := allocRes_nonconst (by intro v hv; cases hv) hr
        exact ⟨st, _, Ext.refl _, rfl, rfl, rfl⟩
      | metaOf acc key =>
        simp only [ho] at hr
        split at hr
        · cases hr
        · rename_i a c0 st0 ha
          obtain ⟨rfl, rfl⟩ := allocRes_nonconst (by intro v hv; cases hv) hr
          exact ⟨st0, _, (visitTyped_ok ha).1, rfl, a, c0, ha, rfl⟩
      | balance acc ae =>
        simp only [ho] at hr
        split at hr
        · cases hr
        · rename_i hty
          split at hr
          · cases hr
          · rename_i a c0 st0 ha
            split at hr
            · cases hr
            · rename_i s c1 st1' hs
              obtain ⟨rfl, rfl⟩ := allocRes_nonconst (by intro v hv; cases hv) hr
              exact ⟨st1', _, (visitTyped_ok ha).1.trans (visitTyped_ok hs).1, rfl, Classical.not_not.mp hty, a, c0, st0, s, c1, ha, hs, rfl⟩

/-! ### `SetVarsFromJSON` is `bindPlain` -/

def varDeclOf : Resource → Option (Ty × String)
  | .var ty n => some (ty, n)
  | _ => none

/-- the plain `Variable` resources of a table, in table order -/
def varDecls (rs : List Resource) : List (Ty × String) := rs.filterMap varDeclOf

def isPlain (d : VarDecl) : Bool := match d.origin with | .none => true | _ => false

/-- the plain declarations of a script, in declaration order -/
def plainDecls (ds : List VarDecl) : List (Ty × String) := (ds.filter isPlain).map (fun d => (d.ty, d.name))

theorem varDecls_append_lit {rs suf : List Resource} (h : ∀ r ∈ suf, r.isLit = true) : varDecls (rs ++ suf) = varDecls rs := by
  unfold varDecls
  rw [List.filterMap_append]
  have : suf.filterMap varDeclOf = [] := by
    rw [List.filterMap_eq_nil_iff]
    intro r hr
    have := h r hr
    cases r <;> simp_all [Resource.isLit, varDeclOf]
  rw [this, List.append_nil]

theorem Ext.varDecls {st st' : CState} (h : Ext st st') : varDecls st'.resources = varDecls st.resources := by
  obtain ⟨⟨suf, e, hl⟩, _⟩ := h
  rw [e]; exact varDecls_append_lit hl

theorem visitVar_varDecls {st st' : CState} {d : VarDecl} (h : visitVar st d = .ok st') :
    varDecls st'.resources = varDecls st.resources ++ plainDecls [d] := by
  obtain ⟨_, st0, r, he, rfl, ho⟩ := visitVar_cases h
  simp only [varDecls, List.filterMap_append]
  have h0 := he.varDecls
  simp only [varDecls] at h0
  rw [h0]
  congr 1
  cases hor : d.origin with
  | none =>
    rw [hor] at ho
    obtain ⟨_, rfl⟩ := ho
    simp [plainDecls, isPlain, hor, varDeclOf]
  | metaOf acc key =>
    rw [hor] at ho
    obtain ⟨a, c, _, rfl⟩ := ho
    simp [plainDecls, isPlain, hor, varDeclOf]
  | balance acc ae =>
    rw [hor] at ho
    obtain ⟨_, a, c, st1, s, c', _, _, rfl⟩ := ho
    simp [plainDecls, isPlain, hor, varDeclOf]

theorem plainDecls_cons (d : VarDecl) (ds : List VarDecl) : plainDecls (d :: ds) = plainDecls [d] ++ plainDecls ds := by
  simp only [plainDecls, List.filter_cons]
  split <;> simp

theorem visitVarList_varDecls {st st' : CState} {ds : List VarDecl} (h : visitVarList st ds = .ok st') :
    varDecls st'.resources = varDecls st.resources ++ plainDecls ds := by
  induction ds generalizing st with
  | nil => simp only [visitVarList, Except.ok.injEq] at h; subst h; simp [plainDecls]
  | cons d rest ih =>
    simp only [visitVarList] at h
    split at h
    · cases h
    · rename_i st1 h1
      rw [ih h, visitVar_varDecls h1, plainDecls_cons d rest, List.append_assoc]

/-- the pieces of a successful compilation -/
theorem compile_parts {P : Script} {prog : Program} (h : compile P = .ok prog) :
    ∃ st0 code st, visitVarList {} P.vars = .ok st0 ∧ visitStmts st0 P.stmts = .ok (code, st) ∧
      prog = { instrs := code, resources := st.resources, sources := sortAddrs st.sources, needed := st.needed } := by
  unfold compile at h
  split at h
  · cases h
  · rename_i st0 h0
    split at h
    · cases h
    · rename_i code st h1
      simp only [Except.ok.injEq] at h
      unfold visitVars at h0
      split at h0
      · cases h0
      · exact ⟨st0, code, st, h0, h1, h.symm⟩

theorem compile_varDecls {P : Script} {prog : Program} (h : compile P = .ok prog) : varDecls prog.resources = plainDecls P.vars := by
  obtain ⟨st0, code, st, h0, h1, rfl⟩ := compile_parts h
  simp only
  rw [(visitStmts_ext h1).varDecls, visitVarList_varDecls h0]
  simp [varDecls]

/-- `bindPlain`'s loop, over (type, name) pairs -/
def bindL (raw : List (String × String)) : List (Ty × String) → VEnv → Except Err VEnv
  | [], env => .ok env
  | (ty, n) :: l, env =>
    match (raw.find? (·.1 = n)).map (·.2) with
    | none => .error .invalidVars
    | some rv =>
      match parseValue ty rv with
      | none => .error .invalidVars
      | some v => bindL raw l (env ++ [(n, v)])

theorem bindL_names {raw : List (String × String)} {l : List (Ty × String)} {env env' : VEnv} (h : bindL raw l env = .ok env') :
    env'.map (·.1) = env.map (·.1) ++ l.map (·.2) := by
  induction l generalizing env with
  | nil => simp only [bindL, Except.ok.injEq] at h; subst h; simp
  | cons p l ih =>
    obtain ⟨ty, n⟩ := p
    simp only [bindL] at h
    split at h
    · cases h
    · split at h
      · cases h
      · rw [ih h]; simp

theorem bindL_error {raw : List (String × String)} {l : List (Ty × String)} {env : VEnv} {e : Err} (h : bindL raw l env = .error e) :
    e = .invalidVars := by
  induction l generalizing env with
  | nil => simp [bindL] at h
  | cons p l ih =>
    obtain ⟨ty, n⟩ := p
    simp only [bindL] at h
    split at h
    · cases h; rfl
    · split at h
      · cases h; rfl
      · exact ih h

/-- one step of `bindPlain`'s fold -/
def bindStep (raw : List (String × String)) (acc : Except Err VEnv) (d : VarDecl) : Except Err VEnv :=
  match acc with
  | .error er => .error er
  | .ok env =>
    match (raw.find? (·.1 = d.name)).map (·.2) with
    | none => .error .invalidVars
    | some rawv => match parseValue d.ty rawv with
      | none => .error .invalidVars
      | some v => .ok (env ++ [(d.name, v)])

theorem bindStep_fold (raw : List (String × String)) (l : List VarDecl) (acc : Except Err VEnv) :
    l.foldl (bindStep raw) acc =
      match acc with
      | .error er => .error er
      | .ok env => bindL raw (l.map (fun d => (d.ty, d.name))) env := by
  induction l generalizing acc with
  | nil => cases acc <;> rfl
  | cons d l ih =>
    rw [List.foldl_cons, ih]
    cases acc with
    | error e => rfl
    | ok env =>
      simp only [List.map_cons, bindL, bindStep]
      cases (raw.find? (·.1 = d.name)).map (·.2) with
      | none => rfl
      | some rv =>
        simp only
        cases parseValue d.ty rv <;> rfl

theorem bindPlain_eq (ds : List VarDecl) (raw : List (String × String)) :
    bindPlain ds raw =
      match bindL raw (plainDecls ds) [] with
      | .error e => .error e
      | .ok env => if raw.all (fun kv => (plainDecls ds).any (fun p => p.2 = kv.1)) then .ok env else .error .invalidVars := by
  show (match (ds.filter isPlain).foldl (bindStep raw) (Except.ok []) with
    | Except.error er => Except.error er
    | Except.ok env => if raw.all (fun kv => (ds.filter isPlain).any (fun d => d.name = kv.1)) then Except.ok env else Except.error Err.invalidVars) = _
  rw [bindStep_fold]
  simp only [plainDecls]
  cases bindL raw ((ds.filter isPlain).map fun d => (d.ty, d.name)) [] with
  | error e => rfl
  | ok env =>
    simp only [List.any_map, Function.comp_def]

def ofP (kv : String × Val) : String × BVal := (kv.1, BVal.ofVal kv.2)

theorem find_filter_notin {raw : List (String × String)} {names : List String} {n : String} (hn : n ∉ names) :
    (raw.filter (fun kv => !names.contains kv.1)).find? (·.1 = n) = raw.find? (·.1 = n) := by
  rw [List.find?_filter]
  congr 1
  funext kv
  by_cases h : kv.1 = n
  · subst h; simp [hn]
  · simp [h]

theorem setKey_fresh (env : VEnv) (n : String) (v : Val) (hn : n ∉ env.map (·.1)) :
    setKey (env.map ofP) n (BVal.ofVal v) = (env ++ [(n, v)]).map ofP := by
  unfold setKey
  have : (env.map ofP).filter (fun x => decide (x.1 ≠ n)) = env.map ofP := by
    rw [List.filter_eq_self]
    intro x hx
    obtain ⟨y, hy, rfl⟩ := List.mem_map.mp hx
    show decide ((ofP y).1 ≠ n) = true
    exact decide_eq_true (fun e => hn (List.mem_map.mpr ⟨y, hy, e⟩))
  rw [this]
  simp [ofP]

theorem filter_not_isEmpty {α} (l : List α) (p : α → Bool) : (l.filter (fun x => !p x)).isEmpty = l.all p := by
  induction l with
  | nil => rfl
  | cons x xs ih => rw [List.filter_cons]; cases hp : p x <;> simp [hp, ih]

theorem setVarsLoop_eq (rs : List Resource) (raw : List (String × String)) (env : VEnv)
    (hnd : (env.map (·.1) ++ (varDecls rs).map (·.2)).Nodup) :
    setVarsLoop rs (raw.filter (fun kv => !(env.map (·.1)).contains kv.1)) (env.map ofP) =
      match bindL raw (varDecls rs) env with
      | .error e => .error e
      | .ok env' => if raw.all (fun kv => (env'.map (·.1)).contains kv.1) then .ok (env'.map ofP) else .error .invalidVars := by
  induction rs generalizing env with
  | nil =>
    simp only [setVarsLoop, varDecls, List.filterMap_nil, bindL, filter_not_isEmpty]
  | cons r rest ih =>
    cases r with
    | var ty name =>
      have hvd : varDecls (Resource.var ty name :: rest) = (ty, name) :: varDecls rest := rfl
      rw [hvd] at hnd ⊢
      have hfresh : name ∉ env.map (·.1) := by
        intro hmem
        have := List.nodup_append.mp hnd
        exact this.2.2 name hmem name (by simp) rfl
      simp only [setVarsLoop, bindL, find_filter_notin hfresh]
      cases hf : (raw.find? (·.1 = name)).map (·.2) with
      | none => rfl
      | some rv =>
        simp only
        cases hp : parseValue ty rv with
        | none => rfl
        | some v =>
          simp only
          have hnd' : ((env ++ [(name, v)]).map (·.1) ++ (varDecls rest).map (·.2)).Nodup := by
            simpa [List.append_assoc] using hnd
          have := ih (env ++ [(name, v)]) hnd'
          rw [← this, setKey_fresh env name v hfresh]
          congr 1
          rw [List.filter_filter]
          apply List.filter_congr
          intro x _
          simp only [List.map_append, List.map_cons, List.map_nil, List.contains_eq_mem, List.mem_append, List.mem_singleton,
            ne_eq, decide_not]
          by_cases h1 : x.1 = name <;> by_cases h2 : x.1 ∈ env.map (·.1) <;> simp [h1, h2]
    | const v =>
      have : varDecls (Resource.const v :: rest) = varDecls rest := rfl
      rw [this] at hnd ⊢
      simp only [setVarsLoop]; exact ih env hnd
    | varMeta t nm a k =>
      have : varDecls (Resource.varMeta t nm a k :: rest) = varDecls rest := rfl
      rw [this] at hnd ⊢
      simp only [setVarsLoop]; exact ih env hnd
    | varBalance nm a k =>
      have : varDecls (Resource.varBalance nm a k :: rest) = varDecls rest := rfl
      rw [this] at hnd ⊢
      simp only [setVarsLoop]; exact ih env hnd
    | monetary a k =>
      have : varDecls (Resource.monetary a k :: rest) = varDecls rest := rfl
      rw [this] at hnd ⊢
      simp only [setVarsLoop]; exact ih env hnd

theorem varDecls_names (rs : List Resource) : (varDecls rs).map (·.2) = varNames rs := by
  induction rs with
  | nil => rfl
  | cons r rest ih =>
    cases r with
    | var ty n =>
      show ((ty, n) :: varDecls rest).map (·.2) = n :: varNames rest
      rw [List.map_cons, ih]
    | const _ => exact ih
    | varMeta _ _ _ _ => exact ih
    | varBalance _ _ _ => exact ih
    | monetary _ _ => exact ih

theorem contains_map_snd (l : List (Ty × String)) (n : String) :
    (l.map (·.2)).contains n = l.any (fun p => decide (p.2 = n)) := by
  induction l with
  | nil => rfl
  | cons p l ih =>
    rw [List.map_cons, List.contains_cons, List.any_cons, ih]
    by_cases h : p.2 = n
    · simp [h]
    · have : ¬ n = p.2 := fun e => h e.symm
      simp [h, this]

/-- **`SetVarsFromJSON` on a compiled program is `bindPlain`** -/
theorem setVars_bindPlain {P : Script} {prog : Program} (hc : compile P = .ok prog) (raw : List (String × String)) :
    setVarsFromJSON prog raw =
      match bindPlain P.vars raw with
      | .error e => .error e
      | .ok plain => .ok (plain.map ofP) := by
  have hnd := compile_varNames_nodup hc
  have h := setVarsLoop_eq prog.resources raw [] (by simpa [varDecls_names] using hnd)
  have hft : raw.filter (fun _ => true) = raw := List.filter_eq_self.mpr (fun _ _ => rfl)
  simp only [List.map_nil, List.contains_nil, Bool.not_false, hft] at h
  unfold setVarsFromJSON
  rw [h, bindPlain_eq, compile_varDecls hc]
  cases hb : bindL raw (plainDecls P.vars) [] with
  | error e => rfl
  | ok env =>
    simp only
    have hn := bindL_names hb
    simp only [List.map_nil, List.nil_append] at hn
    have : (raw.all fun kv => (env.map (·.1)).contains kv.1) = raw.all (fun kv => (plainDecls P.vars).any (fun p => p.2 = kv.1)) := by
      congr 1
      funext x
      rw [hn]
      exact contains_map_snd _ _
    rw [this]
    split <;> rfl

end Num
