import Lemmas.EnginePreview
/-! As if the previews had never been made (C14): removing every event of a preview from a history that `Ack`
(resp. `Events`) accepts gives a history the machine accepts too, ending in the same state up to the per-request
scratch of the previews themselves (what their idempotency lookups found, their error answers, the ids they peeked). -/
namespace Engine.Preview
open Engine

theorem find_filter_real {β : Type} (dry : Nat → Bool) (m : List (Nat × β)) (b : Nat) (hb : dry b = false) :
    (m.filter (fun x => !dry x.1)).find? (·.1 = b) = m.find? (·.1 = b) := by
  induction m with
  | nil => rfl
  | cons x m ih =>
    cases hx : dry x.1 with
    | true =>
      have hne : x.1 ≠ b := by intro he; rw [he, hb] at hx; cases hx
      rw [List.filter_cons_of_neg (by simp [hx]), List.find?_cons_of_neg (by simpa using hne)]
      exact ih
    | false =>
      rw [List.filter_cons_of_pos (by simp [hx])]
      by_cases he : x.1 = b
      · rw [List.find?_cons_of_pos (by simpa using he), List.find?_cons_of_pos (by simpa using he)]
      · rw [List.find?_cons_of_neg (by simpa using he), List.find?_cons_of_neg (by simpa using he)]
        exact ih

theorem contains_filter_real (dry : Nat → Bool) (xs : List Nat) (b : Nat) (hb : dry b = false) :
    (xs.filter (fun a => !dry a)).contains b = xs.contains b := by
  induction xs with
  | nil => rfl
  | cons x xs ih =>
    cases hx : dry x with
    | true =>
      have hne : x ≠ b := by intro he; rw [he, hb] at hx; cases hx
      rw [List.filter_cons_of_neg (by simp [hx])]
      simp only [List.contains_cons, ih]
      have : (b == x) = false := by simpa using fun h => hne h.symm
      simp [this]
    | false =>
      rw [List.filter_cons_of_pos (by simp [hx])]
      simp only [List.contains_cons, ih]

/-- the request of a non-preview event is a real one -/
theorem real_of_not_preview {dry : Nat → Bool} {e : Ev} {b : Nat} (hp : previewEv dry e = false) (hr : reqOf e = some b) :
    dry b = false := by
  unfold previewEv at hp
  rw [hr] at hp
  exact hp

/-! ### Ack -/

/-- forget the scratch of the previews -/
def ackScrub (dry : Nat → Bool) (s : Ack.S) : Ack.S :=
  { s with found := s.found.filter (fun x => !dry x.1), errs := s.errs.filter (fun b => !dry b) }

theorem ackCore_scrub (dry : Nat → Bool) (s : Ack.S) : ackCore (ackScrub dry s) = ackCore s := rfl

theorem ackScrub_init (dry : Nat → Bool) (funding : List LogE) : ackScrub dry (Ack.init funding) = Ack.init funding := rfl

theorem logOf_scrub (dry : Nat → Bool) (s : Ack.S) (b : Nat) : Ack.logOf (ackScrub dry s) b = Ack.logOf s b := rfl

theorem foundOf_scrub (dry : Nat → Bool) (s : Ack.S) (b : Nat) (hb : dry b = false) :
    Ack.foundOf (ackScrub dry s) b = Ack.foundOf s b := by
  simp only [Ack.foundOf, ackScrub, find_filter_real dry s.found b hb]

theorem answered_scrub (dry : Nat → Bool) (s : Ack.S) (b : Nat) (hb : dry b = false) :
    Ack.answered (ackScrub dry s) b = Ack.answered s b := by
  simp only [Ack.answered, ackScrub, contains_filter_real dry s.errs b hb]

/-- an accepted event of a preview only touches the preview's scratch -/
theorem ack_scrub_preview (dry : Nat → Bool) (s s' : Ack.S) (e : Ev) (a : Nat) (hr : reqOf e = some a)
    (hd : dry a = true) (h : Ack.step dry s e = .ok s') : ackScrub dry s' = ackScrub dry s := by
  cases e with
  | committed b l lt =>
    simp only [reqOf, Option.some.injEq] at hr; subst hr
    simp [Ack.step, hd] at h
  | gate n ok => simp [reqOf] at hr
  | crash => simp [reqOf] at hr
  | ikRead b key found =>
    simp only [reqOf, Option.some.injEq] at hr; subst hr
    cases found with
    | none => simp only [Ack.step, Except.ok.injEq] at h; subst h; rfl
    | some id =>
      simp only [Ack.step] at h
      split at h
      · simp only [Except.ok.injEq] at h; subst h
        simp [ackScrub, hd]
      · cases h
  | arrive b pt => rw [Ack.arrive_same h]
  | finish b ok err t =>
    simp only [reqOf, Option.some.injEq] at hr; subst hr
    cases ok with
    | true => simp only [Ack.step, hd, if_true, Except.ok.injEq] at h; subst h; rfl
    | false =>
      simp only [Ack.step] at h
      split at h
      · cases h
      · simp only [Except.ok.injEq] at h; subst h
        simp [ackScrub, hd]
  | resume _ _ => simp [Ack.step] at h; subst h; rfl
  | refRead _ _ _ => simp [Ack.step] at h; subst h; rfl
  | txRead _ _ _ _ => simp [Ack.step] at h; subst h; rfl
  | balRead _ _ _ _ => simp [Ack.step] at h; subst h; rfl
  | lock _ _ _ => simp [Ack.step] at h; subst h; rfl
  | unlock _ => simp [Ack.step] at h; subst h; rfl
  | publish _ _ => simp [Ack.step] at h; subst h; rfl
  | taken _ _ _ _ => simp [Ack.step] at h; subst h; rfl

theorem ackScrub_durable (dry : Nat → Bool) (s : Ack.S) : (ackScrub dry s).durable = s.durable := rfl
theorem ackScrub_pending (dry : Nat → Bool) (s : Ack.S) : (ackScrub dry s).pending = s.pending := rfl
theorem ackScrub_written (dry : Nat → Bool) (s : Ack.S) : (ackScrub dry s).written = s.written := rfl

/-- on any other event the machine does not look at the previews' scratch: it decides alike and moves alike -/
theorem ack_scrub_real (dry : Nat → Bool) (s : Ack.S) (e : Ev) (hp : previewEv dry e = false) :
    Ack.step dry (ackScrub dry s) e = (Ack.step dry s e).map (ackScrub dry) := by
  cases e with
  | committed b l lt =>
    have hb := real_of_not_preview hp (rfl : reqOf (.committed b l lt) = some b)
    simp only [Ack.step, logOf_scrub, answered_scrub dry s b hb, ackScrub_pending]
    repeat' split
    all_goals (first | rfl | simp [*, ackScrub, Except.map])
  | gate n ok =>
    by_cases hc : n = 0 ∨ n > s.pending.length <;> cases ok <;> simp [Ack.step, ackScrub, hc, Except.map]
  | crash => rfl
  | ikRead b key found =>
    have hb := real_of_not_preview hp (rfl : reqOf (.ikRead b key found) = some b)
    cases found with
    | none => rfl
    | some id =>
      simp only [Ack.step, ackScrub_durable]
      split
      · simp [ackScrub, hb, Except.map]
      · rfl
  | arrive b pt =>
    simp only [Ack.step, logOf_scrub, ackScrub_written]
    repeat' split
    all_goals (first | rfl | simp [*, ackScrub, Except.map])
  | finish b ok err t =>
    have hb := real_of_not_preview hp (rfl : reqOf (.finish b ok err t) = some b)
    cases ok with
    | true =>
      simp only [Ack.step, logOf_scrub, foundOf_scrub dry s b hb, ackScrub_written]
      cases hl : Ack.logOf s b with
      | some l =>
        by_cases hw : (b, l) ∈ s.written <;> cases h3 : l.isTx <;> by_cases h4 : t = l.txid <;>
          simp [hb, hw, h3, h4, ackScrub, Except.map]
      | none =>
        cases hf : Ack.foundOf s b with
        | none => simp [hb, Except.map]
        | some l =>
          cases h3 : l.isTx <;> by_cases h4 : t = l.txid <;> simp [hb, h3, h4, ackScrub, Except.map]
    | false =>
      simp only [Ack.step, logOf_scrub]
      by_cases h1 : (Ack.logOf s b).isSome = true <;> simp [h1, hb, ackScrub, Except.map]
  | resume _ _ => rfl
  | refRead _ _ _ => rfl
  | txRead _ _ _ _ => rfl
  | balRead _ _ _ _ => rfl
  | lock _ _ _ => rfl
  | unlock _ => rfl
  | publish _ _ => rfl
  | taken _ _ _ _ => rfl

/-- the history without the previews -/
def withoutPreviews (dry : Nat → Bool) (es : List Ev) : List Ev := es.filter (fun e => !previewEv dry e)

theorem ack_erase (dry : Nat → Bool) (es : List Ev) (s s' : Ack.S) (h : runOn (Ack.step dry) s es = .ok s') :
    runOn (Ack.step dry) (ackScrub dry s) (withoutPreviews dry es) = .ok (ackScrub dry s') := by
  induction es generalizing s with
  | nil => simp [runOn] at h; subst h; rfl
  | cons e es ih =>
    simp only [runOn] at h
    cases hs : Ack.step dry s e with
    | error m => simp [hs] at h
    | ok s1 =>
      simp only [hs] at h
      cases hp : previewEv dry e with
      | true =>
        have : withoutPreviews dry (e :: es) = withoutPreviews dry es := by
          simp [withoutPreviews, hp]
        rw [this]
        have hp' := hp
        unfold previewEv at hp'
        cases hr : reqOf e with
        | none => simp [hr] at hp'
        | some a =>
          simp only [hr] at hp'
          rw [← ack_scrub_preview dry s s1 e a hr hp' hs]
          exact ih s1 h
      | false =>
        have : withoutPreviews dry (e :: es) = e :: withoutPreviews dry es := by
          simp [withoutPreviews, hp]
        rw [this]
        simp only [runOn, ack_scrub_real dry s e hp, hs, Except.map]
        exact ih s1 h

/-! ### Events -/

def eventsScrub (dry : Nat → Bool) (s : Events.S) : Events.S :=
  { s with found := s.found.filter (fun x => !dry x.1), peeked := s.peeked.filter (fun x => !dry x.1) }

theorem eventsCore_scrub (dry : Nat → Bool) (s : Events.S) : eventsCore (eventsScrub dry s) = eventsCore s := rfl

theorem eventsScrub_init (dry : Nat → Bool) (funding : List LogE) :
    eventsScrub dry (Events.init funding) = Events.init funding := rfl

theorem entryOf_scrub (dry : Nat → Bool) (s : Events.S) (b : Nat) (hb : dry b = false) :
    Events.entryOf (eventsScrub dry s) b = Events.entryOf s b := by
  simp only [Events.entryOf, eventsScrub, find_filter_real dry s.found b hb]

theorem events_scrub_preview (dry isTx : Nat → Bool) (s s' : Events.S) (e : Ev) (a : Nat) (hr : reqOf e = some a)
    (hd : dry a = true) (h : Events.step dry isTx s e = .ok s') : eventsScrub dry s' = eventsScrub dry s := by
  cases e with
  | committed b l lt =>
    simp only [reqOf, Option.some.injEq] at hr; subst hr
    simp [Events.step, hd] at h
  | publish b ev =>
    simp only [reqOf, Option.some.injEq] at hr; subst hr
    simp [Events.step, hd] at h
  | gate n ok => simp [reqOf] at hr
  | crash => simp [reqOf] at hr
  | ikRead b key found =>
    simp only [reqOf, Option.some.injEq] at hr; subst hr
    cases found with
    | none => simp only [Events.step, Except.ok.injEq] at h; subst h; rfl
    | some id =>
      simp only [Events.step, Except.ok.injEq] at h; subst h
      simp [eventsScrub, hd]
  | arrive b pt =>
    simp only [reqOf, Option.some.injEq] at hr; subst hr
    simp only [Events.step] at h
    split at h
    · simp only [Except.ok.injEq] at h; subst h
      simp [eventsScrub, hd]
    · simp only [Except.ok.injEq] at h; subst h; rfl
  | finish b ok err t =>
    simp only [reqOf, Option.some.injEq] at hr; subst hr
    cases ok with
    | true => rw [Events.finish_dry_same hd h]
    | false => simp only [Events.step, Except.ok.injEq] at h; subst h; rfl
  | resume _ _ => simp [Events.step] at h; subst h; rfl
  | refRead _ _ _ => simp [Events.step] at h; subst h; rfl
  | txRead _ _ _ _ => simp [Events.step] at h; subst h; rfl
  | balRead _ _ _ _ => simp [Events.step] at h; subst h; rfl
  | lock _ _ _ => simp [Events.step] at h; subst h; rfl
  | unlock _ => simp [Events.step] at h; subst h; rfl
  | taken _ _ _ _ => simp [Events.step] at h; subst h; rfl

theorem eventsScrub_durable (dry : Nat → Bool) (s : Events.S) : (eventsScrub dry s).durable = s.durable := rfl
theorem eventsScrub_pending (dry : Nat → Bool) (s : Events.S) : (eventsScrub dry s).pending = s.pending := rfl
theorem eventsScrub_published (dry : Nat → Bool) (s : Events.S) : (eventsScrub dry s).published = s.published := rfl

theorem events_scrub_real (dry isTx : Nat → Bool) (s : Events.S) (e : Ev) (hp : previewEv dry e = false) :
    Events.step dry isTx (eventsScrub dry s) e = (Events.step dry isTx s e).map (eventsScrub dry) := by
  cases e with
  | arrive b pt =>
    have hb := real_of_not_preview hp (rfl : reqOf (.arrive b pt) = some b)
    simp [Events.step, hb, Except.map]
  | committed b l lt =>
    have hb := real_of_not_preview hp (rfl : reqOf (.committed b l lt) = some b)
    simp only [Events.step, eventsScrub_pending]
    split
    · rfl
    · rfl
  | gate n ok =>
    by_cases hc : n = 0 ∨ n > s.pending.length <;> cases ok <;> simp [Events.step, eventsScrub, hc, Except.map]
  | crash => rfl
  | ikRead b key found =>
    have hb := real_of_not_preview hp (rfl : reqOf (.ikRead b key found) = some b)
    cases found with
    | none => rfl
    | some id => simp [Events.step, eventsScrub, hb, Except.map]
  | publish b ev =>
    have hb := real_of_not_preview hp (rfl : reqOf (.publish b ev) = some b)
    simp only [Events.step, eventsScrub_durable, entryOf_scrub dry s b hb]
    repeat' split
    all_goals (first | rfl | simp [*, eventsScrub, Except.map])
  | finish b ok err t =>
    have hb := real_of_not_preview hp (rfl : reqOf (.finish b ok err t) = some b)
    cases ok with
    | false => rfl
    | true =>
      simp only [Events.step, hb, Bool.false_eq_true, if_false, eventsScrub_published, entryOf_scrub dry s b hb]
      cases hl : Events.entryOf s b with
      | none => rfl
      | some l =>
        by_cases hpub : s.published.any (fun e => Events.describes e l) = true <;>
          simp [hpub, eventsScrub, Except.map]
  | resume _ _ => rfl
  | refRead _ _ _ => rfl
  | txRead _ _ _ _ => rfl
  | balRead _ _ _ _ => rfl
  | lock _ _ _ => rfl
  | unlock _ => rfl
  | taken _ _ _ _ => rfl

theorem events_erase (dry isTx : Nat → Bool) (es : List Ev) (s s' : Events.S)
    (h : runOn (Events.step dry isTx) s es = .ok s') :
    runOn (Events.step dry isTx) (eventsScrub dry s) (withoutPreviews dry es) = .ok (eventsScrub dry s') := by
  induction es generalizing s with
  | nil => simp [runOn] at h; subst h; rfl
  | cons e es ih =>
    simp only [runOn] at h
    cases hs : Events.step dry isTx s e with
    | error m => simp [hs] at h
    | ok s1 =>
      simp only [hs] at h
      cases hp : previewEv dry e with
      | true =>
        have : withoutPreviews dry (e :: es) = withoutPreviews dry es := by
          simp [withoutPreviews, hp]
        rw [this]
        have hp' := hp
        unfold previewEv at hp'
        cases hr : reqOf e with
        | none => simp [hr] at hp'
        | some a =>
          simp only [hr] at hp'
          rw [← events_scrub_preview dry isTx s s1 e a hr hp' hs]
          exact ih s1 h
      | false =>
        have : withoutPreviews dry (e :: es) = e :: withoutPreviews dry es := by
          simp [withoutPreviews, hp]
        rw [this]
        simp only [runOn, events_scrub_real dry isTx s e hp, hs, Except.map]
        exact ih s1 h

end Engine.Preview
