import Lemmas.StoreSqlFinal
/-! C04 stage 2, layer 5: **what a point-in-time read of `moves` gets** — the pairing of date column, row order and volumes column.

`VolOk` says what a row carries: `post_commit_volumes` = the totals of the rows of its account and asset not after it BY `seq`,
`post_commit_effective_volumes` = those not after it BY (effective_date, seq).  A read "as of instant `t`" keeps ONE row per account
and asset.  Two ways are sound:

* rows with `insertion_date ≤ t`, the latest by `seq`, column `post_commit_volumes` (`clause_pit`, this file): when the log dates
  never decrease, `seq` order is insertion-date order, so the rows up to that row by `seq` are exactly the rows inserted by `t`;
* rows with `effective_date ≤ t`, the latest by (effective_date, seq), column `post_commit_effective_volumes`
  (`clause_effective`, `StoreSqlFinal`).

What is new here: the rows' `insertion_date` is related to the replayed moves (`InsRel`: the invariant of `StoreSqlMovesRel` does
not mention that column), and the replayed moves of a history with non-decreasing log dates are sorted by insertion date. -/
namespace StoreSql
open Sql Schema Store

-- ---------------------------------------------------------------- the insertion date of a row is the replayed move's

/-- the row's `insertion_date` is the date of the log entry that produced the replayed move -/
def InsC (r : AMove) (m : Move) : Prop := r.ins = Val.ts m.insertedAt

def InsRel (A : ADB) (l : String) (ms : List Move) : Prop := Rel2 InsC (A.moves.filter (fun r => r.ledger == l)) ms

theorem patchMove_ins (eff : Int) (x : String) (amt : Int) (src ex : Bool) (acc : Nat) (r : AMove) :
    (patchMove eff x amt src ex acc r).ins = r.ins := by
  unfold patchMove
  split <;> simp [bumpEff]

theorem insRel_congr {A A' : ADB} (h1 : A'.moves = A.moves) {l : String} {ms : List Move} (h : InsRel A l ms) : InsRel A' l ms := by
  unfold InsRel at h ⊢; rw [h1]; exact h

theorem insRel_insertMove (A : ADB) (hs : Sane A) (txSeq : Val) (l l' : String) (eff : Int) (a x : String) (amt : Nat) (src ex : Bool)
    (acc : Nat) (ms : List Move) (d : Int) (txId : Nat) (h : InsRel A l' ms) :
    InsRel (aInsertMove A txSeq l (.ts d) eff a x amt src ex acc) l'
      (if l' = l then ms ++ [{ account := a, asset := x, amount := amt, isSource := src, insertedAt := d, effective := eff, txId := txId }] else ms) := by
  unfold InsRel at h ⊢
  rw [aInsertMove_eq _ _ _ _ _ _ _ _ _ _ _ hs.mv_lt]
  simp only [List.filter_append]
  rw [filter_map_ledger A.moves (·.ledger) l' _ (fun r => (patchMove_id ..).2.1)]
  have hold : Rel2 InsC ((A.moves.filter (fun r => r.ledger == l')).map (patchMove eff x amt src ex acc)) ms := by
    have := Rel2.map_mem (R' := InsC) (patchMove eff x amt src ex acc) (fun m : Move => m) h (by
      intro r _ m _ hr
      show (patchMove eff x amt src ex acc r).ins = _
      rw [patchMove_ins]; exact hr)
    simpa using this
  by_cases hl : l' = l
  · subst hl
    simp only [if_true, List.filter_cons, newMove_fields, beq_self_eq_true, List.filter_nil]
    exact hold.snoc rfl
  · have hl2 : ¬ l = l' := fun e => hl e.symm
    simp only [hl, if_false, List.filter_cons, newMove_fields, beq_iff_eq, hl2, List.filter_nil, List.append_nil]
    exact hold

theorem insRel_insertMove_same (A : ADB) (hs : Sane A) (txSeq : Val) (l : String) (eff : Int) (a x : String) (amt : Nat) (src ex : Bool)
    (acc : Nat) (ms : List Move) (d : Int) (txId : Nat) (h : InsRel A l ms) :
    InsRel (aInsertMove A txSeq l (.ts d) eff a x amt src ex acc) l
      (ms ++ [{ account := a, asset := x, amount := amt, isSource := src, insertedAt := d, effective := eff, txId := txId }]) := by
  have := insRel_insertMove A hs txSeq l l eff a x amt src ex acc ms d txId h
  simpa using this

theorem insRel_insertMove_other (A : ADB) (hs : Sane A) (txSeq : Val) (l l' : String) (hl : l' ≠ l) (eff : Int) (a x : String) (amt : Nat)
    (src ex : Bool) (acc : Nat) (ms : List Move) (d : Int) (h : InsRel A l' ms) :
    InsRel (aInsertMove A txSeq l (.ts d) eff a x amt src ex acc) l' ms := by
  have := insRel_insertMove A hs txSeq l l' eff a x amt src ex acc ms d 0 h
  simpa [hl] using this

theorem insRel_insertPosting (A : ADB) (hs : Sane A) (txSeq : Val) (l l' : String) (eff : Int) (p : Posting)
    (am : List (String × Meta)) (ms : List Move) (d : Int) (txId : Nat) (h : InsRel A l' ms) :
    InsRel (aInsertPosting A txSeq l (.ts d) eff p am) l' (if l' = l then ms ++ postingMoves d eff txId p else ms) := by
  unfold aInsertPosting
  have s1 := sane_upsertAccount A l p.source (amKvs am p.source) (.ts d) hs
  have s2 := sane_upsertAccount _ l p.destination (amKvs am p.destination) (.ts d) s1
  obtain ⟨k1, k2⟩ := posting_accts A l p (amKvs am p.source) (amKvs am p.destination) (.ts d)
  have a1 := acctSeqOf_spec _ l p.source k1
  have s3 := sane_insertMove _ txSeq l (.ts d) eff p.source p.asset p.amount true (A.accounts.any (acctKey l p.source)) _ s2 a1
  have h2 : InsRel (aUpsertAccount (aUpsertAccount A l p.source (amKvs am p.source) (.ts d)) l p.destination (amKvs am p.destination) (.ts d)) l' ms :=
    insRel_congr (by simp) h
  by_cases hl : l' = l
  · subst hl
    simp only [if_true]
    have e : ms ++ postingMoves d eff txId p =
        (ms ++ [{ account := p.source, asset := p.asset, amount := p.amount, isSource := true, insertedAt := d, effective := eff, txId := txId }]) ++
          [{ account := p.destination, asset := p.asset, amount := p.amount, isSource := false, insertedAt := d, effective := eff, txId := txId }] := by
      simp [postingMoves]
    rw [e]
    apply insRel_insertMove_same _ s3
    apply insRel_insertMove_same _ s2
    exact h2
  · simp only [hl, if_false]
    apply insRel_insertMove_other _ s3 _ _ _ hl
    apply insRel_insertMove_other _ s2 _ _ _ hl
    exact h2

theorem insRel_postings (ps : List Posting) (A : ADB) (hs : Sane A) (txSeq : Val) (l l' : String) (eff : Int)
    (am : List (String × Meta)) (ms : List Move) (d : Int) (txId : Nat) (h : InsRel A l' ms) :
    InsRel (ps.foldl (fun A p => aInsertPosting A txSeq l (.ts d) eff p am) A) l'
      (if l' = l then ms ++ ps.flatMap (postingMoves d eff txId) else ms) := by
  induction ps generalizing A ms with
  | nil => by_cases hl : l' = l <;> simpa [hl] using h
  | cons p ps ih =>
    have h1 := insRel_insertPosting A hs txSeq l l' eff p am ms d txId h
    have := ih _ (sane_frame_insertPosting A txSeq l (.ts d) eff p am hs).1 _ h1
    by_cases hl : l' = l
    · subst hl; simpa [List.append_assoc] using this
    · simpa [hl] using this

theorem insRel_insertTransaction (A : ADB) (hs : Sane A) (l l' : String) (tx : Tx) (d : Int) (am : List (String × Meta))
    (ms : List Move) (h : InsRel A l' ms) :
    InsRel (aInsertTransaction A l tx (.ts d) am) l' (if l' = l then ms ++ txMoves d tx else ms) := by
  have := insRel_postings tx.postings (aTxInserted A l tx) (sane_txInserted A l tx hs) (.int A.txSeq) l l' tx.timestamp am ms d tx.id
    (insRel_congr (A := A) rfl h)
  exact insRel_congr (A := tx.postings.foldl (fun B p => aInsertPosting B (.int A.txSeq) l (.ts d) tx.timestamp p am) (aTxInserted A l tx)) rfl this

theorem insRel_step (A : ADB) (v : View) (log : CLog) (hs : Sane A) (h : ∀ l, InsRel A l (v l).moves) :
    ∀ l', InsRel (aStep A log) l' (step v log l').moves := by
  intro l'
  have hs' := sane_logged A log hs
  have h' : ∀ l, InsRel (aLogged A log) l (v l).moves := fun l => insRel_congr (A := A) (A' := aLogged A log) rfl (h l)
  unfold aStep
  generalize aLogged A log = B at hs' h'
  obtain ⟨l, id, d, ik, payload⟩ := log
  simp only [step]
  cases payload with
  | newTx tx am =>
    simp only [aHandle]
    have key := insRel_insertTransaction B hs' l l' tx d am _ (h' l')
    refine insRel_congr (accountMeta_moves ..) ?_
    by_cases hl : l' = l
    · subst hl; simpa [stepLedger, applyPayload, insertTx] using key
    · simpa [hl] using key
  | revert rid tx =>
    simp only [aHandle, aRevertTransaction]
    have key := insRel_insertTransaction B hs' l l' tx d [] _ (h' l')
    refine insRel_congr (aUpdateTxs_proj _ _ _).2.2.2.1 ?_
    by_cases hl : l' = l
    · subst hl; simpa [stepLedger, applyPayload, insertTx] using key
    · simpa [hl] using key
  | setMeta t m =>
    have : (step v ⟨l, id, d, ik, .setMeta t m⟩ l').moves = (v l').moves := by
      by_cases hl : l' = l
      · subst hl; cases t <;> simp [step, stepLedger, applyPayload]
      · simp [step, hl]
    simp only [step] at this
    rw [this]
    cases t with
    | account a => exact insRel_congr (by simp [aHandle]) (h' l')
    | transaction tid => exact insRel_congr (by simp [aHandle, aUpdateTransactionMetadata]) (h' l')
  | delMeta t k =>
    have : (step v ⟨l, id, d, ik, .delMeta t k⟩ l').moves = (v l').moves := by
      by_cases hl : l' = l
      · subst hl; cases t <;> simp [step, stepLedger, applyPayload]
      · simp [step, hl]
    simp only [step] at this
    rw [this]
    cases t with
    | account a => exact insRel_congr (by simp [aHandle, aDeleteAccountMetadata]) (h' l')
    | transaction tid => exact insRel_congr (by simp [aHandle, aDeleteTransactionMetadata]) (h' l')

/-- the invariant of `StoreSqlFinal`, together with the insertion dates, along a whole history -/
theorem inv_ins_steps (logs : List CLog) (A : ADB) (v : View) (hw : ∀ log ∈ logs, WFLog log) (h : Inv A v)
    (hi : ∀ l, InsRel A l (v l).moves) :
    Inv (logs.foldl aStep A) (replayFrom v logs) ∧ ∀ l, InsRel (logs.foldl aStep A) l (replayFrom v logs l).moves := by
  induction logs generalizing A v with
  | nil => exact ⟨h, hi⟩
  | cons l ls ih =>
    exact ih _ _ (fun x hx => hw x (List.mem_cons_of_mem _ hx)) (inv_step A v l (hw l (List.mem_cons_self ..)) h)
      (insRel_step A v l h.sane hi)

-- ---------------------------------------------------------------- the replayed moves of a history with ordered log dates are ordered

theorem stepLedger_moves (st : LedgerState) (log : CLog) :
    ∃ ns, (stepLedger st log).moves = st.moves ++ ns ∧ ∀ m ∈ ns, m.insertedAt = log.date := by
  obtain ⟨l, id, d, ik, payload⟩ := log
  have key : ∀ tx : Tx, ∀ m ∈ txMoves d tx, m.insertedAt = d := by
    intro tx m hm
    simp only [txMoves, List.mem_flatMap, postingMoves, List.mem_cons, List.not_mem_nil, or_false] at hm
    obtain ⟨p, _, rfl | rfl⟩ := hm <;> rfl
  cases payload with
  | newTx tx am => exact ⟨txMoves d tx, by simp [stepLedger, applyPayload, insertTx], key tx⟩
  | revert rid tx => exact ⟨txMoves d tx, by simp [stepLedger, applyPayload, insertTx], key tx⟩
  | setMeta t m => exact ⟨[], by cases t <;> simp [stepLedger, applyPayload], by simp⟩
  | delMeta t k => exact ⟨[], by cases t <;> simp [stepLedger, applyPayload], by simp⟩

theorem moves_sorted_from (logs : List CLog) (st : LedgerState) (lo : Int)
    (hst : st.moves.Pairwise (fun a b => a.insertedAt ≤ b.insertedAt)) (hlo : ∀ m ∈ st.moves, m.insertedAt ≤ lo)
    (hl : ∀ x ∈ logs, lo ≤ x.date) (hs : logs.Pairwise (fun x y => x.date ≤ y.date)) :
    (replayLedgerFrom st logs).moves.Pairwise (fun a b => a.insertedAt ≤ b.insertedAt) := by
  induction logs generalizing st lo with
  | nil => exact hst
  | cons x xs ih =>
    have hp := List.pairwise_cons.mp hs
    obtain ⟨ns, e, hn⟩ := stepLedger_moves st x
    have hx := hl x (List.mem_cons_self ..)
    show (replayLedgerFrom (stepLedger st x) xs).moves.Pairwise _
    apply ih (stepLedger st x) x.date
    · rw [e, List.pairwise_append]
      refine ⟨hst, ?_, ?_⟩
      · rw [List.pairwise_iff_forall_sublist]
        intro a b hab
        have ha := hn a (hab.subset (List.mem_cons_self ..))
        have hb := hn b (hab.subset (List.mem_cons_of_mem _ (List.mem_cons_self ..)))
        omega
      · intro a ha b hb
        have := hlo a ha
        have := hn b hb
        omega
    · intro m hm
      rw [e, List.mem_append] at hm
      rcases hm with hm | hm
      · have := hlo m hm; omega
      · have := hn m hm; omega
    · exact hp.1
    · exact hp.2

theorem replay_moves_sorted (logs : List CLog) (l : String) (hs : logs.Pairwise (fun x y => x.date ≤ y.date)) :
    (replay logs l).moves.Pairwise (fun a b => a.insertedAt ≤ b.insertedAt) := by
  rw [replay_filter]
  have hs' : (logs.filter (fun x => x.ledger == l)).Pairwise (fun x y => x.date ≤ y.date) := hs.filter _
  cases hl : logs.filter (fun x => x.ledger == l) with
  | nil => simp [replayLedger, replayLedgerFrom]
  | cons x xs =>
    rw [hl] at hs'
    apply moves_sorted_from (x :: xs) {} x.date (by simp) (by simp) _ hs'
    intro y hy
    rcases List.mem_cons.mp hy with rfl | hy
    · exact Int.le_refl _
    · exact (List.pairwise_cons.mp hs').1 y hy

-- ---------------------------------------------------------------- rows in `seq` order are in insertion-date order

theorem Rel2.and {α β : Type} {R S : α → β → Prop} {xs : List α} {ys : List β} (h1 : Rel2 R xs ys) (h2 : Rel2 S xs ys) :
    Rel2 (fun a b => R a b ∧ S a b) xs ys := by
  induction h1 with
  | nil => exact .nil
  | cons r _ ih =>
    cases h2 with
    | cons s h2' => exact .cons ⟨r, s⟩ (ih h2')

theorem Rel2.exists_right {α β : Type} {R : α → β → Prop} {xs : List α} {ys : List β} (h : Rel2 R xs ys) {x : α} (hx : x ∈ xs) :
    ∃ y ∈ ys, R x y := by
  induction h with
  | nil => cases hx
  | cons r _ ih =>
    rcases List.mem_cons.mp hx with rfl | hx
    · exact ⟨_, List.mem_cons_self .., r⟩
    · obtain ⟨y, hy, hr⟩ := ih hx
      exact ⟨y, List.mem_cons_of_mem _ hy, hr⟩

/-- two related lists, the left one strictly increasing in `seq`, the right one non-decreasing in insertion date: a row with a
smaller-or-equal `seq` has a smaller-or-equal insertion date -/
theorem ins_mono_of_seq {rs : List AMove} {ms : List Move} (h : Rel2 InsC rs ms)
    (hseq : rs.Pairwise (fun a b => a.seq < b.seq)) (hins : ms.Pairwise (fun a b => a.insertedAt ≤ b.insertedAt)) :
    ∀ r ∈ rs, ∀ b ∈ rs, r.seq ≤ b.seq → ∃ i j : Int, r.ins = .ts i ∧ b.ins = .ts j ∧ i ≤ j := by
  induction h with
  | nil => intro r hr; cases hr
  | @cons r0 m0 rs' ms' c rest ih =>
    have hp := List.pairwise_cons.mp hseq
    have hq := List.pairwise_cons.mp hins
    intro r hr b hb hle
    rcases List.mem_cons.mp hr with e1 | hr' <;> rcases List.mem_cons.mp hb with e2 | hb'
    · subst e1; subst e2; exact ⟨_, _, c, c, Int.le_refl _⟩
    · subst e1
      obtain ⟨m, hm, cm⟩ := rest.exists_right hb'
      exact ⟨_, _, c, cm, hq.1 m hm⟩
    · subst e2
      have := hp.1 r hr'; omega
    · exact ih hp.2 hq.2 r hr' b hb' hle

-- ---------------------------------------------------------------- sums over rows selected by BOTH dates are the replay's volumes

/-- `sum_rel` with a selection that may look at the insertion date as well -/
theorem sum_rel_when (wr : AMove → Bool) (w : When) (a x : String) {rs : List AMove} {ms : List Move}
    (h : Rel2 (fun r m => MoveC r m ∧ InsC r m) rs ms)
    (hw : ∀ r m, MoveC r m → InsC r m → wr r = w m.insertedAt m.effective) :
    sumOf amtIn (rs.filter (fun r => r.account == a && r.asset == x && wr r)) = (volume ms w a x false : Int) ∧
    sumOf amtOut (rs.filter (fun r => r.account == a && r.asset == x && wr r)) = (volume ms w a x true : Int) := by
  induction h with
  | nil => simp [volume_nil]
  | @cons r0 m0 rs' ms' r _ ih =>
    obtain ⟨⟨c1, c2, c3, c4, c5⟩, ci⟩ := r
    have hw0 := hw r0 m0 ⟨c1, c2, c3, c4, c5⟩ ci
    have hsel : ∀ s : Bool, sel w a x s m0 = (r0.account == a && r0.asset == x && wr r0 && (r0.isSource == s)) := by
      intro s
      simp only [sel, ← c1, ← c2, ← c4, hw0]
      cases (r0.account == a) <;> cases (r0.asset == x) <;> cases (r0.isSource == s) <;> cases w m0.insertedAt m0.effective <;> rfl
    rw [volume_cons, volume_cons, hsel, hsel]
    by_cases hc : (r0.account == a && r0.asset == x && wr r0) = true
    · simp only [List.filter_cons, hc, if_true, sumOf_cons, Bool.true_and]
      rw [ih.1, ih.2]
      cases hsrc : r0.isSource <;> simp [amtIn, amtOut, hsrc, c3] <;> omega
    · have hc' : (r0.account == a && r0.asset == x && wr r0) = false := by simpa using hc
      simp only [List.filter_cons, hc', Bool.false_eq_true, if_false, Bool.false_and, Nat.zero_add]
      exact ih

-- ---------------------------------------------------------------- the point-in-time read by insertion date

/-- the typed row was inserted by `t` (what `insertion_date <= t` selects) -/
def insBy (t : Int) (r : AMove) : Bool := truthy (Val.le r.ins (.ts t))

theorem insBy_ts (t i : Int) (r : AMove) (h : r.ins = .ts i) : insBy t r = decide (i ≤ t) := by
  unfold insBy
  rw [h]
  by_cases hle : i ≤ t
  · have : ¬ t < i := by omega
    simp [Val.le, Val.lt, Val.lt?, Val.not, truthy, this, hle]
  · have : t < i := by omega
    simp [Val.le, Val.lt, Val.lt?, Val.not, truthy, this, hle]

theorem truthy_iff_true (v : Val) : truthy v = true ↔ v = .bool true := by
  cases v with
  | bool b => cases b <;> simp [truthy]
  | _ => exact ⟨fun h => (by cases h), fun h => (by cases h)⟩

theorem truthy_and_eq (u w : Val) : truthy (Val.and u w) = (truthy u && truthy w) := by
  rw [Bool.eq_iff_iff]
  simp only [Bool.and_eq_true, truthy_iff_true]
  constructor
  · intro h
    unfold Val.and at h
    split at h <;> simp_all
  · rintro ⟨rfl, rfl⟩; rfl

theorem lastMoveAsOf_conc (A : ADB) (l a x : String) (t : Int) :
    lastMoveAsOf (conc A) l a x t =
      (selectFirst A.moves (fun r => Val.bool (selL l a x r && insBy t r)) seqKeys).map AMove.row := by
  simp only [lastMoveAsOf, conc, selectFirst_map, tText, seqKeys, List.map_cons, List.map_nil]
  congr 1
  apply selectFirst_congr
  intro r _
  simp [AMove.row, selL, insBy, truthy_and_eq]

/-- **the sound point-in-time read by insertion date**: among the rows of a ledger, account and asset with `insertion_date ≤ t`, the one
with the greatest `seq` carries in `post_commit_volumes` the replayed inputs and outputs as of `t` — provided the replayed moves are in
insertion-date order (log dates never decrease) -/
theorem clause_pit {A : ADB} {v : View} (h : Inv A v) (l a x : String) (t : Int) (hi : InsRel A l (v l).moves)
    (hsorted : (v l).moves.Pairwise (fun p q => p.insertedAt ≤ q.insertedAt))
    (hm : ∃ m ∈ (v l).moves, m.account = a ∧ m.asset = x ∧ m.insertedAt ≤ t) :
    (col (lastMoveAsOf (conc A) l a x t) (fun r => r.post_commit_volumes) ==
      volPair (input (v l) (When.insertedBy t) a x) (output (v l) (When.insertedBy t) a x)) = true := by
  obtain ⟨m, hm, ha, hx, hd⟩ := hm
  have hboth := Rel2.and (h.moves l) hi
  obtain ⟨r0, hr0, c, ci⟩ := hboth.exists_left hm
  rw [List.mem_filter] at hr0
  have hsel0 : (selL l a x r0 && insBy t r0) = true := by
    have := hr0.2
    simp only [beq_iff_eq] at this
    rw [insBy_ts t _ r0 ci]
    simp [selL, this, c.account, c.asset, ha, hx, hd]
  -- rows of ledger `l`: a smaller `seq` means an earlier-or-equal insertion date
  have hmono := ins_mono_of_seq hi (h.sane.mv_seq.filter _) hsorted
  rw [lastMoveAsOf_conc]
  rcases lastBySeq_spec A.moves (fun r => selL l a x r && insBy t r) with ⟨_, h2⟩ | ⟨b, h1, hb, hsel, hmax⟩
  · rw [h2 r0 hr0.1] at hsel0; cases hsel0
  · rw [h1]
    simp only [Option.map_some, col_some, AMove.row]
    have hselb := hsel
    simp only [Bool.and_eq_true] at hselb
    obtain ⟨hselb, hinsb⟩ := hselb
    have hselb' := hselb
    simp only [selL, Bool.and_eq_true, beq_iff_eq] at hselb'
    have hbl : b ∈ A.moves.filter (fun r => r.ledger == l) := List.mem_filter.mpr ⟨hb, by simp [hselb'.1.1]⟩
    have hfilter : A.moves.filter (upToSeq b) = A.moves.filter (fun r => selL l a x r && insBy t r) := by
      apply List.filter_congr
      intro r hr
      simp only [upToSeq, moveSel]
      by_cases hs : selL l a x r = true
      · have hs' := hs
        simp only [selL, Bool.and_eq_true, beq_iff_eq] at hs'
        have hk := (sameKey_iff h.sane hb hr).mpr ⟨by rw [hs'.1.1, hselb'.1.1], by rw [hs'.1.2, hselb'.1.2]⟩
        have hrl : r ∈ A.moves.filter (fun r => r.ledger == l) := List.mem_filter.mpr ⟨hr, by simp [hs'.1.1]⟩
        simp only [hs, hk, hs'.2, hselb'.2, beq_self_eq_true, Bool.true_and]
        rw [Bool.eq_iff_iff]
        simp only [decide_eq_true_eq]
        constructor
        · intro hle
          obtain ⟨i, j, e1, e2, hij⟩ := hmono r hrl b hbl hle
          rw [insBy_ts t j b e2] at hinsb
          rw [insBy_ts t i r e1]
          simp only [decide_eq_true_eq] at hinsb ⊢
          omega
        · intro hins
          exact hmax r hr (by simp [hs, hins])
      · have hs' : selL l a x r = false := by simpa using hs
        rw [hs', Bool.false_and]
        rw [Bool.and_eq_false_iff]; left
        rw [Bool.and_eq_false_iff]
        by_cases hk : r.acctSeq = b.acctSeq
        · right
          have := (sameKey_iff h.sane hb hr).mp hk
          simp only [selL, this.1, this.2, hselb'.1.1, hselb'.1.2, beq_self_eq_true, Bool.true_and] at hs'
          simp only [beq_eq_false_iff_ne, ne_eq] at hs' ⊢
          rw [hselb'.2]; exact hs'
        · left; simpa using hk
    have hsum := sum_rel_when (insBy t) (When.insertedBy t) a x hboth (by
      intro r m _ ci
      rw [insBy_ts t _ r ci]; rfl)
    apply volPair_beq
    · rw [h.vol.pcvIn b hb, hfilter, filter_selL]; exact hsum.1
    · rw [h.vol.pcvOut b hb, hfilter, filter_selL]; exact hsum.2

end StoreSql
