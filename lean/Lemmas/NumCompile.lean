import Model.Numscript.VM
/-! Structure of the compiler pass (model A2): how the compiler state grows.  Every visitor after the variable
declarations only APPENDS literal resources (constants, monetary literals) and never touches `varIdx`. -/
namespace Num

def Resource.isLit : Resource → Bool
  | .const _ => true | .monetary _ _ => true | _ => false

/-- address `a` holds a resource of type `t` -/
def HasTy (rs : List Resource) (a : Addr) (t : BTy) : Prop := ∃ r, rs[a]? = some r ∧ r.bty = t

/-- every address stored INSIDE a resource points to an EARLIER resource of the right type (what
`ResolveResources` relies on when it dereferences and type-asserts) -/
def WFres (rs : List Resource) : Prop :=
  ∀ (i : Nat) (r : Resource), rs[i]? = some r →
    match r with
    | .monetary a _ => a < i ∧ HasTy rs a .asset
    | .varMeta _ _ a _ => a < i ∧ HasTy rs a .account
    | .varBalance _ a s => a < i ∧ HasTy rs a .account ∧ s < i ∧ HasTy rs s .asset
    | _ => True

/-- `NeededBalances` only mentions addresses of accounts, and of assets / monetaries (what `ResolveBalances`
relies on) -/
def WFneeded (rs : List Resource) (nb : List (Addr × List Addr)) : Prop :=
  ∀ e ∈ nb, HasTy rs e.1 .account ∧ ∀ x ∈ e.2, HasTy rs x .asset ∨ HasTy rs x .monetary

/-- `NeededBalances[a]` contains `x` -/
def InNeeded (nb : List (Addr × List Addr)) (a x : Addr) : Prop := ∃ e ∈ nb, e.1 = a ∧ x ∈ e.2

/-- constants are de-duplicated: no constant equals (by `ValueEquals`) an earlier one -/
def NoDupConst (rs : List Resource) : Prop :=
  ∀ (i j : Nat) (c d : BVal), i < j → rs[i]? = some (.const c) → rs[j]? = some (.const d) → valueEquals c d = false

/-- `st'` extends `st`: the resource table grew by literals only, the variable index is unchanged, the
well-formedness of the tables is kept, no needed balance is forgotten, constants stay de-duplicated -/
structure Ext (st st' : CState) : Prop where
  res : ∃ suf, st'.resources = st.resources ++ suf ∧ ∀ r ∈ suf, r.isLit = true
  vars : st'.varIdx = st.varIdx
  wf : WFres st.resources → WFres st'.resources
  wfn : WFneeded st.resources st.needed → WFneeded st'.resources st'.needed
  mono : ∀ a x, InNeeded st.needed a x → InNeeded st'.needed a x
  nodup : NoDupConst st.resources → NoDupConst st'.resources

theorem Ext.refl (st : CState) : Ext st st := ⟨⟨[], by simp⟩, rfl, id, id, fun _ _ h => h, id⟩

theorem Ext.trans {a b c : CState} (h1 : Ext a b) (h2 : Ext b c) : Ext a c := by
  obtain ⟨⟨s1, e1, l1⟩, v1, w1, n1, m1, d1⟩ := h1
  obtain ⟨⟨s2, e2, l2⟩, v2, w2, n2, m2, d2⟩ := h2
  refine ⟨⟨s1 ++ s2, by rw [e2, e1, List.append_assoc], ?_⟩, v2.trans v1, w2 ∘ w1, n2 ∘ n1, fun a x h => m2 a x (m1 a x h), d2 ∘ d1⟩
  intro r hr
  rcases List.mem_append.mp hr with h | h
  · exact l1 r h
  · exact l2 r h

theorem Ext.len {st st' : CState} (h : Ext st st') : st.resources.length ≤ st'.resources.length := by
  obtain ⟨⟨s, e, _⟩, _⟩ := h
  simp [e]

theorem getElem?_lt {α} {l : List α} {a : Nat} {x : α} (h : l[a]? = some x) : a < l.length := by
  rcases Nat.lt_or_ge a l.length with h' | h'
  · exact h'
  · simp [List.getElem?_eq_none h'] at h

/-- what is at an address stays there -/
theorem Ext.get {st st' : CState} (h : Ext st st') {a : Addr} {r : Resource} (hr : st.resources[a]? = some r) :
    st'.resources[a]? = some r := by
  obtain ⟨⟨s, e, _⟩, _⟩ := h
  rw [e, List.getElem?_append_left (getElem?_lt hr)]; exact hr

theorem Ext.hasTy {st st' : CState} (h : Ext st st') {a : Addr} {t : BTy} (hr : HasTy st.resources a t) :
    HasTy st'.resources a t := by
  obtain ⟨r, h1, h2⟩ := hr
  exact ⟨r, h.get h1, h2⟩

theorem HasTy.append {rs : List Resource} {a : Addr} {t : BTy} (h : HasTy rs a t) (suf : List Resource) : HasTy (rs ++ suf) a t := by
  obtain ⟨r, h1, h2⟩ := h
  exact ⟨r, by rw [List.getElem?_append_left (getElem?_lt h1)]; exact h1, h2⟩

theorem WFneeded.append {rs : List Resource} {nb : List (Addr × List Addr)} (h : WFneeded rs nb) (suf : List Resource) :
    WFneeded (rs ++ suf) nb := by
  intro e he
  obtain ⟨h1, h2⟩ := h e he
  exact ⟨h1.append suf, fun x hx => (h2 x hx).imp (·.append suf) (·.append suf)⟩

/-- a state change that leaves resources, variables and needed balances alone -/
theorem Ext.of_eq {st st' : CState} (hr : st'.resources = st.resources) (hv : st'.varIdx = st.varIdx)
    (hn : st'.needed = st.needed) : Ext st st' :=
  ⟨⟨[], by simp [hr]⟩, hv, by rw [hr]; exact id, by rw [hr, hn]; exact id, by rw [hn]; exact fun _ _ h => h, by rw [hr]; exact id⟩

theorem Ext.addSources (st : CState) (l : List Addr) : Ext st (addSources st l) :=
  Ext.of_eq rfl rfl rfl

theorem setNeeded1_wf {rs : List Resource} {nb : List (Addr × List Addr)} {acc addr : Addr}
    (h : WFneeded rs nb) (ha : HasTy rs acc .account) (hx : HasTy rs addr .asset ∨ HasTy rs addr .monetary) :
    WFneeded rs (setNeeded1 nb acc addr) := by
  unfold setNeeded1
  split
  · intro e he
    simp only [List.mem_map] at he
    obtain ⟨e0, he0, rfl⟩ := he
    obtain ⟨h1, h2⟩ := h e0 he0
    split
    · refine ⟨h1, ?_⟩
      intro x hx'
      unfold insertAddr at hx'
      split at hx'
      · exact h2 x hx'
      · rcases List.mem_append.mp hx' with h' | h'
        · exact h2 x h'
        · simp only [List.mem_singleton] at h'; subst h'; exact hx
    · exact ⟨h1, h2⟩
  · intro e he
    rcases List.mem_append.mp he with h' | h'
    · exact h e h'
    · simp only [List.mem_singleton] at h'; subst h'
      exact ⟨ha, by intro x hx'; simp only [List.mem_singleton] at hx'; subst hx'; exact hx⟩

/-- `setNeededBalances` with account addresses and an asset / monetary address keeps the tables well-formed -/
theorem setNeeded1_mono {nb : List (Addr × List Addr)} {acc addr a x : Addr} (h : InNeeded nb a x) :
    InNeeded (setNeeded1 nb acc addr) a x := by
  obtain ⟨e, he, h1, h2⟩ := h
  unfold setNeeded1
  split
  · by_cases hc : e.1 == acc
    · refine ⟨(e.1, insertAddr e.2 addr), ?_, h1, ?_⟩
      · exact List.mem_map.mpr ⟨e, he, by simp [hc]⟩
      · unfold insertAddr; split
        · exact h2
        · exact List.mem_append_left _ h2
    · exact ⟨e, List.mem_map.mpr ⟨e, he, by simp [hc]⟩, h1, h2⟩
  · exact ⟨e, List.mem_append_left _ he, h1, h2⟩

theorem setNeeded1_self (nb : List (Addr × List Addr)) (acc addr : Addr) : InNeeded (setNeeded1 nb acc addr) acc addr := by
  unfold setNeeded1
  split
  · rename_i h
    rw [List.any_eq_true] at h
    obtain ⟨e, he, hc⟩ := h
    have hc' : e.1 = acc := by simpa using hc
    refine ⟨(e.1, insertAddr e.2 addr), List.mem_map.mpr ⟨e, he, by simp [hc]⟩, hc', ?_⟩
    unfold insertAddr; split
    · rename_i h'; simpa using h'
    · simp
  · exact ⟨(acc, [addr]), by simp, rfl, by simp⟩

theorem foldl_setNeeded1_mono {l : List Addr} {nb : List (Addr × List Addr)} {addr a x : Addr} (h : InNeeded nb a x) :
    InNeeded (l.foldl (fun nb acc => setNeeded1 nb acc addr) nb) a x := by
  induction l generalizing nb with
  | nil => exact h
  | cons y ys ih => exact ih (setNeeded1_mono h)

/-- after `setNeededBalances(accounts, addr)`, every one of the accounts needs `addr` -/
theorem setNeeded_mem (st : CState) {l : List Addr} (addr : Addr) {acc : Addr} (h : acc ∈ l) :
    InNeeded (setNeeded st l addr).needed acc addr := by
  show InNeeded (l.foldl (fun nb acc => setNeeded1 nb acc addr) st.needed) acc addr
  generalize st.needed = nb
  induction l generalizing nb with
  | nil => cases h
  | cons y ys ih =>
    simp only [List.foldl_cons]
    rcases List.mem_cons.mp h with h' | h'
    · subst h'; exact foldl_setNeeded1_mono (setNeeded1_self nb acc addr)
    · exact ih h' _

theorem Ext.setNeeded (st : CState) (l : List Addr) (a : Addr)
    (hl : ∀ x ∈ l, HasTy st.resources x .account) (ha : HasTy st.resources a .asset ∨ HasTy st.resources a .monetary) :
    Ext st (setNeeded st l a) := by
  refine ⟨⟨[], by simp [Num.setNeeded]⟩, rfl, id, ?_, fun _ _ h => foldl_setNeeded1_mono h, id⟩
  intro h
  show WFneeded st.resources (l.foldl (fun nb acc => setNeeded1 nb acc a) st.needed)
  generalize st.needed = nb at h
  induction l generalizing nb with
  | nil => exact h
  | cons x xs ih =>
    simp only [List.foldl_cons]
    exact ih (fun y hy => hl y (List.mem_cons_of_mem _ hy)) _ (setNeeded1_wf h (hl x (List.mem_cons_self ..)) ha)

theorem appendResource_ok {st st' : CState} {r : Resource} {a : Addr} (h : appendResource st r = .ok (a, st')) :
    a = st.resources.length ∧ st' = { st with resources := st.resources ++ [r] } := by
  unfold appendResource at h
  split at h
  · cases h
  · simp only [Except.ok.injEq, Prod.mk.injEq] at h
    exact ⟨h.1.symm, h.2.symm⟩

theorem findConstant_some {rs : List Resource} {v : BVal} {a : Addr} (h : findConstant rs v = some a) :
    ∃ c, rs[a]? = some (.const c) ∧ valueEquals c v = true := by
  unfold findConstant at h
  rw [List.findIdx?_eq_some_iff_getElem] at h
  obtain ⟨hlt, hp, _⟩ := h
  cases hr : rs[a] with
  | const c =>
    refine ⟨c, ?_, ?_⟩
    · rw [List.getElem?_eq_getElem hlt, hr]
    · simpa [isConstEq, hr] using hp
  | var _ _ => simp [isConstEq, hr] at hp
  | varMeta _ _ _ _ => simp [isConstEq, hr] at hp
  | varBalance _ _ _ => simp [isConstEq, hr] at hp
  | monetary _ _ => simp [isConstEq, hr] at hp

theorem mem_zip_self {α} {l : List α} {a b : α} (h : (a, b) ∈ l.zip l) : a = b := by
  induction l with
  | nil => simp at h
  | cons x xs ih =>
    simp only [List.zip_cons_cons, List.mem_cons, Prod.mk.injEq] at h
    rcases h with ⟨rfl, rfl⟩ | h
    · rfl
    · exact ih h

theorem valueEquals_refl (v : BVal) : valueEquals v v = true := by
  cases v <;> simp [valueEquals, ratEq]
  case allotment rs =>
    intro a b h
    rw [mem_zip_self h]

/-- the addresses inside `r` point into `rs` at resources of the right type -/
def ResOK (rs : List Resource) (r : Resource) : Prop :=
  match r with
  | .monetary a _ => HasTy rs a .asset
  | .varMeta _ _ a _ => HasTy rs a .account
  | .varBalance _ a s => HasTy rs a .account ∧ HasTy rs s .asset
  | _ => True

theorem HasTy.lt {rs : List Resource} {a : Addr} {t : BTy} (h : HasTy rs a t) : a < rs.length := by
  obtain ⟨_, h1, _⟩ := h; exact getElem?_lt h1

theorem WFres.append_one {rs : List Resource} {r : Resource} (h : WFres rs) (hr : ResOK rs r) : WFres (rs ++ [r]) := by
  intro i r0 hi
  rcases Nat.lt_or_ge i rs.length with hlt | hge
  · rw [List.getElem?_append_left hlt] at hi
    have := h i r0 hi
    cases r0 with
    | const _ => trivial
    | var _ _ => trivial
    | monetary a n => exact ⟨this.1, this.2.append _⟩
    | varMeta _ _ a _ => exact ⟨this.1, this.2.append _⟩
    | varBalance _ a s => exact ⟨this.1, this.2.1.append _, this.2.2.1, this.2.2.2.append _⟩
  · rw [List.getElem?_append_right hge] at hi
    have hi0 : i - rs.length = 0 := by
      rcases Nat.eq_zero_or_pos (i - rs.length) with h0 | h0
      · exact h0
      · rw [List.getElem?_eq_none (by simp only [List.length_cons, List.length_nil]; omega)] at hi; cases hi
    rw [hi0] at hi
    simp only [List.getElem?_cons_zero, Option.some.injEq] at hi
    subst hi
    cases r with
    | const _ => trivial
    | var _ _ => trivial
    | monetary a n => exact ⟨Nat.lt_of_lt_of_le (HasTy.lt hr) hge, HasTy.append hr _⟩
    | varMeta _ _ a _ => exact ⟨Nat.lt_of_lt_of_le (HasTy.lt hr) hge, HasTy.append hr _⟩
    | varBalance _ a s =>
      exact ⟨Nat.lt_of_lt_of_le (HasTy.lt hr.1) hge, HasTy.append hr.1 _, Nat.lt_of_lt_of_le (HasTy.lt hr.2) hge, HasTy.append hr.2 _⟩

theorem WFres.append_lit {rs : List Resource} {r : Resource} (h : WFres rs) (_hl : r.isLit = true)
    (hw : ∀ a n, r = .monetary a n → HasTy rs a .asset) : WFres (rs ++ [r]) := by
  apply h.append_one
  cases r with
  | monetary a n => exact hw a n rfl
  | const _ => trivial
  | var _ _ => trivial
  | varMeta _ _ _ _ => simp [Resource.isLit] at _hl
  | varBalance _ _ _ => simp [Resource.isLit] at _hl

/-- the outcome of an allocation: the address holds the resource (for a constant: one equal by `ValueEquals`) -/
theorem allocRes_ok {st st' : CState} {r : Resource} {a : Addr} (hl : r.isLit = true)
    (hw : ∀ x n, r = .monetary x n → HasTy st.resources x .asset)
    (h : allocRes st r = .ok (a, st')) :
    Ext st st' ∧ (∃ r', st'.resources[a]? = some r' ∧
      (match r with | .const v => ∃ c, r' = .const c ∧ valueEquals c v = true | _ => r' = r)) := by
  unfold allocRes at h
  have app : ∀ {st'}, (∀ v, r = .const v → findConstant st.resources v = none) →
      appendResource st r = .ok (a, st') → Ext st st' ∧ st'.resources[a]? = some r := by
    intro st' hfn h
    obtain ⟨ha, hs⟩ := appendResource_ok h
    subst ha; subst hs
    refine ⟨⟨⟨[r], rfl, by simpa using hl⟩, rfl, fun w => w.append_lit hl hw, fun w => w.append _, fun _ _ h => h, ?_⟩, by simp⟩
    intro hnd i j c d hij hi hj
    rcases Nat.lt_or_ge j st.resources.length with hjl | hjl
    · rw [List.getElem?_append_left hjl] at hj
      rw [List.getElem?_append_left (Nat.lt_trans hij hjl)] at hi
      exact hnd i j c d hij hi hj
    · rw [List.getElem?_append_right hjl] at hj
      have hj0 : j - st.resources.length = 0 := by
        rcases Nat.eq_zero_or_pos (j - st.resources.length) with h0 | h0
        · exact h0
        · rw [List.getElem?_eq_none (by simp only [List.length_cons, List.length_nil]; omega)] at hj; cases hj
      rw [hj0] at hj
      simp only [List.getElem?_cons_zero, Option.some.injEq] at hj
      have hil : i < st.resources.length := by omega
      rw [List.getElem?_append_left hil] at hi
      have hfn' := hfn d hj
      unfold findConstant at hfn'
      rw [List.findIdx?_eq_none_iff] at hfn'
      have := hfn' _ (List.mem_of_getElem? hi)
      simpa [isConstEq] using this
  cases r with
  | const v =>
    simp only at h
    cases hf : findConstant st.resources v with
    | some a' =>
      simp only [hf, Except.ok.injEq, Prod.mk.injEq] at h
      obtain ⟨rfl, rfl⟩ := h
      obtain ⟨c, hc, he⟩ := findConstant_some hf
      exact ⟨Ext.refl _, _, hc, c, rfl, he⟩
    | none =>
      simp only [hf] at h
      obtain ⟨he, hg⟩ := app (by intro v' hv'; cases hv'; exact hf) h
      exact ⟨he, _, hg, v, rfl, valueEquals_refl v⟩
  | monetary x n => obtain ⟨he, hg⟩ := app (by intro v' hv'; cases hv') h; exact ⟨he, _, hg, rfl⟩
  | var _ _ => simp [Resource.isLit] at hl
  | varMeta _ _ _ _ => simp [Resource.isLit] at hl
  | varBalance _ _ _ => simp [Resource.isLit] at hl

theorem valueEquals_bty {c v : BVal} (h : valueEquals c v = true) : c.bty = v.bty := by
  cases c <;> cases v <;> simp_all [valueEquals, BVal.bty]

/-- allocation of a constant: the address holds a constant of the same type -/
theorem allocConst_ok {st st' : CState} {v : BVal} {a : Addr} (h : allocRes st (.const v) = .ok (a, st')) :
    Ext st st' ∧ ∃ c, st'.resources[a]? = some (.const c) ∧ valueEquals c v = true := by
  obtain ⟨he, r', hr, c, rfl, hc⟩ := allocRes_ok rfl (by intro x n h; cases h) h
  exact ⟨he, c, hr, hc⟩

theorem allocConst_hasTy {st st' : CState} {v : BVal} {a : Addr} (h : allocRes st (.const v) = .ok (a, st')) :
    HasTy st'.resources a v.bty := by
  obtain ⟨_, c, hr, hc⟩ := allocConst_ok h
  exact ⟨_, hr, by simpa [Resource.bty] using valueEquals_bty hc⟩

theorem emitSeq_ext {st st' : CState} {es : List Emit} {c : Code} (h : emitSeq st es = .ok (c, st')) : Ext st st' := by
  induction es generalizing st c with
  | nil =>
    simp only [emitSeq, Except.ok.injEq, Prod.mk.injEq] at h
    obtain ⟨_, rfl⟩ := h; exact Ext.refl _
  | cons e es ih =>
    cases e with
    | op i =>
      simp only [emitSeq] at h
      split at h
      · cases h
      · rename_i c' st1 hr
        simp only [Except.ok.injEq, Prod.mk.injEq] at h
        obtain ⟨_, rfl⟩ := h; exact ih hr
    | pushAddr a =>
      simp only [emitSeq] at h
      split at h
      · cases h
      · rename_i c' st1 hr
        simp only [Except.ok.injEq, Prod.mk.injEq] at h
        obtain ⟨_, rfl⟩ := h; exact ih hr
    | pushInt n =>
      simp only [emitSeq] at h
      split at h
      · cases h
      · rename_i a st1 ha
        split at h
        · cases h
        · rename_i c' st2 hr
          simp only [Except.ok.injEq, Prod.mk.injEq] at h
          obtain ⟨_, rfl⟩ := h
          exact (allocConst_ok ha).1.trans (ih hr)
    | bump n =>
      simp only [emitSeq] at h
      split at h
      · cases h
      · rename_i a st1 ha
        split at h
        · cases h
        · rename_i c' st2 hr
          simp only [Except.ok.injEq, Prod.mk.injEq] at h
          obtain ⟨_, rfl⟩ := h
          exact (allocConst_ok ha).1.trans (ih hr)

theorem litOut_ok {st : CState} {ty : BTy} {v : BVal} {o : ExprOut} (hty : v.bty = ty) (h : litOut st ty v = .ok o) :
    Ext st o.st ∧ ∀ a, o.addr = some a → HasTy o.st.resources a o.ty := by
  unfold litOut at h
  split at h
  · cases h
  · rename_i a st1 ha
    simp only [Except.ok.injEq] at h
    subst h
    refine ⟨(allocConst_ok ha).1, ?_⟩
    intro a' ha'
    simp only [Option.some.injEq] at ha'; subst ha'
    rw [← hty]; exact allocConst_hasTy ha

theorem findMonetary_some {rs : List Resource} {aa : Addr} {n : Int} {m : Addr} (h : findMonetary rs aa n = some m) :
    rs[m]? = some (.monetary aa n) := by
  unfold findMonetary at h
  cases hl : (rs.zipIdx.filter (fun p => isMonetaryRes aa n p.1)).getLast? with
  | none => simp [hl] at h
  | some p =>
    simp only [hl, Option.map_some, Option.some.injEq] at h
    have hm := List.mem_of_getLast? hl
    simp only [List.mem_filter] at hm
    obtain ⟨hz, hp⟩ := hm
    obtain ⟨r, i⟩ := p
    simp only at h; subst h
    have := List.mem_zipIdx hz
    simp only [Nat.zero_add, Nat.sub_zero] at this
    obtain ⟨_, hlt, hr⟩ := this
    rw [List.getElem?_eq_getElem (by simpa using hlt)]
    cases r with
    | monetary a k =>
      simp only [isMonetaryRes, Bool.and_eq_true, beq_iff_eq] at hp
      obtain ⟨rfl, rfl⟩ := hp
      simp [← hr]
    | const _ => simp [isMonetaryRes] at hp
    | var _ _ => simp [isMonetaryRes] at hp
    | varMeta _ _ _ _ => simp [isMonetaryRes] at hp
    | varBalance _ _ _ => simp [isMonetaryRes] at hp

/-- structural outcome of `VisitExpr`: the state only grows, and the returned address holds a resource of the
returned type -/
theorem visitExpr_ok {st : CState} {e : Expr} {o : ExprOut} (h : visitExpr st e = .ok o) :
    Ext st o.st ∧ ∀ a, o.addr = some a → HasTy o.st.resources a o.ty := by
  induction e generalizing st o with
  | acct a => exact litOut_ok rfl h
  | asset a => exact litOut_ok rfl h
  | num n => exact litOut_ok rfl h
  | str s => exact litOut_ok rfl h
  | portion r => exact litOut_ok rfl h
  | badPortion => simp [visitExpr] at h
  | mon ae n ih =>
    simp only [visitExpr] at h
    split at h
    · cases h
    · rename_i ao hao
      obtain ⟨hext, haddr⟩ := ih (o := ao) hao
      split at h
      · cases h
      · rename_i hty
        split at h
        · cases h
        · rename_i aa haa
          have hasset : HasTy ao.st.resources aa .asset := by
            have := haddr aa haa
            rw [Classical.not_not.mp hty] at this; exact this
          split at h
          · rename_i m hm
            simp only [Except.ok.injEq] at h; subst h
            refine ⟨hext, ?_⟩
            intro a' ha'
            simp only [Option.some.injEq] at ha'; subst ha'
            exact ⟨_, findMonetary_some hm, rfl⟩
          · split at h
            · cases h
            · rename_i m st1 hm
              simp only [Except.ok.injEq] at h; subst h
              obtain ⟨he2, r', hr', hrr⟩ := allocRes_ok rfl (by intro x k hx; cases hx; exact hasset) hm
              simp only at hrr; subst hrr
              refine ⟨hext.trans he2, ?_⟩
              intro a' ha'
              simp only [Option.some.injEq] at ha'; subst ha'
              exact ⟨_, hr', rfl⟩
  | var n =>
    simp only [visitExpr] at h
    split at h
    · cases h
    · split at h
      · cases h
      · rename_i idx _ r hr
        simp only [Except.ok.injEq] at h; subst h
        refine ⟨Ext.refl _, ?_⟩
        intro a' ha'
        simp only [Option.some.injEq] at ha'; subst ha'
        exact ⟨r, hr, rfl⟩
  | add l r ihl ihr =>
    simp only [visitExpr] at h
    split at h
    · cases h
    · rename_i lo hlo
      obtain ⟨hel, hal⟩ := ihl (o := lo) hlo
      split at h
      · split at h
        · cases h
        · rename_i ro hro
          split at h
          · cases h
          · simp only [Except.ok.injEq] at h; subst h
            exact ⟨hel.trans (ihr (o := ro) hro).1, by intro a ha; cases ha⟩
      · split at h
        · rename_i hm
          split at h
          · cases h
          · rename_i ro hro
            split at h
            · cases h
            · simp only [Except.ok.injEq] at h; subst h
              have her := (ihr (o := ro) hro).1
              refine ⟨hel.trans her, ?_⟩
              intro a ha
              have := hal a ha
              rw [hm] at this
              exact her.hasTy this
        · cases h
  | sub l r ihl ihr =>
    simp only [visitExpr] at h
    split at h
    · cases h
    · rename_i lo hlo
      obtain ⟨hel, hal⟩ := ihl (o := lo) hlo
      split at h
      · split at h
        · cases h
        · rename_i ro hro
          split at h
          · cases h
          · simp only [Except.ok.injEq] at h; subst h
            exact ⟨hel.trans (ihr (o := ro) hro).1, by intro a ha; cases ha⟩
      · split at h
        · rename_i hm
          split at h
          · cases h
          · rename_i ro hro
            split at h
            · cases h
            · simp only [Except.ok.injEq] at h; subst h
              have her := (ihr (o := ro) hro).1
              refine ⟨hel.trans her, ?_⟩
              intro a ha
              have := hal a ha
              rw [hm] at this
              exact her.hasTy this
        · cases h

theorem visitExpr_ext {st : CState} {e : Expr} {o : ExprOut} (h : visitExpr st e = .ok o) : Ext st o.st :=
  (visitExpr_ok h).1

/-- `VisitExpr` + type test + dereference: the address holds a resource of the wanted type -/
theorem visitTyped_ok {st st' : CState} {want : BTy} {e : Expr} {a : Addr} {c : Code}
    (h : visitTyped st want e = .ok (a, c, st')) : Ext st st' ∧ HasTy st'.resources a want := by
  unfold visitTyped at h
  split at h
  · cases h
  · rename_i o ho
    split at h
    · cases h
    · rename_i hty
      split at h
      · cases h
      · rename_i a' ha'
        simp only [Except.ok.injEq, Prod.mk.injEq] at h
        obtain ⟨rfl, _, rfl⟩ := h
        obtain ⟨he, hh⟩ := visitExpr_ok ho
        refine ⟨he, ?_⟩
        have := hh _ ha'
        rw [Classical.not_not.mp hty] at this; exact this

theorem visitTyped_ext {st st' : CState} {want : BTy} {e : Expr} {a : Addr} {c : Code}
    (h : visitTyped st want e = .ok (a, c, st')) : Ext st st' := by
  unfold visitTyped at h
  split at h
  · cases h
  · rename_i o ho
    split at h
    · cases h
    · split at h
      · cases h
      · simp only [Except.ok.injEq, Prod.mk.injEq] at h
        obtain ⟨_, _, rfl⟩ := h
        exact visitExpr_ext ho

theorem mem_insertAddr {l : List Addr} {a x : Addr} (h : x ∈ insertAddr l a) : x ∈ l ∨ x = a := by
  unfold insertAddr at h
  split at h
  · exact Or.inl h
  · rcases List.mem_append.mp h with h | h
    · exact Or.inl h
    · exact Or.inr (by simpa using h)

theorem mem_unionAddr {l xs : List Addr} {x : Addr} (h : x ∈ unionAddr l xs) : x ∈ l ∨ x ∈ xs := by
  unfold unionAddr at h
  induction xs generalizing l with
  | nil => exact Or.inl h
  | cons y ys ih =>
    simp only [List.foldl_cons] at h
    rcases ih h with h | h
    · rcases mem_insertAddr h with h | h
      · exact Or.inl h
      · exact Or.inr (by simp [h])
    · exact Or.inr (List.mem_cons_of_mem _ h)

/-- the accounts a source reports are addresses of account-typed resources -/
def AcctAddrs (rs : List Resource) (l : List Addr) : Prop := ∀ a ∈ l, HasTy rs a .account

theorem AcctAddrs.ext {st st' : CState} {l : List Addr} (h : AcctAddrs st.resources l) (he : Ext st st') :
    AcctAddrs st'.resources l := fun a ha => he.hasTy (h a ha)

/-- the body of `SrcAccount` after the account expression -/
theorem srcBody_ext {st st1 : CState} {pa c : Code} {w : Bool} {a : Addr} {od : Overdraft} {fb : Option Addr}
    (hb : (match od with
          | .none =>
            match emitSeq st [.pushInt 0, .op .monetaryNew, .op .takeAll] with
            | .error er => .error er
            | .ok (c, st1) => .ok (pa ++ c, st1, if w then some a else none)
          | .upTo x =>
            if w then .error .static else
            match visitExpr st x with
            | .error er => .error er
            | .ok xo => if xo.ty ≠ .monetary then .error .static else .ok (xo.code ++ [.takeAll], xo.st, none)
          | .unbounded =>
            if w then .error .static else
            match emitSeq st [.pushInt 0, .op .monetaryNew, .op .takeAll] with
            | .error er => .error er
            | .ok (c, st1) => .ok (pa ++ c, st1, some a) : Except CompileErr (Code × CState × Option Addr)) = .ok (c, st1, fb)) :
    Ext st st1 := by
  cases od with
  | none =>
    simp only at hb
    split at hb
    · cases hb
    · rename_i c' st1' hs
      simp only [Except.ok.injEq, Prod.mk.injEq] at hb
      obtain ⟨_, rfl, _⟩ := hb; exact emitSeq_ext hs
  | upTo x =>
    simp only at hb
    split at hb
    · cases hb
    · split at hb
      · cases hb
      · rename_i xo hxo
        split at hb
        · cases hb
        · simp only [Except.ok.injEq, Prod.mk.injEq] at hb
          obtain ⟨_, rfl, _⟩ := hb; exact visitExpr_ext hxo
  | unbounded =>
    simp only at hb
    split at hb
    · cases hb
    · split at hb
      · cases hb
      · rename_i c' st1' hs
        simp only [Except.ok.injEq, Prod.mk.injEq] at hb
        obtain ⟨_, rfl, _⟩ := hb; exact emitSeq_ext hs

mutual
theorem visitSource_ok {st : CState} {pa : Code} {isAll : Bool} {s : Source} {so : SrcOut}
    (h : visitSource st pa isAll s = .ok so) : Ext st so.st ∧ AcctAddrs so.st.resources so.needed := by
  cases s with
  | acct e od =>
    simp only [visitSource] at h
    split at h
    · cases h
    · rename_i o ho
      split at h
      · cases h
      · rename_i hty
        split at h
        · cases h
        · rename_i a haddr
          obtain ⟨he, hh⟩ := visitExpr_ok ho
          have hacc : HasTy o.st.resources a .account := by
            have := hh a haddr
            rw [Classical.not_not.mp hty] at this; exact this
          split at h
          · cases h
          · rename_i c st1 fb hb
            split at h
            · cases h
            · simp only [Except.ok.injEq] at h; subst h
              have hb' := (srcBody_ext hb).trans (Ext.addSources st1 [a])
              refine ⟨he.trans hb', ?_⟩
              intro x hx
              simp only [List.mem_singleton] at hx; subst hx
              exact hb'.hasTy hacc
  | maxed cap s =>
    simp only [visitSource] at h
    split at h
    · cases h
    · rename_i so1 hso
      split at h
      · cases h
      · rename_i co hco
        split at h
        · cases h
        · split at h
          · cases h
          · rename_i c st1 hs
            simp only [Except.ok.injEq] at h; subst h
            obtain ⟨h1, h2⟩ := visitSource_ok hso
            have h3 := (visitExpr_ext hco).trans ((emitSeq_ext hs).trans (Ext.addSources _ so1.needed))
            exact ⟨h1.trans h3, h2.ext h3⟩
  | inorder ss =>
    simp only [visitSource] at h
    split at h
    · cases h
    · rename_i so1 n hso
      split at h
      · cases h
      · rename_i c st1 hs
        simp only [Except.ok.injEq] at h; subst h
        obtain ⟨h1, h2⟩ := visitSources_ok hso (by intro a ha; cases ha)
        have h3 := (emitSeq_ext hs).trans (Ext.addSources _ so1.needed)
        exact ⟨h1.trans h3, h2.ext h3⟩
theorem visitSources_ok {st : CState} {pa : Code} {isAll : Bool} {ss : SourceList} {nd em : List Addr} {so : SrcOut} {n : Nat}
    (h : visitSources st pa isAll ss nd em = .ok (so, n)) (hnd : AcctAddrs st.resources nd) :
    Ext st so.st ∧ AcctAddrs so.st.resources so.needed := by
  cases ss with
  | nil =>
    simp only [visitSources, Except.ok.injEq, Prod.mk.injEq] at h
    obtain ⟨rfl, _⟩ := h; exact ⟨Ext.refl _, hnd⟩
  | cons s rest =>
    simp only [visitSources] at h
    split at h
    · cases h
    · rename_i so1 hso
      split at h
      · cases h
      · split at h
        · cases h
        · split at h
          · cases h
          · rename_i ro n' hro
            simp only [Except.ok.injEq, Prod.mk.injEq] at h
            obtain ⟨rfl, _⟩ := h
            obtain ⟨h1, h2⟩ := visitSource_ok hso
            have hnd' : AcctAddrs so1.st.resources (unionAddr nd so1.needed) := by
              intro a ha
              rcases mem_unionAddr ha with h | h
              · exact h1.hasTy (hnd a h)
              · exact h2 a h
            obtain ⟨h3, h4⟩ := visitSources_ok (so := ro) hro hnd'
            exact ⟨h1.trans h3, h4⟩
end

theorem visitPortions_ext {st st' : CState} {ps : List PortionSpec} {hv hr hv' hr' : Bool} {c : Code}
    (h : visitPortions st ps hv hr = .ok (c, st', hv', hr')) : Ext st st' := by
  induction ps generalizing st hv hr c with
  | nil =>
    simp only [visitPortions, Except.ok.injEq, Prod.mk.injEq] at h
    obtain ⟨_, rfl, _⟩ := h; exact Ext.refl _
  | cons p rest ih =>
    simp only [visitPortions] at h
    split at h
    · cases h
    · rename_i c1 st1 hv1 hr1 hone
      split at h
      · cases h
      · rename_i c2 st2 hv2 hr2 hrest
        simp only [Except.ok.injEq, Prod.mk.injEq] at h
        obtain ⟨_, rfl, rfl, rfl⟩ := h
        refine Ext.trans ?_ (ih hrest)
        cases p with
        | const r =>
          simp only at hone
          split at hone
          · cases hone
          · rename_i a st1' ha
            simp only [Except.ok.injEq, Prod.mk.injEq] at hone
            obtain ⟨_, rfl, _⟩ := hone; exact (allocConst_ok ha).1
        | badConst => cases hone
        | var n =>
          simp only at hone
          split at hone
          · cases hone
          · rename_i o ho
            split at hone
            · cases hone
            · simp only [Except.ok.injEq, Prod.mk.injEq] at hone
              obtain ⟨_, rfl, _⟩ := hone; exact visitExpr_ext ho
        | remaining =>
          simp only at hone
          split at hone
          · cases hone
          · split at hone
            · cases hone
            · rename_i a st1' ha
              simp only [Except.ok.injEq, Prod.mk.injEq] at hone
              obtain ⟨_, rfl, _⟩ := hone; exact (allocConst_ok ha).1

theorem visitAllotment_ext {st st' : CState} {ps : List PortionSpec} {c : Code}
    (h : visitAllotment st ps = .ok (c, st')) : Ext st st' := by
  unfold visitAllotment at h
  split at h
  · cases h
  · rename_i c1 st1 hv hr hp
    simp only at h
    split at h
    · cases h
    · split at h
      · cases h
      · split at h
        · cases h
        · split at h
          · cases h
          · split at h
            · cases h
            · rename_i c2 st2 hs
              simp only [Except.ok.injEq, Prod.mk.injEq] at h
              obtain ⟨_, rfl⟩ := h
              exact (visitPortions_ext hp).trans (emitSeq_ext hs)

mutual
theorem visitDest_ext {st st' : CState} {d : Dest} {c : Code} (h : visitDest st d = .ok (c, st')) : Ext st st' := by
  cases d with
  | acct e =>
    simp only [visitDest] at h
    split at h
    · cases h
    · rename_i o ho
      split at h
      · cases h
      · simp only [Except.ok.injEq, Prod.mk.injEq] at h
        obtain ⟨_, rfl⟩ := h; exact visitExpr_ext ho
  | inorder caps rest =>
    simp only [visitDest] at h
    split at h
    · cases h
    · rename_i c0 st0 h0
      split at h
      · cases h
      · rename_i c1 st1 h1
        split at h
        · cases h
        · rename_i c2 st2 h2
          split at h
          · cases h
          · rename_i c3 st3 h3
            split at h
            · cases h
            · rename_i c4 st4 h4
              simp only [Except.ok.injEq, Prod.mk.injEq] at h
              obtain ⟨_, rfl⟩ := h
              exact (emitSeq_ext h0).trans ((visitCaps_ext h1).trans ((emitSeq_ext h2).trans ((visitKD_ext h3).trans (emitSeq_ext h4))))
  | allot items =>
    simp only [visitDest] at h
    split at h
    · cases h
    · rename_i c1 st1 h1
      split at h
      · cases h
      · rename_i c2 st2 h2
        split at h
        · cases h
        · rename_i c3 st3 h3
          simp only [Except.ok.injEq, Prod.mk.injEq] at h
          obtain ⟨_, rfl⟩ := h
          exact (visitAllotment_ext h1).trans ((emitSeq_ext h2).trans (visitAllocDest_ext h3))
theorem visitKD_ext {st st' : CState} {kd : KeptOrDest} {c : Code} (h : visitKD st kd = .ok (c, st')) : Ext st st' := by
  cases kd with
  | kept =>
    simp only [visitKD, Except.ok.injEq, Prod.mk.injEq] at h
    obtain ⟨_, rfl⟩ := h; exact Ext.refl _
  | to d =>
    simp only [visitKD] at h
    exact visitDest_ext h
theorem visitCaps_ext {st st' : CState} {cs : CapList} {c : Code} (h : visitCaps st cs = .ok (c, st')) : Ext st st' := by
  cases cs with
  | nil =>
    simp only [visitCaps, Except.ok.injEq, Prod.mk.injEq] at h
    obtain ⟨_, rfl⟩ := h; exact Ext.refl _
  | cons cap kd rest =>
    simp only [visitCaps] at h
    split at h
    · cases h
    · rename_i o ho
      split at h
      · cases h
      · split at h
        · cases h
        · rename_i c1 st1 h1
          split at h
          · cases h
          · rename_i c2 st2 h2
            split at h
            · cases h
            · rename_i c3 st3 h3
              split at h
              · cases h
              · rename_i c4 st4 h4
                simp only [Except.ok.injEq, Prod.mk.injEq] at h
                obtain ⟨_, rfl⟩ := h
                exact (visitExpr_ext ho).trans ((emitSeq_ext h1).trans ((visitKD_ext h2).trans ((emitSeq_ext h3).trans (visitCaps_ext h4))))
theorem visitAllocDest_ext {st st' : CState} {al : AllotList} {c : Code} (h : visitAllocDest st al = .ok (c, st')) : Ext st st' := by
  cases al with
  | nil =>
    simp only [visitAllocDest, Except.ok.injEq, Prod.mk.injEq] at h
    obtain ⟨_, rfl⟩ := h; exact Ext.refl _
  | cons p kd rest =>
    simp only [visitAllocDest] at h
    split at h
    · cases h
    · rename_i c1 st1 h1
      split at h
      · cases h
      · rename_i c2 st2 h2
        split at h
        · cases h
        · rename_i c3 st3 h3
          split at h
          · cases h
          · rename_i c4 st4 h4
            simp only [Except.ok.injEq, Prod.mk.injEq] at h
            obtain ⟨_, rfl⟩ := h
            exact (emitSeq_ext h1).trans ((visitKD_ext h2).trans ((emitSeq_ext h3).trans (visitAllocDest_ext h4)))
end

theorem visitDestination_ext {st st' : CState} {d : Dest} {c : Code} (h : visitDestination st d = .ok (c, st')) : Ext st st' := by
  unfold visitDestination at h
  split at h
  · cases h
  · rename_i c1 st1 h1
    simp only [Except.ok.injEq, Prod.mk.injEq] at h
    obtain ⟨_, rfl⟩ := h; exact visitDest_ext h1

theorem visitAllotSources_ext {st st' : CState} {pa : Code} {m : Addr} {items : List (PortionSpec × Source)} {i : Nat} {c : Code}
    (hm : HasTy st.resources m .monetary)
    (h : visitAllotSources st pa m items i = .ok (c, st')) : Ext st st' := by
  induction items generalizing st i c with
  | nil =>
    simp only [visitAllotSources, Except.ok.injEq, Prod.mk.injEq] at h
    obtain ⟨_, rfl⟩ := h; exact Ext.refl _
  | cons it rest ih =>
    obtain ⟨p, s⟩ := it
    simp only [visitAllotSources] at h
    split at h
    · cases h
    · rename_i so hso
      split at h
      · cases h
      · rename_i c1 st1 h1
        split at h
        · cases h
        · rename_i c2 st2 h2
          simp only [Except.ok.injEq, Prod.mk.injEq] at h
          obtain ⟨_, rfl⟩ := h
          obtain ⟨hs1, hs2⟩ := visitSource_ok hso
          have e1 := hs1.trans ((Ext.setNeeded so.st so.needed m hs2 (Or.inr (hs1.hasTy hm))).trans (emitSeq_ext h1))
          exact e1.trans (ih (e1.hasTy hm) h2)

theorem visitSendSource_ext {st st' : CState} {amt : SendAmt} {src : VSource} {c : Code}
    (h : visitSendSource st amt src = .ok (c, st')) : Ext st st' := by
  cases amt with
  | mon e =>
    cases src with
    | src s =>
      simp only [visitSendSource] at h
      split at h
      · cases h
      · rename_i m c0 st1 hm
        split at h
        · cases h
        · rename_i so hso
          split at h
          · cases h
          · rename_i eo heo
            split at h
            · cases h
            · rename_i c2 st2 hs
              simp only [Except.ok.injEq, Prod.mk.injEq] at h
              obtain ⟨_, rfl⟩ := h
              obtain ⟨e1, t1⟩ := visitTyped_ok hm
              obtain ⟨e2, a2⟩ := visitSource_ok hso
              exact e1.trans (e2.trans ((Ext.setNeeded so.st so.needed m a2 (Or.inr (e2.hasTy t1))).trans ((visitExpr_ext heo).trans (emitSeq_ext hs))))
    | allot items =>
      simp only [visitSendSource] at h
      split at h
      · cases h
      · rename_i m c0 st1 hm
        split at h
        · cases h
        · rename_i eo heo
          split at h
          · cases h
          · rename_i c1 st2 h1
            split at h
            · cases h
            · rename_i c2 st3 h2
              split at h
              · cases h
              · rename_i c3 st4 h3
                simp only [Except.ok.injEq, Prod.mk.injEq] at h
                obtain ⟨_, rfl⟩ := h
                obtain ⟨e1, t1⟩ := visitTyped_ok hm
                have e2 := (visitExpr_ext heo).trans (visitAllotment_ext h1)
                exact e1.trans (e2.trans ((visitAllotSources_ext (e2.hasTy t1) h2).trans (emitSeq_ext h3)))
  | all ae =>
    cases src with
    | src s =>
      simp only [visitSendSource] at h
      split at h
      · cases h
      · rename_i a c0 st1 ha
        split at h
        · cases h
        · rename_i so hso
          simp only [Except.ok.injEq, Prod.mk.injEq] at h
          obtain ⟨_, rfl⟩ := h
          obtain ⟨e1, t1⟩ := visitTyped_ok ha
          obtain ⟨e2, a2⟩ := visitSource_ok hso
          exact e1.trans (e2.trans (Ext.setNeeded so.st so.needed a a2 (Or.inl (e2.hasTy t1))))
    | allot items =>
      simp only [visitSendSource] at h
      split at h <;> cases h

theorem visitStmt_ext {st st' : CState} {s : Stmt} {c : Code} (h : visitStmt st s = .ok (c, st')) : Ext st st' := by
  cases s with
  | send amt src d =>
    simp only [visitStmt] at h
    split at h
    · cases h
    · rename_i c1 st1 h1
      split at h
      · cases h
      · rename_i c2 st2 h2
        simp only [Except.ok.injEq, Prod.mk.injEq] at h
        obtain ⟨_, rfl⟩ := h
        exact (visitSendSource_ext h1).trans (visitDestination_ext h2)
  | saveMon e acc =>
    simp only [visitStmt] at h
    split at h
    · cases h
    · rename_i m c1 st1 h1
      split at h
      · cases h
      · rename_i a c2 st2 h2
        simp only [Except.ok.injEq, Prod.mk.injEq] at h
        obtain ⟨_, rfl⟩ := h
        obtain ⟨e1, t1⟩ := visitTyped_ok h1
        obtain ⟨e2, t2⟩ := visitTyped_ok h2
        refine e1.trans (e2.trans (Ext.setNeeded st2 [a] m ?_ (Or.inr (e2.hasTy t1))))
        intro x hx; simp only [List.mem_singleton] at hx; subst hx; exact t2
  | saveAll ae acc =>
    simp only [visitStmt] at h
    split at h
    · cases h
    · rename_i m c1 st1 h1
      split at h
      · cases h
      · rename_i a c2 st2 h2
        simp only [Except.ok.injEq, Prod.mk.injEq] at h
        obtain ⟨_, rfl⟩ := h
        obtain ⟨e1, t1⟩ := visitTyped_ok h1
        obtain ⟨e2, t2⟩ := visitTyped_ok h2
        refine e1.trans (e2.trans (Ext.setNeeded st2 [a] m ?_ (Or.inl (e2.hasTy t1))))
        intro x hx; simp only [List.mem_singleton] at hx; subst hx; exact t2
  | setTxMeta key v =>
    simp only [visitStmt] at h
    split at h
    · cases h
    · rename_i o ho
      split at h
      · cases h
      · rename_i k st1 hk
        simp only [Except.ok.injEq, Prod.mk.injEq] at h
        obtain ⟨_, rfl⟩ := h
        exact (visitExpr_ext ho).trans (allocConst_ok hk).1
  | setAccountMeta acc key v =>
    simp only [visitStmt] at h
    split at h
    · cases h
    · rename_i o ho
      split at h
      · cases h
      · rename_i k st1 hk
        split at h
        · cases h
        · rename_i a c2 st2 h2
          simp only [Except.ok.injEq, Prod.mk.injEq] at h
          obtain ⟨_, rfl⟩ := h
          exact (visitExpr_ext ho).trans ((allocConst_ok hk).1.trans (visitTyped_ok h2).1)
  | print e =>
    simp only [visitStmt] at h
    split at h
    · cases h
    · rename_i o ho
      simp only [Except.ok.injEq, Prod.mk.injEq] at h
      obtain ⟨_, rfl⟩ := h
      exact visitExpr_ext ho
  | fail =>
    simp only [visitStmt, Except.ok.injEq, Prod.mk.injEq] at h
    obtain ⟨_, rfl⟩ := h; exact Ext.refl _

theorem visitStmts_ext {st st' : CState} {ss : List Stmt} {c : Code} (h : visitStmts st ss = .ok (c, st')) : Ext st st' := by
  induction ss generalizing st c with
  | nil =>
    simp only [visitStmts, Except.ok.injEq, Prod.mk.injEq] at h
    obtain ⟨_, rfl⟩ := h; exact Ext.refl _
  | cons s rest ih =>
    simp only [visitStmts] at h
    split at h
    · cases h
    · rename_i c1 st1 h1
      split at h
      · cases h
      · rename_i c2 st2 h2
        simp only [Except.ok.injEq, Prod.mk.injEq] at h
        obtain ⟨_, rfl⟩ := h
        exact (visitStmt_ext h1).trans (ih h2)

/-- the tables of a compiler state are well-formed -/
structure GoodSt (st : CState) : Prop where
  wf : WFres st.resources
  wfn : WFneeded st.resources st.needed

theorem Ext.good {st st' : CState} (h : Ext st st') (g : GoodSt st) : GoodSt st' := ⟨h.wf g.wf, h.wfn g.wfn⟩

theorem good_init : GoodSt {} := ⟨by intro i r h; simp at h, by intro e he; simp at he⟩

/-- appending one more resource whose inner addresses are fine -/
theorem allocRes_good {st st' : CState} {r : Resource} {a : Addr} (g : GoodSt st) (hr : ResOK st.resources r)
    (hnc : ∀ v, r ≠ .const v) (h : allocRes st r = .ok (a, st')) : GoodSt st' ∧ st'.needed = st.needed := by
  have happ : appendResource st r = .ok (a, st') := by
    unfold allocRes at h
    cases r with
    | const v => exact absurd rfl (hnc v)
    | var _ _ => exact h
    | varMeta _ _ _ _ => exact h
    | varBalance _ _ _ => exact h
    | monetary _ _ => exact h
  obtain ⟨_, rfl⟩ := appendResource_ok happ
  exact ⟨⟨g.wf.append_one hr, g.wfn.append _⟩, rfl⟩

theorem visitVar_good {st st' : CState} {d : VarDecl} (g : GoodSt st) (h : visitVar st d = .ok st') : GoodSt st' := by
  unfold visitVar at h
  split at h
  · cases h
  · simp only at h
    split at h
    · cases h
    · rename_i addr st1 hr
      simp only [Except.ok.injEq] at h; subst h
      suffices GoodSt st1 from ⟨this.wf, this.wfn⟩
      cases ho : d.origin with
      | none =>
        simp only [ho] at hr
        exact (allocRes_good (r := .var d.ty d.name) g trivial (by intro v hv; cases hv) hr).1
      | metaOf acc key =>
        simp only [ho] at hr
        split at hr
        · cases hr
        · rename_i a c0 st0 ha
          obtain ⟨e1, t1⟩ := visitTyped_ok ha
          exact (allocRes_good (r := .varMeta d.ty d.name a key) (e1.good g) t1 (by intro v hv; cases hv) hr).1
      | balance acc ae =>
        simp only [ho] at hr
        split at hr
        · cases hr
        · split at hr
          · cases hr
          · rename_i a c0 st0 ha
            split at hr
            · cases hr
            · rename_i s c1 st1' hs
              obtain ⟨e1, t1⟩ := visitTyped_ok ha
              obtain ⟨e2, t2⟩ := visitTyped_ok hs
              exact (allocRes_good (r := .varBalance d.name a s) (e2.good (e1.good g)) ⟨e2.hasTy t1, t2⟩ (by intro v hv; cases hv) hr).1

theorem visitVarList_good {st st' : CState} {ds : List VarDecl} (g : GoodSt st) (h : visitVarList st ds = .ok st') : GoodSt st' := by
  induction ds generalizing st with
  | nil => simp only [visitVarList, Except.ok.injEq] at h; subst h; exact g
  | cons d rest ih =>
    simp only [visitVarList] at h
    split at h
    · cases h
    · rename_i st1 h1
      exact ih (visitVar_good g h1) h

/-- **the tables of a compiled program are well-formed**: every address stored inside a resource points to an
earlier resource of the right type, and `NeededBalances` only mentions accounts and assets / monetaries -/
theorem compile_good {P : Script} {prog : Program} (h : compile P = .ok prog) :
    WFres prog.resources ∧ WFneeded prog.resources prog.needed := by
  unfold compile at h
  split at h
  · cases h
  · rename_i st0 h0
    split at h
    · cases h
    · rename_i code st h1
      simp only [Except.ok.injEq] at h; subst h
      have g0 : GoodSt st0 := by
        unfold visitVars at h0
        split at h0
        · cases h0
        · exact visitVarList_good good_init h0
      have g := (visitStmts_ext h1).good g0
      exact ⟨g.wf, g.wfn⟩

/-! ### the names of the `Variable` resources are pairwise distinct -/

def varNameOf : Resource → Option String
  | .var _ n => some n
  | _ => none

/-- names of the plain `Variable` resources, in table order -/
def varNames (rs : List Resource) : List String := rs.filterMap varNameOf

theorem varNames_append_lit {rs suf : List Resource} (h : ∀ r ∈ suf, r.isLit = true) : varNames (rs ++ suf) = varNames rs := by
  unfold varNames
  rw [List.filterMap_append]
  have : suf.filterMap varNameOf = [] := by
    rw [List.filterMap_eq_nil_iff]
    intro r hr
    have := h r hr
    cases r <;> simp_all [Resource.isLit, varNameOf]
  rw [this, List.append_nil]

theorem Ext.varNames {st st' : CState} (h : Ext st st') : varNames st'.resources = varNames st.resources := by
  obtain ⟨⟨suf, e, hl⟩, _⟩ := h
  rw [e]; exact varNames_append_lit hl

/-- the plain variables of the table are declared (in `varIdx`) and pairwise distinct -/
structure VarsDistinct (st : CState) : Prop where
  nodup : (varNames st.resources).Nodup
  declared : ∀ n ∈ varNames st.resources, st.varIdx.any (·.1 = n) = true

theorem Ext.varsDistinct {st st' : CState} (h : Ext st st') (g : VarsDistinct st) : VarsDistinct st' :=
  ⟨by rw [h.varNames]; exact g.nodup, by rw [h.varNames, h.vars]; exact g.declared⟩

theorem visitVar_distinct {st st' : CState} {d : VarDecl} (g : VarsDistinct st) (h : visitVar st d = .ok st') : VarsDistinct st' := by
  unfold visitVar at h
  split at h
  · cases h
  · rename_i hnew
    simp only at h
    split at h
    · cases h
    · rename_i addr st1 hr
      simp only [Except.ok.injEq] at h; subst h
      -- `st1` = the state after the allocation; its varIdx is that of `st`
      have key : ∃ st0, Ext st st0 ∧ ∃ r, (∀ v, r ≠ .const v) ∧ allocRes st0 r = .ok (addr, st1) ∧
          (∀ n, varNameOf r = some n → n = d.name) := by
        cases ho : d.origin with
        | none =>
          simp only [ho] at hr
          refine ⟨st, Ext.refl _, .var d.ty d.name, ?_, hr, ?_⟩
          · intro v hv; cases hv
          · intro n hn; simpa [varNameOf] using hn.symm
        | metaOf acc key =>
          simp only [ho] at hr
          split at hr
          · cases hr
          · rename_i a c0 st0 ha
            refine ⟨st0, (visitTyped_ok ha).1, .varMeta d.ty d.name a key, ?_, hr, ?_⟩
            · intro v hv; cases hv
            · intro n hn; simp [varNameOf] at hn
        | balance acc ae =>
          simp only [ho] at hr
          split at hr
          · cases hr
          · split at hr
            · cases hr
            · rename_i a c0 st0 ha
              split at hr
              · cases hr
              · rename_i s c1 st1' hs
                refine ⟨st1', (visitTyped_ok ha).1.trans (visitTyped_ok hs).1, .varBalance d.name a s, ?_, hr, ?_⟩
                · intro v hv; cases hv
                · intro n hn; simp [varNameOf] at hn
      obtain ⟨st0, he, r, hnc, hal, hname⟩ := key
      have g0 := he.varsDistinct g
      have happ : appendResource st0 r = .ok (addr, st1) := by
        unfold allocRes at hal
        cases r with
        | const v => exact absurd rfl (hnc v)
        | var _ _ => exact hal
        | varMeta _ _ _ _ => exact hal
        | varBalance _ _ _ => exact hal
        | monetary _ _ => exact hal
      obtain ⟨_, rfl⟩ := appendResource_ok happ
      have hv0 : st0.varIdx = st.varIdx := he.vars
      have hnot : ¬ (st.varIdx.any (·.1 = d.name) = true) := hnew
      constructor
      · show (varNames (st0.resources ++ [r])).Nodup
        unfold varNames
        rw [List.filterMap_append]
        cases hn : varNameOf r with
        | none => simpa [hn, varNames] using g0.nodup
        | some n =>
          have : n = d.name := hname n hn
          subst this
          simp only [List.filterMap_cons, hn, List.filterMap_nil]
          rw [List.nodup_append]
          refine ⟨g0.nodup, by simp, ?_⟩
          intro x hx y hy
          simp only [List.mem_singleton] at hy; subst hy
          intro hxy; subst hxy
          have := g0.declared _ hx
          rw [hv0] at this
          exact hnot this
      · show ∀ n ∈ varNames (st0.resources ++ [r]), (st0.varIdx ++ [(d.name, addr)]).any (·.1 = n) = true
        intro n hn
        unfold varNames at hn
        rw [List.filterMap_append, List.mem_append] at hn
        rw [List.any_append]
        rcases hn with hn | hn
        · simp only [Bool.or_eq_true]; exact Or.inl (g0.declared n hn)
        · cases hv : varNameOf r with
          | none => simp [hv] at hn
          | some n' =>
            simp only [List.filterMap_cons, hv, List.filterMap_nil, List.mem_singleton] at hn
            subst hn
            have := hname n hv
            simp [this]

theorem visitVarList_distinct {st st' : CState} {ds : List VarDecl} (g : VarsDistinct st) (h : visitVarList st ds = .ok st') :
    VarsDistinct st' := by
  induction ds generalizing st with
  | nil => simp only [visitVarList, Except.ok.injEq] at h; subst h; exact g
  | cons d rest ih =>
    simp only [visitVarList] at h
    split at h
    · cases h
    · rename_i st1 h1
      exact ih (visitVar_distinct g h1) h

/-- the plain `Variable` resources of a compiled program have pairwise distinct names -/
theorem compile_varNames_nodup {P : Script} {prog : Program} (h : compile P = .ok prog) : (varNames prog.resources).Nodup := by
  unfold compile at h
  split at h
  · cases h
  · rename_i st0 h0
    split at h
    · cases h
    · rename_i code st h1
      simp only [Except.ok.injEq] at h; subst h
      have g0 : VarsDistinct st0 := by
        unfold visitVars at h0
        split at h0
        · cases h0
        · exact visitVarList_distinct ⟨by simp [varNames], by intro n hn; simp [varNames] at hn⟩ h0
      exact ((visitStmts_ext h1).varsDistinct g0).nodup

/-- the name a declaration resource carries -/
def declName : Resource → Option String
  | .var _ n => some n
  | .varMeta _ n _ _ => some n
  | .varBalance n _ _ => some n
  | _ => none

/-- names of ALL declaration resources (plain, `meta(…)`, `balance(…)`), in table order -/
def declNames (rs : List Resource) : List String := rs.filterMap declName

theorem declNames_append_lit {rs suf : List Resource} (h : ∀ r ∈ suf, r.isLit = true) : declNames (rs ++ suf) = declNames rs := by
  unfold declNames
  rw [List.filterMap_append]
  have : suf.filterMap declName = [] := by
    rw [List.filterMap_eq_nil_iff]
    intro r hr
    have := h r hr
    cases r <;> simp_all [Resource.isLit, declName]
  rw [this, List.append_nil]

theorem Ext.declNames {st st' : CState} (h : Ext st st') : declNames st'.resources = declNames st.resources := by
  obtain ⟨⟨suf, e, hl⟩, _⟩ := h
  rw [e]; exact declNames_append_lit hl

/-- the declarations of the table are in `varIdx` and pairwise distinct -/
structure DeclsDistinct (st : CState) : Prop where
  nodup : (declNames st.resources).Nodup
  declared : ∀ n ∈ declNames st.resources, st.varIdx.any (·.1 = n) = true

theorem Ext.declsDistinct {st st' : CState} (h : Ext st st') (g : DeclsDistinct st) : DeclsDistinct st' :=
  ⟨by rw [h.declNames]; exact g.nodup, by rw [h.declNames, h.vars]; exact g.declared⟩

theorem visitVar_declDistinct {st st' : CState} {d : VarDecl} (g : DeclsDistinct st) (h : visitVar st d = .ok st') : DeclsDistinct st' := by
  unfold visitVar at h
  split at h
  · cases h
  · rename_i hnew
    simp only at h
    split at h
    · cases h
    · rename_i addr st1 hr
      simp only [Except.ok.injEq] at h; subst h
      -- `st1` = the state after the allocation; its varIdx is that of `st`
      have key : ∃ st0, Ext st st0 ∧ ∃ r, (∀ v, r ≠ .const v) ∧ allocRes st0 r = .ok (addr, st1) ∧
          (∀ n, declName r = some n → n = d.name) := by
        cases ho : d.origin with
        | none =>
          simp only [ho] at hr
          refine ⟨st, Ext.refl _, .var d.ty d.name, ?_, hr, ?_⟩
          · intro v hv; cases hv
          · intro n hn; simpa [declName] using hn.symm
        | metaOf acc key =>
          simp only [ho] at hr
          split at hr
          · cases hr
          · rename_i a c0 st0 ha
            refine ⟨st0, (visitTyped_ok ha).1, .varMeta d.ty d.name a key, ?_, hr, ?_⟩
            · intro v hv; cases hv
            · intro n hn; simpa [declName] using hn.symm
        | balance acc ae =>
          simp only [ho] at hr
          split at hr
          · cases hr
          · split at hr
            · cases hr
            · rename_i a c0 st0 ha
              split at hr
              · cases hr
              · rename_i s c1 st1' hs
                refine ⟨st1', (visitTyped_ok ha).1.trans (visitTyped_ok hs).1, .varBalance d.name a s, ?_, hr, ?_⟩
                · intro v hv; cases hv
                · intro n hn; simpa [declName] using hn.symm
      obtain ⟨st0, he, r, hnc, hal, hname⟩ := key
      have g0 := he.declsDistinct g
      have happ : appendResource st0 r = .ok (addr, st1) := by
        unfold allocRes at hal
        cases r with
        | const v => exact absurd rfl (hnc v)
        | var _ _ => exact hal
        | varMeta _ _ _ _ => exact hal
        | varBalance _ _ _ => exact hal
        | monetary _ _ => exact hal
      obtain ⟨_, rfl⟩ := appendResource_ok happ
      have hv0 : st0.varIdx = st.varIdx := he.vars
      have hnot : ¬ (st.varIdx.any (·.1 = d.name) = true) := hnew
      constructor
      · show (declNames (st0.resources ++ [r])).Nodup
        unfold declNames
        rw [List.filterMap_append]
        cases hn : declName r with
        | none => simpa [hn, declNames] using g0.nodup
        | some n =>
          have : n = d.name := hname n hn
          subst this
          simp only [List.filterMap_cons, hn, List.filterMap_nil]
          rw [List.nodup_append]
          refine ⟨g0.nodup, by simp, ?_⟩
          intro x hx y hy
          simp only [List.mem_singleton] at hy; subst hy
          intro hxy; subst hxy
          have := g0.declared _ hx
          rw [hv0] at this
          exact hnot this
      · show ∀ n ∈ declNames (st0.resources ++ [r]), (st0.varIdx ++ [(d.name, addr)]).any (·.1 = n) = true
        intro n hn
        unfold declNames at hn
        rw [List.filterMap_append, List.mem_append] at hn
        rw [List.any_append]
        rcases hn with hn | hn
        · simp only [Bool.or_eq_true]; exact Or.inl (g0.declared n hn)
        · cases hv : declName r with
          | none => simp [hv] at hn
          | some n' =>
            simp only [List.filterMap_cons, hv, List.filterMap_nil, List.mem_singleton] at hn
            subst hn
            have := hname n hv
            simp [this]

theorem visitVarList_declDistinct {st st' : CState} {ds : List VarDecl} (g : DeclsDistinct st) (h : visitVarList st ds = .ok st') :
    DeclsDistinct st' := by
  induction ds generalizing st with
  | nil => simp only [visitVarList, Except.ok.injEq] at h; subst h; exact g
  | cons d rest ih =>
    simp only [visitVarList] at h
    split at h
    · cases h
    · rename_i st1 h1
      exact ih (visitVar_declDistinct g h1) h

/-- the declaration resources of a compiled program have pairwise distinct names -/
theorem compile_declNames_nodup {P : Script} {prog : Program} (h : compile P = .ok prog) : (declNames prog.resources).Nodup := by
  unfold compile at h
  split at h
  · cases h
  · rename_i st0 h0
    split at h
    · cases h
    · rename_i code st h1
      simp only [Except.ok.injEq] at h; subst h
      have g0 : DeclsDistinct st0 := by
        unfold visitVars at h0
        split at h0
        · cases h0
        · exact visitVarList_declDistinct ⟨by simp [declNames], by intro n hn; simp [declNames] at hn⟩ h0
      exact ((visitStmts_ext h1).declsDistinct g0).nodup

/-! ### `varIdx` points at the declared variables -/

def lookupIdx (vi : List (String × Addr)) (n : String) : Option Addr := (vi.find? (·.1 = n)).map (·.2)

/-- every entry of `varIdx` is the address of the declaration resource of that name -/
def VarIdxOK (st : CState) : Prop :=
  ∀ n a, lookupIdx st.varIdx n = some a → ∃ r, st.resources[a]? = some r ∧ declName r = some n

theorem Ext.varIdxOK {st st' : CState} (h : Ext st st') (g : VarIdxOK st) : VarIdxOK st' := by
  intro n a hl
  rw [h.vars] at hl
  obtain ⟨r, h1, h2⟩ := g n a hl
  exact ⟨r, h.get h1, h2⟩

theorem lookupIdx_append (vi : List (String × Addr)) (k n : String) (a : Addr) :
    lookupIdx (vi ++ [(k, a)]) n = match lookupIdx vi n with | some x => some x | none => if k = n then some a else none := by
  unfold lookupIdx
  rw [List.find?_append]
  cases hf : vi.find? (·.1 = n) with
  | some x => simp
  | none =>
    by_cases hk : k = n
    · simp [hk]
    · simp [hk]

theorem visitVar_idxOK {st st' : CState} {d : VarDecl} (g : VarIdxOK st) (h : visitVar st d = .ok st') : VarIdxOK st' := by
  unfold visitVar at h
  split at h
  · cases h
  · simp only at h
    split at h
    · cases h
    · rename_i addr st1 hr
      simp only [Except.ok.injEq] at h; subst h
      have key : ∃ st0, Ext st st0 ∧ ∃ r, (∀ v, r ≠ .const v) ∧ allocRes st0 r = .ok (addr, st1) ∧ declName r = some d.name := by
        cases ho : d.origin with
        | none =>
          simp only [ho] at hr
          exact ⟨st, Ext.refl _, .var d.ty d.name, (by intro v hv; cases hv), hr, rfl⟩
        | metaOf acc key =>
          simp only [ho] at hr
          split at hr
          · cases hr
          · rename_i a c0 st0 ha
            exact ⟨st0, (visitTyped_ok ha).1, .varMeta d.ty d.name a key, (by intro v hv; cases hv), hr, rfl⟩
        | balance acc ae =>
          simp only [ho] at hr
          split at hr
          · cases hr
          · split at hr
            · cases hr
            · rename_i a c0 st0 ha
              split at hr
              · cases hr
              · rename_i s c1 st1' hs
                exact ⟨st1', (visitTyped_ok ha).1.trans (visitTyped_ok hs).1, .varBalance d.name a s, (by intro v hv; cases hv), hr, rfl⟩
      obtain ⟨st0, he, r, hnc, hal, hname⟩ := key
      have g0 := he.varIdxOK g
      have happ : appendResource st0 r = .ok (addr, st1) := by
        unfold allocRes at hal
        cases r with
        | const v => exact absurd rfl (hnc v)
        | var _ _ => exact hal
        | varMeta _ _ _ _ => exact hal
        | varBalance _ _ _ => exact hal
        | monetary _ _ => exact hal
      obtain ⟨rfl, rfl⟩ := appendResource_ok happ
      intro n a hl
      show ∃ r', (st0.resources ++ [r])[a]? = some r' ∧ declName r' = some n
      change lookupIdx (st0.varIdx ++ [(d.name, st0.resources.length)]) n = some a at hl
      rw [lookupIdx_append] at hl
      cases hf : lookupIdx st0.varIdx n with
      | some x =>
        simp only [hf, Option.some.injEq] at hl; subst hl
        obtain ⟨r', h1, h2⟩ := g0 n x hf
        exact ⟨r', by rw [List.getElem?_append_left (getElem?_lt h1)]; exact h1, h2⟩
      | none =>
        simp only [hf] at hl
        split at hl
        · rename_i hk
          simp only [Option.some.injEq] at hl; subst hl; subst hk
          exact ⟨r, by simp, hname⟩
        · cases hl

theorem visitVarList_idxOK {st st' : CState} {ds : List VarDecl} (g : VarIdxOK st) (h : visitVarList st ds = .ok st') : VarIdxOK st' := by
  induction ds generalizing st with
  | nil => simp only [visitVarList, Except.ok.injEq] at h; subst h; exact g
  | cons d rest ih =>
    simp only [visitVarList] at h
    split at h
    · cases h
    · rename_i st1 h1
      exact ih (visitVar_idxOK g h1) h

theorem visitVars_idxOK {st' : CState} {ds : List VarDecl} (h : visitVars {} ds = .ok st') : VarIdxOK st' := by
  unfold visitVars at h
  split at h
  · cases h
  · exact visitVarList_idxOK (by intro n a hl; simp [lookupIdx] at hl) h

end Num
