import Model.TxToScript
import Std.Data.String.ToNat
/-! String facts behind C09: the names `va<i>` / `vm<j>` are pairwise distinct, the key text `[amount asset]`
determines amount and asset, and the value text `ASSET AMOUNT` of a valid posting is read back by
`parseValue .monetary` as exactly that monetary. -/
set_option linter.unusedSimpArgs false
namespace Num
namespace Tx

/-! ### `splitChars` -/

theorem splitChars_ne_nil (c : Char) (l : List Char) : splitChars c l ≠ [] := by
  induction l with
  | nil => simp [splitChars]
  | cons x xs ih =>
    unfold splitChars
    by_cases h : x = c
    · simp [h]
    · simp only [h, if_false]
      cases hs : splitChars c xs <;> simp

theorem splitChars_of_not_mem {c : Char} {l : List Char} (h : c ∉ l) : splitChars c l = [l] := by
  induction l with
  | nil => simp [splitChars]
  | cons x xs ih =>
    have hx : x ≠ c := fun e => h (by simp [e])
    have hxs : c ∉ xs := fun e => h (by simp [e])
    unfold splitChars
    simp [hx, ih hxs]

theorem splitChars_append {c : Char} {l : List Char} (r : List Char) (h : c ∉ l) :
    splitChars c (l ++ c :: r) = l :: splitChars c r := by
  induction l with
  | nil => simp [splitChars]
  | cons x xs ih =>
    have hx : x ≠ c := fun e => h (by simp [e])
    have hxs : c ∉ xs := fun e => h (by simp [e])
    show splitChars c (x :: (xs ++ c :: r)) = _
    simp only [splitChars, hx, if_false, ih hxs]

/-- every character other than the separator survives in some piece -/
theorem mem_splitChars {c x : Char} {l : List Char} (hx : x ∈ l) (hne : x ≠ c) :
    ∃ seg ∈ splitChars c l, x ∈ seg := by
  induction l with
  | nil => simp at hx
  | cons y ys ih =>
    unfold splitChars
    by_cases hy : y = c
    · simp only [hy, if_true]
      have : x ∈ ys := by
        rcases List.mem_cons.1 hx with e | e
        · exact absurd (e.trans hy) hne
        · exact e
      obtain ⟨seg, hs, hm⟩ := ih this
      exact ⟨seg, by simp [hs], hm⟩
    · simp only [hy, if_false]
      cases hsp : splitChars c ys with
      | nil => exact absurd hsp (splitChars_ne_nil c ys)
      | cons h t =>
        rcases List.mem_cons.1 hx with e | e
        · exact ⟨y :: h, by simp, by simp [e]⟩
        · obtain ⟨seg, hs, hm⟩ := ih e
          rw [hsp] at hs
          rcases List.mem_cons.1 hs with e2 | e2
          · exact ⟨y :: h, by simp, by simp [← e2, hm]⟩
          · exact ⟨seg, by simp [e2], hm⟩

/-! ### decimal texts -/

theorem isDigit_of_mem_repr {n : Nat} {c : Char} (h : c ∈ (Nat.repr n).toList) : c.isDigit = true := by
  rw [Nat.toList_repr] at h
  exact Nat.isDigit_of_mem_toDigits (by decide) (by decide) h

theorem toString_ofNat (n : Nat) : toString (Int.ofNat n) = Nat.repr n := rfl
theorem toString_negSucc (n : Nat) : toString (Int.negSucc n) = "-" ++ Nat.repr (n + 1) := rfl

theorem space_not_mem_int (i : Int) : ' ' ∉ (toString i).toList := by
  cases i with
  | ofNat n =>
    rw [toString_ofNat]
    intro h
    have := isDigit_of_mem_repr h
    simp at this
  | negSucc n =>
    rw [toString_negSucc, String.toList_append]
    intro h
    rcases List.mem_append.1 h with h | h
    · simp at h
    · have := isDigit_of_mem_repr h
      simp at this

theorem toString_int_inj {a b : Int} (h : toString a = toString b) : a = b := by
  cases a with
  | ofNat n =>
    cases b with
    | ofNat m =>
      rw [toString_ofNat, toString_ofNat] at h
      rw [Nat.repr_inj.1 h]
    | negSucc m =>
      rw [toString_ofNat, toString_negSucc] at h
      have h2 := congrArg String.toList h
      rw [String.toList_append] at h2
      have : '-' ∈ (Nat.repr n).toList := by rw [h2]; simp
      have := isDigit_of_mem_repr this
      simp at this
  | negSucc n =>
    cases b with
    | ofNat m =>
      rw [toString_ofNat, toString_negSucc] at h
      have h2 := congrArg String.toList h
      rw [String.toList_append] at h2
      have : '-' ∈ (Nat.repr m).toList := by rw [← h2]; simp
      have := isDigit_of_mem_repr this
      simp at this
    | negSucc m =>
      rw [toString_negSucc, toString_negSucc] at h
      have h2 := congrArg String.toList h
      rw [String.toList_append, String.toList_append] at h2
      have h3 := List.append_cancel_left h2
      have h4 := Nat.repr_inj.1 (String.toList_inj.1 h3)
      have : n = m := by omega
      rw [this]

/-! ### variable names -/

theorem vaName_inj {i j : Nat} (h : vaName i = vaName j) : i = j := by
  unfold vaName at h
  have h2 := congrArg String.toList h
  rw [String.toList_append, String.toList_append] at h2
  exact Nat.repr_inj.1 (String.toList_inj.1 (List.append_cancel_left h2))

theorem vmName_inj {i j : Nat} (h : vmName i = vmName j) : i = j := by
  unfold vmName at h
  have h2 := congrArg String.toList h
  rw [String.toList_append, String.toList_append] at h2
  exact Nat.repr_inj.1 (String.toList_inj.1 (List.append_cancel_left h2))

theorem vaName_ne_vmName (i j : Nat) : vaName i ≠ vmName j := by
  intro h
  unfold vaName vmName at h
  have h2 := congrArg String.toList h
  rw [String.toList_append, String.toList_append] at h2
  simp at h2

/-! ### the key text determines the monetary -/

theorem split_unique {c : Char} {l1 l2 r1 r2 : List Char} (h1 : c ∉ l1) (h2 : c ∉ l2)
    (h : l1 ++ c :: r1 = l2 ++ c :: r2) : l1 = l2 ∧ r1 = r2 := by
  induction l1 generalizing l2 with
  | nil =>
    cases l2 with
    | nil => simpa using h
    | cons y ys =>
      simp at h
      exact absurd h.1 (fun e => h2 (by simp [e]))
  | cons x xs ih =>
    cases l2 with
    | nil =>
      simp at h
      exact absurd h.1.symm (fun e => h1 (by simp [e]))
    | cons y ys =>
      simp only [List.cons_append, List.cons.injEq] at h
      have hxs : c ∉ xs := fun e => h1 (by simp [e])
      have hys : c ∉ ys := fun e => h2 (by simp [e])
      obtain ⟨e1, e2⟩ := ih hxs hys h.2
      exact ⟨by rw [h.1, e1], e2⟩

theorem monKey_inj {p q : Posting} (h : monKey p = monKey q) : p.amt = q.amt ∧ p.asset = q.asset := by
  unfold monKey at h
  have h2 := congrArg String.toList h
  simp only [String.toList_append] at h2
  have h3 : (toString p.amt).toList ++ ' ' :: (p.asset.toList ++ "]".toList) =
            (toString q.amt).toList ++ ' ' :: (q.asset.toList ++ "]".toList) := by
    have : " ".toList = [' '] := rfl
    rw [this] at h2
    simpa [List.append_assoc] using h2
  obtain ⟨e1, e2⟩ := split_unique (space_not_mem_int _) (space_not_mem_int _) h3
  exact ⟨toString_int_inj (String.toList_inj.1 e1), String.toList_inj.1 (List.append_cancel_right e2)⟩

/-! ### a valid asset contains no space -/

theorem nameOk_no_space {n : String}
    (h : (match n.toList with
      | [] => false
      | c :: cs => c.isUpper && decide (cs.length ≤ 16) && cs.all (fun d => d.isUpper || d.isDigit)) = true) :
    ' ' ∉ n.toList := by
  intro hm
  cases hl : n.toList with
  | nil => rw [hl] at hm; simp at hm
  | cons c cs =>
    rw [hl] at h hm
    simp only [Bool.and_eq_true, List.all_eq_true] at h
    rcases List.mem_cons.1 hm with e | e
    · have := h.1.1; rw [← e] at this; simp at this
    · have := h.2 _ e; simp at this

theorem isDigitStr_no_space {d : String} (h : isDigitStr d = true) : ' ' ∉ d.toList := by
  intro hm
  unfold isDigitStr at h
  simp only [Bool.and_eq_true, String.all_bool_eq, List.all_eq_true] at h
  have := h.2 _ hm
  simp at this

theorem validAsset_no_space {a : String} (h : validAsset a = true) : ' ' ∉ a.toList := by
  intro hm
  obtain ⟨seg, hs, hseg⟩ := mem_splitChars (c := '/') hm (by decide)
  unfold validAsset splitOnC at h
  cases hsp : splitChars '/' a.toList with
  | nil => exact absurd hsp (splitChars_ne_nil _ _)
  | cons x rest =>
    rw [hsp] at h hs
    cases rest with
    | nil =>
      simp only [List.map] at h
      have := nameOk_no_space h
      rw [String.toList_ofList] at this
      simp at hs
      exact this (hs ▸ hseg)
    | cons y rest2 =>
      cases rest2 with
      | nil =>
        simp only [List.map, Bool.and_eq_true] at h
        have h1 := nameOk_no_space h.1.1
        have h2 := isDigitStr_no_space h.1.2
        rw [String.toList_ofList] at h1 h2
        simp at hs
        rcases hs with e | e
        · exact h1 (e ▸ hseg)
        · exact h2 (e ▸ hseg)
      | cons z r3 => simp [List.map] at h


/-! ### the value text of a valid posting is read back exactly -/

theorem parseInt10_repr (n : Nat) : parseInt10 (Nat.repr n) = some (n : Int) := by
  have hd : ∀ c ∈ (Nat.repr n).toList, c.isDigit = true := fun c h => isDigit_of_mem_repr h
  have hdig : isDigitStr (Nat.repr n) = true := by
    unfold isDigitStr
    simp only [Bool.and_eq_true, String.all_bool_eq, List.all_eq_true, Bool.not_eq_true']
    refine ⟨?_, hd⟩
    cases he : (Nat.repr n).isEmpty with
    | false => rfl
    | true => exact absurd (String.isEmpty_iff.1 he) Nat.repr_ne_empty
  unfold parseInt10
  cases hl : (Nat.repr n).toList with
  | nil => simp [hdig, Nat.toNat?_repr]
  | cons c cs =>
    have hc : c.isDigit = true := hd c (by rw [hl]; simp)
    have h1 : c ≠ '-' := fun e => by rw [e] at hc; simp at hc
    have h2 : c ≠ '+' := fun e => by rw [e] at hc; simp at hc
    split
    · rename_i ds heq; simp at heq; exact absurd heq.1 h1
    · rename_i ds heq; simp at heq; exact absurd heq.1 h2
    · simp [hdig, Nat.toNat?_repr]

theorem parse_monVal {p : Posting} (ha : validAsset p.asset = true) (hn : 0 ≤ p.amt) :
    parseValue .monetary (monVal p) = some (.mon p.asset p.amt) := by
  obtain ⟨n, hn⟩ := Int.eq_ofNat_of_zero_le hn
  have hsp : splitOnC (monVal p) ' ' = [p.asset, Nat.repr n] := by
    unfold splitOnC monVal
    rw [hn]
    have : (p.asset ++ " " ++ toString (n : Int)).toList = p.asset.toList ++ ' ' :: (Nat.repr n).toList := by
      simp only [String.toList_append, List.append_assoc]
      rfl
    rw [this, splitChars_append _ (validAsset_no_space ha),
      splitChars_of_not_mem (fun h => by have := isDigit_of_mem_repr h; simp at this)]
    simp only [List.map, String.ofList_toList]
  unfold parseValue
  simp only [hsp, String.intercalate_singleton, parseInt10_repr, ha, Bool.true_and]
  simp [hn]

/-- `isDigitStr` on the character list (lets `simp` evaluate the validators on literals) -/
theorem isDigitStr_eq (s : String) : isDigitStr s = (!s.toList.isEmpty && s.toList.all Char.isDigit) := by
  unfold isDigitStr
  rw [String.all_bool_eq]
  congr 2
  apply Bool.eq_iff_iff.2
  rw [String.isEmpty_iff, List.isEmpty_iff, String.toList_eq_nil_iff]

/-! ### values the machine refuses -/

theorem validAccount_world : validAccount "world" = true := by
  simp [validAccount, splitOnC, splitChars, String.all_bool_eq, isWordChar]

theorem isDigitStr_repr (n : Nat) : isDigitStr (Nat.repr n) = true := by
  rw [isDigitStr_eq]
  simp only [Bool.and_eq_true, Bool.not_eq_true', List.all_eq_true]
  refine ⟨?_, fun c h => isDigit_of_mem_repr h⟩
  cases h : (Nat.repr n).toList with
  | nil => exact absurd (String.toList_eq_nil_iff.1 h) Nat.repr_ne_empty
  | cons _ _ => rfl

theorem parseInt10_toString (i : Int) : parseInt10 (toString i) = some i := by
  cases i with
  | ofNat n => rw [toString_ofNat]; exact parseInt10_repr n
  | negSucc n =>
    rw [toString_negSucc]
    unfold parseInt10
    have : ("-" ++ Nat.repr (n + 1)).toList = '-' :: (Nat.repr (n + 1)).toList := by
      rw [String.toList_append]; rfl
    rw [this]
    simp only [String.ofList_toList, isDigitStr_repr, if_true, Nat.toNat?_repr, Option.map_some]
    rfl

theorem parseInt10_none_of_space {s : String} (h : ' ' ∈ s.toList) : parseInt10 s = none := by
  have hnd : ∀ l : List Char, ' ' ∈ l → isDigitStr (String.ofList l) = false := by
    intro l hl
    rw [isDigitStr_eq, String.toList_ofList]
    have : l.all Char.isDigit = false := by
      rw [List.all_eq_false]
      exact ⟨' ', hl, by decide⟩
    simp [this]
  unfold parseInt10
  split
  · rename_i ds heq
    have : ' ' ∈ ds := by
      rw [heq] at h
      rcases List.mem_cons.1 h with e | e
      · exact absurd e (by decide)
      · exact e
    simp [hnd ds this]
  · rename_i ds heq
    have : ' ' ∈ ds := by
      rw [heq] at h
      rcases List.mem_cons.1 h with e | e
      · exact absurd e (by decide)
      · exact e
    simp [hnd ds this]
  · have := hnd s.toList h
    rw [String.ofList_toList] at this
    simp [this]

theorem exists_first_split {c : Char} {l : List Char} (h : c ∈ l) : ∃ l1 l2, l = l1 ++ c :: l2 ∧ c ∉ l1 := by
  induction l with
  | nil => simp at h
  | cons x xs ih =>
    by_cases hx : x = c
    · exact ⟨[], xs, by simp [hx], by simp⟩
    · have : c ∈ xs := by
        rcases List.mem_cons.1 h with e | e
        · exact absurd e.symm hx
        · exact e
      obtain ⟨l1, l2, e, hn⟩ := ih this
      refine ⟨x :: l1, l2, by simp [e], ?_⟩
      intro hm
      rcases List.mem_cons.1 hm with e' | e'
      · exact hx e'.symm
      · exact hn e'

/-- joining the pieces with the separator gives the text back -/
theorem join_split (L : List Char) : " ".intercalate ((splitChars ' ' L).map String.ofList) = String.ofList L := by
  induction L with
  | nil => simp [splitChars, String.intercalate_singleton]
  | cons x xs ih =>
    apply String.toList_inj.1
    by_cases hx : x = ' '
    · have hne : (splitChars ' ' xs).map String.ofList ≠ [] := by
        simp [splitChars_ne_nil]
      simp only [splitChars, hx, if_true, List.map]
      rw [String.intercalate_cons_of_ne_nil hne, ih]
      simp [String.toList_append, String.toList_ofList]
    · simp only [splitChars, hx, if_false]
      cases hs : splitChars ' ' xs with
      | nil => exact absurd hs (splitChars_ne_nil _ _)
      | cons h tl =>
        rw [hs] at ih
        simp only [List.map] at ih ⊢
        cases tl with
        | nil =>
          simp only [List.map, String.intercalate_singleton] at ih ⊢
          have := congrArg String.toList ih
          simp only [String.toList_ofList] at this ⊢
          rw [this]
        | cons y ys =>
          have hne : (y :: ys).map String.ofList ≠ [] := by simp
          rw [String.intercalate_cons_of_ne_nil hne] at ih ⊢
          have := congrArg String.toList ih
          simp only [String.toList_append, String.toList_ofList] at this ⊢
          rw [← this]
          simp

/-- a value text whose asset is not valid or whose amount is negative is refused by the monetary parser -/
theorem parse_monVal_none {p : Posting} (h : ¬ (validAsset p.asset = true ∧ 0 ≤ p.amt)) :
    parseValue .monetary (monVal p) = none := by
  have hl : (monVal p).toList = p.asset.toList ++ ' ' :: (toString p.amt).toList := by
    unfold monVal
    simp only [String.toList_append, List.append_assoc]
    rfl
  by_cases hs : ' ' ∈ p.asset.toList
  · obtain ⟨l1, l2, e, hn⟩ := exists_first_split hs
    have hsp : splitOnC (monVal p) ' ' =
        String.ofList l1 :: (splitChars ' ' (l2 ++ ' ' :: (toString p.amt).toList)).map String.ofList := by
      unfold splitOnC
      rw [hl, e, List.append_assoc, List.cons_append, splitChars_append _ hn]
      rfl
    have hjoin := join_split (l2 ++ ' ' :: (toString p.amt).toList)
    have hnone : parseInt10 (String.ofList (l2 ++ ' ' :: (toString p.amt).toList)) = none :=
      parseInt10_none_of_space (by rw [String.toList_ofList]; simp)
    unfold parseValue
    simp only [hsp]
    cases hrest : (splitChars ' ' (l2 ++ ' ' :: (toString p.amt).toList)).map String.ofList with
    | nil => rfl
    | cons y ys =>
      rw [hrest] at hjoin
      simp only [hjoin, hnone]
  · have hsp : splitOnC (monVal p) ' ' = [p.asset, toString p.amt] := by
      unfold splitOnC
      rw [hl, splitChars_append _ hs, splitChars_of_not_mem (space_not_mem_int _)]
      simp only [List.map, String.ofList_toList]
    unfold parseValue
    simp only [hsp, String.intercalate_singleton, parseInt10_toString]
    have : (validAsset p.asset && decide (p.amt ≥ 0)) = false := by
      cases hv : validAsset p.asset with
      | false => rfl
      | true =>
        have : ¬ 0 ≤ p.amt := fun h2 => h ⟨hv, h2⟩
        simp [this]
    simp [this]

end Tx
end Num
