import Lemmas.EngineFloorBal
import Lemmas.EngineFloorLock
/-! The inductive invariant of the `Floor` component (DESIGN appendix B: J6, J7 and the recorded floor fact) and its
preservation by every accepted event. -/
namespace Engine.Floor
open Engine

/-- the lock sets of `h` cover posting `p`: the source is write-locked, the destination is locked, `world` apart -/
def Covers (h : Hold) (p : Posting) : Prop :=
  (p.src = "world" ∨ p.src ∈ h.w) ∧ (p.dst = "world" ∨ p.dst ∈ h.r ∨ p.dst ∈ h.w)

theorem covers_of_check {h : Hold} {p : Posting}
    (hc : ((p.src = "world" || h.w.contains p.src) &&
      (p.dst = "world" || h.r.contains p.dst || h.w.contains p.dst)) = true) : Covers h p := by
  simpa [Covers, or_assoc] using hc

/-- the log as the protocol sees it: persisted entries, then the ones handed to the batcher -/
def logOf (s : S) : List Entry := s.durable ++ s.pending

/-- the invariant; `F` = the entries present before the run (the funding), `grant a` = the overdraft request `a` grants
its sources -/
structure Inv (grant : Nat → Option Int) (F : List Entry) (s : S) : Prop where
  /-- J6: holds of different requests do not conflict -/
  excl : Excl s.holders
  /-- J7 (a, b): the producer of every non-persisted entry still holds locks that cover every posting of it -/
  held : ∀ e ∈ s.pending, ∀ p ∈ e.log.postings, ∃ h ∈ s.holders, h.a = e.by_ ∧ Covers h p
  /-- J7 (c): a recorded balance of an account in the reader's write set is the balance the whole log gives -/
  cur : ∀ r ∈ s.reads, ∀ h, holdOf s r.1 = some h → r.2.1 ∈ h.w →
    r.2.2.2 = balanceOf (s.durable ++ s.pending) r.2.1 r.2.2.1
  /-- whoever has a recorded read holds locks -/
  rdHold : ∀ r ∈ s.reads, ∃ h, holdOf s r.1 = some h
  rdWorld : ∀ r ∈ s.reads, r.2.1 ≠ "world"
  /-- the funding is a prefix of the persisted log that never changes, and every entry added since respects the floor
  at its position -/
  floor : ∃ added, s.durable = F ++ added ∧ floorAt grant F (added ++ s.pending)

theorem init_inv (grant : Nat → Option Int) (funding : List LogE) :
    Inv grant (funding.map (fun l => ⟨l, 0⟩)) (init funding) where
  excl := Excl.nil
  held := by intro e he; cases he
  cur := by intro r hr; cases hr
  rdHold := by intro r hr; cases hr
  rdWorld := by intro r hr; cases hr
  floor := ⟨[], by simp [init], by simp [init, floorAt_nil]⟩

/-! ### consequences of exclusion -/

/-- a posting covered by the locks of another request cannot mention an account that `h` write-holds -/
theorem untouched_of_excl {hs : List Hold} (he : Excl hs) {h hb : Hold} (hm : h ∈ hs) (hbm : hb ∈ hs)
    (hne : h.a ≠ hb.a) {x : Acct} (hx : x ∈ h.w) (hw : x ≠ "world") {p : Posting} (hc : Covers hb p) :
    p.src ≠ x ∧ p.dst ≠ x := by
  have hnc := he h hm hb hbm hne
  constructor
  · intro heq
    cases hc.1 with
    | inl h1 => exact hw (heq ▸ h1)
    | inr h1 =>
      have := conflict_of_shared (h1 := h) (h2 := hb) hx (Or.inr (heq ▸ h1))
      rw [hnc] at this; cases this
  · intro heq
    cases hc.2 with
    | inl h1 => exact hw (heq ▸ h1)
    | inr h1 =>
      have hx2 : x ∈ hb.r ∨ x ∈ hb.w := heq ▸ h1
      have := conflict_of_shared (h1 := h) (h2 := hb) hx hx2
      rw [hnc] at this; cases this

/-- while `h` write-holds `x`, no queued entry of another request mentions `x` -/
theorem pending_untouched {grant : Nat → Option Int} {F : List Entry} {s : S} (hi : Inv grant F s)
    {h : Hold} (hm : h ∈ s.holders) {x : Acct} (hx : x ∈ h.w) (hw : x ≠ "world")
    (hown : ∀ e ∈ s.pending, e.by_ ≠ h.a) : ∀ e ∈ s.pending, Untouched x e.log.postings := by
  intro e he p hp
  obtain ⟨hb, hbm, hba, hc⟩ := hi.held e he p hp
  have hne : h.a ≠ hb.a := by rw [hba]; exact fun heq => hown e he heq.symm
  exact untouched_of_excl hi.excl hm hbm hne hx hw hc

theorem readOf_some {s : S} {a : Nat} {x : Acct} {asset : String} {v : Int}
    (h : readOf s a x asset = some v) : (a, x, asset, v) ∈ s.reads := by
  unfold readOf at h
  rw [Option.map_eq_some_iff] at h
  obtain ⟨r, hf, hv⟩ := h
  have hm := List.mem_of_find?_eq_some hf
  have hp := List.find?_some hf
  simp only [decide_eq_true_eq] at hp
  obtain ⟨h1, h2, h3⟩ := hp
  have : r = (a, x, asset, v) := by
    rw [← h1, ← h2, ← h3, ← hv]
  rw [← this]; exact hm

/-! ### preservation, one kind of change at a time -/

section
variable {grant : Nat → Option Int} {F : List Entry}

/-- holders are added at the end; nothing else changes -/
theorem Inv.extend_holders {s s' : S} (hi : Inv grant F s) (ext : List Hold)
    (hh : s'.holders = s.holders ++ ext) (hp : s'.pending = s.pending) (hd : s'.durable = s.durable)
    (hr : s'.reads = s.reads) (he : Excl s'.holders) : Inv grant F s' where
  excl := he
  held := by
    intro e hm p hpp
    rw [hp] at hm
    obtain ⟨h, hmem, ha, hc⟩ := hi.held e hm p hpp
    exact ⟨h, by rw [hh]; exact List.mem_append_left _ hmem, ha, hc⟩
  cur := by
    intro r hm h hf hx
    rw [hr] at hm
    obtain ⟨h0, hf0⟩ := hi.rdHold r hm
    have hf' : holdOf s' r.1 = some h0 := by
      unfold holdOf; rw [hh]; exact find_hold_append ext hf0
    have heq : h = h0 := by rw [hf] at hf'; exact Option.some.inj hf'
    rw [hd, hp]
    exact hi.cur r hm h0 hf0 (heq ▸ hx)
  rdHold := by
    intro r hm
    rw [hr] at hm
    obtain ⟨h0, hf0⟩ := hi.rdHold r hm
    exact ⟨h0, by unfold holdOf; rw [hh]; exact find_hold_append ext hf0⟩
  rdWorld := by intro r hm; rw [hr] at hm; exact hi.rdWorld r hm
  floor := by rw [hd, hp]; exact hi.floor

/-- request `a`, which has no queued entry, gives up its holds and its recorded reads -/
theorem Inv.release {s s' : S} (hi : Inv grant F s) (a : Nat) (hown : ∀ e ∈ s.pending, e.by_ ≠ a)
    (hh : s'.holders = s.holders.filter (·.a ≠ a)) (hp : s'.pending = s.pending) (hd : s'.durable = s.durable)
    (hr : s'.reads = s.reads.filter (·.1 ≠ a)) : Inv grant F s' where
  excl := by
    rw [hh]; exact hi.excl.subset (fun h hm => (List.mem_filter.mp hm).1)
  held := by
    intro e hm p hpp
    rw [hp] at hm
    obtain ⟨h, hmem, ha, hc⟩ := hi.held e hm p hpp
    refine ⟨h, ?_, ha, hc⟩
    rw [hh, List.mem_filter]
    refine ⟨hmem, ?_⟩
    have : h.a ≠ a := by rw [ha]; exact hown e hm
    simpa using this
  cur := by
    intro r hm h hf hx
    rw [hr, List.mem_filter] at hm
    have hne : r.1 ≠ a := by simpa using hm.2
    have hf' : holdOf s r.1 = some h := by
      unfold holdOf at hf ⊢
      rw [hh, find_hold_filter_ne _ hne] at hf; exact hf
    rw [hd, hp]
    exact hi.cur r hm.1 h hf' hx
  rdHold := by
    intro r hm
    rw [hr, List.mem_filter] at hm
    have hne : r.1 ≠ a := by simpa using hm.2
    obtain ⟨h0, hf0⟩ := hi.rdHold r hm.1
    exact ⟨h0, by unfold holdOf at hf0 ⊢; rw [hh, find_hold_filter_ne _ hne]; exact hf0⟩
  rdWorld := by intro r hm; rw [hr, List.mem_filter] at hm; exact hi.rdWorld r hm.1
  floor := by rw [hd, hp]; exact hi.floor

/-- the store persists the first `n` queued entries -/
theorem Inv.persist {s s' : S} (hi : Inv grant F s) (n : Nat)
    (hh : s'.holders = s.holders) (hp : s'.pending = s.pending.drop n)
    (hd : s'.durable = s.durable ++ s.pending.take n) (hr : s'.reads = s.reads) : Inv grant F s' where
  excl := by rw [hh]; exact hi.excl
  held := by
    intro e hm p hpp
    rw [hp] at hm
    rw [hh]
    exact hi.held e (List.mem_of_mem_drop hm) p hpp
  cur := by
    intro r hm h hf hx
    rw [hr] at hm
    have hf' : holdOf s r.1 = some h := by unfold holdOf at hf ⊢; rw [hh] at hf; exact hf
    rw [hd, hp, List.append_assoc, List.take_append_drop]
    exact hi.cur r hm h hf' hx
  rdHold := by
    intro r hm
    rw [hr] at hm
    obtain ⟨h0, hf0⟩ := hi.rdHold r hm
    exact ⟨h0, by unfold holdOf at hf0 ⊢; rw [hh]; exact hf0⟩
  rdWorld := by intro r hm; rw [hr] at hm; exact hi.rdWorld r hm
  floor := by
    obtain ⟨added, hda, hfl⟩ := hi.floor
    refine ⟨added ++ s.pending.take n, by rw [hd, hda, List.append_assoc], ?_⟩
    rw [hp, List.append_assoc, List.take_append_drop]
    exact hfl

/-- the process stops: everything volatile is lost, the persisted log stays -/
theorem Inv.crashed {s s' : S} (hi : Inv grant F s)
    (hh : s'.holders = []) (hp : s'.pending = []) (hd : s'.durable = s.durable) (hr : s'.reads = []) :
    Inv grant F s' where
  excl := by rw [hh]; exact Excl.nil
  held := by intro e hm; rw [hp] at hm; cases hm
  cur := by intro r hm; rw [hr] at hm; cases hm
  rdHold := by intro r hm; rw [hr] at hm; cases hm
  rdWorld := by intro r hm; rw [hr] at hm; cases hm
  floor := by
    obtain ⟨added, hda, hfl⟩ := hi.floor
    refine ⟨added, by rw [hd, hda], ?_⟩
    rw [hp, List.append_nil]
    exact ((floorAt_append grant F added s.pending).mp hfl).1

/-- request `a`, holding `h` and with no queued entry of its own, records a balance the store answered from the
persisted log: no queued entry mentions the account if `a` write-holds it, so the value is current for the whole log -/
theorem Inv.read {s s' : S} (hi : Inv grant F s) (a : Nat) (x : Acct) (asset : String) (v : Int) (h : Hold)
    (hw : x ≠ "world") (hown : ∀ e ∈ s.pending, e.by_ ≠ a) (hf : holdOf s a = some h)
    (hv : v = balanceOf s.durable x asset)
    (hh : s'.holders = s.holders) (hp : s'.pending = s.pending) (hd : s'.durable = s.durable)
    (hr : s'.reads = (a, x, asset, v) :: s.reads) : Inv grant F s' where
  excl := by rw [hh]; exact hi.excl
  held := by intro e hm p hpp; rw [hp] at hm; rw [hh]; exact hi.held e hm p hpp
  cur := by
    intro r hm h' hf' hx
    have hf'' : holdOf s r.1 = some h' := by unfold holdOf at hf' ⊢; rw [hh] at hf'; exact hf'
    rw [hr, List.mem_cons] at hm
    rw [hd, hp]
    cases hm with
    | inr hm => exact hi.cur r hm h' hf'' hx
    | inl hm =>
      subst hm
      have heq : h' = h := by
        have : holdOf s a = some h' := hf''
        rw [hf] at this; exact (Option.some.inj this).symm
      subst heq
      obtain ⟨hmem, ha⟩ := find_hold_some hf
      have hunt := pending_untouched hi hmem hx hw (by rw [ha]; exact hown)
      show v = balanceOf (s.durable ++ s.pending) x asset
      rw [balanceOf_append_untouched s.durable s.pending x asset hunt]
      exact hv
  rdHold := by
    intro r hm
    rw [hr, List.mem_cons] at hm
    cases hm with
    | inr hm =>
      obtain ⟨h0, hf0⟩ := hi.rdHold r hm
      exact ⟨h0, by unfold holdOf at hf0 ⊢; rw [hh]; exact hf0⟩
    | inl hm => subst hm; exact ⟨h, by unfold holdOf at hf ⊢; rw [hh]; exact hf⟩
  rdWorld := by
    intro r hm
    rw [hr, List.mem_cons] at hm
    cases hm with
    | inr hm => exact hi.rdWorld r hm
    | inl hm => subst hm; exact hw
  floor := by rw [hd, hp]; exact hi.floor

/-- an entry is appended: its postings are covered by locks its producer holds, they do not mention any account whose
recorded balance is kept, and they respect the floor against the replay of the whole log -/
theorem Inv.append_entry {s s' : S} (hi : Inv grant F s) (e0 : Entry)
    (hh : s'.holders = s.holders) (hp : s'.pending = s.pending ++ [e0]) (hd : s'.durable = s.durable)
    (hr : ∀ r ∈ s'.reads, r ∈ s.reads)
    (hheld : ∀ p ∈ e0.log.postings, ∃ h ∈ s.holders, h.a = e0.by_ ∧ Covers h p)
    (hunt : ∀ r ∈ s'.reads, ∀ h, holdOf s r.1 = some h → r.2.1 ∈ h.w → Untouched r.2.1 e0.log.postings)
    (hfl : floorOk (grant e0.by_) (fun x asset => balanceOf (s.durable ++ s.pending) x asset) e0.log.postings = true) :
    Inv grant F s' where
  excl := by rw [hh]; exact hi.excl
  held := by
    intro e hm p hpp
    rw [hp, List.mem_append, List.mem_singleton] at hm
    rw [hh]
    cases hm with
    | inl hm => exact hi.held e hm p hpp
    | inr hm => subst hm; exact hheld p hpp
  cur := by
    intro r hm h hf hx
    have hf' : holdOf s r.1 = some h := by unfold holdOf at hf ⊢; rw [hh] at hf; exact hf
    rw [hd, hp, ← List.append_assoc, balanceOf_append_untouched]
    · exact hi.cur r (hr r hm) h hf' hx
    · intro e he
      rw [List.mem_singleton] at he
      subst he
      exact hunt r hm h hf' hx
  rdHold := by
    intro r hm
    obtain ⟨h0, hf0⟩ := hi.rdHold r (hr r hm)
    exact ⟨h0, by unfold holdOf at hf0 ⊢; rw [hh]; exact hf0⟩
  rdWorld := by intro r hm; exact hi.rdWorld r (hr r hm)
  floor := by
    obtain ⟨added, hda, hfa⟩ := hi.floor
    refine ⟨added, by rw [hd, hda], ?_⟩
    rw [hp, ← List.append_assoc, floorAt_append, floorAt_singleton]
    refine ⟨hfa, ?_⟩
    rw [← List.append_assoc, ← hda]
    exact hfl

end

end Engine.Floor
