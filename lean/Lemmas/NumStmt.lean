import Lemmas.NumDest
/-! Frame lemmas for statements of the fragment of `compile_correct_partial`: `send` from a source
(account | max | in-order, any overdraft clause) to an account, `save`, `set_tx_meta`, `set_account_meta`,
`print`, `fail`. -/
namespace Num
open VM

variable {E : List (Acct × Asset)}

/-- `TakeFromSource`: from `mon :: funding :: S` to `taken :: S` -/
theorem takeFromSource_ok {R : List Resource} {V : List BVal} {env : VEnv} (cx : Ctx R V env) {st st' : CState} {c : Code}
    {fbA : Option Addr} (hs : emitSeq st (takeFromSourceSeq fbA) = .ok (c, st')) (hsub : Sub st' R)
    (m : Machine) (S : List BVal) (ks : List (Acct × Asset)) (b : Bal) (hok : BalOK m.balances.accts E b)
    (f : Fund) (hparts : PartsIn m.balances.accts f.parts) (fb : Option Acct) (hfb : FbRel V fbA fb) (ma : Asset) (mn : Int) :
    match takeFromSource fb f ma mn b with
    | .error er => exec V c (m.upd (.mon ma mn :: .funding f.asset f.parts :: S) ks b) = .error er
    | .ok (t, b') => BalOK m.balances.accts E b' ∧ PartsIn m.balances.accts t.parts ∧
        ∃ ks', exec V c (m.upd (.mon ma mn :: .funding f.asset f.parts :: S) ks b) = .ok (m.upd (.funding t.asset t.parts :: S) ks' b') := by
  have hc := emitSeq_exec cx hs hsub
  cases fbA with
  | none =>
    cases fb with
    | some w => exact hfb.elim
    | none =>
      simp only [takeFromSource]
      simp only [takeFromSourceSeq] at hc
      by_cases h2 : f.asset = ma
      · simp only [h2, ne_eq, not_true_eq_false, if_false]
        cases ht : Num.take f.parts mn with
        | none =>
          simp only
          simp only [hc, runEmits, step_take, h2, ne_eq, not_true_eq_false, if_false, ht]
        | some r =>
          obtain ⟨taken, rest⟩ := r
          simp only
          obtain ⟨hp1, hp2⟩ := take_partsIn hparts ht
          obtain ⟨hok', ks', hr⟩ := step_repay V m (.funding ma taken :: S) ks b hok ma hp2
          refine ⟨hok', hp1, ks', ?_⟩
          simp only [hc, runEmits, step_take, h2, ne_eq, not_true_eq_false, if_false, ht, push_upd, step_bump1, hr]
      · simp only [h2, ne_eq, not_false_eq_true, if_true]
        simp only [hc, runEmits, step_take, h2, ne_eq, not_false_eq_true, if_true]
  | some fbA =>
    cases fb with
    | none => exact hfb.elim
    | some w =>
      simp only [FbRel] at hfb
      simp only [takeFromSource]
      simp only [takeFromSourceSeq] at hc
      obtain ⟨ks2, htail⟩ := maxTail_some V m S ks b hok ma f.asset mn f.parts hparts fbA w hfb
      by_cases h1 : mn < 0
      · simp only [h1, if_true]
        simp only [h1, if_true] at htail
        simp only [hc, htail]
      · by_cases h2 : f.asset = ma
        · simp only [h1, h2, if_false, ne_eq, not_true_eq_false]
          simp only [h1, h2, if_false, ne_eq, not_true_eq_false] at htail
          have hok2 := (repay_eq (ks := ks) hok f.asset (takeMax_partsIn hparts mn).2).1
          rw [h2] at hok2
          have hwa := withdrawAlways_eq (B := ⟨m.balances.accts, ks, Num.repay b ma (takeMax f.parts mn).2⟩) hok2 w ma
            (if mn > total f.parts then mn - total f.parts else 0)
          cases hwd : Num.withdrawAlways (Num.repay b ma (takeMax f.parts mn).2) w ma
              (if mn > total f.parts then mn - total f.parts else 0) with
          | error er =>
            simp only [hwd] at htail
            simp only [hc, htail, h2]
          | ok r =>
            obtain ⟨p, b3⟩ := r
            simp only [hwd] at htail hwa
            obtain ⟨hp1, hp2, hp3, _⟩ := hwa
            simp only [assemble_two, if_true]
            refine ⟨hp3, ?_, ks2, ?_⟩
            · apply concat_partsIn (concat_partsIn (by intro q hq; cases hq) (takeMax_partsIn hparts mn).1)
              intro q hq
              simp only [List.mem_singleton] at hq; subst hq; rw [hp1]; exact hp2
            · simp only [hc, htail, h2]
        · simp only [h1, h2, if_false, ne_eq, not_false_eq_true, if_true]
          simp only [h1, h2, if_false, ne_eq, not_false_eq_true, if_true] at htail
          simp only [hc, htail]

/-- the address of an account expression holds the account `evalAcct` gives (which cannot fail) -/
theorem acctAddr_ok {R : List Resource} {V : List BVal} {env : VEnv} (cx : Ctx R V env) {st st' : CState} {e : Expr} {a : Addr} {c : Code}
    (hv : visitTyped st .account e = .ok (a, c, st')) (hsub : Sub st' R) (hidx : VarIdxOK st) (hnp : e.noPortion = true) :
    ∃ x, evalAcct env e = .ok x ∧ V[a]? = some (.acct x) := by
  unfold visitTyped at hv
  split at hv
  · cases hv
  · rename_i o ho
    split at hv
    · cases hv
    · rename_i hty
      split at hv
      · cases hv
      · rename_i a' ha'
        simp only [Except.ok.injEq, Prod.mk.injEq] at hv
        obtain ⟨rfl, _, rfl⟩ := hv
        have hty' : o.ty = .account := Classical.not_not.mp hty
        have sp := expr_ok cx ho hsub hidx hnp
        obtain ⟨v, hv1, hv2⟩ := sp.2 _ ha'
        rw [leftOperand_leaf ho (by rw [hty']; exact ⟨by decide, by decide⟩)] at hv1
        have h1 := sp.1
        rw [hv1] at h1
        obtain ⟨x, rfl⟩ := ofVal_bty_acct (h1.1.trans hty')
        exact ⟨x, by simp [evalAcct, hv1], hv2⟩

theorem assetAddr_ok {R : List Resource} {V : List BVal} {env : VEnv} (cx : Ctx R V env) {st st' : CState} {e : Expr} {a : Addr} {c : Code}
    (hv : visitTyped st .asset e = .ok (a, c, st')) (hsub : Sub st' R) (hidx : VarIdxOK st) (hnp : e.noPortion = true) :
    ∃ x, evalAsset env e = .ok x ∧ V[a]? = some (.asset x) := by
  unfold visitTyped at hv
  split at hv
  · cases hv
  · rename_i o ho
    split at hv
    · cases hv
    · rename_i hty
      split at hv
      · cases hv
      · rename_i a' ha'
        simp only [Except.ok.injEq, Prod.mk.injEq] at hv
        obtain ⟨rfl, _, rfl⟩ := hv
        have hty' : o.ty = .asset := Classical.not_not.mp hty
        have sp := expr_ok cx ho hsub hidx hnp
        obtain ⟨v, hv1, hv2⟩ := sp.2 _ ha'
        rw [leftOperand_of_asset ho hty'] at hv1
        have h1 := sp.1
        rw [hv1] at h1
        obtain ⟨x, rfl⟩ := ofVal_bty_asset (h1.1.trans hty')
        exact ⟨x, by simp [evalAsset, hv1], hv2⟩

/-- a monetary expression through `visitTyped`: its code pushes `evalMon`, its address holds a monetary of the
`leftAsset` -/
theorem monTyped_ok {R : List Resource} {V : List BVal} {env : VEnv} (cx : Ctx R V env) {st st' : CState} {e : Expr} {a : Addr} {c : Code}
    (hv : visitTyped st .monetary e = .ok (a, c, st')) (hsub : Sub st' R) (hidx : VarIdxOK st) (hnp : e.noPortion = true) :
    (match evalMon env e with
     | .ok (s, n) => ∀ m, exec V c m = .ok (m.push (.mon s n))
     | .error er => ∀ m, exec V c m = .error er) ∧
    ∃ s n, leftAsset env e = .ok s ∧ V[a]? = some (.mon s n) := by
  unfold visitTyped at hv
  split at hv
  · cases hv
  · rename_i o ho
    split at hv
    · cases hv
    · rename_i hty
      split at hv
      · cases hv
      · rename_i a' ha'
        simp only [Except.ok.injEq, Prod.mk.injEq] at hv
        obtain ⟨rfl, rfl, rfl⟩ := hv
        have hty' : o.ty = .monetary := Classical.not_not.mp hty
        exact ⟨monExpr_ok cx ho hsub hidx hnp hty', monAddr_ok cx ho hsub hidx hnp hty' ha'⟩

/-- the asset of a monetary expression is the asset of its leftmost operand -/
theorem evalExpr_leftAsset {env : VEnv} {e : Expr} {a : Asset} {n : Int} (h : evalExpr env e = .ok (.mon a n)) :
    ∃ k, evalExpr env (leftOperand e) = .ok (.mon a k) := by
  induction e generalizing n with
  | add l r ihl _ =>
    simp only [evalExpr] at h
    cases hl : evalExpr env l with
    | error er => simp [hl] at h
    | ok lv =>
      cases hr : evalExpr env r with
      | error er => simp [hl, hr] at h
      | ok rv =>
        simp only [hl, hr] at h
        cases lv <;> cases rv <;> simp at h
        rename_i sa x sb y
        split at h
        · simp only [Except.ok.injEq, Val.mon.injEq] at h
          obtain ⟨rfl, _⟩ := h
          exact ihl hl
        · cases h
  | sub l r ihl _ =>
    simp only [evalExpr] at h
    cases hl : evalExpr env l with
    | error er => simp [hl] at h
    | ok lv =>
      cases hr : evalExpr env r with
      | error er => simp [hl, hr] at h
      | ok rv =>
        simp only [hl, hr] at h
        cases lv <;> cases rv <;> simp at h
        rename_i sa x sb y
        split at h
        · simp only [Except.ok.injEq, Val.mon.injEq] at h
          obtain ⟨rfl, _⟩ := h
          exact ihl hl
        · cases h
  | acct _ => exact ⟨n, h⟩
  | asset _ => exact ⟨n, h⟩
  | num _ => exact ⟨n, h⟩
  | str _ => exact ⟨n, h⟩
  | portion _ => exact ⟨n, h⟩
  | badPortion => exact ⟨n, h⟩
  | mon _ _ => exact ⟨n, h⟩
  | var _ => exact ⟨n, h⟩

theorem evalMon_leftAsset {env : VEnv} {e : Expr} {a s : Asset} {n : Int} (h : evalMon env e = .ok (a, n))
    (hl : leftAsset env e = .ok s) : s = a := by
  unfold evalMon at h
  cases he : evalExpr env e with
  | error er => simp [he] at h
  | ok v =>
    simp only [he] at h
    cases v <;> simp at h
    obtain ⟨rfl, rfl⟩ := h
    obtain ⟨k, hk⟩ := evalExpr_leftAsset he
    simp [leftAsset, evalMon, hk] at hl
    exact hl.symm

/-- the statement fragment with the typing facts spelled out (what the frame lemmas use; implied by `Stmt.frag`
for every statement that compiles, `Stmt.frag0_of_frag`) -/
def Stmt.frag0 : Stmt → Bool
  | .send (.mon e) (.src s) d => e.noPortion && s.frag && d.frag
  | .send (.all ae) (.src s) d => ae.noPortion && s.frag && d.frag
  | .send (.mon e) (.allot items) d =>
    e.noPortion && items.all (fun it => it.2.frag) && decide (items.length < 18446744073709551616) &&
      (items.map (·.1)).all specPos && d.frag
  | .send (.all _) (.allot _) _ => false
  | .saveMon e acc => e.noPortion && acc.noPortion
  | .saveAll ae acc => ae.noPortion && acc.noPortion
  | .setTxMeta _ v => v.noPortion
  | .setAccountMeta acc _ v => v.noPortion && acc.noPortion
  | .print e => e.noPortion
  | .fail => true

/-- the statement fragment: EVERY statement of the language, with these side conditions — in-order source lists and
allotments shorter than 2^64 (their length travels through `Uint64()`), no portion literal with a zero denominator in
an allotment (the parser produces none), and no portion LITERAL as the value of `print` / `set_tx_meta` /
`set_account_meta` (a de-duplicated portion constant is the same rational, possibly written differently) -/
def Stmt.frag : Stmt → Bool
  | .send _ (.src s) d => s.frag && d.frag
  | .send _ (.allot items) d =>
    items.all (fun it => it.2.frag) && decide (items.length < 18446744073709551616) && (items.map (·.1)).all specPos && d.frag
  | .setTxMeta _ v => v.noPortion
  | .setAccountMeta _ _ v => v.noPortion
  | .print e => e.noPortion
  | _ => true

/-- a statement that compiles is well typed, so no portion literal sits where an account, an asset, a number or a
monetary is required -/
theorem Stmt.frag0_of_frag {st st' : CState} {s : Stmt} {c : Code} (hv : visitStmt st s = .ok (c, st')) (hf : s.frag = true) :
    s.frag0 = true := by
  cases s with
  | fail => rfl
  | print e => exact hf
  | setTxMeta key v => exact hf
  | setAccountMeta acc key v =>
    simp only [visitStmt] at hv
    split at hv
    · cases hv
    · split at hv
      · cases hv
      · split at hv
        · cases hv
        · rename_i aA c2 st2 h2
          simp only [Stmt.frag] at hf
          simp only [Stmt.frag0, hf, visitTyped_noPortion h2 (by decide), Bool.and_self]
  | saveMon e acc =>
    simp only [visitStmt] at hv
    split at hv
    · cases hv
    · rename_i mA c1 st1 hm
      split at hv
      · cases hv
      · rename_i aA c2 st2 h2
        simp only [Stmt.frag0, visitTyped_noPortion hm (by decide), visitTyped_noPortion h2 (by decide), Bool.and_self]
  | saveAll ae acc =>
    simp only [visitStmt] at hv
    split at hv
    · cases hv
    · rename_i mA c1 st1 hm
      split at hv
      · cases hv
      · rename_i aA c2 st2 h2
        simp only [Stmt.frag0, visitTyped_noPortion hm (by decide), visitTyped_noPortion h2 (by decide), Bool.and_self]
  | send amt src d =>
    simp only [visitStmt] at hv
    split at hv
    · cases hv
    · rename_i c1 st1 hsrc
      cases amt with
      | mon e =>
        cases src with
        | src sc =>
          simp only [visitSendSource] at hsrc
          split at hsrc
          · cases hsrc
          · rename_i mA c0 stA hm
            simp only [Stmt.frag] at hf
            simp only [Stmt.frag0, visitTyped_noPortion hm (by decide), Bool.true_and, hf]
        | allot items =>
          simp only [visitSendSource] at hsrc
          split at hsrc
          · cases hsrc
          · rename_i mA c0 stA hm
            simp only [Stmt.frag] at hf
            simp only [Stmt.frag0, visitTyped_noPortion hm (by decide), Bool.true_and, hf]
      | all ae =>
        cases src with
        | src sc =>
          simp only [visitSendSource] at hsrc
          split at hsrc
          · cases hsrc
          · rename_i aA c0 stA hm
            simp only [Stmt.frag] at hf
            simp only [Stmt.frag0, visitTyped_noPortion hm (by decide), Bool.true_and, hf]
        | allot items =>
          simp only [visitSendSource] at hsrc
          split at hsrc
          · cases hsrc
          · cases hsrc

/-- the machine mirrors `Spec`'s running state (between two statements) -/
structure Rel (A : List Acct) (E : List (Acct × Asset)) (m : Machine) (F : Full) : Prop where
  stack : m.stack = []
  accts : m.balances.accts = A
  bal : m.balances.bal = F.st.bal
  postings : m.postings = F.st.postings
  txMeta : m.txMeta = F.txMeta.map (fun kv => (kv.1, BVal.ofVal kv.2))
  acctMeta : m.acctMeta = F.acctMeta.map (fun x => (x.1, x.2.1, BVal.ofVal x.2.2))
  prints : m.prints = F.prints.map BVal.ofVal
  ok : BalOK A E F.st.bal

/-- the needed balances the compiler recorded are among the entries `E` that exist -/
def EntOK (V : List BVal) (nb : List (Addr × List Addr)) (A : List Acct) (E : List (Acct × Asset)) : Prop :=
  ∀ a x, InNeeded nb a x → ∀ acct s, V[a]? = some (.acct acct) → (∃ v, V[x]? = some v ∧ assetOf v = some s) →
    A.contains acct = true ∧ (acct, s) ∈ E

/-- `VisitDestination`: from `funding :: S`, run the destination and repay what it did not send -/
theorem destination_ok {R : List Resource} {V : List BVal} {env : VEnv} (cx : Ctx R V env) (hp : VPos V) {st st' : CState} {d : Dest} {c : Code}
    (hv : visitDestination st d = .ok (c, st')) (hsub : Sub st' R) (hidx : VarIdxOK st) (hf : d.frag = true)
    (m : Machine) (S : List BVal) (ks : List (Acct × Asset)) (b : Bal) (hok : BalOK m.balances.accts E b)
    (f : Fund) (hparts : PartsIn m.balances.accts f.parts) :
    match finishSend env d f ⟨b, m.postings⟩ with
    | .error er => exec V c (m.upd (.funding f.asset f.parts :: S) ks b) = .error er
    | .ok st2 => BalOK m.balances.accts E st2.bal ∧
        ∃ ks', exec V c (m.upd (.funding f.asset f.parts :: S) ks b) = .ok (m.upd3 S ks' st2.bal st2.postings) := by
  unfold visitDestination at hv
  split at hv
  · cases hv
  · rename_i c1 st1 h1
    simp only [Except.ok.injEq, Prod.mk.injEq] at hv
    obtain ⟨rfl, rfl⟩ := hv
    have hD := dest_ok (E := E) cx hp h1 hsub hidx hf m S ks b f hok hparts
    simp only [finishSend]
    cases hev : evalDest env d f ⟨b, m.postings⟩ with
    | error er =>
      rw [hev] at hD
      simp only [exec_append, hD]
    | ok r =>
      obtain ⟨rest, st2⟩ := r
      rw [hev] at hD
      obtain ⟨hok2, hparts2, ks2, hex2⟩ := hD
      obtain ⟨hok3, ks3, hrp⟩ := step_repay V (m.setPost st2.postings) S ks2 st2.bal hok2 rest.asset hparts2
      refine ⟨hok3, ks3, ?_⟩
      simp only [exec_append, hex2, exec, hrp]
      rfl

/-- the value of a typed expression has the wanted type -/
theorem typed_val {R : List Resource} {V : List BVal} {env : VEnv} (cx : Ctx R V env) {st st' : CState} {want : BTy} {e : Expr} {a : Addr} {c : Code}
    (hv : visitTyped st want e = .ok (a, c, st')) (hsub : Sub st' R) (hidx : VarIdxOK st) (hnp : e.noPortion = true)
    {v : Val} (he : evalExpr env e = .ok v) : (BVal.ofVal v).bty = want := by
  unfold visitTyped at hv
  split at hv
  · cases hv
  · rename_i o ho
    split at hv
    · cases hv
    · rename_i hty
      split at hv
      · cases hv
      · simp only [Except.ok.injEq, Prod.mk.injEq] at hv
        obtain ⟨_, _, rfl⟩ := hv
        have h1 := (expr_ok cx ho hsub hidx hnp).1
        rw [he] at h1
        exact h1.1.trans (Classical.not_not.mp hty)

theorem setKey_map (l : List (String × Val)) (k : String) (v : Val) :
    setKey (l.map (fun kv => (kv.1, BVal.ofVal kv.2))) k (BVal.ofVal v) = (setKey l k v).map (fun kv => (kv.1, BVal.ofVal kv.2)) := by
  simp [setKey, List.filter_map, Function.comp_def]

@[simp] theorem ofVal_mon (a : String) (n : Int) : BVal.ofVal (.mon a n) = .mon a n := rfl

theorem exec_pushAsset_mon {V : List BVal} {a : Addr} {s : Asset} {n : Int} (h : V[a]? = some (.mon s n)) (m : Machine) :
    exec V [.apush a, .asset] m = .ok (m.push (.asset s)) := by
  simp [exec, step, h, popValue, Machine.push]

/-- the code of `BUMP n; …`: the constant `n`, `OP_BUMP`, the rest -/
theorem emitSeq_bump_cons {st st' : CState} {n : Int} {es : List Emit} {c : Code} (h : emitSeq st (.bump n :: es) = .ok (c, st')) :
    ∃ a st1 c', allocRes st (.const (.num n)) = .ok (a, st1) ∧ emitSeq st1 es = .ok (c', st') ∧ c = .apush a :: .bump :: c' := by
  simp only [emitSeq] at h
  split at h
  · cases h
  · rename_i a st1 ha
    split at h
    · cases h
    · rename_i c' st2 hr
      simp only [Except.ok.injEq, Prod.mk.injEq] at h
      obtain ⟨rfl, rfl⟩ := h
      exact ⟨a, st1, c', ha, hr, rfl⟩

theorem fundVals_snoc (l : List Fund) (t : Fund) : fundVals (l ++ [t]) = fundVals l ++ [.funding t.asset t.parts] := by
  simp [fundVals]

/-- the sources of a source allotment: each takes its share; the shares wait on the stack under the fundings taken
so far -/
theorem allotSources_ok {R : List Resource} {V : List BVal} {env : VEnv} (cx : Ctx R V env) {asset ma : Asset} {pa : Code}
    (hpa : ∀ m, exec V pa m = .ok (m.push (.asset asset))) {mA : Addr}
    {items : List (PortionSpec × Source)} {st st' : CState} {i : Nat} {c : Code} (hmt : HasTy st.resources mA .monetary)
    (hv : visitAllotSources st pa mA items i = .ok (c, st')) (hsub : Sub st' R) (hidx : VarIdxOK st)
    (hf : ∀ it ∈ items, it.2.frag = true) (hi : i + items.length < 18446744073709551616) :
    ∀ (m : Machine) (S T : List BVal) (ks : List (Acct × Asset)) (b : Bal) (parts : List Int), T.length = i →
      parts.length = items.length → BalOK m.balances.accts E b →
      match evalAllotSources env asset ma items parts b with
      | .error er => exec V c (m.upd (T ++ (parts.map (fun x => BVal.mon ma x) ++ S)) ks b) = .error er
      | .ok (ts, b') => BalOK m.balances.accts E b' ∧ (∀ t ∈ ts, PartsIn m.balances.accts t.parts) ∧ ts.length = items.length ∧
          ∃ ks', exec V c (m.upd (T ++ (parts.map (fun x => BVal.mon ma x) ++ S)) ks b) =
            .ok (m.upd (fundVals ts.reverse ++ (T ++ S)) ks' b') := by
  induction items generalizing st i c with
  | nil =>
    simp only [visitAllotSources, Except.ok.injEq, Prod.mk.injEq] at hv
    obtain ⟨rfl, _⟩ := hv
    intro m S T ks b parts hT hlen hok
    have : parts = [] := List.eq_nil_of_length_eq_zero (by simpa using hlen)
    subst this
    simp only [evalAllotSources]
    exact ⟨hok, (by intro t ht; cases ht), rfl, ks, rfl⟩
  | cons it rest ih =>
    obtain ⟨p, s⟩ := it
    simp only [visitAllotSources] at hv
    split at hv
    · cases hv
    · rename_i so hso
      split at hv
      · cases hv
      · rename_i c1 st1 h1
        split at hv
        · cases hv
        · rename_i c2 st2 h2
          simp only [Except.ok.injEq, Prod.mk.injEq] at hv
          obtain ⟨rfl, rfl⟩ := hv
          obtain ⟨hs1, hs2⟩ := visitSource_ok hso
          have eN := Ext.setNeeded so.st so.needed mA hs2 (Or.inr (hs1.hasTy hmt))
          have e1 := hs1.trans (eN.trans (emitSeq_ext h1))
          have e2 := visitAllotSources_ext (e1.hasTy hmt) h2
          have hsub1 : Sub st1 R := hsub.of_ext e2
          have hsubS : Sub so.st R := hsub1.of_ext (eN.trans (emitSeq_ext h1))
          obtain ⟨a, stx, c', hal, hes, rfl⟩ := emitSeq_bump_cons h1
          have hVa : V[a]? = some (.num ((i : Int) + 1)) := allocNum_val cx hal (hsub1.of_ext (emitSeq_ext hes))
          have hS := source_ok (E := E) cx asset hpa hso hsubS hidx (hf (p, s) (List.mem_cons_self ..))
          have ihr := ih (e1.hasTy hmt) h2 (e1.varIdxOK hidx) (fun it hit => hf it (List.mem_cons_of_mem _ hit))
            (by simp only [List.length_cons] at hi; omega)
          intro m S T ks b parts hT hlen hok
          cases parts with
          | nil => simp at hlen
          | cons q qs =>
            have hlen' : qs.length = rest.length := by simpa using hlen
            simp only [evalAllotSources, List.map_cons, List.cons_append]
            have h1s := hS m (T ++ (.mon ma q :: (qs.map (fun x => BVal.mon ma x) ++ S))) ks b hok
            cases hsrc : evalSource env asset s b with
            | error er =>
              rw [hsrc] at h1s
              simp only [exec_append, h1s]
            | ok r0 =>
              obtain ⟨f, fb, b1⟩ := r0
              rw [hsrc] at h1s
              obtain ⟨hfb, hok1, hparts, ks1, hex1⟩ := h1s
              -- `BUMP (i+1)` brings the share to the top
              have hbump : step V .bump (m.upd (.num ((i : Int) + 1) :: .funding f.asset f.parts :: (T ++ (.mon ma q :: (qs.map (fun x => BVal.mon ma x) ++ S)))) ks1 b1) =
                  .ok (m.upd (.mon ma q :: .funding f.asset f.parts :: (T ++ (qs.map (fun x => BVal.mon ma x) ++ S))) ks1 b1) := by
                have := step_bumpN V m (qs.map (fun x => BVal.mon ma x) ++ S) ks1 b1 (.funding f.asset f.parts :: T) (.mon ma q)
                  (by simp only [List.length_cons, hT]; simp only [List.length_cons] at hi; omega)
                simp only [List.length_cons, hT, List.cons_append] at this
                have hc : ((i + 1 : Nat) : Int) = (i : Int) + 1 := by omega
                rw [hc] at this
                exact this
              have hT1 := takeFromSource_ok (E := E) cx hes hsub1 m (T ++ (qs.map (fun x => BVal.mon ma x) ++ S)) ks1 b1 hok1 f hparts fb hfb ma q
              simp only
              cases htk : takeFromSource fb f ma q b1 with
              | error er =>
                rw [htk] at hT1
                simp only [exec_append, hex1, exec_cons, step_apush hVa, push_upd, hbump, hT1]
              | ok r1 =>
                obtain ⟨t, b2⟩ := r1
                rw [htk] at hT1
                obtain ⟨hok2, hparts2, ks2, hex2⟩ := hT1
                have hR := ihr m S (.funding t.asset t.parts :: T) ks2 b2 qs (by simp [hT]) hlen' hok2
                simp only [List.cons_append] at hR
                simp only
                cases hrest : evalAllotSources env asset ma rest qs b2 with
                | error er =>
                  rw [hrest] at hR
                  simp only [exec_append, hex1, exec_cons, step_apush hVa, push_upd, hbump, hex2, hR]
                | ok r2 =>
                  obtain ⟨ts, b3⟩ := r2
                  rw [hrest] at hR
                  obtain ⟨hok3, hparts3, hlen3, ks3, hex3⟩ := hR
                  refine ⟨hok3, ?_, by simp [hlen3], ks3, ?_⟩
                  · intro t' ht'
                    rcases List.mem_cons.mp ht' with rfl | ht'
                    · exact hparts2
                    · exact hparts3 t' ht'
                  · simp only [exec_append, hex1, exec_cons, step_apush hVa, push_upd, hbump, hex2, hex3]
                    simp [fundVals]

/-- the machine mirrors `Spec`'s running state, metadata values and printed values being related by `Q` -/
structure RelQ (Q : BVal → Val → Prop) (A : List Acct) (E : List (Acct × Asset)) (m : Machine) (F : Full) : Prop where
  stack : m.stack = []
  accts : m.balances.accts = A
  bal : m.balances.bal = F.st.bal
  postings : m.postings = F.st.postings
  txMeta : List.Forall₂ (fun (x : String × BVal) (y : String × Val) => x.1 = y.1 ∧ Q x.2 y.2) m.txMeta F.txMeta
  acctMeta : List.Forall₂ (fun (x : Acct × String × BVal) (y : Acct × String × Val) => x.1 = y.1 ∧ x.2.1 = y.2.1 ∧ Q x.2.2 y.2.2)
    m.acctMeta F.acctMeta
  prints : List.Forall₂ Q m.prints F.prints
  ok : BalOK A E F.st.bal

theorem forall2_filter {α β} {R : α → β → Prop} {p : α → Bool} {q : β → Bool} {l : List α} {l' : List β}
    (h : List.Forall₂ R l l') (hpq : ∀ x y, R x y → p x = q y) : List.Forall₂ R (l.filter p) (l'.filter q) := by
  induction h with
  | nil => exact List.Forall₂.nil
  | @cons x y l l' hxy _ ih =>
    rw [List.filter_cons, List.filter_cons, hpq x y hxy]
    split
    · exact List.Forall₂.cons hxy ih
    · exact ih

theorem setKey_forall2 {Q : BVal → Val → Prop} {l : List (String × BVal)} {l' : List (String × Val)}
    (h : List.Forall₂ (fun (x : String × BVal) (y : String × Val) => x.1 = y.1 ∧ Q x.2 y.2) l l') (k : String) {v : BVal} {v' : Val}
    (hv : Q v v') :
    List.Forall₂ (fun (x : String × BVal) (y : String × Val) => x.1 = y.1 ∧ Q x.2 y.2) (setKey l k v) (setKey l' k v') := by
  unfold setKey
  refine forall2_append (forall2_filter h ?_) (List.Forall₂.cons ⟨rfl, hv⟩ List.Forall₂.nil)
  intro x y hxy
  rw [hxy.1]

theorem acctMeta_forall2 {Q : BVal → Val → Prop} {l : List (Acct × String × BVal)} {l' : List (Acct × String × Val)}
    (h : List.Forall₂ (fun (x : Acct × String × BVal) (y : Acct × String × Val) => x.1 = y.1 ∧ x.2.1 = y.2.1 ∧ Q x.2.2 y.2.2) l l')
    (a : Acct) (k : String) {v : BVal} {v' : Val} (hv : Q v v') :
    List.Forall₂ (fun (x : Acct × String × BVal) (y : Acct × String × Val) => x.1 = y.1 ∧ x.2.1 = y.2.1 ∧ Q x.2.2 y.2.2)
      (l.filter (fun x => ¬ (x.1 = a ∧ x.2.1 = k)) ++ [(a, k, v)]) (l'.filter (fun m => ¬ (m.1 = a ∧ m.2.1 = k)) ++ [(a, k, v')]) := by
  refine forall2_append (forall2_filter h ?_) (List.Forall₂.cons ⟨rfl, rfl, hv⟩ List.Forall₂.nil)
  intro x y hxy
  rw [hxy.1, hxy.2.1]

/-- `Q` = the VM holds exactly the image of `Spec`'s value -/
def ExactQ (w : BVal) (v : Val) : Prop := w = BVal.ofVal v

theorem forall2_exact_tx {l : List (String × BVal)} {l' : List (String × Val)} :
    List.Forall₂ (fun (x : String × BVal) (y : String × Val) => x.1 = y.1 ∧ ExactQ x.2 y.2) l l' ↔
      l = l'.map (fun kv => (kv.1, BVal.ofVal kv.2)) := by
  constructor
  · intro h
    induction h with
    | nil => rfl
    | @cons x y l l' hxy _ ih =>
      obtain ⟨x1, x2⟩ := x
      simp only [ExactQ] at hxy
      obtain ⟨rfl, rfl⟩ := hxy
      rw [ih]; rfl
  · rintro rfl
    induction l' with
    | nil => exact List.Forall₂.nil
    | cons y l' ih => exact List.Forall₂.cons ⟨rfl, rfl⟩ ih

theorem forall2_exact_acct {l : List (Acct × String × BVal)} {l' : List (Acct × String × Val)} :
    List.Forall₂ (fun (x : Acct × String × BVal) (y : Acct × String × Val) => x.1 = y.1 ∧ x.2.1 = y.2.1 ∧ ExactQ x.2.2 y.2.2) l l' ↔
      l = l'.map (fun x => (x.1, x.2.1, BVal.ofVal x.2.2)) := by
  constructor
  · intro h
    induction h with
    | nil => rfl
    | @cons x y l l' hxy _ ih =>
      obtain ⟨x1, x2, x3⟩ := x
      simp only [ExactQ] at hxy
      obtain ⟨rfl, rfl, rfl⟩ := hxy
      rw [ih]; rfl
  · rintro rfl
    induction l' with
    | nil => exact List.Forall₂.nil
    | cons y l' ih => exact List.Forall₂.cons ⟨rfl, rfl, rfl⟩ ih

theorem forall2_exact_prints {l : List BVal} {l' : List Val} : List.Forall₂ ExactQ l l' ↔ l = l'.map BVal.ofVal := by
  constructor
  · intro h
    induction h with
    | nil => rfl
    | @cons x y l l' hxy _ ih => simp only [ExactQ] at hxy; subst hxy; rw [ih]; rfl
  · rintro rfl
    induction l' with
    | nil => exact List.Forall₂.nil
    | cons y l' ih => exact List.Forall₂.cons rfl ih

theorem Rel.toQ {A : List Acct} {m : Machine} {F : Full} (h : Rel A E m F) : RelQ ExactQ A E m F :=
  ⟨h.stack, h.accts, h.bal, h.postings, forall2_exact_tx.mpr h.txMeta, forall2_exact_acct.mpr h.acctMeta,
    forall2_exact_prints.mpr h.prints, h.ok⟩

theorem RelQ.toRel {A : List Acct} {m : Machine} {F : Full} (h : RelQ ExactQ A E m F) : Rel A E m F :=
  ⟨h.stack, h.accts, h.bal, h.postings, forall2_exact_tx.mp h.txMeta, forall2_exact_acct.mp h.acctMeta,
    forall2_exact_prints.mp h.prints, h.ok⟩

/-- what the code of a statement of the fragment does, in `Spec`'s words; metadata and printed values are related by
any `Q` that relates `ofVal v` to `v` (equality for `compile_correct_partial`, equality of the rendered strings
for the end-to-end statement) -/
theorem stmt_okQ {Q : BVal → Val → Prop} (hQ : ∀ v, Q (BVal.ofVal v) v)
    {R : List Resource} {V : List BVal} {env : VEnv} (cx : Ctx R V env) (hp : VPos V) {st st' : CState} {s : Stmt} {c : Code}
    (hv : visitStmt st s = .ok (c, st')) (hsub : Sub st' R) (hidx : VarIdxOK st) (hf : s.frag = true)
    {A : List Acct} (hE : EntOK V st'.needed A E) (m : Machine) (F : Full) (hrel : RelQ Q A E m F) :
    match evalStmt env s F with
    | .error er => exec V c m = .error er
    | .ok F' => ∃ m', exec V c m = .ok m' ∧ RelQ Q A E m' F' := by
  have hf := Stmt.frag0_of_frag hv hf
  obtain ⟨stk, ⟨accts, keys, bal⟩, ps, tm, am, pr⟩ := m
  obtain ⟨h1, h2, h3, h4, h5, h6, h7, hok⟩ := hrel
  simp only at h1 h2 h3 h4 h5 h6 h7
  subst h1 h2 h3 h4
  cases s with
  | fail =>
    simp only [visitStmt, Except.ok.injEq, Prod.mk.injEq] at hv
    obtain ⟨rfl, _⟩ := hv
    simp [evalStmt, exec, step]
  | print e =>
    simp only [Stmt.frag0] at hf
    simp only [visitStmt] at hv
    split at hv
    · cases hv
    · rename_i o ho
      simp only [Except.ok.injEq, Prod.mk.injEq] at hv
      obtain ⟨rfl, rfl⟩ := hv
      have h := (expr_ok cx ho hsub hidx hf).1
      simp only [evalStmt]
      cases he : evalExpr env e with
      | error er => rw [he] at h; simp [exec_append, h _]
      | ok x =>
        rw [he] at h
        refine ⟨_, by simp only [exec_append, h.2, exec, step, popValue, Machine.push]; rfl, ?_⟩
        exact ⟨rfl, rfl, rfl, rfl, h5, h6, forall2_append h7 (List.Forall₂.cons (hQ x) List.Forall₂.nil), hok⟩
  | setTxMeta key v =>
    simp only [Stmt.frag0] at hf
    simp only [visitStmt] at hv
    split at hv
    · cases hv
    · rename_i o ho
      split at hv
      · cases hv
      · rename_i k st1 hk
        simp only [Except.ok.injEq, Prod.mk.injEq] at hv
        obtain ⟨rfl, rfl⟩ := hv
        obtain ⟨hek, ck, hck, hveq⟩ := allocConst_ok hk
        have : ck = .str key := valueEquals_eq hveq (by intro r hr; cases hr) (by intro r hr; cases hr)
        subst this
        have hVk : V[k]? = some (.str key) := cx.res k _ (hsub k _ hck)
        have h := (expr_ok cx ho (hsub.of_ext hek) hidx hf).1
        simp only [evalStmt]
        cases he : evalExpr env v with
        | error er => rw [he] at h; simp [exec_append, h _]
        | ok x =>
          rw [he] at h
          refine ⟨_, by simp only [exec_append, h.2, exec, hVk, step, popStr, popValue, Machine.push]; rfl, ?_⟩
          exact ⟨rfl, rfl, rfl, rfl, setKey_forall2 h5 key (hQ x), h6, h7, hok⟩
  | setAccountMeta acc key v =>
    simp only [Stmt.frag0, Bool.and_eq_true] at hf
    simp only [visitStmt] at hv
    split at hv
    · cases hv
    · rename_i o ho
      split at hv
      · cases hv
      · rename_i k st1 hk
        split at hv
        · cases hv
        · rename_i aA c2 st2 h2
          simp only [Except.ok.injEq, Prod.mk.injEq] at hv
          obtain ⟨rfl, rfl⟩ := hv
          obtain ⟨hek, ck, hck, hveq⟩ := allocConst_ok hk
          have : ck = .str key := valueEquals_eq hveq (by intro r hr; cases hr) (by intro r hr; cases hr)
          subst this
          have he2 := (visitTyped_ok h2).1
          have hVk : V[k]? = some (.str key) := cx.res k _ (hsub k _ (he2.get hck))
          have heo := visitExpr_ext ho
          have h := (expr_ok cx ho ((hsub.of_ext he2).of_ext hek) hidx hf.1).1
          obtain ⟨x, hx, hVa⟩ := acctAddr_ok cx h2 hsub ((heo.trans hek).varIdxOK hidx) hf.2
          simp only [evalStmt]
          cases he : evalExpr env v with
          | error er => rw [he] at h; simp [exec_append, h _]
          | ok y =>
            rw [he] at h
            simp only [hx]
            refine ⟨_, by simp only [exec_append, h.2, exec, hVk, hVa, step, popStr, popAcct, popValue, Machine.push]; rfl, ?_⟩
            exact ⟨rfl, rfl, rfl, rfl, h5, acctMeta_forall2 h6 x key (hQ y), h7, hok⟩
  | saveMon e acc =>
    simp only [Stmt.frag0, Bool.and_eq_true] at hf
    simp only [visitStmt] at hv
    split at hv
    · cases hv
    · rename_i mA c1 st1 hm
      split at hv
      · cases hv
      · rename_i aA c2 st2 h2
        simp only [Except.ok.injEq, Prod.mk.injEq] at hv
        obtain ⟨rfl, rfl⟩ := hv
        have hsub2 : Sub st2 R := hsub
        obtain ⟨he1, _⟩ := visitTyped_ok hm
        obtain ⟨he2, _⟩ := visitTyped_ok h2
        obtain ⟨hcode, s0, n0, hla, hVm⟩ := monTyped_ok cx hm (hsub2.of_ext he2) hidx hf.1
        obtain ⟨x, hx, hVa⟩ := acctAddr_ok cx h2 hsub2 (he1.varIdxOK hidx) hf.2
        have hent := hE aA mA (setNeeded_mem st2 mA (List.mem_singleton.mpr rfl)) x s0 hVa ⟨_, hVm, rfl⟩
        simp only [evalStmt]
        cases hem : evalMon env e with
        | error er => rw [hem] at hcode; simp [exec_append, hcode _]
        | ok r =>
          obtain ⟨ma, mn⟩ := r
          rw [hem] at hcode
          simp only at hcode
          have hs0 : s0 = ma := evalMon_leftAsset hem hla
          subst hs0
          simp only [hx]
          by_cases hneg : mn < 0
          · simp only [hneg, if_true]
            simp [exec_append, hcode, exec, hVa, step, popAcct, popValue, Machine.push, hneg]
          · simp only [hneg, if_false]
            have hsome := hok.2 _ hent.2
            cases hg : F.st.bal.get x s0 with
            | none => simp [hg] at hsome
            | some t =>
              simp only
              refine ⟨_, by simp only [exec_append, hcode, exec, hVa, step, popAcct, popValue, Machine.push, hneg, if_false,
                Balances.hasAcct, hent.1, Bool.not_true, Bool.false_eq_true, hg, Option.getD_some]; rfl, ?_⟩
              exact ⟨rfl, rfl, rfl, rfl, h5, h6, h7, hok.upd hent.1 _ _⟩
  | saveAll ae acc =>
    simp only [Stmt.frag0, Bool.and_eq_true] at hf
    simp only [visitStmt] at hv
    split at hv
    · cases hv
    · rename_i sA c1 st1 hm
      split at hv
      · cases hv
      · rename_i aA c2 st2 h2
        simp only [Except.ok.injEq, Prod.mk.injEq] at hv
        obtain ⟨rfl, rfl⟩ := hv
        have hsub2 : Sub st2 R := hsub
        obtain ⟨he1, _⟩ := visitTyped_ok hm
        obtain ⟨he2, _⟩ := visitTyped_ok h2
        obtain ⟨s0, hs0, hVs⟩ := assetAddr_ok cx hm (hsub2.of_ext he2) hidx hf.1
        obtain ⟨x, hx, hVa⟩ := acctAddr_ok cx h2 hsub2 (he1.varIdxOK hidx) hf.2
        have hent := hE aA sA (setNeeded_mem st2 sA (List.mem_singleton.mpr rfl)) x s0 hVa ⟨_, hVs, rfl⟩
        simp only [evalStmt, hs0, hx]
        have hsome := hok.2 _ hent.2
        cases hg : F.st.bal.get x s0 with
        | none => simp [hg] at hsome
        | some t =>
          simp only
          by_cases hpos : t > 0
          · refine ⟨_, by simp only [exec, hVs, hVa, step, popAcct, popValue, Machine.push,
              Balances.hasAcct, hent.1, Bool.not_true, Bool.false_eq_true, if_false, hg, hpos, if_true]; rfl, ?_⟩
            simp only [hpos, if_true]
            exact ⟨rfl, rfl, rfl, rfl, h5, h6, h7, hok.upd hent.1 _ _⟩
          · refine ⟨_, by simp only [exec, hVs, hVa, step, popAcct, popValue, Machine.push,
              Balances.hasAcct, hent.1, Bool.not_true, Bool.false_eq_true, if_false, hg, hpos]; rfl, ?_⟩
            simp only [hpos, if_false]
            exact ⟨rfl, rfl, rfl, rfl, h5, h6, h7, hok⟩
  | send amt src d =>
    simp only [visitStmt] at hv
    split at hv
    · cases hv
    · rename_i c1 st1 hsrc
      split at hv
      · cases hv
      · rename_i c2 st2 hdst
        simp only [Except.ok.injEq, Prod.mk.injEq] at hv
        obtain ⟨rfl, rfl⟩ := hv
        have hsub2 : Sub st2 R := hsub
        have hed := visitDestination_ext hdst
        have hes := visitSendSource_ext hsrc
        · cases src with
          | allot items =>
            cases amt with
            | all ae => simp [Stmt.frag0] at hf
            | mon e =>
              simp only [Stmt.frag0, Bool.and_eq_true, decide_eq_true_eq, List.all_eq_true] at hf
              obtain ⟨⟨⟨⟨hfe, hfs⟩, hflen⟩, hfq⟩, hfd⟩ := hf
              simp only [visitSendSource] at hsrc
              split at hsrc
              · cases hsrc
              · rename_i mA c0 stA hm
                split at hsrc
                · cases hsrc
                · rename_i eo heo
                  split at hsrc
                  · cases hsrc
                  · rename_i ca stB hal
                    split at hsrc
                    · cases hsrc
                    · rename_i cs stC has
                      split at hsrc
                      · cases hsrc
                      · rename_i cf stD hfin
                        simp only [Except.ok.injEq, Prod.mk.injEq] at hsrc
                        obtain ⟨rfl, rfl⟩ := hsrc
                        obtain ⟨heA, tA⟩ := visitTyped_ok hm
                        have heE := visitExpr_ext heo
                        have heL := visitAllotment_ext hal
                        have hmB : HasTy stB.resources mA .monetary := heL.hasTy (heE.hasTy tA)
                        have heS := visitAllotSources_ext hmB has
                        have heF := emitSeq_ext hfin
                        have hsubD : Sub stD R := hsub2.of_ext hed
                        have hsubC : Sub stC R := hsubD.of_ext heF
                        have hsubB : Sub stB R := hsubC.of_ext heS
                        have hsubE : Sub eo.st R := hsubB.of_ext heL
                        have hsubA : Sub stA R := hsubE.of_ext heE
                        obtain ⟨_, a0, n0, hla, hVm⟩ := monTyped_ok cx hm hsubA hidx hfe
                        have hpa := fun mm => exec_pushAsset_mon (V := V) hVm mm
                        have hX := (expr_ok cx heo hsubE (heA.varIdxOK hidx) hfe).1
                        have hidxB : VarIdxOK stB := (heA.trans (heE.trans heL)).varIdxOK hidx
                        have hA := allotment_ok cx hp hal hsubB ((heA.trans heE).varIdxOK hidx)
                          (fun q hq => hfq q hq)
                          (by rw [List.length_map]; exact hflen)
                        have hcf := emitSeq_exec cx hfin hsubD
                        have hidxT : VarIdxOK stD := hes.varIdxOK hidx
                        obtain ⟨m0, hm0⟩ : ∃ m0 : Machine, m0 = (⟨[], ⟨accts, keys, F.st.bal⟩, F.st.postings, tm, am, pr⟩ : Machine) := ⟨_, rfl⟩
                        have hm0u : m0.upd [] keys F.st.bal = m0 := by subst hm0; rfl
                        have hm0a : m0.balances.accts = accts := by subst hm0; rfl
                        have hm0p : m0.postings = F.st.postings := by subst hm0; rfl
                        have hok0 : BalOK m0.balances.accts E F.st.bal := by rw [hm0a]; exact hok
                        rw [← hm0]
                        simp only [evalStmt, evalSend]
                        cases hem : evalMon env e with
                        | error er =>
                          simp only [evalMon] at hem
                          cases hee : evalExpr env e with
                          | error er' =>
                            rw [hee] at hX hem
                            simp only [Except.error.injEq] at hem; subst hem
                            simp only [exec_append, hX]
                          | ok v =>
                            have := typed_val cx hm hsubA hidx hfe hee
                            obtain ⟨a', n', rfl⟩ := ofVal_bty_mon this
                            simp [hee] at hem
                        | ok r =>
                          obtain ⟨ma, mn⟩ := r
                          have hee : evalExpr env e = .ok (.mon ma mn) := by
                            simp only [evalMon] at hem
                            cases hee : evalExpr env e with
                            | error er' => simp [hee] at hem
                            | ok v =>
                              have := typed_val cx hm hsubA hidx hfe hee
                              obtain ⟨a', n', rfl⟩ := ofVal_bty_mon this
                              simp only [hee, Except.ok.injEq, Prod.mk.injEq] at hem
                              obtain ⟨rfl, rfl⟩ := hem; rfl
                          rw [hee] at hX
                          have hX2 : exec V eo.code m0 = .ok (m0.upd [.mon ma mn] keys F.st.bal) := by
                            rw [hX.2]; subst hm0; rfl
                          simp only [hla]
                          cases hrp : resolvePortions env (items.map (·.1)) with
                          | error er =>
                            rw [hrp] at hA
                            simp only [exec_append, hX2, hA]
                          | ok al =>
                            rw [hrp] at hA
                            obtain ⟨al', hrel, hexA⟩ := hA
                            have hplen : (allocate al mn).length = items.length := by
                              rw [allocate_length, resolvePortions_length hrp, List.length_map]
                            have hSrc := allotSources_ok (E := E) (ma := ma) cx hpa hmB has hsubC hidxB (fun it hit => hfs it hit)
                              (by simpa using hflen) m0 [] [] keys F.st.bal (allocate al mn) rfl hplen hok0
                            simp only [List.nil_append, List.append_nil] at hSrc
                            have hpre : exec V (eo.code ++ ca ++ [.alloc]) m0 =
                                .ok (m0.upd ((allocate al mn).map (fun x => BVal.mon ma x)) keys F.st.bal) := by
                              simp only [exec_append, hX2, hexA, push_upd, exec, step_alloc, ← allocate_ratsRel hrel, List.append_nil]
                            have hcode : eo.code ++ ca ++ [.alloc] ++ cs ++ cf ++ c2 = (eo.code ++ ca ++ [.alloc]) ++ (cs ++ (cf ++ c2)) := by
                              simp only [List.append_assoc]
                            rw [hcode, exec_append, hpre]
                            simp only
                            cases hsrcs : evalAllotSources env a0 ma items (allocate al mn) F.st.bal with
                            | error er =>
                              rw [hsrcs] at hSrc
                              simp only [exec_append, hSrc]
                            | ok r1 =>
                              obtain ⟨ts, b1⟩ := r1
                              rw [hsrcs] at hSrc
                              obtain ⟨hok1, hparts1, hlen1, ks1, hex1⟩ := hSrc
                              have hasm := step_assembleN V m0 [] ks1 b1 ts (by rw [hlen1]; exact hflen)
                              simp only [List.append_nil] at hasm
                              have hnn : ((items.length : Nat) : Int) = (ts.length : Int) := by rw [hlen1]
                              simp only
                              cases has' : assemble ts with
                              | error er =>
                                rw [has'] at hasm
                                simp only [exec_append, hex1, hcf, runEmits, push_upd, hnn, hasm]
                              | ok f =>
                                rw [has'] at hasm
                                have hpf : PartsIn m0.balances.accts f.parts := by
                                  unfold assemble at has'
                                  split at has'
                                  · cases has'
                                  · split at has'
                                    · simp only [Except.ok.injEq] at has'; subst has'
                                      simp only
                                      have : ∀ (acc : Parts), PartsIn m0.balances.accts acc → ∀ (l : List Fund), (∀ f ∈ l, PartsIn m0.balances.accts f.parts) →
                                          PartsIn m0.balances.accts (l.foldl (fun acc f => concat acc f.parts) acc) := by
                                        intro acc hacc l
                                        induction l generalizing acc with
                                        | nil => intro _; exact hacc
                                        | cons g gs ihl =>
                                          intro hl
                                          exact ihl _ (concat_partsIn hacc (hl g (List.mem_cons_self ..))) (fun f hf => hl f (List.mem_cons_of_mem _ hf))
                                      exact this [] (by intro q hq; cases hq) ts hparts1
                                    · cases has'
                                have hD := destination_ok (E := E) cx hp hdst hsub2 hidxT hfd m0 [] ks1 b1 hok1 f hpf
                                rw [hm0p] at hD
                                simp only
                                cases hfin' : finishSend env d f ⟨b1, F.st.postings⟩ with
                                | error er =>
                                  rw [hfin'] at hD
                                  simp only [exec_append, hex1, hcf, runEmits, push_upd, hnn, hasm, hD]
                                | ok st3 =>
                                  rw [hfin'] at hD
                                  obtain ⟨hok3, ks3, hex3⟩ := hD
                                  refine ⟨m0.upd3 [] ks3 st3.bal st3.postings, by simp only [exec_append, hex1, hcf, runEmits, push_upd, hnn, hasm, hex3], ?_⟩
                                  subst hm0
                                  exact ⟨rfl, rfl, rfl, rfl, h5, h6, h7, by rw [hm0a] at hok3; exact hok3⟩
          | src sc =>
            cases amt with
            | mon e =>
              simp only [Stmt.frag0, Bool.and_eq_true] at hf
              obtain ⟨⟨hfe, hfs⟩, hfd⟩ := hf
              simp only [visitSendSource] at hsrc
              split at hsrc
              · cases hsrc
              · rename_i mA c0 stA hm
                split at hsrc
                · cases hsrc
                · rename_i so hso
                  split at hsrc
                  · cases hsrc
                  · rename_i eo heo
                    split at hsrc
                    · cases hsrc
                    · rename_i ct stT hct
                      simp only [Except.ok.injEq, Prod.mk.injEq] at hsrc
                      obtain ⟨rfl, rfl⟩ := hsrc
                      have hsubT : Sub stT R := hsub2.of_ext hed
                      obtain ⟨heA, tA⟩ := visitTyped_ok hm
                      obtain ⟨heS, aS⟩ := visitSource_ok hso
                      have heN := Ext.setNeeded so.st so.needed mA aS (Or.inr (heS.hasTy tA))
                      have heE := visitExpr_ext heo
                      have heT := emitSeq_ext hct
                      have hsubE : Sub eo.st R := hsubT.of_ext heT
                      have hsubN : Sub (setNeeded so.st so.needed mA) R := hsubE.of_ext heE
                      have hsubS : Sub so.st R := hsubN
                      have hsubA : Sub stA R := hsubS.of_ext heS
                      obtain ⟨_, a0, n0, hla, hVm⟩ := monTyped_ok cx hm hsubA hidx hfe
                      have hpa := fun mm => exec_pushAsset_mon (V := V) hVm mm
                      have hS := source_ok (E := E) cx a0 hpa hso hsubS (heA.varIdxOK hidx) hfs
                      have hidxN : VarIdxOK (setNeeded so.st so.needed mA) := (heA.trans (heS.trans heN)).varIdxOK hidx
                      have hX := (expr_ok cx heo hsubE hidxN hfe).1
                      have hidxT : VarIdxOK stT := hes.varIdxOK hidx
                      simp only [evalStmt, evalSend, hla]
                      have hs1 := hS (⟨[], ⟨accts, keys, F.st.bal⟩, F.st.postings, tm, am, pr⟩ : Machine) [] keys F.st.bal hok
                      cases hsrcv : evalSource env a0 sc F.st.bal with
                      | error er =>
                        rw [hsrcv] at hs1
                        have : exec V so.code (⟨[], ⟨accts, keys, F.st.bal⟩, F.st.postings, tm, am, pr⟩ : Machine) = .error er := hs1
                        simp only [exec_append, this]
                      | ok r =>
                        obtain ⟨f, fb, b1⟩ := r
                        rw [hsrcv] at hs1
                        obtain ⟨hfb, hok1, hparts, ks1, hex1⟩ := hs1
                        have hex1' : exec V so.code (⟨[], ⟨accts, keys, F.st.bal⟩, F.st.postings, tm, am, pr⟩ : Machine) = _ := hex1
                        simp only
                        cases hem : evalMon env e with
                        | error er =>
                          simp only [evalMon] at hem
                          cases hee : evalExpr env e with
                          | error er' =>
                            rw [hee] at hX hem
                            simp only [Except.error.injEq] at hem; subst hem
                            simp only [exec_append, hex1', hX]
                          | ok v =>
                            have := typed_val cx hm hsubA hidx hfe hee
                            obtain ⟨a', n', rfl⟩ := ofVal_bty_mon this
                            simp [hee] at hem
                        | ok r =>
                          obtain ⟨ma, mn⟩ := r
                          have hee : evalExpr env e = .ok (.mon ma mn) := by
                            simp only [evalMon] at hem
                            cases hee : evalExpr env e with
                            | error er' => simp [hee] at hem
                            | ok v =>
                              have := typed_val cx hm hsubA hidx hfe hee
                              obtain ⟨a', n', rfl⟩ := ofVal_bty_mon this
                              simp only [hee, Except.ok.injEq, Prod.mk.injEq] at hem
                              obtain ⟨rfl, rfl⟩ := hem; rfl
                          rw [hee] at hX
                          have hT := takeFromSource_ok (E := E) cx hct hsubT (⟨[], ⟨accts, keys, F.st.bal⟩, F.st.postings, tm, am, pr⟩ : Machine)
                            [] ks1 b1 hok1 f hparts fb hfb ma mn
                          simp only
                          cases htk : takeFromSource fb f ma mn b1 with
                          | error er =>
                            rw [htk] at hT
                            simp only [exec_append, hex1', hX.2, push_upd, ofVal_mon, hT]
                          | ok r =>
                            obtain ⟨taken, b2⟩ := r
                            rw [htk] at hT
                            obtain ⟨hok2, hparts2, ks2, hex2⟩ := hT
                            have hD := destination_ok (E := E) cx hp hdst hsub2 hidxT hfd (⟨[], ⟨accts, keys, F.st.bal⟩, F.st.postings, tm, am, pr⟩ : Machine)
                              [] ks2 b2 hok2 taken hparts2
                            simp only
                            cases hfin : finishSend env d taken ⟨b2, F.st.postings⟩ with
                            | error er =>
                              rw [hfin] at hD
                              simp only [exec_append, hex1', hX.2, push_upd, ofVal_mon, hex2, hD]
                            | ok st3 =>
                              rw [hfin] at hD
                              obtain ⟨hok3, ks3, hex3⟩ := hD
                              refine ⟨_, by first | (simp only [exec_append, hex1', hX.2, push_upd, ofVal_mon, hex2, hex3]; done) | (simp only [exec_append, hex1', hX.2, push_upd, ofVal_mon, hex2, hex3]; rfl), ?_⟩
                              exact ⟨rfl, rfl, rfl, rfl, h5, h6, h7, hok3⟩
            | all ae =>
              simp only [Stmt.frag0, Bool.and_eq_true] at hf
              obtain ⟨⟨hfe, hfs⟩, hfd⟩ := hf
              simp only [visitSendSource] at hsrc
              split at hsrc
              · cases hsrc
              · rename_i aA c0 stA hm
                split at hsrc
                · cases hsrc
                · rename_i so hso
                  simp only [Except.ok.injEq, Prod.mk.injEq] at hsrc
                  obtain ⟨rfl, rfl⟩ := hsrc
                  have hsubN : Sub (setNeeded so.st so.needed aA) R := hsub2.of_ext hed
                  have hsubS : Sub so.st R := hsubN
                  obtain ⟨heA, tA⟩ := visitTyped_ok hm
                  obtain ⟨heS, aS⟩ := visitSource_ok hso
                  have hsubA : Sub stA R := hsubS.of_ext heS
                  obtain ⟨a0, ha0, hVa⟩ := assetAddr_ok cx hm hsubA hidx hfe
                  have hpa : ∀ mm, exec V [.apush aA] mm = .ok (mm.push (.asset a0)) := fun mm => exec_apush hVa mm
                  have hS := source_ok (E := E) cx a0 hpa hso hsubS (heA.varIdxOK hidx) hfs
                  have hidxT : VarIdxOK (setNeeded so.st so.needed aA) := hes.varIdxOK hidx
                  simp only [evalStmt, evalSend, ha0]
                  have hs1 := hS (⟨[], ⟨accts, keys, F.st.bal⟩, F.st.postings, tm, am, pr⟩ : Machine) [] keys F.st.bal hok
                  cases hsrcv : evalSource env a0 sc F.st.bal with
                  | error er =>
                    rw [hsrcv] at hs1
                    have : exec V so.code (⟨[], ⟨accts, keys, F.st.bal⟩, F.st.postings, tm, am, pr⟩ : Machine) = .error er := hs1
                    simp only [exec_append, this]
                  | ok r =>
                    obtain ⟨f, fb, b1⟩ := r
                    rw [hsrcv] at hs1
                    obtain ⟨hfb, hok1, hparts, ks1, hex1⟩ := hs1
                    have hex1' : exec V so.code (⟨[], ⟨accts, keys, F.st.bal⟩, F.st.postings, tm, am, pr⟩ : Machine) = _ := hex1
                    have hD := destination_ok (E := E) cx hp hdst hsub2 hidxT hfd (⟨[], ⟨accts, keys, F.st.bal⟩, F.st.postings, tm, am, pr⟩ : Machine)
                      [] ks1 b1 hok1 f hparts
                    simp only
                    cases hfin : finishSend env d f ⟨b1, F.st.postings⟩ with
                    | error er =>
                      rw [hfin] at hD
                      simp only [exec_append, hex1', hD]
                    | ok st3 =>
                      rw [hfin] at hD
                      obtain ⟨hok3, ks3, hex3⟩ := hD
                      refine ⟨_, by first | (simp only [exec_append, hex1', hex3]; done) | (simp only [exec_append, hex1', hex3]; rfl), ?_⟩
                      exact ⟨rfl, rfl, rfl, rfl, h5, h6, h7, hok3⟩

/-- what the code of a statement of the fragment does, in `Spec`'s words -/
theorem stmt_ok {R : List Resource} {V : List BVal} {env : VEnv} (cx : Ctx R V env) (hp : VPos V) {st st' : CState} {s : Stmt} {c : Code}
    (hv : visitStmt st s = .ok (c, st')) (hsub : Sub st' R) (hidx : VarIdxOK st) (hf : s.frag = true)
    {A : List Acct} (hE : EntOK V st'.needed A E) (m : Machine) (F : Full) (hrel : Rel A E m F) :
    match evalStmt env s F with
    | .error er => exec V c m = .error er
    | .ok F' => ∃ m', exec V c m = .ok m' ∧ Rel A E m' F' := by
  have h := stmt_okQ (Q := ExactQ) (fun _ => rfl) cx hp hv hsub hidx hf hE m F hrel.toQ
  cases hev : evalStmt env s F with
  | error er => rw [hev] at h; exact h
  | ok F' =>
    rw [hev] at h
    obtain ⟨m', h1, h2⟩ := h
    exact ⟨m', h1, h2.toRel⟩

theorem EntOK.mono {V : List BVal} {A : List Acct} {st st' : CState} (h : EntOK V st'.needed A E) (he : Ext st st') :
    EntOK V st.needed A E := fun a x hin => h a x (he.mono a x hin)

theorem stmts_ok {R : List Resource} {V : List BVal} {env : VEnv} (cx : Ctx R V env) (hp : VPos V) {st st' : CState} {ss : List Stmt} {c : Code}
    (hv : visitStmts st ss = .ok (c, st')) (hsub : Sub st' R) (hidx : VarIdxOK st) (hf : ∀ s ∈ ss, s.frag = true)
    {A : List Acct} (hE : EntOK V st'.needed A E) (m : Machine) (F : Full) (hrel : Rel A E m F) :
    match evalStmts env ss F with
    | .error er => exec V c m = .error er
    | .ok F' => ∃ m', exec V c m = .ok m' ∧ Rel A E m' F' := by
  induction ss generalizing st c m F with
  | nil =>
    simp only [visitStmts, Except.ok.injEq, Prod.mk.injEq] at hv
    obtain ⟨rfl, rfl⟩ := hv
    exact ⟨m, rfl, hrel⟩
  | cons s rest ih =>
    simp only [visitStmts] at hv
    split at hv
    · cases hv
    · rename_i c1 st1 h1
      split at hv
      · cases hv
      · rename_i c2 st2 h2
        simp only [Except.ok.injEq, Prod.mk.injEq] at hv
        obtain ⟨rfl, rfl⟩ := hv
        have he2 := visitStmts_ext h2
        have he1 := visitStmt_ext h1
        have hs := stmt_ok cx hp h1 (hsub.of_ext he2) hidx (hf s (List.mem_cons_self ..)) (hE.mono he2) m F hrel
        simp only [evalStmts]
        cases hev : evalStmt env s F with
        | error er =>
          rw [hev] at hs
          simp only [exec_append, hs]
        | ok F1 =>
          rw [hev] at hs
          obtain ⟨m1, hx1, hr1⟩ := hs
          have := ih h2 (he1.varIdxOK hidx) (fun s' hs' => hf s' (List.mem_cons_of_mem _ hs')) m1 F1 hr1
          simp only
          cases hev2 : evalStmts env rest F1 with
          | error er =>
            rw [hev2] at this
            simp only [exec_append, hx1, this]
          | ok F2 =>
            rw [hev2] at this
            obtain ⟨m2, hx2, hr2⟩ := this
            exact ⟨m2, by simp only [exec_append, hx1, hx2], hr2⟩

theorem visitStmt_code_ne_nil {st st' : CState} {s : Stmt} {c : Code} (h : visitStmt st s = .ok (c, st')) : c ≠ [] := by
  cases s with
  | send amt src d =>
    simp only [visitStmt] at h
    split at h
    · cases h
    · split at h
      · cases h
      · rename_i c2 st2 h2
        simp only [Except.ok.injEq, Prod.mk.injEq] at h
        obtain ⟨rfl, _⟩ := h
        unfold visitDestination at h2
        split at h2
        · cases h2
        · simp only [Except.ok.injEq, Prod.mk.injEq] at h2
          obtain ⟨rfl, _⟩ := h2
          simp
  | saveMon e acc =>
    simp only [visitStmt] at h
    split at h
    · cases h
    · split at h
      · cases h
      · simp only [Except.ok.injEq, Prod.mk.injEq] at h
        obtain ⟨rfl, _⟩ := h; simp
  | saveAll ae acc =>
    simp only [visitStmt] at h
    split at h
    · cases h
    · split at h
      · cases h
      · simp only [Except.ok.injEq, Prod.mk.injEq] at h
        obtain ⟨rfl, _⟩ := h; simp
  | setTxMeta key v =>
    simp only [visitStmt] at h
    split at h
    · cases h
    · split at h
      · cases h
      · simp only [Except.ok.injEq, Prod.mk.injEq] at h
        obtain ⟨rfl, _⟩ := h; simp
  | setAccountMeta acc key v =>
    simp only [visitStmt] at h
    split at h
    · cases h
    · split at h
      · cases h
      · split at h
        · cases h
        · simp only [Except.ok.injEq, Prod.mk.injEq] at h
          obtain ⟨rfl, _⟩ := h; simp
  | print e =>
    simp only [visitStmt] at h
    split at h
    · cases h
    · simp only [Except.ok.injEq, Prod.mk.injEq] at h
      obtain ⟨rfl, _⟩ := h; simp
  | fail =>
    simp only [visitStmt, Except.ok.injEq, Prod.mk.injEq] at h
    obtain ⟨rfl, _⟩ := h; simp

/-- the program fragment: every statement is in the statement fragment, and there is at least one (the grammar
requires it; `Execute` indexes `Instructions[0]`) -/
def Script.frag (P : Script) : Prop := P.stmts ≠ [] ∧ ∀ s ∈ P.stmts, s.frag = true

/-- **execution of a compiled program of the fragment is what `Spec` says**, from any machine that mirrors
`Spec`'s state, given resolved resources: same error, or a final machine that mirrors `Spec`'s final state
(stack empty: no "stack not empty" panic) -/
theorem execute_correct {P : Script} {prog : Program} (hc : compile P = .ok prog) (hfr : P.frag)
    {V : List BVal} {env : VEnv} (cx : Ctx prog.resources V env) (hp : VPos V) {A : List Acct} (hE : EntOK V prog.needed A E)
    (m : Machine) (F : Full) (hrel : Rel A E m F) :
    match evalStmts env P.stmts F with
    | .error er => VM.execute prog.instrs V m = .error er
    | .ok F' => ∃ m', VM.execute prog.instrs V m = .ok m' ∧ Rel A E m' F' := by
  unfold compile at hc
  split at hc
  · cases hc
  · rename_i st0 h0
    split at hc
    · cases hc
    · rename_i code st h1
      simp only [Except.ok.injEq] at hc; subst hc
      have hidx := visitVars_idxOK h0
      have hne : code ≠ [] := by
        cases hs : P.stmts with
        | nil => exact absurd hs hfr.1
        | cons s rest =>
          rw [hs] at h1
          simp only [visitStmts] at h1
          split at h1
          · cases h1
          · rename_i c1 st1 hh
            split at h1
            · cases h1
            · simp only [Except.ok.injEq, Prod.mk.injEq] at h1
              obtain ⟨rfl, _⟩ := h1
              have := visitStmt_code_ne_nil hh
              intro hcontra
              exact this (List.append_eq_nil_iff.mp hcontra).1
      have hs := stmts_ok cx hp h1 (fun a r hr => hr) hidx hfr.2 hE m F hrel
      cases code with
      | nil => exact absurd rfl hne
      | cons i is =>
        simp only [execute]
        cases hev : evalStmts env P.stmts F with
        | error er =>
          rw [hev] at hs
          simp only [hs]
        | ok F' =>
          rw [hev] at hs
          obtain ⟨m', hx, hr⟩ := hs
          refine ⟨m', ?_, hr⟩
          simp only [hx, hr.stack, List.isEmpty_nil, if_true]

end Num
