import Lemmas.NumStmt2
import Lemmas.Syntax
/-! What the front end (`Syntax.lex`, `Syntax.parse`) produces satisfies the side conditions of
`C08.compile_correct`: at least one statement, no list longer than the text, no portion literal with a zero
denominator.  So for a TEXT shorter than 2^64 characters nothing but "it compiles" is assumed. -/
namespace Num
open Syntax

/-! ### bounded syntax trees -/

mutual
/-- every in-order list of the source has at most `n` entries -/
def Source.bnd (n : Nat) : Source → Bool
  | .acct _ _ => true
  | .maxed _ s => s.bnd n
  | .inorder ss => ss.bnd n && decide (ss.len ≤ n)
def SourceList.bnd (n : Nat) : SourceList → Bool
  | .nil => true
  | .cons s rest => s.bnd n && rest.bnd n
end

mutual
/-- every allotment of the destination has at most `n` shares, and no portion literal with a zero denominator -/
def Dest.bnd (n : Nat) : Dest → Bool
  | .acct _ => true
  | .inorder caps rest => caps.bnd n && rest.bnd n
  | .allot items => items.bnd n && decide (allotLen items ≤ n) && (allotPortions items).all specPos
def KeptOrDest.bnd (n : Nat) : KeptOrDest → Bool
  | .kept => true
  | .to d => d.bnd n
def CapList.bnd (n : Nat) : CapList → Bool
  | .nil => true
  | .cons _ kd rest => kd.bnd n && rest.bnd n
def AllotList.bnd (n : Nat) : AllotList → Bool
  | .nil => true
  | .cons _ kd rest => kd.bnd n && rest.bnd n
end

def VSource.bnd (n : Nat) : VSource → Bool
  | .src s => s.bnd n
  | .allot items => items.all (fun it => it.2.bnd n) && decide (items.length ≤ n) && (items.map (·.1)).all specPos

def Stmt.bnd (n : Nat) : Stmt → Bool
  | .send _ src d => src.bnd n && d.bnd n
  | .setTxMeta _ v => v.litsPos
  | .setAccountMeta _ _ v => v.litsPos
  | .print e => e.litsPos
  | _ => true

mutual
theorem Source.bnd_mono {n m : Nat} (h : n ≤ m) : (s : Source) → s.bnd n = true → s.bnd m = true
  | .acct _ _, _ => rfl
  | .maxed _ s, hs => by simp only [Source.bnd] at hs ⊢; exact Source.bnd_mono h s hs
  | .inorder ss, hs => by
    simp only [Source.bnd, Bool.and_eq_true, decide_eq_true_eq] at hs ⊢
    exact ⟨SourceList.bnd_mono h ss hs.1, by omega⟩
theorem SourceList.bnd_mono {n m : Nat} (h : n ≤ m) : (ss : SourceList) → ss.bnd n = true → ss.bnd m = true
  | .nil, _ => rfl
  | .cons s rest, hs => by
    simp only [SourceList.bnd, Bool.and_eq_true] at hs ⊢
    exact ⟨Source.bnd_mono h s hs.1, SourceList.bnd_mono h rest hs.2⟩
end

mutual
theorem Dest.bnd_mono {n m : Nat} (h : n ≤ m) : (d : Dest) → d.bnd n = true → d.bnd m = true
  | .acct _, _ => rfl
  | .inorder caps rest, hs => by
    simp only [Dest.bnd, Bool.and_eq_true] at hs ⊢
    exact ⟨CapList.bnd_mono h caps hs.1, KeptOrDest.bnd_mono h rest hs.2⟩
  | .allot items, hs => by
    simp only [Dest.bnd, Bool.and_eq_true, decide_eq_true_eq] at hs ⊢
    exact ⟨⟨AllotList.bnd_mono h items hs.1.1, by omega⟩, hs.2⟩
theorem KeptOrDest.bnd_mono {n m : Nat} (h : n ≤ m) : (kd : KeptOrDest) → kd.bnd n = true → kd.bnd m = true
  | .kept, _ => rfl
  | .to d, hs => by simp only [KeptOrDest.bnd] at hs ⊢; exact Dest.bnd_mono h d hs
theorem CapList.bnd_mono {n m : Nat} (h : n ≤ m) : (cs : CapList) → cs.bnd n = true → cs.bnd m = true
  | .nil, _ => rfl
  | .cons _ kd rest, hs => by
    simp only [CapList.bnd, Bool.and_eq_true] at hs ⊢
    exact ⟨KeptOrDest.bnd_mono h kd hs.1, CapList.bnd_mono h rest hs.2⟩
theorem AllotList.bnd_mono {n m : Nat} (h : n ≤ m) : (al : AllotList) → al.bnd n = true → al.bnd m = true
  | .nil, _ => rfl
  | .cons _ kd rest, hs => by
    simp only [AllotList.bnd, Bool.and_eq_true] at hs ⊢
    exact ⟨KeptOrDest.bnd_mono h kd hs.1, AllotList.bnd_mono h rest hs.2⟩
end

theorem VSource.bnd_mono {n m : Nat} (h : n ≤ m) (v : VSource) (hv : v.bnd n = true) : v.bnd m = true := by
  cases v with
  | src s => exact Source.bnd_mono h s hv
  | allot items =>
    simp only [VSource.bnd, Bool.and_eq_true, decide_eq_true_eq, List.all_eq_true] at hv ⊢
    exact ⟨⟨fun it hit => Source.bnd_mono h it.2 (hv.1.1 it hit), by omega⟩, hv.2⟩

theorem Stmt.bnd_mono {n m : Nat} (h : n ≤ m) (s : Stmt) (hs : s.bnd n = true) : s.bnd m = true := by
  cases s with
  | send amt src d =>
    simp only [Stmt.bnd, Bool.and_eq_true] at hs ⊢
    exact ⟨VSource.bnd_mono h src hs.1, Dest.bnd_mono h d hs.2⟩
  | setTxMeta _ _ => exact hs
  | setAccountMeta _ _ _ => exact hs
  | print _ => exact hs
  | saveMon _ _ => rfl
  | saveAll _ _ => rfl
  | fail => rfl

/-! ### bounded ⇒ the side conditions -/

mutual
theorem Source.frag_of_bnd {n : Nat} (hn : n < 18446744073709551616) : (s : Source) → s.bnd n = true → s.frag = true
  | .acct _ _, _ => rfl
  | .maxed _ s, hs => by simp only [Source.bnd] at hs; simp only [Source.frag]; exact Source.frag_of_bnd hn s hs
  | .inorder ss, hs => by
    simp only [Source.bnd, Bool.and_eq_true, decide_eq_true_eq] at hs
    simp only [Source.frag, Bool.and_eq_true, decide_eq_true_eq]
    exact ⟨SourceList.frag_of_bnd hn ss hs.1, by omega⟩
theorem SourceList.frag_of_bnd {n : Nat} (hn : n < 18446744073709551616) : (ss : SourceList) → ss.bnd n = true → ss.frag = true
  | .nil, _ => rfl
  | .cons s rest, hs => by
    simp only [SourceList.bnd, Bool.and_eq_true] at hs
    simp only [SourceList.frag, Bool.and_eq_true]
    exact ⟨Source.frag_of_bnd hn s hs.1, SourceList.frag_of_bnd hn rest hs.2⟩
end

mutual
theorem Dest.frag_of_bnd {n : Nat} (hn : n < 18446744073709551616) : (d : Dest) → d.bnd n = true → d.frag = true
  | .acct _, _ => rfl
  | .inorder caps rest, hs => by
    simp only [Dest.bnd, Bool.and_eq_true] at hs
    simp only [Dest.frag, Bool.and_eq_true]
    exact ⟨CapList.frag_of_bnd hn caps hs.1, KeptOrDest.frag_of_bnd hn rest hs.2⟩
  | .allot items, hs => by
    simp only [Dest.bnd, Bool.and_eq_true, decide_eq_true_eq] at hs
    simp only [Dest.frag, Bool.and_eq_true, decide_eq_true_eq]
    exact ⟨⟨AllotList.frag_of_bnd hn items hs.1.1, by omega⟩, hs.2⟩
theorem KeptOrDest.frag_of_bnd {n : Nat} (hn : n < 18446744073709551616) : (kd : KeptOrDest) → kd.bnd n = true → kd.frag = true
  | .kept, _ => rfl
  | .to d, hs => by simp only [KeptOrDest.bnd] at hs; simp only [KeptOrDest.frag]; exact Dest.frag_of_bnd hn d hs
theorem CapList.frag_of_bnd {n : Nat} (hn : n < 18446744073709551616) : (cs : CapList) → cs.bnd n = true → cs.frag = true
  | .nil, _ => rfl
  | .cons _ kd rest, hs => by
    simp only [CapList.bnd, Bool.and_eq_true] at hs
    simp only [CapList.frag, Bool.and_eq_true]
    exact ⟨KeptOrDest.frag_of_bnd hn kd hs.1, CapList.frag_of_bnd hn rest hs.2⟩
theorem AllotList.frag_of_bnd {n : Nat} (hn : n < 18446744073709551616) : (al : AllotList) → al.bnd n = true → al.frag = true
  | .nil, _ => rfl
  | .cons _ kd rest, hs => by
    simp only [AllotList.bnd, Bool.and_eq_true] at hs
    simp only [AllotList.frag, Bool.and_eq_true]
    exact ⟨KeptOrDest.frag_of_bnd hn kd hs.1, AllotList.frag_of_bnd hn rest hs.2⟩
end

theorem Stmt.frag2_of_bnd {n : Nat} (hn : n < 18446744073709551616) (s : Stmt) (hs : s.bnd n = true) : s.frag2 = true := by
  cases s with
  | send amt src d =>
    simp only [Stmt.bnd, Bool.and_eq_true] at hs
    cases src with
    | src sc =>
      show (Stmt.send amt (.src sc) d).frag = true
      simp only [Stmt.frag, Bool.and_eq_true]
      exact ⟨Source.frag_of_bnd hn sc hs.1, Dest.frag_of_bnd hn d hs.2⟩
    | allot items =>
      obtain ⟨h1, h2⟩ := hs
      simp only [VSource.bnd, Bool.and_eq_true, decide_eq_true_eq, List.all_eq_true] at h1
      show (Stmt.send amt (.allot items) d).frag = true
      simp only [Stmt.frag, Bool.and_eq_true, decide_eq_true_eq, List.all_eq_true]
      exact ⟨⟨⟨fun it hit => Source.frag_of_bnd hn it.2 (h1.1.1 it hit), by omega⟩, h1.2⟩, Dest.frag_of_bnd hn d h2⟩
  | setTxMeta _ _ => exact hs
  | setAccountMeta _ _ _ => exact hs
  | print _ => exact hs
  | saveMon _ _ => rfl
  | saveAll _ _ => rfl
  | fail => rfl

/-! ### the parser consumes tokens and builds bounded trees -/

theorem expect_len {k : Kind} {w : String} {ts ts' : List Token} (h : expect k w ts = .ok ts') : ts'.length + 1 = ts.length := by
  cases ts with
  | nil => simp [expect, err] at h
  | cons t r =>
    simp only [expect] at h
    split at h
    · simp only [Except.ok.injEq] at h; subst h; simp
    · simp [err] at h

theorem expectText_len {k : Kind} {w : String} {ts ts' : List Token} {x : String} (h : expectText k w ts = .ok (x, ts')) :
    ts'.length + 1 = ts.length := by
  cases ts with
  | nil => simp [expectText, err] at h
  | cons t r =>
    simp only [expectText] at h
    split at h
    · simp only [Except.ok.injEq, Prod.mk.injEq] at h; obtain ⟨_, rfl⟩ := h; simp
    · simp [err] at h

theorem portionExpr_litsPos (t : String) : (portionExpr t).litsPos = true := by
  unfold portionExpr
  cases h : parsePortion t with
  | none => rfl
  | some r => simp [Expr.litsPos, parsePortion_pos h]

theorem portionSpec_pos (t : String) : specPos (portionSpec t) = true := by
  unfold portionSpec
  cases h : parsePortion t with
  | none => rfl
  | some r => simp [specPos, parsePortion_pos h]

/-- expressions: the rest is not longer than the input, and portion literals have positive denominators -/
theorem pExpr_ok : ∀ (f : Nat),
    (∀ ts e ts', pExpr f ts = .ok (e, ts') → ts'.length ≤ ts.length ∧ e.litsPos = true) ∧
    (∀ lhs ts e ts', lhs.litsPos = true → pExprTail f lhs ts = .ok (e, ts') → ts'.length ≤ ts.length ∧ e.litsPos = true) ∧
    (∀ ts e ts', pAtom f ts = .ok (e, ts') → ts'.length ≤ ts.length ∧ e.litsPos = true) := by
  intro f
  induction f with
  | zero =>
    refine ⟨?_, ?_, ?_⟩
    · intro ts e ts' h; simp [pExpr, err] at h
    · intro lhs ts e ts' _ h; simp [pExprTail, err] at h
    · intro ts e ts' h; simp [pAtom, err] at h
  | succ f ih =>
    obtain ⟨ihE, ihT, ihA⟩ := ih
    refine ⟨?_, ?_, ?_⟩
    · intro ts e ts' h
      simp only [pExpr] at h
      cases h1 : pAtom f ts with
      | error er => simp [h1] at h
      | ok r =>
        obtain ⟨a, ts1⟩ := r
        simp only [h1] at h
        obtain ⟨l1, p1⟩ := ihA ts a ts1 h1
        obtain ⟨l2, p2⟩ := ihT a ts1 e ts' p1 h
        exact ⟨by omega, p2⟩
    · intro lhs ts e ts' hl h
      simp only [pExprTail] at h
      cases ts with
      | nil => simp only [Except.ok.injEq, Prod.mk.injEq] at h; obtain ⟨rfl, rfl⟩ := h; exact ⟨Nat.le_refl _, hl⟩
      | cons t r =>
        simp only at h
        split at h
        · cases h1 : pAtom f r with
          | error er => simp [h1] at h
          | ok q =>
            obtain ⟨a, ts1⟩ := q
            simp only [h1] at h
            obtain ⟨l1, p1⟩ := ihA r a ts1 h1
            obtain ⟨l2, p2⟩ := ihT (.add lhs a) ts1 e ts' (by simp [Expr.litsPos, hl, p1]) h
            exact ⟨by simp; omega, p2⟩
        · split at h
          · cases h1 : pAtom f r with
            | error er => simp [h1] at h
            | ok q =>
              obtain ⟨a, ts1⟩ := q
              simp only [h1] at h
              obtain ⟨l1, p1⟩ := ihA r a ts1 h1
              obtain ⟨l2, p2⟩ := ihT (.sub lhs a) ts1 e ts' (by simp [Expr.litsPos, hl, p1]) h
              exact ⟨by simp; omega, p2⟩
          · simp only [Except.ok.injEq, Prod.mk.injEq] at h; obtain ⟨rfl, rfl⟩ := h; exact ⟨Nat.le_refl _, hl⟩
    · intro ts e ts' h
      simp only [pAtom] at h
      cases ts with
      | nil => simp [err] at h
      | cons t r =>
        simp only at h
        split at h
        all_goals first
          | (simp only [Except.ok.injEq, Prod.mk.injEq] at h; obtain ⟨rfl, rfl⟩ := h
             first
               | exact ⟨by simp, rfl⟩
               | exact ⟨by simp, portionExpr_litsPos _⟩)
          | (simp [err] at h; done)
          | skip
        -- the monetary literal
        cases h1 : pExpr f r with
        | error er => simp [h1] at h
        | ok q =>
          obtain ⟨ae, ts2⟩ := q
          simp only [h1] at h
          obtain ⟨l1, p1⟩ := ihE r ae ts2 h1
          cases h2 : expectText .number "NUMBER" ts2 with
          | error er => simp [h2] at h
          | ok q2 =>
            obtain ⟨nn, ts3⟩ := q2
            simp only [h2] at h
            have l2 := expectText_len h2
            cases h3 : expect .rbrack "']'" ts3 with
            | error er => simp [h3] at h
            | ok ts4 =>
              simp only [h3, Except.ok.injEq, Prod.mk.injEq] at h
              obtain ⟨rfl, rfl⟩ := h
              have l3 := expect_len h3
              exact ⟨by simp; omega, by simp [Expr.litsPos, p1]⟩

theorem pExpr_len {f : Nat} {ts ts' : List Token} {e : Expr} (h : pExpr f ts = .ok (e, ts')) : ts'.length ≤ ts.length :=
  ((pExpr_ok f).1 ts e ts' h).1
theorem pExpr_pos {f : Nat} {ts ts' : List Token} {e : Expr} (h : pExpr f ts = .ok (e, ts')) : e.litsPos = true :=
  ((pExpr_ok f).1 ts e ts' h).2

theorem pSendAmt_len {f : Nat} {ts ts' : List Token} {a : SendAmt} (h : pSendAmt f ts = .ok (a, ts')) : ts'.length ≤ ts.length := by
  unfold pSendAmt at h
  cases ts with
  | nil => simp [err] at h
  | cons t r =>
    simp only at h
    split at h
    · cases h1 : pExpr f r with
      | error er => simp [h1] at h
      | ok q =>
        obtain ⟨ae, ts2⟩ := q
        simp only [h1] at h
        have l1 := pExpr_len h1
        cases ts2 with
        | nil => simp [err] at h
        | cons t2 ts3 =>
          simp only at h
          split at h
          · cases h3 : expect .rbrack "']'" ts3 with
            | error er => simp [h3] at h
            | ok ts4 =>
              simp only [h3, Except.ok.injEq, Prod.mk.injEq] at h
              obtain ⟨_, rfl⟩ := h
              have l3 := expect_len h3
              simp at l1 ⊢; omega
          · cases h4 : pExpr f (t :: r) with
            | error er => simp [h4] at h
            | ok q4 =>
              obtain ⟨e, r'⟩ := q4
              simp only [h4, Except.ok.injEq, Prod.mk.injEq] at h
              obtain ⟨_, rfl⟩ := h
              exact pExpr_len h4
    · cases h4 : pExpr f (t :: r) with
      | error er => simp [h4] at h
      | ok q4 =>
        obtain ⟨e, r'⟩ := q4
        simp only [h4, Except.ok.injEq, Prod.mk.injEq] at h
        obtain ⟨_, rfl⟩ := h
        exact pExpr_len h4

theorem pPortionSpec_ok {ts ts' : List Token} {p : PortionSpec} (h : pPortionSpec ts = some (p, ts')) :
    ts'.length + 1 = ts.length ∧ specPos p = true := by
  cases ts with
  | nil => simp [pPortionSpec] at h
  | cons t r =>
    simp only [pPortionSpec] at h
    split at h
    all_goals first
      | (simp only [Option.some.injEq, Prod.mk.injEq] at h; obtain ⟨rfl, rfl⟩ := h
         first
           | exact ⟨by simp, portionSpec_pos _⟩
           | exact ⟨by simp, rfl⟩)
      | (cases h)

/-- sources: bounded by the number of tokens read -/
theorem pSource_ok : ∀ (f : Nat),
    (∀ ts s ts', pSource f ts = .ok (s, ts') → ts'.length ≤ ts.length ∧ s.bnd ts.length = true) ∧
    (∀ ts ss ts', pSourceLines f ts = .ok (ss, ts') → ss.len + ts'.length ≤ ts.length ∧ ss.bnd ts.length = true) := by
  intro f
  induction f with
  | zero =>
    exact ⟨by intro ts s ts' h; simp [pSource, err] at h, by intro ts ss ts' h; simp [pSourceLines, err] at h⟩
  | succ f ih =>
    obtain ⟨ihS, ihL⟩ := ih
    refine ⟨?_, ?_⟩
    · intro ts s ts' h
      simp only [pSource] at h
      cases ts with
      | nil => simp [err] at h
      | cons t r =>
        simp only at h
        split at h
        · -- max
          cases h1 : pExpr f r with
          | error er => simp [h1] at h
          | ok q =>
            obtain ⟨cap, ts2⟩ := q
            simp only [h1] at h
            have l1 := pExpr_len h1
            cases h2 : expect .kFrom "'from'" ts2 with
            | error er => simp [h2] at h
            | ok ts3 =>
              simp only [h2] at h
              have l2 := expect_len h2
              cases h3 : pSource f ts3 with
              | error er => simp [h3] at h
              | ok q3 =>
                obtain ⟨s1, ts4⟩ := q3
                simp only [h3, Except.ok.injEq, Prod.mk.injEq] at h
                obtain ⟨rfl, rfl⟩ := h
                obtain ⟨l3, b3⟩ := ihS ts3 s1 ts4 h3
                refine ⟨by simp; omega, ?_⟩
                simp only [Source.bnd]
                exact Source.bnd_mono (by simp; omega) s1 b3
        · split at h
          · -- in-order block
            cases h1 : expect .newline "NEWLINE" r with
            | error er => simp [h1] at h
            | ok ts2 =>
              simp only [h1] at h
              have l1 := expect_len h1
              cases h2 : pSourceLines f ts2 with
              | error er => simp [h2] at h
              | ok q2 =>
                obtain ⟨ss, ts3⟩ := q2
                simp only [h2, Except.ok.injEq, Prod.mk.injEq] at h
                obtain ⟨rfl, rfl⟩ := h
                obtain ⟨l2, b2⟩ := ihL ts2 ss ts3 h2
                refine ⟨by simp; omega, ?_⟩
                simp only [Source.bnd, Bool.and_eq_true, decide_eq_true_eq]
                exact ⟨SourceList.bnd_mono (by simp; omega) ss b2, by simp; omega⟩
          · -- account
            cases h1 : pExpr f (t :: r) with
            | error er => simp [h1] at h
            | ok q =>
              obtain ⟨acc, ts2⟩ := q
              simp only [h1] at h
              have l1 := pExpr_len h1
              cases ts2 with
              | nil =>
                simp only [Except.ok.injEq, Prod.mk.injEq] at h
                obtain ⟨rfl, rfl⟩ := h
                exact ⟨l1, rfl⟩
              | cons t2 ts3 =>
                simp only at h
                split at h
                · simp only [Except.ok.injEq, Prod.mk.injEq] at h
                  obtain ⟨rfl, rfl⟩ := h
                  exact ⟨by simp at l1 ⊢; omega, rfl⟩
                · split at h
                  · cases h4 : pExpr f ts3 with
                    | error er => simp [h4] at h
                    | ok q4 =>
                      obtain ⟨x, ts4⟩ := q4
                      simp only [h4, Except.ok.injEq, Prod.mk.injEq] at h
                      obtain ⟨rfl, rfl⟩ := h
                      have l4 := pExpr_len h4
                      exact ⟨by simp at l1 ⊢; omega, rfl⟩
                  · simp only [Except.ok.injEq, Prod.mk.injEq] at h
                    obtain ⟨rfl, rfl⟩ := h
                    exact ⟨l1, rfl⟩
    · intro ts ss ts' h
      simp only [pSourceLines] at h
      cases h1 : pSource f ts with
      | error er => simp [h1] at h
      | ok q =>
        obtain ⟨s1, ts2⟩ := q
        simp only [h1] at h
        obtain ⟨l1, b1⟩ := ihS ts s1 ts2 h1
        cases h2 : expect .newline "NEWLINE" ts2 with
        | error er => simp [h2] at h
        | ok ts3 =>
          simp only [h2] at h
          have l2 := expect_len h2
          cases ts3 with
          | nil => simp [err] at h
          | cons t ts4 =>
            simp only at h
            split at h
            · simp only [Except.ok.injEq, Prod.mk.injEq] at h
              obtain ⟨rfl, rfl⟩ := h
              refine ⟨by simp [SourceList.len] at l2 ⊢; omega, ?_⟩
              simp only [SourceList.bnd, b1, Bool.and_self]
            · cases h3 : pSourceLines f (t :: ts4) with
              | error er => simp [h3] at h
              | ok q3 =>
                obtain ⟨rest, ts5⟩ := q3
                simp only [h3, Except.ok.injEq, Prod.mk.injEq] at h
                obtain ⟨rfl, rfl⟩ := h
                obtain ⟨l3, b3⟩ := ihL (t :: ts4) rest ts5 h3
                refine ⟨by simp [SourceList.len] at l2 l3 ⊢; omega, ?_⟩
                simp only [SourceList.bnd, b1, Bool.true_and]
                exact SourceList.bnd_mono (by simp at l2 ⊢; omega) rest b3

theorem pAllotSourceLines_ok : ∀ (f : Nat) ts items ts', pAllotSourceLines f ts = .ok (items, ts') →
    items.length + ts'.length ≤ ts.length ∧ (∀ it ∈ items, it.2.bnd ts.length = true) ∧ (∀ it ∈ items, specPos it.1 = true) := by
  intro f
  induction f with
  | zero => intro ts items ts' h; simp [pAllotSourceLines, err] at h
  | succ f ih =>
    intro ts items ts' h
    simp only [pAllotSourceLines] at h
    cases h0 : pPortionSpec ts with
    | none => simp [h0, err] at h
    | some q0 =>
      obtain ⟨p, ts1⟩ := q0
      simp only [h0] at h
      obtain ⟨l0, p0⟩ := pPortionSpec_ok h0
      cases h1 : expect .kFrom "'from'" ts1 with
      | error er => simp [h1] at h
      | ok ts2 =>
        simp only [h1] at h
        have l1 := expect_len h1
        cases h2 : pSource f ts2 with
        | error er => simp [h2] at h
        | ok q2 =>
          obtain ⟨s, ts3⟩ := q2
          simp only [h2] at h
          obtain ⟨l2, b2⟩ := (pSource_ok f).1 ts2 s ts3 h2
          have b2' : s.bnd ts.length = true := Source.bnd_mono (by omega) s b2
          cases h3 : expect .newline "NEWLINE" ts3 with
          | error er => simp [h3] at h
          | ok ts4 =>
            simp only [h3] at h
            have l3 := expect_len h3
            cases ts4 with
            | nil => simp [err] at h
            | cons t ts5 =>
              simp only at h
              split at h
              · simp only [Except.ok.injEq, Prod.mk.injEq] at h
                obtain ⟨rfl, rfl⟩ := h
                refine ⟨by simp at l3 ⊢; omega, ?_, ?_⟩
                · intro it hit; simp only [List.mem_singleton] at hit; subst hit; exact b2'
                · intro it hit; simp only [List.mem_singleton] at hit; subst hit; exact p0
              · cases h4 : pAllotSourceLines f (t :: ts5) with
                | error er => simp [h4] at h
                | ok q4 =>
                  obtain ⟨rest, ts6⟩ := q4
                  simp only [h4, Except.ok.injEq, Prod.mk.injEq] at h
                  obtain ⟨rfl, rfl⟩ := h
                  obtain ⟨l4, b4, p4⟩ := ih (t :: ts5) rest ts6 h4
                  refine ⟨by simp at l3 l4 ⊢; omega, ?_, ?_⟩
                  · intro it hit
                    rcases List.mem_cons.mp hit with rfl | hit
                    · exact b2'
                    · exact Source.bnd_mono (by simp at l3 ⊢; omega) it.2 (b4 it hit)
                  · intro it hit
                    rcases List.mem_cons.mp hit with rfl | hit
                    · exact p0
                    · exact p4 it hit

theorem pVSource_cases (f : Nat) (ts : List Token) :
    pVSource f ts = (match pAllotSourceLines f (ts.drop 2) with
      | .error e => .error e
      | .ok (items, r) => .ok (.allot items, r)) ∨
    pVSource f ts = (match pSource f ts with
      | .error e => .error e
      | .ok (s, r) => .ok (.src s, r)) := by
  unfold pVSource
  simp only
  exact ite_eq_or_eq _ _ _

theorem pVSource_ok {f : Nat} {ts ts' : List Token} {v : VSource} (h : pVSource f ts = .ok (v, ts')) :
    ts'.length ≤ ts.length ∧ v.bnd ts.length = true := by
  rcases pVSource_cases f ts with hc | hc
  · rw [hc] at h
    cases h1 : pAllotSourceLines f (ts.drop 2) with
    | error er => simp [h1] at h
    | ok q =>
      obtain ⟨items, r⟩ := q
      simp only [h1, Except.ok.injEq, Prod.mk.injEq] at h
      obtain ⟨rfl, rfl⟩ := h
      obtain ⟨l1, b1, p1⟩ := pAllotSourceLines_ok f _ _ _ h1
      have hd : (ts.drop 2).length ≤ ts.length := by simp
      refine ⟨by omega, ?_⟩
      simp only [VSource.bnd, Bool.and_eq_true, decide_eq_true_eq, List.all_eq_true]
      refine ⟨⟨fun it hit => Source.bnd_mono hd it.2 (b1 it hit), by omega⟩, ?_⟩
      intro q hq
      obtain ⟨it, hit, rfl⟩ := List.mem_map.mp hq
      exact p1 it hit
  · rw [hc] at h
    cases h1 : pSource f ts with
    | error er => simp [h1] at h
    | ok q =>
      obtain ⟨s, r⟩ := q
      simp only [h1, Except.ok.injEq, Prod.mk.injEq] at h
      obtain ⟨rfl, rfl⟩ := h
      exact (pSource_ok f).1 ts s r h1

/-- destinations: bounded by the number of tokens read -/
theorem pDest_ok : ∀ (f : Nat),
    (∀ ts d ts', pDest f ts = .ok (d, ts') → ts'.length ≤ ts.length ∧ d.bnd ts.length = true) ∧
    (∀ ts kd ts', pKD f ts = .ok (kd, ts') → ts'.length ≤ ts.length ∧ kd.bnd ts.length = true) ∧
    (∀ ts caps rest ts', pCapLines f ts = .ok ((caps, rest), ts') → ts'.length ≤ ts.length ∧ caps.bnd ts.length = true ∧ rest.bnd ts.length = true) ∧
    (∀ ts items ts', pAllotLines f ts = .ok (items, ts') → allotLen items + ts'.length ≤ ts.length ∧ items.bnd ts.length = true ∧
        (allotPortions items).all specPos = true) := by
  intro f
  induction f with
  | zero =>
    refine ⟨?_, ?_, ?_, ?_⟩
    · intro ts d ts' h; simp [pDest, err] at h
    · intro ts d ts' h; simp [pKD, err] at h
    · intro ts c r ts' h; simp [pCapLines, err] at h
    · intro ts d ts' h; simp [pAllotLines, err] at h
  | succ f ih =>
    obtain ⟨ihD, ihK, ihC, ihA⟩ := ih
    refine ⟨?_, ?_, ?_, ?_⟩
    · intro ts d ts' h
      simp only [pDest] at h
      cases ts with
      | nil => simp [err] at h
      | cons t r =>
        simp only at h
        split at h
        · cases h1 : expect .newline "NEWLINE" r with
          | error er => simp [h1] at h
          | ok ts2 =>
            simp only [h1] at h
            have l1 := expect_len h1
            cases ts2 with
            | nil => simp [err] at h
            | cons t2 ts3 =>
              simp only at h
              split at h
              · cases h2 : pCapLines f (t2 :: ts3) with
                | error er => simp [h2] at h
                | ok q =>
                  obtain ⟨⟨caps, rest⟩, ts4⟩ := q
                  simp only [h2, Except.ok.injEq, Prod.mk.injEq] at h
                  obtain ⟨rfl, rfl⟩ := h
                  obtain ⟨l2, b2, b3⟩ := ihC _ caps rest ts4 h2
                  refine ⟨by simp at l1 l2 ⊢; omega, ?_⟩
                  simp only [Dest.bnd, Bool.and_eq_true]
                  exact ⟨CapList.bnd_mono (by simp at l1 ⊢; omega) caps b2, KeptOrDest.bnd_mono (by simp at l1 ⊢; omega) rest b3⟩
              · cases h2 : pAllotLines f (t2 :: ts3) with
                | error er => simp [h2] at h
                | ok q =>
                  obtain ⟨items, ts4⟩ := q
                  simp only [h2, Except.ok.injEq, Prod.mk.injEq] at h
                  obtain ⟨rfl, rfl⟩ := h
                  obtain ⟨l2, b2, p2⟩ := ihA _ items ts4 h2
                  refine ⟨by simp at l1 l2 ⊢; omega, ?_⟩
                  simp only [Dest.bnd, Bool.and_eq_true, decide_eq_true_eq]
                  exact ⟨⟨AllotList.bnd_mono (by simp at l1 ⊢; omega) items b2, by simp at l1 l2 ⊢; omega⟩, p2⟩
        · cases h1 : pExpr f (t :: r) with
          | error er => simp [h1] at h
          | ok q =>
            obtain ⟨e, r'⟩ := q
            simp only [h1, Except.ok.injEq, Prod.mk.injEq] at h
            obtain ⟨rfl, rfl⟩ := h
            exact ⟨pExpr_len h1, rfl⟩
    · intro ts kd ts' h
      simp only [pKD] at h
      cases ts with
      | nil => simp [err] at h
      | cons t r =>
        simp only at h
        split at h
        · simp only [Except.ok.injEq, Prod.mk.injEq] at h
          obtain ⟨rfl, rfl⟩ := h
          exact ⟨by simp, rfl⟩
        · split at h
          · cases h1 : pDest f r with
            | error er => simp [h1] at h
            | ok q =>
              obtain ⟨d, r'⟩ := q
              simp only [h1, Except.ok.injEq, Prod.mk.injEq] at h
              obtain ⟨rfl, rfl⟩ := h
              obtain ⟨l1, b1⟩ := ihD r d r' h1
              refine ⟨by simp; omega, ?_⟩
              simp only [KeptOrDest.bnd]
              exact Dest.bnd_mono (by simp) d b1
          · simp [err] at h
    · intro ts caps rest ts' h
      simp only [pCapLines] at h
      cases h0 : expect .kMax "'max'" ts with
      | error er => simp [h0] at h
      | ok ts1 =>
        simp only [h0] at h
        have l0 := expect_len h0
        cases h1 : pExpr f ts1 with
        | error er => simp [h1] at h
        | ok q1 =>
          obtain ⟨cap, ts2⟩ := q1
          simp only [h1] at h
          have l1 := pExpr_len h1
          cases h2 : pKD f ts2 with
          | error er => simp [h2] at h
          | ok q2 =>
            obtain ⟨kd, ts3⟩ := q2
            simp only [h2] at h
            obtain ⟨l2, b2⟩ := ihK ts2 kd ts3 h2
            have b2' : kd.bnd ts.length = true := KeptOrDest.bnd_mono (by omega) kd b2
            cases h3 : expect .newline "NEWLINE" ts3 with
            | error er => simp [h3] at h
            | ok ts4 =>
              simp only [h3] at h
              have l3 := expect_len h3
              cases ts4 with
              | nil => simp [err] at h
              | cons t ts5 =>
                simp only at h
                split at h
                · cases h4 : pKD f ts5 with
                  | error er => simp [h4] at h
                  | ok q4 =>
                    obtain ⟨rest', ts6⟩ := q4
                    simp only [h4] at h
                    obtain ⟨l4, b4⟩ := ihK ts5 rest' ts6 h4
                    cases h5 : expect .newline "NEWLINE" ts6 with
                    | error er => simp [h5] at h
                    | ok ts7 =>
                      simp only [h5] at h
                      have l5 := expect_len h5
                      cases h6 : expect .rbrace "'}'" ts7 with
                      | error er => simp [h6] at h
                      | ok ts8 =>
                        simp only [h6, Except.ok.injEq, Prod.mk.injEq] at h
                        obtain ⟨⟨rfl, rfl⟩, rfl⟩ := h
                        have l6 := expect_len h6
                        refine ⟨by simp at l3 ⊢; omega, ?_, KeptOrDest.bnd_mono (by simp at l3 ⊢; omega) rest' b4⟩
                        simp only [CapList.bnd, b2', Bool.and_self]
                · cases h4 : pCapLines f (t :: ts5) with
                  | error er => simp [h4] at h
                  | ok q4 =>
                    obtain ⟨⟨caps', rest'⟩, ts6⟩ := q4
                    simp only [h4, Except.ok.injEq, Prod.mk.injEq] at h
                    obtain ⟨⟨rfl, rfl⟩, rfl⟩ := h
                    obtain ⟨l4, b4, b5⟩ := ihC _ caps' rest' ts6 h4
                    refine ⟨by simp at l3 l4 ⊢; omega, ?_, KeptOrDest.bnd_mono (by simp at l3 ⊢; omega) rest' b5⟩
                    simp only [CapList.bnd, b2', Bool.true_and]
                    exact CapList.bnd_mono (by simp at l3 ⊢; omega) caps' b4
    · intro ts items ts' h
      simp only [pAllotLines] at h
      cases h0 : pPortionSpec ts with
      | none => simp [h0, err] at h
      | some q0 =>
        obtain ⟨p, ts1⟩ := q0
        simp only [h0] at h
        obtain ⟨l0, p0⟩ := pPortionSpec_ok h0
        cases h1 : pKD f ts1 with
        | error er => simp [h1] at h
        | ok q1 =>
          obtain ⟨kd, ts2⟩ := q1
          simp only [h1] at h
          obtain ⟨l1, b1⟩ := ihK ts1 kd ts2 h1
          have b1' : kd.bnd ts.length = true := KeptOrDest.bnd_mono (by omega) kd b1
          cases h2 : expect .newline "NEWLINE" ts2 with
          | error er => simp [h2] at h
          | ok ts3 =>
            simp only [h2] at h
            have l2 := expect_len h2
            cases ts3 with
            | nil => simp [err] at h
            | cons t ts4 =>
              simp only at h
              split at h
              · simp only [Except.ok.injEq, Prod.mk.injEq] at h
                obtain ⟨rfl, rfl⟩ := h
                refine ⟨by simp [allotLen] at l2 ⊢; omega, ?_, ?_⟩
                · simp only [AllotList.bnd, b1', Bool.and_self]
                · simp only [allotPortions, List.all_cons, p0, List.all_nil, Bool.and_self]
              · cases h3 : pAllotLines f (t :: ts4) with
                | error er => simp [h3] at h
                | ok q3 =>
                  obtain ⟨rest, ts5⟩ := q3
                  simp only [h3, Except.ok.injEq, Prod.mk.injEq] at h
                  obtain ⟨rfl, rfl⟩ := h
                  obtain ⟨l3, b3, p3⟩ := ihA _ rest ts5 h3
                  refine ⟨by simp [allotLen] at l2 l3 ⊢; omega, ?_, ?_⟩
                  · simp only [AllotList.bnd, b1', Bool.true_and]
                    exact AllotList.bnd_mono (by simp at l2 ⊢; omega) rest b3
                  · simp only [allotPortions, List.all_cons, p0, p3, Bool.and_self]

theorem pSrcClause_ok {f : Nat} {ts ts' : List Token} {v : VSource} (h : pSrcClause f ts = .ok (v, ts')) :
    ts'.length ≤ ts.length ∧ v.bnd ts.length = true := by
  unfold pSrcClause at h
  cases h0 : expect .kSource "'source'" ts with
  | error er => simp [h0] at h
  | ok ts1 =>
    simp only [h0] at h
    have l0 := expect_len h0
    cases h1 : expect .eq "'='" ts1 with
    | error er => simp [h1] at h
    | ok ts2 =>
      simp only [h1] at h
      have l1 := expect_len h1
      obtain ⟨l2, b2⟩ := pVSource_ok h
      exact ⟨by omega, VSource.bnd_mono (by omega) v b2⟩

theorem pDstClause_ok {f : Nat} {ts ts' : List Token} {d : Dest} (h : pDstClause f ts = .ok (d, ts')) :
    ts'.length ≤ ts.length ∧ d.bnd ts.length = true := by
  unfold pDstClause at h
  cases h0 : expect .kDestination "'destination'" ts with
  | error er => simp [h0] at h
  | ok ts1 =>
    simp only [h0] at h
    have l0 := expect_len h0
    cases h1 : expect .eq "'='" ts1 with
    | error er => simp [h1] at h
    | ok ts2 =>
      simp only [h1] at h
      have l1 := expect_len h1
      obtain ⟨l2, b2⟩ := (pDest_ok f).1 ts2 d ts' h
      exact ⟨by omega, Dest.bnd_mono (by omega) d b2⟩

theorem dst_then_src {f : Nat} {ts3 ts6 : List Token} {s : VSource} {d : Dest}
    (h : (match pDstClause f ts3 with
      | .error e => .error e
      | .ok (d, ts4) =>
        match expect .newline "NEWLINE" ts4 with
        | .error e => .error e
        | .ok ts5 =>
          match pSrcClause f ts5 with
          | .error e => .error e
          | .ok (s, r) => .ok ((s, d), r) : P (VSource × Dest)) = .ok ((s, d), ts6)) :
    ts6.length ≤ ts3.length ∧ s.bnd ts3.length = true ∧ d.bnd ts3.length = true := by
  cases h1 : pDstClause f ts3 with
  | error er => simp [h1] at h
  | ok q1 =>
    obtain ⟨d1, ts4⟩ := q1
    simp only [h1] at h
    obtain ⟨l1, b1⟩ := pDstClause_ok h1
    cases h2 : expect .newline "NEWLINE" ts4 with
    | error er => simp [h2] at h
    | ok ts5 =>
      simp only [h2] at h
      have l2 := expect_len h2
      cases h3 : pSrcClause f ts5 with
      | error er => simp [h3] at h
      | ok q3 =>
        obtain ⟨s1, r⟩ := q3
        simp only [h3, Except.ok.injEq, Prod.mk.injEq] at h
        obtain ⟨⟨rfl, rfl⟩, rfl⟩ := h
        obtain ⟨l3, b3⟩ := pSrcClause_ok h3
        exact ⟨by omega, VSource.bnd_mono (by omega) _ b3, b1⟩

theorem src_then_dst {f : Nat} {ts3 ts6 : List Token} {s : VSource} {d : Dest}
    (h : (match pSrcClause f ts3 with
      | .error e => .error e
      | .ok (s, ts4) =>
        match expect .newline "NEWLINE" ts4 with
        | .error e => .error e
        | .ok ts5 =>
          match pDstClause f ts5 with
          | .error e => .error e
          | .ok (d, r) => .ok ((s, d), r) : P (VSource × Dest)) = .ok ((s, d), ts6)) :
    ts6.length ≤ ts3.length ∧ s.bnd ts3.length = true ∧ d.bnd ts3.length = true := by
  cases h1 : pSrcClause f ts3 with
  | error er => simp [h1] at h
  | ok q1 =>
    obtain ⟨s1, ts4⟩ := q1
    simp only [h1] at h
    obtain ⟨l1, b1⟩ := pSrcClause_ok h1
    cases h2 : expect .newline "NEWLINE" ts4 with
    | error er => simp [h2] at h
    | ok ts5 =>
      simp only [h2] at h
      have l2 := expect_len h2
      cases h3 : pDstClause f ts5 with
      | error er => simp [h3] at h
      | ok q3 =>
        obtain ⟨d1, r⟩ := q3
        simp only [h3, Except.ok.injEq, Prod.mk.injEq] at h
        obtain ⟨⟨rfl, rfl⟩, rfl⟩ := h
        obtain ⟨l3, b3⟩ := pDstClause_ok h3
        exact ⟨by omega, b1, Dest.bnd_mono (by omega) _ b3⟩

theorem pStmt_ok {f : Nat} {ts ts' : List Token} {s : Stmt} (h : pStmt f ts = .ok (s, ts')) :
    ts'.length ≤ ts.length ∧ s.bnd ts.length = true := by
  unfold pStmt at h
  cases ts with
  | nil => simp [err] at h
  | cons t r =>
    simp only at h
    split at h
    · -- fail
      simp only [Except.ok.injEq, Prod.mk.injEq] at h
      obtain ⟨rfl, rfl⟩ := h
      exact ⟨by simp, rfl⟩
    · -- print
      cases h1 : pExpr f r with
      | error er => simp [h1] at h
      | ok q =>
        obtain ⟨e, r'⟩ := q
        simp only [h1, Except.ok.injEq, Prod.mk.injEq] at h
        obtain ⟨rfl, rfl⟩ := h
        exact ⟨by have := pExpr_len h1; simp; omega, pExpr_pos h1⟩
    · -- save
      cases h1 : pSendAmt f r with
      | error er => simp [h1] at h
      | ok q =>
        obtain ⟨amt, ts2⟩ := q
        simp only [h1] at h
        have l1 := pSendAmt_len h1
        cases h2 : expect .kFrom "'from'" ts2 with
        | error er => simp [h2] at h
        | ok ts3 =>
          simp only [h2] at h
          have l2 := expect_len h2
          cases h3 : pExpr f ts3 with
          | error er => simp [h3] at h
          | ok q3 =>
            obtain ⟨acc, r'⟩ := q3
            simp only [h3] at h
            have l3 := pExpr_len h3
            cases amt with
            | mon e =>
              simp only [Except.ok.injEq, Prod.mk.injEq] at h
              obtain ⟨rfl, rfl⟩ := h
              exact ⟨by simp; omega, rfl⟩
            | all ae =>
              simp only [Except.ok.injEq, Prod.mk.injEq] at h
              obtain ⟨rfl, rfl⟩ := h
              exact ⟨by simp; omega, rfl⟩
    · -- set_tx_meta
      cases h1 : expect .lparen "'('" r with
      | error er => simp [h1] at h
      | ok ts1 =>
        simp only [h1] at h
        have l1 := expect_len h1
        cases h2 : expectText .string "STRING" ts1 with
        | error er => simp [h2] at h
        | ok q2 =>
          obtain ⟨key, ts2⟩ := q2
          simp only [h2] at h
          have l2 := expectText_len h2
          cases h3 : expect .comma "','" ts2 with
          | error er => simp [h3] at h
          | ok ts3 =>
            simp only [h3] at h
            have l3 := expect_len h3
            cases h4 : pExpr f ts3 with
            | error er => simp [h4] at h
            | ok q4 =>
              obtain ⟨v, ts4⟩ := q4
              simp only [h4] at h
              have l4 := pExpr_len h4
              cases h5 : expect .rparen "')'" ts4 with
              | error er => simp [h5] at h
              | ok r' =>
                simp only [h5, Except.ok.injEq, Prod.mk.injEq] at h
                obtain ⟨rfl, rfl⟩ := h
                have l5 := expect_len h5
                exact ⟨by simp; omega, pExpr_pos h4⟩
    · -- set_account_meta
      cases h1 : expect .lparen "'('" r with
      | error er => simp [h1] at h
      | ok ts1 =>
        simp only [h1] at h
        have l1 := expect_len h1
        cases h2 : pExpr f ts1 with
        | error er => simp [h2] at h
        | ok q2 =>
          obtain ⟨acc, ts2⟩ := q2
          simp only [h2] at h
          have l2 := pExpr_len h2
          cases h3 : expect .comma "','" ts2 with
          | error er => simp [h3] at h
          | ok ts3 =>
            simp only [h3] at h
            have l3 := expect_len h3
            cases h4 : expectText .string "STRING" ts3 with
            | error er => simp [h4] at h
            | ok q4 =>
              obtain ⟨key, ts4⟩ := q4
              simp only [h4] at h
              have l4 := expectText_len h4
              cases h5 : expect .comma "','" ts4 with
              | error er => simp [h5] at h
              | ok ts5 =>
                simp only [h5] at h
                have l5 := expect_len h5
                cases h6 : pExpr f ts5 with
                | error er => simp [h6] at h
                | ok q6 =>
                  obtain ⟨v, ts6⟩ := q6
                  simp only [h6] at h
                  have l6 := pExpr_len h6
                  cases h7 : expect .rparen "')'" ts6 with
                  | error er => simp [h7] at h
                  | ok r' =>
                    simp only [h7, Except.ok.injEq, Prod.mk.injEq] at h
                    obtain ⟨rfl, rfl⟩ := h
                    have l7 := expect_len h7
                    exact ⟨by simp; omega, pExpr_pos h6⟩
    · -- send
      cases h1 : pSendAmt f r with
      | error er => simp [h1] at h
      | ok q =>
        obtain ⟨amt, ts1⟩ := q
        simp only [h1] at h
        have l1 := pSendAmt_len h1
        cases h2 : expect .lparen "'('" ts1 with
        | error er => simp [h2] at h
        | ok ts2 =>
          simp only [h2] at h
          have l2 := expect_len h2
          cases h3 : expect .newline "NEWLINE" ts2 with
          | error er => simp [h3] at h
          | ok ts3 =>
            simp only [h3] at h
            have l3 := expect_len h3
            -- the two clauses, in either order
            have body : ∀ (b : P (VSource × Dest)),
                (b = (match pDstClause f ts3 with
                  | .error e => .error e
                  | .ok (d, ts4) =>
                    match expect .newline "NEWLINE" ts4 with
                    | .error e => .error e
                    | .ok ts5 =>
                      match pSrcClause f ts5 with
                      | .error e => .error e
                      | .ok (s, r) => .ok ((s, d), r) : P (VSource × Dest)) ∨
                 b = (match pSrcClause f ts3 with
                  | .error e => .error e
                  | .ok (s, ts4) =>
                    match expect .newline "NEWLINE" ts4 with
                    | .error e => .error e
                    | .ok ts5 =>
                      match pDstClause f ts5 with
                      | .error e => .error e
                      | .ok (d, r) => .ok ((s, d), r) : P (VSource × Dest))) →
                (match b with
                  | .error e => .error e
                  | .ok ((s, d), ts6) =>
                    match expect .newline "NEWLINE" ts6 with
                    | .error e => .error e
                    | .ok ts7 =>
                      match expect .rparen "')'" ts7 with
                      | .error e => .error e
                      | .ok r => .ok (Stmt.send amt s d, r) : P Stmt) = .ok (s, ts') →
                ts'.length ≤ ts3.length ∧ s.bnd ts3.length = true := by
              intro b hb hres
              cases hbb : b with
              | error er => simp [hbb] at hres
              | ok q5 =>
                obtain ⟨⟨s5, d5⟩, ts6⟩ := q5
                simp only [hbb] at hres
                have hcl : ts6.length ≤ ts3.length ∧ s5.bnd ts3.length = true ∧ d5.bnd ts3.length = true := by
                  rcases hb with hb | hb
                  · exact dst_then_src (hb ▸ hbb)
                  · exact src_then_dst (hb ▸ hbb)
                cases h6 : expect .newline "NEWLINE" ts6 with
                | error er => simp [h6] at hres
                | ok ts7 =>
                  simp only [h6] at hres
                  have l6 := expect_len h6
                  cases h7 : expect .rparen "')'" ts7 with
                  | error er => simp [h7] at hres
                  | ok r' =>
                    simp only [h7, Except.ok.injEq, Prod.mk.injEq] at hres
                    obtain ⟨rfl, rfl⟩ := hres
                    have l7 := expect_len h7
                    refine ⟨by omega, ?_⟩
                    simp only [Stmt.bnd, hcl.2.1, hcl.2.2, Bool.and_self]
            obtain ⟨l4, b4⟩ := body _ (ite_eq_or_eq _ _ _) h
            exact ⟨by simp; omega, Stmt.bnd_mono (by simp; omega) s b4⟩
    · simp [err] at h

/-! ### declarations, statements, script -/

theorem skipNewlines_len (ts : List Token) : (skipNewlines ts).length ≤ ts.length := by
  induction ts with
  | nil => simp [skipNewlines]
  | cons t r ih =>
    simp only [skipNewlines]
    split
    · simp; omega
    · simp

theorem pType_len {ts ts' : List Token} {ty : Ty} (h : pType ts = .ok (ty, ts')) : ts'.length ≤ ts.length := by
  cases ts with
  | nil => simp [pType, err] at h
  | cons t r =>
    simp only [pType] at h
    split at h
    all_goals first
      | (simp only [Except.ok.injEq, Prod.mk.injEq] at h; obtain ⟨_, rfl⟩ := h; simp)
      | (simp [err] at h)

theorem pOrigin_len {f : Nat} {ts ts' : List Token} {o : Origin} (h : pOrigin f ts = .ok (o, ts')) : ts'.length ≤ ts.length := by
  unfold pOrigin at h
  cases ts with
  | nil => simp [err] at h
  | cons t r =>
    simp only at h
    split at h
    · cases h1 : expect .lparen "'('" r with
      | error er => simp [h1] at h
      | ok ts1 =>
        simp only [h1] at h
        have l1 := expect_len h1
        cases h2 : pExpr f ts1 with
        | error er => simp [h2] at h
        | ok q2 =>
          obtain ⟨acc, ts2⟩ := q2
          simp only [h2] at h
          have l2 := pExpr_len h2
          cases h3 : expect .comma "','" ts2 with
          | error er => simp [h3] at h
          | ok ts3 =>
            simp only [h3] at h
            have l3 := expect_len h3
            cases h4 : expectText .string "STRING" ts3 with
            | error er => simp [h4] at h
            | ok q4 =>
              obtain ⟨key, ts4⟩ := q4
              simp only [h4] at h
              have l4 := expectText_len h4
              cases h5 : expect .rparen "')'" ts4 with
              | error er => simp [h5] at h
              | ok r' =>
                simp only [h5, Except.ok.injEq, Prod.mk.injEq] at h
                obtain ⟨_, rfl⟩ := h
                have l5 := expect_len h5
                simp; omega
    · split at h
      · cases h1 : expect .lparen "'('" r with
        | error er => simp [h1] at h
        | ok ts1 =>
          simp only [h1] at h
          have l1 := expect_len h1
          cases h2 : pExpr f ts1 with
          | error er => simp [h2] at h
          | ok q2 =>
            obtain ⟨acc, ts2⟩ := q2
            simp only [h2] at h
            have l2 := pExpr_len h2
            cases h3 : expect .comma "','" ts2 with
            | error er => simp [h3] at h
            | ok ts3 =>
              simp only [h3] at h
              have l3 := expect_len h3
              cases h4 : pExpr f ts3 with
              | error er => simp [h4] at h
              | ok q4 =>
                obtain ⟨ae, ts4⟩ := q4
                simp only [h4] at h
                have l4 := pExpr_len h4
                cases h5 : expect .rparen "')'" ts4 with
                | error er => simp [h5] at h
                | ok r' =>
                  simp only [h5, Except.ok.injEq, Prod.mk.injEq] at h
                  obtain ⟨_, rfl⟩ := h
                  have l5 := expect_len h5
                  simp; omega
      · simp [err] at h

theorem pVarDecl_len {f : Nat} {ts ts' : List Token} {d : VarDecl} (h : pVarDecl f ts = .ok (d, ts')) : ts'.length ≤ ts.length := by
  unfold pVarDecl at h
  cases h1 : pType ts with
  | error er => simp [h1] at h
  | ok q1 =>
    obtain ⟨ty, ts1⟩ := q1
    simp only [h1] at h
    have l1 := pType_len h1
    cases h2 : expectText .variable "variable" ts1 with
    | error er => simp [h2] at h
    | ok q2 =>
      obtain ⟨name, ts2⟩ := q2
      simp only [h2] at h
      have l2 := expectText_len h2
      cases ts2 with
      | nil =>
        simp only [Except.ok.injEq, Prod.mk.injEq] at h
        obtain ⟨_, rfl⟩ := h
        simp at l2 ⊢
      | cons t ts3 =>
        simp only at h
        split at h
        · cases h3 : pOrigin f ts3 with
          | error er => simp [h3] at h
          | ok q3 =>
            obtain ⟨o, r⟩ := q3
            simp only [h3, Except.ok.injEq, Prod.mk.injEq] at h
            obtain ⟨_, rfl⟩ := h
            have l3 := pOrigin_len h3
            simp at l2; omega
        · simp only [Except.ok.injEq, Prod.mk.injEq] at h
          obtain ⟨_, rfl⟩ := h
          omega

theorem pVarLines_len : ∀ (f : Nat) (ts : List Token) (ds : List VarDecl) (ts' : List Token),
    pVarLines f ts = .ok (ds, ts') → ts'.length ≤ ts.length := by
  intro f
  induction f with
  | zero => intro ts ds ts' h; simp [pVarLines, err] at h
  | succ f ih =>
    intro ts ds ts' h
    simp only [pVarLines] at h
    cases h1 : pVarDecl f ts with
    | error er => simp [h1] at h
    | ok q1 =>
      obtain ⟨d, ts1⟩ := q1
      simp only [h1] at h
      have l1 := pVarDecl_len h1
      cases h2 : expect .newline "NEWLINE" ts1 with
      | error er => simp [h2] at h
      | ok ts2 =>
        simp only [h2] at h
        have l2 := expect_len h2
        have l3 := skipNewlines_len ts2
        cases h3 : skipNewlines ts2 with
        | nil => simp [h3, err] at h
        | cons t ts3 =>
          rw [h3] at l3
          simp only [h3] at h
          split at h
          · simp only [Except.ok.injEq, Prod.mk.injEq] at h
            obtain ⟨_, rfl⟩ := h
            simp at l3; omega
          · cases h4 : pVarLines f (t :: ts3) with
            | error er => simp [h4] at h
            | ok q4 =>
              obtain ⟨rest, r⟩ := q4
              simp only [h4, Except.ok.injEq, Prod.mk.injEq] at h
              obtain ⟨_, rfl⟩ := h
              have l4 := ih _ _ _ h4
              omega

theorem pStmtsTail_ok : ∀ (f : Nat) (ts : List Token) (ss : List Stmt), pStmtsTail f ts = .ok ss →
    ∀ s ∈ ss, s.bnd ts.length = true := by
  intro f
  induction f with
  | zero => intro ts ss h; simp [pStmtsTail, err] at h
  | succ f ih =>
    intro ts ss h
    simp only [pStmtsTail] at h
    cases ts with
    | nil => simp only [Except.ok.injEq] at h; subst h; intro s hs; cases hs
    | cons t r =>
      simp only at h
      split at h
      · cases r with
        | nil => simp only [Except.ok.injEq] at h; subst h; intro s hs; cases hs
        | cons t2 r2 =>
          simp only at h
          split at h
          · split at h
            · simp only [Except.ok.injEq] at h; subst h; intro s hs; cases hs
            · simp [err] at h
          · cases h1 : pStmt f (t2 :: r2) with
            | error er => simp [h1] at h
            | ok q1 =>
              obtain ⟨s1, r'⟩ := q1
              simp only [h1] at h
              obtain ⟨l1, b1⟩ := pStmt_ok h1
              cases h2 : pStmtsTail f r' with
              | error er => simp [h2] at h
              | ok ss' =>
                simp only [h2, Except.ok.injEq] at h
                subst h
                intro s hs
                rcases List.mem_cons.mp hs with rfl | hs
                · exact Stmt.bnd_mono (by simp) s b1
                · exact Stmt.bnd_mono (by simp at l1 ⊢; omega) s (ih r' ss' h2 s hs)
      · simp [err] at h

theorem pScript_ok {f : Nat} {ts : List Token} {Sc : Script} (h : pScript f ts = .ok Sc) :
    Sc.stmts ≠ [] ∧ ∀ s ∈ Sc.stmts, s.bnd ts.length = true := by
  unfold pScript at h
  simp only at h
  have l0 := skipNewlines_len ts
  -- the declarations leave a token list that is not longer
  have hv : ∀ (v : Syntax.P (List VarDecl)),
      (∀ ds ts5, v = .ok (ds, ts5) → ts5.length ≤ ts.length) →
      (match v with
        | .error e => .error e
        | .ok (ds, ts5) =>
          match pStmt f ts5 with
          | .error e => .error e
          | .ok (s, ts6) =>
            match pStmtsTail f ts6 with
            | .error e => .error e
            | .ok ss => .ok ⟨ds, s :: ss⟩ : Except ParseErr Script) = .ok Sc →
      Sc.stmts ≠ [] ∧ ∀ s ∈ Sc.stmts, s.bnd ts.length = true := by
    intro v hlen hres
    cases hvv : v with
    | error er => simp [hvv] at hres
    | ok q =>
      obtain ⟨ds, ts5⟩ := q
      simp only [hvv] at hres
      have l5 := hlen ds ts5 hvv
      cases h1 : pStmt f ts5 with
      | error er => simp [h1] at hres
      | ok q1 =>
        obtain ⟨s1, ts6⟩ := q1
        simp only [h1] at hres
        obtain ⟨l1, b1⟩ := pStmt_ok h1
        cases h2 : pStmtsTail f ts6 with
        | error er => simp [h2] at hres
        | ok ss =>
          simp only [h2, Except.ok.injEq] at hres
          subst hres
          refine ⟨by simp, ?_⟩
          intro s hs
          rcases List.mem_cons.mp hs with rfl | hs
          · exact Stmt.bnd_mono l5 s b1
          · exact Stmt.bnd_mono (by omega) s (pStmtsTail_ok f ts6 ss h2 s hs)
  refine hv _ ?_ h
  intro ds ts5 hq
  cases hsk : skipNewlines ts with
  | nil =>
    simp only [hsk, Except.ok.injEq, Prod.mk.injEq] at hq
    obtain ⟨_, rfl⟩ := hq; simp
  | cons t ts1 =>
    rw [hsk] at l0
    simp only [hsk] at hq
    split at hq
    · cases h1 : expect .lbrace "'{'" ts1 with
      | error er => simp [h1] at hq
      | ok ts2 =>
        simp only [h1] at hq
        have l1 := expect_len h1
        cases h2 : expect .newline "NEWLINE" ts2 with
        | error er => simp [h2] at hq
        | ok ts3 =>
          simp only [h2] at hq
          have l2 := expect_len h2
          cases h3 : pVarLines f ts3 with
          | error er => simp [h3] at hq
          | ok q3 =>
            obtain ⟨ds', ts4⟩ := q3
            simp only [h3] at hq
            have l3 := pVarLines_len f _ _ _ h3
            cases h4 : expect .newline "NEWLINE" ts4 with
            | error er => simp [h4] at hq
            | ok r =>
              simp only [h4, Except.ok.injEq, Prod.mk.injEq] at hq
              obtain ⟨_, rfl⟩ := hq
              have l4 := expect_len h4
              simp at l0; omega
    · simp only [Except.ok.injEq, Prod.mk.injEq] at hq
      obtain ⟨_, rfl⟩ := hq
      exact l0

/-- the parser sees at most as many tokens as the text has characters -/
theorem lexChars_len {cs : List Char} {ts : List Token} (h : lexChars cs = .ok ts) : ts.length ≤ cs.length := by
  unfold lexChars at h
  cases ha : lexAll cs with
  | error e => simp [ha] at h
  | ok all =>
    simp only [ha, Except.ok.injEq] at h
    subst h
    obtain ⟨hc, hne⟩ := lexLoop_spec cs.length cs all ha
    have hlen : (all.map (·.text.length)).sum = cs.length := by rw [← length_flatMap_text, hc]
    have h1 := sum_filter_le all (fun t => !t.kind.skipped)
    have h2 : ∀ l : List Token, (∀ t ∈ l, t.text ≠ []) → l.length ≤ (l.map (·.text.length)).sum := by
      intro l
      induction l with
      | nil => simp
      | cons t r ih =>
        intro hall
        have ht : t.text ≠ [] := hall t (by simp)
        have : 0 < t.text.length := List.length_pos_iff.mpr ht
        have := ih (fun x hx => hall x (List.mem_cons_of_mem _ hx))
        simp; omega
    have h3 := h2 (all.filter (fun t => !t.kind.skipped)) (fun t ht => hne t ((List.mem_filter.mp ht).1))
    omega

/-- **what the front end accepts satisfies the side conditions of `compile_correct`**, for a text shorter than
2^64 characters -/
theorem front_wellFormed {cs : List Char} {P : Script} (h : frontChars cs = some P) (hlen : cs.length < 18446744073709551616) :
    P.frag2 := by
  unfold frontChars at h
  cases hl : lexChars cs with
  | error e => simp [hl] at h
  | ok ts =>
    simp only [hl] at h
    cases hp : parse ts with
    | error e => simp [hp] at h
    | ok P' =>
      simp only [hp, Option.some.injEq] at h
      subst h
      obtain ⟨hne, hb⟩ := pScript_ok hp
      have hts := lexChars_len hl
      exact ⟨hne, fun s hs => Stmt.frag2_of_bnd (by omega) s (hb s hs)⟩

end Num
