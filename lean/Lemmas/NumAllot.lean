import Lemmas.NumFrame
import Lemmas.Portions
/-! Allotments at bytecode level.  A portion constant of the text is de-duplicated against the resource table by
`ValueEquals` (`big.Rat.Cmp == 0`), so the VM may compute with another REPRESENTATION of the same rational than
`Spec` does.  `allocate` only depends on the rationals (floors of equal rationals are equal), so the shares — the
only thing an allotment is used for — are the same. -/
namespace Num
open VM

/-! ### equal rationals -/

/-- same rational, both with a positive denominator -/
def RatRel (a b : Rat') : Prop := a.num * b.den = b.num * a.den ∧ 0 < a.den ∧ 0 < b.den

theorem RatRel.refl {a : Rat'} (h : 0 < a.den) : RatRel a a := ⟨rfl, h, h⟩

theorem ratEq_iff (a b : Rat') : ratEq a b = true ↔ a.num * b.den = b.num * a.den := by
  simp [ratEq]

/-- floors of equal rationals are equal, for every (signed) amount -/
theorem floor_ratRel {a b : Rat'} (h : RatRel a b) (n : Int) : (n * a.num) / a.den = (n * b.num) / b.den := by
  obtain ⟨he, ha, hb⟩ := h
  have ha' : (0 : Int) < a.den := by exact_mod_cast ha
  have hb' : (0 : Int) < b.den := by exact_mod_cast hb
  have he' : (a.num : Int) * b.den = b.num * a.den := by exact_mod_cast he
  calc (n * a.num) / a.den = ((b.den : Int) * (n * a.num)) / (b.den * a.den) := (Int.mul_ediv_mul_of_pos _ _ hb').symm
    _ = ((a.den : Int) * (n * b.num)) / (a.den * b.den) := by
        have h1 : (b.den : Int) * (n * a.num) = a.den * (n * b.num) := by
          calc (b.den : Int) * (n * a.num) = n * (a.num * b.den) := by ring1
            _ = n * (b.num * a.den) := by rw [he']
            _ = a.den * (n * b.num) := by ring1
        rw [h1, Int.mul_comm (b.den : Int) a.den]
    _ = (n * b.num) / b.den := Int.mul_ediv_mul_of_pos _ _ ha'

/-- pointwise: same rationals -/
def RatsRel (l l' : List Rat') : Prop := List.Forall₂ RatRel l l'

theorem floors_ratsRel {l l' : List Rat'} (h : RatsRel l l') (n : Int) :
    l.map (fun p => (n * p.num) / p.den) = l'.map (fun p => (n * p.num) / p.den) := by
  induction h with
  | nil => rfl
  | cons hab _ ih => simp only [List.map_cons, floor_ratRel hab n, ih]

/-- **the shares only depend on the rationals** -/
theorem allocate_ratsRel {l l' : List Rat'} (h : RatsRel l l') (n : Int) : allocate l n = allocate l' n := by
  unfold allocate
  simp only [floors_ratsRel h n]

/-- the sum of equal rationals is the same rational -/
theorem ratSum_ratsRel {l l' : List Rat'} (h : RatsRel l l') :
    (ratSum l).1 * (ratSum l').2 = (ratSum l').1 * (ratSum l).2 ∧ 0 < (ratSum l).2 ∧ 0 < (ratSum l').2 := by
  induction h with
  | nil => simp [ratSum]
  | @cons a b l l' hab _ ih =>
    obtain ⟨he, ha, hb⟩ := hab
    obtain ⟨ih1, ih2, ih3⟩ := ih
    simp only [ratSum]
    refine ⟨?_, Nat.mul_pos ha ih2, Nat.mul_pos hb ih3⟩
    have e1 : a.num * (ratSum l).2 * (b.den * (ratSum l').2) = b.num * (ratSum l').2 * (a.den * (ratSum l).2) := by
      calc a.num * (ratSum l).2 * (b.den * (ratSum l').2) = (a.num * b.den) * ((ratSum l).2 * (ratSum l').2) := by ring1
        _ = (b.num * a.den) * ((ratSum l).2 * (ratSum l').2) := by rw [he]
        _ = b.num * (ratSum l').2 * (a.den * (ratSum l).2) := by ring1
    have e2 : (ratSum l).1 * a.den * (b.den * (ratSum l').2) = (ratSum l').1 * b.den * (a.den * (ratSum l).2) := by
      calc (ratSum l).1 * a.den * (b.den * (ratSum l').2) = ((ratSum l).1 * (ratSum l').2) * (a.den * b.den) := by ring1
        _ = ((ratSum l').1 * (ratSum l).2) * (a.den * b.den) := by rw [ih1]
        _ = (ratSum l').1 * b.den * (a.den * (ratSum l).2) := by ring1
    rw [Nat.add_mul, Nat.add_mul, e1, e2]

/-- specs (`none` = `remaining`): same shape, same rationals -/
def SpecRel : Option Rat' → Option Rat' → Prop
  | none, none => True
  | some a, some b => RatRel a b
  | _, _ => False

def SpecsRel (sp sp' : List (Option Rat')) : Prop := List.Forall₂ SpecRel sp sp'

theorem specsRel_filterMap {sp sp' : List (Option Rat')} (h : SpecsRel sp sp') :
    RatsRel (sp.filterMap id) (sp'.filterMap id) ∧ sp.length = sp'.length := by
  induction h with
  | nil => exact ⟨List.Forall₂.nil, rfl⟩
  | @cons p q l l' hpq _ ih =>
    obtain ⟨ih1, ih2⟩ := ih
    refine ⟨?_, by simp [ih2]⟩
    cases p <;> cases q <;> simp only [SpecRel] at hpq
    · exact ih1
    · exact List.Forall₂.cons hpq ih1

theorem forall2_length {α β} {R : α → β → Prop} {l : List α} {l' : List β} (h : List.Forall₂ R l l') : l.length = l'.length := by
  induction h with
  | nil => rfl
  | cons _ _ ih => simp [ih]

theorem fill_specsRel {sp sp' : List (Option Rat')} (h : SpecsRel sp sp') {x x' : Rat'} (hx : RatRel x x') :
    RatsRel (sp.map (fun p => match p with | some r => r | none => x)) (sp'.map (fun p => match p with | some r => r | none => x')) := by
  induction h with
  | nil => exact List.Forall₂.nil
  | @cons p q l l' hpq _ ih =>
    simp only [List.map_cons]
    refine List.Forall₂.cons ?_ ih
    cases p <;> cases q <;> simp only [SpecRel] at hpq
    · exact hx
    · exact hpq

/-- `NewAllotment` accepts both or neither, and builds the same rationals -/
theorem newAllotment_specsRel {sp sp' : List (Option Rat')} (h : SpecsRel sp sp') :
    match newAllotment sp, newAllotment sp' with
    | none, none => True
    | some al, some al' => RatsRel al al'
    | _, _ => False := by
  obtain ⟨hf, hlen⟩ := specsRel_filterMap h
  obtain ⟨hs, hp, hp'⟩ := ratSum_ratsRel hf
  have hflen : (sp.filterMap id).length = (sp'.filterMap id).length := forall2_length hf
  have hgt : (ratSum (sp.filterMap id)).1 > (ratSum (sp.filterMap id)).2 ↔ (ratSum (sp'.filterMap id)).1 > (ratSum (sp'.filterMap id)).2 := by
    constructor
    · intro hg
      by_contra hng
      have hle : (ratSum (sp'.filterMap id)).1 ≤ (ratSum (sp'.filterMap id)).2 := by omega
      have h1 : (ratSum (sp.filterMap id)).2 * (ratSum (sp'.filterMap id)).2 < (ratSum (sp.filterMap id)).1 * (ratSum (sp'.filterMap id)).2 :=
        Nat.mul_lt_mul_of_pos_right hg hp'
      have h2 : (ratSum (sp'.filterMap id)).1 * (ratSum (sp.filterMap id)).2 ≤ (ratSum (sp'.filterMap id)).2 * (ratSum (sp.filterMap id)).2 :=
        Nat.mul_le_mul_right _ hle
      rw [hs] at h1
      rw [Nat.mul_comm (ratSum (sp'.filterMap id)).2] at h2
      omega
    · intro hg
      by_contra hng
      have hle : (ratSum (sp.filterMap id)).1 ≤ (ratSum (sp.filterMap id)).2 := by omega
      have h1 : (ratSum (sp'.filterMap id)).2 * (ratSum (sp.filterMap id)).2 < (ratSum (sp'.filterMap id)).1 * (ratSum (sp.filterMap id)).2 :=
        Nat.mul_lt_mul_of_pos_right hg hp
      have h2 : (ratSum (sp.filterMap id)).1 * (ratSum (sp'.filterMap id)).2 ≤ (ratSum (sp.filterMap id)).2 * (ratSum (sp'.filterMap id)).2 :=
        Nat.mul_le_mul_right _ hle
      rw [← hs] at h1
      rw [Nat.mul_comm (ratSum (sp.filterMap id)).2] at h2
      omega
  unfold newAllotment
  simp only [hlen, hflen]
  by_cases h1 : sp'.length - (sp'.filterMap id).length > 1
  · simp [h1]
  · simp only [h1, if_false]
    by_cases h2 : (ratSum (sp.filterMap id)).1 > (ratSum (sp.filterMap id)).2
    · simp [h2, hgt.mp h2]
    · have h2' : ¬ (ratSum (sp'.filterMap id)).1 > (ratSum (sp'.filterMap id)).2 := fun hh => h2 (hgt.mpr hh)
      simp only [h2, h2', if_false]
      -- the `remaining` share is the same rational
      have hrem : RatRel ⟨(ratSum (sp.filterMap id)).2 - (ratSum (sp.filterMap id)).1, (ratSum (sp.filterMap id)).2⟩
          ⟨(ratSum (sp'.filterMap id)).2 - (ratSum (sp'.filterMap id)).1, (ratSum (sp'.filterMap id)).2⟩ := by
        refine ⟨?_, hp, hp'⟩
        simp only
        rw [Nat.sub_mul, Nat.sub_mul, hs, Nat.mul_comm (ratSum (sp.filterMap id)).2]
      exact fill_specsRel h hrem

/-! ### list plumbing -/

theorem forall2_append {α β} {R : α → β → Prop} {l1 l2 : List α} {l1' l2' : List β}
    (h1 : List.Forall₂ R l1 l1') (h2 : List.Forall₂ R l2 l2') : List.Forall₂ R (l1 ++ l2) (l1' ++ l2') := by
  induction h1 with
  | nil => exact h2
  | cons hab _ ih => exact List.Forall₂.cons hab ih

theorem forall2_reverse {α β} {R : α → β → Prop} {l : List α} {l' : List β} (h : List.Forall₂ R l l') :
    List.Forall₂ R l.reverse l'.reverse := by
  induction h with
  | nil => exact List.Forall₂.nil
  | cons hab _ ih =>
    rw [List.reverse_cons, List.reverse_cons]
    exact forall2_append ih (List.Forall₂.cons hab List.Forall₂.nil)

theorem mapM_ok_of_forall2 {α β : Type} {f : α → Except Err β} {l : List α} {r : List β}
    (h : List.Forall₂ (fun x y => f x = .ok y) l r) : l.mapM f = .ok r := by
  induction h with
  | nil => rfl
  | cons hab _ ih => simp [List.mapM_cons, hab, ih, bind, Except.bind, pure, Except.pure]

theorem forall2_of_mapM_ok {α β : Type} {f : α → Except Err β} {l : List α} {r : List β}
    (h : l.mapM f = .ok r) : List.Forall₂ (fun x y => f x = .ok y) l r := by
  induction l generalizing r with
  | nil => simp [pure, Except.pure] at h; subst h; exact List.Forall₂.nil
  | cons a l ih =>
    obtain ⟨y, ys, h1, h2, rfl⟩ := mapM_cons_ok h
    exact List.Forall₂.cons h1 (ih h2)

theorem mapM_reverse_ok {α β : Type} {f : α → Except Err β} {l : List α} {r : List β}
    (h : l.reverse.mapM f = .ok r) : l.mapM f = .ok r.reverse := by
  have := forall2_reverse (forall2_of_mapM_ok h)
  rw [List.reverse_reverse] at this
  exact mapM_ok_of_forall2 this

/-! ### pushing the portions -/

/-- every portion value of the resolved table has a positive denominator -/
def VPos (V : List BVal) : Prop := ∀ (i : Nat) (r : Rat'), V[i]? = some (.portion r) → 0 < r.den

/-- the value the VM holds for a portion of the text (`none` = `remaining`) -/
def ValRel : Option Rat' → BVal → Prop
  | none, v => v = .remaining
  | some a, v => ∃ b, v = .portion b ∧ RatRel a b

/-- a portion constant of the text has a positive denominator (what the parser produces) -/
def specPos : PortionSpec → Bool
  | .const r => decide (0 < r.den)
  | _ => true

theorem exec_push_append (V : List BVal) (c1 c2 : Code) (v : BVal) (vs : List BVal)
    (h1 : ∀ m : Machine, exec V c1 m = .ok (m.push v))
    (h2 : ∀ m : Machine, exec V c2 m = .ok { m with stack := vs.reverse ++ m.stack }) :
    ∀ m : Machine, exec V (c1 ++ c2) m = .ok { m with stack := (v :: vs).reverse ++ m.stack } := by
  intro m
  simp only [exec_append, h1, h2]
  simp [Machine.push]

theorem portions_push {R : List Resource} {V : List BVal} {env : VEnv} (cx : Ctx R V env) (hp : VPos V)
    {qs : List PortionSpec} {st st' : CState} {hvb hrb hv' hr' : Bool} {c : Code}
    (hv : visitPortions st qs hvb hrb = .ok (c, st', hv', hr')) (hsub : Sub st' R) (hidx : VarIdxOK st)
    (hq : ∀ q ∈ qs, specPos q = true) :
    ∃ sp vs, qs.mapM (specOf env) = .ok sp ∧ List.Forall₂ ValRel sp vs ∧
      ∀ m : Machine, exec V c m = .ok { m with stack := vs.reverse ++ m.stack } := by
  induction qs generalizing st hvb hrb c with
  | nil =>
    simp only [visitPortions, Except.ok.injEq, Prod.mk.injEq] at hv
    obtain ⟨rfl, _⟩ := hv
    exact ⟨[], [], rfl, List.Forall₂.nil, fun m => rfl⟩
  | cons p rest ih =>
    simp only [visitPortions] at hv
    split at hv
    · cases hv
    · rename_i c1 st1 hv1 hr1 hone
      split at hv
      · cases hv
      · rename_i c2 st2 hv2 hr2 hrest
        simp only [Except.ok.injEq, Prod.mk.injEq] at hv
        obtain ⟨rfl, rfl, rfl, rfl⟩ := hv
        have he2 := visitPortions_ext hrest
        have hsub1 : Sub st1 R := hsub.of_ext he2
        -- the one portion
        have key : Ext st st1 ∧ ∃ y v, specOf env p = .ok y ∧ ValRel y v ∧ ∀ m : Machine, exec V c1 m = .ok (m.push v) := by
          cases p with
          | const r =>
            simp only at hone
            split at hone
            · cases hone
            · rename_i a st1' ha
              simp only [Except.ok.injEq, Prod.mk.injEq] at hone
              obtain ⟨rfl, rfl, _⟩ := hone
              obtain ⟨hext, c0, hc0, hveq⟩ := allocConst_ok ha
              have hV : V[a]? = some c0 := cx.res a _ (hsub1 a _ hc0)
              cases c0 <;> simp only [valueEquals, Bool.false_eq_true] at hveq
              rename_i r'
              have hr' : 0 < r'.den := hp a r' hV
              have hr : 0 < r.den := by simpa [specPos] using hq (.const r) (List.mem_cons_self ..)
              refine ⟨hext, some r, .portion r', rfl, ⟨r', rfl, ((ratEq_iff r' r).mp hveq).symm, hr, hr'⟩, fun m => exec_apush hV m⟩
          | badConst => cases hone
          | var n =>
            simp only at hone
            split at hone
            · cases hone
            · rename_i o ho
              split at hone
              · cases hone
              · rename_i hty
                simp only [Except.ok.injEq, Prod.mk.injEq] at hone
                obtain ⟨rfl, rfl, _⟩ := hone
                have hty' : o.ty = .portion := Classical.not_not.mp hty
                have sp := expr_ok cx ho hsub1 hidx rfl
                -- the address of a variable is never nil
                have haddr : ∃ idx, o.addr = some idx := by
                  simp only [visitExpr] at ho
                  split at ho
                  · cases ho
                  · split at ho
                    · cases ho
                    · simp only [Except.ok.injEq] at ho; subst ho; exact ⟨_, rfl⟩
                obtain ⟨idx, hidx'⟩ := haddr
                obtain ⟨v, hv1, hv2⟩ := sp.2 idx hidx'
                simp only [leftOperand] at hv1
                have h1 := sp.1
                rw [hv1] at h1
                have hb : (BVal.ofVal v).bty = .portion := h1.1.trans hty'
                cases v <;> simp [BVal.ofVal, BVal.bty] at hb
                rename_i r
                have hlk : lookupVar env n = some (.portion r) := by
                  simp only [evalExpr] at hv1
                  cases hl : lookupVar env n with
                  | none => simp [hl] at hv1
                  | some w => simp only [hl, Except.ok.injEq] at hv1; rw [hv1]
                have hr : 0 < r.den := hp idx r hv2
                refine ⟨visitExpr_ext ho, some r, .portion r, by simp [specOf, hlk], ⟨r, rfl, RatRel.refl hr⟩, h1.2⟩
          | remaining =>
            simp only at hone
            split at hone
            · cases hone
            · split at hone
              · cases hone
              · rename_i a st1' ha
                simp only [Except.ok.injEq, Prod.mk.injEq] at hone
                obtain ⟨rfl, rfl, _⟩ := hone
                obtain ⟨hext, c0, hc0, hveq⟩ := allocConst_ok ha
                have hV : V[a]? = some c0 := cx.res a _ (hsub1 a _ hc0)
                cases c0 <;> simp only [valueEquals, Bool.false_eq_true] at hveq
                exact ⟨hext, none, .remaining, rfl, rfl, fun m => exec_apush hV m⟩
        obtain ⟨hext1, y, v, hy, hyv, hex1⟩ := key
        obtain ⟨sp, vs, hsp, hrel, hex2⟩ := ih hrest (hext1.varIdxOK hidx) (fun q hq' => hq q (List.mem_cons_of_mem _ hq'))
        refine ⟨y :: sp, v :: vs, ?_, List.Forall₂.cons hyv hrel, exec_push_append V c1 c2 v vs hex1 hex2⟩
        simp [List.mapM_cons, hy, hsp, bind, Except.bind, pure, Except.pure]

theorem popPortions_vals {sp : List (Option Rat')} {vs : List BVal} (h : List.Forall₂ ValRel sp vs) :
    ∃ sp', SpecsRel sp sp' ∧ ∀ S : List BVal, popPortions vs.length (vs ++ S) = .ok (sp', S) := by
  induction h with
  | nil => exact ⟨[], List.Forall₂.nil, fun _ => rfl⟩
  | @cons y v sp vs hyv _ ih =>
    obtain ⟨sp', h2, h1⟩ := ih
    cases y with
    | none =>
      simp only [ValRel] at hyv; subst hyv
      exact ⟨none :: sp', List.Forall₂.cons trivial h2, fun S => by simp only [List.length_cons, List.cons_append, popPortions, h1]⟩
    | some a =>
      obtain ⟨b, rfl, hab⟩ := hyv
      exact ⟨some b :: sp', List.Forall₂.cons hab h2, fun S => by simp only [List.length_cons, List.cons_append, popPortions, h1]⟩

/-- `VisitAllotment`: the code pushes an allotment made of the same rationals as `Spec`'s, or fails the same way -/
theorem allotment_ok {R : List Resource} {V : List BVal} {env : VEnv} (cx : Ctx R V env) (hp : VPos V)
    {ps : List PortionSpec} {st st' : CState} {c : Code}
    (hv : visitAllotment st ps = .ok (c, st')) (hsub : Sub st' R) (hidx : VarIdxOK st)
    (hq : ∀ q ∈ ps, specPos q = true) (hlen : ps.length < 18446744073709551616) :
    match resolvePortions env ps with
    | .error er => ∀ m : Machine, exec V c m = .error er
    | .ok al => ∃ al', RatsRel al al' ∧ ∀ m : Machine, exec V c m = .ok (m.push (.allotment al')) := by
  unfold visitAllotment at hv
  split at hv
  · cases hv
  · rename_i c1 st1 hasVar hasRem hp1
    simp only at hv
    split at hv
    · cases hv
    · split at hv
      · cases hv
      · split at hv
        · cases hv
        · split at hv
          · cases hv
          · split at hv
            · cases hv
            · rename_i c2 st2 hs
              simp only [Except.ok.injEq, Prod.mk.injEq] at hv
              obtain ⟨rfl, rfl⟩ := hv
              have he2 := emitSeq_ext hs
              obtain ⟨spr, vs, hspr, hrel, hex1⟩ := portions_push cx hp hp1 (hsub.of_ext he2) hidx
                (fun q hq' => hq q (List.mem_reverse.mp hq'))
              have hsp : ps.mapM (specOf env) = .ok spr.reverse := mapM_reverse_ok hspr
              have hrel' : List.Forall₂ ValRel spr.reverse vs.reverse := forall2_reverse hrel
              have hvlen : vs.reverse.length = ps.length := by
                rw [← forall2_length hrel', List.length_reverse, ← forall2_length (forall2_of_mapM_ok hspr), List.length_reverse]
              have hc2 := emitSeq_exec cx hs hsub
              rw [resolvePortions_eq, hsp]
              simp only
              have hstep : ∀ m : Machine, exec V (c1 ++ c2) m =
                  match popPortions ps.length (vs.reverse ++ m.stack) with
                  | .panic k => .panic k
                  | .error e => .error e
                  | .ok (sp', r') =>
                    match newAllotment sp' with
                    | none => .error .invalidScript
                    | some al => .ok { m with stack := .allotment al :: r' } := by
                intro m
                simp only [exec_append, hex1, hc2]
                simp only [runEmits, step, Machine.push, popNum, u64_nat hlen]
                cases popPortions ps.length (vs.reverse ++ m.stack) with
                | panic k => rfl
                | error e => rfl
                | ok r =>
                  obtain ⟨sp', r'⟩ := r
                  simp only
                  cases newAllotment sp' <;> rfl
              obtain ⟨sp', hsrel, hpop⟩ := popPortions_vals hrel'
              have hna := newAllotment_specsRel hsrel
              cases hn : newAllotment spr.reverse with
              | none =>
                rw [hn] at hna
                simp only
                intro m
                rw [hstep m, ← hvlen, hpop m.stack]
                cases hn' : newAllotment sp' with
                | none => simp only [hn']
                | some al' => rw [hn'] at hna; exact hna.elim
              | some al =>
                rw [hn] at hna
                simp only
                cases hn' : newAllotment sp' with
                | none => rw [hn'] at hna; exact hna.elim
                | some al' =>
                  rw [hn'] at hna
                  refine ⟨al', hna, ?_⟩
                  intro m
                  rw [hstep m, ← hvlen, hpop m.stack]
                  simp only [hn']
                  rfl

/-! ### `ALLOC` and `BUMP n` -/

theorem step_alloc (V : List BVal) (m : Machine) (S : List BVal) (ks : List (Acct × Asset)) (b : Bal) (al : List Rat') (s : Asset) (n : Int) :
    step V .alloc (m.upd (.allotment al :: .mon s n :: S) ks b) = .ok (m.upd ((allocate al n).map (fun x => BVal.mon s x) ++ S) ks b) := rfl

theorem getElem?_append_length {α} (xs : List α) (y : α) (S : List α) : (xs ++ y :: S)[xs.length]? = some y := by
  induction xs with
  | nil => rfl
  | cons x xs ih => simp [ih]

theorem eraseIdx_append_length {α} (xs : List α) (y : α) (S : List α) : (xs ++ y :: S).eraseIdx xs.length = xs ++ S := by
  induction xs with
  | nil => rfl
  | cons x xs ih => simp [ih]

/-- `BUMP n` brings the value under `n` others to the top -/
theorem step_bumpN (V : List BVal) (m : Machine) (S : List BVal) (ks : List (Acct × Asset)) (b : Bal) (xs : List BVal) (y : BVal)
    (hn : xs.length < 18446744073709551616) :
    step V .bump (m.upd (.num xs.length :: (xs ++ y :: S)) ks b) = .ok (m.upd (y :: (xs ++ S)) ks b) := by
  simp only [step, popNum, Machine.upd, u64_nat hn, getElem?_append_length, eraseIdx_append_length]

theorem allotPortions_length : (items : AllotList) → (allotPortions items).length = allotLen items
  | .nil => rfl
  | .cons _ _ rest => by simp [allotPortions, allotLen, allotPortions_length rest]

/-! ### parsed portions have a positive denominator -/

theorem parsePortion_shape (s : String) :
    parsePortion s = none ∨ ∃ n d : Nat, parsePortion s = if d = 0 then none else if n ≤ d then some (⟨n, d⟩ : Rat') else none := by
  unfold parsePortion
  simp only
  by_cases hpct : s.endsWith "%" = true
  · rw [if_pos hpct]
    generalize ((s.dropEnd 1).toString.splitOn ".") = l
    split
    · by_cases h : isDigitStr ‹String› = true
      · rw [if_pos h]; exact Or.inr ⟨_, _, rfl⟩
      · rw [if_neg h]; exact Or.inl rfl
    · rename_i i f
      by_cases h : (isDigitStr i && isDigitStr f) = true
      · rw [if_pos h]; exact Or.inr ⟨_, _, rfl⟩
      · rw [if_neg h]; exact Or.inl rfl
    · exact Or.inl rfl
  · rw [if_neg hpct]
    generalize (s.splitOn "/") = l
    split
    · rename_i a b
      generalize (if a.endsWith " " = true then (a.dropEnd 1).toString else a) = a'
      generalize (if b.startsWith " " = true then (b.drop 1).toString else b) = b'
      by_cases h : (isDigitStr a' && isDigitStr b') = true
      · rw [if_pos h]; exact Or.inr ⟨_, _, rfl⟩
      · rw [if_neg h]; exact Or.inl rfl
    · exact Or.inl rfl

theorem parsePortion_pos {s : String} {r : Rat'} (h : parsePortion s = some r) : 0 < r.den := by
  rcases parsePortion_shape s with h0 | ⟨n, d, h1⟩
  · rw [h0] at h; cases h
  · rw [h1] at h
    split at h
    · cases h
    · split at h
      · simp only [Option.some.injEq] at h; subst h; show 0 < d; omega
      · cases h

theorem parseValue_pos {ty : Ty} {s : String} {r : Rat'} (h : parseValue ty s = some (.portion r)) : 0 < r.den := by
  cases ty <;> simp only [parseValue] at h
  · split at h <;> cases h
  · split at h <;> cases h
  · simp only [Option.map_eq_some_iff] at h
    obtain ⟨n, _, hn⟩ := h; cases hn
  · cases h
  · generalize (splitOnC s ' ') = l at h
    split at h
    · split at h
      · split at h <;> cases h
      · cases h
    · cases h
  · simp only [Option.map_eq_some_iff] at h
    obtain ⟨q, hq, hn⟩ := h
    cases hn
    exact parsePortion_pos hq

/-- a portion value has a positive denominator -/
def ValPos (v : Val) : Prop := ∀ r, v = .portion r → 0 < r.den

theorem parseValue_valPos {ty : Ty} {s : String} {v : Val} (h : parseValue ty s = some v) : ValPos v := by
  intro r hr; subst hr; exact parseValue_pos h

theorem VPos.snoc {V : List BVal} (h : VPos V) {v : BVal} (hv : ∀ r, v = .portion r → 0 < r.den) : VPos (V ++ [v]) := by
  intro i r hi
  rcases Nat.lt_trichotomy i V.length with hlt | heq | hgt
  · rw [List.getElem?_append_left hlt] at hi; exact h i r hi
  · subst heq
    rw [List.getElem?_append_right (Nat.le_refl _)] at hi
    simp only [Nat.sub_self, List.getElem?_cons_zero, Option.some.injEq] at hi
    exact hv r hi
  · rw [List.getElem?_eq_none (by simp; omega)] at hi; cases hi

/-- every portion constant of the resource table has a positive denominator -/
def TablePos (rs : List Resource) : Prop := ∀ r, Resource.const (.portion r) ∈ rs → 0 < r.den

/-! ### equal rationals print the same -/

theorem reduce_eq {a b a' b' : Nat} (h : a * b' = a' * b) (hb : 0 < b) (hb' : 0 < b') :
    a / Nat.gcd a b = a' / Nat.gcd a' b' ∧ b / Nat.gcd a b = b' / Nat.gcd a' b' := by
  have hg : 0 < Nat.gcd a b := Nat.gcd_pos_of_pos_right a hb
  have hg' : 0 < Nat.gcd a' b' := Nat.gcd_pos_of_pos_right a' hb'
  have hcp := Nat.coprime_div_gcd_div_gcd hg
  have hcp' := Nat.coprime_div_gcd_div_gcd hg'
  generalize hA1 : a / Nat.gcd a b = a1 at hcp ⊢
  generalize hB1 : b / Nat.gcd a b = b1 at hcp ⊢
  generalize hA1' : a' / Nat.gcd a' b' = a1' at hcp' ⊢
  generalize hB1' : b' / Nat.gcd a' b' = b1' at hcp' ⊢
  have ea : a = a1 * Nat.gcd a b := by rw [← hA1]; exact (Nat.div_mul_cancel (Nat.gcd_dvd_left a b)).symm
  have eb : b = b1 * Nat.gcd a b := by rw [← hB1]; exact (Nat.div_mul_cancel (Nat.gcd_dvd_right a b)).symm
  have ea' : a' = a1' * Nat.gcd a' b' := by rw [← hA1']; exact (Nat.div_mul_cancel (Nat.gcd_dvd_left a' b')).symm
  have eb' : b' = b1' * Nat.gcd a' b' := by rw [← hB1']; exact (Nat.div_mul_cancel (Nat.gcd_dvd_right a' b')).symm
  generalize Nat.gcd a b = g at hg ea eb
  generalize Nat.gcd a' b' = g' at hg' ea' eb'
  subst ea eb ea' eb'
  have hb1 : 0 < b1 := Nat.pos_of_mul_pos_right hb
  have hb1' : 0 < b1' := Nat.pos_of_mul_pos_right hb'
  have h2 : a1 * b1' = a1' * b1 := by
    have : (g * g') * (a1 * b1') = (g * g') * (a1' * b1) := by
      calc (g * g') * (a1 * b1') = a1 * g * (b1' * g') := by ring1
        _ = a1' * g' * (b1 * g) := h
        _ = (g * g') * (a1' * b1) := by ring1
    exact Nat.eq_of_mul_eq_mul_left (Nat.mul_pos hg hg') this
  have d1 : a1 ∣ a1' := hcp.dvd_of_dvd_mul_right ⟨b1', by rw [← h2]⟩
  have d2 : a1' ∣ a1 := hcp'.dvd_of_dvd_mul_right ⟨b1, by rw [h2]⟩
  have e1 : a1 = a1' := Nat.dvd_antisymm d1 d2
  subst e1
  refine ⟨rfl, ?_⟩
  rcases Nat.eq_zero_or_pos a1 with h0 | hpos
  · subst h0
    have : b1 = 1 := by simpa using hcp
    have : b1' = 1 := by simpa using hcp'
    omega
  · exact (Nat.eq_of_mul_eq_mul_left hpos h2).symm

theorem ratToString_ratRel {a b : Rat'} (h : RatRel a b) : ratToString a = ratToString b := by
  obtain ⟨he, ha, hb⟩ := h
  obtain ⟨h1, h2⟩ := reduce_eq he ha hb
  have hg : Nat.gcd a.num a.den ≠ 0 := Nat.ne_of_gt (Nat.gcd_pos_of_pos_right _ ha)
  have hg' : Nat.gcd b.num b.den ≠ 0 := Nat.ne_of_gt (Nat.gcd_pos_of_pos_right _ hb)
  simp only [ratToString, hg, hg', if_false, h1, h2]

end Num
