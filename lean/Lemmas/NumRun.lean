import Lemmas.NumStmt
/-! From the resolution stage to the hypotheses of `execute_correct`: after `SetVarsFromJSON`, `ResolveResources`
and `ResolveBalances` succeed on a compiled program, the resolved table is the value of the resources under the
variable environment read back from it, the tracked balances contain every needed entry, and the initial
machine mirrors `Spec`'s initial state. -/
namespace Num
open VM

def BVal.toVal? : BVal → Option Val
  | .acct a => some (.acct a) | .asset a => some (.asset a) | .num n => some (.num n) | .str s => some (.str s)
  | .mon a n => some (.mon a n) | .portion r => some (.portion r)
  | _ => none

theorem toVal?_ofVal (x : Val) : (BVal.ofVal x).toVal? = some x := by cases x <;> rfl

/-- the variable environment read back from a resolved table -/
def envOf : List Resource → List BVal → VEnv
  | r :: rs, v :: vs =>
    match declName r, v.toVal? with
    | some n, some x => (n, x) :: envOf rs vs
    | _, _ => envOf rs vs
  | _, _ => []

theorem declNames_cons (r : Resource) (rs : List Resource) :
    declNames (r :: rs) = match declName r with | some n => n :: declNames rs | none => declNames rs := by
  unfold declNames
  rw [List.filterMap_cons]
  cases declName r <;> rfl

theorem mem_declNames {rs : List Resource} {i : Nat} {r : Resource} {n : String} (h : rs[i]? = some r) (hn : declName r = some n) :
    n ∈ declNames rs := by
  unfold declNames
  rw [List.mem_filterMap]
  exact ⟨r, List.mem_of_getElem? h, hn⟩

theorem lookup_envOf {rs : List Resource} {vals : List BVal} (hnd : (declNames rs).Nodup) {i : Nat} {r : Resource} {n : String}
    {x : Val} (hr : rs[i]? = some r) (hn : declName r = some n) (hv : vals[i]? = some (BVal.ofVal x)) :
    lookupVar (envOf rs vals) n = some x := by
  induction rs generalizing vals i with
  | nil => simp at hr
  | cons r0 rs ih =>
    cases vals with
    | nil => simp at hv
    | cons v0 vs =>
      cases i with
      | zero =>
        simp only [List.getElem?_cons_zero, Option.some.injEq] at hr hv
        subst hr; subst hv
        simp [envOf, hn, toVal?_ofVal, lookupVar]
      | succ j =>
        simp only [List.getElem?_cons_succ] at hr hv
        rw [declNames_cons] at hnd
        cases hd : declName r0 with
        | none =>
          rw [hd] at hnd
          simp only [envOf, hd]
          exact ih hnd hr hv
        | some n0 =>
          rw [hd] at hnd
          simp only [List.nodup_cons] at hnd
          have hne : n0 ≠ n := by
            intro e; subst e
            exact hnd.1 (mem_declNames hr hn)
          cases ht : v0.toVal? with
          | none =>
            simp only [envOf, hd, ht]
            exact ih hnd.2 hr hv
          | some x0 =>
            simp only [envOf, hd, ht]
            have := ih hnd.2 hr hv
            simp only [lookupVar, List.find?_cons] at this ⊢
            simp [hne, this]

/-! ### what `ResolveResources` leaves in the table -/

/-- every value the caller's variables hold came from `NewValueFromString` -/
def VarsOf (vars : List (String × BVal)) : Prop := ∀ n v, lookupB vars n = some v → ∃ x, v = BVal.ofVal x

structure Post (pre : List Resource) (R : Resolved) : Prop where
  len : R.vals.length = pre.length
  consts : ∀ (i : Nat) (v : BVal), pre[i]? = some (.const v) → R.vals[i]? = some v
  mons : ∀ (i : Nat) (a : Addr) (k : Int), pre[i]? = some (.monetary a k) → ∃ s, R.vals[a]? = some (.asset s) ∧ R.vals[i]? = some (.mon s k)
  decls : ∀ (i : Nat) (r : Resource) (n : String), pre[i]? = some r → declName r = some n →
    (∃ x, R.vals[i]? = some (BVal.ofVal x)) ∨ (∃ s, R.vals[i]? = some (.monNil s) ∧ ∃ acct, (i, acct) ∈ R.unresolved)
  unres : ∀ e ∈ R.unresolved, ∃ n a s, pre[e.1]? = some (.varBalance n a s)

theorem snoc_cases {α} {pre : List α} {r r0 : α} {i : Nat} (h : (pre ++ [r])[i]? = some r0) :
    (i < pre.length ∧ pre[i]? = some r0) ∨ (i = pre.length ∧ r0 = r) := by
  rcases Nat.lt_or_ge i pre.length with hlt | hge
  · rw [List.getElem?_append_left hlt] at h; exact Or.inl ⟨hlt, h⟩
  · rw [List.getElem?_append_right hge] at h
    have hi0 : i - pre.length = 0 := by
      rcases Nat.eq_zero_or_pos (i - pre.length) with h0 | h0
      · exact h0
      · rw [List.getElem?_eq_none (by simp only [List.length_cons, List.length_nil]; omega)] at h; cases h
    rw [hi0] at h
    simp only [List.getElem?_cons_zero, Option.some.injEq] at h
    exact Or.inr ⟨by omega, h.symm⟩

theorem getElem?_snoc_left {α} {l : List α} {x v : α} {i : Nat} (h : l[i]? = some v) : (l ++ [x])[i]? = some v := by
  rw [List.getElem?_append_left (getElem?_lt h)]; exact h

theorem getElem?_snoc_len {α} (l : List α) (x : α) : (l ++ [x])[l.length]? = some x := by simp

/-- appending a value for the next resource -/
theorem Post.snoc {pre : List Resource} {R : Resolved} (h : Post pre R) (r : Resource) (v : BVal)
    (un' : List (Addr × String)) {inv' : List (Addr × String)} (hsub : ∀ e ∈ R.unresolved, e ∈ un')
    (hc : ∀ c, r = .const c → v = c)
    (hm : ∀ a k, r = .monetary a k → ∃ s, R.vals[a]? = some (.asset s) ∧ v = .mon s k)
    (hd : ∀ n, declName r = some n → (∃ x, v = BVal.ofVal x) ∨ (∃ s, v = .monNil s ∧ ∃ acct, (pre.length, acct) ∈ un'))
    (hu : ∀ e ∈ un', e ∈ R.unresolved ∨ (e.1 = pre.length ∧ ∃ n a s, r = .varBalance n a s)) :
    Post (pre ++ [r]) { vals := R.vals ++ [v], involved := inv', unresolved := un' } := by
  have hlen := h.len
  constructor
  · simp [hlen]
  · intro i c hi
    rcases snoc_cases hi with ⟨_, hi⟩ | ⟨rfl, hr⟩
    · exact getElem?_snoc_left (h.consts i c hi)
    · rw [hc c hr.symm, ← hlen]; exact getElem?_snoc_len _ _
  · intro i a k hi
    rcases snoc_cases hi with ⟨_, hi⟩ | ⟨rfl, hr⟩
    · obtain ⟨s, h1, h2⟩ := h.mons i a k hi
      exact ⟨s, getElem?_snoc_left h1, getElem?_snoc_left h2⟩
    · obtain ⟨s, h1, h2⟩ := hm a k hr.symm
      exact ⟨s, getElem?_snoc_left h1, by rw [h2, ← hlen]; exact getElem?_snoc_len _ _⟩
  · intro i r0 n hi hn
    rcases snoc_cases hi with ⟨_, hi⟩ | ⟨rfl, hr⟩
    · rcases h.decls i r0 n hi hn with ⟨x, hx⟩ | ⟨s, hs, acct, hacct⟩
      · exact Or.inl ⟨x, getElem?_snoc_left hx⟩
      · exact Or.inr ⟨s, getElem?_snoc_left hs, acct, hsub _ hacct⟩
    · subst hr
      rcases hd n hn with ⟨x, hx⟩ | ⟨s, hs, acct, hacct⟩
      · exact Or.inl ⟨x, by rw [hx, ← hlen]; exact getElem?_snoc_len _ _⟩
      · exact Or.inr ⟨s, by rw [hs, ← hlen]; exact getElem?_snoc_len _ _, acct, hacct⟩
  · intro e he
    rcases hu e he with h' | ⟨h1, n, a, s, hr⟩
    · obtain ⟨n, a, s, hh⟩ := h.unres e h'
      exact ⟨n, a, s, getElem?_snoc_left hh⟩
    · exact ⟨n, a, s, by rw [h1, hr]; exact getElem?_snoc_len _ _⟩

theorem resolveOne_post (store : Store) {vars : List (String × BVal)} (hvo : VarsOf vars) {pre : List Resource} {r : Resource} {R R' : Resolved}
    (hp : Post pre R) (h : resolveOne store vars R r = .ok R') : Post (pre ++ [r]) R' := by
  have hlen := hp.len
  cases r with
  | const v =>
    simp only [resolveOne, Outcome.ok.injEq] at h; subst h
    exact hp.snoc (.const v) v R.unresolved (fun _ h => h) (by intro c hc; cases hc; rfl) (by intro a k hc; cases hc)
      (by intro n hn; simp [declName] at hn) (fun e he => Or.inl he)
  | var ty name =>
    simp only [resolveOne] at h
    split at h
    · cases h
    · rename_i v hv
      simp only [Outcome.ok.injEq] at h; subst h
      obtain ⟨x, rfl⟩ := hvo name v hv
      exact hp.snoc (.var ty name) _ R.unresolved (fun _ h => h) (by intro c hc; cases hc) (by intro a k hc; cases hc)
        (by intro n _; exact Or.inl ⟨x, rfl⟩) (fun e he => Or.inl he)
  | varMeta ty name a key =>
    simp only [resolveOne] at h
    split at h
    · cases h
    · cases h
    · split at h
      · cases h
      · split at h
        · cases h
        · rename_i v hv
          simp only [Outcome.ok.injEq] at h; subst h
          exact hp.snoc (.varMeta ty name a key) _ R.unresolved (fun _ h => h) (by intro c hc; cases hc) (by intro a k hc; cases hc)
            (by intro n _; exact Or.inl ⟨v, rfl⟩) (fun e he => Or.inl he)
  | varBalance name a s =>
    simp only [resolveOne] at h
    split at h
    · cases h
    · cases h
    · rename_i x hx
      split at h
      · cases h
      · rename_i y hy
        simp only [Outcome.ok.injEq] at h; subst h
        refine hp.snoc (.varBalance name a s) (.monNil y) (R.unresolved ++ [(R.vals.length, x)]) (fun e he => List.mem_append_left _ he) (by intro c hc; cases hc) (by intro a k hc; cases hc)
          (by intro n _; exact Or.inr ⟨y, rfl, x, by rw [← hlen]; simp⟩) ?_
        intro e he
        rcases List.mem_append.mp he with h' | h'
        · exact Or.inl h'
        · simp only [List.mem_singleton] at h'; subst h'
          exact Or.inr ⟨hlen, name, a, s, rfl⟩
      · cases h
  | monetary a k =>
    simp only [resolveOne] at h
    split at h
    · cases h
    · rename_i y hy
      simp only [Outcome.ok.injEq] at h; subst h
      exact hp.snoc (.monetary a k) _ R.unresolved (fun _ h => h) (by intro c hc; cases hc)
        (by intro a' k' hc; cases hc; exact ⟨y, hy, rfl⟩) (by intro n hn; simp [declName] at hn) (fun e he => Or.inl he)
    · cases h

theorem resolveLoop_post (store : Store) {vars : List (String × BVal)} (hvo : VarsOf vars) {pre rest : List Resource} {R R' : Resolved}
    (hp : Post pre R) (h : resolveLoop store vars rest R = .ok R') : Post (pre ++ rest) R' := by
  induction rest generalizing pre R with
  | nil => simp only [resolveLoop, Outcome.ok.injEq] at h; subst h; simpa using hp
  | cons r rest ih =>
    simp only [resolveLoop] at h
    split at h
    · rename_i R1 h1
      have := ih (resolveOne_post store hvo hp h1) h
      simpa using this
    · cases h
    · cases h

theorem resolveResources_post {prog : Program} {vars : List (String × BVal)} {store : Store} (hvo : VarsOf vars) {R : Resolved}
    (h : resolveResources prog vars store = .ok R) : Post prog.resources R := by
  have := resolveLoop_post store hvo (pre := []) (R := {}) ⟨rfl, by intro i v h; simp at h, by intro i a k h; simp at h,
    by intro i r n h; simp at h, by intro e he; cases he⟩ h
  simpa using this

/-! ### what `ResolveBalances` leaves -/

/-- the table after the first loop of `ResolveBalances`: constants and monetary literals as before, every
declaration value is the image of a `Val` (no nil amount is left) -/
structure Post2 (rs : List Resource) (vals : List BVal) : Prop where
  consts : ∀ (i : Nat) (v : BVal), rs[i]? = some (.const v) → vals[i]? = some v
  mons : ∀ (i : Nat) (a : Addr) (k : Int), rs[i]? = some (.monetary a k) → ∃ s, vals[a]? = some (.asset s) ∧ vals[i]? = some (.mon s k)
  decls : ∀ (i : Nat) (r : Resource) (n : String), rs[i]? = some r → declName r = some n → ∃ x, vals[i]? = some (BVal.ofVal x)

theorem resolveBalanceVars_post (store : Store) {rs : List Resource} {un : List (Addr × String)} {vals vals' : List BVal}
    (hc : ∀ (i : Nat) (v : BVal), rs[i]? = some (.const v) → vals[i]? = some v)
    (hm : ∀ (i : Nat) (a : Addr) (k : Int), rs[i]? = some (.monetary a k) → ∃ s, vals[a]? = some (.asset s) ∧ vals[i]? = some (.mon s k))
    (hd : ∀ (i : Nat) (r : Resource) (n : String), rs[i]? = some r → declName r = some n →
      (∃ x, vals[i]? = some (BVal.ofVal x)) ∨ (∃ s, vals[i]? = some (.monNil s) ∧ ∃ acct, (i, acct) ∈ un))
    (hu : ∀ e ∈ un, ∃ n a s, rs[e.1]? = some (.varBalance n a s))
    (h : resolveBalanceVars store un vals = .ok vals') : Post2 rs vals' := by
  induction un generalizing vals with
  | nil =>
    simp only [resolveBalanceVars, Outcome.ok.injEq] at h; subst h
    refine ⟨hc, hm, ?_⟩
    intro i r n hi hn
    rcases hd i r n hi hn with hx | ⟨s, _, acct, hacct⟩
    · exact hx
    · cases hacct
  | cons e rest ih =>
    obtain ⟨idx, address⟩ := e
    obtain ⟨bn, ba, bs, hres⟩ := hu (idx, address) (List.mem_cons_self ..)
    simp only at hres
    -- what the step does: set `idx` to a non-nil monetary
    have step : ∀ (s : Asset), (∃ k, vals[idx]? = some (.mon s k)) ∨ vals[idx]? = some (.monNil s) →
        resolveBalanceVars store rest (vals.set idx (.mon s (store.balance address s))) = .ok vals' → Post2 rs vals' := by
      intro s hcur hrest
      have hlt : idx < vals.length := by
        rcases hcur with ⟨k, hk⟩ | hk <;> exact getElem?_lt hk
      apply ih (vals := vals.set idx (.mon s (store.balance address s))) _ _ _ (fun e he => hu e (List.mem_cons_of_mem _ he)) hrest
      · intro i v hi
        have hne : idx ≠ i := by intro e; subst e; rw [hres] at hi; cases hi
        rw [List.getElem?_set_ne hne]; exact hc i v hi
      · intro i a k hi
        obtain ⟨s', h1, h2⟩ := hm i a k hi
        have hne : idx ≠ i := by intro e; subst e; rw [hres] at hi; cases hi
        have hne2 : idx ≠ a := by
          intro e; subst e
          rcases hcur with ⟨k', hk⟩ | hk <;> rw [hk] at h1 <;> cases h1
        exact ⟨s', by rw [List.getElem?_set_ne hne2]; exact h1, by rw [List.getElem?_set_ne hne]; exact h2⟩
      · intro i r n hi hn
        by_cases hii : idx = i
        · subst hii
          exact Or.inl ⟨.mon s (store.balance address s), by rw [List.getElem?_set_self hlt]; rfl⟩
        · rcases hd i r n hi hn with ⟨x, hx⟩ | ⟨s', hs', acct, hacct⟩
          · exact Or.inl ⟨x, by rw [List.getElem?_set_ne hii]; exact hx⟩
          · refine Or.inr ⟨s', by rw [List.getElem?_set_ne hii]; exact hs', acct, ?_⟩
            rcases List.mem_cons.mp hacct with h' | h'
            · simp only [Prod.mk.injEq] at h'; exact absurd h'.1.symm hii
            · exact h'
    simp only [resolveBalanceVars] at h
    split at h
    · rename_i s k hv
      split at h
      · cases h
      · exact step s (Or.inl ⟨k, hv⟩) h
    · rename_i s hv
      split at h
      · cases h
      · exact step s (Or.inr hv) h
    · cases h

/-! ### the tracked balances after `ResolveBalances` -/

/-- invariant of the balance table while `ResolveBalances` fills it -/
structure BalInv (B : Balances) : Prop where
  dom : ∀ a s, (B.bal.get a s).isSome = true → B.accts.contains a = true
  keys : ∀ e ∈ B.keys, (B.bal.get e.1 e.2).isSome = true

/-- `B'` knows everything `B` knows -/
structure BalLe (B B' : Balances) : Prop where
  accts : ∀ a, B.accts.contains a = true → B'.accts.contains a = true
  keys : ∀ e ∈ B.keys, e ∈ B'.keys

theorem BalLe.refl (B : Balances) : BalLe B B := ⟨fun _ h => h, fun _ h => h⟩
theorem BalLe.trans {a b c : Balances} (h1 : BalLe a b) (h2 : BalLe b c) : BalLe a c :=
  ⟨fun x hx => h2.accts x (h1.accts x hx), fun e he => h2.keys e (h1.keys e he)⟩

theorem set_inv {B : Balances} (hi : BalInv B) {a : Acct} (ha : B.accts.contains a = true) (s : Asset) (v : Int) :
    BalInv (B.set a s v) ∧ BalLe B (B.set a s v) ∧ (a, s) ∈ (B.set a s v).keys := by
  refine ⟨⟨?_, ?_⟩, ⟨fun _ h => h, ?_⟩, ?_⟩
  · intro a' s' hs
    simp only [Balances.set, Bal.upd] at hs
    split at hs
    · rename_i hc; rw [hc.1]; exact ha
    · exact hi.dom a' s' hs
  · intro e he
    simp only [Balances.set, Bal.upd]
    by_cases hc : e.1 = a ∧ e.2 = s
    · simp [hc]
    · simp only [hc, if_false]
      simp only [Balances.set] at he
      split at he
      · exact hi.keys e he
      · rcases List.mem_append.mp he with h' | h'
        · exact hi.keys e h'
        · simp only [List.mem_singleton] at h'; subst h'; exact absurd ⟨rfl, rfl⟩ hc
  · intro e he
    simp only [Balances.set]
    split
    · exact he
    · exact List.mem_append_left _ he
  · simp only [Balances.set]
    split
    · rename_i h; simpa using h
    · simp

theorem ensureAcct_inv {B : Balances} (hi : BalInv B) (a : Acct) :
    BalInv (B.ensureAcct a) ∧ BalLe B (B.ensureAcct a) ∧ (B.ensureAcct a).accts.contains a = true := by
  unfold Balances.ensureAcct
  split
  · rename_i h; exact ⟨hi, BalLe.refl _, h⟩
  · refine ⟨⟨?_, hi.keys⟩, ⟨?_, fun _ h => h⟩, ?_⟩
    · intro a' s' hs
      have := hi.dom a' s' hs
      simp only [List.contains_eq_mem, List.mem_append, decide_eq_true_eq] at this ⊢
      exact Or.inl this
    · intro x hx
      simp only [List.contains_eq_mem, List.mem_append, decide_eq_true_eq] at hx ⊢
      exact Or.inl hx
    · simp

theorem needAssets_post (store : Store) {vals : List BVal} (a : Acct) {l : List Addr} {B B' : Balances}
    (hi : BalInv B) (ha : B.accts.contains a = true) (h : needAssets store vals a l B = .ok B') :
    BalInv B' ∧ BalLe B B' ∧ ∀ x ∈ l, ∀ s, (∃ v, vals[x]? = some v ∧ assetOf v = some s) → (a, s) ∈ B'.keys := by
  induction l generalizing B with
  | nil =>
    simp only [needAssets, Outcome.ok.injEq] at h; subst h
    exact ⟨hi, BalLe.refl _, by intro x hx; cases hx⟩
  | cons y rest ih =>
    simp only [needAssets] at h
    split at h
    · cases h
    · rename_i v hv
      split at h
      · cases h
      · rename_i s hs
        obtain ⟨i1, l1, k1⟩ := set_inv hi ha s (if a = "world" then 0 else store.balance a s)
        obtain ⟨i2, l2, k2⟩ := ih i1 (l1.accts a ha) h
        refine ⟨i2, l1.trans l2, ?_⟩
        intro x hx s' hs'
        rcases List.mem_cons.mp hx with h' | h'
        · subst h'
          obtain ⟨v', hv', hs''⟩ := hs'
          rw [hv] at hv'; cases hv'
          rw [hs] at hs''; cases hs''
          exact l2.keys _ k1
        · exact k2 x h' s' hs'

theorem needAccounts_post (store : Store) {vals : List BVal} {nb : List (Addr × List Addr)} {B B' : Balances}
    (hi : BalInv B) (h : needAccounts store vals nb B = .ok B') :
    BalInv B' ∧ BalLe B B' ∧ ∀ e ∈ nb, ∀ a, vals[e.1]? = some (.acct a) → B'.accts.contains a = true ∧
      ∀ x ∈ e.2, ∀ s, (∃ v, vals[x]? = some v ∧ assetOf v = some s) → (a, s) ∈ B'.keys := by
  induction nb generalizing B with
  | nil =>
    simp only [needAccounts, Outcome.ok.injEq] at h; subst h
    exact ⟨hi, BalLe.refl _, by intro e he; cases he⟩
  | cons e rest ih =>
    obtain ⟨addr, assets⟩ := e
    simp only [needAccounts] at h
    split at h
    · cases h
    · rename_i a hva
      split at h
      · rename_i B1 h1
        obtain ⟨i0, l0, c0⟩ := ensureAcct_inv hi a
        obtain ⟨i1, l1, k1⟩ := needAssets_post store a i0 c0 h1
        obtain ⟨i2, l2, k2⟩ := ih i1 h
        refine ⟨i2, (l0.trans l1).trans l2, ?_⟩
        intro e he a' ha'
        rcases List.mem_cons.mp he with h' | h'
        · subst h'
          simp only at ha'
          rw [hva] at ha'; cases ha'
          exact ⟨l2.accts _ (l1.accts _ c0), fun x hx s hs => l2.keys _ (k1 x hx s hs)⟩
        · exact k2 e h' a' ha'
      · cases h
      · cases h
    · cases h


/-! ### putting the resolution stage together -/

theorem setVarsLoop_of {rs : List Resource} {raw : List (String × String)} {acc out : List (String × BVal)}
    (hacc : VarsOf acc) (h : setVarsLoop rs raw acc = .ok out) : VarsOf out := by
  induction rs generalizing raw acc with
  | nil =>
    simp only [setVarsLoop] at h
    split at h
    · simp only [Except.ok.injEq] at h; subst h; exact hacc
    · cases h
  | cons r rest ih =>
    cases r with
    | var ty name =>
      simp only [setVarsLoop] at h
      split at h
      · cases h
      · split at h
        · cases h
        · rename_i v hp
          refine ih ?_ h
          intro n w hw
          rw [lookupB_setKey] at hw
          split at hw
          · simp only [Option.some.injEq] at hw; exact ⟨v, hw.symm⟩
          · exact hacc n w hw
    | const v => simp only [setVarsLoop] at h; exact ih hacc h
    | varMeta _ _ _ _ => simp only [setVarsLoop] at h; exact ih hacc h
    | varBalance _ _ _ => simp only [setVarsLoop] at h; exact ih hacc h
    | monetary _ _ => simp only [setVarsLoop] at h; exact ih hacc h

theorem setVarsFromJSON_of {prog : Program} {raw : List (String × String)} {vars : List (String × BVal)}
    (h : setVarsFromJSON prog raw = .ok vars) : VarsOf vars :=
  setVarsLoop_of (by intro n v hv; simp [lookupB] at hv) h

/-- **after a successful resolution stage** of a compiled program: the resolved table is the value of the
resources under the environment read back from it, and the tracked balances contain every needed entry -/
theorem run_setup {P : Script} {prog : Program} (hc : compile P = .ok prog) {req : Request} {store : Store}
    {vars : List (String × BVal)} {R : Resolved} {vals : List BVal} {B : Balances}
    (hv : setVarsFromJSON prog req.vars = .ok vars) (hr : resolveResources prog vars store = .ok R)
    (hb : resolveBalances prog R store = .ok (vals, B)) :
    Ctx prog.resources vals (envOf prog.resources vals) ∧ EntOK vals prog.needed B.accts B.keys ∧
      BalOK B.accts B.keys B.bal := by
  obtain ⟨hwf, hwn⟩ := compile_good hc
  have hvt := setVarsFromJSON_typed (compile_varNames_nodup hc) hv
  have hvo := setVarsFromJSON_of hv
  have h1 := resolveResources_ok prog vars store hwf hvt
  rw [hr] at h1
  have hpost := resolveResources_post (prog := prog) (store := store) hvo hr
  have htyped := (resolveBalances_ok prog R store h1.1 h1.2 hwn).2 vals B hb
  unfold resolveBalances at hb
  split at hb
  · cases hb
  · cases hb
  · rename_i vals1 hbv
    split at hb
    · cases hb
    · cases hb
    · rename_i B1 hna
      simp only [Outcome.ok.injEq, Prod.mk.injEq] at hb
      obtain ⟨rfl, rfl⟩ := hb
      have hp2 := resolveBalanceVars_post store hpost.consts hpost.mons hpost.decls hpost.unres hbv
      have hnd := compile_declNames_nodup hc
      obtain ⟨binv, _, bent⟩ := needAccounts_post store (B := ⟨[], [], ⟨fun _ _ => none⟩⟩)
        ⟨by intro a s h; simp at h, by intro e he; cases he⟩ hna
      refine ⟨⟨?_, htyped⟩, ?_, ⟨binv.dom, binv.keys⟩⟩
      · intro i r hi
        cases r with
        | const v => exact hp2.consts i v hi
        | monetary a k => exact hp2.mons i a k hi
        | var ty n =>
          obtain ⟨x, hx⟩ := hp2.decls i _ n hi rfl
          exact ⟨x, lookup_envOf hnd hi rfl hx, hx⟩
        | varMeta ty n a k =>
          obtain ⟨x, hx⟩ := hp2.decls i _ n hi rfl
          exact ⟨x, lookup_envOf hnd hi rfl hx, hx⟩
        | varBalance n a k =>
          obtain ⟨x, hx⟩ := hp2.decls i _ n hi rfl
          exact ⟨x, lookup_envOf hnd hi rfl hx, hx⟩
      · intro a x hin acct s ha hx
        obtain ⟨e, he, h1, h2⟩ := hin
        subst h1
        obtain ⟨hc1, hc2⟩ := bent e he acct ha
        exact ⟨hc1, hc2 x h2 s hx⟩

theorem render_ofVal (v : Val) : (BVal.ofVal v).render = some (valToString v) := by
  cases v <;> simp [BVal.ofVal, BVal.render, valToString, ratToString]

theorem renderTxMeta_map (l : List (String × Val)) :
    renderTxMeta (l.map (fun kv => (kv.1, BVal.ofVal kv.2))) = some (l.map (fun kv => (kv.1, valToString kv.2))) := by
  induction l with
  | nil => rfl
  | cons x xs ih => simp [renderTxMeta, render_ofVal, ih]

theorem renderAcctMeta_map (l : List (Acct × String × Val)) :
    renderAcctMeta (l.map (fun x => (x.1, x.2.1, BVal.ofVal x.2.2))) = some (l.map (fun x => (x.1, x.2.1, valToString x.2.2))) := by
  induction l with
  | nil => rfl
  | cons x xs ih => simp [renderAcctMeta, render_ofVal, ih]

end Num
