import Model.Store.Project
/-! C04 stage 2: UNBOUNDED facts about some of the GENERATED definitions (`Generated/Schema.lean`): what the three
`update transactions …` functions (`revert_transaction`, `update_transaction_metadata`, `delete_transaction_metadata`) and the
history trigger they fire do to the tables, for every database state and every argument.  If the SQL of these functions
changes, the generated definitions change and these proofs stop checking. -/
namespace StoreSql
open Sql Schema

/-- the `update_transaction` trigger function only appends one revision row, carrying the ledger of the updated row -/
theorem history_trigger_effect (db : DB) (new : TransactionsRow) :
    ∃ row : TransactionsMetadataRow,
      (update_transaction_metadata_history db new).transactions_metadata = db.transactions_metadata ++ [row] ∧
      row.ledger = new.ledger ∧ row.metadata = new.metadata ∧ row.transactions_seq = new.seq ∧
      (update_transaction_metadata_history db new).transactions = db.transactions ∧
      (update_transaction_metadata_history db new).accounts = db.accounts ∧
      (update_transaction_metadata_history db new).accounts_metadata = db.accounts_metadata ∧
      (update_transaction_metadata_history db new).moves = db.moves ∧
      (update_transaction_metadata_history db new).logs = db.logs := by
  exact ⟨_, rfl, rfl, rfl, rfl, rfl, rfl, rfl, rfl, rfl⟩

/-- firing the trigger for a list of updated rows appends one revision per row, in order, each with its row's ledger -/
theorem fire_history (rows : List TransactionsRow) (db : DB) :
    ∃ hs : List TransactionsMetadataRow, hs.map (·.ledger) = rows.map (·.ledger) ∧
      (Sql.fireEach update_transaction_metadata_history db rows).transactions_metadata = db.transactions_metadata ++ hs ∧
      (Sql.fireEach update_transaction_metadata_history db rows).transactions = db.transactions ∧
      (Sql.fireEach update_transaction_metadata_history db rows).accounts = db.accounts ∧
      (Sql.fireEach update_transaction_metadata_history db rows).accounts_metadata = db.accounts_metadata ∧
      (Sql.fireEach update_transaction_metadata_history db rows).moves = db.moves ∧
      (Sql.fireEach update_transaction_metadata_history db rows).logs = db.logs := by
  induction rows generalizing db with
  | nil => exact ⟨[], rfl, by simp [Sql.fireEach], rfl, rfl, rfl, rfl, rfl⟩
  | cons r rs ih =>
    obtain ⟨row, h2, h1, _, _, h3, h4, h5, h6, h7⟩ := history_trigger_effect db r
    obtain ⟨hs, g1, g2, g3, g4, g5, g6, g7⟩ := ih (update_transaction_metadata_history db r)
    refine ⟨row :: hs, by simp [h1, g1], ?_, ?_, ?_, ?_, ?_, ?_⟩
    · simp only [Sql.fireEach, List.foldl_cons] at g2 ⊢; rw [g2, h2]; simp
    · simp only [Sql.fireEach, List.foldl_cons] at g3 ⊢; rw [g3, h3]
    · simp only [Sql.fireEach, List.foldl_cons] at g4 ⊢; rw [g4, h4]
    · simp only [Sql.fireEach, List.foldl_cons] at g5 ⊢; rw [g5, h5]
    · simp only [Sql.fireEach, List.foldl_cons] at g6 ⊢; rw [g6, h6]
    · simp only [Sql.fireEach, List.foldl_cons] at g7 ⊢; rw [g7, h7]

/-- `update transactions set … where pred` with its trigger: the table is mapped, one revision per updated row is appended -/
theorem update_transactions_effect (db : DB) (pred : TransactionsRow → Val) (upd : TransactionsRow → TransactionsRow) :
    ∃ hs : List TransactionsMetadataRow,
      hs.map (·.ledger) = ((db.transactions.filter (fun r => truthy (pred r))).map upd).map (·.ledger) ∧
      (update_transactions db pred upd).transactions = db.transactions.map (fun r => if truthy (pred r) then upd r else r) ∧
      (update_transactions db pred upd).transactions_metadata = db.transactions_metadata ++ hs ∧
      (update_transactions db pred upd).accounts = db.accounts ∧
      (update_transactions db pred upd).accounts_metadata = db.accounts_metadata ∧
      (update_transactions db pred upd).moves = db.moves ∧
      (update_transactions db pred upd).logs = db.logs := by
  obtain ⟨hs, g1, g2, g3, g4, g5, g6, g7⟩ := fire_history ((db.transactions.filter (fun r => truthy (pred r))).map upd)
    { db with transactions := db.transactions.map (fun r => if truthy (pred r) then upd r else r) }
  exact ⟨hs, g1, g3, g2, g4, g5, g6, g7⟩

-- ---------------------------------------------------------------- which rows belong to a ledger

theorem truthy_iff (v : Val) : truthy v = true ↔ v = .bool true := by
  unfold Sql.truthy Val.truthy
  split <;> simp_all

theorem valAnd_true (a b : Val) (h : Val.and a b = .bool true) : a = .bool true ∧ b = .bool true := by
  unfold Val.and at h
  split at h <;> simp_all

theorem truthy_and (a b : Val) (h : truthy (Val.and a b) = true) : truthy a = true ∧ truthy b = true := by
  have := valAnd_true a b ((truthy_iff _).mp h)
  exact ⟨(truthy_iff _).mpr this.1, (truthy_iff _).mpr this.2⟩

theorem truthy_eq (a b : Val) (h : truthy (Val.eq a b) = true) : (a == b) = true := by
  have := (truthy_iff _).mp h
  unfold Val.eq at this
  split at this
  · cases this
  · simpa using this

/-- a value equal (in SQL's sense) to the name of one ledger is not equal to the name of another -/
theorem ledger_ne (v : Val) (l l' : String) (hne : l ≠ l') (h : (v == Val.text l) = true) : (v == Val.text l') = false := by
  cases v <;> simp_all [BEq.beq, Val.beq]

theorem filter_map_ite {α} (rows : List α) (c p : α → Bool) (upd : α → α)
    (h : ∀ r, c r = true → p r = false ∧ p (upd r) = false) :
    (rows.map (fun r => if c r then upd r else r)).filter p = rows.filter p := by
  induction rows with
  | nil => rfl
  | cons r rs ih =>
    by_cases hc : c r = true
    · obtain ⟨h1, h2⟩ := h r hc
      simp [hc, h1, h2, ih]
    · simp only [List.map_cons, hc, if_false, List.filter_cons, ih, Bool.false_eq_true]

theorem filter_append_none {α} (xs hs : List α) (p : α → Bool) (h : ∀ x ∈ hs, p x = false) :
    (xs ++ hs).filter p = xs.filter p := by
  have : hs.filter p = [] := List.filter_eq_nil_iff.mpr (fun x hx => by simp [h x hx])
  simp [List.filter_append, this]

/-- the rows of ledger `l'` in the five projection tables -/
def ofLedger (l' : String) (db : DB) :=
  (db.transactions.filter (fun r => r.ledger == Val.text l'), db.transactions_metadata.filter (fun r => r.ledger == Val.text l'),
   db.accounts.filter (fun r => r.ledger == Val.text l'), db.accounts_metadata.filter (fun r => r.ledger == Val.text l'),
   db.moves.filter (fun r => r.ledger == Val.text l'))

/-- an `update transactions … where … and ledger = l` that does not change the `ledger` column leaves the rows of every
other ledger alone — including the revision rows its trigger appends -/
theorem update_transactions_frame (db : DB) (l l' : String) (hne : l ≠ l') (cond : TransactionsRow → Val)
    (upd : TransactionsRow → TransactionsRow) (hupd : ∀ r, (upd r).ledger = r.ledger) :
    ofLedger l' (update_transactions db (fun r => Val.and (cond r) (Val.eq r.ledger (Val.text l))) upd) = ofLedger l' db := by
  obtain ⟨hs, g1, g2, g3, g4, g5, g6, _⟩ := update_transactions_effect db (fun r => Val.and (cond r) (Val.eq r.ledger (Val.text l))) upd
  have sel : ∀ r : TransactionsRow, truthy (Val.and (cond r) (Val.eq r.ledger (Val.text l))) = true → (r.ledger == Val.text l') = false :=
    fun r hr => ledger_ne _ l l' hne (truthy_eq _ _ (truthy_and _ _ hr).2)
  have hhs : ∀ x ∈ hs, (x.ledger == Val.text l') = false := by
    intro x hx
    have : x.ledger ∈ hs.map (·.ledger) := List.mem_map_of_mem hx
    rw [g1] at this
    simp only [List.map_map, List.mem_map, List.mem_filter, Function.comp] at this
    obtain ⟨r, ⟨_, hr⟩, hrl⟩ := this
    rw [← hrl, hupd r]
    exact sel r hr
  simp only [ofLedger, g2, g3, g4, g5, g6]
  rw [filter_map_ite db.transactions (fun r => truthy (Val.and (cond r) (Val.eq r.ledger (Val.text l)))) (fun r => r.ledger == Val.text l') upd
        (fun r hr => ⟨sel r hr, by rw [hupd r]; exact sel r hr⟩),
      filter_append_none _ hs _ hhs]

end StoreSql
