import Model.TxToScript
/-! What one generated `send` does to the interpreter state of `Spec` (C09): balance primitives on a
single-part funding, the three source shapes `@world`, `$va`, `$va allowing unbounded overdraft`, one account as
destination. -/
set_option linter.unusedSimpArgs false
namespace Num
namespace Tx

theorem total_single (a : Acct) (v : Int) : total [⟨a, v⟩] = v := by simp [total]

theorem upd_get_same (b : Bal) (a : Acct) (s : Asset) (v : Int) : (b.upd a s v).get a s = some v := by
  simp [Bal.upd]

theorem upd_get_other (b : Bal) (a : Acct) (s : Asset) (v : Int) (x : Acct) (y : Asset) (h : x ≠ a ∨ y ≠ s) :
    (b.upd a s v).get x y = b.get x y := by
  simp only [Bal.upd]
  rw [if_neg]
  rcases h with h | h <;> simp [h]

/-- `withdrawAll` on a tracked bounded account: hands out what is there (nothing when the balance is not positive) -/
theorem withdrawAll_zero {b : Bal} {a : Acct} {s : Asset} {ta : Int} (h : b.get a s = some ta) :
    ∃ b', withdrawAll b a s 0 = .ok (⟨a, max ta 0⟩, b') ∧
      b'.get a s = some (ta - max ta 0) ∧ ∀ x y, (x ≠ a ∨ y ≠ s) → b'.get x y = b.get x y := by
  unfold withdrawAll
  rw [h]
  by_cases hp : ta + 0 > 0
  · have hm : max ta 0 = ta := by omega
    refine ⟨b.upd a s (-0), ?_, ?_, fun x y hxy => upd_get_other _ _ _ _ _ _ hxy⟩
    · show (if ta + 0 > 0 then _ else _) = _
      rw [if_pos hp, hm, Int.add_zero]
    · rw [upd_get_same, hm]; simp
  · have hm : max ta 0 = 0 := by omega
    refine ⟨b, ?_, ?_, fun _ _ _ => rfl⟩
    · show (if ta + 0 > 0 then _ else _) = _
      rw [if_neg hp, hm]
    · rw [h, hm]; simp

theorem repay_single {b : Bal} {a : Acct} {s : Asset} {v ta : Int} (hw : a ≠ "world") (h : b.get a s = some ta) :
    (repay b s [⟨a, v⟩]).get a s = some (ta + v) ∧ ∀ x y, (x ≠ a ∨ y ≠ s) → (repay b s [⟨a, v⟩]).get x y = b.get x y := by
  simp only [repay, hw, if_false, h, Option.getD_some]
  exact ⟨upd_get_same _ _ _ _, fun x y hxy => upd_get_other _ _ _ _ _ _ hxy⟩

theorem repay_world {b : Bal} {s : Asset} {v : Int} : repay b s [⟨"world", v⟩] = b := by
  simp [repay]


theorem takeLoop_single_zero (a : Acct) (v : Int) : takeLoop [⟨a, v⟩] 0 = ([], [⟨a, v⟩], 0) := by
  simp [takeLoop]

theorem takeLoop_single_lt (a : Acct) {v n : Int} (h0 : 0 < n) (h : n < v) :
    takeLoop [⟨a, v⟩] n = ([⟨a, n⟩], [⟨a, v - n⟩], 0) := by
  simp [takeLoop, h0, h]

theorem takeLoop_single_ge (a : Acct) {v n : Int} (h0 : 0 < n) (h : v ≤ n) :
    takeLoop [⟨a, v⟩] n = ([⟨a, v⟩], [], n - v) := by
  have : ¬ v > n := by omega
  simp [takeLoop, h0, this]

theorem take_single_zero (a : Acct) (v : Int) : take [⟨a, v⟩] 0 = some ([⟨a, 0⟩], [⟨a, v⟩]) := by
  simp [take, takeLoop_single_zero, takePre]

theorem take_single_lt (a : Acct) {v n : Int} (h0 : 0 < n) (h : n < v) :
    take [⟨a, v⟩] n = some ([⟨a, n⟩], [⟨a, v - n⟩]) := by
  have : n ≠ 0 := by omega
  simp [take, takeLoop_single_lt a h0 h, takePre, this]

theorem take_single_eq (a : Acct) {v : Int} (h0 : 0 < v) :
    take [⟨a, v⟩] v = some ([⟨a, v⟩], []) := by
  have : v ≠ 0 := by omega
  simp [take, takeLoop_single_ge a h0 (Int.le_refl v), takePre, this]

theorem take_single_gt (a : Acct) {v n : Int} (hv : 0 ≤ v) (h : v < n) :
    take [⟨a, v⟩] n = none := by
  have h0 : 0 < n := by omega
  have : n - v ≠ 0 := by omega
  simp [take, takeLoop_single_ge a h0 (Int.le_of_lt h), this]


/-- bounded source: exactly `mn` out of the single part, the rest goes back -/
theorem tfs_bounded {b : Bal} {a : Acct} {s : Asset} {v mn ta : Int} (hw : a ≠ "world") (hv : 0 ≤ v)
    (hmn : 0 ≤ mn) (h : b.get a s = some ta) :
    (mn ≤ v → ∃ b', takeFromSource none ⟨s, [⟨a, v⟩]⟩ s mn b = .ok (⟨s, [⟨a, mn⟩]⟩, b') ∧
        b'.get a s = some (ta + v - mn) ∧ ∀ x y, (x ≠ a ∨ y ≠ s) → b'.get x y = b.get x y) ∧
    (v < mn → takeFromSource none ⟨s, [⟨a, v⟩]⟩ s mn b = .error .insufficient) := by
  constructor
  · intro hle
    by_cases h0 : mn = 0
    · subst h0
      obtain ⟨r1, r2⟩ := repay_single (v := v) hw h
      refine ⟨repay b s [⟨a, v⟩], ?_, ?_, r2⟩
      · simp [takeFromSource, take_single_zero]
      · rw [r1]; simp
    · have hpos : 0 < mn := by omega
      by_cases hlt : mn < v
      · obtain ⟨r1, r2⟩ := repay_single (v := v - mn) hw h
        refine ⟨repay b s [⟨a, v - mn⟩], ?_, ?_, r2⟩
        · simp [takeFromSource, take_single_lt a hpos hlt]
        · rw [r1]; congr 1; omega
      · have he : mn = v := by omega
        subst he
        refine ⟨b, ?_, ?_, fun _ _ _ => rfl⟩
        · simp [takeFromSource, take_single_eq a hpos, repay]
        · rw [h]; congr 1; omega
  · intro hgt
    simp [takeFromSource, take_single_gt a hv hgt]


theorem repay_single' {b : Bal} {a : Acct} {s : Asset} {v ta : Int} (h : b.get a s = some ta) :
    ∃ t', (repay b s [⟨a, v⟩]).get a s = some t' ∧ (a ≠ "world" → t' = ta + v) ∧
      ∀ x y, (x ≠ a ∨ y ≠ s) → (repay b s [⟨a, v⟩]).get x y = b.get x y := by
  by_cases hw : a = "world"
  · subst hw
    rw [repay_world]
    exact ⟨ta, h, fun c => absurd rfl c, fun _ _ _ => rfl⟩
  · obtain ⟨r1, r2⟩ := repay_single (v := v) hw h
    exact ⟨ta + v, r1, fun _ => rfl, r2⟩

theorem assemble_two (s : Asset) (p1 p2 : Parts) : assemble [⟨s, p1⟩, ⟨s, p2⟩] = .ok ⟨s, concat p1 p2⟩ := by
  simp [assemble, List.getLast?, concat]

theorem concat_single_same (a : Acct) (x y : Int) : concat [⟨a, x⟩] [⟨a, y⟩] = [⟨a, x + y⟩] := by
  simp [concat]

/-- a source with a fallback account (`world`, or `allowing unbounded overdraft`): the single part is topped up
from the fallback, the result is one part of exactly `mn` -/
theorem tfs_fallback {b : Bal} {w : Acct} {s : Asset} {v mn tw : Int} (hv : 0 ≤ v) (hmn : 0 ≤ mn)
    (h : b.get w s = some tw) :
    ∃ b', takeFromSource (some w) ⟨s, [⟨w, v⟩]⟩ s mn b = .ok (⟨s, [⟨w, mn⟩]⟩, b') ∧
      (∀ x y, (x ≠ w ∨ y ≠ s) → b'.get x y = b.get x y) ∧
      (w ≠ "world" → b'.get w s = some (tw + v - mn)) ∧ (b'.get w s).isSome = true := by
  have hneg : ¬ mn < 0 := by omega
  by_cases h0 : mn = 0
  · subst h0
    obtain ⟨t', r1, r2, r3⟩ := repay_single' (v := v) h
    have hmiss : ¬ (0 > total [⟨w, v⟩]) := by rw [total_single]; omega
    refine ⟨(repay b s [⟨w, v⟩]).upd w s (t' - 0), ?_, ?_, ?_, ?_⟩
    · simp only [takeFromSource, hneg, if_false, ne_eq, not_true_eq_false, takeMax, takeLoop_single_zero, hmiss,
        withdrawAlways, r1, assemble_two]
      simp [concat]
    · intro x y hxy; rw [upd_get_other _ _ _ _ _ _ hxy, r3 x y hxy]
    · intro hw; rw [upd_get_same, r2 hw]
    · rw [upd_get_same]; rfl
  · have hpos : 0 < mn := by omega
    by_cases hlt : mn < v
    · obtain ⟨t', r1, r2, r3⟩ := repay_single' (v := v - mn) h
      have hmiss : ¬ (mn > total [⟨w, v⟩]) := by rw [total_single]; omega
      refine ⟨(repay b s [⟨w, v - mn⟩]).upd w s (t' - 0), ?_, ?_, ?_, ?_⟩
      · simp only [takeFromSource, hneg, if_false, ne_eq, not_true_eq_false, takeMax, takeLoop_single_lt w hpos hlt, hmiss,
          withdrawAlways, r1, assemble_two, concat_single_same]
        simp
      · intro x y hxy; rw [upd_get_other _ _ _ _ _ _ hxy, r3 x y hxy]
      · intro hw; rw [upd_get_same, r2 hw]; congr 1; omega
      · rw [upd_get_same]; rfl
    · have hge : v ≤ mn := by omega
      refine ⟨b.upd w s (tw - (if mn > v then mn - v else 0)), ?_, ?_, ?_, ?_⟩
      · simp only [takeFromSource, hneg, if_false, ne_eq, not_true_eq_false, takeMax, takeLoop_single_ge w hpos hge,
          total_single, repay, withdrawAlways, h, assemble_two, concat_single_same]
        by_cases hgt : mn > v
        · simp only [hgt, if_true]
          have e : v + (mn - v) = mn := by omega
          rw [e]
        · have e : v + 0 = mn := by omega
          simp only [hgt, if_false, e]
      · intro x y hxy; rw [upd_get_other _ _ _ _ _ _ hxy]
      · intro _; rw [upd_get_same]; congr 1
        by_cases hgt : mn > v
        · simp only [hgt, if_true]; omega
        · simp only [hgt, if_false]; omega
      · rw [upd_get_same]; rfl


theorem credit_get (b : Bal) (d : Acct) (s : Asset) (a : Acct) (mn : Int) (x : Acct) (y : Asset) :
    (credit b d s [⟨a, mn⟩]).get x y =
      if x = d ∧ y = s ∧ d ≠ "world" then (b.get x y).map (· + mn) else b.get x y := by
  unfold credit
  by_cases hd : d = "world"
  · simp [hd]
  · simp only [hd, if_false]
    cases hg : b.get d s with
    | none =>
      by_cases hxy : x = d ∧ y = s
      · simp [hxy, hg, hd]
      · have : ¬ (x = d ∧ y = s ∧ ¬ d = "world") := fun h => hxy ⟨h.1, h.2.1⟩
        simp [this]
    | some t =>
      by_cases hxy : x = d ∧ y = s
      · obtain ⟨hx, hy⟩ := hxy
        subst hx; subst hy
        simp [upd_get_same, hg, hd, total_single]
      · have h1 : ¬ (x = d ∧ y = s ∧ ¬ d = "world") := fun h => hxy ⟨h.1, h.2.1⟩
        have h2 : x ≠ d ∨ y ≠ s := by
          by_cases hx : x = d
          · exact Or.inr (fun hy => hxy ⟨hx, hy⟩)
          · exact Or.inl hx
        simp only [ne_eq, h1, if_false]
        exact upd_get_other _ _ _ _ _ _ h2

theorem repay_zero {b : Bal} {a : Acct} {s : Asset} (h : a ≠ "world" → (b.get a s).isSome = true) (x : Acct) (y : Asset) :
    (repay b s [⟨a, 0⟩]).get x y = b.get x y := by
  by_cases hw : a = "world"
  · subst hw; rw [repay_world]
  · obtain ⟨t, ht⟩ := Option.isSome_iff_exists.1 (h hw)
    obtain ⟨r1, r2⟩ := repay_single (v := 0) hw ht
    by_cases hxy : x = a ∧ y = s
    · obtain ⟨hx, hy⟩ := hxy
      subst hx; subst hy
      rw [r1, ht]; simp
    · apply r2
      by_cases hx : x = a
      · exact Or.inr (fun hy => hxy ⟨hx, hy⟩)
      · exact Or.inl hx

/-- destination = one account: the single part becomes one posting, the destination is credited if it is tracked -/
theorem finish_spec {env : VEnv} {e : Expr} {d src : Acct} {asset : Asset} {mn : Int} {st : St}
    (hd : evalAcct env e = .ok d) (hmn : 0 ≤ mn) (htr : src ≠ "world" → (st.bal.get src asset).isSome = true) :
    ∃ st', finishSend env (.acct e) ⟨asset, [⟨src, mn⟩]⟩ st = .ok st' ∧
      st'.postings = st.postings ++ [⟨src, d, mn, asset⟩] ∧
      ∀ x y, st'.bal.get x y =
        if x = d ∧ y = asset ∧ d ≠ "world" then (st.bal.get x y).map (· + mn) else st.bal.get x y := by
  by_cases h0 : mn = 0
  · subst h0
    refine ⟨{ emit d ⟨asset, [⟨src, 0⟩]⟩ st with
      bal := repay (emit d ⟨asset, [⟨src, 0⟩]⟩ st).bal asset [⟨src, 0⟩] }, ?_, ?_, ?_⟩
    · simp only [finishSend, evalDest, total_single, take_single_zero, hd]
    · simp [emit]
    · intro x y
      simp only [emit]
      rw [repay_zero, credit_get]
      intro hw
      rw [credit_get]
      obtain ⟨t, ht⟩ := Option.isSome_iff_exists.1 (htr hw)
      split <;> simp [ht]
  · have hpos : 0 < mn := by omega
    refine ⟨{ emit d ⟨asset, [⟨src, mn⟩]⟩ st with
      bal := repay (emit d ⟨asset, [⟨src, mn⟩]⟩ st).bal asset [] }, ?_, ?_, ?_⟩
    · simp only [finishSend, evalDest, total_single, take_single_eq src hpos, hd]
    · simp [emit]
    · intro x y
      simp only [emit, repay]
      rw [credit_get]


/-- what one posting does to the balance of `(x, y)` -/
def delta (p : Posting) (x : Acct) (y : Asset) (v : Int) : Int :=
  v - (if x = p.src ∧ y = p.asset then p.amt else 0) + (if x = p.dst ∧ y = p.asset then p.amt else 0)

/-- the effect of one generated `send` on the interpreter state: the posting is appended as it is, every tracked
balance other than world's moves by the posting, world's entries stay entries -/
def Post (st : St) (p : Posting) (st' : St) : Prop :=
  st'.postings = st.postings ++ [p] ∧
  (∀ x y, x ≠ "world" → st'.bal.get x y = (st.bal.get x y).map (delta p x y)) ∧
  (∀ y, (st'.bal.get "world" y).isSome = (st.bal.get "world" y).isSome)

theorem send_tail {env : VEnv} {dexpr : Expr} {p : Posting} {st : St} {b2 : Bal} {tb : Int}
    (hdv : evalAcct env dexpr = .ok p.dst) (hamt : 0 ≤ p.amt)
    (htr : st.bal.get p.src p.asset = some tb)
    (hsrc : ∃ w', b2.get p.src p.asset = some w' ∧ (p.src ≠ "world" → w' = tb - p.amt))
    (hfr : ∀ x y, (x ≠ p.src ∨ y ≠ p.asset) → b2.get x y = st.bal.get x y) :
    ∃ st', finishSend env (.acct dexpr) ⟨p.asset, [⟨p.src, p.amt⟩]⟩ { st with bal := b2 } = .ok st' ∧ Post st p st' := by
  obtain ⟨w', hw1, hw2⟩ := hsrc
  obtain ⟨st', h1, h2, h3⟩ := finish_spec (st := { st with bal := b2 }) (src := p.src) (asset := p.asset) hdv hamt
    (fun _ => by simp [hw1])
  refine ⟨st', h1, ?_, ?_, ?_⟩
  · rw [h2]
  · intro x y hx
    rw [h3]
    simp only
    by_cases hxy : x = p.src ∧ y = p.asset
    · obtain ⟨e1, e2⟩ := hxy
      subst e1; subst e2
      rw [hw1, htr, hw2 hx]
      by_cases hd : p.src = p.dst
      · simp [delta, ← hd, hx]
      · simp [delta, hd]
    · have hne : x ≠ p.src ∨ y ≠ p.asset := by
        by_cases h : x = p.src
        · exact Or.inr (fun hy => hxy ⟨h, hy⟩)
        · exact Or.inl h
      rw [hfr x y hne]
      by_cases hd : x = p.dst ∧ y = p.asset
      · obtain ⟨e1, e2⟩ := hd
        subst e1; subst e2
        have hsd : ¬ (p.dst = p.src) := fun e => hxy ⟨e, rfl⟩
        have h1 : (p.dst = p.dst ∧ p.asset = p.asset ∧ p.dst ≠ "world") := ⟨rfl, rfl, hx⟩
        rw [if_pos h1]
        cases st.bal.get p.dst p.asset with
        | none => rfl
        | some v => simp [delta, hsd]
      · have h1 : ¬ (x = p.dst ∧ y = p.asset ∧ p.dst ≠ "world") := fun h => hd ⟨h.1, h.2.1⟩
        rw [if_neg h1]
        cases st.bal.get x y with
        | none => rfl
        | some v => simp [delta, hxy, hd]
  · intro y
    rw [h3]
    simp only
    by_cases hy : p.src = "world" ∧ y = p.asset
    · have : ¬ ("world" = p.dst ∧ y = p.asset ∧ p.dst ≠ "world") := fun h => h.2.2 h.1.symm
      simp only [this, if_false]
      obtain ⟨e1, e2⟩ := hy
      subst e2
      rw [← e1, hw1, htr]; rfl
    · have hne : "world" ≠ p.src ∨ y ≠ p.asset := by
        by_cases h : "world" = p.src
        · exact Or.inr (fun e => hy ⟨h.symm, e⟩)
        · exact Or.inl h
      have : ¬ ("world" = p.dst ∧ y = p.asset ∧ p.dst ≠ "world") := fun h => h.2.2 h.1.symm
      simp only [this, if_false]
      rw [hfr _ _ hne]


theorem evalExpr_var {env : VEnv} {n : String} {v : Val} (h : lookupVar env n = some v) :
    evalExpr env (.var n) = .ok v := by
  simp [evalExpr, h]

theorem dest_eval {env : VEnv} {t : Tables} {p : Posting}
    (hd : p.dst ≠ "world" → lookupVar env (acctVar t.accts p.dst) = some (.acct p.dst)) :
    evalAcct env (if p.dst = "world" then Expr.acct "world" else Expr.var (acctVar t.accts p.dst)) = .ok p.dst := by
  by_cases h : p.dst = "world"
  · simp [h, evalAcct, evalExpr]
  · simp [h, evalAcct, evalExpr_var (hd h)]

/-- `evalSend` on a statement that is a `send` -/
def evalSendStmt (env : VEnv) (s : Stmt) (st : St) : Except Err St :=
  match s with
  | .send a src d => evalSend env a src d st
  | _ => .error .compile

/-- one generated `send`, all three source shapes -/
theorem send_spec {env : VEnv} {t : Tables} {ub : Bool} {p : Posting} {st : St} {tb : Int}
    (hs : p.src ≠ "world" → lookupVar env (acctVar t.accts p.src) = some (.acct p.src))
    (hd : p.dst ≠ "world" → lookupVar env (acctVar t.accts p.dst) = some (.acct p.dst))
    (hm : lookupVar env (monVar t.mons p) = some (.mon p.asset p.amt))
    (hamt : 0 ≤ p.amt) (htr : st.bal.get p.src p.asset = some tb) :
    (p.src = "world" ∨ ub = true ∨ p.amt = 0 ∨ p.amt ≤ tb →
      ∃ st', evalSendStmt env (sendOf t ub p) st = .ok st' ∧ Post st p st') ∧
    (¬ (p.src = "world" ∨ ub = true ∨ p.amt = 0 ∨ p.amt ≤ tb) →
      evalSendStmt env (sendOf t ub p) st = .error .insufficient) := by
  have hdv := dest_eval hd
  have hmv := evalExpr_var hm
  have hmax : 0 ≤ max tb 0 := by omega
  obtain ⟨b1, hw1, hw2, hw3⟩ := withdrawAll_zero htr
  by_cases hworld : p.src = "world"
  · -- source = @world
    constructor
    · intro _
      obtain ⟨b2, ht1, ht2, ht3, ht4⟩ := tfs_fallback (mn := p.amt) hmax hamt hw2
      obtain ⟨w', hw'⟩ := Option.isSome_iff_exists.1 ht4
      obtain ⟨st', hf1, hf2⟩ := send_tail (st := st) (b2 := b2) hdv hamt htr
        ⟨w', hw', fun h => absurd hworld h⟩
        (fun x y hxy => by rw [ht2 x y hxy, hw3 x y hxy])
      refine ⟨st', ?_, hf2⟩
      rw [hworld] at hw1 ht1
      simp only [evalSendStmt, sendOf, hworld, if_true, evalSend, leftAsset, leftOperand, evalMon, evalSource, evalAcct, evalExpr, hm,
        hw1, isWorldLit, ht1, Bool.false_eq_true, ↓reduceIte, Bool.or_false, Bool.or_true, Bool.false_or, Bool.true_or, decide_true, decide_false]
      rw [hworld] at hf1
      simpa using hf1
    · intro h; exact absurd (Or.inl hworld) h
  · have hsv := evalExpr_var (hs hworld)
    by_cases hub : ub = true
    · -- allowing unbounded overdraft
      constructor
      · intro _
        obtain ⟨b2, ht1, ht2, ht3, ht4⟩ := tfs_fallback (mn := p.amt) hmax hamt hw2
        obtain ⟨st', hf1, hf2⟩ := send_tail (st := st) (b2 := b2) hdv hamt htr
          ⟨tb - max tb 0 + max tb 0 - p.amt, ht3 hworld, fun _ => by omega⟩
          (fun x y hxy => by rw [ht2 x y hxy, hw3 x y hxy])
        refine ⟨st', ?_, hf2⟩
        simp only [evalSendStmt, sendOf, hworld, if_false, hub, if_true, evalSend, leftAsset, leftOperand, evalMon, evalExpr, hm, hs hworld, evalSource, evalAcct,
          hw1, isWorldLit, ht1, Bool.false_eq_true, ↓reduceIte, Bool.or_false, Bool.or_true, Bool.false_or, Bool.true_or, decide_true, decide_false]
        simpa using hf1
      · intro h; exact absurd (Or.inr (Or.inl hub)) h
    · -- plain bounded source
      obtain ⟨tb1, tb2⟩ := tfs_bounded (mn := p.amt) hworld hmax hamt hw2
      constructor
      · intro hc
        have hle : p.amt ≤ max tb 0 := by
          rcases hc with h | h | h | h
          · exact absurd h hworld
          · exact absurd h hub
          · omega
          · omega
        obtain ⟨b2, ht1, ht2, ht3⟩ := tb1 hle
        obtain ⟨st', hf1, hf2⟩ := send_tail (st := st) (b2 := b2) hdv hamt htr
          ⟨tb - max tb 0 + max tb 0 - p.amt, ht2, fun _ => by omega⟩
          (fun x y hxy => by rw [ht3 x y hxy, hw3 x y hxy])
        refine ⟨st', ?_, hf2⟩
        simp only [evalSendStmt, sendOf, hworld, if_false, hub, evalSend, leftAsset, leftOperand, evalMon, evalExpr, hm, hs hworld, evalSource, evalAcct,
          hw1, isWorldLit, ht1, Bool.false_eq_true, ↓reduceIte, Bool.or_false, Bool.or_true, Bool.false_or, Bool.true_or, decide_true, decide_false]
        simpa using hf1
      · intro hc
        have hgt : max tb 0 < p.amt := by
          have h1 : ¬ p.amt = 0 := fun h => hc (Or.inr (Or.inr (Or.inl h)))
          have h2 : ¬ p.amt ≤ tb := fun h => hc (Or.inr (Or.inr (Or.inr h)))
          omega
        simp only [evalSendStmt, sendOf, hworld, if_false, hub, evalSend, leftAsset, leftOperand, evalMon, evalExpr, hm, hs hworld, evalSource, evalAcct,
          hw1, isWorldLit, tb2 hgt, Bool.false_eq_true, ↓reduceIte, Bool.or_false, Bool.or_true, Bool.false_or, Bool.true_or, decide_true, decide_false]

end Tx
end Num
