import Model.Numscript.Syntax
/-! Facts about the front-end model (`Model/Numscript/Syntax.lean`) used by `Props/C12.lean` and `Props/C08.lean`. -/
namespace Num.Syntax

/-! ### maximal munch -/

theorem best_ge_init (cs : List Char) (rs : List (Kind × (List Char → Nat))) (b : Kind × Nat) :
    b.2 ≤ (best cs rs b).2 := by
  induction rs generalizing b with
  | nil => simp [best]
  | cons kf rest ih =>
    obtain ⟨k, f⟩ := kf
    simp only [best]
    by_cases h : f cs > b.2
    · simp only [h, if_true]
      have := ih (k, f cs)
      simp at this
      omega
    · simp only [h, if_false]
      exact ih b

theorem best_ge_rule (cs : List Char) (rs : List (Kind × (List Char → Nat))) (b : Kind × Nat) :
    ∀ kf ∈ rs, kf.2 cs ≤ (best cs rs b).2 := by
  induction rs generalizing b with
  | nil => simp
  | cons kf rest ih =>
    obtain ⟨k, f⟩ := kf
    intro kf' hm
    simp only [best]
    rcases List.mem_cons.mp hm with rfl | hm
    · by_cases h : f cs > b.2
      · simp only [h, if_true]
        have := best_ge_init cs rest (k, f cs)
        simpa using this
      · simp only [h, if_false]
        have := best_ge_init cs rest b
        simp at h ⊢
        omega
    · by_cases h : f cs > b.2
      · simp only [h, if_true]; exact ih _ kf' hm
      · simp only [h, if_false]; exact ih _ kf' hm

/-- the winner is one of the rules, with exactly the length that rule matches (or nothing matched) -/
theorem best_is_rule (cs : List Char) (rs : List (Kind × (List Char → Nat))) (b : Kind × Nat) :
    best cs rs b = b ∨ ∃ kf ∈ rs, best cs rs b = (kf.1, kf.2 cs) := by
  induction rs generalizing b with
  | nil => simp [best]
  | cons kf rest ih =>
    obtain ⟨k, f⟩ := kf
    simp only [best]
    by_cases h : f cs > b.2
    · simp only [h, if_true]
      rcases ih (k, f cs) with h1 | ⟨kf', hm, h1⟩
      · exact Or.inr ⟨(k, f), by simp, h1⟩
      · exact Or.inr ⟨kf', List.mem_cons_of_mem _ hm, h1⟩
    · simp only [h, if_false]
      rcases ih b with h1 | ⟨kf', hm, h1⟩
      · exact Or.inl h1
      · exact Or.inr ⟨kf', List.mem_cons_of_mem _ hm, h1⟩

/-- either nothing beats the incumbent, or the result is strictly longer -/
theorem best_eq_or_gt (cs : List Char) (rs : List (Kind × (List Char → Nat))) (b : Kind × Nat) :
    best cs rs b = b ∨ b.2 < (best cs rs b).2 := by
  induction rs generalizing b with
  | nil => simp [best]
  | cons kf rest ih =>
    obtain ⟨k, f⟩ := kf
    simp only [best]
    by_cases h : f cs > b.2
    · simp only [h, if_true]
      have := best_ge_init cs rest (k, f cs)
      simp at this
      exact Or.inr (by omega)
    · simp only [h, if_false]
      exact ih b

/-- ties go to the earlier rule: the winner is the FIRST rule of the list that reaches the winning length -/
theorem best_earliest (cs : List Char) (rs : List (Kind × (List Char → Nat))) (b : Kind × Nat)
    (h : b.2 < (best cs rs b).2) :
    ∃ pre kf post, rs = pre ++ kf :: post ∧ best cs rs b = (kf.1, kf.2 cs) ∧ ∀ g ∈ pre, g.2 cs < (best cs rs b).2 := by
  induction rs generalizing b with
  | nil => simp [best] at h
  | cons kf rest ih =>
    obtain ⟨k, f⟩ := kf
    simp only [best] at h ⊢
    by_cases hf : f cs > b.2
    · simp only [hf, if_true] at h ⊢
      rcases best_eq_or_gt cs rest (k, f cs) with he | hg
      · exact ⟨[], (k, f), rest, by simp, he, by simp⟩
      · obtain ⟨pre, kf', post, hr, hw, hp⟩ := ih (k, f cs) hg
        refine ⟨(k, f) :: pre, kf', post, by simp [hr], hw, ?_⟩
        intro g hgm
        rcases List.mem_cons.mp hgm with rfl | hgm
        · simpa using hg
        · exact hp g hgm
    · simp only [hf, if_false] at h ⊢
      obtain ⟨pre, kf', post, hr, hw, hp⟩ := ih b h
      refine ⟨(k, f) :: pre, kf', post, by simp [hr], hw, ?_⟩
      intro g hgm
      rcases List.mem_cons.mp hgm with rfl | hgm
      · simp at hf ⊢; omega
      · exact hp g hgm

/-! ### the token loop -/

theorem lexLoop_spec (fuel : Nat) (cs : List Char) (ts : List Token) (h : lexLoop fuel cs = .ok ts) :
    ts.flatMap (·.text) = cs ∧ ∀ t ∈ ts, t.text ≠ [] := by
  induction fuel generalizing cs ts with
  | zero =>
    cases cs with
    | nil => simp [lexLoop] at h; subst h; simp
    | cons c r => simp [lexLoop] at h
  | succ n ih =>
    cases cs with
    | nil => simp [lexLoop] at h; subst h; simp
    | cons c r =>
      simp only [lexLoop] at h
      by_cases h0 : (nextToken (c :: r)).2 = 0
      · simp [h0] at h
      · simp only [h0, if_false] at h
        cases hl : lexLoop n ((c :: r).drop (nextToken (c :: r)).2) with
        | error e => simp [hl] at h
        | ok ts' =>
          simp only [hl] at h
          injection h with h
          subst h
          obtain ⟨hc, hne⟩ := ih _ _ hl
          refine ⟨?_, ?_⟩
          · simp only [List.flatMap_cons, hc]
            exact List.take_append_drop _ _
          · intro t ht
            rcases List.mem_cons.mp ht with rfl | ht
            · obtain ⟨m, hm⟩ := Nat.exists_eq_succ_of_ne_zero h0
              simp [hm]
            · exact hne t ht

theorem length_flatMap_text (ts : List Token) : (ts.flatMap (·.text)).length = (ts.map (·.text.length)).sum := by
  induction ts with
  | nil => simp
  | cons t r ih => simp [ih]

theorem sum_filter_le (ts : List Token) (p : Token → Bool) :
    ((ts.filter p).map (·.text.length)).sum ≤ (ts.map (·.text.length)).sum := by
  induction ts with
  | nil => simp
  | cons t r ih =>
    by_cases h : p t = true
    · simp [h]; omega
    · simp [h]; omega

end Num.Syntax
