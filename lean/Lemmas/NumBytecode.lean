import Model.Numscript.Bytecode
/-! The byte string of a program decodes back to its instruction list: the VM's walk over `Instructions`
(`m.P += 2` after an `OP_APUSH`, `+1` otherwise) visits exactly the decoded instructions the model executes. -/
namespace Num

/-- the operand of an `OP_APUSH` fits its two bytes -/
def Instr.addrOK : Instr → Prop
  | .apush a => a < 65536
  | _ => True

theorem decodeOp_opcode (i : Instr) (h : ∀ a, i ≠ .apush a) : decodeOp i.opcode = some i ∧ i.opcode ≠ 1 := by
  cases i <;> first | exact absurd rfl (h _) | exact ⟨by decide, by decide⟩

theorem decode_encode (is : List Instr) (h : ∀ i ∈ is, i.addrOK) (fuel : Nat) (hf : (encodeNat is).length ≤ fuel) :
    decodeNat fuel (encodeNat is) = some is := by
  induction is generalizing fuel with
  | nil => cases fuel <;> simp [encodeNat, decodeNat]
  | cons i rest ih =>
    have hrest : ∀ j ∈ rest, j.addrOK := fun j hj => h j (List.mem_cons_of_mem _ hj)
    have hi := h i (List.mem_cons_self ..)
    simp only [encodeNat, List.flatMap_cons] at hf ⊢
    by_cases hap : ∃ a, i = .apush a
    · obtain ⟨a, rfl⟩ := hap
      simp only [Instr.addrOK] at hi
      simp only [encodeInstrNat, List.cons_append, List.nil_append, List.length_cons] at hf ⊢
      cases fuel with
      | zero => omega
      | succ f =>
        simp only [decodeNat, if_true]
        have hl : (encodeNat rest).length = (List.flatMap encodeInstrNat rest).length := rfl
        have := ih hrest f (by omega)
        simp only [encodeNat] at this
        rw [this]
        have key : ∀ n : Nat, n < 65536 → n % 256 + 256 * (n / 256 % 256) = n := by intro n hn; omega
        have : a % 256 + 256 * (a / 256 % 256) = a := key a hi
        simp [this]
    · have hne : ∀ a, i ≠ .apush a := fun a ha => hap ⟨a, ha⟩
      obtain ⟨hd, h1⟩ := decodeOp_opcode i hne
      have henc : encodeInstrNat i = [i.opcode] := by cases i <;> first | exact absurd rfl (hne _) | rfl
      rw [henc] at hf ⊢
      simp only [List.cons_append, List.nil_append, List.length_cons] at hf ⊢
      cases fuel with
      | zero => omega
      | succ f =>
        simp only [decodeNat, h1, if_false, hd]
        have hl : (encodeNat rest).length = (List.flatMap encodeInstrNat rest).length := rfl
        have := ih hrest f (by omega)
        simp only [encodeNat] at this
        rw [this]; rfl
end Num
