import Model.Store.FilterSem
import Lemmas.SqlText
/-! Lemmas for `Model.Store.FilterSem`: the precedence-aware reading (`boolParse`) of the `where` text rendered for a
filter expression is the intended meaning (`sem`) of that expression.  Core only. -/
namespace FilterSem
open SqlText

/-! ## walking over tokens at parenthesis depth -/

theorem scanTop_append (p : Cls → Bool) : ∀ (X Y : List Tok) (d : Nat),
    scanTop p d (X ++ Y) = (scanTop p d X).bind (fun d' => scanTop p d' Y)
  | [], Y, d => by simp [scanTop]
  | t :: X, Y, d => by
    simp only [List.cons_append, scanTop]
    by_cases h1 : cls t = .lp
    · simp only [h1, ↓reduceIte]; exact scanTop_append p X Y (d + 1)
    · by_cases h2 : cls t = .rp
      · simp only [h2, ↓reduceIte]
        by_cases h3 : d = 0
        · simp [h3]
        · simp only [h3, ↓reduceIte, reduceCtorEq]; exact scanTop_append p X Y (d - 1)
      · simp only [h1, h2, ↓reduceIte]
        by_cases h3 : d = 0 ∧ p (cls t) = true
        · simp [h3]
        · simp only [h3, ↓reduceIte]; exact scanTop_append p X Y d

/-- inside parentheses nothing is looked at -/
theorem scanTop_lift (p : Cls → Bool) : ∀ (A : List Tok) (k j m : Nat),
    scanTop never k A = some j → scanTop p (k + m + 1) A = some (j + m + 1)
  | [], k, j, m, h => by simp [scanTop] at h ⊢; omega
  | t :: A, k, j, m, h => by
    simp only [scanTop] at h ⊢
    by_cases h1 : cls t = .lp
    · simp only [h1, ↓reduceIte] at h ⊢
      have := scanTop_lift p A (k + 1) j m h
      rwa [show k + 1 + m + 1 = k + m + 1 + 1 by omega] at this
    · by_cases h2 : cls t = .rp
      · simp only [h2, ↓reduceIte, reduceCtorEq] at h ⊢
        by_cases h3 : k = 0
        · simp [h3] at h
        · simp only [h3, ↓reduceIte] at h
          have := scanTop_lift p A (k - 1) j m h
          rw [show k - 1 + m + 1 = k + m + 1 - 1 by omega] at this
          exact this
      · simp only [h1, h2, ↓reduceIte, never] at h ⊢
        simp only [Bool.false_eq_true, and_false, ↓reduceIte] at h
        rw [if_neg (by omega : ¬ (k + m + 1 = 0 ∧ p (cls t) = true))]
        exact scanTop_lift p A k j m h

theorem bal_iff (A : List Tok) : bal A = true ↔ scanTop never 0 A = some 0 := by
  simp [bal, topFree]

theorem topFree_iff (p : Cls → Bool) (A : List Tok) : topFree p A = true ↔ scanTop p 0 A = some 0 := by
  simp [topFree]

/-- a parenthesised balanced sequence is passed over as a whole, at any depth, whatever is looked for -/
theorem scanTop_group (p : Cls → Bool) (A : List Tok) (d : Nat) (t u : Tok) (ht : cls t = .lp) (hu : cls u = .rp)
    (hA : bal A = true) : scanTop p d (t :: (A ++ [u])) = some d := by
  rw [bal_iff] at hA
  have h1 := scanTop_lift p A 0 0 d hA
  simp only [scanTop, ht, ↓reduceIte]
  rw [scanTop_append, show d + 1 = 0 + d + 1 by omega, h1]
  simp [scanTop, hu]

/-- looking for fewer things fails less -/
theorem scanTop_mono (p q : Cls → Bool) (hpq : ∀ c, q c = true → p c = true) : ∀ (A : List Tok) (d d' : Nat),
    scanTop p d A = some d' → scanTop q d A = some d'
  | [], d, d', h => by simpa [scanTop] using h
  | t :: A, d, d', h => by
    simp only [scanTop] at h ⊢
    by_cases h1 : cls t = .lp
    · simp only [h1, ↓reduceIte] at h ⊢; exact scanTop_mono p q hpq A _ _ h
    · by_cases h2 : cls t = .rp
      · simp only [h2, ↓reduceIte, reduceCtorEq] at h ⊢
        by_cases h3 : d = 0
        · simp [h3] at h
        · simp only [h3, ↓reduceIte] at h ⊢; exact scanTop_mono p q hpq A _ _ h
      · simp only [h1, h2, ↓reduceIte] at h ⊢
        by_cases h3 : d = 0 ∧ p (cls t) = true
        · simp [h3] at h
        · simp only [h3, ↓reduceIte] at h
          have h4 : ¬ (d = 0 ∧ q (cls t) = true) := fun ⟨a, b⟩ => h3 ⟨a, hpq _ b⟩
          simp only [h4, ↓reduceIte]
          exact scanTop_mono p q hpq A _ _ h

theorem topFree_mono {p q : Cls → Bool} (hpq : ∀ c, q c = true → p c = true) {A : List Tok} (h : topFree p A = true) :
    topFree q A = true := by
  rw [topFree_iff] at h ⊢; exact scanTop_mono p q hpq A 0 0 h

theorem bal_of_topFree {p : Cls → Bool} {A : List Tok} (h : topFree p A = true) : bal A = true :=
  topFree_mono (p := p) (q := never) (fun c hc => by simp [never] at hc) h

theorem topFree_append {p : Cls → Bool} {X Y : List Tok} (hX : topFree p X = true) (hY : topFree p Y = true) :
    topFree p (X ++ Y) = true := by
  rw [topFree_iff] at hX hY ⊢
  rw [scanTop_append, hX]; exact hY

theorem topFree_cons_other {p : Cls → Bool} {t : Tok} {Y : List Tok} (h1 : cls t ≠ .lp) (h2 : cls t ≠ .rp)
    (h3 : p (cls t) = false) (hY : topFree p Y = true) : topFree p (t :: Y) = true := by
  rw [topFree_iff] at hY ⊢
  simp [scanTop, h1, h2, h3, hY]

theorem topFree_group (p : Cls → Bool) {A : List Tok} {t u : Tok} (ht : cls t = .lp) (hu : cls u = .rp)
    (hA : bal A = true) : topFree p (t :: (A ++ [u])) = true := by
  rw [topFree_iff]; exact scanTop_group p A 0 t u ht hu hA

/-! ## cutting at the connectives of depth 0 -/

theorem splitGo_free (p : Cls → Bool) : ∀ (X Y cur : List Tok) (d d' : Nat), scanTop p d X = some d' →
    splitGo p d cur (X ++ Y) = splitGo p d' (cur ++ X) Y
  | [], Y, cur, d, d', h => by simp [scanTop] at h; simp [h]
  | t :: X, Y, cur, d, d', h => by
    simp only [scanTop] at h
    simp only [List.cons_append, splitGo]
    by_cases h1 : cls t = .lp
    · simp only [h1, ↓reduceIte] at h ⊢
      rw [splitGo_free p X Y _ _ _ h]; simp
    · by_cases h2 : cls t = .rp
      · simp only [h2, ↓reduceIte, reduceCtorEq] at h ⊢
        by_cases h3 : d = 0
        · simp [h3] at h
        · simp only [h3, ↓reduceIte] at h
          rw [splitGo_free p X Y _ _ _ h]; simp
      · simp only [h1, h2, ↓reduceIte] at h ⊢
        by_cases h3 : d = 0 ∧ p (cls t) = true
        · simp [h3] at h
        · simp only [h3, ↓reduceIte] at h ⊢
          rw [splitGo_free p X Y _ _ _ h]; simp

/-- `O₁ sep O₂ sep … Oₙ` -/
def interc (sep : Tok) : List (List Tok) → List Tok
  | [] => []
  | [O] => O
  | O :: Os => O ++ sep :: interc sep Os

theorem interc_cons2 (sep : Tok) (O O' : List Tok) (Os : List (List Tok)) :
    interc sep (O :: O' :: Os) = O ++ sep :: interc sep (O' :: Os) := rfl

theorem splitGo_interc (p : Cls → Bool) (sep : Tok) (hs : p (cls sep) = true) (h1 : cls sep ≠ .lp) (h2 : cls sep ≠ .rp) :
    ∀ (Os : List (List Tok)) (O cur : List Tok), (∀ X ∈ O :: Os, topFree p X = true) →
      splitGo p 0 cur (interc sep (O :: Os)) = (cur ++ O) :: Os
  | [], O, cur, h => by
    have hO := (topFree_iff p O).mp (h O (by simp))
    have := splitGo_free p O [] cur 0 0 hO
    simp only [List.append_nil] at this
    simp [interc, this, splitGo]
  | O' :: Os, O, cur, h => by
    have hO := (topFree_iff p O).mp (h O (by simp))
    rw [interc_cons2, splitGo_free p O _ cur 0 0 hO]
    simp only [splitGo, h1, h2, hs, ↓reduceIte, and_self]
    rw [splitGo_interc p sep hs h1 h2 Os O' [] (fun X hX => h X (by simp at hX ⊢; right; exact hX))]
    simp

theorem splitTop_interc (p : Cls → Bool) (sep : Tok) (hs : p (cls sep) = true) (h1 : cls sep ≠ .lp) (h2 : cls sep ≠ .rp)
    (O : List Tok) (Os : List (List Tok)) (h : ∀ X ∈ O :: Os, topFree p X = true) :
    splitTop p (interc sep (O :: Os)) = O :: Os := by
  simpa [splitTop] using splitGo_interc p sep hs h1 h2 Os O [] h

theorem splitTop_single (p : Cls → Bool) (O : List Tok) (h : topFree p O = true) : splitTop p O = [O] := by
  have := splitGo_free p O [] [] 0 0 ((topFree_iff p O).mp h)
  simp only [List.append_nil, List.nil_append] at this
  simp [splitTop, this, splitGo]

theorem topFree_interc (q : Cls → Bool) (sep : Tok) (hs : q (cls sep) = false) (h1 : cls sep ≠ .lp) (h2 : cls sep ≠ .rp) :
    ∀ (Os : List (List Tok)) (O : List Tok), (∀ X ∈ O :: Os, topFree q X = true) → topFree q (interc sep (O :: Os)) = true
  | [], O, h => by simpa [interc] using h O (by simp)
  | O' :: Os, O, h => by
    rw [interc_cons2]
    refine topFree_append (h O (by simp)) (topFree_cons_other h1 h2 hs ?_)
    exact topFree_interc q sep hs h1 h2 Os O' (fun X hX => h X (by simp at hX ⊢; right; exact hX))

theorem length_le_interc (sep : Tok) : ∀ (Os : List (List Tok)) (X : List Tok), X ∈ Os → X.length ≤ (interc sep Os).length
  | [], X, h => by simp at h
  | [O], X, h => by simp at h; subst h; simp [interc]
  | O :: O' :: Os, X, h => by
    rw [interc_cons2]
    simp only [List.length_append, List.length_cons]
    rcases List.mem_cons.mp h with h | h
    · subst h; omega
    · have := length_le_interc sep (O' :: Os) X h; omega

/-! ## trees -/

theorem mkAnd_eval (asg : List Tok → Bool) : ∀ ts : List BTree, (mkAnd ts).eval asg = ts.all (·.eval asg)
  | [] => rfl
  | [t] => by simp [mkAnd]
  | t :: t' :: ts => by
    have := mkAnd_eval asg (t' :: ts)
    simp only [mkAnd, BTree.eval, this, List.all_cons]

theorem mkOr_eval (asg : List Tok → Bool) : ∀ (t : BTree) (ts : List BTree), (mkOr (t :: ts)).eval asg = (t :: ts).any (·.eval asg)
  | t, [] => by simp [mkOr]
  | t, t' :: ts => by
    have := mkOr_eval asg t' ts
    simp only [mkOr, BTree.eval, this, List.any_cons]

/-! ## operands and expressions that the reading understands -/

abbrev Meaning := (List Tok → Bool) → Bool

/-- `O` is read as ONE operand of a conjunction / disjunction (a parenthesised group, an atom, or `not` of one),
and means `m` -/
structure Opnd (O : List Tok) (m : Meaning) : Prop where
  ne : O ≠ []
  nosel : startsSelect O = false
  freeOr : topFree isOrC O = true
  freeAnd : topFree isAndC O = true
  parse : ∀ f, O.length ≤ f + 1 → ∃ t, parseOperand (parseG f) O = some t ∧ ∀ asg, t.eval asg = m asg

/-- `T` is read as a whole boolean expression meaning `m` (with enough fuel for its length), can be wrapped in
parentheses, and is not mistaken for a sub-select -/
structure Reads (T : List Tok) (m : Meaning) : Prop where
  bal : bal T = true
  nosel : startsSelect T = false
  parse : ∀ f, T.length < f → ∃ t, parseG f T = some t ∧ ∀ asg, t.eval asg = m asg

theorem paren_eq (T : List Tok) : paren T = tokLP :: (T ++ [tokRP]) := rfl
theorem cls_tokLP : cls tokLP = .lp := by decide
theorem cls_tokRP : cls tokRP = .rp := by decide

theorem stripGroup_paren {t u : Tok} (ht : cls t = .lp) (hu : cls u = .rp) {A : List Tok} (hA : bal A = true) :
    stripGroup (t :: (A ++ [u])) = some A := by
  simp [stripGroup, ht, hu, hA]

theorem stripGroup_none_of_head {t : Tok} {r : List Tok} (ht : cls t ≠ .lp) : stripGroup (t :: r) = none := by
  simp [stripGroup, ht]

theorem stripGroup_none_of_last {ts : List Tok} {u : Tok} (hu : cls u ≠ .rp) : stripGroup (ts ++ [u]) = none := by
  cases ts with
  | nil => simp only [List.nil_append, stripGroup]; split <;> simp
  | cons t r =>
    simp only [List.cons_append, stripGroup]
    split
    · simp [hu]
    · rfl

/-- a parenthesised expression is an operand with the same meaning -/
theorem paren_opnd {T : List Tok} {m : Meaning} (h : Reads T m) : Opnd (paren T) m where
  ne := by simp [paren_eq]
  nosel := by simp [paren_eq, startsSelect, tokLP]
  freeOr := topFree_group _ cls_tokLP cls_tokRP h.bal
  freeAnd := topFree_group _ cls_tokLP cls_tokRP h.bal
  parse := by
    intro f hf
    simp only [paren_eq, List.length_cons, List.length_append, List.length_nil] at hf
    obtain ⟨t, ht, hm⟩ := h.parse f (by omega)
    refine ⟨t, ?_, hm⟩
    show parseOperand (parseG f) (tokLP :: (T ++ [tokRP])) = some t
    rw [parseOperand]
    simp only [cls_tokLP, reduceCtorEq, ↓reduceIte, parsePrim,
      stripGroup_paren cls_tokLP cls_tokRP h.bal, h.nosel, Bool.false_eq_true]
    exact ht

theorem head_not_knot {t : Tok} {r : List Tok} (h : topFree isConn (t :: r) = true) : cls t ≠ .knot := by
  intro hk
  rw [topFree_iff] at h
  simp [scanTop, hk, isConn] at h

theorem Reads.congr {T : List Tok} {m m' : Meaning} (h : Reads T m) (hm : ∀ asg, m asg = m' asg) : Reads T m' :=
  ⟨h.bal, h.nosel, fun f hf => by obtain ⟨t, a, b⟩ := h.parse f hf; exact ⟨t, a, fun asg => (b asg).trans (hm asg)⟩⟩

theorem Opnd.congr {T : List Tok} {m m' : Meaning} (h : Opnd T m) (hm : ∀ asg, m asg = m' asg) : Opnd T m' :=
  ⟨h.ne, h.nosel, h.freeOr, h.freeAnd, fun f hf => by obtain ⟨t, a, b⟩ := h.parse f hf; exact ⟨t, a, fun asg => (b asg).trans (hm asg)⟩⟩

theorem isAtomToks_iff (A : List Tok) : isAtomToks A = true ↔
    A ≠ [] ∧ topFree isConn A = true ∧ stripGroup A = none ∧ startsSelect A = false ∧ A ≠ oneEqOne := by
  simp [isAtomToks, and_assoc]

theorem atomOf_atom {A : List Tok} (h : isAtomToks A = true) : atomOf A = some (.atom A) := by
  obtain ⟨h1, h2, _, _, h5⟩ := (isAtomToks_iff A).mp h
  simp [atomOf, h1, h2, h5]

/-- one opaque condition is an operand meaning itself -/
theorem atom_opnd {A : List Tok} (h : isAtomToks A = true) : Opnd A (fun asg => asg A) := by
  obtain ⟨h1, h2, h3, h4, h5⟩ := (isAtomToks_iff A).mp h
  refine ⟨h1, h4, topFree_mono (fun c hc => by cases c <;> simp_all [isOrC, isConn]) h2,
    topFree_mono (fun c hc => by cases c <;> simp_all [isAndC, isConn]) h2, ?_⟩
  intro f _
  cases A with
  | nil => exact absurd rfl h1
  | cons t r =>
    refine ⟨.atom (t :: r), ?_, fun _ => rfl⟩
    rw [parseOperand]
    simp only [head_not_knot h2, ↓reduceIte, parsePrim, h3]
    exact atomOf_atom h

def tokNot : Tok := (.ident "not", "")
theorem cls_tokNot : cls tokNot = .knot := by decide

/-- `not` in front of an operand is an operand meaning the negation -/
theorem not_opnd {O : List Tok} {m : Meaning} (h : Opnd O m) : Opnd (tokNot :: O) (fun asg => !(m asg)) where
  ne := by simp
  nosel := rfl
  freeOr := topFree_cons_other (by decide) (by decide) (by decide) h.freeOr
  freeAnd := topFree_cons_other (by decide) (by decide) (by decide) h.freeAnd
  parse := by
    intro f hf
    simp only [List.length_cons] at hf
    obtain ⟨t, ht, hm⟩ := h.parse f (by omega)
    refine ⟨.not t, ?_, fun asg => by simp [BTree.eval, hm]⟩
    rw [parseOperand]
    simp [cls_tokNot, ht]

theorem parseConj_single (rec : List Tok → Option BTree) {O : List Tok} (h : topFree isAndC O = true) :
    parseConj rec O = parseOperand rec O := by
  unfold parseConj
  rw [splitTop_single _ _ h]
  cases h' : parseOperand rec O <;> simp [allSome, mkAnd, h']

theorem parseDisj_single (rec : List Tok → Option BTree) {O : List Tok} (h : topFree isOrC O = true) :
    parseDisj rec O = parseConj rec O := by
  unfold parseDisj
  rw [splitTop_single _ _ h]
  cases h' : parseConj rec O <;> simp [allSome, mkOr, h']

theorem opnds_parse (f : Nat) : ∀ (items : List (List Tok × Meaning)), (∀ it ∈ items, Opnd it.1 it.2) →
    (∀ it ∈ items, it.1.length ≤ f + 1) →
    ∃ ts, allSome (items.map (fun it => parseOperand (parseG f) it.1)) = some ts ∧ ts.length = items.length ∧
      ∀ asg, ts.all (·.eval asg) = items.all (·.2 asg) ∧ ts.any (·.eval asg) = items.any (·.2 asg)
  | [], _, _ => ⟨[], rfl, rfl, fun _ => ⟨rfl, rfl⟩⟩
  | it :: items, h, hl => by
    obtain ⟨t, ht, hm⟩ := (h it (by simp)).parse f (hl it (by simp))
    obtain ⟨ts, hts, hlen, hms⟩ := opnds_parse f items (fun x hx => h x (by simp [hx])) (fun x hx => hl x (by simp [hx]))
    refine ⟨t :: ts, by simp [allSome, ht, hts], by simp [hlen], fun asg => ?_⟩
    simp [hm asg, (hms asg).1, (hms asg).2]

def sepTok (isAnd : Bool) : Tok := if isAnd then (.ident "and", "") else (.ident "or", "")

theorem startsSelect_append {O : List Tok} (X : List Tok) (h : O ≠ []) : startsSelect (O ++ X) = startsSelect O := by
  cases O with
  | nil => exact absurd rfl h
  | cons t r => rfl

theorem startsSelect_interc (sep : Tok) (O : List Tok) (Os : List (List Tok)) (h : O ≠ []) :
    startsSelect (interc sep (O :: Os)) = startsSelect O := by
  cases Os with
  | nil => rfl
  | cons O' Os => rw [interc_cons2, startsSelect_append _ h]

/-- operands joined by `and` (resp. `or`) are read as their conjunction (resp. disjunction) -/
theorem opnds_reads (isAnd : Bool) (it : List Tok × Meaning) (items : List (List Tok × Meaning))
    (h : ∀ x ∈ it :: items, Opnd x.1 x.2) :
    Reads (interc (sepTok isAnd) ((it :: items).map (·.1)))
      (fun asg => if isAnd then (it :: items).all (·.2 asg) else (it :: items).any (·.2 asg)) := by
  have hOr : ∀ X ∈ (it :: items).map (·.1), topFree isOrC X = true := by
    intro X hX; obtain ⟨x, hx, rfl⟩ := List.mem_map.mp hX; exact (h x hx).freeOr
  have hAnd : ∀ X ∈ (it :: items).map (·.1), topFree isAndC X = true := by
    intro X hX; obtain ⟨x, hx, rfl⟩ := List.mem_map.mp hX; exact (h x hx).freeAnd
  have hne : it.1 ≠ [] := (h it (by simp)).ne
  simp only [List.map_cons] at hOr hAnd ⊢
  cases isAnd with
  | true =>
    have s1 : cls (sepTok true) ≠ .lp := by decide
    have s2 : cls (sepTok true) ≠ .rp := by decide
    have hfree := topFree_interc isOrC (sepTok true) (by decide) s1 s2 _ _ hOr
    refine ⟨bal_of_topFree hfree, by rw [startsSelect_interc _ _ _ hne]; exact (h it (by simp)).nosel, ?_⟩
    intro f hf
    cases f with
    | zero => omega
    | succ f =>
      have hl : ∀ x ∈ it :: items, x.1.length ≤ f + 1 := by
        intro x hx
        have := length_le_interc (sepTok true) (it.1 :: items.map (·.1)) x.1 (by
          rw [← List.map_cons (f := fun x : List Tok × Meaning => x.1)]; exact List.mem_map_of_mem hx)
        omega
      obtain ⟨ts, hts, _, hms⟩ := opnds_parse f (it :: items) h hl
      refine ⟨mkAnd ts, ?_, fun asg => by simp only [mkAnd_eval, (hms asg).1, ↓reduceIte]⟩
      simp only [parseG]
      rw [parseDisj_single _ hfree]
      unfold parseConj
      rw [splitTop_interc isAndC (sepTok true) (by decide) s1 s2 _ _ hAnd]
      simp only [List.map_cons, List.map_map] at hts ⊢
      have : (List.map ((parseOperand (parseG f)) ∘ fun x : List Tok × Meaning => x.1) items) =
          List.map (fun it : List Tok × Meaning => parseOperand (parseG f) it.1) items := rfl
      rw [this, hts]; rfl
  | false =>
    have s1 : cls (sepTok false) ≠ .lp := by decide
    have s2 : cls (sepTok false) ≠ .rp := by decide
    have hfree := topFree_interc isAndC (sepTok false) (by decide) s1 s2 _ _ hAnd
    refine ⟨bal_of_topFree hfree, by rw [startsSelect_interc _ _ _ hne]; exact (h it (by simp)).nosel, ?_⟩
    intro f hf
    cases f with
    | zero => omega
    | succ f =>
      have hl : ∀ x ∈ it :: items, x.1.length ≤ f + 1 := by
        intro x hx
        have := length_le_interc (sepTok false) (it.1 :: items.map (·.1)) x.1 (by
          rw [← List.map_cons (f := fun x : List Tok × Meaning => x.1)]; exact List.mem_map_of_mem hx)
        omega
      obtain ⟨ts, hts, hlen, hms⟩ := opnds_parse f (it :: items) h hl
      cases ts with
      | nil => simp at hlen
      | cons t ts =>
        refine ⟨mkOr (t :: ts), ?_, fun asg => by simp only [mkOr_eval, (hms asg).2]; simp⟩
        simp only [parseG]
        unfold parseDisj
        rw [splitTop_interc isOrC (sepTok false) (by decide) s1 s2 _ _ hOr]
        have hc : List.map (parseConj (parseG f)) (it.1 :: items.map (·.1)) =
            List.map (fun it : List Tok × Meaning => parseOperand (parseG f) it.1) (it :: items) := by
          rw [← List.map_cons (f := fun x : List Tok × Meaning => x.1), List.map_map]
          apply List.map_congr_left
          intro x hx
          exact parseConj_single _ (h x hx).freeAnd
        rw [hc, hts]; rfl

/-- one operand alone is an expression -/
theorem opnd_reads {O : List Tok} {m : Meaning} (h : Opnd O m) : Reads O m := by
  have := opnds_reads true (O, m) [] (by simpa using h)
  simpa [interc] using this

end FilterSem
