import Model.Store.FilterSem
import Lemmas.SqlText
/-! Lemmas for `Model.Store.FilterSem`: the precedence-aware reading (`boolParse`) of the `where` text rendered for a
filter expression is the intended meaning (`sem`) of that expression.  Core only. -/
namespace FilterSem
open SqlText

/-! ## walking over tokens at parenthesis depth -/

theorem scanTop_append (p : Cls → Bool) : ∀ (X Y : List Tok) (d : Nat),
    scanTop p d (X ++ Y) = (scanTop p d X).bind (fun d' => scanTop p d' Y)
  | [], Y, d => by simp [scanTop]
  | t :: X, Y, d => by
    simp only [List.cons_append, scanTop]
    by_cases h1 : cls t = .lp
    · simp only [h1, ↓reduceIte]; exact scanTop_append p X Y (d + 1)
    · by_cases h2 : cls t = .rp
      · simp only [h2, ↓reduceIte]
        by_cases h3 : d = 0
        · simp [h3]
        · simp only [h3, ↓reduceIte, reduceCtorEq]; exact scanTop_append p X Y (d - 1)
      · simp only [h1, h2, ↓reduceIte]
        by_cases h3 : d = 0 ∧ p (cls t) = true
        · simp [h3]
        · simp only [h3, ↓reduceIte]; exact scanTop_append p X Y d

/-- inside parentheses nothing is looked at -/
theorem scanTop_lift (p : Cls → Bool) : ∀ (A : List Tok) (k j m : Nat),
    scanTop never k A = some j → scanTop p (k + m + 1) A = some (j + m + 1)
  | [], k, j, m, h => by simp [scanTop] at h ⊢; omega
  | t :: A, k, j, m, h => by
    simp only [scanTop] at h ⊢
    by_cases h1 : cls t = .lp
    · simp only [h1, ↓reduceIte] at h ⊢
      have := scanTop_lift p A (k + 1) j m h
      rwa [show k + 1 + m + 1 = k + m + 1 + 1 by omega] at this
    · by_cases h2 : cls t = .rp
      · simp only [h2, ↓reduceIte, reduceCtorEq] at h ⊢
        by_cases h3 : k = 0
        · simp [h3] at h
        · simp only [h3, ↓reduceIte] at h
          have := scanTop_lift p A (k - 1) j m h
          rw [show k - 1 + m + 1 = k + m + 1 - 1 by omega] at this
          exact this
      · simp only [h1, h2, ↓reduceIte, never] at h ⊢
        simp only [Bool.false_eq_true, and_false, ↓reduceIte] at h
        rw [if_neg (by omega : ¬ (k + m + 1 = 0 ∧ p (cls t) = true))]
        exact scanTop_lift p A k j m h

theorem bal_iff (A : List Tok) : bal A = true ↔ scanTop never 0 A = some 0 := by
  simp [bal, topFree]

theorem topFree_iff (p : Cls → Bool) (A : List Tok) : topFree p A = true ↔ scanTop p 0 A = some 0 := by
  simp [topFree]

/-- a parenthesised balanced sequence is passed over as a whole, at any depth, whatever is looked for -/
theorem scanTop_group (p : Cls → Bool) (A : List Tok) (d : Nat) (t u : Tok) (ht : cls t = .lp) (hu : cls u = .rp)
    (hA : bal A = true) : scanTop p d (t :: (A ++ [u])) = some d := by
  rw [bal_iff] at hA
  have h1 := scanTop_lift p A 0 0 d hA
  simp only [scanTop, ht, ↓reduceIte]
  rw [scanTop_append, show d + 1 = 0 + d + 1 by omega, h1]
  simp [scanTop, hu]

/-- looking for fewer things fails less -/
theorem scanTop_mono (p q : Cls → Bool) (hpq : ∀ c, q c = true → p c = true) : ∀ (A : List Tok) (d d' : Nat),
    scanTop p d A = some d' → scanTop q d A = some d'
  | [], d, d', h => by simpa [scanTop] using h
  | t :: A, d, d', h => by
    simp only [scanTop] at h ⊢
    by_cases h1 : cls t = .lp
    · simp only [h1, ↓reduceIte] at h ⊢; exact scanTop_mono p q hpq A _ _ h
    · by_cases h2 : cls t = .rp
      · simp only [h2, ↓reduceIte, reduceCtorEq] at h ⊢
        by_cases h3 : d = 0
        · simp [h3] at h
        · simp only [h3, ↓reduceIte] at h ⊢; exact scanTop_mono p q hpq A _ _ h
      · simp only [h1, h2, ↓reduceIte] at h ⊢
        by_cases h3 : d = 0 ∧ p (cls t) = true
        · simp [h3] at h
        · simp only [h3, ↓reduceIte] at h
          have h4 : ¬ (d = 0 ∧ q (cls t) = true) := fun ⟨a, b⟩ => h3 ⟨a, hpq _ b⟩
          simp only [h4, ↓reduceIte]
          exact scanTop_mono p q hpq A _ _ h

theorem topFree_mono {p q : Cls → Bool} (hpq : ∀ c, q c = true → p c = true) {A : List Tok} (h : topFree p A = true) :
    topFree q A = true := by
  rw [topFree_iff] at h ⊢; exact scanTop_mono p q hpq A 0 0 h

theorem bal_of_topFree {p : Cls → Bool} {A : List Tok} (h : topFree p A = true) : bal A = true :=
  topFree_mono (p := p) (q := never) (fun c hc => by simp [never] at hc) h

theorem topFree_append {p : Cls → Bool} {X Y : List Tok} (hX : topFree p X = true) (hY : topFree p Y = true) :
    topFree p (X ++ Y) = true := by
  rw [topFree_iff] at hX hY ⊢
  rw [scanTop_append, hX]; exact hY

theorem topFree_cons_other {p : Cls → Bool} {t : Tok} {Y : List Tok} (h1 : cls t ≠ .lp) (h2 : cls t ≠ .rp)
    (h3 : p (cls t) = false) (hY : topFree p Y = true) : topFree p (t :: Y) = true := by
  rw [topFree_iff] at hY ⊢
  simp [scanTop, h1, h2, h3, hY]

theorem topFree_group (p : Cls → Bool) {A : List Tok} {t u : Tok} (ht : cls t = .lp) (hu : cls u = .rp)
    (hA : bal A = true) : topFree p (t :: (A ++ [u])) = true := by
  rw [topFree_iff]; exact scanTop_group p A 0 t u ht hu hA

/-! ## cutting at the connectives of depth 0 -/

theorem splitGo_free (p : Cls → Bool) : ∀ (X Y cur : List Tok) (d d' : Nat), scanTop p d X = some d' →
    splitGo p d cur (X ++ Y) = splitGo p d' (cur ++ X) Y
  | [], Y, cur, d, d', h => by simp [scanTop] at h; simp [h]
  | t :: X, Y, cur, d, d', h => by
    simp only [scanTop] at h
    simp only [List.cons_append, splitGo]
    by_cases h1 : cls t = .lp
    · simp only [h1, ↓reduceIte] at h ⊢
      rw [splitGo_free p X Y _ _ _ h]; simp
    · by_cases h2 : cls t = .rp
      · simp only [h2, ↓reduceIte, reduceCtorEq] at h ⊢
        by_cases h3 : d = 0
        · simp [h3] at h
        · simp only [h3, ↓reduceIte] at h
          rw [splitGo_free p X Y _ _ _ h]; simp
      · simp only [h1, h2, ↓reduceIte] at h ⊢
        by_cases h3 : d = 0 ∧ p (cls t) = true
        · simp [h3] at h
        · simp only [h3, ↓reduceIte] at h ⊢
          rw [splitGo_free p X Y _ _ _ h]; simp

/-- `O₁ sep O₂ sep … Oₙ` -/
def interc (sep : Tok) : List (List Tok) → List Tok
  | [] => []
  | [O] => O
  | O :: Os => O ++ sep :: interc sep Os

theorem interc_cons2 (sep : Tok) (O O' : List Tok) (Os : List (List Tok)) :
    interc sep (O :: O' :: Os) = O ++ sep :: interc sep (O' :: Os) := rfl

theorem splitGo_interc (p : Cls → Bool) (sep : Tok) (hs : p (cls sep) = true) (h1 : cls sep ≠ .lp) (h2 : cls sep ≠ .rp) :
    ∀ (Os : List (List Tok)) (O cur : List Tok), (∀ X ∈ O :: Os, topFree p X = true) →
      splitGo p 0 cur (interc sep (O :: Os)) = (cur ++ O) :: Os
  | [], O, cur, h => by
    have hO := (topFree_iff p O).mp (h O (by simp))
    have := splitGo_free p O [] cur 0 0 hO
    simp only [List.append_nil] at this
    simp [interc, this, splitGo]
  | O' :: Os, O, cur, h => by
    have hO := (topFree_iff p O).mp (h O (by simp))
    rw [interc_cons2, splitGo_free p O _ cur 0 0 hO]
    simp only [splitGo, h1, h2, hs, ↓reduceIte, and_self]
    rw [splitGo_interc p sep hs h1 h2 Os O' [] (fun X hX => h X (by simp at hX ⊢; right; exact hX))]
    simp

theorem splitTop_interc (p : Cls → Bool) (sep : Tok) (hs : p (cls sep) = true) (h1 : cls sep ≠ .lp) (h2 : cls sep ≠ .rp)
    (O : List Tok) (Os : List (List Tok)) (h : ∀ X ∈ O :: Os, topFree p X = true) :
    splitTop p (interc sep (O :: Os)) = O :: Os := by
  simpa [splitTop] using splitGo_interc p sep hs h1 h2 Os O [] h

theorem splitTop_single (p : Cls → Bool) (O : List Tok) (h : topFree p O = true) : splitTop p O = [O] := by
  have := splitGo_free p O [] [] 0 0 ((topFree_iff p O).mp h)
  simp only [List.append_nil, List.nil_append] at this
  simp [splitTop, this, splitGo]

theorem topFree_interc (q : Cls → Bool) (sep : Tok) (hs : q (cls sep) = false) (h1 : cls sep ≠ .lp) (h2 : cls sep ≠ .rp) :
    ∀ (Os : List (List Tok)) (O : List Tok), (∀ X ∈ O :: Os, topFree q X = true) → topFree q (interc sep (O :: Os)) = true
  | [], O, h => by simpa [interc] using h O (by simp)
  | O' :: Os, O, h => by
    rw [interc_cons2]
    refine topFree_append (h O (by simp)) (topFree_cons_other h1 h2 hs ?_)
    exact topFree_interc q sep hs h1 h2 Os O' (fun X hX => h X (by simp at hX ⊢; right; exact hX))

theorem length_le_interc (sep : Tok) : ∀ (Os : List (List Tok)) (X : List Tok), X ∈ Os → X.length ≤ (interc sep Os).length
  | [], X, h => by simp at h
  | [O], X, h => by simp at h; subst h; simp [interc]
  | O :: O' :: Os, X, h => by
    rw [interc_cons2]
    simp only [List.length_append, List.length_cons]
    rcases List.mem_cons.mp h with h | h
    · subst h; omega
    · have := length_le_interc sep (O' :: Os) X h; omega

/-! ## trees -/

theorem mkAnd_eval (asg : List Tok → Bool) : ∀ ts : List BTree, (mkAnd ts).eval asg = ts.all (·.eval asg)
  | [] => rfl
  | [t] => by simp [mkAnd]
  | t :: t' :: ts => by
    have := mkAnd_eval asg (t' :: ts)
    simp only [mkAnd, BTree.eval, this, List.all_cons]

theorem mkOr_eval (asg : List Tok → Bool) : ∀ (t : BTree) (ts : List BTree), (mkOr (t :: ts)).eval asg = (t :: ts).any (·.eval asg)
  | t, [] => by simp [mkOr]
  | t, t' :: ts => by
    have := mkOr_eval asg t' ts
    simp only [mkOr, BTree.eval, this, List.any_cons]

/-! ## operands and expressions that the reading understands -/

abbrev Meaning := (List Tok → Bool) → Bool

/-- `O` is read as ONE operand of a conjunction / disjunction (a parenthesised group, an atom, or `not` of one),
and means `m` -/
structure Opnd (O : List Tok) (m : Meaning) : Prop where
  ne : O ≠ []
  nosel : startsSelect O = false
  freeOr : topFree isOrC O = true
  freeAnd : topFree isAndC O = true
  parse : ∀ f, O.length ≤ f + 1 → ∃ t, parseOperand (parseG f) O = some t ∧ ∀ asg, t.eval asg = m asg

/-- `T` is read as a whole boolean expression meaning `m` (with enough fuel for its length), can be wrapped in
parentheses, and is not mistaken for a sub-select -/
structure Reads (T : List Tok) (m : Meaning) : Prop where
  bal : bal T = true
  nosel : startsSelect T = false
  parse : ∀ f, T.length < f → ∃ t, parseG f T = some t ∧ ∀ asg, t.eval asg = m asg

theorem paren_eq (T : List Tok) : paren T = tokLP :: (T ++ [tokRP]) := rfl
theorem cls_tokLP : cls tokLP = .lp := by decide
theorem cls_tokRP : cls tokRP = .rp := by decide

theorem stripGroup_paren {t u : Tok} (ht : cls t = .lp) (hu : cls u = .rp) {A : List Tok} (hA : bal A = true) :
    stripGroup (t :: (A ++ [u])) = some A := by
  simp [stripGroup, ht, hu, hA]

theorem stripGroup_none_of_head {t : Tok} {r : List Tok} (ht : cls t ≠ .lp) : stripGroup (t :: r) = none := by
  simp [stripGroup, ht]

theorem stripGroup_none_of_last {ts : List Tok} {u : Tok} (hu : cls u ≠ .rp) : stripGroup (ts ++ [u]) = none := by
  cases ts with
  | nil => simp only [List.nil_append, stripGroup]; split <;> simp
  | cons t r =>
    simp only [List.cons_append, stripGroup]
    split
    · simp [hu]
    · rfl

/-- a parenthesised expression is an operand with the same meaning -/
theorem paren_opnd {T : List Tok} {m : Meaning} (h : Reads T m) : Opnd (paren T) m where
  ne := by simp [paren_eq]
  nosel := by simp [paren_eq, startsSelect, tokLP]
  freeOr := topFree_group _ cls_tokLP cls_tokRP h.bal
  freeAnd := topFree_group _ cls_tokLP cls_tokRP h.bal
  parse := by
    intro f hf
    simp only [paren_eq, List.length_cons, List.length_append, List.length_nil] at hf
    obtain ⟨t, ht, hm⟩ := h.parse f (by omega)
    refine ⟨t, ?_, hm⟩
    show parseOperand (parseG f) (tokLP :: (T ++ [tokRP])) = some t
    rw [parseOperand]
    simp only [cls_tokLP, reduceCtorEq, ↓reduceIte, parsePrim,
      stripGroup_paren cls_tokLP cls_tokRP h.bal, h.nosel, Bool.false_eq_true]
    exact ht

theorem head_not_knot {t : Tok} {r : List Tok} (h : topFree isConn (t :: r) = true) : cls t ≠ .knot := by
  intro hk
  rw [topFree_iff] at h
  simp [scanTop, hk, isConn] at h

theorem Reads.congr {T : List Tok} {m m' : Meaning} (h : Reads T m) (hm : ∀ asg, m asg = m' asg) : Reads T m' :=
  ⟨h.bal, h.nosel, fun f hf => by obtain ⟨t, a, b⟩ := h.parse f hf; exact ⟨t, a, fun asg => (b asg).trans (hm asg)⟩⟩

theorem Opnd.congr {T : List Tok} {m m' : Meaning} (h : Opnd T m) (hm : ∀ asg, m asg = m' asg) : Opnd T m' :=
  ⟨h.ne, h.nosel, h.freeOr, h.freeAnd, fun f hf => by obtain ⟨t, a, b⟩ := h.parse f hf; exact ⟨t, a, fun asg => (b asg).trans (hm asg)⟩⟩

theorem isAtomToks_iff (A : List Tok) : isAtomToks A = true ↔
    A ≠ [] ∧ topFree isConn A = true ∧ stripGroup A = none ∧ startsSelect A = false ∧ A ≠ oneEqOne := by
  simp [isAtomToks, and_assoc]

theorem atomOf_atom {A : List Tok} (h : isAtomToks A = true) : atomOf A = some (.atom A) := by
  obtain ⟨h1, h2, _, _, h5⟩ := (isAtomToks_iff A).mp h
  simp [atomOf, h1, h2, h5]

/-- one opaque condition is an operand meaning itself -/
theorem atom_opnd {A : List Tok} (h : isAtomToks A = true) : Opnd A (fun asg => asg A) := by
  obtain ⟨h1, h2, h3, h4, h5⟩ := (isAtomToks_iff A).mp h
  refine ⟨h1, h4, topFree_mono (fun c hc => by cases c <;> simp_all [isOrC, isConn]) h2,
    topFree_mono (fun c hc => by cases c <;> simp_all [isAndC, isConn]) h2, ?_⟩
  intro f _
  cases A with
  | nil => exact absurd rfl h1
  | cons t r =>
    refine ⟨.atom (t :: r), ?_, fun _ => rfl⟩
    rw [parseOperand]
    simp only [head_not_knot h2, ↓reduceIte, parsePrim, h3]
    exact atomOf_atom h

def tokNot : Tok := (.ident "not", "")
theorem cls_tokNot : cls tokNot = .knot := by decide

/-- `not` in front of an operand is an operand meaning the negation -/
theorem not_opnd {O : List Tok} {m : Meaning} (h : Opnd O m) : Opnd (tokNot :: O) (fun asg => !(m asg)) where
  ne := by simp
  nosel := rfl
  freeOr := topFree_cons_other (by decide) (by decide) (by decide) h.freeOr
  freeAnd := topFree_cons_other (by decide) (by decide) (by decide) h.freeAnd
  parse := by
    intro f hf
    simp only [List.length_cons] at hf
    obtain ⟨t, ht, hm⟩ := h.parse f (by omega)
    refine ⟨.not t, ?_, fun asg => by simp [BTree.eval, hm]⟩
    rw [parseOperand]
    simp [cls_tokNot, ht]

theorem parseConj_single (rec : List Tok → Option BTree) {O : List Tok} (h : topFree isAndC O = true) :
    parseConj rec O = parseOperand rec O := by
  unfold parseConj
  rw [splitTop_single _ _ h]
  cases h' : parseOperand rec O <;> simp [allSome, mkAnd, h']

theorem parseDisj_single (rec : List Tok → Option BTree) {O : List Tok} (h : topFree isOrC O = true) :
    parseDisj rec O = parseConj rec O := by
  unfold parseDisj
  rw [splitTop_single _ _ h]
  cases h' : parseConj rec O <;> simp [allSome, mkOr, h']

theorem opnds_parse (f : Nat) : ∀ (items : List (List Tok × Meaning)), (∀ it ∈ items, Opnd it.1 it.2) →
    (∀ it ∈ items, it.1.length ≤ f + 1) →
    ∃ ts, allSome (items.map (fun it => parseOperand (parseG f) it.1)) = some ts ∧ ts.length = items.length ∧
      ∀ asg, ts.all (·.eval asg) = items.all (·.2 asg) ∧ ts.any (·.eval asg) = items.any (·.2 asg)
  | [], _, _ => ⟨[], rfl, rfl, fun _ => ⟨rfl, rfl⟩⟩
  | it :: items, h, hl => by
    obtain ⟨t, ht, hm⟩ := (h it (by simp)).parse f (hl it (by simp))
    obtain ⟨ts, hts, hlen, hms⟩ := opnds_parse f items (fun x hx => h x (by simp [hx])) (fun x hx => hl x (by simp [hx]))
    refine ⟨t :: ts, by simp [allSome, ht, hts], by simp [hlen], fun asg => ?_⟩
    simp [hm asg, (hms asg).1, (hms asg).2]

def sepTok (isAnd : Bool) : Tok := if isAnd then (.ident "and", "") else (.ident "or", "")

theorem startsSelect_append {O : List Tok} (X : List Tok) (h : O ≠ []) : startsSelect (O ++ X) = startsSelect O := by
  cases O with
  | nil => exact absurd rfl h
  | cons t r => rfl

theorem startsSelect_interc (sep : Tok) (O : List Tok) (Os : List (List Tok)) (h : O ≠ []) :
    startsSelect (interc sep (O :: Os)) = startsSelect O := by
  cases Os with
  | nil => rfl
  | cons O' Os => rw [interc_cons2, startsSelect_append _ h]

/-- operands joined by `and` (resp. `or`) are read as their conjunction (resp. disjunction) -/
theorem opnds_reads_sep (isAnd : Bool) (sep : Tok) (hsep : cls sep = if isAnd then .kand else .kor)
    (it : List Tok × Meaning) (items : List (List Tok × Meaning))
    (h : ∀ x ∈ it :: items, Opnd x.1 x.2) :
    Reads (interc sep ((it :: items).map (·.1)))
      (fun asg => if isAnd then (it :: items).all (·.2 asg) else (it :: items).any (·.2 asg)) := by
  have hOr : ∀ X ∈ (it :: items).map (·.1), topFree isOrC X = true := by
    intro X hX; obtain ⟨x, hx, rfl⟩ := List.mem_map.mp hX; exact (h x hx).freeOr
  have hAnd : ∀ X ∈ (it :: items).map (·.1), topFree isAndC X = true := by
    intro X hX; obtain ⟨x, hx, rfl⟩ := List.mem_map.mp hX; exact (h x hx).freeAnd
  have hne : it.1 ≠ [] := (h it (by simp)).ne
  simp only [List.map_cons] at hOr hAnd ⊢
  cases isAnd with
  | true =>
    simp only [↓reduceIte] at hsep
    have s1 : cls sep ≠ .lp := by rw [hsep]; decide
    have s2 : cls sep ≠ .rp := by rw [hsep]; decide
    have hfree := topFree_interc isOrC sep (by rw [hsep]; rfl) s1 s2 _ _ hOr
    refine ⟨bal_of_topFree hfree, by rw [startsSelect_interc _ _ _ hne]; exact (h it (by simp)).nosel, ?_⟩
    intro f hf
    cases f with
    | zero => omega
    | succ f =>
      have hl : ∀ x ∈ it :: items, x.1.length ≤ f + 1 := by
        intro x hx
        have := length_le_interc sep (it.1 :: items.map (·.1)) x.1 (by
          rw [← List.map_cons (f := fun x : List Tok × Meaning => x.1)]; exact List.mem_map_of_mem hx)
        omega
      obtain ⟨ts, hts, _, hms⟩ := opnds_parse f (it :: items) h hl
      refine ⟨mkAnd ts, ?_, fun asg => by simp only [mkAnd_eval, (hms asg).1, ↓reduceIte]⟩
      simp only [parseG]
      rw [parseDisj_single _ hfree]
      unfold parseConj
      rw [splitTop_interc isAndC sep (by rw [hsep]; rfl) s1 s2 _ _ hAnd]
      simp only [List.map_cons, List.map_map] at hts ⊢
      have : (List.map ((parseOperand (parseG f)) ∘ fun x : List Tok × Meaning => x.1) items) =
          List.map (fun it : List Tok × Meaning => parseOperand (parseG f) it.1) items := rfl
      rw [this, hts]; rfl
  | false =>
    simp only [Bool.false_eq_true, ↓reduceIte] at hsep
    have s1 : cls sep ≠ .lp := by rw [hsep]; decide
    have s2 : cls sep ≠ .rp := by rw [hsep]; decide
    have hfree := topFree_interc isAndC sep (by rw [hsep]; rfl) s1 s2 _ _ hAnd
    refine ⟨bal_of_topFree hfree, by rw [startsSelect_interc _ _ _ hne]; exact (h it (by simp)).nosel, ?_⟩
    intro f hf
    cases f with
    | zero => omega
    | succ f =>
      have hl : ∀ x ∈ it :: items, x.1.length ≤ f + 1 := by
        intro x hx
        have := length_le_interc sep (it.1 :: items.map (·.1)) x.1 (by
          rw [← List.map_cons (f := fun x : List Tok × Meaning => x.1)]; exact List.mem_map_of_mem hx)
        omega
      obtain ⟨ts, hts, hlen, hms⟩ := opnds_parse f (it :: items) h hl
      cases ts with
      | nil => simp at hlen
      | cons t ts =>
        refine ⟨mkOr (t :: ts), ?_, fun asg => by simp only [mkOr_eval, (hms asg).2]; simp⟩
        simp only [parseG]
        unfold parseDisj
        rw [splitTop_interc isOrC sep (by rw [hsep]; rfl) s1 s2 _ _ hOr]
        have hc : List.map (parseConj (parseG f)) (it.1 :: items.map (·.1)) =
            List.map (fun it : List Tok × Meaning => parseOperand (parseG f) it.1) (it :: items) := by
          rw [← List.map_cons (f := fun x : List Tok × Meaning => x.1), List.map_map]
          apply List.map_congr_left
          intro x hx
          exact parseConj_single _ (h x hx).freeAnd
        rw [hc, hts]; rfl

theorem opnds_reads (isAnd : Bool) (it : List Tok × Meaning) (items : List (List Tok × Meaning))
    (h : ∀ x ∈ it :: items, Opnd x.1 x.2) :
    Reads (interc (sepTok isAnd) ((it :: items).map (·.1)))
      (fun asg => if isAnd then (it :: items).all (·.2 asg) else (it :: items).any (·.2 asg)) :=
  opnds_reads_sep isAnd (sepTok isAnd) (by cases isAnd <;> decide) it items h

/-- one operand alone is an expression -/
theorem opnd_reads {O : List Tok} {m : Meaning} (h : Opnd O m) : Reads O m := by
  have := opnds_reads true (O, m) [] (by simpa using h)
  simpa [interc] using this

/-! ## the scanner on pieces -/

/-- the text collected for the token that is being read when the actions end -/
def pend : Chars → List Act → Chars
  | acc, [] => acc
  | acc, .push c :: as => pend (acc ++ [c]) as
  | _, .emit _ :: as => pend [] as

theorem interp_append (A B : List Act) : ∀ acc, interp acc (A ++ B) = interp acc A ++ interp (pend acc A) B := by
  induction A with
  | nil => intro acc; simp [interp, pend]
  | cons x xs ih => intro acc; cases x <;> simp [interp, pend, ih]

/-- text that ends at a token boundary is scanned on its own -/
theorem lexL_append_boundary (a b : Chars) (h1 : (run .dflt a).1 = .dflt) (h2 : pend [] (run .dflt a).2 = []) :
    lexL (a ++ b) = lexL a ++ lexL b := by
  have e1 : lexL a = interp [] (run .dflt a).2 := by
    simp only [lexL, lexFrom, acts, h1, finish, List.append_nil]
  have e2 : lexL (a ++ b) = interp [] ((run .dflt a).2 ++ ((run .dflt b).2 ++ finish (run .dflt b).1)) := by
    simp only [lexL, lexFrom, acts, run_append, h1, List.append_assoc]
  have e3 : lexL b = interp [] ((run .dflt b).2 ++ finish (run .dflt b).1) := by
    simp only [lexL, lexFrom, acts]
  rw [e1, e2, e3, interp_append, h2]

theorem run_num_digits {cs : Chars} (h : ∀ c ∈ cs, c.isDigit = true) : run .num cs = (.num, pushAll cs) := by
  induction cs with
  | nil => rfl
  | cons c cs ih =>
    have hc := h c (by simp)
    simp [run, step, hc, ih (fun d hd => h d (by simp [hd])), pushAll]

theorem lexL_digits {cs : Chars} (hne : cs ≠ []) (h : ∀ c ∈ cs, c.isDigit = true) :
    lexL cs = [(.num, String.ofList cs)] := by
  cases cs with
  | nil => exact absurd rfl hne
  | cons c cs =>
    have hc := h c (by simp)
    have h0 : step .dflt c = (.num, [.push c]) := by simp [step, stepD, classOf_digit hc]
    have hr := run_num_digits (cs := cs) (fun d hd => h d (by simp [hd]))
    simp only [lexL, lexFrom, acts, run, h0, hr]
    simp only [finish]
    have := interp_pushAll [] (c :: cs) [.emit .num]
    simpa [pushAll, interp] using this

theorem lexL_natDigits (n : Nat) : lexL (natDigits n) = [(.num, String.ofList (natDigits n))] :=
  lexL_digits (natDigits_ne_nil n) (natDigits_isDigit n)

theorem lexL_neg_digits {cs : Chars} (hne : cs ≠ []) (h : ∀ c ∈ cs, c.isDigit = true) :
    lexL ('-' :: cs) = [(.op "-", ""), (.num, String.ofList cs)] := by
  cases cs with
  | nil => exact absurd rfl hne
  | cons c cs =>
    have hc := h c (by simp)
    have h0 : step .dflt '-' = (.op ['-'], []) := by decide
    have hne1 : c ≠ '-' := by intro h'; subst h'; revert hc; decide
    have hne2 : c ≠ '*' := by intro h'; subst h'; revert hc; decide
    have h1 : step (.op ['-']) c = (.num, [.emit (.op "-"), .push c]) := by
      simp [step, hne1, hne2, digit_not_op hc, stepD, classOf_digit hc, opToks]
    have hr := run_num_digits (cs := cs) (fun d hd => h d (by simp [hd]))
    simp only [lexL, lexFrom, acts, run, h0, h1, hr]
    simp only [finish]
    have := interp_pushAll [c] cs [.emit .num]
    simp only [List.nil_append, List.cons_append, interp]
    simpa [pushAll, interp] using this

theorem pieceToks_append (ps qs : List Piece) : pieceToks (ps ++ qs) = pieceToks ps ++ pieceToks qs := by
  induction ps with
  | nil => rfl
  | cons p ps ih => simp [pieceToks, ih]

theorem pieceToks_code (c : Chars) (ps : List Piece) : pieceToks (.code c :: ps) = lexL c ++ pieceToks ps := rfl

/-- the token of a quoted literal -/
def strTok (b : Chars) : Tok := (.str, String.ofList (unq b))

theorem cls_strTok (b : Chars) : cls (strTok b) = .other := rfl

theorem pieceToks_lit {b : Chars} (h : QSafe b) (ps : List Piece) : pieceToks (.lit b :: ps) = strTok b :: pieceToks ps := by
  show lexL ('\'' :: (b ++ ['\''])) ++ pieceToks ps = _
  rw [lexL_quoted h]; rfl

/-! ## single conditions -/

def OtherToks (R : List Tok) : Prop := ∀ t ∈ R, cls t = .other
instance (R : List Tok) : Decidable (OtherToks R) := by unfold OtherToks; infer_instance

theorem scanTop_other (p : Cls → Bool) (hp : p .other = false) : ∀ (R : List Tok), OtherToks R → ∀ d, scanTop p d R = some d
  | [], _, d => rfl
  | t :: R, h, d => by
    have ht := h t (by simp)
    simp only [scanTop, ht, reduceCtorEq, ↓reduceIte, hp, Bool.false_eq_true, and_false]
    exact scanTop_other p hp R (fun u hu => h u (by simp [hu])) d

theorem otherToks_append {R S : List Tok} (hR : OtherToks R) (hS : OtherToks S) : OtherToks (R ++ S) := by
  intro t ht
  rcases List.mem_append.mp ht with h | h
  · exact hR t h
  · exact hS t h

/-- a bound argument is rendered as tokens that are neither parentheses nor connectives -/
theorem argToks_other (v : JV) : pieceToks [argPiece v] ≠ [] ∧ OtherToks (pieceToks [argPiece v]) := by
  have lit : ∀ b, QSafe b → pieceToks [.lit b] ≠ [] ∧ OtherToks (pieceToks [.lit b]) := by
    intro b hb
    rw [pieceToks_lit hb]
    exact ⟨by simp, by intro t ht; simp [pieceToks] at ht; subst ht; rfl⟩
  cases v with
  | null => exact ⟨by decide, by decide⟩
  | bool b => cases b <;> exact ⟨by decide, by decide⟩
  | num n =>
    cases n with
    | ofNat n =>
      show lexL (natDigits n) ++ [] ≠ [] ∧ OtherToks (lexL (natDigits n) ++ [])
      rw [lexL_natDigits]
      exact ⟨by simp, by intro t ht; simp at ht; subst ht; rfl⟩
    | negSucc n =>
      show lexL ('-' :: natDigits (n + 1)) ++ [] ≠ [] ∧ OtherToks (lexL ('-' :: natDigits (n + 1)) ++ [])
      rw [lexL_neg_digits (natDigits_ne_nil _) (natDigits_isDigit _)]
      exact ⟨by simp, by intro t ht; simp at ht; rcases ht with rfl | rfl <;> rfl⟩
  | str s => exact lit _ (qsafe_quoteBody s)
  | arr xs => exact lit _ (qsafe_jsonBody _ (jsafe_goJson _))
  | obj kvs => exact lit _ (qsafe_jsonBody _ (jsafe_goJson _))

/-- the first token is an ordinary one: not a parenthesis, not a connective, not `select`, not a number -/
def goodHead : List Tok → Bool
  | [] => false
  | t :: _ => decide (cls t = .other) && !startsSelect [t] && decide (t.1 ≠ .num)

theorem isAtomToks_of_goodHead {C X : List Tok} (hC : goodHead C = true) (hfree : topFree isConn (C ++ X) = true) :
    isAtomToks (C ++ X) = true := by
  cases C with
  | nil => simp [goodHead] at hC
  | cons t r =>
    simp only [goodHead, Bool.and_eq_true, decide_eq_true_eq, Bool.not_eq_true'] at hC
    obtain ⟨⟨h1, h2⟩, h3⟩ := hC
    rw [isAtomToks_iff]
    refine ⟨by simp, hfree, ?_, h2, ?_⟩
    · exact stripGroup_none_of_head (by rw [h1]; decide)
    · intro he
      have : t = (.num, "1") := by simpa [oneEqOne] using (List.cons.inj he).1
      exact h3 (by rw [this])

/-- an operand that opens with a parenthesis closed before its end (a sub-select compared with something) -/
theorem isAtomToks_of_tail {C X : List Tok} {u : Tok} (hC : C ≠ []) (hsel : startsSelect C = false)
    (hlp : C.head?.map cls = some .lp) (hu : cls u = .other) (hfree : topFree isConn (C ++ (X ++ [u])) = true) :
    isAtomToks (C ++ (X ++ [u])) = true := by
  rw [isAtomToks_iff]
  refine ⟨by simp [hC], hfree, ?_, by rw [startsSelect_append _ hC]; exact hsel, ?_⟩
  · rw [← List.append_assoc]; exact stripGroup_none_of_last (by rw [hu]; decide)
  · intro he
    cases C with
    | nil => exact hC rfl
    | cons t r =>
      have : t = (.num, "1") := by simpa [oneEqOne] using (List.cons.inj he).1
      subst this
      simp at hlp
      revert hlp; decide

theorem topFree_parts {p : Cls → Bool} {C X : List Tok} {d : Nat} (h1 : scanTop p 0 C = some d) (h2 : scanTop p d X = some 0) :
    topFree p (C ++ X) = true := by
  rw [topFree_iff, scanTop_append, h1]; exact h2

/-- `code 'literal'` -/
theorem code_lit_atom (c b : Chars) (hq : QSafe b) (hg : goodHead (lexL c) = true)
    (hf : scanTop isConn 0 (lexL c) = some 0) : isAtomToks (pieceToks [.code c, .lit b]) = true := by
  rw [pieceToks_code, pieceToks_lit hq]
  refine isAtomToks_of_goodHead hg (topFree_parts hf ?_)
  exact scanTop_other _ rfl _ (by intro t ht; simp [pieceToks] at ht; subst ht; rfl) 0

/-- `code argument` -/
theorem code_arg_atom (c : Chars) (v : JV) (hg : goodHead (lexL c) = true)
    (hf : scanTop isConn 0 (lexL c) = some 0) : isAtomToks (pieceToks [.code c, argPiece v]) = true := by
  rw [pieceToks_code]
  exact isAtomToks_of_goodHead hg (topFree_parts hf (scanTop_other _ rfl _ (argToks_other v).2 0))

theorem scanTop_cons_other (p : Cls → Bool) (hp : p .other = false) {t : Tok} (ht : cls t = .other) (d : Nat) (Z : List Tok) :
    scanTop p d (t :: Z) = scanTop p d Z := by
  simp [scanTop, ht, hp]

theorem exists_last_other {R : List Tok} (hne : R ≠ []) (ho : OtherToks R) : ∃ R' u, R = R' ++ [u] ∧ cls u = .other :=
  ⟨R.dropLast, R.getLast hne, (List.dropLast_concat_getLast hne).symm, ho _ (List.getLast_mem hne)⟩

/-- an operand that opens with a parenthesis which closes before the end (a sub-select compared with a value) -/
theorem isAtomToks_of_last {C Y : List Tok} (hC : C ≠ []) (hsel : startsSelect C = false)
    (hlp : C.head?.map cls = some .lp) (hlast : ∃ Y' u, Y = Y' ++ [u] ∧ cls u = .other)
    (hfree : topFree isConn (C ++ Y) = true) : isAtomToks (C ++ Y) = true := by
  obtain ⟨Y', u, rfl, hu⟩ := hlast
  rw [isAtomToks_iff]
  refine ⟨by simp [hC], hfree, ?_, by rw [startsSelect_append _ hC]; exact hsel, ?_⟩
  · rw [← List.append_assoc]; exact stripGroup_none_of_last (by rw [hu]; decide)
  · intro he
    cases C with
    | nil => exact hC rfl
    | cons t r =>
      have : t = (.num, "1") := by simpa [oneEqOne] using (List.cons.inj he).1
      subst this
      simp at hlp
      revert hlp; decide

theorem atoms_reads (isAnd : Bool) (A : List Tok) (As : List (List Tok)) (h : ∀ X ∈ A :: As, isAtomToks X = true) :
    Reads (interc (sepTok isAnd) (A :: As)) (fun asg => if isAnd then (A :: As).all asg else (A :: As).any asg) := by
  have := opnds_reads isAnd (A, fun asg => asg A) (As.map (fun X => (X, fun asg => asg X))) (by
    intro x hx
    rcases List.mem_cons.mp hx with rfl | hx
    · exact atom_opnd (h A (by simp))
    · obtain ⟨X, hX, rfl⟩ := List.mem_map.mp hx
      exact atom_opnd (h X (by simp [hX])))
  simp only [List.map_cons, List.map_map, List.all_cons, List.any_cons, List.all_map, List.any_map] at this
  have e : List.map ((fun x : List Tok × Meaning => x.1) ∘ fun X => (X, fun asg : List Tok → Bool => asg X)) As = As := by
    simp [Function.comp_def]
  rw [e] at this
  exact this.congr (fun asg => by cases isAnd <;> simp [Function.comp_def])

theorem interc_flat (sep : Tok) : ∀ (As : List (List Tok)) (L : List Tok),
    L ++ As.flatMap (fun A => sep :: A) = interc sep (L :: As)
  | [], L => by simp [interc]
  | A :: As, L => by rw [interc_cons2, ← interc_flat sep As A]; simp

/-! ### address patterns (`filterAccountAddress`) -/

/-- what the reading needs to know about the text written around a column name `K`: all decidable -/
structure AddrKey (K : Chars) : Prop where
  eqHead : goodHead (lexL (K ++ " = ".toList)) = true
  eqFree : scanTop isConn 0 (lexL (K ++ " = ".toList)) = some 0
  andSeg : lexL (" and ".toList ++ K ++ "_array @@ (".toList) = (.ident "and", "") :: lexL (K ++ "_array @@ (".toList)
  segHead : goodHead (lexL (K ++ "_array @@ (".toList)) = true
  segFree : scanTop isConn 0 (lexL (K ++ "_array @@ (".toList)) = some 1
  lenB1 : (run .dflt ("jsonb_array_length(".toList ++ K ++ "_array) = ".toList)).1 = .dflt
  lenB2 : pend [] (run .dflt ("jsonb_array_length(".toList ++ K ++ "_array) = ".toList)).2 = []
  lenHead : goodHead (lexL ("jsonb_array_length(".toList ++ K ++ "_array) = ".toList)) = true
  lenFree : scanTop isConn 0 (lexL ("jsonb_array_length(".toList ++ K ++ "_array) = ".toList)) = some 0

set_option maxRecDepth 20000 in
theorem addrKey_accounts : AddrKey "accounts.address".toList :=
  ⟨by decide, by decide, by decide, by decide, by decide, by decide, by decide, by decide, by decide⟩
set_option maxRecDepth 20000 in
theorem addrKey_balances : AddrKey "account_address".toList :=
  ⟨by decide, by decide, by decide, by decide, by decide, by decide, by decide, by decide, by decide⟩

/-- the conditions on the given segments, as token lists -/
def segToks (K : Chars) : Nat → List Chars → List (List Tok)
  | _, [] => []
  | i, s :: ss =>
    if s.isEmpty then segToks K (i + 1) ss
    else pieceToks [.code (K ++ "_array @@ (".toList),
                    .lit ("$[".toList ++ natDigits i ++ "] == \"".toList ++ s ++ ['"']),
                    .code ")::jsonpath".toList] :: segToks K (i + 1) ss

theorem segAtoms_eq (K : Chars) : ∀ (segs : List Chars) (i : Nat), segAtoms K i segs = (segToks K i segs).map .atom
  | [], _ => rfl
  | s :: ss, i => by
    simp only [segAtoms, segToks]
    split
    · exact segAtoms_eq K ss (i + 1)
    · simp [segAtoms_eq K ss (i + 1)]

theorem segParts_toks {K : Chars} (hK : AddrKey K) : ∀ (segs : List Chars) (i : Nat),
    pieceToks (segParts K i segs) = (segToks K i segs).flatMap (fun A => (.ident "and", "") :: A)
  | [], _ => rfl
  | s :: ss, i => by
    simp only [segParts, segToks]
    split
    · exact segParts_toks hK ss (i + 1)
    · simp only [pieceToks, List.flatMap_cons, segParts_toks hK ss (i + 1), hK.andSeg, Piece.chars]
      simp

theorem segToks_atoms {K : Chars} (hK : AddrKey K) : ∀ (segs : List Chars) (i : Nat), LitsSafe (segParts K i segs) →
    ∀ A ∈ segToks K i segs, isAtomToks A = true
  | [], _, _, A, hA => by simp [segToks] at hA
  | s :: ss, i, hs, A, hA => by
    simp only [segParts, segToks] at hs hA
    split at hA
    · next he => simp only [he, ↓reduceIte] at hs; exact segToks_atoms hK ss (i + 1) hs A hA
    · next he =>
      simp only [he, Bool.false_eq_true, ↓reduceIte] at hs
      have hs' : LitsSafe (segParts K (i + 1) ss) := fun b hb => hs b (by simp [hb])
      rcases List.mem_cons.mp hA with rfl | hA
      · have hq := hs _ (List.mem_cons_of_mem _ (List.mem_cons_self))
        rw [pieceToks_code, pieceToks_lit hq, pieceToks_code]
        refine isAtomToks_of_goodHead hK.segHead (topFree_parts hK.segFree ?_)
        rw [scanTop_cons_other _ rfl (cls_strTok _)]
        simp only [pieceToks, List.append_nil]
        decide
      · exact segToks_atoms hK ss (i + 1) hs' A hA

theorem address_reads {a K : Chars} {ps : List Piece} (hK : AddrKey K) (h : addressPieces a K = .ok ps) (hs : LitsSafe ps) :
    Reads (pieceToks ps) (fun asg => (addressSkel a K).eval asg) := by
  unfold addressPieces at h
  unfold addressSkel
  by_cases hacc : acceptedSegs (splitColon a) = true
  · simp only [hacc, Bool.not_true, Bool.false_eq_true, ↓reduceIte] at h
    by_cases hw : (splitColon a).any List.isEmpty = true
    · simp only [hw, ↓reduceIte] at h ⊢
      obtain rfl := Except.ok.inj h
      have hL : lexL ("jsonb_array_length(".toList ++ K ++ "_array) = ".toList ++ natDigits (splitColon a).length) =
          lexL ("jsonb_array_length(".toList ++ K ++ "_array) = ".toList) ++ [(.num, String.ofList (natDigits (splitColon a).length))] := by
        rw [lexL_append_boundary _ _ hK.lenB1 hK.lenB2, lexL_natDigits]
      have hLa : isAtomToks (lexL ("jsonb_array_length(".toList ++ K ++ "_array) = ".toList ++ natDigits (splitColon a).length)) = true := by
        rw [hL]
        exact isAtomToks_of_goodHead hK.lenHead (topFree_parts hK.lenFree
          (scanTop_other _ rfl _ (by intro t ht; simp at ht; subst ht; rfl) 0))
      have hs' : LitsSafe (segParts K 0 (splitColon a)) := fun b hb => hs b (by simp [hb])
      rw [pieceToks_code, segParts_toks hK, interc_flat]
      have := atoms_reads true _ _ (fun X hX => by
        rcases List.mem_cons.mp hX with rfl | hX
        · exact hLa
        · exact segToks_atoms hK _ 0 hs' X hX)
      refine this.congr (fun asg => ?_)
      simp [mkAnd_eval, segAtoms_eq, BTree.eval, List.all_map, Function.comp_def]
    · simp only [hw, Bool.false_eq_true, ↓reduceIte] at h ⊢
      obtain rfl := Except.ok.inj h
      have hq := hs a (by simp)
      exact opnd_reads (atom_opnd (code_lit_atom _ _ hq hK.eqHead hK.eqFree))
  · simp [hacc] at h

/-! ### address patterns on transactions (`filterAccountAddressOnTransactions`) -/

theorem addressOnTx_both {a : Chars} {ps : List Piece} (h : addressOnTxPieces a true true = .ok ps) (hs : LitsSafe ps) :
    Reads (pieceToks ps) (fun asg => (addrOnTxSkel a).eval asg) := by
  unfold addressOnTxPieces at h
  unfold addrOnTxSkel txCols
  have hor : lexL " or ".toList = [sepTok false] := by decide
  by_cases hacc : acceptedSegs (splitColon a) = true
  · simp only [hacc, Bool.not_true, Bool.false_eq_true, ↓reduceIte] at h
    by_cases hw : (splitColon a).any List.isEmpty = true
    · simp only [hw, ↓reduceIte, Bool.and_self] at h ⊢
      obtain rfl := Except.ok.inj h
      have hq := hs (txArrayJson (splitColon a)) (by simp)
      rw [pieceToks_append, pieceToks_append, pieceToks_code " or ".toList, hor,
        show pieceToks ([] : List Piece) = [] from rfl, List.append_nil, List.append_assoc]
      have := atoms_reads false _ [_] (fun X hX => by
        simp only [List.mem_cons, List.not_mem_nil, or_false] at hX
        rcases hX with rfl | rfl
        · exact code_lit_atom "sources_arrays @> ".toList _ hq (by decide) (by decide)
        · exact code_lit_atom "destinations_arrays @> ".toList _ hq (by decide) (by decide))
      simp only [interc] at this
      refine Reads.congr this (fun asg => ?_)
      simp [BTree.eval]
    · simp only [hw, Bool.false_eq_true, ↓reduceIte, Bool.and_self] at h ⊢
      obtain rfl := Except.ok.inj h
      have hq := hs ('[' :: '"' :: a ++ ['"', ']']) (by simp)
      rw [pieceToks_append, pieceToks_append, pieceToks_code " or ".toList, hor,
        show pieceToks ([] : List Piece) = [] from rfl, List.append_nil, List.append_assoc]
      have := atoms_reads false _ [_] (fun X hX => by
        simp only [List.mem_cons, List.not_mem_nil, or_false] at hX
        rcases hX with rfl | rfl
        · exact code_lit_atom "sources @> ".toList _ hq (by decide) (by decide)
        · exact code_lit_atom "destinations @> ".toList _ hq (by decide) (by decide))
      simp only [interc] at this
      refine Reads.congr this (fun asg => ?_)
      simp [BTree.eval]
  · simp [hacc] at h

theorem addressOnTx_one {a : Chars} {s d : Bool} {ps : List Piece} (hsd : (s != d) = true)
    (h : addressOnTxPieces a s d = .ok ps) (hs : LitsSafe ps) : isAtomToks (pieceToks ps) = true := by
  unfold addressOnTxPieces at h
  by_cases hacc : acceptedSegs (splitColon a) = true
  · simp only [hacc, Bool.not_true, Bool.false_eq_true, ↓reduceIte] at h
    by_cases hw : (splitColon a).any List.isEmpty = true
    · simp only [hw, ↓reduceIte] at h
      cases s <;> cases d <;> simp at hsd <;> simp at h <;> subst h
      · exact code_lit_atom "destinations_arrays @> ".toList _ (hs _ (by simp)) (by decide) (by decide)
      · exact code_lit_atom "sources_arrays @> ".toList _ (hs _ (by simp)) (by decide) (by decide)
    · simp only [hw, Bool.false_eq_true, ↓reduceIte] at h
      cases s <;> cases d <;> simp at hsd <;> simp at h <;> subst h
      · exact code_lit_atom "destinations @> ".toList _ (hs _ (by simp)) (by decide) (by decide)
      · exact code_lit_atom "sources @> ".toList _ (hs _ (by simp)) (by decide) (by decide)
  · simp [hacc] at h

/-! ### balance leaves: `( select … ) < value` -/

theorem subselect_atom (c1 : Chars) (Y : List Tok) (v : JV) (h1 : lexL c1 ≠ []) (h2 : startsSelect (lexL c1) = false)
    (h3 : (lexL c1).head?.map cls = some .lp) (h4 : scanTop isConn 0 (lexL c1) = some 1)
    (h5 : scanTop isConn 1 Y = some 0) : isAtomToks (lexL c1 ++ (Y ++ pieceToks [argPiece v])) = true := by
  obtain ⟨R', u, hR, hu⟩ := exists_last_other (argToks_other v).1 (argToks_other v).2
  refine isAtomToks_of_last h1 h2 h3 ⟨Y ++ R', u, by rw [hR, List.append_assoc], hu⟩ (topFree_parts h4 ?_)
  rw [scanTop_append, h5]
  exact scanTop_other _ rfl _ (argToks_other v).2 0

set_option maxRecDepth 100000 in
theorem scan_balanceTail (op : String) : scanTop isConn 1 (lexL (balanceTail op)) = some 0 := by
  unfold balanceTail opSql
  repeat' split
  all_goals decide

set_option maxRecDepth 100000 in
theorem balanceOf_atom (asset ledger : Chars) (op : String) (v : JV) :
    isAtomToks (pieceToks [.code (balanceHead ++ "asset = ".toList), .lit (quoteBody asset),
       .code " and account_address = accounts.address and ledger = ".toList, .lit (quoteBody ledger),
       .code (balanceTail op), argPiece v]) = true := by
  rw [pieceToks_code, pieceToks_lit (qsafe_quoteBody asset), pieceToks_code, pieceToks_lit (qsafe_quoteBody ledger), pieceToks_code]
  have := subselect_atom (balanceHead ++ "asset = ".toList)
    (strTok (quoteBody asset) :: (lexL " and account_address = accounts.address and ledger = ".toList ++
      strTok (quoteBody ledger) :: lexL (balanceTail op))) v (by decide) (by decide) (by decide) (by decide) (by
        rw [scanTop_cons_other _ rfl (cls_strTok _), scanTop_append,
          show scanTop isConn 1 (lexL " and account_address = accounts.address and ledger = ".toList) = some 1 by decide]
        simp only [Option.bind]
        rw [scanTop_cons_other _ rfl (cls_strTok _)]
        exact scan_balanceTail op)
  simpa [List.append_assoc] using this

set_option maxRecDepth 100000 in
theorem balance_atom (ledger : Chars) (op : String) (v : JV) :
    isAtomToks (pieceToks [.code (balanceHead ++ "account_address = accounts.address and ledger = ".toList), .lit (quoteBody ledger),
       .code (balanceTail op), argPiece v]) = true := by
  rw [pieceToks_code, pieceToks_lit (qsafe_quoteBody ledger), pieceToks_code]
  have := subselect_atom (balanceHead ++ "account_address = accounts.address and ledger = ".toList)
    (strTok (quoteBody ledger) :: lexL (balanceTail op)) v (by decide) (by decide) (by decide) (by decide) (by
        rw [scanTop_cons_other _ rfl (cls_strTok _)]
        exact scan_balanceTail op)
  simpa [List.append_assoc] using this

/-! ### comparisons and metadata -/

theorem cmp_facts (name : Chars)
    (hn : ∀ o ∈ [['='], ['>', '='], ['>'], ['<', '='], ['<'], []],
      goodHead (lexL (name ++ o ++ [' '])) = true ∧ scanTop isConn 0 (lexL (name ++ o ++ [' '])) = some 0) (op : String) :
    goodHead (lexL (name ++ opSql op ++ [' '])) = true ∧ scanTop isConn 0 (lexL (name ++ opSql op ++ [' '])) = some 0 := by
  unfold opSql
  repeat' split
  all_goals exact hn _ (by simp)

theorem cmp_atom (name : Chars)
    (hn : ∀ o ∈ [['='], ['>', '='], ['>'], ['<', '='], ['<'], []],
      goodHead (lexL (name ++ o ++ [' '])) = true ∧ scanTop isConn 0 (lexL (name ++ o ++ [' '])) = some 0) (op : String) (v : JV) :
    isAtomToks (pieceToks [.code (name ++ opSql op ++ [' ']), argPiece v]) = true :=
  code_arg_atom _ v (cmp_facts name hn op).1 (cmp_facts name hn op).2

theorem metadata_atom (ep : Endpoint) (pit : Bool) (hep : ep ≠ .logs) (k : Chars) (v : JV) :
    isAtomToks (pieceToks [.code (metadataColumn ep pit ++ " @> ".toList), .lit (jsonBody (goJson (.obj [(k, v)])))]) = true := by
  have hq : QSafe (jsonBody (goJson (.obj [(k, v)]))) := qsafe_jsonBody _ (jsafe_goJson _)
  cases ep <;> cases pit <;> first | exact absurd rfl hep | exact code_lit_atom _ _ hq (by decide) (by decide)

/-! ## one leaf -/

theorem leaf_reads {ep : Endpoint} {pit : Bool} {ledger : Chars} {key : FKey} {op : String} {v : JV} {ps : List Piece}
    (h : leafPieces ep pit ledger key op v = .ok ps) :
    Reads (pieceToks ps) (fun asg => (leafSkel ep pit ledger key op v).eval asg) := by
  obtain ⟨_, _, g⟩ := leaf_good h
  have hs := g.safe
  have h0 := h
  have one : leafSkel ep pit ledger key op v = .atom (pieceToks ps) → isAtomToks (pieceToks ps) = true →
      Reads (pieceToks ps) (fun asg => (leafSkel ep pit ledger key op v).eval asg) := by
    intro e ha; rw [e]; exact opnd_reads (atom_opnd ha)
  cases ep <;> cases key
  all_goals simp only [leafPieces] at h
  all_goals try (cases h; done)
  -- accounts.address
  · split at h
    · cases h
    · cases v <;> simp only [isStr] at h <;> try (cases h; done)
      simp only [leafSkel, isStr]
      exact address_reads addrKey_accounts h hs
  -- accounts.metadata
  · split at h
    · cases h
    · obtain rfl := Except.ok.inj h
      refine one ?_ (metadata_atom _ _ (by decide) _ _)
      simp only [leafSkel, h0]
  -- accounts.balanceOf
  · obtain rfl := Except.ok.inj h
    refine one ?_ (balanceOf_atom _ _ _ _)
    simp only [leafSkel, h0]
  -- accounts.balance
  · obtain rfl := Except.ok.inj h
    refine one ?_ (balance_atom _ _ _)
    simp only [leafSkel, h0]
  -- transactions.account
  · split at h
    · cases h
    · cases v <;> simp only [isStr] at h <;> try (cases h; done)
      simp only [leafSkel, isStr]
      exact addressOnTx_both h hs
  -- transactions.source
  · split at h
    · cases h
    · cases v <;> simp only [isStr] at h <;> try (cases h; done)
      refine one ?_ (addressOnTx_one (by decide) h hs)
      simp only [leafSkel, h0]
  -- transactions.destination
  · split at h
    · cases h
    · cases v <;> simp only [isStr] at h <;> try (cases h; done)
      refine one ?_ (addressOnTx_one (by decide) h hs)
      simp only [leafSkel, h0]
  -- transactions.metadata
  · split at h
    · cases h
    · obtain rfl := Except.ok.inj h
      refine one ?_ (metadata_atom _ _ (by decide) _ _)
      simp only [leafSkel, h0]
  -- transactions.reference / timestamp
  · obtain rfl := Except.ok.inj h
    refine one ?_ (cmp_atom _ (by decide) op v)
    simp only [leafSkel, h0]
  · obtain rfl := Except.ok.inj h
    refine one ?_ (cmp_atom _ (by decide) op v)
    simp only [leafSkel, h0]
  -- balances.address
  · split at h
    · cases h
    · cases v <;> simp only [isStr] at h <;> try (cases h; done)
      simp only [leafSkel, isStr]
      exact address_reads addrKey_balances h hs
  -- balances.metadata
  · split at h
    · cases h
    · obtain rfl := Except.ok.inj h
      refine one ?_ (metadata_atom _ _ (by decide) _ _)
      simp only [leafSkel, h0]
  -- logs.date
  · obtain rfl := Except.ok.inj h
    refine one ?_ (cmp_atom _ (by decide) op v)
    simp only [leafSkel, h0]

/-! ## whole expressions -/

/-- what `setTail` writes after the first item: `) sep ( T₁ ) sep ( T₂ … )` -/
def tailToks (sep : Tok) : List (List Tok) → List Tok
  | [] => [tokRP]
  | T :: Ts => tokRP :: sep :: tokLP :: (T ++ tailToks sep Ts)

theorem tail_interc (sep : Tok) : ∀ (Ts : List (List Tok)) (T : List Tok),
    tokLP :: (T ++ tailToks sep Ts) = interc sep ((T :: Ts).map paren)
  | [], T => by simp [tailToks, interc, paren_eq]
  | T' :: Ts, T => by
    have ih := tail_interc sep Ts T'
    simp only [List.map_cons] at ih ⊢
    rw [interc_cons2, ← ih]
    simp [tailToks, paren_eq]

theorem semTail_eq (ep : Endpoint) (pit : Bool) (ledger : Chars) (asg : List Tok → Bool) (isAnd : Bool) :
    ∀ es : List Expr, semTail ep pit ledger asg isAnd es =
      if isAnd then es.all (sem ep pit ledger asg) else es.any (sem ep pit ledger asg)
  | [] => by cases isAnd <;> simp [semTail]
  | e :: es => by
    have ih := semTail_eq ep pit ledger asg isAnd es
    cases isAnd <;> simp_all [semTail]

theorem lexL_lp : lexL ['('] = [tokLP] := by decide
theorem lexL_rp : lexL [')'] = [tokRP] := by decide
theorem lexL_notlp : lexL "not (".toList = [tokNot, tokLP] := by decide
theorem lexL_sep (isAnd : Bool) : lexL (if isAnd then ") and (".toList else ") or (".toList) = [tokRP, sepTok isAnd, tokLP] := by
  cases isAnd <;> decide
theorem lexL_one : lexL "1 = 1".toList = oneEqOne := by decide

theorem const_opnd : Opnd oneEqOne (fun _ => true) where
  ne := by decide
  nosel := by decide
  freeOr := by decide
  freeAnd := by decide
  parse := fun f _ => ⟨.tt, rfl, fun _ => rfl⟩

mutual
/-- **the reading of the rendered text is the meaning of the expression**, for every nesting depth and list length -/
theorem expr_reads (ep : Endpoint) (pit : Bool) (ledger : Chars) : ∀ (e : Expr) (ps : List Piece),
    exprPieces ep pit ledger e = .ok ps → Reads (pieceToks ps) (fun asg => sem ep pit ledger asg e)
  | .leaf k op v, ps, h => by
    simp only [exprPieces] at h
    simpa only [sem] using leaf_reads h
  | .set isAnd [], ps, h => by
    simp only [exprPieces] at h
    obtain rfl := Except.ok.inj h
    have : pieceToks [.code "1 = 1".toList] = oneEqOne := by rw [pieceToks_code, lexL_one]; rfl
    rw [this]
    exact (opnd_reads const_opnd).congr (fun asg => by simp [sem])
  | .set isAnd (e :: es), ps, h => by
    simp only [exprPieces] at h
    cases h1 : exprPieces ep pit ledger e with
    | error r => simp [h1] at h
    | ok p1 =>
      cases h2 : setTail ep pit ledger isAnd es with
      | error r => simp [h1, h2] at h
      | ok q1 =>
        simp only [h1, h2] at h
        obtain rfl := Except.ok.inj h
        have r1 := expr_reads ep pit ledger e p1 h1
        obtain ⟨items, hq, hr, hm⟩ := tail_reads ep pit ledger isAnd es q1 h2
        have htoks : pieceToks (.code ['('] :: p1 ++ q1) =
            interc (sepTok isAnd) (((pieceToks p1, fun asg => sem ep pit ledger asg e) ::
              items).map (fun it => paren it.1)) := by
          rw [List.cons_append, pieceToks_code, pieceToks_append, lexL_lp, hq]
          have := tail_interc (sepTok isAnd) (items.map (·.1)) (pieceToks p1)
          simpa [List.map_map, Function.comp_def] using this
        rw [htoks]
        have := opnds_reads isAnd (paren (pieceToks p1), fun asg => sem ep pit ledger asg e)
          (items.map (fun it => (paren it.1, it.2))) (by
            intro x hx
            rcases List.mem_cons.mp hx with rfl | hx
            · exact paren_opnd r1
            · obtain ⟨it, hit, rfl⟩ := List.mem_map.mp hx
              exact paren_opnd (hr it hit))
        simp only [List.map_cons, List.map_map, Function.comp_def, List.all_cons, List.any_cons, List.all_map, List.any_map] at this ⊢
        refine this.congr (fun asg => ?_)
        rw [sem]
        have hm' := hm asg
        cases isAnd <;> simp_all
  | .not e, ps, h => by
    simp only [exprPieces] at h
    cases h1 : exprPieces ep pit ledger e with
    | error r => simp [h1] at h
    | ok p1 =>
      simp only [h1] at h
      obtain rfl := Except.ok.inj h
      have r1 := expr_reads ep pit ledger e p1 h1
      have htoks : pieceToks (.code "not (".toList :: p1 ++ [.code [')']]) = tokNot :: paren (pieceToks p1) := by
        rw [List.cons_append, pieceToks_code, pieceToks_append, lexL_notlp, pieceToks_code, lexL_rp, paren_eq]
        rfl
      rw [htoks]
      exact (opnd_reads (not_opnd (paren_opnd r1))).congr (fun asg => by simp [sem])
/-- the items after the first: their token lists, each read as its own meaning, and the meaning of the rest -/
theorem tail_reads (ep : Endpoint) (pit : Bool) (ledger : Chars) (isAnd : Bool) : ∀ (es : List Expr) (qs : List Piece),
    setTail ep pit ledger isAnd es = .ok qs →
    ∃ items : List (List Tok × Meaning), pieceToks qs = tailToks (sepTok isAnd) (items.map (·.1)) ∧
      (∀ it ∈ items, Reads it.1 it.2) ∧
      ∀ asg, semTail ep pit ledger asg isAnd es = if isAnd then items.all (·.2 asg) else items.any (·.2 asg)
  | [], qs, h => by
    simp only [setTail] at h
    obtain rfl := Except.ok.inj h
    refine ⟨[], ?_, by simp, fun asg => by cases isAnd <;> simp [semTail]⟩
    rw [pieceToks_code, lexL_rp]; rfl
  | e :: es, qs, h => by
    simp only [setTail] at h
    cases h1 : exprPieces ep pit ledger e with
    | error r => simp [h1] at h
    | ok p1 =>
      cases h2 : setTail ep pit ledger isAnd es with
      | error r => simp [h1, h2] at h
      | ok q1 =>
        simp only [h1, h2] at h
        obtain rfl := Except.ok.inj h
        have r1 := expr_reads ep pit ledger e p1 h1
        obtain ⟨items, hq, hr, hm⟩ := tail_reads ep pit ledger isAnd es q1 h2
        refine ⟨(pieceToks p1, fun asg => sem ep pit ledger asg e) :: items, ?_, ?_, ?_⟩
        · rw [List.cons_append, pieceToks_code, pieceToks_append, lexL_sep, hq]
          simp [tailToks]
        · intro it hit
          rcases List.mem_cons.mp hit with rfl | hit
          · exact r1
          · exact hr it hit
        · intro asg
          rw [semTail, hm asg]
          cases isAnd <;> simp
end

mutual
theorem skel_eval (ep : Endpoint) (pit : Bool) (ledger : Chars) (asg : List Tok → Bool) : ∀ e : Expr,
    (skel ep pit ledger e).eval asg = sem ep pit ledger asg e
  | .leaf k op v => by simp [skel, sem]
  | .set isAnd [] => by simp [skel, sem, BTree.eval]
  | .set isAnd (e :: es) => by
    have h1 := skel_eval ep pit ledger asg e
    have h2 := skels_eval ep pit ledger asg es
    rw [skel, sem, semTail_eq, semTail_eq]
    cases isAnd
    · simp only [Bool.false_eq_true, ↓reduceIte, mkOr_eval, List.any_cons, h1, h2]
    · simp only [↓reduceIte, mkAnd_eval, List.all_cons, h1, h2]
  | .not e => by simp [skel, sem, BTree.eval, skel_eval ep pit ledger asg e]
theorem skels_eval (ep : Endpoint) (pit : Bool) (ledger : Chars) (asg : List Tok → Bool) : ∀ es : List Expr,
    ((skels ep pit ledger es).all (·.eval asg) = es.all (sem ep pit ledger asg)) ∧
    ((skels ep pit ledger es).any (·.eval asg) = es.any (sem ep pit ledger asg))
  | [] => by simp [skels]
  | e :: es => by
    have h1 := skel_eval ep pit ledger asg e
    have h2 := skels_eval ep pit ledger asg es
    simp [skels, h1, h2.1, h2.2]
end

/-! ## the statement's own `where` -/

theorem whereToks_eq : ∀ (c : List Tok) (cs : List (List Tok)), whereToks (c :: cs) = interc tokAND ((c :: cs).map paren)
  | c, [] => rfl
  | c, c' :: cs => by
    have ih := whereToks_eq c' cs
    simp only [List.map_cons] at ih ⊢
    rw [interc_cons2, ← ih]; rfl

/-- conjuncts that bun wraps in parentheses and joins by `AND`: atomic conditions of the statement, then the filter -/
theorem where_reads (pre : List (List Tok)) (hpre : ∀ c ∈ pre, isAtomToks c = true) {T : List Tok} {m : Meaning}
    (h : Reads T m) : Reads (whereToks (pre ++ [T])) (fun asg => pre.all asg && m asg) := by
  cases pre with
  | nil =>
    simp only [List.nil_append, whereToks, List.all_nil, Bool.true_and]
    exact opnd_reads (paren_opnd h)
  | cons c cs =>
    rw [List.cons_append, whereToks_eq]
    have := opnds_reads_sep true tokAND (by decide)
      (paren c, fun asg => asg c) ((cs.map (fun x => (paren x, fun asg : List Tok → Bool => asg x))) ++ [(paren T, m)]) (by
        intro x hx
        rcases List.mem_cons.mp hx with rfl | hx
        · exact paren_opnd (opnd_reads (atom_opnd (hpre c (by simp))))
        · rcases List.mem_append.mp hx with hx | hx
          · obtain ⟨y, hy, rfl⟩ := List.mem_map.mp hx
            exact paren_opnd (opnd_reads (atom_opnd (hpre y (by simp [hy]))))
          · simp only [List.mem_cons, List.not_mem_nil, or_false] at hx
            subst hx
            exact paren_opnd h)
    simp only [List.map_cons, List.map_append, List.map_map, Function.comp_def, List.map_nil] at this ⊢
    refine this.congr (fun asg => ?_)
    simp [List.all_append, List.all_map, Function.comp_def, Bool.and_assoc]

end FilterSem
