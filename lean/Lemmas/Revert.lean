import Model.Engine.Base
/-! Reverting a posting list: model of `Postings.Reverse` (`internal/posting.go`: first every posting's source and
destination are exchanged in place, then the slice is put in reverse order) as used by `TransactionData.Reverse`
(`internal/transaction.go`: on a copy of the postings; nothing else of the transaction is kept), and the effect of
posting lists on balances. -/
namespace Engine.Revert
open Engine

/-- `p[i].Source, p[i].Destination = p[i].Destination, p[i].Source` -/
def swap (p : Posting) : Posting := { p with src := p.dst, dst := p.src }

/-- `Postings.Reverse`: exchange the endpoints of every posting, then reverse the order -/
def reverse (ps : List Posting) : List Posting := (ps.map swap).reverse

/-- balances: account → asset → amount -/
abbrev Bal := Acct → String → Int

/-- one posting moves `amt` of `asset` from `src` to `dst` (the same update as `Engine.Floor.balanceOf`/`floorOk`) -/
def apply1 (B : Bal) (p : Posting) : Bal :=
  fun x s => if s = p.asset then (if x = p.dst then B x s + p.amt else B x s) - (if x = p.src then p.amt else 0) else B x s

/-- the postings of a list, applied in order -/
def applyAll (ps : List Posting) (B : Bal) : Bal := ps.foldl apply1 B

theorem swap_swap (p : Posting) : swap (swap p) = p := by
  cases p; rfl

theorem reverse_cons (p : Posting) (ps : List Posting) : reverse (p :: ps) = reverse ps ++ [swap p] := by
  simp only [reverse, List.map_cons, List.reverse_cons]

theorem applyAll_append (ps qs : List Posting) (B : Bal) : applyAll (ps ++ qs) B = applyAll qs (applyAll ps B) := by
  simp only [applyAll, List.foldl_append]

/-- a posting followed by its swapped copy leaves every balance where it was (also when `src = dst`) -/
theorem apply1_swap (B : Bal) (p : Posting) : apply1 (apply1 B p) (swap p) = B := by
  funext x s
  simp only [apply1, swap]
  by_cases hs : s = p.asset
  · have hs' : (s = p.asset) = True := eq_true hs
    by_cases hd : x = p.dst
    · have hd' : (x = p.dst) = True := eq_true hd
      by_cases hr : x = p.src
      · have hr' : (x = p.src) = True := eq_true hr
        simp only [hs', hd', hr', if_true]; omega
      · have hr' : (x = p.src) = False := eq_false hr
        simp only [hs', hd', hr', if_true, if_false]; omega
    · have hd' : (x = p.dst) = False := eq_false hd
      by_cases hr : x = p.src
      · have hr' : (x = p.src) = True := eq_true hr
        simp only [hs', hd', hr', if_true, if_false]; omega
      · have hr' : (x = p.src) = False := eq_false hr
        simp only [hs', hd', hr', if_true, if_false]; omega
  · have hs' : (s = p.asset) = False := eq_false hs
    simp only [hs', if_false]

/-- what one posting adds to the balance of `x` in asset `s` -/
def delta (p : Posting) (x : Acct) (s : String) : Int :=
  if s = p.asset then (if x = p.dst then p.amt else 0) - (if x = p.src then p.amt else 0) else 0

theorem apply1_delta (B : Bal) (p : Posting) (x : Acct) (s : String) : apply1 B p x s = B x s + delta p x s := by
  simp only [apply1, delta]
  by_cases hs : s = p.asset
  · have hs' : (s = p.asset) = True := eq_true hs
    by_cases hd : x = p.dst
    · have hd' : (x = p.dst) = True := eq_true hd
      simp only [hs', hd', if_true]; omega
    · have hd' : (x = p.dst) = False := eq_false hd
      simp only [hs', hd', if_true, if_false]; omega
  · have hs' : (s = p.asset) = False := eq_false hs
    simp only [hs', if_false]; omega

/-- postings are additions: they commute -/
theorem apply1_comm (B : Bal) (p q : Posting) : apply1 (apply1 B p) q = apply1 (apply1 B q) p := by
  funext x s
  simp only [apply1_delta]
  omega

theorem applyAll_apply1 (qs : List Posting) (B : Bal) (p : Posting) :
    applyAll qs (apply1 B p) = apply1 (applyAll qs B) p := by
  induction qs generalizing B with
  | nil => rfl
  | cons q qs ih =>
    show applyAll qs (apply1 (apply1 B p) q) = apply1 (applyAll qs (apply1 B q)) p
    rw [apply1_comm, ih]

end Engine.Revert
