import Lemmas.Funding
import Lemmas.SpecInv
/-! Conservation facts about `Spec` (A1): what `assemble`, the sources, `takeFromSource` and the destinations do
to totals.  Used by `Props/C03.lean` (`send_exact`, `dest_conserves`, `source_cap_respected`, …). -/
namespace Num

/-- sum of the amounts of a list of postings -/
def sumAmt (ps : List Posting) : Int := (ps.map (·.amt)).sum

@[simp] theorem sumAmt_nil : sumAmt [] = 0 := rfl
@[simp] theorem sumAmt_cons (p : Posting) (ps : List Posting) : sumAmt (p :: ps) = p.amt + sumAmt ps := by
  simp [sumAmt]
theorem sumAmt_append (ps qs : List Posting) : sumAmt (ps ++ qs) = sumAmt ps + sumAmt qs := by
  induction ps with
  | nil => simp
  | cons p ps ih => simp [ih]; omega

/-! ### reverse -/

theorem total_reverse (f : Parts) : total f.reverse = total f := by
  induction f with
  | nil => simp
  | cons p ps ih => simp [total_append, ih]; omega

theorem amtOf_reverse (f : Parts) (x : Acct) : amtOf f.reverse x = amtOf f x := by
  induction f with
  | nil => simp
  | cons p ps ih => simp [amtOf_append, amtOf_cons, ih]; omega

theorem NonNeg.reverse {f : Parts} (h : NonNeg f) : NonNeg f.reverse :=
  fun q hq => h q (List.mem_reverse.mp hq)

/-! ### assemble -/

/-- the parts `assemble` builds: a left fold of `concat` -/
def catAll (acc : Parts) (fs : List Fund) : Parts := fs.foldl (fun acc f => concat acc f.parts) acc

@[simp] theorem catAll_nil (acc : Parts) : catAll acc [] = acc := rfl
@[simp] theorem catAll_cons (acc : Parts) (f : Fund) (fs : List Fund) :
    catAll acc (f :: fs) = catAll (concat acc f.parts) fs := rfl

theorem catAll_total (acc : Parts) (fs : List Fund) :
    total (catAll acc fs) = total acc + (fs.map (fun f => total f.parts)).sum := by
  induction fs generalizing acc with
  | nil => simp
  | cons f fs ih => simp [ih, concat_total]; omega

theorem catAll_amtOf (acc : Parts) (fs : List Fund) (x : Acct) :
    amtOf (catAll acc fs) x = amtOf acc x + (fs.map (fun f => amtOf f.parts x)).sum := by
  induction fs generalizing acc with
  | nil => simp
  | cons f fs ih => simp [ih, concat_amtOf]; omega

theorem catAll_nonneg {acc : Parts} {fs : List Fund} (ha : NonNeg acc) (hf : ∀ f ∈ fs, NonNeg f.parts) :
    NonNeg (catAll acc fs) := by
  induction fs generalizing acc with
  | nil => simpa using ha
  | cons f fs ih =>
    simp only [catAll_cons]
    exact ih (concat_nonneg ha (hf f List.mem_cons_self)) (fun g hg => hf g (List.mem_cons_of_mem _ hg))

/-- what a successful `assemble` returns: the asset of the last funding (which all fundings share) and the
left-to-right concatenation of the parts -/
theorem assemble_ok {fs : List Fund} {r : Fund} (h : assemble fs = .ok r) :
    (∃ l, fs.getLast? = some l ∧ r.asset = l.asset) ∧ (∀ f ∈ fs, f.asset = r.asset) ∧ r.parts = catAll [] fs := by
  unfold assemble at h
  cases hl : fs.getLast? with
  | none => simp [hl] at h
  | some l =>
    simp only [hl] at h
    by_cases hall : (fs.all fun f => decide (f.asset = l.asset)) = true
    · simp only [hall, if_true, Except.ok.injEq] at h
      subst h
      refine ⟨⟨l, rfl, rfl⟩, ?_, rfl⟩
      intro f hf
      have := List.all_eq_true.mp hall f hf
      simpa using this
    · simp [hall] at h

theorem assemble_total {fs : List Fund} {r : Fund} (h : assemble fs = .ok r) :
    total r.parts = (fs.map (fun f => total f.parts)).sum := by
  rw [(assemble_ok h).2.2, catAll_total]; simp

theorem assemble_amtOf {fs : List Fund} {r : Fund} (h : assemble fs = .ok r) (x : Acct) :
    amtOf r.parts x = (fs.map (fun f => amtOf f.parts x)).sum := by
  rw [(assemble_ok h).2.2, catAll_amtOf]; simp

theorem assemble_nonneg {fs : List Fund} {r : Fund} (h : assemble fs = .ok r) (hf : ∀ f ∈ fs, NonNeg f.parts) :
    NonNeg r.parts := by
  rw [(assemble_ok h).2.2]; exact catAll_nonneg nonNeg_nil hf

/-- the two-element form used by the destinations and by the fallback of an unbounded source -/
theorem assemble_pair {k : Fund} {a : Asset} {rem : Parts} {r : Fund} (h : assemble [k, ⟨a, rem⟩] = .ok r) :
    r.asset = a ∧ k.asset = a ∧ r.parts = concat k.parts rem := by
  obtain ⟨⟨l, hl, hra⟩, hall, hp⟩ := assemble_ok h
  simp at hl; subst hl
  have hk := hall k (by simp)
  refine ⟨hra, by rw [hk, hra], ?_⟩
  rw [hp]; simp [concat]

theorem assemble_pair_total {k : Fund} {a : Asset} {rem : Parts} {r : Fund} (h : assemble [k, ⟨a, rem⟩] = .ok r) :
    total r.parts = total k.parts + total rem := by
  rw [(assemble_pair h).2.2, concat_total]

theorem assemble_pair_amtOf {k : Fund} {a : Asset} {rem : Parts} {r : Fund} (h : assemble [k, ⟨a, rem⟩] = .ok r)
    (x : Acct) : amtOf r.parts x = amtOf k.parts x + amtOf rem x := by
  rw [(assemble_pair h).2.2, concat_amtOf]

theorem assemble_pair_nonneg {k : Fund} {a : Asset} {rem : Parts} {r : Fund} (h : assemble [k, ⟨a, rem⟩] = .ok r)
    (hk : NonNeg k.parts) (hr : NonNeg rem) : NonNeg r.parts := by
  rw [(assemble_pair h).2.2]; exact concat_nonneg hk hr

/-! ### sources give non-negative parts -/

theorem withdrawAll_part {b b' : Bal} {a : Acct} {s : Asset} {o : Int} {p : Part}
    (h : withdrawAll b a s o = .ok (p, b')) : p.acct = a ∧ 0 ≤ p.amt := by
  obtain ⟨t, _, h1 | h1⟩ := withdrawAll_inv h
  · obtain ⟨hpos, rfl, _⟩ := h1; exact ⟨rfl, by simp; omega⟩
  · obtain ⟨_, rfl, _⟩ := h1; exact ⟨rfl, by simp⟩

theorem nonNeg_single {p : Part} (h : 0 ≤ p.amt) : NonNeg [p] := NonNeg.cons h nonNeg_nil

mutual
/-- whatever a source provides, every part of it is non-negative -/
theorem evalSource_nonneg (env : VEnv) (asset : Asset) : (s : Source) → (b : Bal) → (f : Fund) → (fb : Option Acct) →
    (b' : Bal) → evalSource env asset s b = .ok (f, fb, b') → NonNeg f.parts
  | .acct e od, b, f, fb, b', h => by
    obtain ⟨a, oa, o, unb, p, _, _, hw, rfl, _⟩ := evalSource_acct_inv h
    exact nonNeg_single (withdrawAll_part hw).2
  | .maxed cap s, b, f, fb, b', h => by
    obtain ⟨f0, fb0, b1, ma, mn, hs, _, hmn, _, _, hc⟩ := evalSource_maxed_inv h
    have h0 := evalSource_nonneg env asset s b f0 fb0 b1 hs
    rcases hc with ⟨_, rfl, _⟩ | ⟨w, p, _, hw, hasm⟩
    · exact (takeMax_nonneg f0.parts mn h0).1
    · obtain ⟨t, _, rfl, _⟩ := withdrawAlways_inv hw
      exact assemble_pair_nonneg hasm (takeMax_nonneg f0.parts mn h0).1
        (nonNeg_single (missingOf_nonneg mn f0.parts))
  | .inorder ss, b, f, fb, b', h => by
    obtain ⟨fs, hs, hasm⟩ := evalSource_inorder_inv h
    exact assemble_nonneg hasm (evalSources_nonneg env asset ss b fs fb b' hs)
theorem evalSources_nonneg (env : VEnv) (asset : Asset) : (ss : SourceList) → (b : Bal) → (fs : List Fund) →
    (fb : Option Acct) → (b' : Bal) → evalSources env asset ss b = .ok (fs, fb, b') → ∀ f ∈ fs, NonNeg f.parts
  | .nil, b, fs, fb, b', h => by
    obtain ⟨rfl, _, _⟩ := evalSources_nil_inv h
    intro f hf; simp at hf
  | .cons s rest, b, fs, fb, b', h => by
    obtain ⟨f, fb1, b1, fs', fb2, hs, hr, rfl, _⟩ := evalSources_cons_inv h
    have h1 := evalSource_nonneg env asset s b f fb1 b1 hs
    have h2 := evalSources_nonneg env asset rest b1 fs' fb2 b' hr
    intro g hg
    rcases List.mem_cons.mp hg with rfl | hg
    · exact h1
    · exact h2 g hg
end

/-- `max m from s`: the capped source never provides more than the cap; when the sub-source is unbounded (has a
fallback account) it provides exactly the cap -/
theorem evalSource_maxed_total {env : VEnv} {asset : Asset} {cap : Expr} {s : Source} {b b' : Bal} {f : Fund}
    {fb : Option Acct} (h : evalSource env asset (.maxed cap s) b = .ok (f, fb, b')) :
    ∃ f0 fb0 b1 ma mn, evalSource env asset s b = .ok (f0, fb0, b1) ∧ evalMon env cap = .ok (ma, mn) ∧
      0 ≤ mn ∧ f.asset = ma ∧
      (fb0 = none → total f.parts = min mn (total f0.parts)) ∧ (fb0 ≠ none → total f.parts = mn) := by
  obtain ⟨f0, fb0, b1, ma, mn, hs, hm, hmn, ha, _, hc⟩ := evalSource_maxed_inv h
  have h0 := evalSource_nonneg env asset s b f0 fb0 b1 hs
  have hle := takeMax_le f0.parts mn hmn h0
  refine ⟨f0, fb0, b1, ma, mn, hs, hm, hmn, ?_⟩
  rcases hc with ⟨hfb, rfl, _⟩ | ⟨w, p, hfb, hw, hasm⟩
  · refine ⟨ha, fun _ => hle.2, fun hne => absurd hfb hne⟩
  · obtain ⟨t, _, rfl, _⟩ := withdrawAlways_inv hw
    refine ⟨(assemble_pair hasm).1, fun hn => (by rw [hfb] at hn; cases hn), fun _ => ?_⟩
    rw [assemble_pair_total hasm]
    simp only [total_cons, total_nil, missingOf]
    split <;> omega

/-! ### `takeFromSource` is exact -/

/-- a bounded source (no fallback) yields exactly the amount, which must be non-negative and covered -/
theorem takeFromSource_none_exact {f : Fund} {ma : Asset} {mn : Int} {b b' : Bal} {t : Fund}
    (hf : NonNeg f.parts) (h : takeFromSource none f ma mn b = .ok (t, b')) :
    total t.parts = mn ∧ 0 ≤ mn ∧ mn ≤ total f.parts ∧ NonNeg t.parts ∧ t.asset = ma := by
  obtain ⟨taken, rest, ha, ht, rfl, _⟩ := takeFromSource_none_inv h
  have h1 := take_total hf ht
  have h2 := take_nonneg hf ht
  have h3 := total_nonneg h2.2
  exact ⟨h1.1, take_some_req ht, by omega, h2.1, ha⟩

/-- an unbounded source yields exactly the amount: what the funding holds up to the amount, the rest
(`missingOf`) from the fallback account -/
theorem takeFromSource_some_exact {w : Acct} {f : Fund} {ma : Asset} {mn : Int} {b b' : Bal} {t : Fund}
    (hf : NonNeg f.parts) (h : takeFromSource (some w) f ma mn b = .ok (t, b')) :
    total t.parts = mn ∧ 0 ≤ mn ∧ NonNeg t.parts ∧ t.asset = ma ∧
      amtOf t.parts w = amtOf (takeMax f.parts mn).1 w + missingOf mn f.parts := by
  obtain ⟨p, hmn, ha, hw, hasm⟩ := takeFromSource_some_inv h
  obtain ⟨t0, _, rfl, _⟩ := withdrawAlways_inv hw
  have hle := takeMax_le f.parts mn hmn hf
  refine ⟨?_, hmn, ?_, (assemble_pair hasm).1, ?_⟩
  · rw [assemble_pair_total hasm]
    simp only [total_cons, total_nil, missingOf]
    split <;> omega
  · exact assemble_pair_nonneg hasm (takeMax_nonneg f.parts mn hf).1 (nonNeg_single (missingOf_nonneg mn f.parts))
  · rw [assemble_pair_amtOf hasm]; simp [amtOf_cons]

theorem takeFromSource_exact {fb : Option Acct} {f : Fund} {ma : Asset} {mn : Int} {b b' : Bal} {t : Fund}
    (hf : NonNeg f.parts) (h : takeFromSource fb f ma mn b = .ok (t, b')) :
    total t.parts = mn ∧ 0 ≤ mn ∧ NonNeg t.parts ∧ t.asset = ma := by
  cases fb with
  | none => have := takeFromSource_none_exact hf h; exact ⟨this.1, this.2.1, this.2.2.2.1, this.2.2.2.2⟩
  | some w => have := takeFromSource_some_exact hf h; exact ⟨this.1, this.2.1, this.2.2.1, this.2.2.2.1⟩

/-! ### destinations conserve -/

/-- what a destination does with a funding `f`: it appends postings (non-negative, in the funding's asset) and
hands back `r` (the kept part); emitted plus handed back is exactly what was received -/
def DestOK (f r : Fund) (st st' : St) : Prop :=
  ∃ new, st'.postings = st.postings ++ new ∧ (∀ p ∈ new, 0 ≤ p.amt ∧ p.asset = f.asset) ∧
    sumAmt new + total r.parts = total f.parts ∧ NonNeg r.parts ∧ r.asset = f.asset

theorem DestOK.refl {f : Fund} (st : St) (hf : NonNeg f.parts) : DestOK f f st st :=
  ⟨[], by simp, by simp, by simp, hf, rfl⟩

theorem DestOK.trans {f c r : Fund} {st st1 st2 : St} (h1 : DestOK f c st st1) (h2 : DestOK c r st1 st2) :
    DestOK f r st st2 := by
  obtain ⟨n1, hp1, hn1, hs1, _, ha1⟩ := h1
  obtain ⟨n2, hp2, hn2, hs2, hr2, ha2⟩ := h2
  refine ⟨n1 ++ n2, by rw [hp2, hp1, List.append_assoc], ?_, ?_, hr2, by rw [ha2, ha1]⟩
  · intro p hp
    rcases List.mem_append.mp hp with hp | hp
    · exact hn1 p hp
    · have := hn2 p hp; exact ⟨this.1, by rw [this.2, ha1]⟩
  · rw [sumAmt_append]; omega

/-- a piece `f1` of `f` goes through a sub-destination which hands back `k`; `k` is put in front of the
remainder `rem`; the result `c` goes on -/
theorem DestOK.pair {f f1 k c : Fund} {a : Asset} {rem : Parts} {st st1 : St}
    (h1 : DestOK f1 k st st1) (hasm : assemble [k, ⟨a, rem⟩] = .ok c) (hrem : NonNeg rem)
    (hfa : f1.asset = f.asset) (hft : total f.parts = total f1.parts + total rem) : DestOK f c st st1 := by
  obtain ⟨n1, hp1, hn1, hs1, hk, ha1⟩ := h1
  obtain ⟨hca, hka, _⟩ := assemble_pair hasm
  refine ⟨n1, hp1, ?_, ?_, assemble_pair_nonneg hasm hk hrem, by rw [hca, ← hka, ha1, hfa]⟩
  · intro p hp; have := hn1 p hp; exact ⟨this.1, by rw [this.2, hfa]⟩
  · rw [assemble_pair_total hasm]; omega

theorem emit_postings (a : Acct) (f : Fund) (st : St) :
    (emit a f st).postings = st.postings ++ f.parts.map (fun p => ⟨p.acct, a, p.amt, f.asset⟩) := rfl

theorem sumAmt_emit (a : Acct) (asset : Asset) (ps : Parts) :
    sumAmt (ps.map (fun p => (⟨p.acct, a, p.amt, asset⟩ : Posting))) = total ps := by
  induction ps with
  | nil => simp
  | cons p ps ih => simp [ih]

mutual
/-- `dest_conserves`: emitted + handed back = received -/
theorem evalDest_conserves (env : VEnv) : (d : Dest) → (f r : Fund) → (st st' : St) →
    evalDest env d f st = .ok (r, st') → NonNeg f.parts → DestOK f r st st'
  | .acct e, f, r, st, st', h, hf => by
    obtain ⟨taken, rest, a, ht, _, rfl, rfl⟩ := evalDest_acct_inv h
    have h1 := take_total hf ht
    have h2 := take_nonneg hf ht
    refine ⟨taken.map (fun p => ⟨p.acct, a, p.amt, f.asset⟩), emit_postings _ _ _, ?_, ?_, h2.2, rfl⟩
    · intro p hp
      obtain ⟨q, hq, rfl⟩ := List.mem_map.mp hp
      exact ⟨h2.1 q hq, rfl⟩
    · rw [sumAmt_emit]; exact h1.2
  | .inorder caps rest, f, r, st, st', h, hf => by
    obtain ⟨kt, cur, st1, tk, rest2, r0, hc, ht, hk, hasm⟩ := evalDest_inorder_inv h
    have h1 := evalCaps_conserves env caps 0 kt f cur st st1 hc hf
    have hcur : NonNeg cur.parts := h1.choose_spec.2.2.2.1
    have hca : cur.asset = f.asset := h1.choose_spec.2.2.2.2
    have h2 := take_total hcur.reverse ht
    have h3 := take_nonneg hcur.reverse ht
    have hk' := evalKD_conserves env rest ⟨f.asset, rest2.reverse⟩ r0 st1 st' hk h3.2.reverse
    have h4 : DestOK cur r st1 st' :=
      DestOK.pair (f := cur) hk' hasm h3.1.reverse hca.symm
        (by simp only [total_reverse] at h2 ⊢; omega)
    exact h1.trans h4
  | .allot items, f, r, st, st', h, hf => by
    obtain ⟨ps, _, ha⟩ := evalDest_allot_inv h
    exact evalAllot_conserves env items _ f r st st' ha hf
theorem evalKD_conserves (env : VEnv) : (kd : KeptOrDest) → (f r : Fund) → (st st' : St) →
    evalKD env kd f st = .ok (r, st') → NonNeg f.parts → DestOK f r st st'
  | .kept, f, r, st, st', h, hf => by
    rw [evalKD_kept] at h
    simp only [Except.ok.injEq, Prod.mk.injEq] at h
    obtain ⟨rfl, rfl⟩ := h
    exact DestOK.refl _ hf
  | .to d, f, r, st, st', h, hf => by
    rw [evalKD_to] at h
    exact evalDest_conserves env d f r st st' h hf
theorem evalCaps_conserves (env : VEnv) : (cs : CapList) → (kt kt' : Int) → (cur cur' : Fund) → (st st' : St) →
    evalCaps env cs kt cur st = .ok (kt', cur', st') → NonNeg cur.parts → DestOK cur cur' st st'
  | .nil, kt, kt', cur, cur', st, st', h, hf => by
    obtain ⟨_, rfl, rfl⟩ := evalCaps_nil_inv h
    exact DestOK.refl _ hf
  | .cons cap kd rest, kt, kt', cur, cur', st, st', h, hf => by
    obtain ⟨ma, mn, k, st1, c, _, hmn, _, hk, _, hasm, hr⟩ := evalCaps_cons_inv h
    have hs := takeMax_nonneg cur.parts mn hf
    have hk' := evalKD_conserves env kd ⟨cur.asset, (takeMax cur.parts mn).1⟩ k st st1 hk hs.1
    have h1 : DestOK cur c st st1 :=
      DestOK.pair (f := cur) hk' hasm hs.2 rfl (by have := takeMax_total cur.parts mn; simp only; omega)
    have h2 := evalCaps_conserves env rest _ kt' c cur' st1 st' hr h1.choose_spec.2.2.2.1
    exact h1.trans h2
theorem evalAllot_conserves (env : VEnv) : (items : AllotList) → (parts : List Int) → (cur r : Fund) → (st st' : St) →
    evalAllot env items parts cur st = .ok (r, st') → NonNeg cur.parts → DestOK cur r st st'
  | .nil, parts, cur, r, st, st', h, hf => by
    obtain ⟨rfl, rfl⟩ := evalAllot_nil_inv h
    exact DestOK.refl _ hf
  | .cons ps0 kd rest, parts, cur, r, st, st', h, hf => by
    obtain ⟨p, ps, taken, rem, k, st1, c, _, ht, hk, hasm, hr⟩ := evalAllot_cons_inv h
    have h1 := take_total hf ht
    have h2 := take_nonneg hf ht
    have hk' := evalKD_conserves env kd ⟨cur.asset, taken⟩ k st st1 hk h2.1
    have h3 : DestOK cur c st st1 := DestOK.pair (f := cur) hk' hasm h2.2 rfl (by simp only; omega)
    have h4 := evalAllot_conserves env rest ps c r st1 st' hr h3.choose_spec.2.2.2.1
    exact h3.trans h4
end

/-! ### sends -/

theorem bumpLoop_length' (n : Int) (xs : List Int) (acc : Int) : (bumpLoop n xs acc).length = xs.length := by
  induction xs generalizing acc with
  | nil => simp [bumpLoop]
  | cons x xs ih => simp only [bumpLoop]; split <;> simp [ih]

theorem allocate_length' (ps : List Rat') (n : Int) : (allocate ps n).length = ps.length := by
  simp [allocate, bumpLoop_length']


/-- what a send does once its funding `f` is determined: the postings it appends add up to the funding minus
what the destination keeps (which goes back to the sources) -/
def SendOK (asset : Asset) (amount : Int) (st st' : St) : Prop :=
  ∃ new kept, st'.postings = st.postings ++ new ∧ (∀ p ∈ new, 0 ≤ p.amt ∧ p.asset = asset) ∧
    sumAmt new = amount - kept ∧ 0 ≤ kept

theorem finishSend_ok {env : VEnv} {d : Dest} {f : Fund} {st st' : St} (h : finishSend env d f st = .ok st')
    (hf : NonNeg f.parts) : SendOK f.asset (total f.parts) st st' := by
  obtain ⟨rest, st1, hd, rfl⟩ := finishSend_inv h
  obtain ⟨new, hp, hn, hs, hr, _⟩ := evalDest_conserves env d f rest st st1 hd hf
  exact ⟨new, total rest.parts, hp, hn, by omega, total_nonneg hr⟩

/-- the shares of a source allotment: each source delivers exactly its share -/
theorem evalAllotSources_total (env : VEnv) (asset ma : Asset) :
    (items : List (PortionSpec × Source)) → (parts : List Int) → (b b' : Bal) → (ts : List Fund) →
    evalAllotSources env asset ma items parts b = .ok (ts, b') →
    (∀ t ∈ ts, NonNeg t.parts ∧ t.asset = ma) ∧ items.length ≤ parts.length ∧
      (ts.map (fun t => total t.parts)).sum = (parts.take items.length).sum ∧
      ∀ y ∈ parts.take items.length, 0 ≤ y
  | [], parts, b, b', ts, h => by
    obtain ⟨rfl, _⟩ := evalAllotSources_nil_inv h
    simp
  | it :: rest, parts, b, b', ts, h => by
    obtain ⟨p, ps, f, fb, b1, t, b2, ts', rfl, hs, ht, hr, rfl⟩ := evalAllotSources_cons_inv h
    have hf := evalSource_nonneg env asset it.2 b f fb b1 hs
    have h1 := takeFromSource_exact hf ht
    obtain ⟨h2, h3, h4, h5⟩ := evalAllotSources_total env asset ma rest ps b2 b' ts' hr
    refine ⟨?_, by simp; omega, ?_, ?_⟩
    · intro u hu
      rcases List.mem_cons.mp hu with rfl | hu
      · exact ⟨h1.2.2.1, h1.2.2.2⟩
      · exact h2 u hu
    · simp [h4, h1.1]
    · intro y hy
      simp only [List.length_cons, List.take_succ_cons, List.mem_cons] at hy
      rcases hy with rfl | hy
      · exact h1.2.1
      · exact h5 y hy

theorem send_mon_src_ok {env : VEnv} {e : Expr} {s : Source} {d : Dest} {st st' : St} {ma : Asset} {mn : Int}
    (h : evalSend env (.mon e) (.src s) d st = .ok st') (hm : evalMon env e = .ok (ma, mn)) :
    SendOK ma mn st st' ∧ 0 ≤ mn := by
  obtain ⟨a, f, fb, b1, ma', mn', taken, b2, _, hs, hm', ht, hfin⟩ := evalSend_mon_src_inv h
  rw [hm] at hm'
  simp only [Except.ok.injEq, Prod.mk.injEq] at hm'
  obtain ⟨rfl, rfl⟩ := hm'
  have hf := evalSource_nonneg env a s st.bal f fb b1 hs
  obtain ⟨h1, h2, h3, h4⟩ := takeFromSource_exact hf ht
  have := finishSend_ok hfin h3
  rw [h1, h4] at this
  exact ⟨this, h2⟩

theorem send_all_src_ok {env : VEnv} {ae : Expr} {s : Source} {d : Dest} {st st' : St}
    (h : evalSend env (.all ae) (.src s) d st = .ok st') :
    ∃ a f fb b1, evalAsset env ae = .ok a ∧ evalSource env a s st.bal = .ok (f, fb, b1) ∧
      SendOK f.asset (total f.parts) st st' := by
  obtain ⟨a, f, fb, b1, ha, hs, hfin⟩ := evalSend_all_src_inv h
  have hf := evalSource_nonneg env a s st.bal f fb b1 hs
  have hok := finishSend_ok hfin hf
  exact ⟨a, f, fb, b1, ha, hs, hok⟩

theorem send_mon_allot_ok {env : VEnv} {e : Expr} {items : List (PortionSpec × Source)} {d : Dest} {st st' : St}
    {ma : Asset} {mn : Int}
    (h : evalSend env (.mon e) (.allot items) d st = .ok st') (hm : evalMon env e = .ok (ma, mn)) :
    ∃ ps, resolvePortions env (items.map (·.1)) = .ok ps ∧ items.length ≤ ps.length ∧
      SendOK ma ((allocate ps mn).take items.length).sum st st' ∧
      ∀ y ∈ (allocate ps mn).take items.length, 0 ≤ y := by
  obtain ⟨ma', mn', a, ps, ts, b1, f, hm', _, hp, hs, hasm, hfin⟩ := evalSend_mon_allot_inv h
  rw [hm] at hm'
  simp only [Except.ok.injEq, Prod.mk.injEq] at hm'
  obtain ⟨rfl, rfl⟩ := hm'
  obtain ⟨h1, h2, h3, h4⟩ := evalAllotSources_total env a ma items _ st.bal b1 ts hs
  have hf : NonNeg f.parts := assemble_nonneg hasm (fun t ht => (h1 t ht).1)
  have hfa : f.asset = ma := by
    obtain ⟨⟨l, hl, hla⟩, _, _⟩ := assemble_ok hasm
    rw [hla]; exact (h1 l (List.mem_of_getLast? hl)).2
  have := finishSend_ok hfin hf
  rw [assemble_total hasm, h3, hfa] at this
  exact ⟨ps, hp, by rw [← allocate_length' ps mn]; exact h2, this, h4⟩

/-! ### whole runs: every posting is non-negative -/

/-- postings only ever get appended, and what is appended is non-negative -/
def Appends (ps ps' : List Posting) : Prop := ∃ new, ps' = ps ++ new ∧ ∀ p ∈ new, 0 ≤ p.amt

theorem Appends.refl (ps : List Posting) : Appends ps ps := ⟨[], by simp, by simp⟩
theorem Appends.trans {a b c : List Posting} (h1 : Appends a b) (h2 : Appends b c) : Appends a c := by
  obtain ⟨n1, rfl, hn1⟩ := h1
  obtain ⟨n2, rfl, hn2⟩ := h2
  refine ⟨n1 ++ n2, by rw [List.append_assoc], ?_⟩
  intro p hp
  rcases List.mem_append.mp hp with hp | hp
  · exact hn1 p hp
  · exact hn2 p hp
theorem SendOK.appends {a : Asset} {n : Int} {st st' : St} (h : SendOK a n st st') : Appends st.postings st'.postings := by
  obtain ⟨new, _, hp, hn, _, _⟩ := h
  exact ⟨new, hp, fun p hp => (hn p hp).1⟩

theorem evalSend_appends {env : VEnv} {amt : SendAmt} {src : VSource} {d : Dest} {st st' : St}
    (h : evalSend env amt src d st = .ok st') : Appends st.postings st'.postings := by
  cases amt with
  | mon e =>
    cases src with
    | src s =>
      obtain ⟨a, f, fb, b1, ma, mn, taken, b2, _, _, hm, _, _⟩ := evalSend_mon_src_inv h
      exact (send_mon_src_ok h hm).1.appends
    | allot items =>
      obtain ⟨ma, mn, a, ps, ts, b1, f, hm, _⟩ := evalSend_mon_allot_inv h
      obtain ⟨ps, _, _, hok, _⟩ := send_mon_allot_ok h hm
      exact hok.appends
  | all ae =>
    cases src with
    | src s =>
      obtain ⟨a, f, fb, b1, _, _, hok⟩ := send_all_src_ok h
      exact hok.appends
    | allot items => rw [evalSend_all_allot] at h; cases h

theorem evalStmt_appends {env : VEnv} {s : Stmt} {F F' : Full} (h : evalStmt env s F = .ok F') :
    Appends F.st.postings F'.st.postings := by
  by_cases h1 : ∃ amt src d, s = .send amt src d
  · obtain ⟨amt, src, d, rfl⟩ := h1
    obtain ⟨st, hs, rfl⟩ := evalStmt_send_inv h
    exact evalSend_appends hs
  · by_cases h2 : ∃ e acc, s = .saveMon e acc
    · obtain ⟨e, acc, rfl⟩ := h2
      obtain ⟨ma, mn, a, t, _, _, _, _, rfl⟩ := evalStmt_saveMon_inv h
      exact Appends.refl _
    · by_cases h3 : ∃ ae acc, s = .saveAll ae acc
      · obtain ⟨ae, acc, rfl⟩ := h3
        obtain ⟨s, a, t, _, _, _, rfl⟩ := evalStmt_saveAll_inv h
        exact Appends.refl _
      · have := evalStmt_other_inv h (fun amt src d hs => h1 ⟨amt, src, d, hs⟩)
          (fun e acc hs => h2 ⟨e, acc, hs⟩) (fun ae acc hs => h3 ⟨ae, acc, hs⟩)
        rw [this]; exact Appends.refl _

theorem evalStmts_appends {env : VEnv} : (ss : List Stmt) → (F F' : Full) → evalStmts env ss F = .ok F' →
    Appends F.st.postings F'.st.postings
  | [], F, F', h => by
    simp only [evalStmts, Except.ok.injEq] at h
    rw [← h]; exact Appends.refl _
  | s :: ss, F, F', h => by
    obtain ⟨F1, h1, h2⟩ := evalStmts_cons_inv h
    exact (evalStmt_appends h1).trans (evalStmts_appends ss F1 F' h2)

/-- `postings_nonneg`: an accepted run never produces a negative posting -/
theorem run_postings_nonneg {P : Script} {req : Request} {store : Store} {r : Result}
    (h : run P req store = .ok r) : ∀ p ∈ r.postings, 0 ≤ p.amt := by
  obtain ⟨env, F, _, he, hp⟩ := run_inv h
  obtain ⟨new, hn, hnn⟩ := evalStmts_appends P.stmts _ F he
  rw [hp, hn]
  intro p hp
  simp only [List.nil_append] at hp
  exact hnn p hp

/-! ### ordered sources: front to back -/

/-- `takeLoop` drains a funding front to back: every part of what is taken corresponds to the part of the
funding at the same position, never exceeds it, and all the parts BEFORE a taken part are taken in full -/
theorem takeLoop_drain (f : Parts) (n : Int) (j : Nat) (hj : j < (takeLoop f n).1.length) :
    ∃ hjf : j < f.length, ((takeLoop f n).1[j]).acct = f[j].acct ∧ ((takeLoop f n).1[j]).amt ≤ f[j].amt ∧
      ∀ i (hi : i < j), (takeLoop f n).1[i]'(by omega) = f[i]'(by omega) := by
  induction f generalizing n j with
  | nil => simp [takeLoop] at hj
  | cons p ps ih =>
    by_cases hn : n > 0
    · by_cases hgt : p.amt > n
      · have heq : (takeLoop (p :: ps) n).1 = [{ p with amt := n }] := by simp [takeLoop, hn, hgt]
        have hj0 : j = 0 := by rw [heq] at hj; simpa using hj
        subst hj0
        refine ⟨by simp, ?_, ?_, fun i hi => absurd hi (by omega)⟩
        · simp [heq]
        · simp [heq]; omega
      · have heq : (takeLoop (p :: ps) n).1 = p :: (takeLoop ps (n - p.amt)).1 := by simp [takeLoop, hn, hgt]
        cases j with
        | zero =>
          refine ⟨by simp, ?_, ?_, fun i hi => absurd hi (by omega)⟩
          · simp [heq]
          · simp [heq]
        | succ j =>
          have hj' : j < (takeLoop ps (n - p.amt)).1.length := by rw [heq] at hj; simpa using hj
          obtain ⟨hjf, h1, h2, h3⟩ := ih (n - p.amt) j hj'
          refine ⟨by simp; omega, ?_, ?_, ?_⟩
          · simpa [heq] using h1
          · simpa [heq] using h2
          · intro i hi
            cases i with
            | zero => simp [heq]
            | succ i =>
              have := h3 i (by omega)
              simpa [heq] using this
    · have heq : (takeLoop (p :: ps) n).1 = [] := by simp [takeLoop, hn]
      rw [heq] at hj; simp at hj

/-- the same for `take` of a positive amount (no zero-amount quirk) -/
theorem take_drain {f t r : Parts} {n : Int} (hn : 0 < n) (h : take f n = some (t, r)) (j : Nat) (hj : j < t.length) :
    ∃ hjf : j < f.length, (t[j]).acct = f[j].acct ∧ (t[j]).amt ≤ f[j].amt ∧
      ∀ i (hi : i < j), t[i]'(by omega) = f[i]'(by omega) := by
  obtain ⟨_, ht, _⟩ := take_eq_some h
  have hpre : takePre f n = [] := by simp [takePre]; omega
  rw [hpre, List.nil_append] at ht
  subst ht
  exact takeLoop_drain f n j hj

end Num
