import Lemmas.TxSend
/-! Induction over the posting list (C09): the statements `txToScript` generates, executed by `Spec.evalStmts` in an
environment that resolves the generated names, emit exactly the postings — or stop with `insufficient` at the
first posting whose bounded source is short in the replay. -/
set_option linter.unusedSimpArgs false
namespace Num
namespace Tx

/-- the interpreter's tracked balances are the replayed ones (`world` is only required to keep its entries) -/
def Track (nd : List (Acct × Asset)) (R : Acct → Asset → Int) (b : Bal) : Prop :=
  (∀ x y, x ≠ "world" → b.get x y = if (x, y) ∈ nd then some (R x y) else none) ∧
  (∀ y, (b.get "world" y).isSome = decide (("world", y) ∈ nd))

theorem track_step {nd : List (Acct × Asset)} {R : Acct → Asset → Int} {st st' : St} {p : Posting}
    (h : Track nd R st.bal) (hp : Post st p st') : Track nd (applyP R p) st'.bal := by
  obtain ⟨h1, h2⟩ := h
  obtain ⟨_, p2, p3⟩ := hp
  refine ⟨fun x y hx => ?_, fun y => ?_⟩
  · rw [p2 x y hx, h1 x y hx]
    by_cases hm : (x, y) ∈ nd
    · simp [hm, delta, applyP]
    · simp [hm]
  · rw [p3 y, h2 y]

/-- what the generated statements need from the environment and the needed-balance list, for one posting -/
structure Ready (env : VEnv) (t : Tables) (nd : List (Acct × Asset)) (p : Posting) : Prop where
  src : p.src ≠ "world" → lookupVar env (acctVar t.accts p.src) = some (.acct p.src)
  dst : p.dst ≠ "world" → lookupVar env (acctVar t.accts p.dst) = some (.acct p.dst)
  mon : lookupVar env (monVar t.mons p) = some (.mon p.asset p.amt)
  amt : 0 ≤ p.amt
  need : (p.src, p.asset) ∈ nd

/-- acceptance condition: forced (every source unbounded) or covered by the replay -/
def coveredU (ub : Bool) (R : Acct → Asset → Int) (ps : List Posting) : Bool := ub || covered R ps

theorem evalStmt_sendOf (env : VEnv) (t : Tables) (ub : Bool) (p : Posting) (F : Full) :
    evalStmt env (sendOf t ub p) F =
      match evalSendStmt env (sendOf t ub p) F.st with
      | .error er => .error er
      | .ok st => .ok { F with st := st } := rfl

theorem stmts_spec {env : VEnv} {t : Tables} {ub : Bool} {nd : List (Acct × Asset)} (ps : List Posting) :
    ∀ (F : Full) (R : Acct → Asset → Int), (∀ p ∈ ps, Ready env t nd p) → Track nd R F.st.bal →
      (coveredU ub R ps = true →
        ∃ F', evalStmts env (ps.map (sendOf t ub)) F = .ok F' ∧ F'.st.postings = F.st.postings ++ ps ∧
          F'.txMeta = F.txMeta ∧ F'.acctMeta = F.acctMeta ∧ F'.prints = F.prints) ∧
      (coveredU ub R ps = false → evalStmts env (ps.map (sendOf t ub)) F = .error .insufficient) := by
  induction ps with
  | nil =>
    intro F R _ _
    refine ⟨fun _ => ⟨F, rfl, by simp, rfl, rfl, rfl⟩, fun h => ?_⟩
    simp [coveredU, covered] at h
  | cons p ps ih =>
    intro F R hr htk
    have hp := hr p (by simp)
    have hrest : ∀ q ∈ ps, Ready env t nd q := fun q hq => hr q (by simp [hq])
    -- the source is tracked
    obtain ⟨tb, htb, htbR⟩ : ∃ tb, F.st.bal.get p.src p.asset = some tb ∧ (p.src ≠ "world" → tb = R p.src p.asset) := by
      by_cases hw : p.src = "world"
      · have := htk.2 p.asset
        rw [← hw] at this
        simp only [hp.need, decide_true] at this
        obtain ⟨tb, h⟩ := Option.isSome_iff_exists.1 this
        exact ⟨tb, h, fun c => absurd hw c⟩
      · have := htk.1 p.src p.asset hw
        simp only [hp.need, if_true] at this
        exact ⟨_, this, fun _ => rfl⟩
    obtain ⟨s1, s2⟩ := send_spec (ub := ub) (st := F.st) hp.src hp.dst hp.mon hp.amt htb
    by_cases hc : p.src = "world" ∨ ub = true ∨ p.amt = 0 ∨ p.amt ≤ tb
    · obtain ⟨st', he, hpost⟩ := s1 hc
      have htk' := track_step htk hpost
      obtain ⟨i1, i2⟩ := ih { F with st := st' } (applyP R p) hrest htk'
      have hstep : evalStmts env ((p :: ps).map (sendOf t ub)) F = evalStmts env (ps.map (sendOf t ub)) { F with st := st' } := by
        simp only [List.map, evalStmts, evalStmt_sendOf, he]
      have hcov : coveredU ub R (p :: ps) = coveredU ub (applyP R p) ps := by
        by_cases hub : ub = true
        · simp [coveredU, hub]
        · have hub' : ub = false := by simpa using hub
          have : (p.src = "world" ∨ p.amt = 0 ∨ p.amt ≤ R p.src p.asset) := by
            rcases hc with h | h | h | h
            · exact Or.inl h
            · exact absurd h hub
            · exact Or.inr (Or.inl h)
            · by_cases hw : p.src = "world"
              · exact Or.inl hw
              · rw [htbR hw] at h; exact Or.inr (Or.inr h)
          simp only [coveredU, hub', Bool.false_or, covered]
          have : (decide (p.src = "world") || decide (p.amt = 0) || decide (p.amt ≤ R p.src p.asset)) = true := by
            simpa [Bool.or_assoc] using this
          rw [this, Bool.true_and]
      rw [hstep, hcov]
      refine ⟨fun h => ?_, i2⟩
      obtain ⟨F', f1, f2, f3, f4, f5⟩ := i1 h
      refine ⟨F', f1, ?_, f3, f4, f5⟩
      rw [f2, hpost.1]; simp
    · have he := s2 hc
      have hstep : evalStmts env ((p :: ps).map (sendOf t ub)) F = .error .insufficient := by
        simp only [List.map, evalStmts, evalStmt_sendOf, he]
      have hcov : coveredU ub R (p :: ps) = false := by
        have hub : ub = false := by
          cases ub with
          | false => rfl
          | true => exact absurd (Or.inr (Or.inl rfl)) hc
        have hw : p.src ≠ "world" := fun h => hc (Or.inl h)
        have h0 : p.amt ≠ 0 := fun h => hc (Or.inr (Or.inr (Or.inl h)))
        have hle : ¬ p.amt ≤ R p.src p.asset := fun h => hc (Or.inr (Or.inr (Or.inr (by rw [htbR hw]; exact h))))
        simp [coveredU, hub, covered, hw, h0, hle]
      rw [hstep, hcov]
      exact ⟨fun h => by simp at h, fun _ => rfl⟩

end Tx
end Num
