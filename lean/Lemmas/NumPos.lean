import Lemmas.NumStmt
/-! No portion constant with a zero denominator enters the resource table: the portion constants of a compiled
program are portion literals of its text, and the fragment only allows literals with a positive denominator. -/
namespace Num

/-- every portion literal of an expression has a positive denominator -/
def Expr.litsPos : Expr → Bool
  | .portion r => decide (0 < r.den)
  | .badPortion => true
  | .mon ae _ => ae.litsPos
  | .add l r => l.litsPos && r.litsPos
  | .sub l r => l.litsPos && r.litsPos
  | _ => true

theorem litsPos_of_noPortion {e : Expr} (h : e.noPortion = true) : e.litsPos = true := by
  induction e with
  | portion r => simp [Expr.noPortion] at h
  | badPortion => rfl
  | mon ae k ih => exact ih (by simpa [Expr.noPortion] using h)
  | add l r ihl ihr =>
    have : l.noPortion = true ∧ r.noPortion = true := by simpa [Expr.noPortion] using h
    simp [Expr.litsPos, ihl this.1, ihr this.2]
  | sub l r ihl ihr =>
    have : l.noPortion = true ∧ r.noPortion = true := by simpa [Expr.noPortion] using h
    simp [Expr.litsPos, ihl this.1, ihr this.2]
  | acct _ => rfl
  | asset _ => rfl
  | num _ => rfl
  | str _ => rfl
  | var _ => rfl

/-- the step keeps the table free of zero-denominator portion constants -/
def PosExt (st st' : CState) : Prop := TablePos st.resources → TablePos st'.resources

theorem PosExt.refl (st : CState) : PosExt st st := id
theorem PosExt.trans {a b c : CState} (h1 : PosExt a b) (h2 : PosExt b c) : PosExt a c := h2 ∘ h1
theorem PosExt.addSources (st : CState) (l : List Addr) : PosExt st (addSources st l) := id
theorem PosExt.setNeeded (st : CState) (l : List Addr) (a : Addr) : PosExt st (setNeeded st l a) := id

theorem appendResource_pos {st st' : CState} {r : Resource} {a : Addr} (hr : ∀ q, r = .const (.portion q) → 0 < q.den)
    (h : appendResource st r = .ok (a, st')) : PosExt st st' := by
  obtain ⟨_, rfl⟩ := appendResource_ok h
  intro ht q hq
  rcases List.mem_append.mp hq with hq | hq
  · exact ht q hq
  · simp only [List.mem_singleton] at hq; exact hr q hq.symm

theorem allocRes_pos {st st' : CState} {r : Resource} {a : Addr} (hr : ∀ q, r = .const (.portion q) → 0 < q.den)
    (h : allocRes st r = .ok (a, st')) : PosExt st st' := by
  unfold allocRes at h
  cases r with
  | const v =>
    simp only at h
    split at h
    · simp only [Except.ok.injEq, Prod.mk.injEq] at h
      obtain ⟨_, rfl⟩ := h; exact PosExt.refl _
    · exact appendResource_pos hr h
  | var _ _ => exact appendResource_pos hr h
  | varMeta _ _ _ _ => exact appendResource_pos hr h
  | varBalance _ _ _ => exact appendResource_pos hr h
  | monetary _ _ => exact appendResource_pos hr h

theorem emitSeq_pos {st st' : CState} {es : List Emit} {c : Code} (h : emitSeq st es = .ok (c, st')) : PosExt st st' := by
  induction es generalizing st c with
  | nil =>
    simp only [emitSeq, Except.ok.injEq, Prod.mk.injEq] at h
    obtain ⟨_, rfl⟩ := h; exact PosExt.refl _
  | cons e es ih =>
    cases e with
    | op i =>
      simp only [emitSeq] at h
      split at h
      · cases h
      · rename_i c' st1 hr
        simp only [Except.ok.injEq, Prod.mk.injEq] at h
        obtain ⟨_, rfl⟩ := h; exact ih hr
    | pushAddr a =>
      simp only [emitSeq] at h
      split at h
      · cases h
      · rename_i c' st1 hr
        simp only [Except.ok.injEq, Prod.mk.injEq] at h
        obtain ⟨_, rfl⟩ := h; exact ih hr
    | pushInt n =>
      simp only [emitSeq] at h
      split at h
      · cases h
      · rename_i a st1 ha
        split at h
        · cases h
        · rename_i c' st2 hr
          simp only [Except.ok.injEq, Prod.mk.injEq] at h
          obtain ⟨_, rfl⟩ := h
          exact (allocRes_pos (by intro q hq; cases hq) ha).trans (ih hr)
    | bump n =>
      simp only [emitSeq] at h
      split at h
      · cases h
      · rename_i a st1 ha
        split at h
        · cases h
        · rename_i c' st2 hr
          simp only [Except.ok.injEq, Prod.mk.injEq] at h
          obtain ⟨_, rfl⟩ := h
          exact (allocRes_pos (by intro q hq; cases hq) ha).trans (ih hr)

theorem litOut_pos {st : CState} {ty : BTy} {v : BVal} {o : ExprOut} (hv : ∀ q, v = .portion q → 0 < q.den)
    (h : litOut st ty v = .ok o) : PosExt st o.st := by
  unfold litOut at h
  split at h
  · cases h
  · rename_i a st1 ha
    simp only [Except.ok.injEq] at h
    subst h
    exact allocRes_pos (by intro q hq; cases hq; exact hv q rfl) ha

theorem visitExpr_pos {st : CState} {e : Expr} {o : ExprOut} (h : visitExpr st e = .ok o) (hl : e.litsPos = true) : PosExt st o.st := by
  induction e generalizing st o with
  | acct a => exact litOut_pos (by intro q hq; cases hq) h
  | asset a => exact litOut_pos (by intro q hq; cases hq) h
  | num n => exact litOut_pos (by intro q hq; cases hq) h
  | str s => exact litOut_pos (by intro q hq; cases hq) h
  | portion r => exact litOut_pos (by intro q hq; cases hq; simpa [Expr.litsPos] using hl) h
  | badPortion => simp [visitExpr] at h
  | mon ae n ih =>
    simp only [visitExpr] at h
    split at h
    · cases h
    · rename_i ao hao
      have hext := ih (o := ao) hao (by simpa [Expr.litsPos] using hl)
      split at h
      · cases h
      · split at h
        · cases h
        · split at h
          · simp only [Except.ok.injEq] at h; subst h
            exact hext
          · split at h
            · cases h
            · rename_i m st1 hm
              simp only [Except.ok.injEq] at h; subst h
              exact hext.trans (allocRes_pos (by intro q hq; cases hq) hm)
  | var n =>
    simp only [visitExpr] at h
    split at h
    · cases h
    · split at h
      · cases h
      · simp only [Except.ok.injEq] at h; subst h
        exact PosExt.refl _
  | add l r ihl ihr =>
    simp only [visitExpr] at h
    split at h
    · cases h
    · rename_i lo hlo
      have hl2 : l.litsPos = true ∧ r.litsPos = true := by simpa [Expr.litsPos] using hl
      have hel := ihl (o := lo) hlo hl2.1
      split at h
      · split at h
        · cases h
        · rename_i ro hro
          split at h
          · cases h
          · simp only [Except.ok.injEq] at h; subst h
            exact hel.trans (ihr (o := ro) hro hl2.2)
      · split at h
        · split at h
          · cases h
          · rename_i ro hro
            split at h
            · cases h
            · simp only [Except.ok.injEq] at h; subst h
              exact hel.trans (ihr (o := ro) hro hl2.2)
        · cases h
  | sub l r ihl ihr =>
    simp only [visitExpr] at h
    split at h
    · cases h
    · rename_i lo hlo
      have hl2 : l.litsPos = true ∧ r.litsPos = true := by simpa [Expr.litsPos] using hl
      have hel := ihl (o := lo) hlo hl2.1
      split at h
      · split at h
        · cases h
        · rename_i ro hro
          split at h
          · cases h
          · simp only [Except.ok.injEq] at h; subst h
            exact hel.trans (ihr (o := ro) hro hl2.2)
      · split at h
        · split at h
          · cases h
          · rename_i ro hro
            split at h
            · cases h
            · simp only [Except.ok.injEq] at h; subst h
              exact hel.trans (ihr (o := ro) hro hl2.2)
        · cases h

theorem visitExpr_posT {st : CState} {e : Expr} {o : ExprOut} (h : visitExpr st e = .ok o) (ht : o.ty ≠ .portion) : PosExt st o.st :=
  visitExpr_pos h (litsPos_of_noPortion (visitExpr_noPortion h ht))

theorem visitTyped_pos {st st' : CState} {want : BTy} {e : Expr} {a : Addr} {c : Code}
    (h : visitTyped st want e = .ok (a, c, st')) (hw : want ≠ .portion) : PosExt st st' := by
  unfold visitTyped at h
  split at h
  · cases h
  · rename_i o ho
    split at h
    · cases h
    · rename_i hty
      split at h
      · cases h
      · simp only [Except.ok.injEq, Prod.mk.injEq] at h
        obtain ⟨_, _, rfl⟩ := h
        exact visitExpr_posT ho (by rw [Classical.not_not.mp hty]; exact hw)

theorem srcBody_pos {st st1 : CState} {pa c : Code} {w : Bool} {a : Addr} {od : Overdraft} {fb : Option Addr}
    (hb : (match od with
          | .none =>
            match emitSeq st [.pushInt 0, .op .monetaryNew, .op .takeAll] with
            | .error er => .error er
            | .ok (c, st1) => .ok (pa ++ c, st1, if w then some a else none)
          | .upTo x =>
            if w then .error .static else
            match visitExpr st x with
            | .error er => .error er
            | .ok xo => if xo.ty ≠ .monetary then .error .static else .ok (xo.code ++ [.takeAll], xo.st, none)
          | .unbounded =>
            if w then .error .static else
            match emitSeq st [.pushInt 0, .op .monetaryNew, .op .takeAll] with
            | .error er => .error er
            | .ok (c, st1) => .ok (pa ++ c, st1, some a) : Except CompileErr (Code × CState × Option Addr)) = .ok (c, st1, fb)) :
    PosExt st st1 := by
  cases od with
  | none =>
    simp only at hb
    split at hb
    · cases hb
    · rename_i c' st1' hs
      simp only [Except.ok.injEq, Prod.mk.injEq] at hb
      obtain ⟨_, rfl, _⟩ := hb; exact emitSeq_pos hs
  | upTo x =>
    simp only at hb
    split at hb
    · cases hb
    · split at hb
      · cases hb
      · rename_i xo hxo
        split at hb
        · cases hb
        · rename_i hxt
          simp only [Except.ok.injEq, Prod.mk.injEq] at hb
          obtain ⟨_, rfl, _⟩ := hb; exact visitExpr_posT hxo (by rw [Classical.not_not.mp hxt]; decide)
  | unbounded =>
    simp only at hb
    split at hb
    · cases hb
    · split at hb
      · cases hb
      · rename_i c' st1' hs
        simp only [Except.ok.injEq, Prod.mk.injEq] at hb
        obtain ⟨_, rfl, _⟩ := hb; exact emitSeq_pos hs

mutual
theorem visitSource_pos {st : CState} {pa : Code} {isAll : Bool} {s : Source} {so : SrcOut}
    (h : visitSource st pa isAll s = .ok so) : PosExt st so.st := by
  cases s with
  | acct e od =>
    simp only [visitSource] at h
    split at h
    · cases h
    · rename_i o ho
      split at h
      · cases h
      · rename_i hty
        split at h
        · cases h
        · split at h
          · cases h
          · rename_i c st1 fb hb
            split at h
            · cases h
            · simp only [Except.ok.injEq] at h; subst h
              exact (visitExpr_posT ho (by rw [Classical.not_not.mp hty]; decide)).trans ((srcBody_pos hb).trans (PosExt.addSources st1 _))
  | maxed cap s =>
    simp only [visitSource] at h
    split at h
    · cases h
    · rename_i so1 hso
      split at h
      · cases h
      · rename_i co hco
        split at h
        · cases h
        · rename_i hct
          split at h
          · cases h
          · rename_i c st1 hs
            simp only [Except.ok.injEq] at h; subst h
            exact (visitSource_pos hso).trans ((visitExpr_posT hco (by rw [Classical.not_not.mp hct]; decide)).trans ((emitSeq_pos hs).trans (PosExt.addSources _ so1.needed)))
  | inorder ss =>
    simp only [visitSource] at h
    split at h
    · cases h
    · rename_i so1 n hso
      split at h
      · cases h
      · rename_i c st1 hs
        simp only [Except.ok.injEq] at h; subst h
        exact (visitSources_pos hso).trans ((emitSeq_pos hs).trans (PosExt.addSources _ so1.needed))
theorem visitSources_pos {st : CState} {pa : Code} {isAll : Bool} {ss : SourceList} {nd em : List Addr} {so : SrcOut} {n : Nat}
    (h : visitSources st pa isAll ss nd em = .ok (so, n)) : PosExt st so.st := by
  cases ss with
  | nil =>
    simp only [visitSources, Except.ok.injEq, Prod.mk.injEq] at h
    obtain ⟨rfl, _⟩ := h; exact PosExt.refl _
  | cons s rest =>
    simp only [visitSources] at h
    split at h
    · cases h
    · rename_i so1 hso
      split at h
      · cases h
      · split at h
        · cases h
        · split at h
          · cases h
          · rename_i ro n' hro
            simp only [Except.ok.injEq, Prod.mk.injEq] at h
            obtain ⟨rfl, _⟩ := h
            exact (visitSource_pos hso).trans (visitSources_pos (so := ro) hro)
end

theorem visitPortions_pos {st st' : CState} {ps : List PortionSpec} {hv hr hv' hr' : Bool} {c : Code}
    (h : visitPortions st ps hv hr = .ok (c, st', hv', hr')) (hq : ∀ q ∈ ps, specPos q = true) : PosExt st st' := by
  induction ps generalizing st hv hr c with
  | nil =>
    simp only [visitPortions, Except.ok.injEq, Prod.mk.injEq] at h
    obtain ⟨_, rfl, _⟩ := h; exact PosExt.refl _
  | cons p rest ih =>
    simp only [visitPortions] at h
    split at h
    · cases h
    · rename_i c1 st1 hv1 hr1 hone
      split at h
      · cases h
      · rename_i c2 st2 hv2 hr2 hrest
        simp only [Except.ok.injEq, Prod.mk.injEq] at h
        obtain ⟨_, rfl, rfl, rfl⟩ := h
        refine PosExt.trans ?_ (ih hrest (fun q hq' => hq q (List.mem_cons_of_mem _ hq')))
        cases p with
        | const r =>
          simp only at hone
          split at hone
          · cases hone
          · rename_i a st1' ha
            simp only [Except.ok.injEq, Prod.mk.injEq] at hone
            obtain ⟨_, rfl, _⟩ := hone
            have hr0 : 0 < r.den := by simpa [specPos] using hq (.const r) (List.mem_cons_self ..)
            exact allocRes_pos (by intro q hq'; cases hq'; exact hr0) ha
        | badConst => cases hone
        | var n =>
          simp only at hone
          split at hone
          · cases hone
          · rename_i o ho
            split at hone
            · cases hone
            · simp only [Except.ok.injEq, Prod.mk.injEq] at hone
              obtain ⟨_, rfl, _⟩ := hone; exact visitExpr_pos ho rfl
        | remaining =>
          simp only at hone
          split at hone
          · cases hone
          · split at hone
            · cases hone
            · rename_i a st1' ha
              simp only [Except.ok.injEq, Prod.mk.injEq] at hone
              obtain ⟨_, rfl, _⟩ := hone; exact allocRes_pos (by intro q hq'; cases hq') ha

theorem visitAllotment_pos {st st' : CState} {ps : List PortionSpec} {c : Code}
    (h : visitAllotment st ps = .ok (c, st')) (hq : ∀ q ∈ ps, specPos q = true) : PosExt st st' := by
  unfold visitAllotment at h
  split at h
  · cases h
  · rename_i c1 st1 hv hr hp
    simp only at h
    split at h
    · cases h
    · split at h
      · cases h
      · split at h
        · cases h
        · split at h
          · cases h
          · split at h
            · cases h
            · rename_i c2 st2 hs
              simp only [Except.ok.injEq, Prod.mk.injEq] at h
              obtain ⟨_, rfl⟩ := h
              exact (visitPortions_pos hp (fun q hq' => hq q (List.mem_reverse.mp hq'))).trans (emitSeq_pos hs)

mutual
theorem visitDest_pos {st st' : CState} {d : Dest} {c : Code} (h : visitDest st d = .ok (c, st')) (hf : d.frag = true) : PosExt st st' := by
  cases d with
  | acct e =>
    simp only [visitDest] at h
    split at h
    · cases h
    · rename_i o ho
      split at h
      · cases h
      · rename_i hty
        simp only [Except.ok.injEq, Prod.mk.injEq] at h
        obtain ⟨_, rfl⟩ := h; exact visitExpr_posT ho (by rw [Classical.not_not.mp hty]; decide)
  | inorder caps rest =>
    simp only [Dest.frag, Bool.and_eq_true] at hf
    simp only [visitDest] at h
    split at h
    · cases h
    · rename_i c0 st0 h0
      split at h
      · cases h
      · rename_i c1 st1 h1
        split at h
        · cases h
        · rename_i c2 st2 h2
          split at h
          · cases h
          · rename_i c3 st3 h3
            split at h
            · cases h
            · rename_i c4 st4 h4
              simp only [Except.ok.injEq, Prod.mk.injEq] at h
              obtain ⟨_, rfl⟩ := h
              exact (emitSeq_pos h0).trans ((visitCaps_pos h1 hf.1).trans ((emitSeq_pos h2).trans ((visitKD_pos h3 hf.2).trans (emitSeq_pos h4))))
  | allot items =>
    simp only [Dest.frag, Bool.and_eq_true, decide_eq_true_eq, List.all_eq_true] at hf
    simp only [visitDest] at h
    split at h
    · cases h
    · rename_i c1 st1 h1
      split at h
      · cases h
      · rename_i c2 st2 h2
        split at h
        · cases h
        · rename_i c3 st3 h3
          simp only [Except.ok.injEq, Prod.mk.injEq] at h
          obtain ⟨_, rfl⟩ := h
          exact (visitAllotment_pos h1 hf.2).trans ((emitSeq_pos h2).trans (visitAllocDest_pos h3 hf.1.1))
theorem visitKD_pos {st st' : CState} {kd : KeptOrDest} {c : Code} (h : visitKD st kd = .ok (c, st')) (hf : kd.frag = true) : PosExt st st' := by
  cases kd with
  | kept =>
    simp only [visitKD, Except.ok.injEq, Prod.mk.injEq] at h
    obtain ⟨_, rfl⟩ := h; exact PosExt.refl _
  | «to» d =>
    simp only [visitKD] at h
    exact visitDest_pos h hf
theorem visitCaps_pos {st st' : CState} {cs : CapList} {c : Code} (h : visitCaps st cs = .ok (c, st')) (hf : cs.frag = true) : PosExt st st' := by
  cases cs with
  | nil =>
    simp only [visitCaps, Except.ok.injEq, Prod.mk.injEq] at h
    obtain ⟨_, rfl⟩ := h; exact PosExt.refl _
  | cons cap kd rest =>
    simp only [CapList.frag, Bool.and_eq_true] at hf
    simp only [visitCaps] at h
    split at h
    · cases h
    · rename_i o ho
      split at h
      · cases h
      · rename_i hty
        split at h
        · cases h
        · rename_i c1 st1 h1
          split at h
          · cases h
          · rename_i c2 st2 h2
            split at h
            · cases h
            · rename_i c3 st3 h3
              split at h
              · cases h
              · rename_i c4 st4 h4
                simp only [Except.ok.injEq, Prod.mk.injEq] at h
                obtain ⟨_, rfl⟩ := h
                exact (visitExpr_posT ho (by rw [Classical.not_not.mp hty]; decide)).trans ((emitSeq_pos h1).trans ((visitKD_pos h2 hf.1).trans ((emitSeq_pos h3).trans (visitCaps_pos h4 hf.2))))
theorem visitAllocDest_pos {st st' : CState} {al : AllotList} {c : Code} (h : visitAllocDest st al = .ok (c, st')) (hf : al.frag = true) : PosExt st st' := by
  cases al with
  | nil =>
    simp only [visitAllocDest, Except.ok.injEq, Prod.mk.injEq] at h
    obtain ⟨_, rfl⟩ := h; exact PosExt.refl _
  | cons p kd rest =>
    simp only [AllotList.frag, Bool.and_eq_true] at hf
    simp only [visitAllocDest] at h
    split at h
    · cases h
    · rename_i c1 st1 h1
      split at h
      · cases h
      · rename_i c2 st2 h2
        split at h
        · cases h
        · rename_i c3 st3 h3
          split at h
          · cases h
          · rename_i c4 st4 h4
            simp only [Except.ok.injEq, Prod.mk.injEq] at h
            obtain ⟨_, rfl⟩ := h
            exact (emitSeq_pos h1).trans ((visitKD_pos h2 hf.1).trans ((emitSeq_pos h3).trans (visitAllocDest_pos h4 hf.2)))
end

theorem visitDestination_pos {st st' : CState} {d : Dest} {c : Code} (h : visitDestination st d = .ok (c, st')) (hf : d.frag = true) : PosExt st st' := by
  unfold visitDestination at h
  split at h
  · cases h
  · rename_i c1 st1 h1
    simp only [Except.ok.injEq, Prod.mk.injEq] at h
    obtain ⟨_, rfl⟩ := h; exact visitDest_pos h1 hf

theorem visitAllotSources_pos {st st' : CState} {pa : Code} {m : Addr} {items : List (PortionSpec × Source)} {i : Nat} {c : Code}
    (h : visitAllotSources st pa m items i = .ok (c, st')) : PosExt st st' := by
  induction items generalizing st i c with
  | nil =>
    simp only [visitAllotSources, Except.ok.injEq, Prod.mk.injEq] at h
    obtain ⟨_, rfl⟩ := h; exact PosExt.refl _
  | cons it rest ih =>
    obtain ⟨p, s⟩ := it
    simp only [visitAllotSources] at h
    split at h
    · cases h
    · rename_i so hso
      split at h
      · cases h
      · rename_i c1 st1 h1
        split at h
        · cases h
        · rename_i c2 st2 h2
          simp only [Except.ok.injEq, Prod.mk.injEq] at h
          obtain ⟨_, rfl⟩ := h
          exact (visitSource_pos hso).trans ((PosExt.setNeeded so.st so.needed m).trans ((emitSeq_pos h1).trans (ih h2)))

theorem visitSendSource_pos {st st' : CState} {amt : SendAmt} {src : VSource} {c : Code}
    (h : visitSendSource st amt src = .ok (c, st'))
    (hq : ∀ items, src = .allot items → ∀ q ∈ items.map (·.1), specPos q = true) : PosExt st st' := by
  cases amt with
  | mon e =>
    cases src with
    | src s =>
      simp only [visitSendSource] at h
      split at h
      · cases h
      · rename_i m c0 st1 hm
        split at h
        · cases h
        · rename_i so hso
          split at h
          · cases h
          · rename_i eo heo
            split at h
            · cases h
            · rename_i ct st2 hct
              simp only [Except.ok.injEq, Prod.mk.injEq] at h
              obtain ⟨_, rfl⟩ := h
              have hnp : e.noPortion = true := visitTyped_noPortion hm (by decide)
              exact (visitTyped_pos hm (by decide)).trans ((visitSource_pos hso).trans ((PosExt.setNeeded so.st so.needed m).trans
                ((visitExpr_pos heo (litsPos_of_noPortion hnp)).trans (emitSeq_pos hct))))
    | allot items =>
      simp only [visitSendSource] at h
      split at h
      · cases h
      · rename_i m c0 st1 hm
        split at h
        · cases h
        · rename_i eo heo
          split at h
          · cases h
          · rename_i c1 st2 hal
            split at h
            · cases h
            · rename_i c2 st3 has
              split at h
              · cases h
              · rename_i c3 st4 hfin
                simp only [Except.ok.injEq, Prod.mk.injEq] at h
                obtain ⟨_, rfl⟩ := h
                have hnp : e.noPortion = true := visitTyped_noPortion hm (by decide)
                exact (visitTyped_pos hm (by decide)).trans ((visitExpr_pos heo (litsPos_of_noPortion hnp)).trans
                  ((visitAllotment_pos hal (hq items rfl)).trans ((visitAllotSources_pos has).trans (emitSeq_pos hfin))))
  | all ae =>
    cases src with
    | src s =>
      simp only [visitSendSource] at h
      split at h
      · cases h
      · rename_i a c0 st1 hm
        split at h
        · cases h
        · rename_i so hso
          simp only [Except.ok.injEq, Prod.mk.injEq] at h
          obtain ⟨_, rfl⟩ := h
          exact (visitTyped_pos hm (by decide)).trans ((visitSource_pos hso).trans (PosExt.setNeeded so.st so.needed a))
    | allot items =>
      simp only [visitSendSource] at h
      split at h
      · cases h
      · cases h

/-- the portion literals of a statement that can reach the table as constants have positive denominators -/
def Stmt.litsPos : Stmt → Bool
  | .send _ (.src _) d => d.frag
  | .send _ (.allot items) d => (items.map (·.1)).all specPos && d.frag
  | .setTxMeta _ v => v.litsPos
  | .setAccountMeta _ _ v => v.litsPos
  | .print e => e.litsPos
  | _ => true

theorem visitStmt_pos {st st' : CState} {s : Stmt} {c : Code} (h : visitStmt st s = .ok (c, st')) (hf : s.litsPos = true) :
    PosExt st st' := by
  cases s with
  | fail =>
    simp only [visitStmt, Except.ok.injEq, Prod.mk.injEq] at h
    obtain ⟨_, rfl⟩ := h; exact PosExt.refl _
  | print e =>
    simp only [visitStmt] at h
    split at h
    · cases h
    · rename_i o ho
      simp only [Except.ok.injEq, Prod.mk.injEq] at h
      obtain ⟨_, rfl⟩ := h
      exact visitExpr_pos ho hf
  | setTxMeta key v =>
    simp only [visitStmt] at h
    split at h
    · cases h
    · rename_i o ho
      split at h
      · cases h
      · rename_i k st1 hk
        simp only [Except.ok.injEq, Prod.mk.injEq] at h
        obtain ⟨_, rfl⟩ := h
        exact (visitExpr_pos ho hf).trans (allocRes_pos (by intro q hq; cases hq) hk)
  | setAccountMeta acc key v =>
    simp only [visitStmt] at h
    split at h
    · cases h
    · rename_i o ho
      split at h
      · cases h
      · rename_i k st1 hk
        split at h
        · cases h
        · rename_i aA c2 st2 h2
          simp only [Except.ok.injEq, Prod.mk.injEq] at h
          obtain ⟨_, rfl⟩ := h
          exact (visitExpr_pos ho hf).trans ((allocRes_pos (by intro q hq; cases hq) hk).trans (visitTyped_pos h2 (by decide)))
  | saveMon e acc =>
    simp only [visitStmt] at h
    split at h
    · cases h
    · rename_i mA c1 st1 hm
      split at h
      · cases h
      · rename_i aA c2 st2 h2
        simp only [Except.ok.injEq, Prod.mk.injEq] at h
        obtain ⟨_, rfl⟩ := h
        exact (visitTyped_pos hm (by decide)).trans ((visitTyped_pos h2 (by decide)).trans (PosExt.setNeeded st2 [aA] mA))
  | saveAll ae acc =>
    simp only [visitStmt] at h
    split at h
    · cases h
    · rename_i sA c1 st1 hm
      split at h
      · cases h
      · rename_i aA c2 st2 h2
        simp only [Except.ok.injEq, Prod.mk.injEq] at h
        obtain ⟨_, rfl⟩ := h
        exact (visitTyped_pos hm (by decide)).trans ((visitTyped_pos h2 (by decide)).trans (PosExt.setNeeded st2 [aA] sA))
  | send amt src d =>
    simp only [visitStmt] at h
    split at h
    · cases h
    · rename_i c1 st1 hsrc
      split at h
      · cases h
      · rename_i c2 st2 hdst
        simp only [Except.ok.injEq, Prod.mk.injEq] at h
        obtain ⟨_, rfl⟩ := h
        cases src with
        | src sc =>
          simp only [Stmt.litsPos] at hf
          exact (visitSendSource_pos hsrc (by intro items hi; cases hi)).trans (visitDestination_pos hdst hf)
        | allot items =>
          simp only [Stmt.litsPos, Bool.and_eq_true, List.all_eq_true] at hf
          exact (visitSendSource_pos hsrc (by intro items' hi; cases hi; exact hf.1)).trans (visitDestination_pos hdst hf.2)

theorem visitStmts_pos {st st' : CState} {ss : List Stmt} {c : Code} (h : visitStmts st ss = .ok (c, st'))
    (hf : ∀ s ∈ ss, s.litsPos = true) : PosExt st st' := by
  induction ss generalizing st c with
  | nil =>
    simp only [visitStmts, Except.ok.injEq, Prod.mk.injEq] at h
    obtain ⟨_, rfl⟩ := h; exact PosExt.refl _
  | cons s rest ih =>
    simp only [visitStmts] at h
    split at h
    · cases h
    · rename_i c1 st1 h1
      split at h
      · cases h
      · rename_i c2 st2 h2
        simp only [Except.ok.injEq, Prod.mk.injEq] at h
        obtain ⟨_, rfl⟩ := h
        exact (visitStmt_pos h1 (hf s (List.mem_cons_self ..))).trans (ih h2 (fun s' hs' => hf s' (List.mem_cons_of_mem _ hs')))

theorem visitVar_pos {st st' : CState} {d : VarDecl} (h : visitVar st d = .ok st') : PosExt st st' := by
  unfold visitVar at h
  split at h
  · cases h
  · simp only at h
    split at h
    · cases h
    · rename_i addr st1 hr
      simp only [Except.ok.injEq] at h; subst h
      show PosExt st st1
      cases ho : d.origin with
      | none =>
        simp only [ho] at hr
        exact allocRes_pos (by intro q hq; cases hq) hr
      | metaOf acc key =>
        simp only [ho] at hr
        split at hr
        · cases hr
        · rename_i a c0 st0 ha
          exact (visitTyped_pos ha (by decide)).trans (allocRes_pos (by intro q hq; cases hq) hr)
      | balance acc ae =>
        simp only [ho] at hr
        split at hr
        · cases hr
        · split at hr
          · cases hr
          · rename_i a c0 st0 ha
            split at hr
            · cases hr
            · rename_i s c1 st1' hs
              exact (visitTyped_pos ha (by decide)).trans ((visitTyped_pos hs (by decide)).trans (allocRes_pos (by intro q hq; cases hq) hr))

theorem visitVarList_pos {st st' : CState} {ds : List VarDecl} (h : visitVarList st ds = .ok st') : PosExt st st' := by
  induction ds generalizing st with
  | nil => simp only [visitVarList, Except.ok.injEq] at h; subst h; exact PosExt.refl _
  | cons d rest ih =>
    simp only [visitVarList] at h
    split at h
    · cases h
    · rename_i st1 h1
      exact (visitVar_pos h1).trans (ih h)

/-- **no portion constant of a compiled program has a zero denominator**, when no portion literal of its text has -/
theorem compile_tablePos {P : Script} {prog : Program} (hc : compile P = .ok prog) (hf : ∀ s ∈ P.stmts, s.litsPos = true) :
    TablePos prog.resources := by
  unfold compile at hc
  split at hc
  · cases hc
  · rename_i st0 h0
    split at hc
    · cases hc
    · rename_i code st h1
      simp only [Except.ok.injEq] at hc; subst hc
      unfold visitVars at h0
      split at h0
      · cases h0
      · exact visitStmts_pos h1 hf (visitVarList_pos h0 (by intro q hq; simp at hq))

end Num
