import Mathlib.Tactic.IntervalCases
import Model.Log.Time
/-! Calendar arithmetic behind `Time.ofUnix` / `toUTC` (Model/Log/Time.lean), for EVERY day number (`z : Int`, no bound):
`civilFromDays` returns a month in 1…12 and a day in 1…`daysIn month year`, `daysFromCivil` is its left inverse, and the
time-of-day fields of `Time.ofUnix` are in range.  The floor divisions are handled by `omega` after the century and the
year-of-era have been fixed by case analysis (`interval_cases`; `omega` alone has no exact elimination for them). -/
namespace LogM

/-- day-of-era → year-of-era (`yoe`), with the divisions named: the year-of-era is in 0…399, the day-of-year
`doe - (365 yoe + yoe/4 - yoe/100)` is in 0…365, and 365 only in a (March-based) year that ends with a 29 February -/
theorem yoe_core (doe e f g yoe : Int) (h0 : 0 ≤ doe) (h1 : doe ≤ 146096)
    (he : e = doe / 1460) (hf : f = doe / 36524) (hg : g = doe / 146096) (hy : yoe = (doe - e + f - g) / 365) :
    0 ≤ yoe ∧ yoe ≤ 399 ∧
    0 ≤ doe - (365 * yoe + yoe / 4 - yoe / 100) ∧
    doe - (365 * yoe + yoe / 4 - yoe / 100) ≤ 365 ∧
    (doe - (365 * yoe + yoe / 4 - yoe / 100) = 365 → ((yoe + 1) % 4 = 0 ∧ ((yoe + 1) % 100 ≠ 0 ∨ (yoe + 1) % 400 = 0))) := by
  have hg' : g = 0 ∨ (g = 1 ∧ doe = 146096) := by omega
  rcases hg' with hg' | ⟨hg', hd⟩
  · have hf' : 0 ≤ f ∧ f ≤ 3 := by omega
    obtain ⟨hf0, hf3⟩ := hf'
    subst hg'
    interval_cases f
    · have : 0 ≤ yoe ∧ yoe ≤ 99 := by omega
      obtain ⟨a, b⟩ := this
      interval_cases yoe <;> omega
    · have : 100 ≤ yoe ∧ yoe ≤ 199 := by omega
      obtain ⟨a, b⟩ := this
      interval_cases yoe <;> omega
    · have : 200 ≤ yoe ∧ yoe ≤ 299 := by omega
      obtain ⟨a, b⟩ := this
      interval_cases yoe <;> omega
    · have : 300 ≤ yoe ∧ yoe ≤ 399 := by omega
      obtain ⟨a, b⟩ := this
      interval_cases yoe <;> omega
  · subst hd
    omega

/-- day-of-year (March-based) → month index `mp` (0 = March … 11 = February) and day of the month -/
theorem mp_core (doy mp : Int) (h0 : 0 ≤ doy) (h1 : doy ≤ 365) (hm : mp = (5 * doy + 2) / 153) :
    0 ≤ mp ∧ mp ≤ 11 ∧ 1 ≤ doy - (153 * mp + 2) / 5 + 1 ∧
    (mp = 11 → doy - (153 * mp + 2) / 5 + 1 ≤ 29 ∧ (doy - (153 * mp + 2) / 5 + 1 = 29 → doy = 365)) ∧
    ((mp = 1 ∨ mp = 3 ∨ mp = 6 ∨ mp = 8) → doy - (153 * mp + 2) / 5 + 1 ≤ 30) ∧
    doy - (153 * mp + 2) / 5 + 1 ≤ 31 := by
  have hb : 0 ≤ mp ∧ mp ≤ 11 := by omega
  obtain ⟨a, b⟩ := hb
  interval_cases mp <;> omega

/-- month and day from `mp` and the day within the month, with the year they belong to -/
theorem md_valid (yoe era mp d doy : Int) (m1 : 0 ≤ mp) (m2 : mp ≤ 11) (m3 : 1 ≤ d)
    (m4 : mp = 11 → d ≤ 29 ∧ (d = 29 → doy = 365)) (m5 : (mp = 1 ∨ mp = 3 ∨ mp = 6 ∨ mp = 8) → d ≤ 30) (m6 : d ≤ 31)
    (y5 : doy = 365 → ((yoe + 1) % 4 = 0 ∧ ((yoe + 1) % 100 ≠ 0 ∨ (yoe + 1) % 400 = 0))) :
    1 ≤ (if mp < 10 then mp + 3 else mp - 9).toNat ∧ (if mp < 10 then mp + 3 else mp - 9).toNat ≤ 12 ∧ 1 ≤ d.toNat ∧
    d.toNat ≤ daysIn (if mp < 10 then mp + 3 else mp - 9).toNat
      (if (if mp < 10 then mp + 3 else mp - 9) ≤ 2 then yoe + era * 400 + 1 else yoe + era * 400) := by
  simp only [daysIn, isLeap]
  interval_cases mp
  all_goals simp
  all_goals omega

/-- `civilFromDays z`, with every intermediate quantity named and bounded -/
theorem civilFromDays_shape (z : Int) : ∃ era doe yoe doy mp d : Int,
    z + 719468 = era * 146097 + doe ∧ 0 ≤ doe ∧ doe ≤ 146096 ∧ 0 ≤ yoe ∧ yoe ≤ 399 ∧
    doe = 365 * yoe + yoe / 4 - yoe / 100 + doy ∧ 0 ≤ doy ∧ doy ≤ 365 ∧
    (doy = 365 → ((yoe + 1) % 4 = 0 ∧ ((yoe + 1) % 100 ≠ 0 ∨ (yoe + 1) % 400 = 0))) ∧
    mp = (5 * doy + 2) / 153 ∧ 0 ≤ mp ∧ mp ≤ 11 ∧ d = doy - (153 * mp + 2) / 5 + 1 ∧ 1 ≤ d ∧ d ≤ 31 ∧
    (mp = 11 → d ≤ 29 ∧ (d = 29 → doy = 365)) ∧ ((mp = 1 ∨ mp = 3 ∨ mp = 6 ∨ mp = 8) → d ≤ 30) ∧
    civilFromDays z =
      (if (if mp < 10 then mp + 3 else mp - 9) ≤ 2 then yoe + era * 400 + 1 else yoe + era * 400,
       (if mp < 10 then mp + 3 else mp - 9).toNat, d.toNat) := by
  obtain ⟨era, hera⟩ : ∃ era, era = (z + 719468) / 146097 := ⟨_, rfl⟩
  obtain ⟨doe, hdoe⟩ : ∃ doe, doe = z + 719468 - era * 146097 := ⟨_, rfl⟩
  have hd0 : 0 ≤ doe ∧ doe ≤ 146096 := by omega
  obtain ⟨yoe, hyoe⟩ : ∃ yoe, yoe = (doe - doe / 1460 + doe / 36524 - doe / 146096) / 365 := ⟨_, rfl⟩
  obtain ⟨y1, y2, y3, y4, y5⟩ := yoe_core doe _ _ _ yoe hd0.1 hd0.2 rfl rfl rfl hyoe
  obtain ⟨doy, hdoy⟩ : ∃ doy, doy = doe - (365 * yoe + yoe / 4 - yoe / 100) := ⟨_, rfl⟩
  obtain ⟨mp, hmp⟩ : ∃ mp, mp = (5 * doy + 2) / 153 := ⟨_, rfl⟩
  rw [← hdoy] at y3 y4 y5
  obtain ⟨m1, m2, m3, m4, m5, m6⟩ := mp_core doy mp y3 y4 hmp
  obtain ⟨d, hd⟩ : ∃ d, d = doy - (153 * mp + 2) / 5 + 1 := ⟨_, rfl⟩
  rw [← hd] at m3 m4 m5 m6
  refine ⟨era, doe, yoe, doy, mp, d, by omega, hd0.1, hd0.2, y1, y2, by omega, y3, y4, y5, hmp, m1, m2, hd, m3, m6, m4, m5, ?_⟩
  simp only [civilFromDays, ← hera, ← hdoe, ← hyoe, ← hdoy, ← hmp, ← hd]

/-- **every day number is a calendar date**: month in 1…12, day in 1…(length of that month in that year) -/
theorem civilFromDays_valid (z : Int) :
    1 ≤ (civilFromDays z).2.1 ∧ (civilFromDays z).2.1 ≤ 12 ∧ 1 ≤ (civilFromDays z).2.2 ∧
    (civilFromDays z).2.2 ≤ daysIn (civilFromDays z).2.1 (civilFromDays z).1 := by
  obtain ⟨era, doe, yoe, doy, mp, d, _, _, _, _, _, _, _, _, y5, _, m1, m2, _, m3, m6, m4, m5, hc⟩ := civilFromDays_shape z
  rw [hc]
  exact md_valid yoe era mp d doy m1 m2 m3 m4 m5 m6 y5

/-- **the day number of that date is the day number one started from** (`daysFromCivil` is a left inverse) -/
theorem daysFromCivil_civilFromDays (z : Int) :
    daysFromCivil (civilFromDays z).1 (civilFromDays z).2.1 (civilFromDays z).2.2 = z := by
  obtain ⟨era, doe, yoe, doy, mp, d, h1, h2, h3, y1, y2, h4, y3, y4, _, hmp, m1, m2, hd, m3, m6, _, _, hc⟩ := civilFromDays_shape z
  rw [hc]
  simp only [daysFromCivil]
  have hdn : ((d.toNat : Nat) : Int) = d := by omega
  have e0 : yoe + era * 400 + 1 - 1 = yoe + era * 400 := by omega
  have e1 : (yoe + era * 400) / 400 = era := by omega
  have e2 : yoe + era * 400 - era * 400 = yoe := by omega
  by_cases hlt : mp < 10
  · have a1 : ¬ ((mp + 3).toNat ≤ 2) := by omega
    have a2 : ¬ (mp + 3 ≤ 2) := by omega
    have a3 : (mp + 3).toNat > 2 := by omega
    have a4 : (((mp + 3).toNat : Nat) : Int) = mp + 3 := by omega
    simp only [hlt, if_true, a1, a2, a3, a4, if_false, hdn, e1, e2]
    omega
  · have a1 : (mp - 9).toNat ≤ 2 := by omega
    have a2 : mp - 9 ≤ 2 := by omega
    have a3 : ¬ ((mp - 9).toNat > 2) := by omega
    have a4 : (((mp - 9).toNat : Nat) : Int) = mp - 9 := by omega
    simp only [hlt, if_true, a1, a2, a3, a4, if_false, hdn, e0, e1, e2]
    omega

/-- time of day from the second within the day -/
theorem tod_valid (r : Nat) (h : r < 86400) : r / 3600 ≤ 23 ∧ r / 60 % 60 ≤ 59 ∧ r % 60 ≤ 59 ∧
    r / 3600 * 3600 + r / 60 % 60 * 60 + r % 60 = r := by omega

/-- **the reading of an instant at offset `off` is a well-formed civil time** (any instant, any offset) -/
theorem ofUnix_valid (secs : Int) (nanos : Nat) (off : Int) :
    1 ≤ (Time.ofUnix secs nanos off).month ∧ (Time.ofUnix secs nanos off).month ≤ 12 ∧
    1 ≤ (Time.ofUnix secs nanos off).day ∧
    (Time.ofUnix secs nanos off).day ≤ daysIn (Time.ofUnix secs nanos off).month (Time.ofUnix secs nanos off).year ∧
    (Time.ofUnix secs nanos off).hour ≤ 23 ∧ (Time.ofUnix secs nanos off).min ≤ 59 ∧ (Time.ofUnix secs nanos off).sec ≤ 59 ∧
    (Time.ofUnix secs nanos off).nanos = nanos ∧ (Time.ofUnix secs nanos off).off = off := by
  have hc := civilFromDays_valid ((secs + off) / 86400)
  have hr : ((secs + off) % 86400).toNat < 86400 := by omega
  have ht := tod_valid _ hr
  exact ⟨hc.1, hc.2.1, hc.2.2.1, hc.2.2.2, ht.1, ht.2.1, ht.2.2.1, rfl, rfl⟩

/-- **… and it denotes that instant** -/
theorem unixSec_ofUnix (secs : Int) (nanos : Nat) (off : Int) : (Time.ofUnix secs nanos off).unixSec = secs := by
  have hr : ((secs + off) % 86400).toNat < 86400 := by omega
  have ht := (tod_valid _ hr).2.2.2
  simp only [Time.ofUnix, Time.unixSec, daysFromCivil_civilFromDays]
  omega

/-- `t.UTC()` keeps the instant and the nanoseconds, and reads it at offset 0 -/
theorem toUTC_instant (t : Time) : (toUTC t).unixSec = t.unixSec ∧ (toUTC t).nanos = t.nanos ∧ (toUTC t).off = 0 := by
  unfold toUTC
  split
  · rename_i h; exact ⟨rfl, rfl, h⟩
  · exact ⟨unixSec_ofUnix _ _ _, rfl, rfl⟩

end LogM
