import Std.Data.String.ToNat
import Lemmas.StoreSqlFinal
/-! C04 stage 2, layer 4b: **the rows of a projected database are `==` to themselves**.

The executable frame check (`StoreSql.frameBad`) compares the rows of the other ledgers before and after an entry with the
derived `==` of the row structures, which goes through `J.beq` — equality of objects as finite maps, reflexive only on objects
with distinct keys.  `ledger_frame_step` shows the rows are EQUAL; to conclude that the check finds nothing one more invariant is
needed: every value stored in a row is `==` to itself (`ReflA`).  It holds for histories whose metadata maps have distinct keys. -/
namespace StoreSql
open Sql Schema Store

def VR (v : Val) : Prop := (v == v) = true
def JR (j : J) : Prop := (j == j) = true

theorem vr_null : VR .null := rfl
theorem vr_int (i : Int) : VR (.int i) := by simp [VR]
theorem vr_ts (i : Int) : VR (.ts i) := by simp [VR]
theorem vr_text (s : String) : VR (.text s) := by simp [VR]
theorem vr_bool (b : Bool) : VR (.bool b) := by cases b <;> rfl
theorem vr_json {j : J} (h : JR j) : VR (.json j) := h
theorem vr_jsontext {j : J} (h : JR j) : VR (.jsontext j) := h
theorem vr_vol (a b : Int) : VR (.vol (.int a) (.int b)) := by
  show Val.beq _ _ = true
  simp [Val.beq]
theorem vr_add (a b : Val) : VR (Val.add a b) := by
  unfold Val.add
  split
  · exact vr_int _
  · exact vr_null

theorem jr_str (s : String) : JR (.str s) := by simp [JR]
theorem jr_null : JR .null := by show J.beq _ _ = true; simp [J.beq]
theorem jr_num (n : Int) : JR (.num n) := by show J.beq _ _ = true; simp [J.beq]

theorem beqList_refl {xs : List J} (h : ∀ x ∈ xs, JR x) : J.beqList xs xs = true := by
  induction xs with
  | nil => simp [J.beqList]
  | cons x xs ih =>
    simp only [J.beqList, Bool.and_eq_true]
    exact ⟨h x (List.mem_cons_self ..), ih (fun y hy => h y (List.mem_cons_of_mem _ hy))⟩

theorem jr_arr {xs : List J} (h : ∀ x ∈ xs, JR x) : JR (.arr xs) := by
  show J.beq _ _ = true
  simp only [J.beq]
  exact beqList_refl h

/-- an object with distinct keys whose values are `==` to themselves is `==` to itself -/
theorem jr_obj {a : Kvs} (hn : (keys a).Nodup) (hv : ∀ kv ∈ a, JR kv.2) : JR (.obj a) := by
  unfold JR
  rw [beq_obj]
  simp only [beq_self_eq_true, Bool.true_and]
  have key : ∀ (b : Kvs), (∀ kv ∈ b, kv ∈ a) → J.subKvs b a = true := by
    intro b
    induction b with
    | nil => intro _; simp [J.subKvs]
    | cons x xs ih =>
      intro hb
      obtain ⟨k, v⟩ := x
      simp only [J.subKvs, Bool.and_eq_true]
      refine ⟨?_, ih (fun kv hkv => hb kv (List.mem_cons_of_mem _ hkv))⟩
      rw [mem_lookup hn (hb (k, v) (List.mem_cons_self ..))]
      exact hv (k, v) (hb (k, v) (List.mem_cons_self ..))
  exact key a (fun _ h => h)

theorem jr_mobj {a : Kvs} (h : MObj a) : JR (.obj a) := beq_obj_refl h

theorem vr_addressArray (s : String) : VR (addressArray (.text s)) := by
  unfold addressArray
  apply vr_json
  apply jr_arr
  intro x hx
  obtain ⟨t, _, rfl⟩ := List.mem_map.mp hx
  exact jr_str t

theorem jr_postingJ (p : Posting) : JR (postingJ p) := by
  unfold postingJ
  apply jr_obj
  · simp [keys]
  · intro kv hkv
    simp only [List.mem_cons, List.not_mem_nil, or_false] at hkv
    rcases hkv with rfl | rfl | rfl | rfl
    · exact jr_str _
    · exact jr_str _
    · exact jr_num _
    · exact jr_str _

theorem explodeSegments_keys (n : Nat) (segs : List String) :
    ∀ k ∈ keys (explodeSegments n segs), ∃ i, n ≤ i ∧ k = toString i := by
  induction segs generalizing n with
  | nil => intro k hk; simp [explodeSegments, keys] at hk; exact ⟨n, Nat.le_refl _, hk⟩
  | cons s rest ih =>
    intro k hk
    simp only [explodeSegments, keys, List.map_cons, List.mem_cons] at hk
    rcases hk with rfl | hk
    · exact ⟨n, Nat.le_refl _, rfl⟩
    · obtain ⟨i, hi, e⟩ := ih (n + 1) k hk
      exact ⟨i, by omega, e⟩

theorem jr_explodeSegments (n : Nat) (segs : List String) : JR (.obj (explodeSegments n segs)) := by
  apply jr_obj
  · induction segs generalizing n with
    | nil => simp [explodeSegments, keys]
    | cons s rest ih =>
      simp only [explodeSegments, keys, List.map_cons, List.nodup_cons]
      refine ⟨?_, ih (n + 1)⟩
      intro hk
      obtain ⟨i, hi, e⟩ := explodeSegments_keys (n + 1) rest _ hk
      have : n = i := Nat.repr_injective e
      omega
  · intro kv hkv
    induction segs generalizing n with
    | nil => simp [explodeSegments] at hkv; subst hkv; exact jr_null
    | cons s rest ih =>
      simp only [explodeSegments, List.mem_cons] at hkv
      rcases hkv with rfl | hkv
      · exact jr_str _
      · exact ih (n + 1) hkv

theorem vr_aggElements (f : Val → Val) (xs : List J)
    (hf : ∀ x ∈ xs, (∃ s, f (.json x) = .text s) ∨ (∃ j, f (.json x) = .json j ∧ JR j)) : VR (aggElements f (.json (.arr xs))) := by
  unfold aggElements
  simp only
  split
  · exact vr_null
  · apply vr_json
    apply jr_arr
    intro y hy
    obtain ⟨x, hx, rfl⟩ := List.mem_map.mp hy
    rcases hf x hx with ⟨s, e⟩ | ⟨j, e, hj⟩
    · rw [e]; exact jr_str s
    · rw [e]; exact hj

-- ---------------------------------------------------------------- rows

structure TxR (t : ATx) : Prop where
  reference : VR t.reference
  revertedAt : VR t.revertedAt
  updatedAt : VR t.updatedAt
  postings : VR t.postings
  sources : VR t.sources
  destinations : VR t.destinations
  sourcesArrays : VR t.sourcesArrays
  destinationsArrays : VR t.destinationsArrays
  md : MObj t.md

structure MetaR (h : AMeta) : Prop where
  revision : VR h.revision
  date : VR h.date
  md : MObj h.md

structure AcctR (r : AAcct) : Prop where
  ins : VR r.ins
  upd : VR r.upd
  md : MObj r.md

structure MoveR (m : AMove) : Prop where
  txSeq : VR m.txSeq
  ins : VR m.ins

theorem txR_row {t : ATx} (h : TxR t) : (t.row == t.row) = true := by
  show instBEqTransactionsRow.beq _ _ = true
  obtain ⟨r1, r2, r3, r4, r5, r6, r7, r8, r9⟩ := h
  have h5 : VR (Val.json (J.obj t.md)) := vr_json (jr_mobj r9)
  unfold VR at *
  simp [instBEqTransactionsRow.beq, ATx.row, r1, r2, r3, r4, r5, r6, r7, r8, h5]

theorem metaR_rowT {h : AMeta} (hr : MetaR h) : (h.rowT == h.rowT) = true := by
  show instBEqTransactionsMetadataRow.beq _ _ = true
  obtain ⟨r1, r2, r3⟩ := hr
  have h5 : VR (Val.json (J.obj h.md)) := vr_json (jr_mobj r3)
  unfold VR at *
  simp [instBEqTransactionsMetadataRow.beq, AMeta.rowT, r1, r2, h5]

theorem metaR_rowA {h : AMeta} (hr : MetaR h) : (h.rowA == h.rowA) = true := by
  show instBEqAccountsMetadataRow.beq _ _ = true
  obtain ⟨r1, r2, r3⟩ := hr
  have h5 : VR (Val.json (J.obj h.md)) := vr_json (jr_mobj r3)
  unfold VR at *
  simp [instBEqAccountsMetadataRow.beq, AMeta.rowA, r1, r2, h5]

theorem acctR_row {r : AAcct} (hr : AcctR r) : (r.row == r.row) = true := by
  show instBEqAccountsRow.beq _ _ = true
  obtain ⟨r1, r2, r3⟩ := hr
  have h5 : VR (Val.json (J.obj r.md)) := vr_json (jr_mobj r3)
  have h6 := vr_addressArray r.address
  unfold VR at *
  simp [instBEqAccountsRow.beq, AAcct.row, r1, r2, h5, h6]

theorem moveR_row {m : AMove} (hr : MoveR m) : (m.row == m.row) = true := by
  show instBEqMovesRow.beq _ _ = true
  obtain ⟨r1, r2⟩ := hr
  have h6 := vr_addressArray m.account
  have h7 := vr_vol m.pcvIn m.pcvOut
  have h8 := vr_vol m.pcevIn m.pcevOut
  have h9 := vr_bool m.isSource
  unfold VR at *
  simp [instBEqMovesRow.beq, AMove.row, r1, r2, h6, h7, h8, h9]

-- ---------------------------------------------------------------- the invariant

structure ReflA (A : ADB) : Prop where
  txs : ∀ t ∈ A.txs, TxR t
  txMeta : ∀ h ∈ A.txMeta, MetaR h
  accounts : ∀ r ∈ A.accounts, AcctR r
  acctMeta : ∀ h ∈ A.acctMeta, MetaR h
  moves : ∀ m ∈ A.moves, MoveR m

theorem reflA_empty : ReflA {} := by constructor <;> simp

theorem vr_nextRev (hs : List AMeta) (s : Nat) : VR (nextRevA hs s) := by
  unfold nextRevA
  cases selectFirst hs (fun h => Val.bool (h.base == s)) [{ get := fun h => h.revision, desc := true }] with
  | none => exact vr_null
  | some r => exact vr_add _ _

theorem refl_foldl_acctUpdHist (rows : List AAcct) (A : ADB) (h : ReflA A) (hr : ∀ r ∈ rows, AcctR r) : ReflA (rows.foldl aAcctUpdHist A) := by
  induction rows generalizing A with
  | nil => exact h
  | cons r rs ih =>
    apply ih _ _ (fun x hx => hr x (List.mem_cons_of_mem _ hx))
    have hr0 := hr r (List.mem_cons_self ..)
    refine ⟨h.txs, h.txMeta, h.accounts, ?_, h.moves⟩
    intro x hx
    simp only [aAcctUpdHist, List.mem_append, List.mem_singleton] at hx
    rcases hx with hx | rfl
    · exact h.acctMeta x hx
    · exact ⟨vr_nextRev _ _, hr0.upd, hr0.md⟩

theorem refl_updateAccounts (A : ADB) (p : AAcct → Bool) (u : AAcct → AAcct) (hu : ∀ r, AcctR r → AcctR (u r)) (h : ReflA A) :
    ReflA (aUpdateAccounts A p u) := by
  unfold aUpdateAccounts
  apply refl_foldl_acctUpdHist
  · refine ⟨h.txs, h.txMeta, ?_, h.acctMeta, h.moves⟩
    intro r hr
    obtain ⟨r0, hr0, rfl⟩ := List.mem_map.mp hr
    by_cases hp : p r0 = true
    · simp only [hp, if_true]; exact hu r0 (h.accounts r0 hr0)
    · simp only [hp]; exact h.accounts r0 hr0
  · intro r hr
    obtain ⟨r0, hr0, rfl⟩ := List.mem_map.mp hr
    exact hu r0 (h.accounts r0 (List.mem_filter.mp hr0).1)

theorem refl_upsertAccount (A : ADB) (l a : String) (m : Kvs) (dv : Val) (hm : MObj m) (hd : VR dv) (h : ReflA A) :
    ReflA (aUpsertAccount A l a m dv) := by
  unfold aUpsertAccount
  split
  · exact refl_updateAccounts A _ _ (fun r hr => ⟨hr.ins, hd, mobj_concatKvs hr.md hm⟩) h
  · refine ⟨h.txs, h.txMeta, ?_, ?_, h.moves⟩
    · intro r hr
      simp only [aAcctInsHist, List.mem_append, List.mem_singleton] at hr
      rcases hr with hr | rfl
      · exact h.accounts r hr
      · exact ⟨hd, hd, hm⟩
    · intro x hx
      simp only [aAcctInsHist, List.mem_append, List.mem_singleton] at hx
      rcases hx with hx | rfl
      · exact h.acctMeta x hx
      · exact ⟨vr_int 1, hd, hm⟩

theorem refl_insertMove (A : ADB) (txSeq : Val) (l : String) (ins : Val) (eff : Int) (a x : String) (amt : Int) (src ex : Bool) (acc : Nat)
    (h1 : VR txSeq) (h2 : VR ins) (h : ReflA A) : ReflA (aInsertMove A txSeq l ins eff a x amt src ex acc) := by
  refine ⟨h.txs, h.txMeta, h.accounts, h.acctMeta, ?_⟩
  have keep : ∀ (c : Bool) (r : AMove), MoveR r → MoveR (if c then bumpEff src amt r else r) := by
    intro c r hr; cases c
    · exact hr
    · exact ⟨hr.txSeq, hr.ins⟩
  intro m hm
  simp only [aInsertMove] at hm
  have hbase : ∀ m ∈ A.moves ++ [newMove A txSeq l ins eff a x amt src ex acc], MoveR m := by
    intro m hm
    rcases List.mem_append.mp hm with hm | hm
    · exact h.moves m hm
    · simp only [List.mem_singleton] at hm; subst hm; exact ⟨h1, h2⟩
  cases ex with
  | false => exact hbase m (by simpa using hm)
  | true =>
    simp only [if_true, List.mem_map] at hm
    obtain ⟨m1, ⟨m0, hm0, rfl⟩, rfl⟩ := hm
    exact keep _ _ (keep _ _ (hbase m0 hm0))

theorem mobj_amKvs {am : List (String × Meta)} (hw : WFam am) (a : String) : MObj (amKvs am a) := by
  rw [amKvs_eq]; exact mobj_kvsOf (amMeta_nodup hw a)

theorem refl_insertPosting (A : ADB) (txSeq : Val) (l : String) (ins : Val) (eff : Int) (p : Posting) (am : List (String × Meta))
    (hw : WFam am) (h1 : VR txSeq) (h2 : VR ins) (h : ReflA A) : ReflA (aInsertPosting A txSeq l ins eff p am) := by
  unfold aInsertPosting
  exact refl_insertMove _ _ _ _ _ _ _ _ _ _ _ h1 h2 (refl_insertMove _ _ _ _ _ _ _ _ _ _ _ h1 h2
    (refl_upsertAccount _ _ _ _ _ (mobj_amKvs hw _) h2 (refl_upsertAccount _ _ _ _ _ (mobj_amKvs hw _) h2 h)))

theorem refl_postings (ps : List Posting) (A : ADB) (txSeq : Val) (l : String) (ins : Val) (eff : Int) (am : List (String × Meta))
    (hw : WFam am) (h1 : VR txSeq) (h2 : VR ins) (h : ReflA A) : ReflA (ps.foldl (fun A p => aInsertPosting A txSeq l ins eff p am) A) := by
  induction ps generalizing A with
  | nil => exact h
  | cons p ps ih => exact ih _ (refl_insertPosting A txSeq l ins eff p am hw h1 h2 h)

theorem vr_refVal (tx : Tx) : VR (refVal tx) := by
  unfold refVal; split
  · exact vr_null
  · exact vr_text _

theorem txR_aTxRow (seq : Nat) (l : String) (tx : Tx) (hm : NodupKeys tx.metadata) : TxR (aTxRow seq l tx) := by
  have hp : ∀ x ∈ tx.postings.map postingJ, JR x := by
    intro x hx; obtain ⟨p, _, rfl⟩ := List.mem_map.mp hx; exact jr_postingJ p
  refine ⟨by simp only [aTxRow, tx_reference]; exact vr_refVal tx, vr_null, vr_ts _, vr_jsontext (jr_arr hp), ?_, ?_, ?_, ?_, mobj_kvsOf hm⟩
  · simp only [aTxRow]
    apply vr_aggElements
    intro x hx; obtain ⟨p, _, rfl⟩ := List.mem_map.mp hx
    exact .inl ⟨p.source, posting_source p⟩
  · simp only [aTxRow]
    apply vr_aggElements
    intro x hx; obtain ⟨p, _, rfl⟩ := List.mem_map.mp hx
    exact .inl ⟨p.destination, posting_destination p⟩
  · simp only [aTxRow]
    apply vr_aggElements
    intro x hx; obtain ⟨p, _, rfl⟩ := List.mem_map.mp hx
    refine .inr ⟨_, by rw [posting_source]; rfl, jr_explodeSegments _ _⟩
  · simp only [aTxRow]
    apply vr_aggElements
    intro x hx; obtain ⟨p, _, rfl⟩ := List.mem_map.mp hx
    refine .inr ⟨_, by rw [posting_destination]; rfl, jr_explodeSegments _ _⟩

theorem refl_insertTransaction (A : ADB) (l : String) (tx : Tx) (d : Int) (am : List (String × Meta)) (hm : NodupKeys tx.metadata) (hw : WFam am)
    (h : ReflA A) : ReflA (aInsertTransaction A l tx (.ts d) am) := by
  have h1 : ReflA (aTxInserted A l tx) := by
    refine ⟨?_, ?_, h.accounts, h.acctMeta, h.moves⟩
    · intro t ht
      simp only [aTxInserted, aTxInsHist, List.mem_append, List.mem_singleton] at ht
      rcases ht with ht | rfl
      · exact h.txs t ht
      · exact txR_aTxRow _ _ _ hm
    · intro x hx
      simp only [aTxInserted, aTxInsHist, List.mem_append, List.mem_singleton] at hx
      rcases hx with hx | rfl
      · exact h.txMeta x hx
      · exact ⟨vr_int 1, vr_ts _, mobj_kvsOf hm⟩
  have h2 := refl_postings tx.postings _ (.int A.txSeq) l (.ts d) tx.timestamp am hw (vr_int _) (vr_ts _) h1
  refine ⟨h2.txs, ?_, h2.accounts, h2.acctMeta, h2.moves⟩
  intro x hx
  simp only [aInsertTransaction, List.mem_append, List.mem_singleton] at hx
  rcases hx with hx | rfl
  · exact h2.txMeta x hx
  · exact ⟨vr_int 0, vr_ts _, mobj_kvsOf hm⟩

theorem refl_foldl_txUpdHist (rows : List ATx) (A : ADB) (h : ReflA A) (hr : ∀ r ∈ rows, TxR r) : ReflA (rows.foldl aTxUpdHist A) := by
  induction rows generalizing A with
  | nil => exact h
  | cons r rs ih =>
    apply ih _ _ (fun x hx => hr x (List.mem_cons_of_mem _ hx))
    have hr0 := hr r (List.mem_cons_self ..)
    refine ⟨h.txs, ?_, h.accounts, h.acctMeta, h.moves⟩
    intro x hx
    simp only [aTxUpdHist, List.mem_append, List.mem_singleton] at hx
    rcases hx with hx | rfl
    · exact h.txMeta x hx
    · exact ⟨vr_nextRev _ _, hr0.updatedAt, hr0.md⟩

theorem refl_updateTxs (A : ADB) (p : ATx → Bool) (u : ATx → ATx) (hu : ∀ r, TxR r → TxR (u r)) (h : ReflA A) : ReflA (aUpdateTxs A p u) := by
  unfold aUpdateTxs
  apply refl_foldl_txUpdHist
  · refine ⟨?_, h.txMeta, h.accounts, h.acctMeta, h.moves⟩
    intro r hr
    obtain ⟨r0, hr0, rfl⟩ := List.mem_map.mp hr
    by_cases hp : p r0 = true
    · simp only [hp, if_true]; exact hu r0 (h.txs r0 hr0)
    · simp only [hp]; exact h.txs r0 hr0
  · intro r hr
    obtain ⟨r0, hr0, rfl⟩ := List.mem_map.mp hr
    exact hu r0 (h.txs r0 (List.mem_filter.mp hr0).1)

theorem refl_accountMeta (am : List (String × Meta)) (hw : WFam am) (A : ADB) (l : String) (dv : Val) (hd : VR dv) (h : ReflA A) :
    ReflA (am.foldl (fun A km => aUpsertAccount A l km.1 (kvsOf km.2) dv) A) := by
  induction am generalizing A with
  | nil => exact h
  | cons km rest ih =>
    exact ih (fun x hx => hw x (List.mem_cons_of_mem _ hx)) _
      (refl_upsertAccount A l km.1 (kvsOf km.2) dv (mobj_kvsOf (hw km (List.mem_cons_self ..))) hd h)

theorem refl_step (A : ADB) (log : CLog) (hw : WFLog log) (h : ReflA A) : ReflA (aStep A log) := by
  have h' : ReflA (aLogged A log) := ⟨h.txs, h.txMeta, h.accounts, h.acctMeta, h.moves⟩
  unfold aStep
  generalize aLogged A log = B at h'
  obtain ⟨l, id, d, ik, payload⟩ := log
  cases payload with
  | newTx tx am =>
    exact refl_accountMeta am hw.2 _ l _ (vr_ts _) (refl_insertTransaction B l tx d am hw.1 hw.2 h')
  | revert rid tx =>
    refine refl_updateTxs _ _ _ ?_ (refl_insertTransaction B l tx d [] hw (by intro km hkm; cases hkm) h')
    intro r hr
    exact ⟨hr.reference, vr_ts _, hr.updatedAt, hr.postings, hr.sources, hr.destinations, hr.sourcesArrays, hr.destinationsArrays, hr.md⟩
  | setMeta t m =>
    cases t with
    | account a => exact refl_upsertAccount B l a (kvsOf m) _ (mobj_kvsOf hw) (vr_ts _) h'
    | transaction tid =>
      refine refl_updateTxs _ _ _ ?_ h'
      intro r hr
      exact ⟨hr.reference, hr.revertedAt, vr_ts _, hr.postings, hr.sources, hr.destinations, hr.sourcesArrays, hr.destinationsArrays,
        mobj_concatKvs hr.md (mobj_kvsOf hw)⟩
  | delMeta t k =>
    cases t with
    | account a =>
      refine refl_updateAccounts _ _ _ ?_ h'
      intro r hr
      exact ⟨hr.ins, vr_ts _, mobj_removeKey hr.md k⟩
    | transaction tid =>
      refine refl_updateTxs _ _ _ ?_ h'
      intro r hr
      exact ⟨hr.reference, hr.revertedAt, vr_ts _, hr.postings, hr.sources, hr.destinations, hr.sourcesArrays, hr.destinationsArrays,
        mobj_removeKey hr.md k⟩

theorem refl_steps (logs : List CLog) (A : ADB) (hw : ∀ log ∈ logs, WFLog log) (h : ReflA A) : ReflA (logs.foldl aStep A) := by
  induction logs generalizing A with
  | nil => exact h
  | cons l ls ih => exact ih _ (fun x hx => hw x (List.mem_cons_of_mem _ hx)) (refl_step A l (hw l (List.mem_cons_self ..)) h)

-- ---------------------------------------------------------------- frameBad

theorem list_beq_refl {α} [BEq α] (xs : List α) (h : ∀ x ∈ xs, (x == x) = true) : (xs == xs) = true := by
  induction xs with
  | nil => rfl
  | cons x xs ih =>
    show List.beq _ _ = true
    simp only [List.beq, Bool.and_eq_true]
    exact ⟨h x (List.mem_cons_self ..), ih (fun y hy => h y (List.mem_cons_of_mem _ hy))⟩

theorem otherRows_refl {A : ADB} (h : ReflA A) (l : String) : (otherRows (conc A) l == otherRows (conc A) l) = true := by
  rw [otherRows_conc]
  have t1 := list_beq_refl ((aOther A l).1.map ATx.row) (by
    intro x hx; obtain ⟨t, ht, rfl⟩ := List.mem_map.mp hx; exact txR_row (h.txs t (List.mem_filter.mp ht).1))
  have t2 := list_beq_refl ((aOther A l).2.1.map AMeta.rowT) (by
    intro x hx; obtain ⟨t, ht, rfl⟩ := List.mem_map.mp hx; exact metaR_rowT (h.txMeta t (List.mem_filter.mp ht).1))
  have t3 := list_beq_refl ((aOther A l).2.2.1.map AAcct.row) (by
    intro x hx; obtain ⟨t, ht, rfl⟩ := List.mem_map.mp hx; exact acctR_row (h.accounts t (List.mem_filter.mp ht).1))
  have t4 := list_beq_refl ((aOther A l).2.2.2.1.map AMeta.rowA) (by
    intro x hx; obtain ⟨t, ht, rfl⟩ := List.mem_map.mp hx; exact metaR_rowA (h.acctMeta t (List.mem_filter.mp ht).1))
  have t5 := list_beq_refl ((aOther A l).2.2.2.2.map AMove.row) (by
    intro x hx; obtain ⟨t, ht, rfl⟩ := List.mem_map.mp hx; exact moveR_row (h.moves t (List.mem_filter.mp ht).1))
  show (_ == _ && (_ == _ && (_ == _ && (_ == _ && _ == _)))) = true
  simp only [t1, t2, t3, t4, t5, Bool.and_self]

theorem frameBadFrom_nil (logs : List CLog) (A : ADB) (hs : Sane A) (hr : ReflA A) (hw : ∀ log ∈ logs, WFLog log) :
    frameBadFrom (conc A) logs = [] := by
  induction logs generalizing A with
  | nil => rfl
  | cons log ls ih =>
    have hstep := sane_frame_step A log hs
    have hr' := refl_step A log (hw log (List.mem_cons_self ..)) hr
    simp only [frameBadFrom, stepDB_conc]
    have e : otherRows (conc (aStep A log)) log.ledger = otherRows (conc A) log.ledger := by
      rw [otherRows_conc, otherRows_conc, hstep.2]
    rw [e, otherRows_refl hr, ih _ hstep.1 hr' (fun x hx => hw x (List.mem_cons_of_mem _ hx))]
    rfl

/-- clause (v), as the executable check states it -/
theorem frameBad_nil (logs : List CLog) (hw : WFHistory logs) : frameBad logs = [] := by
  unfold frameBad
  rw [← conc_empty]
  exact frameBadFrom_nil logs {} sane_empty reflA_empty hw

end StoreSql
