import Model.Engine.Floor
/-! Lemmas about the replay of a log (`balanceOf`) and the floor check (`floorOk`, `floorAt`) of the `Floor`
component. -/
namespace Engine.Floor
open Engine

/-! ### replay of postings -/

/-- effect of one posting on the balance of `(x, asset)` -/
def applyOne (x : Acct) (asset : String) (acc : Int) (p : Posting) : Int :=
  if p.asset = asset then (if p.dst = x then acc + p.amt else acc) - (if p.src = x then p.amt else 0) else acc

/-- effect of a posting list on the balance of `(x, asset)` -/
def applyP (x : Acct) (asset : String) (acc : Int) (ps : List Posting) : Int :=
  ps.foldl (applyOne x asset) acc

/-- effect of a list of entries on the balance of `(x, asset)` -/
def applyE (x : Acct) (asset : String) (acc : Int) (es : List Entry) : Int :=
  es.foldl (fun acc e => applyP x asset acc e.log.postings) acc

theorem balanceOf_eq (ls : List Entry) (x : Acct) (asset : String) :
    balanceOf ls x asset = applyE x asset 0 ls := rfl

theorem applyE_append (x : Acct) (asset : String) (acc : Int) (es fs : List Entry) :
    applyE x asset acc (es ++ fs) = applyE x asset (applyE x asset acc es) fs := by
  simp only [applyE, List.foldl_append]

theorem balanceOf_append (es fs : List Entry) (x : Acct) (asset : String) :
    balanceOf (es ++ fs) x asset = applyE x asset (balanceOf es x asset) fs := by
  simp only [balanceOf_eq, applyE_append]

theorem applyE_cons (x : Acct) (asset : String) (acc : Int) (e : Entry) (es : List Entry) :
    applyE x asset acc (e :: es) = applyE x asset (applyP x asset acc e.log.postings) es := by
  simp only [applyE, List.foldl_cons]

theorem applyE_nil (x : Acct) (asset : String) (acc : Int) : applyE x asset acc [] = acc := rfl

theorem applyP_nil (x : Acct) (asset : String) (acc : Int) : applyP x asset acc [] = acc := rfl

theorem applyP_cons (x : Acct) (asset : String) (acc : Int) (p : Posting) (ps : List Posting) :
    applyP x asset acc (p :: ps) = applyP x asset (applyOne x asset acc p) ps := by
  simp only [applyP, List.foldl_cons]

/-- no posting of the list names `x`, as source or as destination -/
def Untouched (x : Acct) (ps : List Posting) : Prop := ∀ p ∈ ps, p.src ≠ x ∧ p.dst ≠ x

theorem applyOne_untouched (x : Acct) (asset : String) (acc : Int) (p : Posting)
    (hs : p.src ≠ x) (hd : p.dst ≠ x) : applyOne x asset acc p = acc := by
  unfold applyOne
  by_cases ha : p.asset = asset
  · simp only [ha, if_true, hd, hs, if_false]; omega
  · simp only [ha, if_false]

/-- a posting list that does not mention `x` leaves its balance alone -/
theorem applyP_untouched (x : Acct) (asset : String) (ps : List Posting) (h : Untouched x ps) (acc : Int) :
    applyP x asset acc ps = acc := by
  induction ps generalizing acc with
  | nil => rfl
  | cons p ps ih =>
    rw [applyP_cons, applyOne_untouched x asset acc p (h p List.mem_cons_self).1 (h p List.mem_cons_self).2]
    exact ih (fun q hq => h q (List.mem_cons_of_mem _ hq)) acc

/-- entries that do not mention `x` leave its balance alone -/
theorem applyE_untouched (x : Acct) (asset : String) (es : List Entry)
    (h : ∀ e ∈ es, Untouched x e.log.postings) (acc : Int) : applyE x asset acc es = acc := by
  induction es generalizing acc with
  | nil => rfl
  | cons e es ih =>
    rw [applyE_cons, applyP_untouched x asset _ (h e List.mem_cons_self)]
    exact ih (fun f hf => h f (List.mem_cons_of_mem _ hf)) acc

/-- appending entries that do not mention `x` does not change its balance -/
theorem balanceOf_append_untouched (es fs : List Entry) (x : Acct) (asset : String)
    (h : ∀ e ∈ fs, Untouched x e.log.postings) : balanceOf (es ++ fs) x asset = balanceOf es x asset := by
  rw [balanceOf_append, applyE_untouched x asset fs h]

/-! ### the floor check -/

/-- the running balances after one posting, as `floorOk` updates them -/
def bump (bal : Acct → String → Int) (p : Posting) : Acct → String → Int :=
  fun x s => if s = p.asset then (if x = p.dst then bal x s + p.amt else bal x s) - (if x = p.src then p.amt else 0) else bal x s

theorem floorOk_nil (g : Option Int) (bal : Acct → String → Int) : floorOk g bal [] = true := rfl

theorem floorOk_cons (g : Option Int) (bal : Acct → String → Int) (p : Posting) (ps : List Posting) :
    floorOk g bal (p :: ps) =
      ((p.src = "world" || p.amt = 0 || (match g with | none => true | some g => decide (bal p.src p.asset - p.amt ≥ -g)))
        && floorOk g (bump bal p) ps) := rfl

/-- **`floorOk` looks only at the balances of the bounded sources of the list**: two balance functions that agree on
every `(source, asset)` of the list (`world` apart) give the same verdict.  (The running balances are updated for the
source and the destination of every posting, but the update at a point depends on the old value at that point only.) -/
theorem floorOk_congr (g : Option Int) (ps : List Posting) (b1 b2 : Acct → String → Int)
    (h : ∀ p ∈ ps, p.src ≠ "world" → b1 p.src p.asset = b2 p.src p.asset) :
    floorOk g b1 ps = floorOk g b2 ps := by
  induction ps generalizing b1 b2 with
  | nil => rfl
  | cons p ps ih =>
    rw [floorOk_cons, floorOk_cons]
    have htail : floorOk g (bump b1 p) ps = floorOk g (bump b2 p) ps := by
      apply ih
      intro q hq hw
      simp only [bump]
      rw [h q (List.mem_cons_of_mem _ hq) hw]
    rw [htail]
    by_cases hw : p.src = "world"
    · simp only [hw, decide_true, Bool.true_or]
    · rw [h p List.mem_cons_self hw]

/-! ### `floorAt` -/

theorem floorAt_nil (grant : Nat → Option Int) (before : List Entry) : floorAt grant before [] = True := rfl

theorem floorAt_cons (grant : Nat → Option Int) (before : List Entry) (e : Entry) (rest : List Entry) :
    floorAt grant before (e :: rest) =
      (floorOk (grant e.by_) (fun x asset => balanceOf before x asset) e.log.postings = true
        ∧ floorAt grant (before ++ [e]) rest) := rfl

theorem floorAt_append (grant : Nat → Option Int) (before xs ys : List Entry) :
    floorAt grant before (xs ++ ys) ↔ floorAt grant before xs ∧ floorAt grant (before ++ xs) ys := by
  induction xs generalizing before with
  | nil => simp only [List.nil_append, floorAt_nil, true_and, List.append_nil]
  | cons x xs ih =>
    simp only [List.cons_append, floorAt_cons, ih (before ++ [x]), List.append_assoc]
    constructor
    · rintro ⟨h1, h2, h3⟩; exact ⟨⟨h1, h2⟩, h3⟩
    · rintro ⟨⟨h1, h2⟩, h3⟩; exact ⟨h1, h2, h3⟩

theorem floorAt_singleton (grant : Nat → Option Int) (before : List Entry) (e : Entry) :
    floorAt grant before [e] ↔ floorOk (grant e.by_) (fun x asset => balanceOf before x asset) e.log.postings = true := by
  simp only [floorAt_cons, floorAt_nil, and_true]

/-- positional reading of `floorAt`: every entry, wherever the list is cut, respects the floor against the replay of
everything before it -/
theorem floorAt_iff_split (grant : Nat → Option Int) (before rest : List Entry) :
    floorAt grant before rest ↔
      ∀ pre e post, rest = pre ++ e :: post →
        floorOk (grant e.by_) (fun x asset => balanceOf (before ++ pre) x asset) e.log.postings = true := by
  constructor
  · intro h pre e post heq
    subst heq
    have h2 := ((floorAt_append grant before pre (e :: post)).mp h).2
    rw [floorAt_cons] at h2
    exact h2.1
  · intro h
    induction rest generalizing before with
    | nil => rw [floorAt_nil]; trivial
    | cons e rest ih =>
      rw [floorAt_cons]
      refine ⟨by simpa using h [] e rest rfl, ?_⟩
      apply ih
      intro pre f post heq
      have := h (e :: pre) f post (by rw [heq]; rfl)
      simpa [List.append_assoc] using this

/-- index reading of `floorAt` -/
theorem floorAt_getElem (grant : Nat → Option Int) (before rest : List Entry) (h : floorAt grant before rest)
    (i : Nat) (e : Entry) (he : rest[i]? = some e) :
    floorOk (grant e.by_) (fun x asset => balanceOf (before ++ rest.take i) x asset) e.log.postings = true := by
  obtain ⟨hlt, hget⟩ := List.getElem?_eq_some_iff.mp he
  apply (floorAt_iff_split grant before rest).mp h (rest.take i) e (rest.drop (i + 1))
  rw [← hget, ← List.drop_eq_getElem_cons hlt, List.take_append_drop]

/-- one debit of `m` from `x` (to another account) lowers the balance of `x` by `m` -/
theorem applyP_single_debit (x d : Acct) (asset : String) (m acc : Int) (hd : d ≠ x) :
    applyP x asset acc [⟨x, d, m, asset⟩] = acc - m := by
  simp only [applyP, List.foldl_cons, List.foldl_nil, applyOne, if_true, hd, if_false]

end Engine.Floor
