import Model.Engine.Floor
/-! Lemmas about the lock part of the `Floor` component: exclusion among holders, the FIFO recheck, the first hold
of a request. -/
namespace Engine.Floor
open Engine

/-! ### conflicts -/

theorem conflict_comm (x y : Hold) : conflict x y = conflict y x := by
  unfold conflict; rw [Bool.or_comm]

/-- an account write-held by one and held (either way) by the other is a conflict -/
theorem conflict_of_shared {h1 h2 : Hold} {x : Acct} (hw : x ∈ h1.w) (hx : x ∈ h2.r ∨ x ∈ h2.w) :
    conflict h1 h2 = true := by
  unfold conflict
  apply Bool.or_eq_true_iff.mpr
  left
  rw [List.any_eq_true]
  refine ⟨x, hw, ?_⟩
  cases hx with
  | inl h => simp [h]
  | inr h => simp [h]

/-- **exclusion**: holds of two different requests never conflict -/
def Excl (hs : List Hold) : Prop := ∀ h1 ∈ hs, ∀ h2 ∈ hs, h1.a ≠ h2.a → conflict h1 h2 = false

theorem Excl.nil : Excl [] := by intro h1 hm; cases hm

theorem Excl.subset {hs hs' : List Hold} (he : Excl hs) (hsub : ∀ h ∈ hs', h ∈ hs) : Excl hs' :=
  fun h1 m1 h2 m2 hne => he h1 (hsub h1 m1) h2 (hsub h2 m2) hne

theorem compatible_iff (hs : List Hold) (q : Hold) : compatible hs q = true ↔ ∀ h ∈ hs, conflict q h = false := by
  unfold compatible
  rw [List.all_eq_true]
  constructor
  · intro h x hx; simpa using h x hx
  · intro h x hx; simpa using h x hx

/-- a compatible hold joins the holders without breaking exclusion -/
theorem Excl.snoc {hs : List Hold} {q : Hold} (he : Excl hs) (hc : compatible hs q = true) : Excl (hs ++ [q]) := by
  have hc' := (compatible_iff hs q).mp hc
  intro h1 m1 h2 m2 hne
  rw [List.mem_append, List.mem_singleton] at m1 m2
  cases m1 with
  | inl m1 =>
    cases m2 with
    | inl m2 => exact he h1 m1 h2 m2 hne
    | inr m2 => subst m2; rw [conflict_comm]; exact hc' h1 m1
  | inr m1 =>
    subst m1
    cases m2 with
    | inl m2 => exact hc' h2 m2
    | inr m2 => subst m2; exact absurd rfl hne

/-! ### the FIFO recheck -/

theorem recheck_nil (hs : List Hold) : recheck hs [] = (hs, []) := rfl

theorem recheck_cons (hs : List Hold) (q : Hold) (qs : List Hold) :
    recheck hs (q :: qs) =
      if compatible hs q then recheck (hs ++ [q]) qs else ((recheck hs qs).1, q :: (recheck hs qs).2) := rfl

/-- the recheck only adds holders, at the end -/
theorem recheck_fst_prefix (hs q : List Hold) : ∃ ext, (recheck hs q).1 = hs ++ ext := by
  induction q generalizing hs with
  | nil => exact ⟨[], by simp [recheck_nil]⟩
  | cons x q ih =>
    rw [recheck_cons]
    by_cases hc : compatible hs x = true
    · obtain ⟨ext, he⟩ := ih (hs ++ [x])
      exact ⟨x :: ext, by simp only [hc, if_true, he, List.append_assoc, List.singleton_append]⟩
    · obtain ⟨ext, he⟩ := ih hs
      exact ⟨ext, by simp only [hc, he]; rfl⟩

theorem mem_recheck_fst {hs q : List Hold} {h : Hold} (hm : h ∈ hs) : h ∈ (recheck hs q).1 := by
  obtain ⟨ext, he⟩ := recheck_fst_prefix hs q
  rw [he]; exact List.mem_append_left _ hm

/-- the recheck preserves exclusion: it admits a queued hold only if it is compatible with all current holders -/
theorem recheck_excl (hs q : List Hold) (he : Excl hs) : Excl (recheck hs q).1 := by
  induction q generalizing hs with
  | nil => exact he
  | cons x q ih =>
    rw [recheck_cons]
    by_cases hc : compatible hs x = true
    · simp only [hc, if_true]; exact ih (hs ++ [x]) (he.snoc hc)
    · simp only [hc]; exact ih hs he

/-! ### the first hold of a request -/

theorem find_hold_some {hs : List Hold} {a : Nat} {h : Hold} (hf : hs.find? (·.a = a) = some h) :
    h ∈ hs ∧ h.a = a := by
  refine ⟨List.mem_of_find?_eq_some hf, ?_⟩
  have := List.find?_some hf
  simpa using this

theorem find_hold_append {hs : List Hold} {a : Nat} {h : Hold} (ext : List Hold)
    (hf : hs.find? (·.a = a) = some h) : (hs ++ ext).find? (·.a = a) = some h := by
  rw [List.find?_append, hf]; rfl

/-- removing the holds of another request does not change the first hold of `a` -/
theorem find_hold_filter_ne (hs : List Hold) {a b : Nat} (hab : a ≠ b) :
    (hs.filter (·.a ≠ b)).find? (·.a = a) = hs.find? (·.a = a) := by
  induction hs with
  | nil => rfl
  | cons x xs ih =>
    by_cases hxb : x.a = b
    · have h1 : decide (x.a ≠ b) = false := by simp [hxb]
      have h2 : decide (x.a = a) = false := by
        simp only [decide_eq_false_iff_not]; exact fun h => hab (h.symm.trans hxb)
      simp only [List.filter_cons, h1, Bool.false_eq_true, if_false, List.find?_cons, h2]
      exact ih
    · have h1 : decide (x.a ≠ b) = true := by simp [hxb]
      by_cases hxa : x.a = a
      · have h2 : decide (x.a = a) = true := by simp [hxa]
        simp only [List.filter_cons, h1, if_true, List.find?_cons, h2]
      · have h2 : decide (x.a = a) = false := by simp [hxa]
        simp only [List.filter_cons, h1, if_true, List.find?_cons, h2]
        exact ih

theorem find_hold_of_mem {hs : List Hold} {a : Nat} {h : Hold} (hm : h ∈ hs) (ha : h.a = a) :
    ∃ h', hs.find? (·.a = a) = some h' := by
  cases hf : hs.find? (·.a = a) with
  | some h' => exact ⟨h', rfl⟩
  | none =>
    rw [List.find?_eq_none] at hf
    have := hf h hm
    simp [ha] at this

end Engine.Floor
