import Lemmas.StoreSqlRev
/-! C04 stage 2, layer 3a: **the `transactions` table and its revision table against the replayed transactions**.

`TxsRel A l txs`: the rows of ledger `l` in the typed `transactions` table correspond one to one, in order, to the replayed
records `txs`: same id, timestamp, reference; `reverted_at` set iff the record is reverted; the revision rows of the transaction
are numbered 1, 0, 2, 3, …, the latest carries the row's metadata, and sorted by revision they canonicalise to the replayed
metadata history (`Sim`).  Kept by every log entry whose metadata maps have distinct keys. -/
namespace StoreSql
open Sql Schema Store

def NodupKeys (m : Meta) : Prop := (m.map (·.1)).Nodup

def refVal (tx : Tx) : Val := if tx.reference == "" then .null else .text tx.reference

theorem tx_reference (tx : Tx) : Val.arrowText (.json (txJ 0 tx)) (.text "reference") = refVal tx := by
  by_cases h : (tx.reference == "") = true <;> simp [txJ, Val.arrowText, Val.arrow, Val.keyOf, J.lookup, refVal, h]

structure TxOk (A : ADB) (t : ATx) (rec : TxRec) : Prop where
  id : t.id = rec.tx.id
  ts : t.ts = rec.tx.timestamp
  ref : t.reference = refVal rec.tx
  rev : Val.isNullB t.revertedAt = rec.reverted.isNone
  hist : ∃ k vals, HistOk (histOf A.txMeta t.seq) k vals ∧ vals.getLast? = some t.md ∧
    Sim (vals.map J.obj) (rec.metaHist.reverse.map (fun e => metaJ e.2))

def TxsRel (A : ADB) (l : String) (txs : List TxRec) : Prop := Rel2 (TxOk A) (A.txs.filter (fun t => t.ledger == l)) txs

theorem Rel2.map_mem {α β α' β' : Type} {R : α → β → Prop} {R' : α' → β' → Prop} {xs : List α} {ys : List β} (f : α → α') (g : β → β')
    (h : Rel2 R xs ys) (hp : ∀ x ∈ xs, ∀ y ∈ ys, R x y → R' (f x) (g y)) : Rel2 R' (xs.map f) (ys.map g) := by
  induction h with
  | nil => exact .nil
  | cons r _ ih =>
    exact .cons (hp _ (List.mem_cons_self ..) _ (List.mem_cons_self ..) r)
      (ih (fun x hx y hy => hp x (List.mem_cons_of_mem _ hx) y (List.mem_cons_of_mem _ hy)))

theorem Rel2.imp_mem {α β : Type} {R R' : α → β → Prop} {xs : List α} {ys : List β}
    (h : Rel2 R xs ys) (hp : ∀ x ∈ xs, ∀ y ∈ ys, R x y → R' x y) : Rel2 R' xs ys := by
  have := Rel2.map_mem id id h hp
  simpa using this

/-- the current metadata of a related row is, as a finite map, the replayed current metadata -/
theorem TxOk.current {A : ADB} {t : ATx} {rec : TxRec} (h : TxOk A t rec) (hne : rec.metaHist ≠ []) :
    Eqv (.obj t.md) (metaJ (histCurrent rec.metaHist)) := by
  obtain ⟨k, vals, _, hl, hs⟩ := h.hist
  obtain ⟨zs, zp, h1, h2, e⟩ := hs.last
  have e1 : zs = .obj t.md := by
    rw [List.getLast?_map, hl] at h1
    simpa using h1.symm
  have e2 : zp = metaJ (histCurrent rec.metaHist) := by
    cases hm : rec.metaHist with
    | nil => exact absurd hm hne
    | cons x xs =>
      rw [hm] at h2
      simp only [List.reverse_cons, List.map_append, List.map_cons, List.map_nil, List.getLast?_append, List.getLast?_singleton,
        Option.some_or, Option.some.injEq] at h2
      simp [histCurrent, ← h2]
  rw [← e1, ← e2]; exact e

theorem TxOk.hist_ne {A : ADB} {t : ATx} {rec : TxRec} (h : TxOk A t rec) : rec.metaHist ≠ [] := by
  obtain ⟨k, vals, _, _, hs⟩ := h.hist
  obtain ⟨_, zp, _, h2, _⟩ := hs.last
  intro e; rw [e] at h2; cases h2

theorem filter_map_ledger {α} (xs : List α) (led : α → String) (l : String) (g : α → α) (hg : ∀ x, led (g x) = led x) :
    (xs.map g).filter (fun t => led t == l) = (xs.filter (fun t => led t == l)).map g := by
  rw [List.filter_map]
  congr 1
  apply List.filter_congr
  intro x _; simp [hg x]

-- ---------------------------------------------------------------- an `update transactions … where id = … and ledger = …`

/-- what a metadata update (`f` on the row's metadata, `F` on the replayed current metadata) does to a related pair -/
theorem txOk_update (A : ADB) (hs : Sane A) (l : String) (id : Nat) (u : ATx → ATx) (rf : TxRec → TxRec)
    (hu : ∀ r, (u r).seq = r.seq ∧ (u r).ledger = r.ledger ∧ (u r).id = r.id ∧ (u r).ts = r.ts ∧ (u r).reference = r.reference)
    (hpair : ∀ t rec k vals, TxOk A t rec → HistOk (histOf A.txMeta t.seq) k vals → vals.getLast? = some t.md →
      Sim (vals.map J.obj) (rec.metaHist.reverse.map (fun e => metaJ e.2)) →
      (rf rec).tx = rec.tx ∧ Val.isNullB (u t).revertedAt = (rf rec).reverted.isNone ∧
      Sim ((vals ++ [(u t).md]).map J.obj) ((rf rec).metaHist.reverse.map (fun e => metaJ e.2)))
    (t : ATx) (ht : t ∈ A.txs) (hl : t.ledger = l) (rec : TxRec) (h : TxOk A t rec) :
    TxOk (aUpdateTxs A (txKey l id) u) (if txKey l id t then u t else t) (if rec.tx.id == id then rf rec else rec) := by
  have hkey : txKey l id t = (rec.tx.id == id) := by
    simp only [txKey, hl, h.id, beq_self_eq_true, Bool.and_true]
    rw [Bool.eq_iff_iff]; simp
  have hh := aUpdateTxs_hist A (txKey l id) u (fun r => (hu r).1) hs t ht
  by_cases hk : txKey l id t = true
  · have hk' : (rec.tx.id == id) = true := by rw [← hkey]; exact hk
    simp only [hk, hk', if_true] at hh ⊢
    obtain ⟨k, vals, h1, h2, h3⟩ := h.hist
    obtain ⟨p1, p2, p3⟩ := hpair t rec k vals h h1 h2 h3
    refine ⟨by rw [(hu t).2.2.1, p1]; exact h.id, by rw [(hu t).2.2.2.1, p1]; exact h.ts, by rw [(hu t).2.2.2.2, p1]; exact h.ref, p2, ?_⟩
    refine ⟨k + 1, vals ++ [(u t).md], ?_, by simp, p3⟩
    rw [(hu t).1, hh, nextRevP_ok h1]
    exact .snoc _ h1
  · have hk' : (rec.tx.id == id) = false := by rw [← hkey]; simpa using hk
    simp only [hk, hk', Bool.false_eq_true, if_false] at hh ⊢
    exact ⟨h.id, h.ts, h.ref, h.rev, by rw [hh]; exact h.hist⟩

theorem txsRel_update (A : ADB) (hs : Sane A) (l : String) (id : Nat) (u : ATx → ATx) (rf : TxRec → TxRec)
    (hu : ∀ r, (u r).seq = r.seq ∧ (u r).ledger = r.ledger ∧ (u r).id = r.id ∧ (u r).ts = r.ts ∧ (u r).reference = r.reference)
    (hpair : ∀ t rec k vals, TxOk A t rec → HistOk (histOf A.txMeta t.seq) k vals → vals.getLast? = some t.md →
      Sim (vals.map J.obj) (rec.metaHist.reverse.map (fun e => metaJ e.2)) →
      (rf rec).tx = rec.tx ∧ Val.isNullB (u t).revertedAt = (rf rec).reverted.isNone ∧
      Sim ((vals ++ [(u t).md]).map J.obj) ((rf rec).metaHist.reverse.map (fun e => metaJ e.2)))
    (txs : List TxRec) (h : TxsRel A l txs) :
    TxsRel (aUpdateTxs A (txKey l id) u) l (txs.map (fun rec => if rec.tx.id == id then rf rec else rec)) := by
  unfold TxsRel at h ⊢
  rw [(aUpdateTxs_proj _ _ _).1, filter_map_ledger A.txs (·.ledger) l _ (by intro x; by_cases hx : txKey l id x = true <;> simp [hx, (hu x).2.1])]
  apply Rel2.map_mem _ _ h
  intro t ht rec _ hr
  rw [List.mem_filter] at ht
  exact txOk_update A hs l id u rf hu hpair t ht.1 (by simpa using ht.2) rec hr

/-- the same update seen from another ledger: nothing changes -/
theorem txsRel_update_other (A : ADB) (hs : Sane A) (l l' : String) (hne : l' ≠ l) (id : Nat) (u : ATx → ATx)
    (hu : ∀ r, (u r).seq = r.seq ∧ (u r).ledger = r.ledger) (txs : List TxRec) (h : TxsRel A l' txs) :
    TxsRel (aUpdateTxs A (txKey l id) u) l' txs := by
  unfold TxsRel at h ⊢
  rw [(aUpdateTxs_proj _ _ _).1, filter_map_ledger A.txs (·.ledger) l' _ (by intro x; by_cases hx : txKey l id x = true <;> simp [hx, (hu x).2])]
  have := Rel2.map_mem (R' := TxOk (aUpdateTxs A (txKey l id) u)) (fun r => if txKey l id r = true then u r else r) (fun rec : TxRec => rec) h (by
    intro t ht rec _ hr
    rw [List.mem_filter] at ht
    have hl : t.ledger = l' := by simpa using ht.2
    have hk : txKey l id t = false := by simp [txKey, hl, hne]
    have hh := aUpdateTxs_hist A (txKey l id) u (fun r => (hu r).1) hs t ht.1
    simp only [hk, Bool.false_eq_true, if_false] at hh ⊢
    exact ⟨hr.id, hr.ts, hr.ref, hr.rev, by rw [hh]; exact hr.hist⟩)
  simpa using this

-- ---------------------------------------------------------------- the three updates

theorem eqv_unpack {a : Kvs} {p : Meta} (h : Eqv (.obj a) (metaJ p)) : MObj a ∧ NodupKeys p ∧ KEq a (kvsOf p) := by
  obtain ⟨a', b', e1, e2, ha, hb, e⟩ := h
  cases e1
  rw [metaJ_eq] at e2
  cases e2
  exact ⟨ha, by have := hb.nodup; rwa [keys_kvsOf] at this, e⟩

theorem reverse_cons_map {α β} (x : α) (xs : List α) (f : α → β) : (x :: xs).reverse.map f = xs.reverse.map f ++ [f x] := by simp

theorem txsRel_revert (A : ADB) (hs : Sane A) (l : String) (id : Nat) (w : Int) (info : RevertInfo) (txs : List TxRec) (h : TxsRel A l txs) :
    TxsRel (aRevertTransaction A l id (.ts w)) l (markReverted txs id info) := by
  have hm : markReverted txs id info =
      txs.map (fun rec => if rec.tx.id == id then (if rec.reverted.isNone then { rec with reverted := some info } else rec) else rec) := by
    unfold markReverted
    apply List.map_congr_left
    intro r _
    by_cases h1 : (r.tx.id == id) = true <;> by_cases h2 : r.reverted.isNone = true <;> simp [h1, h2]
  rw [hm]
  unfold aRevertTransaction
  refine txsRel_update A hs l id _ _ ?_ ?_ txs h
  · intro r; exact ⟨rfl, rfl, rfl, rfl, rfl⟩
  intro t rec k vals ht _ hlast hsim
  refine ⟨by split <;> rfl, ?_, ?_⟩
  · by_cases h2 : rec.reverted.isNone = true <;> simp [h2]
  · have hP : (if rec.reverted.isNone = true then { rec with reverted := some info } else rec).metaHist = rec.metaHist := by split <;> rfl
    rw [hP, List.map_append]
    obtain ⟨zs, zp, h1, _, e⟩ := hsim.last
    have e1 : zs = .obj t.md := by
      rw [List.getLast?_map, hlast] at h1; simpa using h1.symm
    subst e1
    exact hsim.left h1 e.refl_left

theorem txsRel_setMeta (A : ADB) (hs : Sane A) (l : String) (id : Nat) (m : Meta) (hm : NodupKeys m) (dv : Val) (d : Int) (txs : List TxRec)
    (h : TxsRel A l txs) :
    TxsRel (aUpdateTransactionMetadata A l id (kvsOf m) dv) l (reviseTx txs id d (fun cur => Meta.merge cur m)) := by
  unfold reviseTx aUpdateTransactionMetadata
  refine txsRel_update A hs l id _ (fun r => { r with metaHist := (d, Meta.merge (histCurrent r.metaHist) m) :: r.metaHist }) ?_ ?_ txs h
  · intro r; exact ⟨rfl, rfl, rfl, rfl, rfl⟩
  intro t rec k vals ht _ hlast hsim
  refine ⟨rfl, ht.rev, ?_⟩
  obtain ⟨ha, hp, e⟩ := eqv_unpack (ht.current ht.hist_ne)
  rw [reverse_cons_map, List.map_append]
  apply hsim.both
  rw [metaJ_eq]
  exact eqv_obj (mobj_concatKvs ha (mobj_kvsOf hm)) (mobj_kvsOf (nodup_merge hp m)) (KEq_merge e m hm)

theorem txsRel_delMeta (A : ADB) (hs : Sane A) (l : String) (id : Nat) (key : String) (dv : Val) (d : Int) (txs : List TxRec)
    (h : TxsRel A l txs) :
    TxsRel (aDeleteTransactionMetadata A l id key dv) l (reviseTx txs id d (fun cur => Meta.erase cur key)) := by
  unfold reviseTx aDeleteTransactionMetadata
  refine txsRel_update A hs l id _ (fun r => { r with metaHist := (d, Meta.erase (histCurrent r.metaHist) key) :: r.metaHist }) ?_ ?_ txs h
  · intro r; exact ⟨rfl, rfl, rfl, rfl, rfl⟩
  intro t rec k vals ht _ hlast hsim
  refine ⟨rfl, ht.rev, ?_⟩
  obtain ⟨ha, hp, e⟩ := eqv_unpack (ht.current ht.hist_ne)
  rw [reverse_cons_map, List.map_append]
  apply hsim.both
  rw [metaJ_eq]
  exact eqv_obj (mobj_removeKey ha key) (mobj_kvsOf (nodup_erase hp key)) (KEq_erase e key)

-- ---------------------------------------------------------------- insert_transaction

theorem aInsertTransaction_txs (A : ADB) (l : String) (tx : Tx) (d : Val) (am : List (String × Meta)) :
    (aInsertTransaction A l tx d am).txs = A.txs ++ [aTxRow A.txSeq l tx] ∧
    (aInsertTransaction A l tx d am).txMeta = A.txMeta ++
      [{ seq := A.txMetaSeq, ledger := l, base := A.txSeq, revision := .int 1, date := .ts tx.timestamp, md := kvsOf tx.metadata },
       { seq := A.txMetaSeq + 1, ledger := l, base := A.txSeq, revision := .int 0, date := .ts tx.timestamp, md := kvsOf tx.metadata }] := by
  simp [aInsertTransaction, aTxInserted, aTxInsHist, aTxRow]

theorem txsRel_insert (A : ADB) (hs : Sane A) (l l' : String) (tx : Tx) (htx : NodupKeys tx.metadata) (dv : Val) (d : Int) (am : List (String × Meta))
    (txs : List TxRec) (h : TxsRel A l' txs) :
    TxsRel (aInsertTransaction A l tx dv am) l'
      (if l' = l then txs ++ [{ tx := tx, insertedAt := d, reverted := none, metaHist := [(d, tx.metadata)] }] else txs) := by
  obtain ⟨e1, e2⟩ := aInsertTransaction_txs A l tx dv am
  unfold TxsRel at h ⊢
  rw [e1, List.filter_append]
  have hold : Rel2 (TxOk (aInsertTransaction A l tx dv am)) (A.txs.filter (fun t => t.ledger == l')) txs := by
    apply h.imp_mem
    intro t ht rec _ hr
    rw [List.mem_filter] at ht
    have hlt := hs.tx_lt t ht.1
    refine ⟨hr.id, hr.ts, hr.ref, hr.rev, ?_⟩
    rw [e2, histOf_append_other _ _ _ (by
      intro x hx
      simp only [List.mem_cons, List.not_mem_nil, or_false] at hx
      rcases hx with rfl | rfl <;> simp <;> omega)]
    exact hr.hist
  by_cases hl : l' = l
  · subst hl
    simp only [if_true, aTxRow, beq_self_eq_true, List.filter_cons, List.filter_nil]
    apply hold.snoc
    refine ⟨rfl, rfl, tx_reference tx, rfl, 2, [kvsOf tx.metadata, kvsOf tx.metadata], ?_, rfl, ?_⟩
    · rw [e2]
      have hnone : histOf A.txMeta A.txSeq = [] := by
        unfold histOf
        rw [List.filter_eq_nil_iff.mpr (fun x hx => by have := hs.tm_lt x hx; simp; omega)]
        rfl
      simp only [histOf, List.filter_append, List.map_append] at hnone ⊢
      rw [hnone]
      simp only [List.filter_cons, beq_self_eq_true, if_true, List.filter_nil, List.map_cons, List.map_nil, List.nil_append]
      exact .two _
    · have e0 : Eqv (J.obj (kvsOf tx.metadata)) (metaJ tx.metadata) := by
        rw [metaJ_eq]; exact eqv_obj (mobj_kvsOf htx) (mobj_kvsOf htx) (KEq.refl _)
      exact (Sim.base e0).left (by rfl) e0.refl_left
  · have hl2 : ¬ l = l' := fun e => hl e.symm
    have : ((aTxRow A.txSeq l tx).ledger == l') = false := by simp [aTxRow, hl2]
    simp only [hl, if_false, List.filter_cons, this, Bool.false_eq_true, List.filter_nil, List.append_nil]
    exact hold

-- ---------------------------------------------------------------- one log entry

/-- the metadata maps of a log entry are maps: distinct keys (what a JSON object / a Go map is) -/
def WFLog (log : CLog) : Prop :=
  match log.payload with
  | .newTx tx am => NodupKeys tx.metadata ∧ ∀ km ∈ am, NodupKeys km.2
  | .revert _ tx => NodupKeys tx.metadata
  | .setMeta _ m => NodupKeys m
  | .delMeta _ _ => True

theorem txsRel_congr {A A' : ADB} (h1 : A'.txs = A.txs) (h2 : A'.txMeta = A.txMeta) {l : String} {txs : List TxRec} (h : TxsRel A l txs) :
    TxsRel A' l txs := by
  unfold TxsRel at h ⊢
  rw [h1]
  exact h.imp_mem (fun t _ rec _ hr => ⟨hr.id, hr.ts, hr.ref, hr.rev, by rw [h2]; exact hr.hist⟩)

@[simp] theorem accountMeta_tx (am : List (String × Meta)) (A : ADB) (l : String) (d : Val) :
    (am.foldl (fun A km => aUpsertAccount A l km.1 (kvsOf km.2) d) A).txs = A.txs ∧
    (am.foldl (fun A km => aUpsertAccount A l km.1 (kvsOf km.2) d) A).txMeta = A.txMeta := by
  induction am generalizing A with
  | nil => exact ⟨rfl, rfl⟩
  | cons km rest ih => simp [ih]

theorem txsRel_step (A : ADB) (v : View) (log : CLog) (hs : Sane A) (hw : WFLog log) (h : ∀ l, TxsRel A l (v l).txs) :
    ∀ l', TxsRel (aStep A log) l' (step v log l').txs := by
  intro l'
  have hs' := sane_logged A log hs
  have h' : ∀ l, TxsRel (aLogged A log) l (v l).txs := fun l => txsRel_congr (A := A) (A' := aLogged A log) rfl rfl (h l)
  unfold aStep
  generalize aLogged A log = B at hs' h'
  obtain ⟨l, id, d, ik, payload⟩ := log
  simp only [step]
  cases payload with
  | newTx tx am =>
    simp only [aHandle]
    have key := txsRel_insert B hs' l l' tx hw.1 (.ts d) d am _ (h' l')
    refine txsRel_congr (accountMeta_tx ..).1 (accountMeta_tx ..).2 ?_
    by_cases hl : l' = l
    · subst hl; simpa [stepLedger, applyPayload, insertTx] using key
    · simpa [hl] using key
  | revert rid tx =>
    simp only [aHandle]
    have key := txsRel_insert B hs' l l' tx hw (.ts d) d [] _ (h' l')
    have hs2 := (sane_frame_insertTransaction B l tx (.ts d) [] hs').1
    by_cases hl : l' = l
    · subst hl
      simp only [if_true] at key
      have := txsRel_revert _ hs2 l' rid tx.timestamp { at_ := d, effective := tx.timestamp, by_ := tx.id } _ key
      simpa [stepLedger, applyPayload, insertTx] using this
    · simp only [hl, if_false] at key ⊢
      unfold aRevertTransaction
      refine txsRel_update_other _ hs2 l l' hl rid _ ?_ _ key
      intro r; exact ⟨rfl, rfl⟩
  | setMeta t m =>
    cases t with
    | account a =>
      simp only [aHandle]
      refine txsRel_congr (aUpsertAccount_txs ..) (aUpsertAccount_txMeta ..) ?_
      by_cases hl : l' = l
      · subst hl; simpa [stepLedger, applyPayload] using h' l'
      · simpa [hl] using h' l'
    | transaction tid =>
      simp only [aHandle]
      by_cases hl : l' = l
      · subst hl
        have := txsRel_setMeta B hs' l' tid m hw (.ts d) d _ (h' l')
        simpa [stepLedger, applyPayload] using this
      · simp only [hl, if_false]
        unfold aUpdateTransactionMetadata
        refine txsRel_update_other _ hs' l l' hl tid _ ?_ _ (h' l')
        intro r; exact ⟨rfl, rfl⟩
  | delMeta t k =>
    cases t with
    | account a =>
      simp only [aHandle, aDeleteAccountMetadata]
      refine txsRel_congr (aUpdateAccounts_txs ..) (aUpdateAccounts_txMeta ..) ?_
      by_cases hl : l' = l
      · subst hl; simpa [stepLedger, applyPayload] using h' l'
      · simpa [hl] using h' l'
    | transaction tid =>
      simp only [aHandle]
      by_cases hl : l' = l
      · subst hl
        have := txsRel_delMeta B hs' l' tid k (.ts d) d _ (h' l')
        simpa [stepLedger, applyPayload] using this
      · simp only [hl, if_false]
        unfold aDeleteTransactionMetadata
        refine txsRel_update_other _ hs' l l' hl tid _ ?_ _ (h' l')
        intro r; exact ⟨rfl, rfl⟩

end StoreSql
