import Model.SqlText
/-! Helper lemmas for C20 (scanner runs, quote-safe bodies, frames). -/
namespace SqlText

/-! ### runs -/

theorem run_append (s : Ctl) (a b : Chars) :
    run s (a ++ b) = ((run (run s a).1 b).1, (run s a).2 ++ (run (run s a).1 b).2) := by
  induction a generalizing s with
  | nil => simp [run]
  | cons c cs ih => simp [run, ih, List.append_assoc]

theorem emitted_append (a b : List Act) : emitted (a ++ b) = emitted a ++ emitted b := by
  induction a with
  | nil => rfl
  | cons x xs ih => cases x <;> simp [emitted, ih]

theorem emitted_pushAll (cs : Chars) : emitted (pushAll cs) = [] := by
  induction cs with
  | nil => rfl
  | cons c cs ih => simpa [pushAll, emitted] using ih

theorem shape_interp (acc : Chars) (as : List Act) : shape (interp acc as) = emitted as := by
  induction as generalizing acc with
  | nil => rfl
  | cons x xs ih => cases x <;> simp [interp, emitted, shape, ih] <;> exact ih _

/-- token kinds of scanning `cs` to the end from `s` -/
def kindsFrom (s : Ctl) (cs : Chars) : List Kind := emitted (acts s cs)

theorem shape_lexFrom (s : Ctl) (cs : Chars) : shape (lexFrom s cs) = kindsFrom s cs := by
  simp [lexFrom, kindsFrom, shape_interp]

theorem kindsFrom_append (s : Ctl) (a b : Chars) :
    kindsFrom s (a ++ b) = emitted (run s a).2 ++ kindsFrom (run s a).1 b := by
  simp [kindsFrom, acts, run_append, emitted_append, List.append_assoc]

/-! ### quote-safe bodies: every `'` is one half of `''` -/

inductive QSafe : Chars → Prop where
  | nil : QSafe []
  | cons (c : Char) (t : Chars) : c ≠ '\'' → QSafe t → QSafe (c :: t)
  | pair (t : Chars) : QSafe t → QSafe ('\'' :: '\'' :: t)

/-- the text a quote-safe body denotes -/
def unq : Chars → Chars
  | [] => []
  | '\'' :: '\'' :: t => '\'' :: unq t
  | c :: t => c :: unq t

theorem unq_cons_ne {c : Char} (t : Chars) (h : c ≠ '\'') : unq (c :: t) = c :: unq t := by
  rw [unq.eq_3]
  intro t' h1
  exact absurd h1 h

theorem run_inStr_qsafe {b : Chars} (h : QSafe b) : run (.inStr false) b = (.inStr false, pushAll (unq b)) := by
  induction h with
  | nil => rfl
  | cons c t hc _ ih =>
    simp [run, step, hc, ih, unq_cons_ne t hc, pushAll]
  | pair t _ ih => simp [run, step, ih, unq, pushAll]

theorem qsafe_append {a b : Chars} (ha : QSafe a) (hb : QSafe b) : QSafe (a ++ b) := by
  induction ha with
  | nil => simpa
  | cons c t hc _ ih => exact .cons c _ hc ih
  | pair t _ ih => exact .pair _ ih

theorem qsafe_of_no_quote {b : Chars} (h : ∀ c ∈ b, c ≠ '\'') : QSafe b := by
  induction b with
  | nil => exact .nil
  | cons c t ih => exact .cons c t (h c (by simp)) (ih (fun d hd => h d (by simp [hd])))

theorem qsafe_quoteBody (s : Chars) : QSafe (quoteBody s) := by
  induction s with
  | nil => exact .nil
  | cons c cs ih =>
    unfold quoteBody
    split
    · exact ih
    · split
      · exact .pair _ ih
      · exact .cons c _ (by assumption) ih

theorem unq_quoteBody (s : Chars) : unq (quoteBody s) = dropNul s := by
  induction s with
  | nil => rfl
  | cons c cs ih =>
    unfold quoteBody dropNul
    split
    · exact ih
    · split
      · next h => subst h; simp [unq, ih]
      · next h1 h2 =>
        simp [unq_cons_ne _ h2, ih]

theorem interp_pushAll (acc cs : Chars) (as : List Act) : interp acc (pushAll cs ++ as) = interp (acc ++ cs) as := by
  induction cs generalizing acc with
  | nil => simp [pushAll]
  | cons c cs ih =>
    have := ih (acc ++ [c])
    simp [pushAll] at this
    simp [pushAll, interp, this]

/-- a quoted literal with a quote-safe body, scanned from the start of a token to the end of the input -/
theorem lexL_quoted {b : Chars} (h : QSafe b) : lexL ('\'' :: (b ++ ['\''])) = [(.str, String.ofList (unq b))] := by
  have h1 : run .dflt ('\'' :: (b ++ ['\''])) = (.strQ false, pushAll (unq b)) := by
    have : step .dflt '\'' = (.inStr false, []) := by decide
    simp only [run, this]
    rw [run_append, run_inStr_qsafe h]
    simp [run, step]
  have h2 := interp_pushAll [] (unq b) [.emit .str]
  unfold lexL lexFrom acts
  rw [h1]
  simp only [finish, strKind, Bool.false_eq_true, if_false]
  rw [h2]
  simp [interp]

/-! ### frames: the program's text with holes where quoted literals go -/

/-- `none` stands for a quoted literal -/
def frameOf : List Piece → List (Option Chars)
  | [] => []
  | .code s :: ps => some s :: frameOf ps
  | .lit _ :: ps => none :: frameOf ps

def LitsSafe (ps : List Piece) : Prop := ∀ b, Piece.lit b ∈ ps → QSafe b

/-- scan a frame without looking into the literals: a literal must sit where a `'` opens a plain string; after it the
scanner has just seen the closing quote -/
def frameRun : Ctl → List (Option Chars) → Option (Ctl × List Kind)
  | s, [] => some (s, [])
  | s, some t :: f =>
    match frameRun (run s t).1 f with
    | some (s', ks) => some (s', emitted (run s t).2 ++ ks)
    | none => none
  | s, none :: f =>
    if (step s '\'').1 = .inStr false then
      match frameRun (.strQ false) f with
      | some (s', ks) => some (s', emitted (step s '\'').2 ++ ks)
      | none => none
    else none

theorem frameRun_sound {s s' : Ctl} {ks : List Kind} {ps : List Piece}
    (hf : frameRun s (frameOf ps) = some (s', ks)) (hs : LitsSafe ps) :
    (run s (flat ps)).1 = s' ∧ emitted (run s (flat ps)).2 = ks := by
  induction ps generalizing s s' ks with
  | nil => simp [frameOf, frameRun] at hf; simp [flat, run, hf, emitted]
  | cons p ps ih =>
    have hs' : LitsSafe ps := fun b hb => hs b (by simp [hb])
    cases p with
    | code t =>
      simp only [frameOf, frameRun] at hf
      split at hf
      · next s1 k1 h1 =>
        simp at hf
        obtain ⟨ha, hb⟩ := ih h1 hs'
        simp [flat, Piece.chars, run_append, ha, hb, emitted_append, hf.1, hf.2]
      · simp at hf
    | lit b =>
      simp only [frameOf, frameRun] at hf
      split at hf
      · next hopen =>
        split at hf
        · next s1 k1 h1 =>
          simp at hf
          obtain ⟨ha, hb⟩ := ih h1 hs'
          have hq : QSafe b := hs b (by simp)
          have hstep : step s '\'' = (.inStr false, (step s '\'').2) := by rw [← hopen]
          have hr : run s (flat (.lit b :: ps)) =
              ((run (.strQ false) (flat ps)).1, (step s '\'').2 ++ (pushAll (unq b) ++ (run (.strQ false) (flat ps)).2)) := by
            simp only [flat, Piece.chars, List.cons_append, run]
            rw [hopen, List.append_assoc, run_append, run_inStr_qsafe hq]
            simp [run, step]
          simp [hr, ha, hb, emitted_append, emitted_pushAll, hf.1, hf.2]
        · simp at hf
      · simp at hf

/-- **frame theorem**: two renderings with the same frame and quote-safe literal bodies have the same token kinds, in
any context in which the frame's literals are well placed. -/
theorem frame_kinds {s : Ctl} {ps qs : List Piece} (post : Chars)
    (hf : frameOf ps = frameOf qs) (hp : LitsSafe ps) (hq : LitsSafe qs)
    (hw : (frameRun s (frameOf ps)).isSome) :
    kindsFrom s (flat ps ++ post) = kindsFrom s (flat qs ++ post) := by
  match h : frameRun s (frameOf ps), hw with
  | some (s', ks), _ =>
    obtain ⟨a1, a2⟩ := frameRun_sound h hp
    obtain ⟨b1, b2⟩ := frameRun_sound (hf ▸ h) hq
    simp [kindsFrom_append, a1, a2, b1, b2]

/-! ### digits -/

theorem digitChar_isDigit (d : Nat) : (digitChar d).isDigit = true := by
  unfold digitChar; split <;> decide

theorem natDigitsAux_isDigit (f n : Nat) (acc : Chars) (h : ∀ c ∈ acc, c.isDigit = true) :
    ∀ c ∈ natDigitsAux f n acc, c.isDigit = true := by
  induction f generalizing n acc with
  | zero => simpa [natDigitsAux] using h
  | succ f ih =>
    have h' : ∀ c ∈ digitChar n :: acc, c.isDigit = true := by
      intro c hc
      rcases List.mem_cons.mp hc with h1 | h1
      · subst h1; exact digitChar_isDigit n
      · exact h c h1
    unfold natDigitsAux
    split
    · exact h'
    · exact ih _ _ h'

theorem natDigits_isDigit (n : Nat) : ∀ c ∈ natDigits n, c.isDigit = true :=
  natDigitsAux_isDigit _ _ [] (by simp)

theorem natDigitsAux_ne_nil (f n : Nat) (acc : Chars) (hf : 0 < f) : natDigitsAux f n acc ≠ [] := by
  induction f generalizing n acc with
  | zero => omega
  | succ f ih =>
    unfold natDigitsAux
    split
    · simp
    · cases f with
      | zero => simp [natDigitsAux]
      | succ f' => exact ih _ _ (by omega)

theorem natDigits_ne_nil (n : Nat) : natDigits n ≠ [] := natDigitsAux_ne_nil _ _ _ (by omega)

theorem isDigit_ne_quote {c : Char} (h : c.isDigit = true) : c ≠ '\'' := by
  intro h'; subst h'; revert h; decide
theorem isDigit_ne_bslash {c : Char} (h : c.isDigit = true) : c ≠ '\\' := by
  intro h'; subst h'; revert h; decide

/-! ### JSON text is safe for `AppendJSON`: a backslash is never followed by a quote -/

def jsafe : Chars → Bool
  | [] => true
  | '\\' :: x :: t => x ≠ '\'' && jsafe t
  | '\\' :: [] => false
  | _ :: t => jsafe t

theorem jsafe_cons_ne {c : Char} (t : Chars) (h : c ≠ '\\') : jsafe (c :: t) = jsafe t := by
  rw [jsafe.eq_4]
  · intro x t' h1; exact absurd h1 h
  · intro h1; exact absurd h1 h

theorem jsafe_append {a b : Chars} (ha : jsafe a = true) (hb : jsafe b = true) : jsafe (a ++ b) = true := by
  induction a using jsafe.induct with
  | case1 => simpa
  | case2 x t ih =>
    simp [jsafe] at ha
    simp [jsafe, ha.1, ih ha.2]
  | case3 => simp [jsafe] at ha
  | case4 c t h1 h2 ih =>
    have hc : c ≠ '\\' := by
      intro hc; subst hc
      cases t with
      | nil => exact h2 rfl rfl
      | cons x t' => exact h1 x t' rfl rfl
    rw [jsafe_cons_ne t hc] at ha
    rw [List.cons_append, jsafe_cons_ne _ hc]
    exact ih ha

theorem jsafe_of_no_bslash {b : Chars} (h : ∀ c ∈ b, c ≠ '\\') : jsafe b = true := by
  induction b with
  | nil => rfl
  | cons c t ih =>
    rw [jsafe_cons_ne t (h c (by simp))]
    exact ih (fun d hd => h d (by simp [hd]))


theorem qsafe_jsonBody (t : Chars) (h : jsafe t = true) : QSafe (jsonBody t) := by
  fun_induction jsonBody t with
  | case1 => exact .nil
  | case2 t ih =>
    have : jsafe t = true := by simpa [jsafe] using h
    exact .cons _ _ (by decide) (.cons _ _ (by decide) (.cons _ _ (by decide) (.cons _ _ (by decide) (.cons _ _ (by decide) (.cons _ _ (by decide) (.cons _ _ (by decide) (ih this)))))))
  | case3 x t hx ih =>
    simp [jsafe] at h
    exact .cons _ _ (by decide) (.cons _ _ h.1 (ih h.2))
  | case4 t h1 h2 ih =>
    rw [jsafe_cons_ne t (by decide)] at h
    exact .pair _ (ih h)
  | case5 t h1 h2 hc ih =>
    rw [jsafe_cons_ne t (by decide)] at h
    exact ih h
  | case6 c t h1 h2 hc hn ih =>
    have hb : c ≠ '\\' := by
      intro hb; subst hb
      cases t with
      | nil => simp [jsafe] at h
      | cons x t' => exact h2 x t' rfl rfl
    rw [jsafe_cons_ne t hb] at h
    exact .cons _ _ hc (ih h)

theorem hexDigit_ne_bslash (n : Nat) : hexDigit n ≠ '\\' := by
  unfold hexDigit; split <;> decide

theorem jsafe_goJsonChar (c : Char) : jsafe (goJsonChar c) = true := by
  unfold goJsonChar
  repeat' split
  all_goals first
    | decide
    | (simp [jsafe, jsafe_cons_ne _ (hexDigit_ne_bslash _)])
    | skip
  · next h1 h2 _ _ _ _ _ _ _ _ => exact (by rw [jsafe_cons_ne _ h2]; rfl)



theorem jsafe_goJsonStrBody (s : Chars) : jsafe (goJsonStrBody s) = true := by
  induction s with
  | nil => rfl
  | cons c cs ih => exact jsafe_append (jsafe_goJsonChar c) ih

theorem jsafe_cons {c : Char} {t : Chars} (hc : c ≠ '\\') (h : jsafe t = true) : jsafe (c :: t) = true := by
  rw [jsafe_cons_ne t hc]; exact h

theorem jsafe_goJsonStr (s : Chars) : jsafe (goJsonStr s) = true :=
  jsafe_cons (by decide) (jsafe_append (jsafe_goJsonStrBody s) (by decide))

theorem jsafe_intDigits (n : Int) : jsafe (intDigits n) = true := by
  cases n with
  | ofNat n => exact jsafe_of_no_bslash (fun c hc => isDigit_ne_bslash (natDigits_isDigit n c hc))
  | negSucc n => exact jsafe_cons (by decide) (jsafe_of_no_bslash (fun c hc => isDigit_ne_bslash (natDigits_isDigit _ c hc)))

mutual
theorem jsafe_goJson : ∀ v : JV, jsafe (goJson v) = true
  | .null => by decide
  | .bool true => by decide
  | .bool false => by decide
  | .num n => by simpa [goJson] using jsafe_intDigits n
  | .str s => by simpa [goJson] using jsafe_goJsonStr s
  | .arr xs => by
    simp only [goJson]
    exact jsafe_cons (by decide) (jsafe_append (jsafe_goJsonList xs) (by decide))
  | .obj kvs => by
    simp only [goJson]
    exact jsafe_cons (by decide) (jsafe_append (jsafe_goJsonFields kvs) (by decide))
theorem jsafe_goJsonList : ∀ xs : List JV, jsafe (goJsonList xs) = true
  | [] => by decide
  | x :: xs => by
    simp only [goJsonList]
    exact jsafe_append (jsafe_goJson x) (jsafe_goJsonListTail xs)
theorem jsafe_goJsonListTail : ∀ xs : List JV, jsafe (goJsonListTail xs) = true
  | [] => by decide
  | x :: xs => by
    simp only [goJsonListTail]
    exact jsafe_cons (by decide) (jsafe_append (jsafe_goJson x) (jsafe_goJsonListTail xs))
theorem jsafe_goJsonFields : ∀ kvs : List (Chars × JV), jsafe (goJsonFields kvs) = true
  | [] => by decide
  | (k, v) :: kvs => by
    simp only [goJsonFields]
    exact jsafe_append (jsafe_append (jsafe_goJsonStr k) (jsafe_cons (by decide) (jsafe_goJson v))) (jsafe_goJsonFieldsTail kvs)
theorem jsafe_goJsonFieldsTail : ∀ kvs : List (Chars × JV), jsafe (goJsonFieldsTail kvs) = true
  | [] => by decide
  | (k, v) :: kvs => by
    simp only [goJsonFieldsTail]
    exact jsafe_cons (by decide) (jsafe_append (jsafe_append (jsafe_goJsonStr k) (jsafe_cons (by decide) (jsafe_goJson v))) (jsafe_goJsonFieldsTail kvs))
end



/-! ### address patterns -/

theorem mem_splitColonAux (cur a : Chars) (c : Char) (h : c ∈ cur ∨ c ∈ a) :
    c = ':' ∨ ∃ s ∈ splitColonAux cur a, c ∈ s := by
  induction a generalizing cur with
  | nil =>
    rcases h with h | h
    · exact .inr ⟨cur, by simp [splitColonAux], h⟩
    · simp at h
  | cons d t ih =>
    unfold splitColonAux
    split
    · next hd =>
      rcases h with h | h
      · exact .inr ⟨cur, by simp, h⟩
      · rcases List.mem_cons.mp h with h1 | h1
        · exact .inl (h1.trans hd)
        · rcases ih [] (.inr h1) with h2 | ⟨s, hs, hc⟩
          · exact .inl h2
          · exact .inr ⟨s, by simp [hs], hc⟩
    · next hd =>
      apply ih (cur ++ [d])
      rcases h with h | h
      · exact .inl (by simp [h])
      · rcases List.mem_cons.mp h with h1 | h1
        · exact .inl (by simp [h1])
        · exact .inr h1

theorem segAux_chars (p : Bool) (s : Chars) (h : segAux p s = true) : ∀ c ∈ s, isWordC c = true ∨ c = '-' := by
  induction s generalizing p with
  | nil => simp
  | cons d t ih =>
    unfold segAux at h
    intro c hc
    split at h
    · next hw =>
      rcases List.mem_cons.mp hc with h1 | h1
      · exact .inl (h1 ▸ hw)
      · exact ih _ h c h1
    · split at h
      · next hd =>
        rcases List.mem_cons.mp hc with h1 | h1
        · simp at hd; exact .inr (h1.trans hd.1)
        · exact ih _ h c h1
      · simp at h

theorem wordOrDash_ne_quote {c : Char} (h : isWordC c = true ∨ c = '-') : c ≠ '\'' := by
  intro h'; subst h'; revert h; decide

theorem wordOrDash_ne_bslash {c : Char} (h : isWordC c = true ∨ c = '-') : c ≠ '\\' := by
  intro h'; subst h'; revert h; decide

theorem acceptedSegs_seg {segs : List Chars} (h : acceptedSegs segs = true) {s : Chars} (hs : s ∈ segs) :
    ∀ c ∈ s, isWordC c = true ∨ c = '-' := by
  intro c hc
  have := (List.all_eq_true.mp h) s hs
  cases s with
  | nil => simp at hc
  | cons d t =>
    simp at this
    exact segAux_chars _ _ this c hc

theorem accepted_no_quote {a : Chars} (h : accepted a = true) : ∀ c ∈ a, c ≠ '\'' := by
  intro c hc
  rcases mem_splitColonAux [] a c (.inr hc) with h1 | ⟨s, hs, hcs⟩
  · subst h1; decide
  · exact wordOrDash_ne_quote (acceptedSegs_seg h hs c hcs)

theorem splitColonAux_append (cur s rest : Chars) (h : ∀ c ∈ s, c ≠ ':') :
    splitColonAux cur (s ++ rest) = splitColonAux (cur ++ s) rest := by
  induction s generalizing cur with
  | nil => simp
  | cons d t ih =>
    have hd : d ≠ ':' := h d (by simp)
    simp only [List.cons_append, splitColonAux, hd, if_false]
    rw [ih (cur ++ [d]) (fun c hc => h c (by simp [hc]))]
    simp

theorem splitColonAux_join (cur s : Chars) (ss : List Chars) (h : ∀ t ∈ s :: ss, ∀ c ∈ t, c ≠ ':') :
    splitColonAux cur (joinColon (s :: ss)) = (cur ++ s) :: ss := by
  induction ss generalizing cur s with
  | nil =>
    have := splitColonAux_append cur s [] (h s (by simp))
    simpa [joinColon, splitColonAux] using this
  | cons s' ss ih =>
    simp only [joinColon]
    rw [splitColonAux_append cur s _ (h s (by simp))]
    simp only [splitColonAux, if_true]
    rw [ih [] s' (fun t ht => h t (by simp [List.mem_cons] at ht ⊢; exact .inr ht))]
    simp

theorem splitColonAux_ne_nil (cur a : Chars) : splitColonAux cur a ≠ [] := by
  induction a generalizing cur with
  | nil => simp [splitColonAux]
  | cons d t ih => unfold splitColonAux; split <;> simp [ih]

theorem harmlessSeg_no_colon (s : Chars) : ∀ c ∈ harmlessSeg s, c ≠ ':' := by
  intro c hc
  simp [harmlessSeg] at hc
  rw [← hc.2]; decide

theorem splitColon_harmless (a : Chars) : splitColon (harmlessAddr a) = (splitColon a).map harmlessSeg := by
  unfold harmlessAddr splitColon
  cases h : splitColonAux [] a with
  | nil => exact absurd h (splitColonAux_ne_nil _ _)
  | cons s ss =>
    simp only [List.map_cons]
    rw [splitColonAux_join]
    · simp
    · intro t ht
      rcases List.mem_cons.mp ht with h1 | h1
      · subst h1; exact harmlessSeg_no_colon s
      · obtain ⟨u, _, hu⟩ := List.mem_map.mp h1
        subst hu; exact harmlessSeg_no_colon u

theorem segAux_true_as (s : Chars) : segAux true (harmlessSeg s) = true := by
  induction s with
  | nil => rfl
  | cons d t ih => simpa [harmlessSeg, segAux, isWordC] using ih

theorem validSegment_harmless (s : Chars) (h : s ≠ []) : validSegment (harmlessSeg s) = true := by
  cases s with
  | nil => exact absurd rfl h
  | cons d t =>
    have := segAux_true_as t
    simpa [validSegment, harmlessSeg, segAux, isWordC] using this

theorem harmlessSeg_isEmpty (s : Chars) : (harmlessSeg s).isEmpty = s.isEmpty := by
  cases s <;> simp [harmlessSeg]

theorem acceptedSegs_harmless (segs : List Chars) : acceptedSegs (segs.map harmlessSeg) = true := by
  apply List.all_eq_true.mpr
  intro s hs
  obtain ⟨u, _, hu⟩ := List.mem_map.mp hs
  subst hu
  cases u with
  | nil => simp [harmlessSeg]
  | cons d t => simp [validSegment_harmless (d :: t) (by simp)]

theorem anyEmpty_harmless (segs : List Chars) : (segs.map harmlessSeg).any List.isEmpty = segs.any List.isEmpty := by
  induction segs with
  | nil => rfl
  | cons s ss ih => simp [harmlessSeg_isEmpty, ih]



/-! ### control state only -/

def runS (s : Ctl) (cs : Chars) : Ctl := (run s cs).1

theorem runS_nil (s : Ctl) : runS s [] = s := rfl
theorem runS_cons (s : Ctl) (c : Char) (cs : Chars) : runS s (c :: cs) = runS (step s c).1 cs := rfl
theorem runS_append (s : Ctl) (a b : Chars) : runS s (a ++ b) = runS (runS s a) b := by
  simp [runS, run_append]

/-- `frameRun`, control state only -/
def frameEnd : Ctl → List (Option Chars) → Option Ctl
  | s, [] => some s
  | s, some t :: f => frameEnd (runS s t) f
  | s, none :: f => if (step s '\'').1 = .inStr false then frameEnd (.strQ false) f else none

theorem frameRun_fst (s : Ctl) (f : List (Option Chars)) : (frameRun s f).map Prod.fst = frameEnd s f := by
  induction f generalizing s with
  | nil => rfl
  | cons x f ih =>
    cases x with
    | some t =>
      simp only [frameRun, frameEnd, runS]
      rw [← ih (run s t).1]
      cases frameRun (run s t).1 f <;> rfl
    | none =>
      simp only [frameRun, frameEnd]
      split
      · rw [← ih (.strQ false)]
        cases frameRun (.strQ false) f <;> rfl
      · rfl

theorem frameRun_isSome {s : Ctl} {f : List (Option Chars)} {s' : Ctl} (h : frameEnd s f = some s') :
    (frameRun s f).isSome = true := by
  rw [← frameRun_fst] at h
  cases hf : frameRun s f with
  | none => simp [hf] at h
  | some r => rfl

theorem frameEnd_append (s : Ctl) (f g : List (Option Chars)) :
    frameEnd s (f ++ g) = (frameEnd s f).bind (fun s' => frameEnd s' g) := by
  induction f generalizing s with
  | nil => rfl
  | cons x f ih =>
    cases x with
    | some t => simp [frameEnd, ih]
    | none =>
      simp only [List.cons_append, frameEnd]
      split
      · exact ih _
      · rfl

theorem frameOf_append (ps qs : List Piece) : frameOf (ps ++ qs) = frameOf ps ++ frameOf qs := by
  induction ps with
  | nil => rfl
  | cons p ps ih => cases p <;> simp [frameOf, ih]

theorem litsSafe_append {ps qs : List Piece} (hp : LitsSafe ps) (hq : LitsSafe qs) : LitsSafe (ps ++ qs) := by
  intro b hb
  rcases List.mem_append.mp hb with h | h
  · exact hp b h
  · exact hq b h

theorem litsSafe_code (t : Chars) {ps : List Piece} (hp : LitsSafe ps) : LitsSafe (.code t :: ps) := by
  intro b hb
  rcases List.mem_cons.mp hb with h | h
  · cases h
  · exact hp b h

theorem litsSafe_lit {b : Chars} (hb : QSafe b) {ps : List Piece} (hp : LitsSafe ps) : LitsSafe (.lit b :: ps) := by
  intro b' hb'
  rcases List.mem_cons.mp hb' with h | h
  · cases h; exact hb
  · exact hp b' h

theorem litsSafe_nil : LitsSafe [] := by intro b hb; cases hb

/-! ### states in which plain identifier text leaves the scanner -/

def Plain : Ctl → Prop
  | .dflt => True
  | .ident _ => True
  | .num => True
  | _ => False

/-- a state from which `)` returns to the token boundary -/
def End : Ctl → Prop
  | .dflt => True
  | .ident _ => True
  | .num => True
  | .strQ false => True
  | _ => False

theorem end_of_plain {s : Ctl} (h : Plain s) : End s := by
  cases s <;> simp_all [Plain, End]

theorem end_paren {s : Ctl} (h : End s) (rest : Chars) : runS s (')' :: rest) = runS .dflt rest := by
  cases s with
  | strQ e => cases e <;> simp [End] at h; rfl
  | dflt => rfl
  | ident acc => rfl
  | num => rfl
  | _ => simp [End] at h

theorem plain_space {s : Ctl} (h : Plain s) (rest : Chars) : runS s (' ' :: rest) = runS .dflt rest := by
  cases s with
  | dflt => rfl
  | ident acc => rfl
  | num => rfl
  | _ => simp [Plain] at h

def plainKeyC (c : Char) : Bool := c.isAlphanum || c = '_' || c = '.'

/-- a column name: letters, digits, `_`, `.` -/
abbrev IdentKey (k : Chars) : Prop := ∀ c ∈ k, plainKeyC c = true



theorem classOf_digit {c : Char} (h : c.isDigit = true) : classOf c = .digit := by
  have h1 : isSpaceC c = false := by
    apply Bool.eq_false_iff.mpr
    intro hs
    simp [isSpaceC] at hs
    rcases hs with ((((hs | hs) | hs) | hs) | hs) | hs <;> (subst hs; revert h; decide)
  have h2 : c ≠ '\'' := by intro h'; subst h'; revert h; decide
  have h3 : c ≠ '"' := by intro h'; subst h'; revert h; decide
  have h4 : c ≠ '$' := by intro h'; subst h'; revert h; decide
  have h5 : c ≠ ':' := by intro h'; subst h'; revert h; decide
  simp [classOf, h1, h2, h3, h4, h5, h]

theorem step_num_digit {c : Char} (h : c.isDigit = true) : (step .num c).1 = .num := by
  simp [step, h]

theorem runS_num_digits {cs : Chars} (h : ∀ c ∈ cs, c.isDigit = true) : runS .num cs = .num := by
  induction cs with
  | nil => rfl
  | cons c cs ih =>
    rw [runS_cons, step_num_digit (h c (by simp))]
    exact ih (fun d hd => h d (by simp [hd]))

theorem runS_dflt_natDigits (n : Nat) : runS .dflt (natDigits n) = .num := by
  have hd := natDigits_isDigit n
  cases hn : natDigits n with
  | nil => exact absurd hn (natDigits_ne_nil n)
  | cons c cs =>
    rw [hn] at hd
    have : (step .dflt c).1 = .num := by simp [step, stepD, classOf_digit (hd c (by simp))]
    rw [runS_cons, this]
    exact runS_num_digits (fun d hd' => hd d (by simp [hd']))

theorem digit_not_op {c : Char} (h : c.isDigit = true) : isOpChar c = false := by
  apply Bool.eq_false_iff.mpr
  intro hs
  simp [isOpChar] at hs
  rcases hs with (((((((((((((((hs | hs) | hs) | hs) | hs) | hs) | hs) | hs) | hs) | hs) | hs) | hs) | hs) | hs) | hs) | hs) | hs <;>
    (subst hs; revert h; decide)

theorem runS_dflt_intDigits (n : Int) : runS .dflt (intDigits n) = .num := by
  cases n with
  | ofNat n => exact runS_dflt_natDigits n
  | negSucc n =>
    have hd := natDigits_isDigit (n + 1)
    simp only [intDigits]
    cases hn : natDigits (n + 1) with
    | nil => exact absurd hn (natDigits_ne_nil _)
    | cons c cs =>
      rw [hn] at hd
      have hc := hd c (by simp)
      have h0 : (step .dflt '-').1 = .op ['-'] := by decide
      have hne1 : c ≠ '-' := by intro h'; subst h'; revert hc; decide
      have hne2 : c ≠ '*' := by intro h'; subst h'; revert hc; decide
      have h1 : (step (.op ['-']) c).1 = .num := by
        simp [step, hne1, hne2, digit_not_op hc, stepD, classOf_digit hc]
      rw [runS_cons, h0, runS_cons, h1]
      exact runS_num_digits (fun d hd' => hd d (by simp [hd']))

/-! plain key characters -/

theorem plainKeyC_cases {c : Char} (h : plainKeyC c = true) :
    c.isDigit = true ∨ (classOf c = .istart ∧ c ≠ '\'') ∨ c = '.' := by
  by_cases hd : c.isDigit = true
  · exact .inl hd
  by_cases hdot : c = '.'
  · exact .inr (.inr hdot)
  refine .inr (.inl ?_)
  have hal : c.isAlpha = true ∨ c = '_' := by
    simp [plainKeyC, Char.isAlphanum, hd, hdot] at h
    exact h
  have hstart : isIdentStart c = true := by
    rcases hal with h1 | h1 <;> simp [isIdentStart, h1]
  have h1 : isSpaceC c = false := by
    apply Bool.eq_false_iff.mpr
    intro hs
    simp [isSpaceC] at hs
    rcases hs with ((((hs | hs) | hs) | hs) | hs) | hs <;> (subst hs; revert h; decide)
  have h2 : c ≠ '\'' := by intro h'; subst h'; revert h; decide
  have h3 : c ≠ '"' := by intro h'; subst h'; revert h; decide
  have h4 : c ≠ '$' := by intro h'; subst h'; revert h; decide
  have h5 : c ≠ ':' := by intro h'; subst h'; revert h; decide
  exact ⟨by simp [classOf, h1, h2, h3, h4, h5, hd, hstart], h2⟩

theorem step_plain {s : Ctl} {c : Char} (hs : Plain s) (hc : plainKeyC c = true) : Plain (step s c).1 := by
  rcases plainKeyC_cases hc with hd | ⟨hi, hq⟩ | hdot
  · have hq : c ≠ '\'' := isDigit_ne_quote hd
    cases s with
    | dflt => simp [step, stepD, classOf_digit hd, Plain]
    | ident acc => simp [step, stepIdent, hq, hd, Plain]
    | num => simp [step, hd, Plain]
    | _ => simp [Plain] at hs
  · have hst : isIdentStart c = true := by
      unfold classOf at hi
      repeat' split at hi
      all_goals first | (simp at hi; done) | assumption
    cases s with
    | dflt => simp [step, stepD, hi, Plain]
    | ident acc => simp [step, stepIdent, hq, hst, Plain]
    | num =>
      by_cases hd : c.isDigit = true
      · simp [step, hd, Plain]
      · have : c ≠ '.' := by intro h'; subst h'; revert hi; decide
        simp [step, hd, this, flushThen, stepD, hi, Plain]
    | _ => simp [Plain] at hs
  · subst hdot
    cases s with
    | dflt =>
      have : (step .dflt '.').1 = .dflt := by decide
      rw [this]; trivial
    | ident acc =>
      have : (step (.ident acc) '.').1 = .dflt := rfl
      rw [this]; trivial
    | num =>
      have : (step .num '.').1 = .num := by decide
      rw [this]; trivial
    | _ => simp [Plain] at hs

theorem runS_plain {s : Ctl} {k : Chars} (hs : Plain s) (hk : IdentKey k) : Plain (runS s k) := by
  induction k generalizing s with
  | nil => exact hs
  | cons c cs ih =>
    rw [runS_cons]
    exact ih (step_plain hs (hk c (by simp))) (fun d hd => hk d (by simp [hd]))

/-- `_array` appended to a column name continues or starts an identifier -/
theorem plain_underscore {s : Ctl} (h : Plain s) (rest : Chars) : ∃ acc, runS s ('_' :: rest) = runS (.ident acc) rest := by
  cases s with
  | dflt => exact ⟨['_'], rfl⟩
  | ident acc => exact ⟨acc ++ ['_'], rfl⟩
  | num => exact ⟨['_'], rfl⟩
  | _ => simp [Plain] at h



/-- `ps` (for a client value) and `ps'` (for its harmless twin) have the same frame, quote-safe literals, and the
literals of the frame are well placed when scanning starts in `s`; the scan ends in a state satisfying `P`. -/
structure GoodAt (s : Ctl) (P : Ctl → Prop) (ps ps' : List Piece) : Prop where
  frame : frameOf ps = frameOf ps'
  safe : LitsSafe ps
  safe' : LitsSafe ps'
  placed : ∃ s', frameEnd s (frameOf ps) = some s' ∧ P s'

theorem GoodAt.append {s s1 : Ctl} {P : Ctl → Prop} {ps ps' qs qs' : List Piece}
    (h1 : GoodAt s (· = s1) ps ps') (h2 : GoodAt s1 P qs qs') : GoodAt s P (ps ++ qs) (ps' ++ qs') := by
  refine ⟨?_, litsSafe_append h1.safe h2.safe, litsSafe_append h1.safe' h2.safe', ?_⟩
  · rw [frameOf_append, frameOf_append, h1.frame, h2.frame]
  · obtain ⟨a, ha, hb⟩ := h1.placed
    obtain ⟨b, hc, hd⟩ := h2.placed
    subst hb
    exact ⟨b, by rw [frameOf_append, frameEnd_append, ha]; exact hc, hd⟩

theorem GoodAt.mono {s : Ctl} {P Q : Ctl → Prop} {ps ps' : List Piece} (h : GoodAt s P ps ps') (hpq : ∀ x, P x → Q x) :
    GoodAt s Q ps ps' :=
  ⟨h.frame, h.safe, h.safe', by obtain ⟨a, ha, hb⟩ := h.placed; exact ⟨a, ha, hpq a hb⟩⟩

/-- one code piece shared by both renderings -/
theorem goodAt_code (s : Ctl) (t : Chars) : GoodAt s (· = runS s t) [.code t] [.code t] :=
  ⟨rfl, litsSafe_code t litsSafe_nil, litsSafe_code t litsSafe_nil, ⟨_, rfl, rfl⟩⟩

/-- one literal, at a token boundary -/
theorem goodAt_lit {b b' : Chars} (hb : QSafe b) (hb' : QSafe b') : GoodAt .dflt (· = .strQ false) [.lit b] [.lit b'] :=
  ⟨rfl, litsSafe_lit hb litsSafe_nil, litsSafe_lit hb' litsSafe_nil, ⟨_, rfl, rfl⟩⟩

/-! ### one bound argument -/

theorem argPiece_harmless_frame (v : JV) : frameOf [argPiece (harmlessJV v)] = frameOf [argPiece v] := by
  cases v with
  | null => rfl
  | bool b => cases b <;> rfl
  | num n => rfl
  | str s => rfl
  | arr xs => rfl
  | obj kvs => rfl

theorem argPiece_safe (v : JV) : LitsSafe [argPiece v] := by
  cases v with
  | null => exact litsSafe_code _ litsSafe_nil
  | bool b => cases b <;> exact litsSafe_code _ litsSafe_nil
  | num n => exact litsSafe_code _ litsSafe_nil
  | str s => exact litsSafe_lit (qsafe_quoteBody s) litsSafe_nil
  | arr xs => exact litsSafe_lit (qsafe_jsonBody _ (jsafe_goJson _)) litsSafe_nil
  | obj kvs => exact litsSafe_lit (qsafe_jsonBody _ (jsafe_goJson _)) litsSafe_nil

theorem argPiece_placed (v : JV) : ∃ s', frameEnd .dflt (frameOf [argPiece v]) = some s' ∧ End s' := by
  cases v with
  | null => exact ⟨.ident ['N', 'U', 'L', 'L'], by decide, trivial⟩
  | bool b =>
    cases b
    · exact ⟨.ident ['F', 'A', 'L', 'S', 'E'], by decide, trivial⟩
    · exact ⟨.ident ['T', 'R', 'U', 'E'], by decide, trivial⟩
  | num n => exact ⟨.num, by simp [argPiece, frameOf, frameEnd, runS_dflt_intDigits], trivial⟩
  | str s => exact ⟨.strQ false, rfl, trivial⟩
  | arr xs => exact ⟨.strQ false, rfl, trivial⟩
  | obj kvs => exact ⟨.strQ false, rfl, trivial⟩

theorem arg_good (v : JV) : GoodAt .dflt End [argPiece v] [argPiece (harmlessJV v)] :=
  ⟨(argPiece_harmless_frame v).symm, argPiece_safe v, argPiece_safe _, argPiece_placed v⟩



/-! ### `filterAccountAddress` -/

theorem runS_key_eq {K : Chars} (hK : IdentKey K) : runS .dflt (K ++ " = ".toList) = .dflt := by
  rw [runS_append]
  have hp : Plain (runS .dflt K) := runS_plain (s := .dflt) trivial hK
  have : " = ".toList = ' ' :: "= ".toList := by decide
  rw [this, plain_space hp]
  decide

theorem runS_key_array_open {K : Chars} (hK : IdentKey K) {s : Ctl} (hs : Plain s) :
    runS s ((" and ".toList ++ K) ++ "_array @@ (".toList) = .dflt := by
  rw [runS_append, runS_append]
  have h1 : " and ".toList = ' ' :: "and ".toList := by decide
  have h2 : runS .dflt "and ".toList = .dflt := by decide
  rw [h1, plain_space hs, h2]
  have hp : Plain (runS .dflt K) := runS_plain (s := .dflt) trivial hK
  have h3 : "_array @@ (".toList = '_' :: "array @@ (".toList := by decide
  rw [h3]
  obtain ⟨acc, hacc⟩ := plain_underscore hp "array @@ (".toList
  rw [hacc]
  rfl

theorem runS_length_head {K : Chars} (hK : IdentKey K) (n : Nat) :
    runS .dflt ((("jsonb_array_length(".toList ++ K) ++ "_array) = ".toList) ++ natDigits n) = .num := by
  rw [runS_append, runS_append, runS_append]
  have h0 : runS .dflt "jsonb_array_length(".toList = .dflt := by decide
  rw [h0]
  have hp : Plain (runS .dflt K) := runS_plain (s := .dflt) trivial hK
  have h3 : "_array) = ".toList = '_' :: "array) = ".toList := by decide
  rw [h3]
  obtain ⟨acc, hacc⟩ := plain_underscore hp "array) = ".toList
  rw [hacc]
  have : runS (.ident acc) "array) = ".toList = .dflt := rfl
  rw [this]
  exact runS_dflt_natDigits n

theorem segParts_frame (K : Chars) (i : Nat) (segs : List Chars) :
    frameOf (segParts K i (segs.map harmlessSeg)) = frameOf (segParts K i segs) := by
  induction segs generalizing i with
  | nil => rfl
  | cons s ss ih =>
    simp only [List.map_cons, segParts, harmlessSeg_isEmpty]
    split
    · exact ih _
    · simp [frameOf, ih]

theorem segParts_safe (K : Chars) (i : Nat) (segs : List Chars)
    (h : ∀ s ∈ segs, ∀ c ∈ s, isWordC c = true ∨ c = '-') : LitsSafe (segParts K i segs) := by
  induction segs generalizing i with
  | nil => exact litsSafe_nil
  | cons s ss ih =>
    have ih' := ih (i + 1) (fun t ht => h t (by simp [ht]))
    simp only [segParts]
    split
    · exact ih'
    · refine litsSafe_code _ (litsSafe_lit ?_ (litsSafe_code _ ih'))
      refine qsafe_append (qsafe_append (qsafe_append (qsafe_append ?_ ?_) ?_) ?_) ?_
      · exact qsafe_of_no_quote (by decide)
      · exact qsafe_of_no_quote (fun c hc => isDigit_ne_quote (natDigits_isDigit i c hc))
      · exact qsafe_of_no_quote (by decide)
      · exact qsafe_of_no_quote (fun c hc => wordOrDash_ne_quote (h s (by simp) c hc))
      · exact qsafe_of_no_quote (by decide)

theorem segParts_placed {K : Chars} (hK : IdentKey K) (i : Nat) (segs : List Chars) {s : Ctl} (hs : Plain s) :
    ∃ s', frameEnd s (frameOf (segParts K i segs)) = some s' ∧ Plain s' := by
  induction segs generalizing i s with
  | nil => exact ⟨s, rfl, hs⟩
  | cons t ss ih =>
    simp only [segParts]
    split
    · exact ih _ hs
    · simp only [frameOf, frameEnd]
      rw [runS_key_array_open hK hs]
      have h1 : (step .dflt '\'').1 = .inStr false := by decide
      have h2 : runS (.strQ false) ")::jsonpath".toList = .ident "jsonpath".toList := by decide
      rw [if_pos h1, h2]
      exact ih _ (s := .ident "jsonpath".toList) trivial

theorem address_good {a K : Chars} {ps : List Piece} (hK : IdentKey K) (h : addressPieces a K = .ok ps) :
    ∃ ps', addressPieces (harmlessAddr a) K = .ok ps' ∧ GoodAt .dflt End ps ps' := by
  unfold addressPieces at h ⊢
  simp only [splitColon_harmless, acceptedSegs_harmless, anyEmpty_harmless, List.length_map]
  by_cases hacc : acceptedSegs (splitColon a) = true
  · simp only [hacc] at h ⊢
    by_cases hw : (splitColon a).any List.isEmpty = true
    · simp only [hw] at h ⊢
      obtain rfl := Except.ok.inj h
      refine ⟨_, rfl, ?_, ?_, ?_, ?_⟩
      · simp [frameOf, segParts_frame]
      · exact litsSafe_code _ (segParts_safe K 0 _ (fun s hs => acceptedSegs_seg hacc hs))
      · exact litsSafe_code _ (segParts_safe K 0 _ (fun s hs => by
          obtain ⟨u, _, hu⟩ := List.mem_map.mp hs
          subst hu
          intro c hc
          simp [harmlessSeg] at hc
          rw [← hc.2]; decide))
      · simp only [frameOf, frameEnd]
        rw [runS_length_head hK]
        obtain ⟨s', h1, h2⟩ := segParts_placed hK 0 (splitColon a) (s := .num) trivial
        exact ⟨s', h1, end_of_plain h2⟩
    · simp only [hw] at h ⊢
      obtain rfl := Except.ok.inj h
      refine ⟨_, rfl, rfl, ?_, ?_, ?_⟩
      · exact litsSafe_code _ (litsSafe_lit (qsafe_of_no_quote (accepted_no_quote hacc)) litsSafe_nil)
      · refine litsSafe_code _ (litsSafe_lit (qsafe_of_no_quote (accepted_no_quote ?_)) litsSafe_nil)
        simp [accepted, splitColon_harmless, acceptedSegs_harmless]
      · refine ⟨.strQ false, ?_, trivial⟩
        simp only [frameOf, frameEnd]
        rw [runS_key_eq hK]
        decide
  · simp [hacc] at h


/-! ### `filterAccountAddressOnTransactions` -/

abbrev NoQuote (cs : Chars) : Prop := ∀ c ∈ cs, c ≠ '\''

theorem noQuote_append {a b : Chars} (ha : NoQuote a) (hb : NoQuote b) : NoQuote (a ++ b) := by
  intro c hc
  rcases List.mem_append.mp hc with h | h
  · exact ha c h
  · exact hb c h

theorem noQuote_cons {c : Char} {t : Chars} (hc : c ≠ '\'') (ht : NoQuote t) : NoQuote (c :: t) := by
  intro d hd
  rcases List.mem_cons.mp hd with h | h
  · exact h ▸ hc
  · exact ht d h

theorem fieldText_noQuote (fs : List (Chars × Chars)) (h : ∀ f ∈ fs, NoQuote f.1 ∧ NoQuote f.2) : NoQuote (fieldText fs) := by
  induction fs with
  | nil => intro c hc; cases hc
  | cons f r ih =>
    obtain ⟨k, v⟩ := f
    have hf := h (k, v) (by simp)
    have ihr := ih (fun g hg => h g (by simp [hg]))
    simp only [fieldText]
    refine noQuote_append (noQuote_append (noQuote_cons (by decide) hf.1) (noQuote_cons (by decide) (noQuote_cons (by decide) hf.2))) ?_
    cases r with
    | nil => intro c hc; cases hc
    | cons g r' => exact noQuote_cons (by decide) ihr

theorem segFields_noQuote (i : Nat) (segs : List Chars) (h : ∀ s ∈ segs, ∀ c ∈ s, isWordC c = true ∨ c = '-') :
    ∀ f ∈ segFields i segs, NoQuote f.1 ∧ NoQuote f.2 := by
  induction segs generalizing i with
  | nil => intro f hf; cases hf
  | cons s ss ih =>
    have ih' := ih (i + 1) (fun t ht => h t (by simp [ht]))
    simp only [segFields]
    split
    · exact ih'
    · intro f hf
      rcases List.mem_cons.mp hf with h1 | h1
      · subst h1
        refine ⟨fun c hc => isDigit_ne_quote (natDigits_isDigit i c hc), ?_⟩
        exact noQuote_cons (by decide) (noQuote_append (fun c hc => wordOrDash_ne_quote (h s (by simp) c hc)) (by decide))
      · exact ih' f h1

theorem mem_insertField {f g : Chars × Chars} {r : List (Chars × Chars)} (h : g ∈ insertField f r) : g = f ∨ g ∈ r := by
  induction r with
  | nil => simpa [insertField] using h
  | cons x r ih =>
    unfold insertField at h
    split at h
    · simpa using h
    · rcases List.mem_cons.mp h with h1 | h1
      · exact .inr (by simp [h1])
      · rcases ih h1 with h2 | h2
        · exact .inl h2
        · exact .inr (by simp [h2])

theorem mem_sortFields {g : Chars × Chars} {r : List (Chars × Chars)} (h : g ∈ sortFields r) : g ∈ r := by
  induction r with
  | nil => simpa [sortFields] using h
  | cons x r ih =>
    rcases mem_insertField h with h1 | h1
    · simp [h1]
    · simp [ih h1]

theorem txArrayJson_noQuote (segs : List Chars) (h : ∀ s ∈ segs, ∀ c ∈ s, isWordC c = true ∨ c = '-') :
    NoQuote (txArrayJson segs) := by
  unfold txArrayJson
  refine noQuote_cons (by decide) (noQuote_cons (by decide) (noQuote_append (fieldText_noQuote _ ?_) (by decide)))
  intro f hf
  rcases List.mem_append.mp (mem_sortFields hf) with h1 | h1
  · exact segFields_noQuote 0 segs h f h1
  · simp at h1
    subst h1
    exact ⟨fun c hc => isDigit_ne_quote (natDigits_isDigit _ c hc), (by decide : NoQuote ['n', 'u', 'l', 'l'])⟩

theorem harmless_segs_word (segs : List Chars) : ∀ s ∈ segs.map harmlessSeg, ∀ c ∈ s, isWordC c = true ∨ c = '-' := by
  intro s hs
  obtain ⟨u, _, hu⟩ := List.mem_map.mp hs
  subst hu
  intro c hc
  simp [harmlessSeg] at hc
  rw [← hc.2]; decide

theorem accepted_harmless (a : Chars) : accepted (harmlessAddr a) = true := by
  simp [accepted, splitColon_harmless, acceptedSegs_harmless]

theorem addressOnTx_good {a : Chars} {source destination : Bool} {ps : List Piece}
    (h : addressOnTxPieces a source destination = .ok ps) :
    ∃ ps', addressOnTxPieces (harmlessAddr a) source destination = .ok ps' ∧ GoodAt .dflt End ps ps' := by
  unfold addressOnTxPieces at h ⊢
  simp only [splitColon_harmless, acceptedSegs_harmless, anyEmpty_harmless]
  by_cases hacc : acceptedSegs (splitColon a) = true
  · simp only [hacc] at h ⊢
    have hq1 : QSafe (txArrayJson (splitColon a)) :=
      qsafe_of_no_quote (txArrayJson_noQuote _ (fun s hs => acceptedSegs_seg hacc hs))
    have hq2 : QSafe (txArrayJson ((splitColon a).map harmlessSeg)) :=
      qsafe_of_no_quote (txArrayJson_noQuote _ (harmless_segs_word _))
    have hq3 : QSafe ('[' :: '"' :: a ++ ['"', ']']) :=
      qsafe_of_no_quote (noQuote_append (noQuote_cons (by decide) (noQuote_cons (by decide) (accepted_no_quote hacc))) (by decide))
    have hq4 : QSafe ('[' :: '"' :: harmlessAddr a ++ ['"', ']']) :=
      qsafe_of_no_quote (noQuote_append (noQuote_cons (by decide) (noQuote_cons (by decide) (accepted_no_quote (accepted_harmless a)))) (by decide))
    by_cases hw : (splitColon a).any List.isEmpty = true
    · simp only [hw] at h ⊢
      obtain rfl := Except.ok.inj h
      refine ⟨_, rfl, ?_⟩
      cases source <;> cases destination
      · exact ⟨rfl, litsSafe_nil, litsSafe_nil, ⟨.dflt, rfl, trivial⟩⟩
      · exact ⟨rfl, litsSafe_code _ (litsSafe_lit hq1 litsSafe_nil), litsSafe_code _ (litsSafe_lit hq2 litsSafe_nil), ⟨.strQ false, rfl, trivial⟩⟩
      · exact ⟨rfl, litsSafe_code _ (litsSafe_lit hq1 litsSafe_nil), litsSafe_code _ (litsSafe_lit hq2 litsSafe_nil), ⟨.strQ false, rfl, trivial⟩⟩
      · exact ⟨rfl, litsSafe_code _ (litsSafe_lit hq1 (litsSafe_code _ (litsSafe_code _ (litsSafe_lit hq1 litsSafe_nil)))),
          litsSafe_code _ (litsSafe_lit hq2 (litsSafe_code _ (litsSafe_code _ (litsSafe_lit hq2 litsSafe_nil)))), ⟨.strQ false, rfl, trivial⟩⟩
    · simp only [hw] at h ⊢
      obtain rfl := Except.ok.inj h
      refine ⟨_, rfl, ?_⟩
      cases source <;> cases destination
      · exact ⟨rfl, litsSafe_nil, litsSafe_nil, ⟨.dflt, rfl, trivial⟩⟩
      · exact ⟨rfl, litsSafe_code _ (litsSafe_lit hq3 litsSafe_nil), litsSafe_code _ (litsSafe_lit hq4 litsSafe_nil), ⟨.strQ false, rfl, trivial⟩⟩
      · exact ⟨rfl, litsSafe_code _ (litsSafe_lit hq3 litsSafe_nil), litsSafe_code _ (litsSafe_lit hq4 litsSafe_nil), ⟨.strQ false, rfl, trivial⟩⟩
      · exact ⟨rfl, litsSafe_code _ (litsSafe_lit hq3 (litsSafe_code _ (litsSafe_code _ (litsSafe_lit hq3 litsSafe_nil)))),
          litsSafe_code _ (litsSafe_lit hq4 (litsSafe_code _ (litsSafe_code _ (litsSafe_lit hq4 litsSafe_nil)))), ⟨.strQ false, rfl, trivial⟩⟩
  · simp [hacc] at h


/-! ### leaves of the query contexts -/

theorem code_arg_good (t : Chars) (ht : runS .dflt t = .dflt) (v : JV) :
    GoodAt .dflt End [.code t, argPiece v] [.code t, argPiece (harmlessJV v)] := by
  have h1 := goodAt_code .dflt t
  rw [ht] at h1
  exact h1.append (arg_good v)

theorem code_lit_good (t : Chars) (ht : runS .dflt t = .dflt) {b b' : Chars} (hb : QSafe b) (hb' : QSafe b') :
    GoodAt .dflt (· = .strQ false) [.code t, .lit b] [.code t, .lit b'] := by
  have h1 := goodAt_code .dflt t
  rw [ht] at h1
  exact h1.append (goodAt_lit hb hb')

theorem code_after_lit_good (t : Chars) (ht : runS (.strQ false) t = .dflt) :
    GoodAt (.strQ false) (· = .dflt) [.code t] [.code t] := by
  have h1 := goodAt_code (.strQ false) t
  rw [ht] at h1
  exact h1

theorem runS_cmp (name : Chars) (hn : ∀ o ∈ [['='], ['>', '='], ['>'], ['<', '='], ['<'], []], runS .dflt (name ++ o ++ [' ']) = .dflt)
    (op : String) : runS .dflt (name ++ opSql op ++ [' ']) = .dflt := by
  unfold opSql
  repeat' split
  all_goals exact hn _ (by simp)

theorem identKey_accounts : IdentKey "accounts.address".toList := by decide
theorem identKey_balances : IdentKey "account_address".toList := by decide

theorem metadata_good (col k : Chars) (v : JV) (hcol : runS .dflt (col ++ " @> ".toList) = .dflt) :
    GoodAt .dflt End [.code (col ++ " @> ".toList), .lit (jsonBody (goJson (.obj [(k, v)])))]
      [.code (col ++ " @> ".toList), .lit (jsonBody (goJson (.obj [(harmlessChars k, harmlessJV v)])))] :=
  (code_lit_good _ hcol (qsafe_jsonBody _ (jsafe_goJson _)) (qsafe_jsonBody _ (jsafe_goJson _))).mono
    (fun x hx => by subst hx; trivial)

set_option maxRecDepth 8000 in
theorem runS_balanceTail (op : String) : runS (.strQ false) (balanceTail op) = .dflt := by
  unfold balanceTail opSql
  repeat' split
  all_goals decide

set_option maxRecDepth 8000 in
theorem balanceOf_good (asset ledger : Chars) (op : String) (v : JV) :
    GoodAt .dflt End
      [.code (balanceHead ++ "asset = ".toList), .lit (quoteBody asset),
       .code " and account_address = accounts.address and ledger = ".toList, .lit (quoteBody ledger),
       .code (balanceTail op), argPiece v]
      [.code (balanceHead ++ "asset = ".toList), .lit (quoteBody (harmlessChars asset)),
       .code " and account_address = accounts.address and ledger = ".toList, .lit (quoteBody ledger),
       .code (balanceTail op), argPiece (harmlessJV v)] := by
  have a1 := code_lit_good (balanceHead ++ "asset = ".toList) (by decide) (qsafe_quoteBody asset) (qsafe_quoteBody (harmlessChars asset))
  have a2 := code_after_lit_good " and account_address = accounts.address and ledger = ".toList (by decide)
  have a3 := goodAt_lit (qsafe_quoteBody ledger) (qsafe_quoteBody ledger)
  have a4 := code_after_lit_good (balanceTail op) (runS_balanceTail op)
  exact a1.append (a2.append (a3.append (a4.append (arg_good v))))

set_option maxRecDepth 8000 in
theorem balance_good (ledger : Chars) (op : String) (v : JV) :
    GoodAt .dflt End
      [.code (balanceHead ++ "account_address = accounts.address and ledger = ".toList), .lit (quoteBody ledger),
       .code (balanceTail op), argPiece v]
      [.code (balanceHead ++ "account_address = accounts.address and ledger = ".toList), .lit (quoteBody ledger),
       .code (balanceTail op), argPiece (harmlessJV v)] := by
  have a1 := code_lit_good (balanceHead ++ "account_address = accounts.address and ledger = ".toList) (by decide)
    (qsafe_quoteBody ledger) (qsafe_quoteBody ledger)
  have a4 := code_after_lit_good (balanceTail op) (runS_balanceTail op)
  exact a1.append (a4.append (arg_good v))

theorem leaf_good {ep : Endpoint} {pit : Bool} {ledger : Chars} {key : FKey} {op : String} {v : JV} {ps : List Piece}
    (h : leafPieces ep pit ledger key op v = .ok ps) :
    ∃ ps', leafPieces ep pit ledger (harmlessKey key) op (harmlessValue key v) = .ok ps' ∧ GoodAt .dflt End ps ps' := by
  cases ep <;> cases key
  all_goals simp only [leafPieces, harmlessKey, harmlessValue, isAddressKey] at h ⊢
  all_goals try (cases h; done)
  -- accounts.address
  · split at h
    · cases h
    · cases v <;> simp only [isStr] at h ⊢ <;> try (cases h; done)
      simp only [*, if_false]
      exact address_good identKey_accounts h
  -- accounts.metadata
  · split at h
    · cases h
    · obtain rfl := Except.ok.inj h
      simp only [*, if_false]
      refine ⟨_, rfl, ?_⟩
      cases pit
      · exact metadata_good _ _ _ (by decide)
      · exact metadata_good _ _ _ (by decide)
  -- accounts.balanceOf
  · obtain rfl := Except.ok.inj h
    exact ⟨_, rfl, balanceOf_good _ _ _ _⟩
  -- accounts.balance
  · obtain rfl := Except.ok.inj h
    exact ⟨_, rfl, balance_good _ _ _⟩
  -- transactions.account / source / destination
  · split at h
    · cases h
    · cases v <;> simp only [isStr] at h ⊢ <;> try (cases h; done)
      simp only [*, if_false]
      exact addressOnTx_good h
  · split at h
    · cases h
    · cases v <;> simp only [isStr] at h ⊢ <;> try (cases h; done)
      simp only [*, if_false]
      exact addressOnTx_good h
  · split at h
    · cases h
    · cases v <;> simp only [isStr] at h ⊢ <;> try (cases h; done)
      simp only [*, if_false]
      exact addressOnTx_good h
  -- transactions.metadata
  · split at h
    · cases h
    · obtain rfl := Except.ok.inj h
      simp only [*, if_false]
      refine ⟨_, rfl, ?_⟩
      cases pit
      · exact metadata_good _ _ _ (by decide)
      · exact metadata_good _ _ _ (by decide)
  -- transactions.reference / timestamp
  · obtain rfl := Except.ok.inj h
    exact ⟨_, rfl, code_arg_good _ (runS_cmp _ (by decide) op) v⟩
  · obtain rfl := Except.ok.inj h
    exact ⟨_, rfl, code_arg_good _ (runS_cmp _ (by decide) op) v⟩
  -- balances.address
  · split at h
    · cases h
    · cases v <;> simp only [isStr] at h ⊢ <;> try (cases h; done)
      simp only [*, if_false]
      exact address_good identKey_balances h
  -- balances.metadata
  · split at h
    · cases h
    · obtain rfl := Except.ok.inj h
      simp only [*, if_false]
      refine ⟨_, rfl, ?_⟩
      cases pit
      · exact metadata_good _ _ _ (by decide)
      · exact metadata_good _ _ _ (by decide)
  -- logs.date
  · obtain rfl := Except.ok.inj h
    exact ⟨_, rfl, code_arg_good _ (runS_cmp _ (by decide) op) v⟩


/-! ### whole filter expressions -/

theorem GoodAt.append' {s : Ctl} {P Q : Ctl → Prop} {ps ps' qs qs' : List Piece}
    (h1 : GoodAt s P ps ps') (h2 : ∀ s1, P s1 → GoodAt s1 Q qs qs') : GoodAt s Q (ps ++ qs) (ps' ++ qs') := by
  obtain ⟨a, ha, hb⟩ := h1.placed
  have g := h2 a hb
  refine ⟨?_, litsSafe_append h1.safe g.safe, litsSafe_append h1.safe' g.safe', ?_⟩
  · rw [frameOf_append, frameOf_append, h1.frame, g.frame]
  · obtain ⟨b, hc, hd⟩ := g.placed
    exact ⟨b, by rw [frameOf_append, frameEnd_append, ha]; exact hc, hd⟩

theorem close_good {s : Ctl} (hs : End s) : GoodAt s End [.code [')']] [.code [')']] :=
  ⟨rfl, litsSafe_code _ litsSafe_nil, litsSafe_code _ litsSafe_nil,
    ⟨.dflt, by simp only [frameOf, frameEnd]; rw [end_paren hs]; rfl, trivial⟩⟩

theorem sep_good {s : Ctl} (hs : End s) (isAnd : Bool) :
    GoodAt s (· = .dflt) [.code (if isAnd then ") and (".toList else ") or (".toList)]
      [.code (if isAnd then ") and (".toList else ") or (".toList)] := by
  refine ⟨rfl, litsSafe_code _ litsSafe_nil, litsSafe_code _ litsSafe_nil, ⟨.dflt, ?_, rfl⟩⟩
  simp only [frameOf, frameEnd]
  cases isAnd
  · have : ") or (".toList = ')' :: " or (".toList := by decide
    simp only [Bool.false_eq_true, if_false, this]
    rw [end_paren hs]; rfl
  · have : ") and (".toList = ')' :: " and (".toList := by decide
    simp only [if_true, this]
    rw [end_paren hs]; rfl

mutual
theorem expr_good (ep : Endpoint) (pit : Bool) (ledger : Chars) : ∀ (e : Expr) (ps : List Piece),
    exprPieces ep pit ledger e = .ok ps →
    ∃ ps', exprPieces ep pit ledger (harmlessExpr e) = .ok ps' ∧ GoodAt .dflt End ps ps'
  | .leaf k op v, ps, h => by
    simp only [exprPieces, harmlessExpr] at h ⊢
    exact leaf_good h
  | .set isAnd [], ps, h => by
    simp only [exprPieces, harmlessExpr, harmlessExprs] at h ⊢
    obtain rfl := Except.ok.inj h
    exact ⟨_, rfl, rfl, litsSafe_code _ litsSafe_nil, litsSafe_code _ litsSafe_nil, ⟨.num, by decide, trivial⟩⟩
  | .set isAnd (e :: es), ps, h => by
    simp only [exprPieces, harmlessExpr, harmlessExprs] at h ⊢
    cases h1 : exprPieces ep pit ledger e with
    | error r => simp [h1] at h
    | ok p1 =>
      cases h2 : setTail ep pit ledger isAnd es with
      | error r => simp [h1, h2] at h
      | ok q1 =>
        simp only [h1, h2] at h
        obtain rfl := Except.ok.inj h
        obtain ⟨p1', e1, g1⟩ := expr_good ep pit ledger e p1 h1
        obtain ⟨q1', e2, g2⟩ := tail_good ep pit ledger isAnd es q1 h2
        refine ⟨_, by rw [e1, e2], ?_⟩
        have g0 : GoodAt .dflt (· = .dflt) [.code ['(']] [.code ['(']] := goodAt_code .dflt ['(']
        exact g0.append (g1.append' g2)
  | .not e, ps, h => by
    simp only [exprPieces, harmlessExpr] at h ⊢
    cases h1 : exprPieces ep pit ledger e with
    | error r => simp [h1] at h
    | ok p1 =>
      simp only [h1] at h
      obtain rfl := Except.ok.inj h
      obtain ⟨p1', e1, g1⟩ := expr_good ep pit ledger e p1 h1
      refine ⟨_, by rw [e1], ?_⟩
      have g0 : GoodAt .dflt (· = .dflt) [.code "not (".toList] [.code "not (".toList] := by
        have := goodAt_code .dflt "not (".toList
        rwa [show runS .dflt "not (".toList = .dflt by decide] at this
      exact g0.append (g1.append' (fun s hs => close_good hs))
theorem tail_good (ep : Endpoint) (pit : Bool) (ledger : Chars) (isAnd : Bool) : ∀ (es : List Expr) (qs : List Piece),
    setTail ep pit ledger isAnd es = .ok qs →
    ∃ qs', setTail ep pit ledger isAnd (harmlessExprs es) = .ok qs' ∧ ∀ s, End s → GoodAt s End qs qs'
  | [], qs, h => by
    simp only [setTail, harmlessExprs] at h ⊢
    obtain rfl := Except.ok.inj h
    exact ⟨_, rfl, fun s hs => close_good hs⟩
  | e :: es, qs, h => by
    simp only [setTail, harmlessExprs] at h ⊢
    cases h1 : exprPieces ep pit ledger e with
    | error r => simp [h1] at h
    | ok p1 =>
      cases h2 : setTail ep pit ledger isAnd es with
      | error r => simp [h1, h2] at h
      | ok q1 =>
        simp only [h1, h2] at h
        obtain rfl := Except.ok.inj h
        obtain ⟨p1', e1, g1⟩ := expr_good ep pit ledger e p1 h1
        obtain ⟨q1', e2, g2⟩ := tail_good ep pit ledger isAnd es q1 h2
        refine ⟨_, by rw [e1, e2], ?_⟩
        intro s hs
        exact (sep_good hs isAnd).append (g1.append' g2)
end

/-- from pieces to strings, in any context that ends at a token boundary -/
theorem good_shape {P : Ctl → Prop} {ps ps' : List Piece} (h : GoodAt .dflt P ps ps') (pre post : String)
    (hpre : (run .dflt pre.toList).1 = .dflt) :
    shape (lex (pre ++ String.ofList (flat ps) ++ post)) = shape (lex (pre ++ String.ofList (flat ps') ++ post)) := by
  obtain ⟨s', hs', _⟩ := h.placed
  have hk := frame_kinds (s := .dflt) post.toList h.frame h.safe h.safe' (frameRun_isSome hs')
  simp only [lex, lexL, String.toList_append, String.toList_ofList, shape_lexFrom, List.append_assoc]
  rw [kindsFrom_append, kindsFrom_append .dflt pre.toList, hpre, hk]


end SqlText
