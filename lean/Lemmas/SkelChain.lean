import Model.Engine.SkelSys
import Model.Engine.SkelAuto
import Model.Engine.Chain
/-! The system that interprets the regenerated skeleton (`SkelSys`) refines the `Chain` machine (C05).

What `Chain` needs from a control path is the shape of its commit: under the commander's mutex, `allocTxid → stampTxid
→ chainLog → append(the chained log)` (or `chainLog → append` for a log without transaction), at most once; a preview's
`peekTxid` in a section of its own, after which nothing is committed.  `crun` is that automaton; `Props/Skeleton.lean`
evaluates it on every path of the generated skeleton. -/
namespace Engine.Skel.ChainRef
open Engine Engine.Skel Engine.Skel.Sys

theorem crun_snoc (ph : CPh) (xs : Path) (x : Item) :
    crun ph (xs ++ [x]) = (crun ph xs).bind (fun ph' => cstep ph' (ctok x)) := by
  induction xs generalizing ph with
  | nil => simp [crun]; cases cstep ph (ctok x) <;> simp [crun]
  | cons y ys ih =>
    simp only [List.cons_append, crun]
    cases cstep ph (ctok y) with
    | none => simp
    | some ph' => exact ih ph'

def inMu : CPh → Bool
  | .in0 | .inP | .inA | .inS | .inC _ | .inD => true
  | _ => false

theorem ctok_append_ne (o : String) : (if o = "chained" then CTok.appendC else CTok.appendX) ≠ CTok.other := by
  split <;> simp

/-- an item outside the commit vocabulary leaves everything `Chain` looks at alone -/
theorem effSh_other (sh : Shared) (j : Job) (rg : Regs) (x : Item) (hx : ctok x = .other) :
    (effSh sh j rg x).store = sh.store ∧ (effSh sh j rg x).queue = sh.queue ∧ (effSh sh j rg x).last = sh.last ∧
    (effSh sh j rg x).lastTx = sh.lastTx ∧ (effSh sh j rg x).mu = sh.mu := by
  unfold effSh
  split <;> simp_all [ctok, ctok_append_ne]

theorem effRg_other (sh : Shared) (j : Job) (rg : Regs) (x : Item) (hx : ctok x = .other) :
    (effRg sh j rg x).txid = rg.txid ∧ (effRg sh j rg x).chained = rg.chained := by
  unfold effRg
  split <;> simp_all [ctok]

def isChainEv : Ev → Bool
  | .committed .. => true
  | .gate .. => true
  | .crash => true
  | _ => false

theorem chain_ignores (s : Chain.S) (ev : Ev) (h : isChainEv ev = false) : Chain.step s ev = .ok s := by
  cases ev <;> simp_all [isChainEv, Chain.step]

theorem evs_other (sh : Shared) (j : Job) (rg : Regs) (x : Item) (hx : ctok x = .other) :
    ∀ ev ∈ evsOf sh j rg x, isChainEv ev = false := by
  unfold evsOf
  split <;> (try split) <;> simp_all [ctok, isChainEv, ctok_append_ne]
  intro ev x y z _ h
  subst h
  rfl

theorem runOn_ignored (s : Chain.S) (evs : List Ev) (h : ∀ ev ∈ evs, isChainEv ev = false) :
    runOn Chain.step s evs = .ok s := by
  induction evs with
  | nil => rfl
  | cons e es ih =>
    simp only [runOn, chain_ignores s e (h e (List.mem_cons_self ..))]
    exact ih (fun ev hev => h ev (List.mem_cons_of_mem _ hev))

-- ------------------------------------------------------------------------------------------------ the invariant

/-- the transaction-id register has not been written yet -/
def clean : CPh → Bool
  | .out0 | .in0 | .inA => true
  | _ => false

/-- how the commander's position relates to the `Chain` machine's while a request is inside the commit section -/
def Coup (sh : Shared) (s : Chain.S) (rg : Regs) : CPh → Prop
  | .inA => sh.last = s.last ∧ sh.lastTx = s.lastTx + 1
  | .inS => sh.last = s.last ∧ sh.lastTx = s.lastTx + 1 ∧ rg.txid = some (s.lastTx + 1).toNat
  | .inC t => ∃ l, rg.chained = some l ∧ l.id = nextId s.last ∧ l.prevId = s.last ∧ l.hashOk = true ∧ sh.last = some l.id ∧
      (if t then l.txid = some (s.lastTx + 1).toNat ∧ sh.lastTx = s.lastTx + 1 else l.txid = none ∧ sh.lastTx = s.lastTx)
  | _ => sh.last = s.last ∧ sh.lastTx = s.lastTx

structure PInv (sh : Shared) (s : Chain.S) (p : Proc) (ph : CPh) : Prop where
  run : crun .out0 p.done = some ph
  rest : (crun ph p.todo).isSome = true
  mu : inMu ph = true ↔ sh.mu = some p.job.a
  clean : clean ph = true → p.regs.txid = none
  coup : inMu ph = true → Coup sh s p.regs ph

structure CInv (st : State) (s : Chain.S) : Prop where
  dur : s.durable = st.sh.store
  pend : s.pending = st.sh.queue.map (·.2)
  nodup : (st.procs.map (·.job.a)).Nodup
  lt : -1 ≤ s.lastTx
  procs : ∀ p ∈ st.procs, p.alive = true → ∃ ph, PInv st.sh s p ph
  base : st.sh.mu = none → st.sh.last = s.last ∧ st.sh.lastTx = s.lastTx
  owner : ∀ a, st.sh.mu = some a → ∃ p ∈ st.procs, p.alive = true ∧ p.job.a = a

theorem coup_congr (sh sh' : Shared) (s s' : Chain.S) (rg : Regs) (ph : CPh)
    (h1 : sh'.last = sh.last) (h2 : sh'.lastTx = sh.lastTx) (h3 : s'.last = s.last) (h4 : s'.lastTx = s.lastTx)
    (h : Coup sh s rg ph) : Coup sh' s' rg ph := by
  cases ph <;> simp only [Coup, h1, h2, h3, h4] at h ⊢ <;> exact h

/-- a request outside the commit section is indifferent to what happens to the position -/
theorem pinv_outside (sh sh' : Shared) (s s' : Chain.S) (q : Proc) (ph : CPh) (h : PInv sh s q ph)
    (hout : inMu ph = false) (hmu : sh'.mu ≠ some q.job.a) : PInv sh' s' q ph :=
  ⟨h.run, h.rest, by simp [hout, hmu], h.clean, by simp [hout]⟩

theorem nextId_eq (s : Chain.S) : Chain.nextId s = nextId s.last := by
  unfold Chain.nextId nextId; rfl

theorem countTx_eq (ls : List LogE) : Chain.countTx ls = countTx ls := rfl

theorem ctok_cases (x : Item) :
    ctok x = .other ∨ (∃ o v, x = .act .muLock o v) ∨ (∃ o v, x = .act .muUnlock o v) ∨ (∃ o v, x = .act .allocTxid o v) ∨
    (∃ o v, x = .act .stampTxid o v) ∨ (∃ o v, x = .act .chainLog o v) ∨ (∃ og cs o v, x = .act (.append og cs) o v) ∨
    (∃ o v, x = .act .peekTxid o v) := by
  cases x with
  | act a o v => cases a <;> simp [ctok]
  | _ => simp [ctok]

/-- one item of one request: `Chain` accepts what it emits, and the request's own part of the invariant moves with
its phase -/
theorem item_step (sh : Shared) (s : Chain.S) (j : Job) (rg : Regs) (x : Item) (ph ph' : CPh)
    (hen : enabled sh j rg x = true) (hph : cstep ph (ctok x) = some ph')
    (hmu : inMu ph = true ↔ sh.mu = some j.a) (hclean : clean ph = true → rg.txid = none)
    (hcoup : inMu ph = true → Coup sh s rg ph) (hbase : sh.mu = none → sh.last = s.last ∧ sh.lastTx = s.lastTx)
    (hlt : -1 ≤ s.lastTx) (hpend : s.pending = sh.queue.map (·.2)) (hdur : s.durable = sh.store) :
    ∃ s', runOn Chain.step s (evsOf sh j rg x) = .ok s' ∧
      s'.durable = (effSh sh j rg x).store ∧ s'.pending = (effSh sh j rg x).queue.map (·.2) ∧ -1 ≤ s'.lastTx ∧
      (inMu ph' = true ↔ (effSh sh j rg x).mu = some j.a) ∧ (clean ph' = true → (effRg sh j rg x).txid = none) ∧
      (inMu ph' = true → Coup (effSh sh j rg x) s' (effRg sh j rg x) ph') ∧
      ((effSh sh j rg x).mu = none → (effSh sh j rg x).last = s'.last ∧ (effSh sh j rg x).lastTx = s'.lastTx) ∧
      ((effSh sh j rg x).mu = sh.mu ∨ (effSh sh j rg x).mu = some j.a ∨ (sh.mu = some j.a ∧ (effSh sh j rg x).mu = none)) ∧
      (inMu ph = false → sh.mu ≠ none →
        s' = s ∧ (effSh sh j rg x).last = sh.last ∧ (effSh sh j rg x).lastTx = sh.lastTx ∧ (effSh sh j rg x).mu = sh.mu) := by
  rcases ctok_cases x with hx | ⟨o, v, rfl⟩ | ⟨o, v, rfl⟩ | ⟨o, v, rfl⟩ | ⟨o, v, rfl⟩ | ⟨o, v, rfl⟩ | ⟨og, cs, o, v, rfl⟩ | ⟨o, v, rfl⟩
  · -- outside the commit vocabulary
    obtain ⟨e1, e2, e3, e4, e5⟩ := effSh_other sh j rg x hx
    obtain ⟨r1, r2⟩ := effRg_other sh j rg x hx
    rw [hx] at hph
    have : ph' = ph := by cases ph <;> simp [cstep] at hph <;> exact hph.symm
    subst this
    refine ⟨s, runOn_ignored s _ (evs_other sh j rg x hx), by rw [e1]; exact hdur, by rw [e2]; exact hpend, hlt, by rw [e5]; exact hmu,
      by rw [r1]; exact hclean, ?_, by rw [e5, e3, e4]; exact hbase, .inl e5, fun _ _ => ⟨rfl, e3, e4, e5⟩⟩
    intro hin
    have := hcoup hin
    cases ph' <;> simp only [Coup, e3, e4, r1, r2] at this ⊢ <;> exact this
  · -- muLock
    have h0 : ph = .out0 ∧ ph' = .in0 := by cases ph <;> simp [cstep, ctok] at hph <;> simp [hph]
    obtain ⟨rfl, rfl⟩ := h0
    have hm : sh.mu = none := by simpa [enabled] using hen
    have hb := hbase hm
    refine ⟨s, rfl, ?_⟩
    simp [effSh, effRg, inMu, clean, Coup, hdur, hpend, hlt, hb, hm]
    exact hclean rfl
  · -- muUnlock
    have hm : sh.mu = some j.a := by simpa [enabled] using hen
    have hin : inMu ph = true := hmu.2 hm
    have hc := hcoup hin
    refine ⟨s, rfl, ?_⟩
    cases ph <;> simp [cstep, ctok] at hph <;> subst hph <;>
      simp [effSh, effRg, inMu, clean, Coup, hdur, hpend, hlt, hm] at hc hin ⊢
    · exact ⟨hclean rfl, hc⟩
    · exact hc
    · exact hc
  · -- allocTxid
    have h0 : ph = .in0 ∧ ph' = .inA := by cases ph <;> simp [cstep, ctok] at hph <;> simp [hph]
    obtain ⟨rfl, rfl⟩ := h0
    have hm : sh.mu = some j.a := hmu.1 rfl
    have hc := hcoup rfl
    refine ⟨s, rfl, ?_⟩
    simp [effSh, effRg, inMu, clean, Coup, hdur, hpend, hlt, hm] at hc ⊢
    exact ⟨hclean rfl, hc.1, by rw [hc.2]⟩
  · -- stampTxid
    have h0 : ph = .inA ∧ ph' = .inS := by cases ph <;> simp [cstep, ctok] at hph <;> simp [hph]
    obtain ⟨rfl, rfl⟩ := h0
    have hm : sh.mu = some j.a := hmu.1 rfl
    have hc := hcoup rfl
    refine ⟨s, rfl, ?_⟩
    simp [effSh, effRg, inMu, clean, Coup, hdur, hpend, hlt, hm] at hc ⊢
    exact ⟨hc.1, hc.2, by rw [hc.2]⟩
  · -- chainLog
    have hin : inMu ph = true := by cases ph <;> simp [cstep, ctok] at hph <;> rfl
    have hm : sh.mu = some j.a := hmu.1 hin
    have hc := hcoup hin
    refine ⟨s, rfl, ?_⟩
    cases ph <;> simp [cstep, ctok] at hph <;> subst hph <;>
      simp [effSh, effRg, inMu, clean, Coup, hdur, hpend, hlt, hm] at hc ⊢
    · have := hclean rfl
      simp [hc.1, hc.2, this]
    · simp [hc.1, hc.2.1, hc.2.2]
  · -- append
    have hog : og = "chained" := by
      by_cases h : og = "chained"
      · exact h
      · simp only [ctok, h, if_false] at hph
        cases ph <;> simp [cstep] at hph
    subst hog
    simp only [ctok, if_true] at hph
    have hin : inMu ph = true := by cases ph <;> simp [cstep] at hph <;> rfl
    have hm : sh.mu = some j.a := hmu.1 hin
    have hc := hcoup hin
    cases ph <;> simp [cstep] at hph
    rename_i t
    subst hph
    obtain ⟨l, hl, hid, hprev, hhash, hlast, ht⟩ := hc
    simp only [evsOf, effSh, effRg, if_true, hl, Option.getD_some, runOn, Chain.step, nextId_eq, hid, hprev, hhash, ne_eq,
      not_true_eq_false, if_false, Bool.not_true]
    cases t
    · simp only [if_false, Bool.false_eq_true] at ht
      simp [ht.1, ht.2, inMu, clean, Coup, hdur, hpend, hlt, hm, hlast, hid]
    · simp only [if_true] at ht
      have hnn : ((s.lastTx + 1).toNat : Int) = s.lastTx + 1 := Int.toNat_of_nonneg (by omega)
      simp [ht.1, ht.2, hnn, inMu, clean, Coup, hdur, hpend, hm, hlast, hid]
      omega
  · -- peekTxid
    have h0 : ph = .in0 ∧ ph' = .inP := by cases ph <;> simp [cstep, ctok] at hph <;> simp [hph]
    obtain ⟨rfl, rfl⟩ := h0
    have hm : sh.mu = some j.a := hmu.1 rfl
    have hc := hcoup rfl
    refine ⟨s, rfl, ?_⟩
    simp [effSh, effRg, inMu, clean, Coup, hdur, hpend, hlt, hm] at hc ⊢
    exact hc

theorem crun_cons_some (ph : CPh) (x : Item) (rest : Path) (h : (crun ph (x :: rest)).isSome = true) :
    ∃ ph', cstep ph (ctok x) = some ph' ∧ (crun ph' rest).isSome = true := by
  simp only [crun] at h
  cases hc : cstep ph (ctok x) with
  | none => simp [hc] at h
  | some ph' => exact ⟨ph', rfl, by simpa [hc] using h⟩

theorem others_ne (pre post : List Proc) (P q : Proc) (hnd : ((pre ++ P :: post).map (·.job.a)).Nodup)
    (hq : q ∈ pre ∨ q ∈ post) : q.job.a ≠ P.job.a := by
  simp only [List.map_append, List.map_cons] at hnd
  have h1 := List.nodup_append.1 hnd
  rcases hq with hq | hq
  · intro he
    exact h1.2.2 _ (List.mem_map_of_mem hq) _ (List.mem_cons_self ..) he
  · intro he
    have h2 := (List.nodup_cons.1 h1.2.1).1
    exact h2 (he ▸ List.mem_map_of_mem hq)

/-- the requests that did not move keep their part of the invariant -/
theorem other_pinv (sh sh' : Shared) (s s' : Chain.S) (q : Proc) (phq : CPh) (a : Nat) (ph : CPh)
    (hq : PInv sh s q phq) (hne : q.job.a ≠ a) (hmu : inMu ph = true ↔ sh.mu = some a)
    (hmuch : sh'.mu = sh.mu ∨ sh'.mu = some a ∨ (sh.mu = some a ∧ sh'.mu = none))
    (hframe : inMu ph = false → sh.mu ≠ none → s' = s ∧ sh'.last = sh.last ∧ sh'.lastTx = sh.lastTx ∧ sh'.mu = sh.mu) :
    PInv sh' s' q phq := by
  by_cases hin : inMu phq = true
  · have hm := hq.mu.1 hin
    have hout : inMu ph = false := by
      cases h : inMu ph with
      | false => rfl
      | true =>
        have := hmu.1 h
        rw [hm] at this
        exact absurd (Option.some.inj this) hne
    obtain ⟨rfl, e1, e2, e3⟩ := hframe hout (by rw [hm]; simp)
    exact ⟨hq.run, hq.rest, by rw [e3]; exact hq.mu, hq.clean, fun h => coup_congr sh sh' s' s' q.regs phq e1 e2 rfl rfl (hq.coup h)⟩
  · have hin' : inMu phq = false := by simpa using hin
    refine pinv_outside sh sh' s s' q phq hq hin' ?_
    have hnm : sh.mu ≠ some q.job.a := fun h => hin (hq.mu.2 h)
    rcases hmuch with h | h | ⟨_, h⟩
    · rw [h]; exact hnm
    · rw [h]; intro he; exact hne (Option.some.inj he).symm
    · rw [h]; simp

/-- **the step lemma**: whatever the system does next, `Chain` accepts the events and the invariant is kept -/
theorem step_inv (adm : Job → Path → Prop) (hadm : ∀ j p, adm j p → (crun .out0 p).isSome = true)
    (st st' : State) (evs : List Ev) (h : Step adm st evs st') (s : Chain.S) (hi : CInv st s) :
    ∃ s', runOn Chain.step s evs = .ok s' ∧ CInv st' s' := by
  cases h with
  | item pre post j rg dn x rest hp hen hq =>
    have hmemP : (⟨j, rg, dn, true, x :: rest⟩ : Proc) ∈ st.procs := by rw [hp]; simp
    obtain ⟨ph, hP⟩ := hi.procs _ hmemP rfl
    obtain ⟨ph', hph, hrest⟩ := crun_cons_some ph x rest hP.rest
    obtain ⟨s', hrun, hdur, hpend, hlt, hmu', hclean', hcoup', hbase', hmuch, hframe⟩ :=
      item_step st.sh s j rg x ph ph' hen hph hP.mu hP.clean hP.coup hi.base hi.lt hi.pend hi.dur
    refine ⟨s', hrun, ⟨hdur, hpend, ?_, hlt, ?_, hbase', ?_⟩⟩
    · have := hi.nodup
      rw [hp] at this
      simpa using this
    · intro q hq hal
      simp only [List.mem_append, List.mem_cons] at hq
      have hnd := hi.nodup
      rw [hp] at hnd
      rcases hq with hq | rfl | hq
      · obtain ⟨phq, hQ⟩ := hi.procs q (by rw [hp]; simp [hq]) hal
        exact ⟨phq, other_pinv st.sh _ s s' q phq j.a ph hQ (others_ne pre post _ q hnd (.inl hq)) hP.mu hmuch hframe⟩
      · exact ⟨ph', ⟨by simp [crun_snoc, hP.run, hph], hrest, hmu', hclean', hcoup'⟩⟩
      · obtain ⟨phq, hQ⟩ := hi.procs q (by rw [hp]; simp [hq]) hal
        exact ⟨phq, other_pinv st.sh _ s s' q phq j.a ph hQ (others_ne pre post _ q hnd (.inr hq)) hP.mu hmuch hframe⟩
    · intro a ha
      rcases hmuch with h | h | ⟨_, h⟩
      · rw [h] at ha
        obtain ⟨q, hq, hal, hqa⟩ := hi.owner a ha
        rw [hp] at hq
        simp only [List.mem_append, List.mem_cons] at hq
        rcases hq with hq | rfl | hq
        · exact ⟨q, by simp [hq], hal, hqa⟩
        · exact ⟨⟨j, effRg st.sh j rg x, dn ++ [x], true, rest⟩, by simp, rfl, hqa⟩
        · exact ⟨q, by simp [hq], hal, hqa⟩
      · rw [h] at ha
        exact ⟨⟨j, effRg st.sh j rg x, dn ++ [x], true, rest⟩, by simp, rfl, (Option.some.inj ha)⟩
      · rw [h] at ha; cases ha
  | gate n ok h0 hn =>
    have hlen : s.pending.length = st.sh.queue.length := by rw [hi.pend]; simp
    have hcond : ¬ (n = 0 ∨ n > s.pending.length) := by omega
    cases ok with
    | false =>
      refine ⟨s, ?_, ?_⟩
      · simp [runOn, Chain.step, hcond]
      · simpa using hi
    | true =>
      refine ⟨{ s with durable := s.durable ++ s.pending.take n, pending := s.pending.drop n }, ?_, ?_⟩
      · simp [runOn, Chain.step, hcond]
      · simp only [if_true]
        refine ⟨by simp [persist, hi.dur, hi.pend, List.map_take], by simp [persist, hi.pend, List.map_drop], hi.nodup, hi.lt, ?_, hi.base, hi.owner⟩
        intro q hq hal
        obtain ⟨phq, hQ⟩ := hi.procs q hq hal
        exact ⟨phq, hQ.run, hQ.rest, hQ.mu, hQ.clean, fun h => coup_congr st.sh (persist st.sh n) s _ q.regs phq rfl rfl rfl rfl (hQ.coup h)⟩
  | crash =>
    refine ⟨Chain.reinit s.durable, by simp [runOn, Chain.step], ?_⟩
    refine ⟨by simp [Chain.reinit, restart, hi.dur], by simp [Chain.reinit, restart], ?_, ?_, ?_, ?_, ?_⟩
    · have := hi.nodup
      simpa [List.map_map, Function.comp_def] using this
    · simp only [Chain.reinit]; omega
    · intro q hq hal
      simp only [List.mem_map] at hq
      obtain ⟨q0, _, rfl⟩ := hq
      simp at hal
    · intro _
      simp [Chain.reinit, restart, hi.dur, countTx_eq]
    · intro a ha
      simp [restart] at ha
  | arrive j p hfresh hadm' =>
    refine ⟨s, rfl, ⟨hi.dur, hi.pend, ?_, hi.lt, ?_, hi.base, ?_⟩⟩
    · simp only [List.map_append, List.map_cons, List.map_nil]
      refine List.nodup_append.2 ⟨hi.nodup, by simp, ?_⟩
      intro a ha b hb
      simp only [List.mem_map] at ha
      obtain ⟨q, hq, rfl⟩ := ha
      simp only [List.mem_singleton] at hb
      subst hb
      exact hfresh q hq
    · intro q hq hal
      simp only [List.mem_append, List.mem_singleton] at hq
      rcases hq with hq | rfl
      · exact hi.procs q hq hal
      · refine ⟨.out0, rfl, hadm j p hadm', ?_, fun _ => rfl, by simp [inMu]⟩
        simp only [inMu, Bool.false_eq_true, false_iff]
        intro hm
        obtain ⟨q, hq, _, hqa⟩ := hi.owner j.a hm
        exact hfresh q hq hqa
    · intro a ha
      obtain ⟨q, hq, hal, hqa⟩ := hi.owner a ha
      exact ⟨q, by simp [hq], hal, hqa⟩

theorem init_inv (store : List LogE) : CInv (init store) (Chain.reinit store) := by
  refine ⟨rfl, rfl, by simp [init], ?_, ?_, ?_, ?_⟩
  · simp only [Chain.reinit]; omega
  · intro p hp; simp [init] at hp
  · intro _; simp [init, restart, Chain.reinit, countTx_eq]
  · intro a ha; simp [init, restart] at ha

/-- **`SkelSys` refines `Chain`**: every trace of the system that interprets admitted control paths is accepted -/
theorem run_refines (adm : Job → Path → Prop) (hadm : ∀ j p, adm j p → (crun .out0 p).isSome = true)
    (st0 st : State) (tr : List Ev) (h : Run adm st0 tr st) (s0 : Chain.S) (hi : CInv st0 s0) :
    ∃ s, runOn Chain.step s0 tr = .ok s ∧ CInv st s := by
  induction h with
  | nil => exact ⟨s0, rfl, hi⟩
  | cons st1 st2 evs tr _ hstep ih =>
    obtain ⟨s1, h1, hi1⟩ := ih
    obtain ⟨s2, h2, hi2⟩ := step_inv adm hadm st1 st2 evs hstep s1 hi1
    exact ⟨s2, by rw [runOn_append, h1]; exact h2, hi2⟩

end Engine.Skel.ChainRef
