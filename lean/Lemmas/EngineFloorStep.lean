import Lemmas.EngineFloor
/-! Every event the `Floor` component accepts preserves its invariant. -/
namespace Engine.Floor
open Engine

variable {grant : Nat → Option Int} {F : List Entry}

theorem step_inv_lock (s : S) (a : Nat) (r w : List Acct) (s' : S) (hi : Inv grant F s)
    (h : step grant s (.lock a r w) = .ok s') : Inv grant F s' := by
  simp only [step] at h
  split at h
  · rename_i hc
    cases h
    exact hi.extend_holders [⟨a, r, w⟩] rfl rfl rfl rfl (hi.excl.snoc hc)
  · cases h
    exact hi.extend_holders [] (by simp) rfl rfl rfl hi.excl

theorem step_inv_unlock (s : S) (a : Nat) (s' : S) (hi : Inv grant F s)
    (h : step grant s (.unlock a) = .ok s') : Inv grant F s' := by
  simp only [step] at h
  split at h
  · cases h
  · rename_i hany
    have hown : ∀ e ∈ s.pending, e.by_ ≠ a := by simpa using hany
    cases h
    have hi1 : Inv grant F { s with holders := s.holders.filter (·.a ≠ a), reads := s.reads.filter (·.1 ≠ a) } :=
      hi.release a hown rfl rfl rfl rfl
    obtain ⟨ext, he⟩ := recheck_fst_prefix (s.holders.filter (·.a ≠ a)) s.queue
    exact hi1.extend_holders ext he rfl rfl rfl (recheck_excl _ _ hi1.excl)

theorem step_inv_balRead (s : S) (a : Nat) (x : Acct) (asset : String) (v : Int) (s' : S) (hi : Inv grant F s)
    (h : step grant s (.balRead a x asset v) = .ok s') : Inv grant F s' := by
  simp only [step] at h
  split at h
  · cases h; exact hi
  · rename_i hw
    split at h
    · cases h
    · rename_i hany
      have hown : ∀ e ∈ s.pending, e.by_ ≠ a := by simpa using hany
      split at h
      · cases h
      · rename_i h0 hf
        split at h
        · cases h
        · split at h
          · cases h
          · rename_i hv
            have hv' : v = balanceOf s.durable x asset := by simpa using hv
            cases h
            exact hi.read a x asset v h0 hw hown hf hv' rfl rfl rfl rfl

/-- what an accepted commit of a request holding `h0` has been checked for -/
theorem commit_floor_of_reads (s : S) (a : Nat) (h0 : Hold) (ps : List Posting) (hi : Inv grant F s)
    (hf : holdOf s a = some h0)
    (hcov : ∀ p ∈ ps, Covers h0 p)
    (hread : ∀ p ∈ ps, p.src ≠ "world" → (readOf s a p.src p.asset).isSome = true)
    (hfl : floorOk (grant a) (fun x asset => (readOf s a x asset).getD 0) ps = true) :
    floorOk (grant a) (fun x asset => balanceOf (s.durable ++ s.pending) x asset) ps = true := by
  rw [← hfl]
  apply floorOk_congr
  intro p hp hw
  have hsome := hread p hp hw
  rw [Option.isSome_iff_exists] at hsome
  obtain ⟨v, hv⟩ := hsome
  have hmem := readOf_some hv
  have hx : p.src ∈ h0.w := by
    cases (hcov p hp).1 with
    | inl h1 => exact absurd h1 hw
    | inr h1 => exact h1
  have := hi.cur (a, p.src, p.asset, v) hmem h0 hf hx
  simp only [hv, Option.getD_some]
  exact this.symm

theorem step_inv_committed (s : S) (a : Nat) (l : LogE) (lt : Int) (s' : S) (hi : Inv grant F s)
    (h : step grant s (.committed a l lt) = .ok s') : Inv grant F s' := by
  simp only [step] at h
  split at h
  · -- no locks held: only a log without postings
    split at h
    · rename_i hemp
      have hnil : l.postings = [] := by simpa using hemp
      cases h
      refine hi.append_entry ⟨l, a⟩ rfl rfl rfl (fun r hr => hr) ?_ ?_ ?_
      · intro p hp; simp only [hnil] at hp; cases hp
      · intro r _ h' _ _ p hp; simp only [hnil] at hp; cases hp
      · simp only [hnil, floorOk_nil]
    · cases h
  · rename_i h0 hf
    split at h
    · cases h
    · rename_i hcov
      split at h
      · cases h
      · rename_i hread
        split at h
        · cases h
        · rename_i hfl
          simp only [Bool.not_eq_true, Bool.not_eq_false'] at hcov hread hfl
          rw [List.all_eq_true] at hcov hread
          have hcov' : ∀ p ∈ l.postings, Covers h0 p := fun p hp => covers_of_check (hcov p hp)
          have hread' : ∀ p ∈ l.postings, p.src ≠ "world" → (readOf s a p.src p.asset).isSome = true := by
            intro p hp hw
            have := hread p hp
            simpa only [hw, decide_false, Bool.false_or] using this
          have hfl' : floorOk (grant a) (fun x asset => (readOf s a x asset).getD 0) l.postings = true := hfl
          obtain ⟨hmem, ha⟩ := find_hold_some hf
          cases h
          refine hi.append_entry ⟨l, a⟩ rfl rfl rfl (fun r hr => (List.mem_filter.mp hr).1) ?_ ?_ ?_
          · intro p hp; exact ⟨h0, hmem, ha, hcov' p hp⟩
          · intro r hr h' hf' hx p hp
            have hr' := List.mem_filter.mp hr
            have hne : r.1 ≠ a := by simpa using hr'.2
            obtain ⟨hmem', ha'⟩ := find_hold_some hf'
            exact untouched_of_excl hi.excl hmem' hmem (by rw [ha, ha']; exact hne) hx (hi.rdWorld r hr'.1) (hcov' p hp)
          · exact commit_floor_of_reads s a h0 l.postings hi hf hcov' hread' hfl'

theorem step_inv_gate (s : S) (n : Nat) (ok : Bool) (s' : S) (hi : Inv grant F s)
    (h : step grant s (.gate n ok) = .ok s') : Inv grant F s' := by
  simp only [step] at h
  split at h
  · cases h
  · split at h
    · cases h; exact hi.persist n rfl rfl rfl rfl
    · cases h; exact hi

/-- **every accepted event preserves the invariant** -/
theorem step_inv (s : S) (e : Ev) (s' : S) (hi : Inv grant F s) (h : step grant s e = .ok s') : Inv grant F s' := by
  cases e with
  | lock a r w => exact step_inv_lock s a r w s' hi h
  | unlock a => exact step_inv_unlock s a s' hi h
  | balRead a x asset v => exact step_inv_balRead s a x asset v s' hi h
  | committed a l lt => exact step_inv_committed s a l lt s' hi h
  | gate n ok => exact step_inv_gate s n ok s' hi h
  | crash =>
    simp only [step] at h
    cases h
    exact hi.crashed rfl rfl rfl rfl
  | resume a pt =>
    simp only [step] at h
    split at h
    · cases h
    · cases h; exact hi
  | arrive _ _ => simp only [step] at h; cases h; exact hi
  | finish _ _ _ _ => simp only [step] at h; cases h; exact hi
  | ikRead _ _ _ => simp only [step] at h; cases h; exact hi
  | refRead _ _ _ => simp only [step] at h; cases h; exact hi
  | txRead _ _ _ _ => simp only [step] at h; cases h; exact hi
  | publish _ _ => simp only [step] at h; cases h; exact hi
  | taken _ _ _ _ => simp only [step] at h; cases h; exact hi

end Engine.Floor
