import Model.Lock
/-! Helper lemmas for C15 (tables, exactness, recheck).  Core only. -/
namespace Lock

/-! ### read table -/

/-- well-formed read table: every counter positive, every key once -/
def WF : RTable → Prop
  | [] => True
  | (b, n) :: t => 0 < n ∧ rget t b = 0 ∧ WF t

theorem rget_rinc (m : RTable) (a x : Acct) :
    rget (rinc m a) x = rget m x + (if a = x then 1 else 0) := by
  induction m with
  | nil => simp [rinc, rget]
  | cons e t ih =>
    obtain ⟨b, n⟩ := e
    by_cases hba : b = a
    · subst hba
      by_cases hbx : b = x <;> simp [rinc, rget, hbx]
    · by_cases hbx : b = x
      · subst hbx
        have : ¬ a = b := fun h => hba h.symm
        simp [rinc, rget, hba, this]
      · simp [rinc, rget, hba, hbx, ih]

theorem WF_rinc (m : RTable) (a : Acct) (h : WF m) : WF (rinc m a) := by
  induction m with
  | nil => simp [rinc, WF, rget]
  | cons e t ih =>
    obtain ⟨b, n⟩ := e
    obtain ⟨hn, hb, ht⟩ := h
    by_cases hba : b = a
    · simp [rinc, hba, WF]; subst hba; exact ⟨hb, ht⟩
    · have : ¬ a = b := fun h => hba h.symm
      simp [rinc, hba, WF, hn, ih ht, rget_rinc, hb, this]

theorem rget_rdec (m : RTable) (a x : Acct) (h : WF m) :
    rget (rdec m a) x = rget m x - (if a = x then 1 else 0) := by
  induction m with
  | nil => simp [rdec, rget]
  | cons e t ih =>
    obtain ⟨b, n⟩ := e
    obtain ⟨hn, hb, ht⟩ := h
    by_cases hba : b = a
    · subst hba
      by_cases hn1 : n ≤ 1
      · by_cases hbx : b = x
        · subst hbx; simp [rdec, rget, hn1, hb]
        · simp [rdec, rget, hn1, hbx]
      · by_cases hbx : b = x <;> simp [rdec, rget, hn1, hbx]
    · by_cases hbx : b = x
      · subst hbx
        have : ¬ a = b := fun h => hba h.symm
        simp [rdec, rget, hba, this]
      · simp [rdec, rget, hba, hbx, ih ht]

theorem WF_rdec (m : RTable) (a : Acct) (h : WF m) : WF (rdec m a) := by
  induction m with
  | nil => simp [rdec, WF]
  | cons e t ih =>
    obtain ⟨b, n⟩ := e
    obtain ⟨hn, hb, ht⟩ := h
    by_cases hba : b = a
    · by_cases hn1 : n ≤ 1
      · simp [rdec, hba, hn1, ht]
      · simp [rdec, hba, hn1, WF]; subst hba; exact ⟨by omega, hb, ht⟩
    · simp [rdec, hba, WF, hn, ih ht, rget_rdec _ _ _ ht, hb]

theorem rhas_iff (m : RTable) (a : Acct) (h : WF m) : rhas m a = true ↔ 0 < rget m a := by
  induction m with
  | nil => simp [rhas, rget]
  | cons e t ih =>
    obtain ⟨b, n⟩ := e
    obtain ⟨hn, _, ht⟩ := h
    by_cases hba : b = a
    · simp [rhas, rget, hba, hn]
    · simp [rhas, rget, hba, ih ht]

theorem foldl_rinc (l : List Acct) (m : RTable) (h : WF m) :
    WF (l.foldl rinc m) ∧ ∀ x, rget (l.foldl rinc m) x = rget m x + l.count x := by
  induction l generalizing m with
  | nil => simp [h]
  | cons a l ih =>
    obtain ⟨h1, h2⟩ := ih (rinc m a) (WF_rinc m a h)
    refine ⟨by simpa using h1, fun x => ?_⟩
    simp only [List.foldl_cons, h2, rget_rinc, List.count_cons, beq_iff_eq]
    omega

theorem foldl_rdec (l : List Acct) (m : RTable) (h : WF m) :
    WF (l.foldl rdec m) ∧ ∀ x, rget (l.foldl rdec m) x = rget m x - l.count x := by
  induction l generalizing m with
  | nil => simp [h]
  | cons a l ih =>
    obtain ⟨h1, h2⟩ := ih (rdec m a) (WF_rdec m a h)
    refine ⟨by simpa using h1, fun x => ?_⟩
    simp only [List.foldl_cons, h2, rget_rdec _ _ _ h, List.count_cons, beq_iff_eq]
    omega

/-! ### write table -/

theorem mem_winsert (w : WTable) (a x : Acct) : x ∈ winsert w a ↔ x = a ∨ x ∈ w := by
  unfold winsert
  by_cases h : a ∈ w
  · simp only [List.contains_iff_mem, h, if_true]
    constructor
    · exact Or.inr
    · rintro (rfl | h') <;> assumption
  · simp [h]

theorem mem_foldl_winsert (l : List Acct) (w : WTable) (x : Acct) :
    x ∈ l.foldl winsert w ↔ x ∈ l ∨ x ∈ w := by
  induction l generalizing w with
  | nil => simp
  | cons a l ih => simp only [List.foldl_cons, ih, mem_winsert, List.mem_cons]; grind

theorem mem_wdel (w : WTable) (a x : Acct) : x ∈ wdel w a ↔ x ∈ w ∧ x ≠ a := by
  simp [wdel]

theorem mem_foldl_wdel (l : List Acct) (w : WTable) (x : Acct) :
    x ∈ l.foldl wdel w ↔ x ∈ w ∧ x ∉ l := by
  induction l generalizing w with
  | nil => simp
  | cons a l ih => simp only [List.foldl_cons, ih, mem_wdel, List.mem_cons]; grind

/-! ### the tables are exactly what the live requests own -/

/-- how many read locks on `a` the requests of `l` own together -/
def rsum : List Req → Acct → Nat
  | [], _ => 0
  | h :: t, a => h.read.count a + rsum t a

theorem rsum_append (l1 l2 : List Req) (a : Acct) : rsum (l1 ++ l2) a = rsum l1 a + rsum l2 a := by
  induction l1 with
  | nil => simp [rsum]
  | cons h t ih => simp [rsum, ih]; omega

theorem rsum_pos_iff (l : List Req) (a : Acct) : 0 < rsum l a ↔ ∃ h ∈ l, a ∈ h.read := by
  induction l with
  | nil => simp [rsum]
  | cons h t ih =>
    simp only [rsum, List.mem_cons, exists_eq_or_imp, ← ih, ← List.count_pos_iff (a := a) (l := h.read)]
    omega

structure Exact (t : Tables) (live : List Req) : Prop where
  wf : WF t.rl
  rd : ∀ a, rget t.rl a = rsum live a
  wr : ∀ a, a ∈ t.wl ↔ ∃ h ∈ live, a ∈ h.write

def Excl (l : List Req) : Prop := l.Pairwise (fun x y => conflict x y = false)

theorem conflict_comm (x y : Req) : conflict x y = conflict y x := by
  simp [conflict, Bool.or_comm]

theorem conflict_false_iff (x y : Req) :
    conflict x y = false ↔
      (∀ a ∈ x.write, a ∉ y.read ∧ a ∉ y.write) ∧ (∀ a ∈ y.write, a ∉ x.read ∧ a ∉ x.write) := by
  simp [conflict, Bool.or_eq_false_iff, List.any_eq_false]

theorem acquire_exact (t : Tables) (live : List Req) (r : Req) (h : Exact t live) :
    Exact (acquire t r) (r :: live) := by
  obtain ⟨h1, h2⟩ := foldl_rinc r.read t.rl h.wf
  refine ⟨h1, fun a => ?_, fun a => ?_⟩
  · simp only [acquire, h2, rsum, h.rd]; omega
  · simp only [acquire, mem_foldl_winsert, h.wr, List.mem_cons, exists_eq_or_imp]

theorem unlock_exact (t : Tables) (l1 l2 : List Req) (h : Req)
    (he : Exact t (l1 ++ h :: l2)) (hx : Excl (l1 ++ h :: l2)) :
    Exact (unlock t h) (l1 ++ l2) := by
  obtain ⟨h1, h2⟩ := foldl_rdec h.read t.rl he.wf
  have hno : ∀ h' ∈ l1 ++ l2, conflict h h' = false := by
    intro h' hh'
    have hp := List.pairwise_append.mp hx
    rcases List.mem_append.mp hh' with hm | hm
    · rw [conflict_comm]; exact hp.2.2 h' hm h (by simp)
    · exact (List.pairwise_cons.mp hp.2.1).1 h' hm
  refine ⟨h1, fun a => ?_, fun a => ?_⟩
  · simp only [unlock, h2, he.rd, rsum_append, rsum]; omega
  · simp only [unlock, mem_foldl_wdel, he.wr]
    constructor
    · rintro ⟨⟨h', hm, ha⟩, hna⟩
      refine ⟨h', ?_, ha⟩
      simp only [List.mem_append, List.mem_cons] at hm ⊢
      rcases hm with hm | rfl | hm
      · exact Or.inl hm
      · exact absurd ha hna
      · exact Or.inr hm
    · rintro ⟨h', hm, ha⟩
      refine ⟨⟨h', ?_, ha⟩, ?_⟩
      · simp only [List.mem_append, List.mem_cons] at hm ⊢
        rcases hm with hm | hm
        · exact Or.inl hm
        · exact Or.inr (Or.inr hm)
      · intro hha
        have := (conflict_false_iff h h').mp (hno h' hm)
        exact (this.1 a hha).2 ha

theorem excl_remove (l1 l2 : List Req) (h : Req) (hx : Excl (l1 ++ h :: l2)) : Excl (l1 ++ l2) :=
  List.Pairwise.sublist ((List.sublist_cons_self h l2).append_left l1) hx

/-- `tryLock`'s test on the tables says exactly "conflicts with no live request" -/
theorem compat_iff (t : Tables) (live : List Req) (r : Req) (he : Exact t live) :
    compatible t r = true ↔ ∀ h ∈ live, conflict r h = false := by
  simp only [compatible, Bool.and_eq_true, List.all_eq_true, Bool.not_eq_true', List.contains_eq_mem,
    decide_eq_false_iff_not, conflict_false_iff]
  have hr : ∀ a, rhas t.rl a = false ↔ ∀ h ∈ live, a ∉ h.read := by
    intro a
    have := rhas_iff t.rl a he.wf
    rw [he.rd, rsum_pos_iff] at this
    constructor
    · intro hf h hm ha
      have := this.mpr ⟨h, hm, ha⟩
      simp_all
    · intro hall
      cases hc : rhas t.rl a with
      | false => rfl
      | true => obtain ⟨h, hm, ha⟩ := this.mp hc; exact absurd ha (hall h hm)
  constructor
  · rintro ⟨h1, h2⟩ h hm
    refine ⟨fun a ha => ⟨(hr a).mp (h2 a ha).1 h hm, fun hw => (h2 a ha).2 ((he.wr a).mpr ⟨h, hm, hw⟩)⟩,
            fun a ha => ⟨fun har => h1 a har ((he.wr a).mpr ⟨h, hm, ha⟩), fun haw => (h2 a haw).2 ((he.wr a).mpr ⟨h, hm, ha⟩)⟩⟩
  · intro hall
    refine ⟨fun a ha hw => ?_, fun a ha => ⟨(hr a).mpr (fun h hm => ((hall h hm).1 a ha).1), fun hw => ?_⟩⟩
    · obtain ⟨h, hm, hh⟩ := (he.wr a).mp hw
      exact ((hall h hm).2 a hh).1 ha
    · obtain ⟨h, hm, hh⟩ := (he.wr a).mp hw
      exact ((hall h hm).1 a ha).2 hh

/-! ### extract -/

theorem extract_some (id : Nat) (l : List Req) (h : Req) (rest : List Req) (he : extract id l = some (h, rest)) :
    ∃ l1 l2, l = l1 ++ h :: l2 ∧ rest = l1 ++ l2 ∧ h.id = id := by
  induction l generalizing rest with
  | nil => simp [extract] at he
  | cons x t ih =>
    by_cases hx : x.id = id
    · simp only [extract, hx, if_true, Option.some.injEq, Prod.mk.injEq] at he
      obtain ⟨rfl, rfl⟩ := he
      exact ⟨[], t, rfl, rfl, hx⟩
    · simp only [extract, hx, if_false] at he
      cases hr : extract id t with
      | none => simp [hr] at he
      | some p =>
        obtain ⟨y, r⟩ := p
        simp only [hr, Option.some.injEq, Prod.mk.injEq] at he
        obtain ⟨rfl, rfl⟩ := he
        obtain ⟨l1, l2, e1, e2, e3⟩ := ih r hr
        exact ⟨x :: l1, l2, by simp [e1], by simp [e2], e3⟩

theorem extract_none (id : Nat) (l : List Req) : extract id l = none ↔ ∀ x ∈ l, x.id ≠ id := by
  induction l with
  | nil => simp [extract]
  | cons x t ih =>
    by_cases hx : x.id = id
    · simp [extract, hx]
    · cases hr : extract id t with
      | none => simp [extract, hx, hr]; exact ih.mp hr
      | some p =>
        simp only [extract, hx, if_false, hr, List.mem_cons, forall_eq_or_imp]
        constructor
        · intro h; cases h
        · intro h; exact absurd (ih.mpr h.2) (by simp [hr])

/-! ### recheck -/

def grantStep (s : State) (r : Req) : State := { grant s r .recheck with pending := r.id :: s.pending }
def skipStep (s : State) (r : Req) : State := { s with queue := s.queue ++ [r] }

theorem recheckGo_cons (s : State) (r : Req) (rs : List Req) :
    recheckGo s (r :: rs) =
      if compatible s.t r = true then recheckGo (grantStep s r) rs else recheckGo (skipStep s r) rs := by
  simp [recheckGo, grantStep, skipStep]

/-- whatever both branches of the loop body preserve holds after the loop -/
theorem recheckGo_ind (P : State → Prop)
    (hg : ∀ s r, P s → compatible s.t r = true → P (grantStep s r))
    (hs : ∀ s r, P s → compatible s.t r = false → P (skipStep s r)) :
    ∀ rs s, P s → P (recheckGo s rs) := by
  intro rs
  induction rs with
  | nil => intro s h; simpa [recheckGo] using h
  | cons r rs ih =>
    intro s h
    rw [recheckGo_cons]
    by_cases hc : compatible s.t r = true
    · simp only [hc, if_true]; exact ih _ (hg s r h hc)
    · simp only [hc]; exact ih _ (hs s r h (by simpa using hc))

/-- tables exact, live requests pairwise compatible, nothing in the queue is grantable -/
structure Core (s : State) : Prop where
  exact : Exact s.t s.live
  excl : Excl s.live
  nomiss : ∀ i ∈ s.queue, compatible s.t i = false

theorem core_grant (s s' : State) (r : Req) (ht : s'.t = acquire s.t r) (hl : s'.live = r :: s.live)
    (hq : s'.queue = s.queue) (h : Core s) (hc : compatible s.t r = true) : Core s' := by
  have hex : Exact (acquire s.t r) (r :: s.live) := acquire_exact _ _ _ h.exact
  refine ⟨by rw [ht, hl]; exact hex, ?_, ?_⟩
  · rw [hl]; exact List.pairwise_cons.mpr ⟨(compat_iff _ _ _ h.exact).mp hc, h.excl⟩
  · intro i hi
    rw [hq] at hi
    rw [ht]
    cases hci : compatible (acquire s.t r) i with
    | false => rfl
    | true =>
      have h1 := (compat_iff _ _ _ hex).mp hci
      have h2 := (compat_iff _ _ _ h.exact).mpr (fun x hx => h1 x (List.mem_cons_of_mem _ hx))
      have h3 := h.nomiss i hi
      simp_all

theorem core_skip (s : State) (r : Req) (h : Core s) (hc : compatible s.t r = false) : Core (skipStep s r) := by
  refine ⟨h.exact, h.excl, ?_⟩
  intro i hi
  simp only [skipStep, List.mem_append, List.mem_singleton] at hi
  rcases hi with hi | rfl
  · exact h.nomiss i hi
  · exact hc

theorem recheckGo_core (rs : List Req) (s : State) (h : Core s) : Core (recheckGo s rs) :=
  recheckGo_ind Core (fun s r h hc => core_grant s _ r rfl rfl rfl h hc) core_skip rs s h

theorem recheckGo_frame (rs : List Req) (s : State) :
    (recheckGo s rs).seen = s.seen ∧ (recheckGo s rs).aborted = s.aborted ∧ (recheckGo s rs).cancelled = s.cancelled := by
  induction rs generalizing s with
  | nil => simp [recheckGo]
  | cons r rs ih =>
    rw [recheckGo_cons]
    split
    · simpa [grantStep, grant] using ih (grantStep s r)
    · simpa [skipStep] using ih (skipStep s r)

theorem recheckGo_perm (rs : List Req) (s : State) :
    ((recheckGo s rs).queue ++ (recheckGo s rs).live).Perm (s.queue ++ rs ++ s.live) := by
  induction rs generalizing s with
  | nil => simp [recheckGo]
  | cons r rs ih =>
    rw [recheckGo_cons]
    split
    · refine (ih (grantStep s r)).trans ?_
      show (s.queue ++ rs ++ r :: s.live).Perm (s.queue ++ r :: rs ++ s.live)
      simp only [List.append_assoc, List.cons_append]
      exact List.Perm.append_left _ List.perm_middle
    · refine (ih (skipStep s r)).trans ?_
      show (s.queue ++ [r] ++ rs ++ s.live).Perm (s.queue ++ r :: rs ++ s.live)
      simp

/-- pending requests are live -/
def PendLive (s : State) : Prop := ∀ id ∈ s.pending, ∃ h ∈ s.live, h.id = id

theorem recheckGo_pend (rs : List Req) (s : State) (h : PendLive s) : PendLive (recheckGo s rs) := by
  refine recheckGo_ind PendLive ?_ ?_ rs s h
  · intro s r h _ id hid
    simp only [grantStep, grant, List.mem_cons] at hid ⊢
    rcases hid with rfl | hid
    · exact ⟨r, Or.inl rfl, rfl⟩
    · obtain ⟨x, hx, e⟩ := h id hid; exact ⟨x, Or.inr hx, e⟩
  · intro s r h _; exact h

/-- every live request was granted by one of the two `tryLock` call sites -/
def Logged (s : State) : Prop := ∀ h ∈ s.live, (h.id, Origin.direct) ∈ s.log ∨ (h.id, Origin.recheck) ∈ s.log

theorem recheckGo_logged (rs : List Req) (s : State) (h : Logged s) : Logged (recheckGo s rs) := by
  refine recheckGo_ind Logged ?_ ?_ rs s h
  · intro s r h _ x hx
    simp only [grantStep, grant, List.mem_cons] at hx ⊢
    rcases hx with rfl | hx
    · exact Or.inr (Or.inl rfl)
    · rcases h x hx with h' | h'
      · exact Or.inl (Or.inr h')
      · exact Or.inr (Or.inr h')
  · intro s r h _; exact h

theorem recheckGo_pending_sub (rs : List Req) (s : State) :
    ∀ id ∈ (recheckGo s rs).pending, id ∈ s.pending ∨ ∃ r ∈ rs, r.id = id := by
  induction rs generalizing s with
  | nil => intro id h; exact Or.inl (by simpa [recheckGo] using h)
  | cons r rs ih =>
    intro id h
    rw [recheckGo_cons] at h
    split at h
    · rcases ih _ id h with h' | ⟨x, hx, e⟩
      · simp only [grantStep, grant, List.mem_cons] at h'
        rcases h' with rfl | h'
        · exact Or.inr ⟨r, by simp, rfl⟩
        · exact Or.inl h'
      · exact Or.inr ⟨x, List.mem_cons_of_mem _ hx, e⟩
    · rcases ih _ id h with h' | ⟨x, hx, e⟩
      · exact Or.inl h'
      · exact Or.inr ⟨x, List.mem_cons_of_mem _ hx, e⟩

/-! ### identities -/

structure IdsL (L : List Req) (sn ab : List Nat) : Prop where
  nodup : (L.map (·.id)).Nodup
  seen : ∀ r ∈ L, r.id ∈ sn
  abSeen : ∀ id ∈ ab, id ∈ sn
  abGone : ∀ id ∈ ab, ∀ r ∈ L, r.id ≠ id

theorem IdsL.perm {L L' : List Req} {sn ab : List Nat} (hp : L'.Perm L) (h : IdsL L sn ab) : IdsL L' sn ab :=
  ⟨(hp.map _).nodup_iff.mpr h.nodup, fun r hr => h.seen r (hp.mem_iff.mp hr), h.abSeen,
   fun id hid r hr => h.abGone id hid r (hp.mem_iff.mp hr)⟩

theorem IdsL.sublist {L L' : List Req} {sn ab : List Nat} (hs : L'.Sublist L) (h : IdsL L sn ab) : IdsL L' sn ab :=
  ⟨List.Nodup.sublist (hs.map _) h.nodup, fun r hr => h.seen r (hs.subset hr), h.abSeen,
   fun id hid r hr => h.abGone id hid r (hs.subset hr)⟩

end Lock
