import Lemmas.StoreSqlRefl
/-! C04 stage 2, top: the executable hypothesis `StoreSql.wellFormedHistory` is the hypothesis of the proofs, and the two halves
of `projection_refines_replay`. -/
namespace StoreSql
open Sql Schema Store

theorem distinctKeys_iff (m : Meta) : distinctKeys m = true ↔ NodupKeys m := by
  unfold NodupKeys
  induction m with
  | nil => simp [distinctKeys]
  | cons kv rest ih =>
    simp only [distinctKeys, Bool.and_eq_true, Bool.not_eq_true', List.map_cons, List.nodup_cons, ih]
    constructor
    · rintro ⟨h1, h2⟩
      refine ⟨?_, h2⟩
      intro hk
      obtain ⟨x, hx, e⟩ := List.mem_map.mp hk
      have : rest.any (fun x => x.1 == kv.1) = true := List.any_eq_true.mpr ⟨x, hx, by simp [e]⟩
      rw [h1] at this; cases this
    · rintro ⟨h1, h2⟩
      refine ⟨?_, h2⟩
      cases hany : rest.any (fun x => x.1 == kv.1) with
      | false => rfl
      | true =>
        obtain ⟨x, hx, e⟩ := List.any_eq_true.mp hany
        exact absurd (List.mem_map.mpr ⟨x, hx, by simpa using e⟩) h1

theorem wfLog_of (log : CLog) (h : wellFormedLog log = true) : WFLog log := by
  obtain ⟨l, id, d, ik, payload⟩ := log
  cases payload with
  | newTx tx am =>
    simp only [wellFormedLog, Bool.and_eq_true, List.all_eq_true] at h
    exact ⟨(distinctKeys_iff _).mp h.1, fun km hkm => (distinctKeys_iff _).mp (h.2 km hkm)⟩
  | revert rid tx => exact (distinctKeys_iff _).mp h
  | setMeta t m => exact (distinctKeys_iff _).mp h
  | delMeta t k => trivial

theorem wfHistory_of (logs : List CLog) (h : wellFormedHistory logs = true) : WFHistory logs := by
  intro log hlog
  simp only [wellFormedHistory, List.all_eq_true] at h
  exact wfLog_of log (h log hlog)

/-- both halves, from the executable hypothesis -/
theorem projection_refines_replay_main (logs : List CLog) (hwf : wellFormedHistory logs = true) :
    discrepancies logs = [] ∧ frameBad logs = [] :=
  ⟨discrepancies_nil logs (wfHistory_of logs hwf), frameBad_nil logs (wfHistory_of logs hwf)⟩

end StoreSql
