import Lemmas.Lock
/-! The inductive invariant of Model.Lock and its preservation by every transition of the repaired code. -/
namespace Lock

theorem IdsL.cons_fresh {L : List Req} {sn ab : List Nat} (r : Req) (h : IdsL L sn ab) (hf : r.id ∉ sn) :
    IdsL (r :: L) (r.id :: sn) ab := by
  refine ⟨?_, ?_, ?_, ?_⟩
  · simp only [List.map_cons, List.nodup_cons, List.mem_map, not_exists, not_and]
    exact ⟨fun x hx e => hf (e ▸ h.seen x hx), h.nodup⟩
  · intro x hx
    rcases List.mem_cons.mp hx with rfl | hx
    · exact List.mem_cons_self
    · exact List.mem_cons_of_mem _ (h.seen x hx)
  · intro id hid; exact List.mem_cons_of_mem _ (h.abSeen id hid)
  · intro id hid x hx
    rcases List.mem_cons.mp hx with rfl | hx
    · intro e; exact hf (e ▸ h.abSeen id hid)
    · exact h.abGone id hid x hx

theorem IdsL.abort {L : List Req} {sn ab : List Nat} (id : Nat) (h : IdsL L sn ab) (hs : id ∈ sn)
    (hg : ∀ r ∈ L, r.id ≠ id) : IdsL L sn (id :: ab) := by
  refine ⟨h.nodup, h.seen, ?_, ?_⟩
  · intro i hi
    rcases List.mem_cons.mp hi with rfl | hi
    · exact hs
    · exact h.abSeen i hi
  · intro i hi
    rcases List.mem_cons.mp hi with rfl | hi
    · exact hg
    · exact h.abGone i hi

theorem nodup_map_middle (A B : List Req) (x : Req) (h : ((A ++ x :: B).map (·.id)).Nodup) :
    ∀ r ∈ A ++ B, r.id ≠ x.id := by
  have hp : ((A ++ x :: B).map (·.id)).Perm ((x :: (A ++ B)).map (·.id)) := List.Perm.map _ List.perm_middle
  have := hp.nodup_iff.mp h
  simp only [List.map_cons, List.nodup_cons, List.mem_map, not_exists, not_and] at this
  exact fun r hr => this.1 r hr

structure Inv (s : State) : Prop where
  core : Core s
  ids : IdsL (s.queue ++ s.live) s.seen s.aborted
  pend : PendLive s
  logged : Logged s

theorem inv_init : Inv init := by
  refine ⟨⟨⟨trivial, fun a => rfl, fun a => by simp [init]⟩, List.Pairwise.nil, by simp [init]⟩, ?_, ?_, ?_⟩
  · exact ⟨by simp [init], by simp [init], by simp [init], by simp [init]⟩
  · intro id h; simp [init] at h
  · intro x h; simp [init] at h

/-- `recheck` establishes the invariant from a state whose tables are exact (nothing is assumed about the queue) -/
theorem recheck_inv (s : State) (he : Exact s.t s.live) (hx : Excl s.live)
    (hi : IdsL (s.queue ++ s.live) s.seen s.aborted) (hp : PendLive s) (hl : Logged s) : Inv (recheck s) := by
  unfold recheck
  obtain ⟨f1, f2, _⟩ := recheckGo_frame s.queue { s with queue := [] }
  refine ⟨recheckGo_core _ _ ⟨he, hx, by simp⟩, ?_, recheckGo_pend _ _ hp, recheckGo_logged _ _ hl⟩
  rw [f1, f2]
  exact IdsL.perm (by simpa using recheckGo_perm s.queue { s with queue := [] }) hi

theorem core_congr (s s' : State) (h : Core s) (ht : s'.t = s.t) (hl : s'.live = s.live)
    (hq : ∀ i ∈ s'.queue, i ∈ s.queue ∨ compatible s.t i = false) : Core s' := by
  refine ⟨ht ▸ hl ▸ h.exact, hl ▸ h.excl, ?_⟩
  intro i hi
  rw [ht]
  rcases hq i hi with hi | hi
  · exact h.nomiss i hi
  · exact hi

theorem arrive_inv (s : State) (r : Req) (h : Inv s) : Inv (arrive s r).1 := by
  by_cases hs : r.id ∈ s.seen
  · have e : arrive s r = (s, .rejected) := by simp [arrive, hs]
    rw [e]; exact h
  · have hfresh := IdsL.cons_fresh r h.ids hs
    by_cases hc : compatible s.t r = true
    · have e : arrive s r = (grant { s with seen := r.id :: s.seen } r .direct, .acquired) := by
        simp [arrive, hs, hc]
      rw [e]
      refine ⟨core_grant s _ r rfl rfl rfl h.core hc, ?_, ?_, ?_⟩
      · exact IdsL.perm (L := r :: (s.queue ++ s.live)) List.perm_middle hfresh
      · intro id hid
        obtain ⟨x, hx, e⟩ := h.pend id hid
        exact ⟨x, List.mem_cons_of_mem _ hx, e⟩
      · intro x hx
        simp only [grant, List.mem_cons] at hx ⊢
        rcases hx with rfl | hx
        · exact Or.inl (Or.inl rfl)
        · rcases h.logged x hx with h' | h'
          · exact Or.inl (Or.inr h')
          · exact Or.inr (Or.inr h')
    · have hc' : compatible s.t r = false := by simpa using hc
      have e : arrive s r = ({ s with seen := r.id :: s.seen, queue := s.queue ++ [r] }, .queued) := by
        simp [arrive, hs, hc']
      rw [e]
      refine ⟨core_congr s _ h.core rfl rfl ?_, ?_, h.pend, h.logged⟩
      · intro i hi
        simp only [List.mem_append, List.mem_singleton] at hi
        rcases hi with hi | rfl
        · exact Or.inl hi
        · exact Or.inr hc'
      · refine IdsL.perm (L := r :: (s.queue ++ s.live)) ?_ hfresh
        show (s.queue ++ [r] ++ s.live).Perm (r :: (s.queue ++ s.live))
        simp

/-- taking a live request out and rechecking: shared by `release` and the repaired cancellation path -/
theorem giveback_inv (s : State) (x : Req) (l1 l2 : List Req) (pend ab : List Nat) (h : Inv s)
    (hl : s.live = l1 ++ x :: l2)
    (hpd : ∀ id ∈ pend, id ∈ s.pending ∧ id ≠ x.id)
    (hab : IdsL (s.queue ++ (l1 ++ l2)) s.seen s.aborted → IdsL (s.queue ++ (l1 ++ l2)) s.seen ab) :
    Inv (recheck { s with t := unlock s.t x, live := l1 ++ l2, pending := pend, aborted := ab }) := by
  have hcore := h.core
  have hsub : (s.queue ++ (l1 ++ l2)).Sublist (s.queue ++ s.live) := by
    rw [hl]; exact ((List.sublist_cons_self x l2).append_left l1).append_left s.queue
  apply recheck_inv
  · exact unlock_exact s.t l1 l2 x (hl ▸ hcore.exact) (hl ▸ hcore.excl)
  · exact excl_remove l1 l2 x (hl ▸ hcore.excl)
  · exact hab (IdsL.sublist hsub h.ids)
  · intro id hid
    obtain ⟨hp, hne⟩ := hpd id hid
    obtain ⟨y, hy, e⟩ := h.pend id hp
    refine ⟨y, ?_, e⟩
    rw [hl] at hy
    simp only [List.mem_append, List.mem_cons] at hy ⊢
    rcases hy with hy | rfl | hy
    · exact Or.inl hy
    · exact absurd e.symm hne
    · exact Or.inr hy
  · intro y hy
    exact h.logged y (by rw [hl]; simp only [List.mem_append, List.mem_cons] at hy ⊢; rcases hy with hy | hy <;> simp [hy])

theorem release_inv (s : State) (id : Nat) (h : Inv s) : Inv (release s id).1 := by
  by_cases hg : id ∈ s.pending ∨ id ∈ s.aborted
  · have e : release s id = (s, .rejected) := by simp [release, hg]
    rw [e]; exact h
  · cases he : extract id s.live with
    | none =>
      have e : release s id = (s, .rejected) := by simp [release, he]
      rw [e]; exact h
    | some p =>
      obtain ⟨x, rest⟩ := p
      obtain ⟨l1, l2, e1, e2, e3⟩ := extract_some id s.live x rest he
      have e : release s id = (recheck { s with t := unlock s.t x, live := rest }, .released) := by
        simp [release, hg, he]
      rw [e]
      subst e2
      refine giveback_inv s x l1 l2 s.pending s.aborted h e1 ?_ (fun h => h)
      intro i hi
      refine ⟨hi, fun e => ?_⟩
      rw [e, e3] at hi
      exact hg (Or.inl hi)

theorem cancel_inv (s : State) (id : Nat) (h : Inv s) : Inv (cancel s id).1 :=
  ⟨⟨h.core.exact, h.core.excl, h.core.nomiss⟩, h.ids, h.pend, h.logged⟩

theorem wake_inv (s : State) (id : Nat) (b : Branch) (h : Inv s) : Inv (wake true s id b).1 := by
  by_cases hp : id ∈ s.pending
  · by_cases hc : id ∈ s.cancelled ∧ b = Branch.ctx
    · cases he : extract id s.live with
      | none =>
        have e : wake true s id b = (s, .rejected) := by simp [wake, hp, hc, he]
        rw [e]; exact h
      | some p =>
        obtain ⟨x, rest⟩ := p
        obtain ⟨l1, l2, e1, e2, e3⟩ := extract_some id s.live x rest he
        let s1 : State := { s with t := unlock s.t x, live := rest, pending := s.pending.filter (fun y => y != id), aborted := id :: s.aborted }
        have e : wake true s id b = (recheck s1, .returnedErr) := by
          simp [wake, hp, hc, he, s1]
        rw [e]
        subst e2
        refine giveback_inv s x l1 l2 _ _ h e1 ?_ ?_
        · intro i hi
          simp only [List.mem_filter, bne_iff_ne, ne_eq] at hi
          exact ⟨hi.1, e3 ▸ hi.2⟩
        · intro hI
          refine IdsL.abort id hI ?_ ?_
          · exact e3 ▸ h.ids.seen x (by rw [e1]; simp)
          · have hn := h.ids.nodup
            rw [e1, ← List.append_assoc] at hn
            have := nodup_map_middle (s.queue ++ l1) l2 x hn
            intro r hr
            exact e3 ▸ this r (by simpa using hr)
    · have e : wake true s id b = ({ s with pending := s.pending.filter (fun y => y != id) }, .returnedUnlock) := by
        simp [wake, hp, hc]
      rw [e]
      refine ⟨⟨h.core.exact, h.core.excl, h.core.nomiss⟩, h.ids, ?_, h.logged⟩
      intro i hi
      simp only [List.mem_filter] at hi
      exact h.pend i hi.1
  · cases he : extract id s.queue with
    | none =>
      have e : wake true s id b = (s, .rejected) := by simp [wake, hp, he]
      rw [e]; exact h
    | some p =>
      obtain ⟨x, rest⟩ := p
      obtain ⟨q1, q2, e1, e2, e3⟩ := extract_some id s.queue x rest he
      by_cases hc : id ∈ s.cancelled
      · have e : wake true s id b = ({ s with queue := rest, aborted := id :: s.aborted }, .returnedErr) := by
          simp [wake, hp, he, hc]
        rw [e]
        subst e2
        have hsub : (q1 ++ q2 ++ s.live).Sublist (s.queue ++ s.live) := by
          rw [e1]; exact ((List.sublist_cons_self x q2).append_left q1).append_right s.live
        refine ⟨core_congr s _ h.core rfl rfl ?_, ?_, h.pend, h.logged⟩
        · intro i hi
          refine Or.inl ?_
          rw [e1]; simp only [List.mem_append, List.mem_cons] at hi ⊢; rcases hi with hi | hi <;> simp [hi]
        · refine IdsL.abort id (IdsL.sublist hsub h.ids) ?_ ?_
          · exact e3 ▸ h.ids.seen x (by rw [e1]; simp)
          · have hn := h.ids.nodup
            rw [e1, List.append_assoc, List.cons_append] at hn
            have := nodup_map_middle q1 (q2 ++ s.live) x hn
            intro r hr
            exact e3 ▸ this r (by simpa using hr)
      · have e : wake true s id b = (s, .blocked) := by simp [wake, hp, he, hc]
        rw [e]; exact h

theorem step_inv (s : State) (o : Op) (h : Inv s) : Inv (step s o).1 := by
  cases o with
  | arrive r => exact arrive_inv s r h
  | release id => exact release_inv s id h
  | cancel id => exact cancel_inv s id h
  | wake id b => exact wake_inv s id b h

theorem run_inv (ops : List Op) (s : State) (h : Inv s) : Inv (run s ops) := by
  induction ops generalizing s with
  | nil => exact h
  | cons o os ih => exact ih _ (step_inv s o h)

theorem reachable_inv (s : State) (h : Reachable s) : Inv s := by
  obtain ⟨ops, rfl⟩ := h
  exact run_inv ops init inv_init

end Lock
