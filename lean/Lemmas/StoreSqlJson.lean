import Lemmas.StoreSqlAbs
/-! C04 stage 2, layer 2b: **metadata objects as finite maps**.

The projection keeps metadata as jsonb objects and combines them with `||` (`J.concatKvs`), `-` (`J.removeKey`) and `@>`
(`J.contains`); the replay keeps association lists and combines them with `Meta.merge` / `Meta.erase`.  The two representations
list the bindings in different orders; the executable comparison uses `J.beq`, equality of objects as finite maps.  This file
shows that on objects with DISTINCT keys and string values (`MObj`: what a metadata map of the API is) `J.beq` is exactly
"same lookups" (`KEq`), and that the SQL operators compute the lookups the replay's operators compute. -/
namespace StoreSql
open Sql Store

def keys (a : Kvs) : List String := a.map (·.1)
def StrVals (a : Kvs) : Prop := ∀ kv ∈ a, ∃ s, kv.2 = J.str s

/-- a metadata object: distinct keys, string values -/
structure MObj (a : Kvs) : Prop where
  nodup : (keys a).Nodup
  strs : StrVals a

/-- equal as finite maps -/
def KEq (a b : Kvs) : Prop := ∀ k, J.lookup k a = J.lookup k b

theorem KEq.refl (a : Kvs) : KEq a a := fun _ => rfl
theorem KEq.symm {a b : Kvs} (h : KEq a b) : KEq b a := fun k => (h k).symm
theorem KEq.trans {a b c : Kvs} (h : KEq a b) (g : KEq b c) : KEq a c := fun k => (h k).trans (g k)

-- ---------------------------------------------------------------- lookup

@[simp] theorem lookup_nil (k : String) : J.lookup k [] = none := rfl
theorem lookup_cons (k k' : String) (v : J) (rest : Kvs) :
    J.lookup k ((k', v) :: rest) = if k' = k then some v else J.lookup k rest := by
  by_cases h : k' = k <;> simp [J.lookup, h]

theorem lookup_some_mem {k : String} {a : Kvs} {v : J} (h : J.lookup k a = some v) : (k, v) ∈ a := by
  induction a with
  | nil => simp at h
  | cons x xs ih =>
    obtain ⟨k', v'⟩ := x
    rw [lookup_cons] at h
    by_cases hk : k' = k
    · simp only [hk, if_true, Option.some.injEq] at h; subst hk; subst h; exact List.mem_cons_self ..
    · simp only [hk, if_false] at h; exact List.mem_cons_of_mem _ (ih h)

theorem lookup_none_iff {k : String} {a : Kvs} : J.lookup k a = none ↔ k ∉ keys a := by
  induction a with
  | nil => simp [keys]
  | cons x xs ih =>
    obtain ⟨k', v'⟩ := x
    rw [lookup_cons]
    by_cases hk : k' = k
    · simp [hk, keys]
    · simp only [hk, if_false, ih, keys, List.map_cons, List.mem_cons, not_or]
      exact ⟨fun h => ⟨fun e => hk e.symm, h⟩, fun h => h.2⟩

theorem mem_lookup {k : String} {a : Kvs} {v : J} (hn : (keys a).Nodup) (h : (k, v) ∈ a) : J.lookup k a = some v := by
  induction a with
  | nil => cases h
  | cons x xs ih =>
    obtain ⟨k', v'⟩ := x
    rw [lookup_cons]
    simp only [keys, List.map_cons, List.nodup_cons] at hn
    rcases List.mem_cons.mp h with e | h'
    · cases e; simp
    · have : k' ≠ k := by
        intro e; subst e
        exact hn.1 (List.mem_map.mpr ⟨(k', v), h', rfl⟩)
      simp only [this, if_false]
      exact ih hn.2 h'

theorem lookup_isSome_iff {k : String} {a : Kvs} : (J.lookup k a).isSome = true ↔ k ∈ keys a := by
  cases h : J.lookup k a with
  | none => simp [lookup_none_iff.mp h]
  | some v =>
    simp only [Option.isSome_some, true_iff]
    exact List.mem_map.mpr ⟨(k, v), lookup_some_mem h, rfl⟩

-- ---------------------------------------------------------------- cardinality

theorem nodup_subset_length {l1 l2 : List String} (hn : l1.Nodup) (hs : ∀ x ∈ l1, x ∈ l2) : l1.length ≤ l2.length := by
  induction l1 generalizing l2 with
  | nil => simp
  | cons x xs ih =>
    rw [List.nodup_cons] at hn
    have hx : x ∈ l2 := hs x (List.mem_cons_self ..)
    have h2 : ∀ y ∈ xs, y ∈ l2.erase x := by
      intro y hy
      have : y ≠ x := fun e => hn.1 (e ▸ hy)
      exact (List.mem_erase_of_ne this).mpr (hs y (List.mem_cons_of_mem _ hy))
    have := ih hn.2 h2
    rw [List.length_erase_of_mem hx] at this
    have hpos : 0 < l2.length := List.length_pos_of_mem hx
    simp only [List.length_cons]; omega

theorem nodup_subset_eq_length {l1 l2 : List String} (hn : l1.Nodup) (hs : ∀ x ∈ l1, x ∈ l2) (hl : l2.length ≤ l1.length) :
    ∀ x ∈ l2, x ∈ l1 := by
  intro x hx
  apply Classical.byContradiction
  intro hnx
  have h2 : ∀ y ∈ l1, y ∈ l2.erase x := by
    intro y hy
    have : y ≠ x := fun e => hnx (e ▸ hy)
    exact (List.mem_erase_of_ne this).mpr (hs y hy)
  have := nodup_subset_length hn h2
  rw [List.length_erase_of_mem hx] at this
  have hpos : 0 < l2.length := List.length_pos_of_mem hx
  omega

-- ---------------------------------------------------------------- J.beq on metadata objects

@[simp] theorem beq_str_str (s t : String) : (J.str s == J.str t) = (s == t) := by
  show J.beq (J.str s) (J.str t) = _
  simp [J.beq]

theorem beq_obj (a b : Kvs) : (J.obj a == J.obj b) = (a.length == b.length && J.subKvs a b) := by
  show J.beq (J.obj a) (J.obj b) = _
  simp [J.beq]

theorem subKvs_iff (a b : Kvs) (hb : StrVals b) (ha : StrVals a) :
    J.subKvs a b = true ↔ ∀ kv ∈ a, J.lookup kv.1 b = some kv.2 := by
  induction a with
  | nil => simp [J.subKvs]
  | cons x xs ih =>
    obtain ⟨k, v⟩ := x
    have hx : StrVals xs := fun kv h => ha kv (List.mem_cons_of_mem _ h)
    obtain ⟨s, hs⟩ := ha (k, v) (List.mem_cons_self ..)
    simp only at hs
    subst hs
    simp only [J.subKvs, Bool.and_eq_true, ih hx, List.mem_cons, forall_eq_or_imp]
    constructor
    · rintro ⟨h1, h2⟩
      refine ⟨?_, h2⟩
      cases hl : J.lookup k b with
      | none => simp [hl] at h1
      | some y =>
        obtain ⟨t, ht⟩ := hb (k, y) (lookup_some_mem hl)
        simp only at ht
        subst ht
        simp only [hl] at h1
        have : (J.str s == J.str t) = true := h1
        simp at this
        simp [this]
    · rintro ⟨h1, h2⟩
      refine ⟨?_, h2⟩
      simp only [h1]
      show (J.str s == J.str s) = true
      simp

/-- **`J.beq` on metadata objects is equality of finite maps** -/
theorem beq_obj_iff {a b : Kvs} (ha : MObj a) (hb : MObj b) : (J.obj a == J.obj b) = true ↔ KEq a b := by
  rw [beq_obj, Bool.and_eq_true, subKvs_iff a b hb.strs ha.strs]
  constructor
  · rintro ⟨hl, hs⟩
    have hl' : a.length = b.length := by simpa using hl
    have sub : ∀ x ∈ keys a, x ∈ keys b := by
      intro x hx
      obtain ⟨kv, hkv, rfl⟩ := List.mem_map.mp hx
      exact lookup_isSome_iff.mp (by rw [hs kv hkv]; rfl)
    have sup := nodup_subset_eq_length ha.nodup sub (by simp [keys, hl'])
    intro k
    cases hk : J.lookup k a with
    | some v => exact (hs (k, v) (lookup_some_mem hk)).symm
    | none =>
      have : k ∉ keys b := fun h => lookup_none_iff.mp hk (sup k h)
      exact (lookup_none_iff.mpr this).symm
  · intro h
    have m1 : ∀ x, x ∈ keys a ↔ x ∈ keys b := by
      intro x
      rw [← lookup_isSome_iff, ← lookup_isSome_iff, h x]
    have := ((List.perm_ext_iff_of_nodup ha.nodup hb.nodup).mpr m1).length_eq
    refine ⟨by simpa [keys] using this, ?_⟩
    intro kv hkv
    rw [← h kv.1]
    exact mem_lookup ha.nodup hkv

theorem beq_obj_refl {a : Kvs} (ha : MObj a) : (J.obj a == J.obj a) = true := (beq_obj_iff ha ha).mpr (KEq.refl a)

theorem KEq_nil {b : Kvs} (h : KEq [] b) : b = [] := by
  cases b with
  | nil => rfl
  | cons x xs =>
    obtain ⟨k, v⟩ := x
    have := h k
    simp [lookup_cons] at this

theorem mobj_nil : MObj [] := ⟨by simp [keys], by intro kv h; cases h⟩

-- ---------------------------------------------------------------- `-`, `||`, `@>`

theorem keys_filter_sublist (a : Kvs) (p : String × J → Bool) : (keys (a.filter p)).Sublist (keys a) := by
  unfold keys
  exact (List.filter_sublist).map _

theorem mobj_filter {a : Kvs} (h : MObj a) (p : String × J → Bool) : MObj (a.filter p) :=
  ⟨(keys_filter_sublist a p).nodup h.nodup, fun kv hkv => h.strs kv (List.mem_filter.mp hkv).1⟩

theorem lookup_filter_key (a : Kvs) (q : String → Bool) (k : String) :
    J.lookup k (a.filter (fun kv => q kv.1)) = if q k then J.lookup k a else none := by
  induction a with
  | nil => simp
  | cons x xs ih =>
    obtain ⟨k', v⟩ := x
    by_cases hq : q k' = true
    · simp only [List.filter_cons, hq, if_true, lookup_cons, ih]
      by_cases hk : k' = k
      · subst hk; simp [hq]
      · simp [hk]
    · simp only [List.filter_cons, hq, Bool.false_eq_true, if_false, ih, lookup_cons]
      by_cases hk : k' = k
      · subst hk; simp [hq]
      · simp [hk]

theorem lookup_removeKey (k0 : String) (a : Kvs) (k : String) :
    J.lookup k (J.removeKey k0 a) = if k = k0 then none else J.lookup k a := by
  unfold J.removeKey
  rw [lookup_filter_key a (fun x => x != k0) k]
  by_cases h : k = k0 <;> simp [h]

theorem mobj_removeKey {a : Kvs} (h : MObj a) (k : String) : MObj (J.removeKey k a) := mobj_filter h _

theorem lookup_append (k : String) (a b : Kvs) :
    J.lookup k (a ++ b) = match J.lookup k a with | some v => some v | none => J.lookup k b := by
  cases h : J.lookup k a with
  | some v => exact lookup_append_left k a b v h
  | none => exact lookup_append_right k a b h

theorem lookup_concatKvs (a b : Kvs) (k : String) :
    J.lookup k (J.concatKvs a b) = match J.lookup k b with | some v => some v | none => J.lookup k a := by
  unfold J.concatKvs
  rw [lookup_append, lookup_filter_key a (fun x => (J.lookup x b).isNone) k]
  cases hb : J.lookup k b with
  | some v => simp
  | none => cases ha : J.lookup k a <;> simp

theorem mobj_concatKvs {a b : Kvs} (ha : MObj a) (hb : MObj b) : MObj (J.concatKvs a b) := by
  unfold J.concatKvs
  constructor
  · unfold keys
    rw [List.map_append, List.nodup_append]
    refine ⟨(mobj_filter ha _).nodup, hb.nodup, ?_⟩
    intro x hx y hy e
    subst e
    obtain ⟨kv, hkv, rfl⟩ := List.mem_map.mp hx
    rw [List.mem_filter] at hkv
    have : J.lookup kv.1 b = none := by simpa using hkv.2
    exact lookup_none_iff.mp this hy
  · intro kv hkv
    rcases List.mem_append.mp hkv with h | h
    · exact ha.strs kv (List.mem_filter.mp h).1
    · exact hb.strs kv h

theorem contains_str (x : J) (t : String) : J.contains x (J.str t) = true ↔ x = J.str t := by
  cases x <;> simp [J.contains]

theorem containsKvs_iff (a b : Kvs) (hb : StrVals b) :
    J.containsKvs a b = true ↔ ∀ kv ∈ b, J.lookup kv.1 a = some kv.2 := by
  induction b with
  | nil => simp [J.containsKvs]
  | cons x xs ih =>
    obtain ⟨k, y⟩ := x
    have hx : StrVals xs := fun kv h => hb kv (List.mem_cons_of_mem _ h)
    obtain ⟨t, ht⟩ := hb (k, y) (List.mem_cons_self ..)
    simp only at ht
    subst ht
    simp only [J.containsKvs, Bool.and_eq_true, ih hx, List.mem_cons, forall_eq_or_imp]
    constructor
    · rintro ⟨h1, h2⟩
      refine ⟨?_, h2⟩
      cases hl : J.lookup k a with
      | none => simp [hl] at h1
      | some v => simp only [hl] at h1; rw [(contains_str v t).mp h1]
    · rintro ⟨h1, h2⟩
      exact ⟨by simp only [h1]; exact (contains_str _ t).mpr rfl, h2⟩

theorem contains_obj (a b : Kvs) : J.contains (J.obj a) (J.obj b) = J.containsKvs a b := by
  simp [J.contains]

/-- when the stored object already contains the new one, `||` changes nothing (as a finite map) -/
theorem concat_of_contains {a b : Kvs} (hb : MObj b) (h : J.contains (J.obj a) (J.obj b) = true) : KEq (J.concatKvs a b) a := by
  rw [contains_obj, containsKvs_iff a b hb.strs] at h
  intro k
  rw [lookup_concatKvs]
  cases hk : J.lookup k b with
  | none => rfl
  | some v => exact (h (k, v) (lookup_some_mem hk)).symm

theorem contains_congr {a a' b : Kvs} (hb : MObj b) (h : KEq a a') : J.contains (J.obj a) (J.obj b) = J.contains (J.obj a') (J.obj b) := by
  rw [Bool.eq_iff_iff, contains_obj, contains_obj, containsKvs_iff a b hb.strs, containsKvs_iff a' b hb.strs]
  constructor
  · intro g kv hkv; rw [← h]; exact g kv hkv
  · intro g kv hkv; rw [h]; exact g kv hkv

theorem contains_of_concat_eq {a b : Kvs} (hb : MObj b) (h : KEq (J.concatKvs a b) a) : J.contains (J.obj a) (J.obj b) = true := by
  rw [contains_obj, containsKvs_iff a b hb.strs]
  intro kv hkv
  have := h kv.1
  rw [lookup_concatKvs, mem_lookup hb.nodup hkv] at this
  exact this.symm

theorem KEq_removeKey {a a' : Kvs} (h : KEq a a') (k : String) : KEq (J.removeKey k a) (J.removeKey k a') := by
  intro k'; rw [lookup_removeKey, lookup_removeKey, h k']

theorem KEq_concatKvs {a a' : Kvs} (h : KEq a a') (b : Kvs) : KEq (J.concatKvs a b) (J.concatKvs a' b) := by
  intro k; rw [lookup_concatKvs, lookup_concatKvs, h k]

-- ---------------------------------------------------------------- the replay's association lists

theorem keys_kvsOf (m : Meta) : keys (kvsOf m) = m.map (·.1) := by
  simp [keys, kvsOf, List.map_map, Function.comp_def]

theorem mobj_kvsOf {m : Meta} (h : (m.map (·.1)).Nodup) : MObj (kvsOf m) :=
  ⟨by rw [keys_kvsOf]; exact h, by intro kv hkv; obtain ⟨x, _, rfl⟩ := List.mem_map.mp hkv; exact ⟨x.2, rfl⟩⟩

theorem kvsOf_erase (m : Meta) (k : String) : kvsOf (Meta.erase m k) = J.removeKey k (kvsOf m) := by
  simp only [kvsOf, Meta.erase, J.removeKey, List.filter_map]
  rfl

theorem nodup_erase {m : Meta} (h : (m.map (·.1)).Nodup) (k : String) : ((Meta.erase m k).map (·.1)).Nodup :=
  ((List.filter_sublist).map _).nodup h

theorem nodup_set {m : Meta} (h : (m.map (·.1)).Nodup) (k v : String) : ((Meta.set m k v).map (·.1)).Nodup := by
  simp only [Meta.set, List.map_cons, List.nodup_cons]
  refine ⟨?_, nodup_erase h k⟩
  intro hk
  obtain ⟨x, hx, e⟩ := List.mem_map.mp hk
  simp only [Meta.erase, List.mem_filter, bne_iff_ne, ne_eq] at hx
  exact hx.2 e

theorem nodup_merge {m : Meta} (h : (m.map (·.1)).Nodup) (new : Meta) : ((Meta.merge m new).map (·.1)).Nodup := by
  unfold Meta.merge
  induction new generalizing m with
  | nil => exact h
  | cons kv rest ih => exact ih (nodup_set h kv.1 kv.2)

theorem lookup_kvsOf_set (m : Meta) (k v k0 : String) :
    J.lookup k0 (kvsOf (Meta.set m k v)) = if k = k0 then some (J.str v) else J.lookup k0 (kvsOf m) := by
  simp only [Meta.set, kvsOf, List.map_cons, lookup_cons]
  by_cases h : k = k0
  · simp [h]
  · simp only [h, if_false]
    have := lookup_removeKey k (kvsOf m) k0
    rw [← kvsOf_erase] at this
    simp only [kvsOf] at this
    rw [this]
    have h' : ¬ k0 = k := fun e => h e.symm
    simp [h']

/-- `Meta.merge` computes the lookups of `||` (the keys of the new map are distinct) -/
theorem lookup_kvsOf_merge (m new : Meta) (hn : (new.map (·.1)).Nodup) (k0 : String) :
    J.lookup k0 (kvsOf (Meta.merge m new)) = J.lookup k0 (J.concatKvs (kvsOf m) (kvsOf new)) := by
  rw [lookup_concatKvs]
  unfold Meta.merge
  induction new generalizing m with
  | nil => simp [kvsOf]
  | cons kv rest ih =>
    obtain ⟨k, v⟩ := kv
    simp only [List.map_cons, List.nodup_cons] at hn
    rw [List.foldl_cons, ih _ hn.2]
    simp only [kvsOf, List.map_cons, lookup_cons]
    by_cases hk : k = k0
    · subst hk
      have : J.lookup k (kvsOf rest) = none := lookup_none_iff.mpr (by rw [keys_kvsOf]; exact hn.1)
      simp only [kvsOf] at this
      simp only [this, if_true]
      have := lookup_kvsOf_set m k v k
      simp only [kvsOf, if_true] at this
      exact this
    · simp only [hk, if_false]
      cases hr : J.lookup k0 (List.map (fun kv => (kv.1, J.str kv.2)) rest) with
      | some w => rfl
      | none =>
        have := lookup_kvsOf_set m k v k0
        simp only [kvsOf, hk, if_false] at this
        exact this

theorem KEq_merge {a : Kvs} {p : Meta} (h : KEq a (kvsOf p)) (m : Meta) (hn : (m.map (·.1)).Nodup) :
    KEq (J.concatKvs a (kvsOf m)) (kvsOf (Meta.merge p m)) := by
  intro k
  rw [lookup_kvsOf_merge p m hn k]
  exact KEq_concatKvs h (kvsOf m) k

theorem KEq_erase {a : Kvs} {p : Meta} (h : KEq a (kvsOf p)) (k : String) : KEq (J.removeKey k a) (kvsOf (Meta.erase p k)) := by
  rw [kvsOf_erase]; exact KEq_removeKey h k

end StoreSql
