import Model.Batcher
/-! Invariant of the Batcher / job.Runner model (`Model/Batcher.lean`) and the facts the C05 / C06 theorems about the
component rest on: for every operation sequence, every `max`, unbounded queues. -/
namespace Batcher

/-- objects of the calls that returned with the given verdict, in call order -/
def objectsOf (ok : Bool) (calls : List (List Nat × Bool)) : List Nat :=
  ((calls.filter (fun c => c.2 == ok)).map (·.1)).flatten

@[simp] theorem objectsOf_nil (ok : Bool) : objectsOf ok [] = [] := rfl
@[simp] theorem objectsOf_snoc_same (ok : Bool) (calls : List (List Nat × Bool)) (b : List Nat) :
    objectsOf ok (calls ++ [(b, ok)]) = objectsOf ok calls ++ b := by
  simp [objectsOf, List.filter_append]
@[simp] theorem objectsOf_snoc_other (ok : Bool) (calls : List (List Nat × Bool)) (b : List Nat) :
    objectsOf ok (calls ++ [(b, !ok)]) = objectsOf ok calls := by
  cases ok <;> simp [objectsOf, List.filter_append]

@[simp] theorem objectsOf_false_snoc_true (calls : List (List Nat × Bool)) (b : List Nat) :
    objectsOf false (calls ++ [(b, true)]) = objectsOf false calls := objectsOf_snoc_other false calls b
@[simp] theorem objectsOf_true_snoc_false (calls : List (List Nat × Bool)) (b : List Nat) :
    objectsOf true (calls ++ [(b, false)]) = objectsOf true calls := objectsOf_snoc_other true calls b

/-- everything but "an idle running loop has an empty queue" (which is false between `Terminated` and `nextJob`) -/
structure Core (s : State) : Prop where
  conserve : s.appended = s.persisted ++ s.failed ++ s.flight ++ s.pending
  handed : s.batches.flatten = s.persisted ++ s.failed ++ s.flight
  ackPre : s.acked <+: s.persisted
  live : s.phase ≠ .stopped → s.phase ≠ .dead → s.acked = s.persisted ∧ s.failed = []
  flightPhase : s.inflight ≠ none → (s.phase = .running ∨ s.phase = .stopping)
  flightIn : ∀ b, s.inflight = some b → b ∈ s.batches
  callsP : s.persisted = objectsOf true s.calls
  callsF : s.failed = objectsOf false s.calls
  callsB : ∀ b ok, (b, ok) ∈ s.calls → b ∈ s.batches
  sizes : 1 ≤ s.max → ∀ b ∈ s.batches, 1 ≤ b.length ∧ b.length ≤ s.max
  closed : s.closeCalled = false → (s.phase = .fresh ∨ s.phase = .running ∨ s.phase = .dead)
  closedQ : s.closeCalled = true → (s.phase = .stopping ∨ s.phase = .stopped ∨ s.phase = .dead)

structure Inv (s : State) : Prop extends Core s where
  /-- no missed wake-up: while the loop runs, work is queued only behind a batch in flight -/
  idle : s.phase = .running → s.inflight = none → s.pending = []

theorem flight_none {s : State} (h : s.inflight = none) : s.flight = [] := by simp [State.flight, h]
theorem flight_some {s : State} {b : List Nat} (h : s.inflight = some b) : s.flight = b := by simp [State.flight, h]

theorem init_inv (max : Nat) : Inv (init max) := by
  refine ⟨⟨?_, ?_, ?_, ?_, ?_, ?_, ?_, ?_, ?_, ?_, ?_, ?_⟩, ?_⟩ <;> simp [init, State.flight]

/-- `nextJob` of an idle running loop re-establishes the invariant -/
theorem cut_inv (s : State) (h : Core s) (hn : s.inflight = none) (hr : s.phase = .running) : Inv (cut s) := by
  by_cases hp : s.pending = []
  · have : cut s = s := by simp [cut, hp]
    rw [this]; exact ⟨h, fun _ _ => hp⟩
  · have hc : cut s = { s with inflight := some (s.pending.take s.max), pending := s.pending.drop s.max,
                               batches := s.batches ++ [s.pending.take s.max] } := by simp [cut, hp]
    have hf := flight_none hn
    have h1 := h.conserve; have h2 := h.handed; rw [hf] at h1 h2
    rw [hc]
    refine ⟨⟨?_, ?_, h.ackPre, h.live, ?_, ?_, h.callsP, h.callsF, ?_, ?_, h.closed, h.closedQ⟩, ?_⟩
    · simp only [State.flight, Option.getD_some]
      rw [h1]; simp [List.append_assoc, List.take_append_drop]
    · simp only [State.flight, Option.getD_some]
      rw [List.flatten_append, h2]; simp
    · intro _; exact Or.inl hr
    · intro b hb; simp only [Option.some.injEq] at hb; simp [hb]
    · intro b ok hc'; exact List.mem_append_left _ (h.callsB b ok hc')
    · intro hm b hb
      rcases List.mem_append.mp hb with hb | hb
      · exact h.sizes hm b hb
      · simp only [List.mem_singleton] at hb
        subst hb
        have : 0 < s.pending.length := List.length_pos_iff.mpr hp
        simp only [List.length_take]
        show 1 ≤ min s.max s.pending.length ∧ min s.max s.pending.length ≤ s.max
        have hm' : 1 ≤ s.max := hm
        omega
    · intro _ hno; simp at hno

@[simp] theorem cut_max (s : State) : (cut s).max = s.max := by unfold cut; split <;> rfl
@[simp] theorem cut_appended (s : State) : (cut s).appended = s.appended := by unfold cut; split <;> rfl
@[simp] theorem cut_acked (s : State) : (cut s).acked = s.acked := by unfold cut; split <;> rfl
@[simp] theorem cut_phase (s : State) : (cut s).phase = s.phase := by unfold cut; split <;> rfl
@[simp] theorem cut_closeReturned (s : State) : (cut s).closeReturned = s.closeReturned := by unfold cut; split <;> rfl

theorem step_max (s : State) (op : Op) : (step s op).max = s.max := by
  cases op <;> simp only [step] <;> (repeat' split) <;> simp

/-- **the invariant is inductive**: every operation, in every phase -/
theorem step_inv (s : State) (op : Op) (h : Inv s) : Inv (step s op) := by
  obtain ⟨max, appended, pending, inflight, batches, calls, persisted, failed, acked, phase, blocked, ar, cc, cr⟩ := s
  obtain ⟨⟨h1, h2, h3, h4, h5, h6, h7, h8, h9, h10, h11, h13⟩, h12⟩ := h
  simp only [State.flight] at h1 h2 h4 h5 h6 h7 h8 h9 h10 h11 h12 h13
  cases op <;> cases phase <;> cases inflight <;> cases cc <;> simp only [step] <;>
    first
    | exact ⟨⟨h1, h2, h3, h4, h5, h6, h7, h8, h9, h10, h11, h13⟩, h12⟩
    | (apply cut_inv <;> first | rfl | (refine ⟨?_, ?_, ?_, ?_, ?_, ?_, ?_, ?_, ?_, ?_, ?_, ?_⟩ <;> simp_all [State.flight]))
    | (refine ⟨⟨?_, ?_, ?_, ?_, ?_, ?_, ?_, ?_, ?_, ?_, ?_, ?_⟩, ?_⟩ <;> simp_all [State.flight])
  all_goals
    intro b hb
    rcases hb with hb | rfl
    · first | exact (h9 _).2 hb | exact (h9 _).1 hb
    · exact h6

theorem runFrom_inv (s : State) (ops : List Op) (h : Inv s) : Inv (runFrom s ops) := by
  induction ops generalizing s with
  | nil => exact h
  | cons op ops ih => exact ih (step s op) (step_inv s op h)

theorem run_inv (max : Nat) (ops : List Op) : Inv (run max ops) := runFrom_inv _ ops (init_inv max)

theorem runFrom_max (s : State) (ops : List Op) : (runFrom s ops).max = s.max := by
  induction ops generalizing s with
  | nil => rfl
  | cons op ops ih => exact (ih (step s op)).trans (step_max s op)

theorem runFrom_append (s : State) (a b : List Op) : runFrom s (a ++ b) = runFrom (runFrom s a) b := by
  simp [runFrom, List.foldl_append]

/-! ### once the loop is stopping, stopped or dead: no callback, no further batch, whatever happens next -/

def Quiet (s : State) : Prop := s.phase = .stopping ∨ s.phase = .stopped ∨ s.phase = .dead

theorem step_quiet (s : State) (op : Op) (h : Quiet s) :
    Quiet (step s op) ∧ (step s op).acked = s.acked ∧ (step s op).batches = s.batches := by
  obtain ⟨max, appended, pending, inflight, batches, calls, persisted, failed, acked, phase, blocked, ar, cc, cr⟩ := s
  simp only [Quiet] at h
  cases op <;> cases phase <;> cases inflight <;> cases cc <;> simp_all [step, Quiet]

theorem runFrom_quiet (s : State) (ops : List Op) (h : Quiet s) :
    Quiet (runFrom s ops) ∧ (runFrom s ops).acked = s.acked ∧ (runFrom s ops).batches = s.batches := by
  induction ops generalizing s with
  | nil => exact ⟨h, rfl, rfl⟩
  | cons op ops ih =>
    obtain ⟨q, a, b⟩ := step_quiet s op h
    obtain ⟨q', a', b'⟩ := ih (step s op) q
    exact ⟨q', a'.trans a, b'.trans b⟩

/-- a call that returned an error leaves the loop dead (or stopped, if `Close` was waiting for that call) -/
theorem failed_quiet (s : State) (h : Inv s) (hf : s.failed ≠ []) : Quiet s := by
  have := h.live
  cases hp : s.phase <;> simp_all [Quiet]

/-- `Close` leaves the loop stopping or stopped (or it was dead already) -/
theorem close_quiet (s : State) (h : Inv s) (hc : s.closeCalled = true) : Quiet s := by
  have := h.closedQ hc
  simpa [Quiet] using this

theorem step_close_closeCalled (s : State) (h : Inv s) (hp : s.phase ≠ .fresh) : (step s .close).closeCalled = true := by
  have hcl := h.closed
  obtain ⟨max, appended, pending, inflight, batches, calls, persisted, failed, acked, phase, blocked, ar, cc, cr⟩ := s
  cases phase <;> cases inflight <;> cases cc <;> simp_all [step]

theorem step_close_acked (s : State) : (step s .close).acked = s.acked ∧ (step s .close).batches = s.batches ∧
    (step s .close).persisted = s.persisted := by
  obtain ⟨max, appended, pending, inflight, batches, calls, persisted, failed, acked, phase, blocked, ar, cc, cr⟩ := s
  cases phase <;> cases inflight <;> cases cc <;> simp [step]

theorem step_fail_acked (s : State) : (step s .fail).acked = s.acked ∧ (step s .fail).batches = s.batches ∧
    (step s .fail).persisted = s.persisted := by
  obtain ⟨max, appended, pending, inflight, batches, calls, persisted, failed, acked, phase, blocked, ar, cc, cr⟩ := s
  cases phase <;> cases inflight <;> simp [step]

/-- a failing call is recorded, and the loop is dead (or stopped, if `Close` was waiting for that call) -/
theorem step_fail_spec (s : State) (b : List Nat) (hb : s.inflight = some b) (hp : s.phase = .running ∨ s.phase = .stopping) :
    (step s .fail).failed = s.failed ++ b ∧ Quiet (step s .fail) := by
  obtain ⟨max, appended, pending, inflight, batches, calls, persisted, failed, acked, phase, blocked, ar, cc, cr⟩ := s
  simp only at hb hp; subst hb
  rcases hp with rfl | rfl <;> simp [step, Quiet]

/-! ### a graceful stop waits for the call in flight: `Close` has returned only when the loop has ended and the worker is idle -/

/-- inductive on its own: `Close` returns either at once (nothing in flight) or in the step in which the call it waited for returns -/
def CloseInv (s : State) : Prop := s.closeReturned = true → s.phase = .stopped ∧ s.inflight = none

theorem init_closeInv (max : Nat) : CloseInv (init max) := by simp [CloseInv, init]

theorem step_closeInv (s : State) (op : Op) (h : CloseInv s) : CloseInv (step s op) := by
  obtain ⟨max, appended, pending, inflight, batches, calls, persisted, failed, acked, phase, blocked, ar, cc, cr⟩ := s
  simp only [CloseInv] at h
  cases op <;> cases phase <;> cases inflight <;> cases cc <;> cases cr <;> simp_all [step, CloseInv]

theorem runFrom_closeInv (s : State) (ops : List Op) (h : CloseInv s) : CloseInv (runFrom s ops) := by
  induction ops generalizing s with
  | nil => exact h
  | cons op ops ih => exact ih (step s op) (step_closeInv s op h)

theorem run_closeInv (max : Nat) (ops : List Op) : CloseInv (run max ops) := runFrom_closeInv _ ops (init_closeInv max)

/-- once the loop has ended with the worker idle, nothing reaches the runner function any more and no call returns -/
theorem step_ended (s : State) (op : Op) (hp : s.phase = .stopped) (hi : s.inflight = none) :
    (step s op).phase = .stopped ∧ (step s op).inflight = none ∧ (step s op).calls = s.calls ∧
    (step s op).batches = s.batches ∧ (step s op).persisted = s.persisted ∧ (step s op).acked = s.acked := by
  obtain ⟨max, appended, pending, inflight, batches, calls, persisted, failed, acked, phase, blocked, ar, cc, cr⟩ := s
  simp only at hp hi; subst hp; subst hi
  cases op <;> cases cc <;> simp [step]

theorem runFrom_ended (s : State) (ops : List Op) (hp : s.phase = .stopped) (hi : s.inflight = none) :
    (runFrom s ops).calls = s.calls ∧ (runFrom s ops).batches = s.batches ∧ (runFrom s ops).persisted = s.persisted ∧
    (runFrom s ops).acked = s.acked := by
  induction ops generalizing s with
  | nil => exact ⟨rfl, rfl, rfl, rfl⟩
  | cons op ops ih =>
    obtain ⟨p, i, c, b, pe, a⟩ := step_ended s op hp hi
    obtain ⟨c', b', pe', a'⟩ := ih (step s op) p i
    exact ⟨c'.trans c, b'.trans b, pe'.trans pe, a'.trans a⟩

/-! ### progress: while the loop runs, `release` after `release` drains the queue completely -/

def load (s : State) : Nat := s.pending.length + (if s.inflight.isSome then 1 else 0)

theorem release_running (s : State) (h : Inv s) (hr : s.phase = .running) (hm : 1 ≤ s.max) :
    (step s .release).phase = .running ∧ (s.inflight = none → step s .release = s) ∧
    (s.inflight ≠ none → load (step s .release) < load s) := by
  obtain ⟨max, appended, pending, inflight, batches, calls, persisted, failed, acked, phase, blocked, ar, cc, cr⟩ := s
  simp only at hr hm; subst hr
  cases inflight with
  | none => simp [step]
  | some b =>
    simp only [step, cut_phase, true_and]
    refine ⟨by simp, fun _ => ?_⟩
    simp only [load, cut]
    split
    · simp_all
    · rename_i hp
      have : 0 < pending.length := List.length_pos_iff.mpr hp
      simp only [List.length_drop, Option.isSome_some, if_true]
      omega

theorem drain (k : Nat) : ∀ (s : State), Inv s → s.phase = .running → 1 ≤ s.max → load s ≤ k →
    let s' := runFrom s (List.replicate k .release)
    s'.pending = [] ∧ s'.inflight = none ∧ s'.persisted = s.appended ∧ s'.acked = s.appended ∧ s'.phase = .running := by
  induction k with
  | zero =>
    intro s h hr hm hl
    have hp : s.pending = [] := by
      simp only [load] at hl; exact List.eq_nil_of_length_eq_zero (by omega)
    have hi : s.inflight = none := by
      cases hh : s.inflight with
      | none => rfl
      | some b => simp [load, hh] at hl
    obtain ⟨ha, hf⟩ := h.live (by simp [hr]) (by simp [hr])
    have := h.conserve
    simp only [flight_none hi, hp, hf, List.append_nil] at this
    simp only [List.replicate_zero, runFrom, List.foldl_nil]
    exact ⟨hp, hi, this.symm, by rw [ha, this], hr⟩
  | succ k ih =>
    intro s h hr hm hl
    obtain ⟨hr', hnone, hlt⟩ := release_running s h hr hm
    have hinv := step_inv s .release h
    have hmax : (step s .release).max = s.max := step_max s .release
    have happ : (step s .release).appended = s.appended := by
      obtain ⟨max, appended, pending, inflight, batches, calls, persisted, failed, acked, phase, blocked, ar, cc, cr⟩ := s
      cases phase <;> cases inflight <;> simp [step]
    have hl' : load (step s .release) ≤ k := by
      by_cases hi : s.inflight = none
      · rw [hnone hi]
        have hp := h.idle hr hi
        simp [load, hp, hi]
      · have := hlt hi; omega
    have := ih (step s .release) hinv hr' (by rw [hmax]; exact hm) hl'
    simpa [List.replicate_succ, runFrom, happ] using this

end Batcher
