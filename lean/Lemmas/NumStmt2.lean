import Lemmas.NumPos
/-! The last construct: a portion LITERAL as the value of `print` / `set_tx_meta` / `set_account_meta`.  The
compiler de-duplicates it against the resource table by `ValueEquals`, so the VM may hold another representation of
the same rational; what is stored / printed is the TEXT of the value (`NewStringFromValue`), which is the same
(`ratToString_ratRel`).  Statements are therefore related up to rendering (`RenderQ`). -/
namespace Num
open VM

variable {E : List (Acct × Asset)}

/-- the VM's value and `Spec`'s value are written the same -/
def RenderQ (w : BVal) (v : Val) : Prop := w.render = some (valToString v)

theorem renderQ_ofVal (v : Val) : RenderQ (BVal.ofVal v) v := by
  cases v <;> simp [RenderQ, BVal.ofVal, BVal.render, valToString, ratToString]

theorem renderQ_portion {r r' : Rat'} (h : RatRel r r') : RenderQ (.portion r') (.portion r) := by
  show some (ratToString r') = some (ratToString r)
  rw [ratToString_ratRel h]

/-- an expression of type portion is a literal or a variable -/
theorem visitExpr_portion_lit {st : CState} {e : Expr} {o : ExprOut} (h : visitExpr st e = .ok o) (hn : e.noPortion = false) :
    ∃ r, e = .portion r := by
  cases e with
  | portion r => exact ⟨r, rfl⟩
  | acct _ => cases hn
  | asset _ => cases hn
  | num _ => cases hn
  | str _ => cases hn
  | var _ => cases hn
  | badPortion => simp [visitExpr] at h
  | mon ae k =>
    have : o.ty ≠ .portion := by
      simp only [visitExpr] at h
      split at h
      · cases h
      · split at h
        · cases h
        · split at h
          · cases h
          · split at h
            · simp only [Except.ok.injEq] at h; subst h; intro hh; cases hh
            · split at h
              · cases h
              · simp only [Except.ok.injEq] at h; subst h; intro hh; cases hh
    rw [visitExpr_noPortion h this] at hn; cases hn
  | add l r =>
    have : o.ty ≠ .portion := by
      simp only [visitExpr] at h
      split at h
      · cases h
      · split at h
        · split at h
          · cases h
          · split at h
            · cases h
            · simp only [Except.ok.injEq] at h; subst h; intro hh; cases hh
        · split at h
          · split at h
            · cases h
            · split at h
              · cases h
              · simp only [Except.ok.injEq] at h; subst h; intro hh; cases hh
          · cases h
    rw [visitExpr_noPortion h this] at hn; cases hn
  | sub l r =>
    have : o.ty ≠ .portion := by
      simp only [visitExpr] at h
      split at h
      · cases h
      · split at h
        · split at h
          · cases h
          · split at h
            · cases h
            · simp only [Except.ok.injEq] at h; subst h; intro hh; cases hh
        · split at h
          · split at h
            · cases h
            · split at h
              · cases h
              · simp only [Except.ok.injEq] at h; subst h; intro hh; cases hh
          · cases h
    rw [visitExpr_noPortion h this] at hn; cases hn

/-- the code of a portion literal pushes a portion that is written the same -/
theorem portionLit_ok {R : List Resource} {V : List BVal} {env : VEnv} (cx : Ctx R V env) (hp : VPos V) {st : CState} {r : Rat'}
    {o : ExprOut} (hv : visitExpr st (.portion r) = .ok o) (hsub : Sub o.st R) (hr : 0 < r.den) :
    ∃ w, RenderQ w (.portion r) ∧ ∀ m : Machine, exec V o.code m = .ok (m.push w) := by
  simp only [visitExpr, litOut] at hv
  split at hv
  · cases hv
  · rename_i a st1 ha
    simp only [Except.ok.injEq] at hv; subst hv
    obtain ⟨_, c0, hc0, hveq⟩ := allocConst_ok ha
    have hV : V[a]? = some c0 := cx.res a _ (hsub a _ hc0)
    cases c0 <;> simp only [valueEquals, Bool.false_eq_true] at hveq
    rename_i r'
    have hr' : 0 < r'.den := hp a r' hV
    exact ⟨.portion r', renderQ_portion ⟨((ratEq_iff r' r).mp hveq).symm, hr, hr'⟩, fun m => exec_apush hV m⟩

/-- the statement fragment of the end-to-end statement: EVERY statement of the language, with the side conditions
of `Stmt.frag` except that a portion literal may be the value of `print` / `set_tx_meta` / `set_account_meta` —
provided its denominator is not zero -/
def Stmt.frag2 : Stmt → Bool
  | .setTxMeta _ v => v.litsPos
  | .setAccountMeta _ _ v => v.litsPos
  | .print e => e.litsPos
  | s => s.frag

theorem Stmt.frag2_of_frag {s : Stmt} (h : s.frag = true) : s.frag2 = true := by
  cases s with
  | setTxMeta k v => exact litsPos_of_noPortion h
  | setAccountMeta acc k v => exact litsPos_of_noPortion h
  | print e => exact litsPos_of_noPortion h
  | send _ _ _ => exact h
  | saveMon _ _ => rfl
  | saveAll _ _ => rfl
  | fail => rfl

theorem Stmt.litsPos_of_frag2 {s : Stmt} (h : s.frag2 = true) : s.litsPos = true := by
  cases s with
  | send amt src d =>
    have h' : (Stmt.send amt src d).frag = true := h
    cases src with
    | src sc =>
      simp only [Stmt.frag, Bool.and_eq_true] at h'
      simp only [Stmt.litsPos, h'.2]
    | allot items =>
      simp only [Stmt.frag, Bool.and_eq_true] at h'
      simp only [Stmt.litsPos, h'.2, h'.1.2, Bool.and_self]
  | setTxMeta k v => exact h
  | setAccountMeta acc k v => exact h
  | print e => exact h
  | saveMon _ _ => rfl
  | saveAll _ _ => rfl
  | fail => rfl

/-- what the code of ANY statement does, in `Spec`'s words, up to the way portions are written -/
theorem stmt_ok2 {R : List Resource} {V : List BVal} {env : VEnv} (cx : Ctx R V env) (hp : VPos V) {st st' : CState} {s : Stmt} {c : Code}
    (hv : visitStmt st s = .ok (c, st')) (hsub : Sub st' R) (hidx : VarIdxOK st) (hf : s.frag2 = true)
    {A : List Acct} (hE : EntOK V st'.needed A E) (m : Machine) (F : Full) (hrel : RelQ RenderQ A E m F) :
    match evalStmt env s F with
    | .error er => exec V c m = .error er
    | .ok F' => ∃ m', exec V c m = .ok m' ∧ RelQ RenderQ A E m' F' := by
  by_cases hfr : s.frag = true
  · exact stmt_okQ renderQ_ofVal cx hp hv hsub hidx hfr hE m F hrel
  · -- a portion literal is printed / stored
    obtain ⟨stk, ⟨accts, keys, bal⟩, ps, tm, am, pr⟩ := m
    obtain ⟨h1, h2, h3, h4, h5, h6, h7, hok⟩ := hrel
    simp only at h1 h2 h3 h4 h5 h6 h7
    subst h1 h2 h3 h4
    cases s with
    | fail => exact absurd rfl hfr
    | saveMon _ _ => exact absurd rfl hfr
    | saveAll _ _ => exact absurd rfl hfr
    | send _ _ _ => exact absurd hf hfr
    | print e =>
      simp only [Stmt.frag, Bool.not_eq_true] at hfr
      simp only [visitStmt] at hv
      split at hv
      · cases hv
      · rename_i o ho
        simp only [Except.ok.injEq, Prod.mk.injEq] at hv
        obtain ⟨rfl, rfl⟩ := hv
        obtain ⟨r, rfl⟩ := visitExpr_portion_lit ho hfr
        obtain ⟨w, hw, hex⟩ := portionLit_ok cx hp ho hsub (by simpa [Stmt.frag2, Expr.litsPos] using hf)
        simp only [evalStmt, evalExpr]
        refine ⟨_, by simp only [exec_append, hex, exec, step, popValue, Machine.push]; rfl, ?_⟩
        exact ⟨rfl, rfl, rfl, rfl, h5, h6, forall2_append h7 (List.Forall₂.cons hw List.Forall₂.nil), hok⟩
    | setTxMeta key v =>
      simp only [Stmt.frag, Bool.not_eq_true] at hfr
      simp only [visitStmt] at hv
      split at hv
      · cases hv
      · rename_i o ho
        split at hv
        · cases hv
        · rename_i k st1 hk
          simp only [Except.ok.injEq, Prod.mk.injEq] at hv
          obtain ⟨rfl, rfl⟩ := hv
          obtain ⟨hek, ck, hck, hveq⟩ := allocConst_ok hk
          have : ck = .str key := valueEquals_eq hveq (by intro r hr; cases hr) (by intro r hr; cases hr)
          subst this
          have hVk : V[k]? = some (.str key) := cx.res k _ (hsub k _ hck)
          obtain ⟨r, rfl⟩ := visitExpr_portion_lit ho hfr
          obtain ⟨w, hw, hex⟩ := portionLit_ok cx hp ho (hsub.of_ext hek) (by simpa [Stmt.frag2, Expr.litsPos] using hf)
          simp only [evalStmt, evalExpr]
          refine ⟨_, by simp only [exec_append, hex, exec, hVk, step, popStr, popValue, Machine.push]; rfl, ?_⟩
          exact ⟨rfl, rfl, rfl, rfl, setKey_forall2 h5 key hw, h6, h7, hok⟩
    | setAccountMeta acc key v =>
      simp only [Stmt.frag, Bool.not_eq_true] at hfr
      simp only [visitStmt] at hv
      split at hv
      · cases hv
      · rename_i o ho
        split at hv
        · cases hv
        · rename_i k st1 hk
          split at hv
          · cases hv
          · rename_i aA c2 st2 h2
            simp only [Except.ok.injEq, Prod.mk.injEq] at hv
            obtain ⟨rfl, rfl⟩ := hv
            obtain ⟨hek, ck, hck, hveq⟩ := allocConst_ok hk
            have : ck = .str key := valueEquals_eq hveq (by intro r hr; cases hr) (by intro r hr; cases hr)
            subst this
            have he2 := (visitTyped_ok h2).1
            have hVk : V[k]? = some (.str key) := cx.res k _ (hsub k _ (he2.get hck))
            have heo := visitExpr_ext ho
            obtain ⟨x, hx, hVa⟩ := acctAddr_ok cx h2 hsub ((heo.trans hek).varIdxOK hidx) (visitTyped_noPortion h2 (by decide))
            obtain ⟨r, rfl⟩ := visitExpr_portion_lit ho hfr
            obtain ⟨w, hw, hex⟩ := portionLit_ok cx hp ho ((hsub.of_ext he2).of_ext hek) (by simpa [Stmt.frag2, Expr.litsPos] using hf)
            simp only [evalStmt, evalExpr, hx]
            refine ⟨_, by simp only [exec_append, hex, exec, hVk, hVa, step, popStr, popAcct, popValue, Machine.push]; rfl, ?_⟩
            exact ⟨rfl, rfl, rfl, rfl, h5, acctMeta_forall2 h6 x key hw, h7, hok⟩

theorem stmts_ok2 {R : List Resource} {V : List BVal} {env : VEnv} (cx : Ctx R V env) (hp : VPos V) {st st' : CState} {ss : List Stmt} {c : Code}
    (hv : visitStmts st ss = .ok (c, st')) (hsub : Sub st' R) (hidx : VarIdxOK st) (hf : ∀ s ∈ ss, s.frag2 = true)
    {A : List Acct} (hE : EntOK V st'.needed A E) (m : Machine) (F : Full) (hrel : RelQ RenderQ A E m F) :
    match evalStmts env ss F with
    | .error er => exec V c m = .error er
    | .ok F' => ∃ m', exec V c m = .ok m' ∧ RelQ RenderQ A E m' F' := by
  induction ss generalizing st c m F with
  | nil =>
    simp only [visitStmts, Except.ok.injEq, Prod.mk.injEq] at hv
    obtain ⟨rfl, rfl⟩ := hv
    exact ⟨m, rfl, hrel⟩
  | cons s rest ih =>
    simp only [visitStmts] at hv
    split at hv
    · cases hv
    · rename_i c1 st1 h1
      split at hv
      · cases hv
      · rename_i c2 st2 h2
        simp only [Except.ok.injEq, Prod.mk.injEq] at hv
        obtain ⟨rfl, rfl⟩ := hv
        have he2 := visitStmts_ext h2
        have he1 := visitStmt_ext h1
        have hs := stmt_ok2 cx hp h1 (hsub.of_ext he2) hidx (hf s (List.mem_cons_self ..)) (hE.mono he2) m F hrel
        simp only [evalStmts]
        cases hev : evalStmt env s F with
        | error er =>
          rw [hev] at hs
          simp only [exec_append, hs]
        | ok F1 =>
          rw [hev] at hs
          obtain ⟨m1, hx1, hr1⟩ := hs
          have := ih h2 (he1.varIdxOK hidx) (fun s' hs' => hf s' (List.mem_cons_of_mem _ hs')) m1 F1 hr1
          simp only
          cases hev2 : evalStmts env rest F1 with
          | error er =>
            rw [hev2] at this
            simp only [exec_append, hx1, this]
          | ok F2 =>
            rw [hev2] at this
            obtain ⟨m2, hx2, hr2⟩ := this
            exact ⟨m2, by simp only [exec_append, hx1, hx2], hr2⟩

/-- the whole language, with its side conditions: at least one statement (the grammar requires it), and every
statement satisfies `Stmt.frag2` -/
def Script.frag2 (P : Script) : Prop := P.stmts ≠ [] ∧ ∀ s ∈ P.stmts, s.frag2 = true

theorem Script.frag2_of_frag {P : Script} (h : P.frag) : P.frag2 := ⟨h.1, fun s hs => Stmt.frag2_of_frag (h.2 s hs)⟩

/-- **execution of ANY compiled program is what `Spec` says**, up to the way portions are written -/
theorem execute_correct2 {P : Script} {prog : Program} (hc : compile P = .ok prog) (hfr : P.frag2)
    {V : List BVal} {env : VEnv} (cx : Ctx prog.resources V env) (hp : VPos V) {A : List Acct} (hE : EntOK V prog.needed A E)
    (m : Machine) (F : Full) (hrel : RelQ RenderQ A E m F) :
    match evalStmts env P.stmts F with
    | .error er => VM.execute prog.instrs V m = .error er
    | .ok F' => ∃ m', VM.execute prog.instrs V m = .ok m' ∧ RelQ RenderQ A E m' F' := by
  unfold compile at hc
  split at hc
  · cases hc
  · rename_i st0 h0
    split at hc
    · cases hc
    · rename_i code st h1
      simp only [Except.ok.injEq] at hc; subst hc
      have hidx := visitVars_idxOK h0
      have hne : code ≠ [] := by
        cases hs : P.stmts with
        | nil => exact absurd hs hfr.1
        | cons s rest =>
          rw [hs] at h1
          simp only [visitStmts] at h1
          split at h1
          · cases h1
          · rename_i c1 st1 hh
            split at h1
            · cases h1
            · simp only [Except.ok.injEq, Prod.mk.injEq] at h1
              obtain ⟨rfl, _⟩ := h1
              have := visitStmt_code_ne_nil hh
              intro hcontra
              exact this (List.append_eq_nil_iff.mp hcontra).1
      have hs := stmts_ok2 cx hp h1 (fun a r hr => hr) hidx hfr.2 hE m F hrel
      cases code with
      | nil => exact absurd rfl hne
      | cons i is =>
        simp only [execute]
        cases hev : evalStmts env P.stmts F with
        | error er =>
          rw [hev] at hs
          simp only [hs]
        | ok F' =>
          rw [hev] at hs
          obtain ⟨m', hx, hr⟩ := hs
          refine ⟨m', ?_, hr⟩
          simp only [hx, hr.stack, List.isEmpty_nil, if_true]

end Num
