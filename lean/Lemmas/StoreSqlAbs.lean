import Lemmas.StoreSqlVal
/-! C04 stage 2, layer 1: **data refinement of the generated definitions**.

An abstract database `ADB` has the same five projection tables as `Generated/Schema.lean`, with TYPED columns (the ledger is a
`String`, a `seq` a `Nat`, an effective date an `Int`, volumes are integers, metadata a key/value list …); `conc : ADB → DB`
renders it as the `Val`-valued rows the generated code works on.  For every generated function `f` this file has an abstract
counterpart `aF` and the commutation theorem `f (conc A) ⟨typed arguments⟩ = conc (aF A …)`, proved by UNFOLDING the regenerated
definition: it is the only place where the generated code is looked into, and it stops checking when the SQL changes.
No invariant is needed for most of these equations (they hold for every abstract database); `insert_move` needs the account row
to exist, which `insert_posting` establishes by upserting first.

The abstract functions keep the control structure of the SQL (selects, conditional resets, the two `update moves` statements);
what they MAINTAIN is the subject of `Lemmas/StoreSqlInv.lean`. -/
namespace StoreSql
open Sql Schema Store

abbrev Kvs := List (String × J)

structure AAcct where
  seq : Nat
  ledger : String
  address : String
  ins : Val
  upd : Val
  md : Kvs

structure AAcctMeta where
  seq : Nat
  ledger : String
  acctSeq : Nat
  md : Kvs
  revision : Val
  date : Val

structure ATx where
  seq : Nat
  ledger : String
  id : Int
  ts : Int
  reference : Val
  revertedAt : Val
  updatedAt : Val
  postings : Val
  sources : Val
  destinations : Val
  sourcesArrays : Val
  destinationsArrays : Val
  md : Kvs

structure ATxMeta where
  seq : Nat
  ledger : String
  txSeq : Nat
  revision : Val
  date : Val
  md : Kvs

structure AMove where
  seq : Nat
  ledger : String
  txSeq : Val
  acctSeq : Nat
  account : String
  asset : String
  amount : Int
  ins : Val
  eff : Int
  pcvIn : Int
  pcvOut : Int
  pcevIn : Int
  pcevOut : Int
  isSource : Bool

structure ADB where
  txs : List ATx := []
  txMeta : List ATxMeta := []
  accounts : List AAcct := []
  acctMeta : List AAcctMeta := []
  moves : List AMove := []
  logs : List LogsRow := []
  txSeq : Nat := 1
  txMetaSeq : Nat := 1
  acctSeq : Nat := 1
  acctMetaSeq : Nat := 1
  movesSeq : Nat := 1
  logsSeq : Nat := 1

def AAcct.row (a : AAcct) : AccountsRow :=
  { seq := .int a.seq, ledger := .text a.ledger, address := .text a.address, address_array := addressArray (.text a.address),
    insertion_date := a.ins, updated_at := a.upd, metadata := .json (.obj a.md) }

def AAcctMeta.row (h : AAcctMeta) : AccountsMetadataRow :=
  { seq := .int h.seq, ledger := .text h.ledger, accounts_seq := .int h.acctSeq, metadata := .json (.obj h.md), revision := h.revision,
    date := h.date }

def ATx.row (t : ATx) : TransactionsRow :=
  { seq := .int t.seq, ledger := .text t.ledger, id := .int t.id, timestamp := .ts t.ts, reference := t.reference, reverted_at := t.revertedAt,
    updated_at := t.updatedAt, postings := t.postings, sources := t.sources, destinations := t.destinations,
    sources_arrays := t.sourcesArrays, destinations_arrays := t.destinationsArrays, metadata := .json (.obj t.md) }

def ATxMeta.row (h : ATxMeta) : TransactionsMetadataRow :=
  { seq := .int h.seq, ledger := .text h.ledger, transactions_seq := .int h.txSeq, revision := h.revision, date := h.date,
    metadata := .json (.obj h.md) }

def AMove.row (m : AMove) : MovesRow :=
  { seq := .int m.seq, ledger := .text m.ledger, transactions_seq := m.txSeq, accounts_seq := .int m.acctSeq, account_address := .text m.account,
    account_address_array := addressArray (.text m.account), asset := .text m.asset, amount := .int m.amount, insertion_date := m.ins,
    effective_date := .ts m.eff, post_commit_volumes := .vol (.int m.pcvIn) (.int m.pcvOut),
    post_commit_effective_volumes := .vol (.int m.pcevIn) (.int m.pcevOut), is_source := .bool m.isSource }

def conc (A : ADB) : DB :=
  { transactions := A.txs.map ATx.row, transactions_metadata := A.txMeta.map ATxMeta.row, accounts := A.accounts.map AAcct.row,
    accounts_metadata := A.acctMeta.map AAcctMeta.row, moves := A.moves.map AMove.row, logs := A.logs,
    transactions_seq := A.txSeq, transactions_metadata_seq := A.txMetaSeq, accounts_seq := A.acctSeq,
    accounts_metadata_seq := A.acctMetaSeq, moves_seq := A.movesSeq, logs_seq := A.logsSeq }

theorem conc_empty : conc {} = {} := rfl
@[simp] theorem conc_txs (A : ADB) : (conc A).transactions = A.txs.map ATx.row := rfl
@[simp] theorem conc_txMeta (A : ADB) : (conc A).transactions_metadata = A.txMeta.map ATxMeta.row := rfl
@[simp] theorem conc_accounts (A : ADB) : (conc A).accounts = A.accounts.map AAcct.row := rfl
@[simp] theorem conc_acctMeta (A : ADB) : (conc A).accounts_metadata = A.acctMeta.map AAcctMeta.row := rfl
@[simp] theorem conc_moves (A : ADB) : (conc A).moves = A.moves.map AMove.row := rfl
@[simp] theorem conc_logs (A : ADB) : (conc A).logs = A.logs := rfl

-- ---------------------------------------------------------------- accounts

def acctKey (l a : String) (r : AAcct) : Bool := r.ledger == l && r.address == a

/-- the `insert_account` trigger: revision 1 -/
def aAcctInsHist (A : ADB) (r : AAcct) : ADB :=
  { A with acctMeta := A.acctMeta ++ [{ seq := A.acctMetaSeq, ledger := r.ledger, acctSeq := r.seq, md := r.md, revision := .int 1, date := r.ins }],
           acctMetaSeq := A.acctMetaSeq + 1 }

def nextRevA (hs : List AAcctMeta) (s : Nat) : Val :=
  col (selectFirst hs (fun h => Val.bool (h.acctSeq == s)) [{ get := fun h => h.revision, desc := true }]) (fun h => Val.add h.revision (.int 1))

/-- the `update_account` trigger: next revision -/
def aAcctUpdHist (A : ADB) (r : AAcct) : ADB :=
  { A with acctMeta := A.acctMeta ++ [{ seq := A.acctMetaSeq, ledger := r.ledger, acctSeq := r.seq, md := r.md,
                                         revision := nextRevA A.acctMeta r.seq, date := r.upd }],
           acctMetaSeq := A.acctMetaSeq + 1 }

def aUpdateAccounts (A : ADB) (p : AAcct → Bool) (u : AAcct → AAcct) : ADB :=
  ((A.accounts.filter p).map u).foldl aAcctUpdHist { A with accounts := A.accounts.map (fun r => if p r then u r else r) }

def aUpsertAccount (A : ADB) (l a : String) (m : Kvs) (d : Val) : ADB :=
  if A.accounts.any (acctKey l a) then
    aUpdateAccounts A (fun r => acctKey l a r && !(J.contains (.obj r.md) (.obj m))) (fun r => { r with md := J.concatKvs r.md m, upd := d })
  else
    let new : AAcct := { seq := A.acctSeq, ledger := l, address := a, ins := d, upd := d, md := m }
    aAcctInsHist { A with accounts := A.accounts ++ [new], acctSeq := A.acctSeq + 1 } new

def aDeleteAccountMetadata (A : ADB) (l a k : String) (d : Val) : ADB :=
  aUpdateAccounts A (fun r => r.address == a && r.ledger == l) (fun r => { r with md := J.removeKey k r.md, upd := d })

theorem insert_account_hist_conc (A : ADB) (r : AAcct) :
    insert_account_metadata_history (conc A) r.row = conc (aAcctInsHist A r) := by
  simp [insert_account_metadata_history, insert_accounts_metadata, Sql.insertRow, tbl_accounts_metadata, conc, aAcctInsHist, AAcctMeta.row, AAcct.row]

theorem update_account_hist_conc (A : ADB) (r : AAcct) :
    update_account_metadata_history (conc A) r.row = conc (aAcctUpdHist A r) := by
  simp [update_account_metadata_history, insert_accounts_metadata, Sql.insertRow, tbl_accounts_metadata, conc, aAcctUpdHist, AAcctMeta.row, AAcct.row,
    selectFirst_map, nextRevA]

theorem fire_account_hist_conc (rows : List AAcct) (A : ADB) :
    Sql.fireEach update_account_metadata_history (conc A) (rows.map AAcct.row) = conc (rows.foldl aAcctUpdHist A) := by
  induction rows generalizing A with
  | nil => rfl
  | cons r rs ih => simp only [Sql.fireEach, List.map_cons, List.foldl_cons, update_account_hist_conc] at ih ⊢; exact ih _

theorem update_accounts_conc (A : ADB) (pred : AccountsRow → Val) (upd : AccountsRow → AccountsRow) (p : AAcct → Bool) (u : AAcct → AAcct)
    (hp : ∀ r, truthy (pred r.row) = p r) (hu : ∀ r, upd r.row = (u r).row) :
    update_accounts (conc A) pred upd = conc (aUpdateAccounts A p u) := by
  have h1 : (Sql.updateWhere tbl_accounts (conc A) pred upd).1 = conc { A with accounts := A.accounts.map (fun r => if p r then u r else r) } := by
    simp only [Sql.updateWhere, tbl_accounts, conc, List.map_map]
    congr 1
    apply List.map_congr_left
    intro r _
    by_cases h : p r = true <;> simp [hp, hu, h]
  have h2 : (Sql.updateWhere tbl_accounts (conc A) pred upd).2 = ((A.accounts.filter p).map u).map AAcct.row := by
    simp only [Sql.updateWhere, tbl_accounts, conc, List.filter_map, List.map_map]
    have : ((fun r => truthy (pred r)) ∘ AAcct.row) = p := by funext r; exact hp r
    rw [this]
    apply List.map_congr_left
    intro r _; exact hu r
  simp only [update_accounts, h1, h2, fire_account_hist_conc, aUpdateAccounts]

theorem upsert_account_conc (A : ADB) (l a : String) (mv : Val) (m : Kvs) (d : Val)
    (hm : Val.coalesce mv (Val.json (J.obj [])) = .json (.obj m)) :
    upsert_account (conc A) (.text l) (.text a) mv d = conc (aUpsertAccount A l a m d) := by
  simp only [upsert_account, upsert_accounts, Sql.upsertRow, hm]
  have hany : ((tbl_accounts.rows (conc A)).any (fun r => Sql.truthy (Val.eq r.ledger (Val.text l)) && Sql.truthy (Val.eq r.address (Val.text a))))
      = A.accounts.any (acctKey l a) := by
    unfold acctKey
    simp [tbl_accounts, conc, List.any_map, AAcct.row, Function.comp_def]
  rw [hany]
  unfold aUpsertAccount
  by_cases h : A.accounts.any (acctKey l a) = true
  · simp only [h, if_true]
    exact update_accounts_conc A _ _ _ _
      (by intro r; by_cases h1 : r.ledger = l <;> by_cases h2 : r.address = a <;> simp [AAcct.row, acctKey, h1, h2])
      (by intro r; simp [AAcct.row])
  · simp only [h, if_false, Bool.false_eq_true]
    have := insert_account_hist_conc { A with accounts := A.accounts ++ [{ seq := A.acctSeq, ledger := l, address := a, ins := d, upd := d, md := m }], acctSeq := A.acctSeq + 1 }
      { seq := A.acctSeq, ledger := l, address := a, ins := d, upd := d, md := m }
    rw [← this]
    simp [Sql.insertRow, tbl_accounts, conc, AAcct.row]

theorem delete_account_metadata_conc (A : ADB) (l a k : String) (d : Val) :
    delete_account_metadata (conc A) (.text l) (.text a) (.text k) d = conc (aDeleteAccountMetadata A l a k d) := by
  simp only [delete_account_metadata, aDeleteAccountMetadata]
  exact update_accounts_conc A _ _ _ _ (by intro r; simp [AAcct.row]) (by intro r; simp [AAcct.row])

-- ---------------------------------------------------------------- transactions

def aTxInsHist (A : ADB) (r : ATx) : ADB :=
  { A with txMeta := A.txMeta ++ [{ seq := A.txMetaSeq, ledger := r.ledger, txSeq := r.seq, revision := .int 1, date := .ts r.ts, md := r.md }],
           txMetaSeq := A.txMetaSeq + 1 }

def nextRevT (hs : List ATxMeta) (s : Nat) : Val :=
  col (selectFirst hs (fun h => Val.bool (h.txSeq == s)) [{ get := fun h => h.revision, desc := true }]) (fun h => Val.add h.revision (.int 1))

def aTxUpdHist (A : ADB) (r : ATx) : ADB :=
  { A with txMeta := A.txMeta ++ [{ seq := A.txMetaSeq, ledger := r.ledger, txSeq := r.seq, revision := nextRevT A.txMeta r.seq, date := r.updatedAt,
                                     md := r.md }],
           txMetaSeq := A.txMetaSeq + 1 }

def aUpdateTxs (A : ADB) (p : ATx → Bool) (u : ATx → ATx) : ADB :=
  ((A.txs.filter p).map u).foldl aTxUpdHist { A with txs := A.txs.map (fun r => if p r then u r else r) }

def txKey (l : String) (id : Int) (r : ATx) : Bool := r.id == id && r.ledger == l

def aRevertTransaction (A : ADB) (l : String) (id : Int) (d : Val) : ADB :=
  aUpdateTxs A (txKey l id) (fun r => { r with revertedAt := d })
def aUpdateTransactionMetadata (A : ADB) (l : String) (id : Int) (m : Kvs) (d : Val) : ADB :=
  aUpdateTxs A (txKey l id) (fun r => { r with md := J.concatKvs r.md m, updatedAt := d })
def aDeleteTransactionMetadata (A : ADB) (l : String) (id : Int) (k : String) (d : Val) : ADB :=
  aUpdateTxs A (txKey l id) (fun r => { r with md := J.removeKey k r.md, updatedAt := d })

theorem insert_tx_hist_conc (A : ADB) (r : ATx) :
    insert_transaction_metadata_history (conc A) r.row = conc (aTxInsHist A r) := by
  simp [insert_transaction_metadata_history, insert_transactions_metadata, Sql.insertRow, tbl_transactions_metadata, conc, aTxInsHist, ATxMeta.row, ATx.row]

theorem update_tx_hist_conc (A : ADB) (r : ATx) :
    update_transaction_metadata_history (conc A) r.row = conc (aTxUpdHist A r) := by
  simp [update_transaction_metadata_history, insert_transactions_metadata, Sql.insertRow, tbl_transactions_metadata, conc, aTxUpdHist, ATxMeta.row, ATx.row,
    selectFirst_map, nextRevT]

theorem fire_tx_hist_conc (rows : List ATx) (A : ADB) :
    Sql.fireEach update_transaction_metadata_history (conc A) (rows.map ATx.row) = conc (rows.foldl aTxUpdHist A) := by
  induction rows generalizing A with
  | nil => rfl
  | cons r rs ih => simp only [Sql.fireEach, List.map_cons, List.foldl_cons, update_tx_hist_conc] at ih ⊢; exact ih _

theorem update_transactions_conc (A : ADB) (pred : TransactionsRow → Val) (upd : TransactionsRow → TransactionsRow) (p : ATx → Bool) (u : ATx → ATx)
    (hp : ∀ r, truthy (pred r.row) = p r) (hu : ∀ r, upd r.row = (u r).row) :
    update_transactions (conc A) pred upd = conc (aUpdateTxs A p u) := by
  have h1 : (Sql.updateWhere tbl_transactions (conc A) pred upd).1 = conc { A with txs := A.txs.map (fun r => if p r then u r else r) } := by
    simp only [Sql.updateWhere, tbl_transactions, conc, List.map_map]
    congr 1
    apply List.map_congr_left
    intro r _
    by_cases h : p r = true <;> simp [hp, hu, h]
  have h2 : (Sql.updateWhere tbl_transactions (conc A) pred upd).2 = ((A.txs.filter p).map u).map ATx.row := by
    simp only [Sql.updateWhere, tbl_transactions, conc, List.filter_map, List.map_map]
    have : ((fun r => truthy (pred r)) ∘ ATx.row) = p := by funext r; exact hp r
    rw [this]
    apply List.map_congr_left
    intro r _; exact hu r
  simp only [update_transactions, h1, h2, fire_tx_hist_conc, aUpdateTxs]

theorem revert_transaction_conc (A : ADB) (l : String) (id : Int) (d : Val) :
    revert_transaction (conc A) (.text l) (.int id) d = conc (aRevertTransaction A l id d) := by
  simp only [revert_transaction, aRevertTransaction]
  exact update_transactions_conc A _ _ _ _ (by intro r; simp [ATx.row, txKey]) (by intro r; simp [ATx.row])

theorem update_transaction_metadata_conc (A : ADB) (l : String) (id : Int) (m : Kvs) (d : Val) :
    update_transaction_metadata (conc A) (.text l) (.int id) (.json (.obj m)) d = conc (aUpdateTransactionMetadata A l id m d) := by
  simp only [update_transaction_metadata, aUpdateTransactionMetadata]
  exact update_transactions_conc A _ _ _ _ (by intro r; simp [ATx.row, txKey]) (by intro r; simp [ATx.row])

theorem delete_transaction_metadata_conc (A : ADB) (l : String) (id : Int) (k : String) (d : Val) :
    delete_transaction_metadata (conc A) (.text l) (.int id) (.text k) d = conc (aDeleteTransactionMetadata A l id k d) := by
  simp only [delete_transaction_metadata, aDeleteTransactionMetadata]
  exact update_transactions_conc A _ _ _ _ (by intro r; simp [ATx.row, txKey]) (by intro r; simp [ATx.row])

-- ---------------------------------------------------------------- moves

def moveSel (acc : Nat) (x : String) (r : AMove) : Bool := r.acctSeq == acc && r.asset == x

/-- `select … from moves where accounts_seq = … and asset = … order by seq desc limit 1` -/
def aLastMove (ms : List AMove) (acc : Nat) (x : String) : Option AMove :=
  selectFirst ms (fun r => Val.bool (moveSel acc x r)) [{ get := fun r => Val.int r.seq, desc := true }]

/-- `… and effective_date <= e order by effective_date desc, seq desc limit 1` -/
def aLastEffMove (ms : List AMove) (acc : Nat) (x : String) (e : Int) : Option AMove :=
  selectFirst ms (fun r => Val.bool (moveSel acc x r && decide (r.eff ≤ e)))
    [{ get := fun r => Val.ts r.eff, desc := true }, { get := fun r => Val.int r.seq, desc := true }]

def bumpEff (src : Bool) (amt : Int) (r : AMove) : AMove :=
  { r with pcevIn := r.pcevIn + (if src then 0 else amt), pcevOut := r.pcevOut + (if src then amt else 0) }

def aInsertMove (A : ADB) (txSeq : Val) (l : String) (ins : Val) (eff : Int) (a x : String) (amt : Int) (src ex : Bool) (acc : Nat) : ADB :=
  let pcv : Int × Int :=
    if ex then (match aLastMove A.moves acc x with | some r => (r.pcvIn, r.pcvOut) | none => (0, 0)) else (0, 0)
  let pcev : Int × Int :=
    if ex then
      (match aLastMove A.moves acc x with
       | none => (0, 0)
       | some _ => (match aLastEffMove A.moves acc x eff with | some r => (r.pcevIn, r.pcevOut) | none => (0, 0)))
    else (0, 0)
  let new : AMove :=
    { seq := A.movesSeq, ledger := l, txSeq := txSeq, acctSeq := acc, account := a, asset := x, amount := amt, ins := ins, eff := eff,
      pcvIn := if src then pcv.1 else pcv.1 + amt, pcvOut := if src then pcv.2 + amt else pcv.2,
      pcevIn := if src then pcev.1 else pcev.1 + amt, pcevOut := if src then pcev.2 + amt else pcev.2, isSource := src }
  let ms := A.moves ++ [new]
  let ms := if ex then
      (ms.map (fun r => if moveSel acc x r && decide (eff < r.eff) then bumpEff src amt r else r)).map
        (fun r => if moveSel acc x r && r.eff == eff && decide ((A.movesSeq : Int) < r.seq) then bumpEff src amt r else r)
    else ms
  { A with moves := ms, movesSeq := A.movesSeq + 1 }

theorem update_moves_conc (A : ADB) (pred : MovesRow → Val) (upd : MovesRow → MovesRow) (p : AMove → Bool) (u : AMove → AMove)
    (hp : ∀ r, truthy (pred r.row) = p r) (hu : ∀ r, upd r.row = (u r).row) :
    update_moves (conc A) pred upd = conc { A with moves := A.moves.map (fun r => if p r then u r else r) } := by
  simp only [update_moves, Sql.updateWhere, tbl_moves, conc, List.map_map]
  congr 1
  apply List.map_congr_left
  intro r _
  by_cases h : p r = true <;> simp [hp, hu, h]

theorem accounts_find_conc (A : ADB) (l a : String) :
    selectFirst (conc A).accounts (fun r => Val.and (Val.eq r.ledger (.text l)) (Val.eq r.address (.text a))) [] =
      (A.accounts.find? (acctKey l a)).map AAcct.row := by
  simp only [conc, selectFirst_nokeys, List.find?_map]
  congr 2
  funext r
  simp [AAcct.row, acctKey]

def exVal (ex : Bool) : Val := if ex then .bool true else .null

theorem lastMove_conc (A : ADB) (acc : Nat) (x : String) :
    selectFirst (conc A).moves (fun r => Val.and (Val.eq r.accounts_seq (.int acc)) (Val.eq r.asset (.text x))) [{ get := fun r => r.seq, desc := true }] =
      (aLastMove A.moves acc x).map AMove.row := by
  simp only [conc, selectFirst_map, aLastMove, List.map_cons, List.map_nil]
  congr 1
  apply selectFirst_congr
  intro r _
  simp [AMove.row, moveSel]

theorem lastEffMove_conc (A : ADB) (acc : Nat) (x : String) (e : Int) :
    selectFirst (conc A).moves (fun r => Val.and (Val.and (Val.eq r.accounts_seq (.int acc)) (Val.eq r.asset (.text x))) (Val.le r.effective_date (.ts e)))
        [{ get := fun r => r.effective_date, desc := true }, { get := fun r => r.seq, desc := true }] =
      (aLastEffMove A.moves acc x e).map AMove.row := by
  simp only [conc, selectFirst_map, aLastEffMove, List.map_cons, List.map_nil]
  congr 1
  apply selectFirst_congr
  intro r _
  simp [AMove.row, moveSel]

theorem insert_moves_conc (A : ADB) (m : AMove) :
    insert_moves (conc A) { m.row with seq := .null } =
      (conc { A with moves := A.moves ++ [{ m with seq := A.movesSeq }], movesSeq := A.movesSeq + 1 }, ({ m with seq := A.movesSeq } : AMove).row) := by
  simp [insert_moves, Sql.insertRow, tbl_moves, conc, AMove.row]

theorem insert_move_conc (A : ADB) (txSeq : Val) (l : String) (ins : Val) (eff : Int) (a x : String) (amt : Int) (src ex : Bool) (r0 : AAcct)
    (hacc : A.accounts.find? (acctKey l a) = some r0) :
    insert_move (conc A) txSeq (.text l) ins (.ts eff) (.text a) (.text x) (.int amt) (.bool src) (exVal ex) =
      conc (aInsertMove A txSeq l ins eff a x amt src ex r0.seq) := by
  have eacc := accounts_find_conc A l a
  rw [hacc] at eacc
  have e1 := lastMove_conc A r0.seq x
  have e2 := lastEffMove_conc A r0.seq x eff
  simp only [conc] at eacc e1 e2
  have ins_ := fun (i o ei eo : Int) => insert_moves_conc A { seq := 0, ledger := l, txSeq := txSeq, acctSeq := r0.seq, account := a, asset := x, amount := amt, ins := ins, eff := eff, pcvIn := i, pcvOut := o, pcevIn := ei, pcevOut := eo, isSource := src }
  simp only [AMove.row] at ins_
  have upd := fun (A1 : ADB) (s : Bool) =>
    update_moves_conc A1
      (fun r => Val.and (Val.and (Val.eq r.accounts_seq (.int r0.seq)) (Val.eq r.asset (.text x))) (Val.gt r.effective_date (.ts eff)))
      (fun r => { r with post_commit_effective_volumes := Val.vol (Val.add (Val.field "inputs" r.post_commit_effective_volumes) (.int (if s then 0 else amt)))
                                                                  (Val.add (Val.field "outputs" r.post_commit_effective_volumes) (.int (if s then amt else 0))) })
      (fun r => moveSel r0.seq x r && decide (eff < r.eff)) (bumpEff s amt)
      (by intro r; simp [AMove.row, moveSel]) (by intro r; simp [AMove.row, bumpEff])
  have upd2 := fun (A1 : ADB) (s : Bool) =>
    update_moves_conc A1
      (fun r => Val.and (Val.and (Val.and (Val.eq r.accounts_seq (.int r0.seq)) (Val.eq r.asset (.text x))) (Val.eq r.effective_date (.ts eff))) (Val.gt r.seq (.int A.movesSeq)))
      (fun r => { r with post_commit_effective_volumes := Val.vol (Val.add (Val.field "inputs" r.post_commit_effective_volumes) (.int (if s then 0 else amt)))
                                                                  (Val.add (Val.field "outputs" r.post_commit_effective_volumes) (.int (if s then amt else 0))) })
      (fun r => moveSel r0.seq x r && r.eff == eff && decide ((A.movesSeq : Int) < r.seq)) (bumpEff s amt)
      (by intro r; simp [AMove.row, moveSel]) (by intro r; simp [AMove.row, bumpEff])
  cases ex
  · cases src <;>
      simp [insert_move, eacc, AAcct.row, exVal, aInsertMove, ins_]
  · cases src
    · have u1 := fun A1 => upd A1 false
      have u2 := fun A1 => upd2 A1 false
      simp only [Bool.false_eq_true, if_false] at u1 u2
      cases h1 : aLastMove A.moves r0.seq x <;> cases h2 : aLastEffMove A.moves r0.seq x eff <;> rw [h1] at e1 <;> rw [h2] at e2 <;>
        simp [insert_move, eacc, e1, e2, AAcct.row, exVal, aInsertMove, h1, h2, ins_, AMove.row, u1, u2]
    · have u1 := fun A1 => upd A1 true
      have u2 := fun A1 => upd2 A1 true
      simp only [if_true] at u1 u2
      cases h1 : aLastMove A.moves r0.seq x <;> cases h2 : aLastEffMove A.moves r0.seq x eff <;> rw [h1] at e1 <;> rw [h2] at e2 <;>
        simp [insert_move, eacc, e1, e2, AAcct.row, exVal, aInsertMove, h1, h2, ins_, AMove.row, u1, u2]

end StoreSql
