import Lemmas.StoreSqlVal
/-! C04 stage 2, layer 1: **data refinement of the generated definitions**.

An abstract database `ADB` has the same five projection tables as `Generated/Schema.lean`, with TYPED columns (the ledger is a
`String`, a `seq` a `Nat`, an effective date an `Int`, volumes are integers, metadata a key/value list …); `conc : ADB → DB`
renders it as the `Val`-valued rows the generated code works on.  For every generated function `f` this file has an abstract
counterpart `aF` and the commutation theorem `f (conc A) ⟨typed arguments⟩ = conc (aF A …)`, proved by UNFOLDING the regenerated
definition: it is the only place where the generated code is looked into, and it stops checking when the SQL changes.
No invariant is needed for most of these equations (they hold for every abstract database); `insert_move` needs the account row
to exist, which `insert_posting` establishes by upserting first.

The abstract functions keep the control structure of the SQL (selects, conditional resets, the two `update moves` statements);
what they MAINTAIN is the subject of `Lemmas/StoreSqlInv.lean`. -/
namespace StoreSql
open Sql Schema Store

abbrev Kvs := List (String × J)

structure AAcct where
  seq : Nat
  ledger : String
  address : String
  ins : Val
  upd : Val
  md : Kvs

structure AAcctMeta where
  seq : Nat
  ledger : String
  acctSeq : Nat
  md : Kvs
  revision : Val
  date : Val

structure ATx where
  seq : Nat
  ledger : String
  id : Int
  ts : Int
  reference : Val
  revertedAt : Val
  updatedAt : Val
  postings : Val
  sources : Val
  destinations : Val
  sourcesArrays : Val
  destinationsArrays : Val
  md : Kvs

structure ATxMeta where
  seq : Nat
  ledger : String
  txSeq : Nat
  revision : Val
  date : Val
  md : Kvs

structure AMove where
  seq : Nat
  ledger : String
  txSeq : Val
  acctSeq : Nat
  account : String
  asset : String
  amount : Int
  ins : Val
  eff : Int
  pcvIn : Int
  pcvOut : Int
  pcevIn : Int
  pcevOut : Int
  isSource : Bool

structure ADB where
  txs : List ATx := []
  txMeta : List ATxMeta := []
  accounts : List AAcct := []
  acctMeta : List AAcctMeta := []
  moves : List AMove := []
  logs : List LogsRow := []
  txSeq : Nat := 1
  txMetaSeq : Nat := 1
  acctSeq : Nat := 1
  acctMetaSeq : Nat := 1
  movesSeq : Nat := 1
  logsSeq : Nat := 1

def AAcct.row (a : AAcct) : AccountsRow :=
  { seq := .int a.seq, ledger := .text a.ledger, address := .text a.address, address_array := addressArray (.text a.address),
    insertion_date := a.ins, updated_at := a.upd, metadata := .json (.obj a.md) }

def AAcctMeta.row (h : AAcctMeta) : AccountsMetadataRow :=
  { seq := .int h.seq, ledger := .text h.ledger, accounts_seq := .int h.acctSeq, metadata := .json (.obj h.md), revision := h.revision,
    date := h.date }

def ATx.row (t : ATx) : TransactionsRow :=
  { seq := .int t.seq, ledger := .text t.ledger, id := .int t.id, timestamp := .ts t.ts, reference := t.reference, reverted_at := t.revertedAt,
    updated_at := t.updatedAt, postings := t.postings, sources := t.sources, destinations := t.destinations,
    sources_arrays := t.sourcesArrays, destinations_arrays := t.destinationsArrays, metadata := .json (.obj t.md) }

def ATxMeta.row (h : ATxMeta) : TransactionsMetadataRow :=
  { seq := .int h.seq, ledger := .text h.ledger, transactions_seq := .int h.txSeq, revision := h.revision, date := h.date,
    metadata := .json (.obj h.md) }

def AMove.row (m : AMove) : MovesRow :=
  { seq := .int m.seq, ledger := .text m.ledger, transactions_seq := m.txSeq, accounts_seq := .int m.acctSeq, account_address := .text m.account,
    account_address_array := addressArray (.text m.account), asset := .text m.asset, amount := .int m.amount, insertion_date := m.ins,
    effective_date := .ts m.eff, post_commit_volumes := .vol (.int m.pcvIn) (.int m.pcvOut),
    post_commit_effective_volumes := .vol (.int m.pcevIn) (.int m.pcevOut), is_source := .bool m.isSource }

def conc (A : ADB) : DB :=
  { transactions := A.txs.map ATx.row, transactions_metadata := A.txMeta.map ATxMeta.row, accounts := A.accounts.map AAcct.row,
    accounts_metadata := A.acctMeta.map AAcctMeta.row, moves := A.moves.map AMove.row, logs := A.logs,
    transactions_seq := A.txSeq, transactions_metadata_seq := A.txMetaSeq, accounts_seq := A.acctSeq,
    accounts_metadata_seq := A.acctMetaSeq, moves_seq := A.movesSeq, logs_seq := A.logsSeq }

theorem conc_empty : conc {} = {} := rfl

-- ---------------------------------------------------------------- accounts

def acctKey (l a : String) (r : AAcct) : Bool := r.ledger == l && r.address == a

/-- the `insert_account` trigger: revision 1 -/
def aAcctInsHist (A : ADB) (r : AAcct) : ADB :=
  { A with acctMeta := A.acctMeta ++ [{ seq := A.acctMetaSeq, ledger := r.ledger, acctSeq := r.seq, md := r.md, revision := .int 1, date := r.ins }],
           acctMetaSeq := A.acctMetaSeq + 1 }

def nextRevA (hs : List AAcctMeta) (s : Nat) : Val :=
  col (selectFirst hs (fun h => Val.bool (h.acctSeq == s)) [{ get := fun h => h.revision, desc := true }]) (fun h => Val.add h.revision (.int 1))

/-- the `update_account` trigger: next revision -/
def aAcctUpdHist (A : ADB) (r : AAcct) : ADB :=
  { A with acctMeta := A.acctMeta ++ [{ seq := A.acctMetaSeq, ledger := r.ledger, acctSeq := r.seq, md := r.md,
                                         revision := nextRevA A.acctMeta r.seq, date := r.upd }],
           acctMetaSeq := A.acctMetaSeq + 1 }

def aUpdateAccounts (A : ADB) (p : AAcct → Bool) (u : AAcct → AAcct) : ADB :=
  ((A.accounts.filter p).map u).foldl aAcctUpdHist { A with accounts := A.accounts.map (fun r => if p r then u r else r) }

def aUpsertAccount (A : ADB) (l a : String) (m : Kvs) (d : Val) : ADB :=
  if A.accounts.any (acctKey l a) then
    aUpdateAccounts A (fun r => acctKey l a r && !(J.contains (.obj r.md) (.obj m))) (fun r => { r with md := J.concatKvs r.md m, upd := d })
  else
    let new : AAcct := { seq := A.acctSeq, ledger := l, address := a, ins := d, upd := d, md := m }
    aAcctInsHist { A with accounts := A.accounts ++ [new], acctSeq := A.acctSeq + 1 } new

def aDeleteAccountMetadata (A : ADB) (l a k : String) (d : Val) : ADB :=
  aUpdateAccounts A (fun r => r.address == a && r.ledger == l) (fun r => { r with md := J.removeKey k r.md, upd := d })

theorem insert_account_hist_conc (A : ADB) (r : AAcct) :
    insert_account_metadata_history (conc A) r.row = conc (aAcctInsHist A r) := by
  simp [insert_account_metadata_history, insert_accounts_metadata, Sql.insertRow, tbl_accounts_metadata, conc, aAcctInsHist, AAcctMeta.row, AAcct.row]

theorem update_account_hist_conc (A : ADB) (r : AAcct) :
    update_account_metadata_history (conc A) r.row = conc (aAcctUpdHist A r) := by
  simp [update_account_metadata_history, insert_accounts_metadata, Sql.insertRow, tbl_accounts_metadata, conc, aAcctUpdHist, AAcctMeta.row, AAcct.row,
    selectFirst_map, nextRevA]

theorem fire_account_hist_conc (rows : List AAcct) (A : ADB) :
    Sql.fireEach update_account_metadata_history (conc A) (rows.map AAcct.row) = conc (rows.foldl aAcctUpdHist A) := by
  induction rows generalizing A with
  | nil => rfl
  | cons r rs ih => simp only [Sql.fireEach, List.map_cons, List.foldl_cons, update_account_hist_conc] at ih ⊢; exact ih _

theorem update_accounts_conc (A : ADB) (pred : AccountsRow → Val) (upd : AccountsRow → AccountsRow) (p : AAcct → Bool) (u : AAcct → AAcct)
    (hp : ∀ r, truthy (pred r.row) = p r) (hu : ∀ r, upd r.row = (u r).row) :
    update_accounts (conc A) pred upd = conc (aUpdateAccounts A p u) := by
  have h1 : (Sql.updateWhere tbl_accounts (conc A) pred upd).1 = conc { A with accounts := A.accounts.map (fun r => if p r then u r else r) } := by
    simp only [Sql.updateWhere, tbl_accounts, conc, List.map_map]
    congr 1
    apply List.map_congr_left
    intro r _
    by_cases h : p r = true <;> simp [hp, hu, h]
  have h2 : (Sql.updateWhere tbl_accounts (conc A) pred upd).2 = ((A.accounts.filter p).map u).map AAcct.row := by
    simp only [Sql.updateWhere, tbl_accounts, conc, List.filter_map, List.map_map]
    have : ((fun r => truthy (pred r)) ∘ AAcct.row) = p := by funext r; exact hp r
    rw [this]
    apply List.map_congr_left
    intro r _; exact hu r
  simp only [update_accounts, h1, h2, fire_account_hist_conc, aUpdateAccounts]

theorem upsert_account_conc (A : ADB) (l a : String) (mv : Val) (m : Kvs) (d : Val)
    (hm : Val.coalesce mv (Val.json (J.obj [])) = .json (.obj m)) :
    upsert_account (conc A) (.text l) (.text a) mv d = conc (aUpsertAccount A l a m d) := by
  simp only [upsert_account, upsert_accounts, Sql.upsertRow, hm]
  have hany : ((tbl_accounts.rows (conc A)).any (fun r => Sql.truthy (Val.eq r.ledger (Val.text l)) && Sql.truthy (Val.eq r.address (Val.text a))))
      = A.accounts.any (acctKey l a) := by
    unfold acctKey
    simp [tbl_accounts, conc, List.any_map, AAcct.row, Function.comp_def]
  rw [hany]
  unfold aUpsertAccount
  by_cases h : A.accounts.any (acctKey l a) = true
  · simp only [h, if_true]
    exact update_accounts_conc A _ _ _ _
      (by intro r; by_cases h1 : r.ledger = l <;> by_cases h2 : r.address = a <;> simp [AAcct.row, acctKey, h1, h2])
      (by intro r; simp [AAcct.row])
  · simp only [h, if_false, Bool.false_eq_true]
    have := insert_account_hist_conc { A with accounts := A.accounts ++ [{ seq := A.acctSeq, ledger := l, address := a, ins := d, upd := d, md := m }], acctSeq := A.acctSeq + 1 }
      { seq := A.acctSeq, ledger := l, address := a, ins := d, upd := d, md := m }
    rw [← this]
    simp [Sql.insertRow, tbl_accounts, conc, AAcct.row]

theorem delete_account_metadata_conc (A : ADB) (l a k : String) (d : Val) :
    delete_account_metadata (conc A) (.text l) (.text a) (.text k) d = conc (aDeleteAccountMetadata A l a k d) := by
  simp only [delete_account_metadata, aDeleteAccountMetadata]
  exact update_accounts_conc A _ _ _ _ (by intro r; simp [AAcct.row]) (by intro r; simp [AAcct.row])

end StoreSql
