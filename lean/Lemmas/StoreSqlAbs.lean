import Lemmas.StoreSqlVal
/-! C04 stage 2, layer 1: **data refinement of the generated definitions**.

An abstract database `ADB` has the same five projection tables as `Generated/Schema.lean`, with TYPED columns (the ledger is a
`String`, a `seq` a `Nat`, an effective date an `Int`, volumes are integers, metadata a key/value list …); `conc : ADB → DB`
renders it as the `Val`-valued rows the generated code works on.  For every generated function `f` this file has an abstract
counterpart `aF` and the commutation theorem `f (conc A) ⟨typed arguments⟩ = conc (aF A …)`, proved by UNFOLDING the regenerated
definition: it is the only place where the generated code is looked into, and it stops checking when the SQL changes.
No invariant is needed for most of these equations (they hold for every abstract database); `insert_move` needs the account row
to exist, which `insert_posting` establishes by upserting first.

The abstract functions keep the control structure of the SQL (selects, conditional resets, the two `update moves` statements);
what they MAINTAIN is the subject of `Lemmas/StoreSqlInv.lean`. -/
namespace StoreSql
open Sql Schema Store

abbrev Kvs := List (String × J)

structure AAcct where
  seq : Nat
  ledger : String
  address : String
  ins : Val
  upd : Val
  md : Kvs

/-- a row of a revision table (`accounts_metadata` / `transactions_metadata`): `base` is the `seq` of the row it is a revision of -/
structure AMeta where
  seq : Nat
  ledger : String
  base : Nat
  md : Kvs
  revision : Val
  date : Val

abbrev AAcctMeta := AMeta
abbrev ATxMeta := AMeta

structure ATx where
  seq : Nat
  ledger : String
  id : Int
  ts : Int
  reference : Val
  revertedAt : Val
  updatedAt : Val
  postings : Val
  sources : Val
  destinations : Val
  sourcesArrays : Val
  destinationsArrays : Val
  md : Kvs

structure AMove where
  seq : Nat
  ledger : String
  txSeq : Val
  acctSeq : Nat
  account : String
  asset : String
  amount : Int
  ins : Val
  eff : Int
  pcvIn : Int
  pcvOut : Int
  pcevIn : Int
  pcevOut : Int
  isSource : Bool

structure ADB where
  txs : List ATx := []
  txMeta : List ATxMeta := []
  accounts : List AAcct := []
  acctMeta : List AAcctMeta := []
  moves : List AMove := []
  logs : List LogsRow := []
  txSeq : Nat := 1
  txMetaSeq : Nat := 1
  acctSeq : Nat := 1
  acctMetaSeq : Nat := 1
  movesSeq : Nat := 1
  logsSeq : Nat := 1

def AAcct.row (a : AAcct) : AccountsRow :=
  { seq := .int a.seq, ledger := .text a.ledger, address := .text a.address, address_array := addressArray (.text a.address),
    insertion_date := a.ins, updated_at := a.upd, metadata := .json (.obj a.md) }

def AMeta.rowA (h : AMeta) : AccountsMetadataRow :=
  { seq := .int h.seq, ledger := .text h.ledger, accounts_seq := .int h.base, metadata := .json (.obj h.md), revision := h.revision,
    date := h.date }

def ATx.row (t : ATx) : TransactionsRow :=
  { seq := .int t.seq, ledger := .text t.ledger, id := .int t.id, timestamp := .ts t.ts, reference := t.reference, reverted_at := t.revertedAt,
    updated_at := t.updatedAt, postings := t.postings, sources := t.sources, destinations := t.destinations,
    sources_arrays := t.sourcesArrays, destinations_arrays := t.destinationsArrays, metadata := .json (.obj t.md) }

def AMeta.rowT (h : AMeta) : TransactionsMetadataRow :=
  { seq := .int h.seq, ledger := .text h.ledger, transactions_seq := .int h.base, revision := h.revision, date := h.date,
    metadata := .json (.obj h.md) }

def AMove.row (m : AMove) : MovesRow :=
  { seq := .int m.seq, ledger := .text m.ledger, transactions_seq := m.txSeq, accounts_seq := .int m.acctSeq, account_address := .text m.account,
    account_address_array := addressArray (.text m.account), asset := .text m.asset, amount := .int m.amount, insertion_date := m.ins,
    effective_date := .ts m.eff, post_commit_volumes := .vol (.int m.pcvIn) (.int m.pcvOut),
    post_commit_effective_volumes := .vol (.int m.pcevIn) (.int m.pcevOut), is_source := .bool m.isSource }

def conc (A : ADB) : DB :=
  { transactions := A.txs.map ATx.row, transactions_metadata := A.txMeta.map AMeta.rowT, accounts := A.accounts.map AAcct.row,
    accounts_metadata := A.acctMeta.map AMeta.rowA, moves := A.moves.map AMove.row, logs := A.logs,
    transactions_seq := A.txSeq, transactions_metadata_seq := A.txMetaSeq, accounts_seq := A.acctSeq,
    accounts_metadata_seq := A.acctMetaSeq, moves_seq := A.movesSeq, logs_seq := A.logsSeq }

theorem conc_empty : conc {} = {} := rfl
@[simp] theorem conc_txs (A : ADB) : (conc A).transactions = A.txs.map ATx.row := rfl
@[simp] theorem conc_txMeta (A : ADB) : (conc A).transactions_metadata = A.txMeta.map AMeta.rowT := rfl
@[simp] theorem conc_accounts (A : ADB) : (conc A).accounts = A.accounts.map AAcct.row := rfl
@[simp] theorem conc_acctMeta (A : ADB) : (conc A).accounts_metadata = A.acctMeta.map AMeta.rowA := rfl
@[simp] theorem conc_moves (A : ADB) : (conc A).moves = A.moves.map AMove.row := rfl
@[simp] theorem conc_logs (A : ADB) : (conc A).logs = A.logs := rfl

-- ---------------------------------------------------------------- accounts

def acctKey (l a : String) (r : AAcct) : Bool := r.ledger == l && r.address == a

/-- the `insert_account` trigger: revision 1 -/
def aAcctInsHist (A : ADB) (r : AAcct) : ADB :=
  { A with acctMeta := A.acctMeta ++ [{ seq := A.acctMetaSeq, ledger := r.ledger, base := r.seq, md := r.md, revision := .int 1, date := r.ins }],
           acctMetaSeq := A.acctMetaSeq + 1 }

def nextRevA (hs : List AAcctMeta) (s : Nat) : Val :=
  col (selectFirst hs (fun h => Val.bool (h.base == s)) [{ get := fun h => h.revision, desc := true }]) (fun h => Val.add h.revision (.int 1))

/-- the `update_account` trigger: next revision -/
def aAcctUpdHist (A : ADB) (r : AAcct) : ADB :=
  { A with acctMeta := A.acctMeta ++ [{ seq := A.acctMetaSeq, ledger := r.ledger, base := r.seq, md := r.md,
                                         revision := nextRevA A.acctMeta r.seq, date := r.upd }],
           acctMetaSeq := A.acctMetaSeq + 1 }

def aUpdateAccounts (A : ADB) (p : AAcct → Bool) (u : AAcct → AAcct) : ADB :=
  ((A.accounts.filter p).map u).foldl aAcctUpdHist { A with accounts := A.accounts.map (fun r => if p r then u r else r) }

def aUpsertAccount (A : ADB) (l a : String) (m : Kvs) (d : Val) : ADB :=
  if A.accounts.any (acctKey l a) then
    aUpdateAccounts A (fun r => acctKey l a r && !(J.contains (.obj r.md) (.obj m))) (fun r => { r with md := J.concatKvs r.md m, upd := d })
  else
    let new : AAcct := { seq := A.acctSeq, ledger := l, address := a, ins := d, upd := d, md := m }
    aAcctInsHist { A with accounts := A.accounts ++ [new], acctSeq := A.acctSeq + 1 } new

def aDeleteAccountMetadata (A : ADB) (l a k : String) (d : Val) : ADB :=
  aUpdateAccounts A (fun r => r.address == a && r.ledger == l) (fun r => { r with md := J.removeKey k r.md, upd := d })

theorem insert_account_hist_conc (A : ADB) (r : AAcct) :
    insert_account_metadata_history (conc A) r.row = conc (aAcctInsHist A r) := by
  simp [insert_account_metadata_history, insert_accounts_metadata, Sql.insertRow, tbl_accounts_metadata, conc, aAcctInsHist, AMeta.rowA, AAcct.row]

theorem update_account_hist_conc (A : ADB) (r : AAcct) :
    update_account_metadata_history (conc A) r.row = conc (aAcctUpdHist A r) := by
  simp [update_account_metadata_history, insert_accounts_metadata, Sql.insertRow, tbl_accounts_metadata, conc, aAcctUpdHist, AMeta.rowA, AAcct.row,
    selectFirst_map, nextRevA]

theorem fire_account_hist_conc (rows : List AAcct) (A : ADB) :
    Sql.fireEach update_account_metadata_history (conc A) (rows.map AAcct.row) = conc (rows.foldl aAcctUpdHist A) := by
  induction rows generalizing A with
  | nil => rfl
  | cons r rs ih => simp only [Sql.fireEach, List.map_cons, List.foldl_cons, update_account_hist_conc] at ih ⊢; exact ih _

theorem update_accounts_conc (A : ADB) (pred : AccountsRow → Val) (upd : AccountsRow → AccountsRow) (p : AAcct → Bool) (u : AAcct → AAcct)
    (hp : ∀ r, truthy (pred r.row) = p r) (hu : ∀ r, upd r.row = (u r).row) :
    update_accounts (conc A) pred upd = conc (aUpdateAccounts A p u) := by
  have h1 : (Sql.updateWhere tbl_accounts (conc A) pred upd).1 = conc { A with accounts := A.accounts.map (fun r => if p r then u r else r) } := by
    simp only [Sql.updateWhere, tbl_accounts, conc, List.map_map]
    congr 1
    apply List.map_congr_left
    intro r _
    by_cases h : p r = true <;> simp [hp, hu, h]
  have h2 : (Sql.updateWhere tbl_accounts (conc A) pred upd).2 = ((A.accounts.filter p).map u).map AAcct.row := by
    simp only [Sql.updateWhere, tbl_accounts, conc, List.filter_map, List.map_map]
    have : ((fun r => truthy (pred r)) ∘ AAcct.row) = p := by funext r; exact hp r
    rw [this]
    apply List.map_congr_left
    intro r _; exact hu r
  simp only [update_accounts, h1, h2, fire_account_hist_conc, aUpdateAccounts]

theorem upsert_account_conc (A : ADB) (l a : String) (mv : Val) (m : Kvs) (d : Val)
    (hm : Val.coalesce mv (Val.json (J.obj [])) = .json (.obj m)) :
    upsert_account (conc A) (.text l) (.text a) mv d = conc (aUpsertAccount A l a m d) := by
  simp only [upsert_account, upsert_accounts, Sql.upsertRow, hm]
  have hany : ((tbl_accounts.rows (conc A)).any (fun r => Sql.truthy (Val.eq r.ledger (Val.text l)) && Sql.truthy (Val.eq r.address (Val.text a))))
      = A.accounts.any (acctKey l a) := by
    unfold acctKey
    simp [tbl_accounts, conc, List.any_map, AAcct.row, Function.comp_def]
  rw [hany]
  unfold aUpsertAccount
  by_cases h : A.accounts.any (acctKey l a) = true
  · simp only [h, if_true]
    exact update_accounts_conc A _ _ _ _
      (by intro r; by_cases h1 : r.ledger = l <;> by_cases h2 : r.address = a <;> simp [AAcct.row, acctKey, h1, h2])
      (by intro r; simp [AAcct.row])
  · simp only [h, if_false, Bool.false_eq_true]
    have := insert_account_hist_conc { A with accounts := A.accounts ++ [{ seq := A.acctSeq, ledger := l, address := a, ins := d, upd := d, md := m }], acctSeq := A.acctSeq + 1 }
      { seq := A.acctSeq, ledger := l, address := a, ins := d, upd := d, md := m }
    rw [← this]
    simp [Sql.insertRow, tbl_accounts, conc, AAcct.row]

theorem delete_account_metadata_conc (A : ADB) (l a k : String) (d : Val) :
    delete_account_metadata (conc A) (.text l) (.text a) (.text k) d = conc (aDeleteAccountMetadata A l a k d) := by
  simp only [delete_account_metadata, aDeleteAccountMetadata]
  exact update_accounts_conc A _ _ _ _ (by intro r; simp [AAcct.row]) (by intro r; simp [AAcct.row])

-- ---------------------------------------------------------------- transactions

def aTxInsHist (A : ADB) (r : ATx) : ADB :=
  { A with txMeta := A.txMeta ++ [{ seq := A.txMetaSeq, ledger := r.ledger, base := r.seq, revision := .int 1, date := .ts r.ts, md := r.md }],
           txMetaSeq := A.txMetaSeq + 1 }

def nextRevT (hs : List ATxMeta) (s : Nat) : Val :=
  col (selectFirst hs (fun h => Val.bool (h.base == s)) [{ get := fun h => h.revision, desc := true }]) (fun h => Val.add h.revision (.int 1))

def aTxUpdHist (A : ADB) (r : ATx) : ADB :=
  { A with txMeta := A.txMeta ++ [{ seq := A.txMetaSeq, ledger := r.ledger, base := r.seq, revision := nextRevT A.txMeta r.seq, date := r.updatedAt,
                                     md := r.md }],
           txMetaSeq := A.txMetaSeq + 1 }

def aUpdateTxs (A : ADB) (p : ATx → Bool) (u : ATx → ATx) : ADB :=
  ((A.txs.filter p).map u).foldl aTxUpdHist { A with txs := A.txs.map (fun r => if p r then u r else r) }

def txKey (l : String) (id : Int) (r : ATx) : Bool := r.id == id && r.ledger == l

def aRevertTransaction (A : ADB) (l : String) (id : Int) (d : Val) : ADB :=
  aUpdateTxs A (txKey l id) (fun r => { r with revertedAt := d })
def aUpdateTransactionMetadata (A : ADB) (l : String) (id : Int) (m : Kvs) (d : Val) : ADB :=
  aUpdateTxs A (txKey l id) (fun r => { r with md := J.concatKvs r.md m, updatedAt := d })
def aDeleteTransactionMetadata (A : ADB) (l : String) (id : Int) (k : String) (d : Val) : ADB :=
  aUpdateTxs A (txKey l id) (fun r => { r with md := J.removeKey k r.md, updatedAt := d })

theorem insert_tx_hist_conc (A : ADB) (r : ATx) :
    insert_transaction_metadata_history (conc A) r.row = conc (aTxInsHist A r) := by
  simp [insert_transaction_metadata_history, insert_transactions_metadata, Sql.insertRow, tbl_transactions_metadata, conc, aTxInsHist, AMeta.rowT, ATx.row]

theorem update_tx_hist_conc (A : ADB) (r : ATx) :
    update_transaction_metadata_history (conc A) r.row = conc (aTxUpdHist A r) := by
  simp [update_transaction_metadata_history, insert_transactions_metadata, Sql.insertRow, tbl_transactions_metadata, conc, aTxUpdHist, AMeta.rowT, ATx.row,
    selectFirst_map, nextRevT]

theorem fire_tx_hist_conc (rows : List ATx) (A : ADB) :
    Sql.fireEach update_transaction_metadata_history (conc A) (rows.map ATx.row) = conc (rows.foldl aTxUpdHist A) := by
  induction rows generalizing A with
  | nil => rfl
  | cons r rs ih => simp only [Sql.fireEach, List.map_cons, List.foldl_cons, update_tx_hist_conc] at ih ⊢; exact ih _

theorem update_transactions_conc (A : ADB) (pred : TransactionsRow → Val) (upd : TransactionsRow → TransactionsRow) (p : ATx → Bool) (u : ATx → ATx)
    (hp : ∀ r, truthy (pred r.row) = p r) (hu : ∀ r, upd r.row = (u r).row) :
    update_transactions (conc A) pred upd = conc (aUpdateTxs A p u) := by
  have h1 : (Sql.updateWhere tbl_transactions (conc A) pred upd).1 = conc { A with txs := A.txs.map (fun r => if p r then u r else r) } := by
    simp only [Sql.updateWhere, tbl_transactions, conc, List.map_map]
    congr 1
    apply List.map_congr_left
    intro r _
    by_cases h : p r = true <;> simp [hp, hu, h]
  have h2 : (Sql.updateWhere tbl_transactions (conc A) pred upd).2 = ((A.txs.filter p).map u).map ATx.row := by
    simp only [Sql.updateWhere, tbl_transactions, conc, List.filter_map, List.map_map]
    have : ((fun r => truthy (pred r)) ∘ ATx.row) = p := by funext r; exact hp r
    rw [this]
    apply List.map_congr_left
    intro r _; exact hu r
  simp only [update_transactions, h1, h2, fire_tx_hist_conc, aUpdateTxs]

theorem revert_transaction_conc (A : ADB) (l : String) (id : Int) (d : Val) :
    revert_transaction (conc A) (.text l) (.int id) d = conc (aRevertTransaction A l id d) := by
  simp only [revert_transaction, aRevertTransaction]
  exact update_transactions_conc A _ _ _ _ (by intro r; simp [ATx.row, txKey]) (by intro r; simp [ATx.row])

theorem update_transaction_metadata_conc (A : ADB) (l : String) (id : Int) (m : Kvs) (d : Val) :
    update_transaction_metadata (conc A) (.text l) (.int id) (.json (.obj m)) d = conc (aUpdateTransactionMetadata A l id m d) := by
  simp only [update_transaction_metadata, aUpdateTransactionMetadata]
  exact update_transactions_conc A _ _ _ _ (by intro r; simp [ATx.row, txKey]) (by intro r; simp [ATx.row])

theorem delete_transaction_metadata_conc (A : ADB) (l : String) (id : Int) (k : String) (d : Val) :
    delete_transaction_metadata (conc A) (.text l) (.int id) (.text k) d = conc (aDeleteTransactionMetadata A l id k d) := by
  simp only [delete_transaction_metadata, aDeleteTransactionMetadata]
  exact update_transactions_conc A _ _ _ _ (by intro r; simp [ATx.row, txKey]) (by intro r; simp [ATx.row])

-- ---------------------------------------------------------------- moves

def moveSel (acc : Nat) (x : String) (r : AMove) : Bool := r.acctSeq == acc && r.asset == x

/-- `select … from moves where accounts_seq = … and asset = … order by seq desc limit 1` -/
def aLastMove (ms : List AMove) (acc : Nat) (x : String) : Option AMove :=
  selectFirst ms (fun r => Val.bool (moveSel acc x r)) [{ get := fun r => Val.int r.seq, desc := true }]

/-- `… and effective_date <= e order by effective_date desc, seq desc limit 1` -/
def aLastEffMove (ms : List AMove) (acc : Nat) (x : String) (e : Int) : Option AMove :=
  selectFirst ms (fun r => Val.bool (moveSel acc x r && decide (r.eff ≤ e)))
    [{ get := fun r => Val.ts r.eff, desc := true }, { get := fun r => Val.int r.seq, desc := true }]

def bumpEff (src : Bool) (amt : Int) (r : AMove) : AMove :=
  { r with pcevIn := r.pcevIn + (if src then 0 else amt), pcevOut := r.pcevOut + (if src then amt else 0) }

/-- the running totals `insert_move` starts from: those of the latest move by `seq` (zero when the account is new or has no move in
that asset) -/
def movePcv (ms : List AMove) (acc : Nat) (x : String) (ex : Bool) : Int × Int :=
  if ex then (match aLastMove ms acc x with | some r => (r.pcvIn, r.pcvOut) | none => (0, 0)) else (0, 0)

/-- … and the effective totals: those of the move last by (effective_date, seq) among those dated `≤ eff` (zero when there is none) -/
def movePcev (ms : List AMove) (acc : Nat) (x : String) (ex : Bool) (eff : Int) : Int × Int :=
  if ex then
    (match aLastMove ms acc x with
     | none => (0, 0)
     | some _ => (match aLastEffMove ms acc x eff with | some r => (r.pcevIn, r.pcevOut) | none => (0, 0)))
  else (0, 0)

def newMove (A : ADB) (txSeq : Val) (l : String) (ins : Val) (eff : Int) (a x : String) (amt : Int) (src ex : Bool) (acc : Nat) : AMove :=
  let pcv := movePcv A.moves acc x ex
  let pcev := movePcev A.moves acc x ex eff
  { seq := A.movesSeq, ledger := l, txSeq := txSeq, acctSeq := acc, account := a, asset := x, amount := amt, ins := ins, eff := eff,
    pcvIn := if src then pcv.1 else pcv.1 + amt, pcvOut := if src then pcv.2 + amt else pcv.2,
    pcevIn := if src then pcev.1 else pcev.1 + amt, pcevOut := if src then pcev.2 + amt else pcev.2, isSource := src }

def aInsertMove (A : ADB) (txSeq : Val) (l : String) (ins : Val) (eff : Int) (a x : String) (amt : Int) (src ex : Bool) (acc : Nat) : ADB :=
  let ms := A.moves ++ [newMove A txSeq l ins eff a x amt src ex acc]
  let ms := if ex then
      (ms.map (fun r => if moveSel acc x r && decide (eff < r.eff) then bumpEff src amt r else r)).map
        (fun r => if moveSel acc x r && r.eff == eff && decide ((A.movesSeq : Int) < r.seq) then bumpEff src amt r else r)
    else ms
  { A with moves := ms, movesSeq := A.movesSeq + 1 }

theorem update_moves_conc (A : ADB) (pred : MovesRow → Val) (upd : MovesRow → MovesRow) (p : AMove → Bool) (u : AMove → AMove)
    (hp : ∀ r, truthy (pred r.row) = p r) (hu : ∀ r, upd r.row = (u r).row) :
    update_moves (conc A) pred upd = conc { A with moves := A.moves.map (fun r => if p r then u r else r) } := by
  simp only [update_moves, Sql.updateWhere, tbl_moves, conc, List.map_map]
  congr 1
  apply List.map_congr_left
  intro r _
  by_cases h : p r = true <;> simp [hp, hu, h]

theorem accounts_find_conc (A : ADB) (l a : String) :
    selectFirst (conc A).accounts (fun r => Val.and (Val.eq r.ledger (.text l)) (Val.eq r.address (.text a))) [] =
      (A.accounts.find? (acctKey l a)).map AAcct.row := by
  simp only [conc, selectFirst_nokeys, List.find?_map]
  congr 2
  funext r
  simp [AAcct.row, acctKey]

def exVal (ex : Bool) : Val := if ex then .bool true else .null

theorem lastMove_conc (A : ADB) (acc : Nat) (x : String) :
    selectFirst (conc A).moves (fun r => Val.and (Val.eq r.accounts_seq (.int acc)) (Val.eq r.asset (.text x))) [{ get := fun r => r.seq, desc := true }] =
      (aLastMove A.moves acc x).map AMove.row := by
  simp only [conc, selectFirst_map, aLastMove, List.map_cons, List.map_nil]
  congr 1
  apply selectFirst_congr
  intro r _
  simp [AMove.row, moveSel]

theorem lastEffMove_conc (A : ADB) (acc : Nat) (x : String) (e : Int) :
    selectFirst (conc A).moves (fun r => Val.and (Val.and (Val.eq r.accounts_seq (.int acc)) (Val.eq r.asset (.text x))) (Val.le r.effective_date (.ts e)))
        [{ get := fun r => r.effective_date, desc := true }, { get := fun r => r.seq, desc := true }] =
      (aLastEffMove A.moves acc x e).map AMove.row := by
  simp only [conc, selectFirst_map, aLastEffMove, List.map_cons, List.map_nil]
  congr 1
  apply selectFirst_congr
  intro r _
  simp [AMove.row, moveSel]

theorem insert_moves_conc (A : ADB) (m : AMove) :
    insert_moves (conc A) { m.row with seq := .null } =
      (conc { A with moves := A.moves ++ [{ m with seq := A.movesSeq }], movesSeq := A.movesSeq + 1 }, ({ m with seq := A.movesSeq } : AMove).row) := by
  simp [insert_moves, Sql.insertRow, tbl_moves, conc, AMove.row]

theorem insert_move_conc (A : ADB) (txSeq : Val) (l : String) (ins : Val) (eff : Int) (a x : String) (amt : Int) (src ex : Bool) (r0 : AAcct)
    (hacc : A.accounts.find? (acctKey l a) = some r0) :
    insert_move (conc A) txSeq (.text l) ins (.ts eff) (.text a) (.text x) (.int amt) (.bool src) (exVal ex) =
      conc (aInsertMove A txSeq l ins eff a x amt src ex r0.seq) := by
  have eacc := accounts_find_conc A l a
  rw [hacc] at eacc
  have e1 := lastMove_conc A r0.seq x
  have e2 := lastEffMove_conc A r0.seq x eff
  simp only [conc] at eacc e1 e2
  have ins_ := fun (i o ei eo : Int) => insert_moves_conc A { seq := 0, ledger := l, txSeq := txSeq, acctSeq := r0.seq, account := a, asset := x, amount := amt, ins := ins, eff := eff, pcvIn := i, pcvOut := o, pcevIn := ei, pcevOut := eo, isSource := src }
  simp only [AMove.row] at ins_
  have upd := fun (A1 : ADB) (s : Bool) =>
    update_moves_conc A1
      (fun r => Val.and (Val.and (Val.eq r.accounts_seq (.int r0.seq)) (Val.eq r.asset (.text x))) (Val.gt r.effective_date (.ts eff)))
      (fun r => { r with post_commit_effective_volumes := Val.vol (Val.add (Val.field "inputs" r.post_commit_effective_volumes) (.int (if s then 0 else amt)))
                                                                  (Val.add (Val.field "outputs" r.post_commit_effective_volumes) (.int (if s then amt else 0))) })
      (fun r => moveSel r0.seq x r && decide (eff < r.eff)) (bumpEff s amt)
      (by intro r; simp [AMove.row, moveSel]) (by intro r; simp [AMove.row, bumpEff])
  have upd2 := fun (A1 : ADB) (s : Bool) =>
    update_moves_conc A1
      (fun r => Val.and (Val.and (Val.and (Val.eq r.accounts_seq (.int r0.seq)) (Val.eq r.asset (.text x))) (Val.eq r.effective_date (.ts eff))) (Val.gt r.seq (.int A.movesSeq)))
      (fun r => { r with post_commit_effective_volumes := Val.vol (Val.add (Val.field "inputs" r.post_commit_effective_volumes) (.int (if s then 0 else amt)))
                                                                  (Val.add (Val.field "outputs" r.post_commit_effective_volumes) (.int (if s then amt else 0))) })
      (fun r => moveSel r0.seq x r && r.eff == eff && decide ((A.movesSeq : Int) < r.seq)) (bumpEff s amt)
      (by intro r; simp [AMove.row, moveSel]) (by intro r; simp [AMove.row, bumpEff])
  cases ex
  · cases src <;>
      simp [insert_move, eacc, AAcct.row, exVal, aInsertMove, newMove, movePcv, movePcev, ins_]
  · cases src
    · have u1 := fun A1 => upd A1 false
      have u2 := fun A1 => upd2 A1 false
      simp only [Bool.false_eq_true, if_false] at u1 u2
      cases h1 : aLastMove A.moves r0.seq x <;> cases h2 : aLastEffMove A.moves r0.seq x eff <;> rw [h1] at e1 <;> rw [h2] at e2 <;>
        simp [insert_move, eacc, e1, e2, AAcct.row, exVal, aInsertMove, newMove, movePcv, movePcev, h1, h2, ins_, AMove.row, u1, u2]
    · have u1 := fun A1 => upd A1 true
      have u2 := fun A1 => upd2 A1 true
      simp only [if_true] at u1 u2
      cases h1 : aLastMove A.moves r0.seq x <;> cases h2 : aLastEffMove A.moves r0.seq x eff <;> rw [h1] at e1 <;> rw [h2] at e2 <;>
        simp [insert_move, eacc, e1, e2, AAcct.row, exVal, aInsertMove, newMove, movePcv, movePcev, h1, h2, ins_, AMove.row, u1, u2]

-- ---------------------------------------------------------------- what the account functions do to each table

@[simp] theorem foldl_acctUpdHist_accounts (rows : List AAcct) (A : ADB) : (rows.foldl aAcctUpdHist A).accounts = A.accounts := by
  induction rows generalizing A with
  | nil => rfl
  | cons r rs ih => simp [ih, aAcctUpdHist]
@[simp] theorem foldl_acctUpdHist_moves (rows : List AAcct) (A : ADB) : (rows.foldl aAcctUpdHist A).moves = A.moves := by
  induction rows generalizing A with
  | nil => rfl
  | cons r rs ih => simp [ih, aAcctUpdHist]
@[simp] theorem foldl_acctUpdHist_txs (rows : List AAcct) (A : ADB) : (rows.foldl aAcctUpdHist A).txs = A.txs := by
  induction rows generalizing A with
  | nil => rfl
  | cons r rs ih => simp [ih, aAcctUpdHist]
@[simp] theorem foldl_acctUpdHist_txMeta (rows : List AAcct) (A : ADB) : (rows.foldl aAcctUpdHist A).txMeta = A.txMeta := by
  induction rows generalizing A with
  | nil => rfl
  | cons r rs ih => simp [ih, aAcctUpdHist]
@[simp] theorem foldl_acctUpdHist_seqs (rows : List AAcct) (A : ADB) :
    (rows.foldl aAcctUpdHist A).acctSeq = A.acctSeq ∧ (rows.foldl aAcctUpdHist A).movesSeq = A.movesSeq ∧
    (rows.foldl aAcctUpdHist A).txSeq = A.txSeq ∧ (rows.foldl aAcctUpdHist A).txMetaSeq = A.txMetaSeq ∧
    (rows.foldl aAcctUpdHist A).logs = A.logs ∧ (rows.foldl aAcctUpdHist A).logsSeq = A.logsSeq := by
  induction rows generalizing A with
  | nil => simp
  | cons r rs ih => simp [ih, aAcctUpdHist]

@[simp] theorem aUpdateAccounts_accounts (A : ADB) (p : AAcct → Bool) (u : AAcct → AAcct) :
    (aUpdateAccounts A p u).accounts = A.accounts.map (fun r => if p r then u r else r) := by simp [aUpdateAccounts]
@[simp] theorem aUpdateAccounts_moves (A : ADB) (p : AAcct → Bool) (u : AAcct → AAcct) : (aUpdateAccounts A p u).moves = A.moves := by
  simp [aUpdateAccounts]
@[simp] theorem aUpdateAccounts_txs (A : ADB) (p : AAcct → Bool) (u : AAcct → AAcct) : (aUpdateAccounts A p u).txs = A.txs := by
  simp [aUpdateAccounts]
@[simp] theorem aUpdateAccounts_txMeta (A : ADB) (p : AAcct → Bool) (u : AAcct → AAcct) : (aUpdateAccounts A p u).txMeta = A.txMeta := by
  simp [aUpdateAccounts]

@[simp] theorem aUpsertAccount_moves (A : ADB) (l a : String) (m : Kvs) (d : Val) : (aUpsertAccount A l a m d).moves = A.moves := by
  unfold aUpsertAccount; split <;> simp [aAcctInsHist]
@[simp] theorem aUpsertAccount_txs (A : ADB) (l a : String) (m : Kvs) (d : Val) : (aUpsertAccount A l a m d).txs = A.txs := by
  unfold aUpsertAccount; split <;> simp [aAcctInsHist]
@[simp] theorem aUpsertAccount_txMeta (A : ADB) (l a : String) (m : Kvs) (d : Val) : (aUpsertAccount A l a m d).txMeta = A.txMeta := by
  unfold aUpsertAccount; split <;> simp [aAcctInsHist]

theorem any_map_keep {α} (xs : List α) (k p : α → Bool) (u : α → α) (hu : ∀ r, k (u r) = k r) :
    (xs.map (fun r => if p r then u r else r)).any k = xs.any k := by
  induction xs with
  | nil => rfl
  | cons x xs ih => by_cases h : p x = true <;> simp [h, hu, ih]

/-- after `upsert_account(l, a, …)` the account (l, a) exists, and every account that existed still does -/
theorem aUpsertAccount_any (A : ADB) (l a : String) (m : Kvs) (d : Val) (l' a' : String) :
    (aUpsertAccount A l a m d).accounts.any (acctKey l' a') = (A.accounts.any (acctKey l' a') || (l == l' && a == a')) := by
  unfold aUpsertAccount
  by_cases h : A.accounts.any (acctKey l a) = true
  · simp only [h, if_true, aUpdateAccounts_accounts]
    rw [any_map_keep _ _ _ _ (by intro r; simp [acctKey])]
    by_cases hk : (l == l' && a == a') = true
    · simp only [Bool.and_eq_true, beq_iff_eq] at hk
      obtain ⟨rfl, rfl⟩ := hk
      simp [h]
    · simp [hk]
  · simp only [h, Bool.false_eq_true, if_false, aAcctInsHist, List.any_append, List.any_cons, List.any_nil, Bool.or_false]
    simp [acctKey]

@[simp] theorem aInsertMove_accounts (A : ADB) (txSeq : Val) (l : String) (ins : Val) (eff : Int) (a x : String) (amt : Int) (src ex : Bool) (acc : Nat) :
    (aInsertMove A txSeq l ins eff a x amt src ex acc).accounts = A.accounts := rfl

def acctSeqOf (A : ADB) (l a : String) : Nat :=
  match A.accounts.find? (acctKey l a) with
  | some r => r.seq
  | none => 0

theorem insert_move_conc' (A : ADB) (txSeq : Val) (l : String) (ins : Val) (eff : Int) (a x : String) (amt : Int) (src ex : Bool)
    (hacc : A.accounts.any (acctKey l a) = true) :
    insert_move (conc A) txSeq (.text l) ins (.ts eff) (.text a) (.text x) (.int amt) (.bool src) (exVal ex) =
      conc (aInsertMove A txSeq l ins eff a x amt src ex (acctSeqOf A l a)) := by
  cases h : A.accounts.find? (acctKey l a) with
  | none => rw [List.find?_eq_none] at h; rw [List.any_eq_true] at hacc; obtain ⟨r, hr, hk⟩ := hacc; exact absurd hk (h r hr)
  | some r0 => rw [insert_move_conc A txSeq l ins eff a x amt src ex r0 h]; simp [acctSeqOf, h]

-- ---------------------------------------------------------------- postings

def kvsOf (m : Meta) : Kvs := m.map (fun kv => (kv.1, J.str kv.2))
theorem metaJ_eq (m : Meta) : metaJ m = .obj (kvsOf m) := rfl

def amObj (am : List (String × Meta)) : Kvs := am.map (fun km => (km.1, metaJ km.2))

/-- the metadata a script attached to account `a` (`_account_metadata -> a`, `{}` when there is none) -/
def amKvs (am : List (String × Meta)) (a : String) : Kvs :=
  match am.find? (fun km => km.1 == a) with
  | some km => kvsOf km.2
  | none => []

theorem lookup_amObj (am : List (String × Meta)) (a : String) :
    J.lookup a (amObj am) = (am.find? (fun km => km.1 == a)).map (fun km => metaJ km.2) := by
  induction am with
  | nil => rfl
  | cons km rest ih =>
    by_cases h : (km.1 == a) = true
    · simp [amObj, J.lookup, h]
    · simp only [amObj, List.map_cons, J.lookup, h, List.find?_cons] at ih ⊢; simpa using ih

theorem am_arrow (am : List (String × Meta)) (a : String) :
    Val.coalesce (Val.arrow (.json (.obj (amObj am))) (.text a)) (Val.json (J.obj [])) = .json (.obj (amKvs am a)) := by
  simp only [Val.arrow, Val.keyOf, lookup_amObj, amKvs]
  cases am.find? (fun km => km.1 == a) <;> simp [metaJ_eq]

def aInsertPosting (A : ADB) (txSeq : Val) (l : String) (ins : Val) (eff : Int) (p : Posting) (am : List (String × Meta)) : ADB :=
  let srcEx := A.accounts.any (acctKey l p.source)
  let dstEx := if p.source == p.destination then true else A.accounts.any (acctKey l p.destination)
  let A := aUpsertAccount A l p.source (amKvs am p.source) ins
  let A := aUpsertAccount A l p.destination (amKvs am p.destination) ins
  let A := aInsertMove A txSeq l ins eff p.source p.asset p.amount true srcEx (acctSeqOf A l p.source)
  aInsertMove A txSeq l ins eff p.destination p.asset p.amount false dstEx (acctSeqOf A l p.destination)

@[simp] theorem posting_source (p : Posting) : Val.arrowText (.json (postingJ p)) (.text "source") = .text p.source := by
  simp [postingJ, Val.arrowText, Val.arrow, Val.keyOf, J.lookup]
@[simp] theorem posting_destination (p : Posting) : Val.arrowText (.json (postingJ p)) (.text "destination") = .text p.destination := by
  simp [postingJ, Val.arrowText, Val.arrow, Val.keyOf, J.lookup]
@[simp] theorem posting_asset (p : Posting) : Val.arrowText (.json (postingJ p)) (.text "asset") = .text p.asset := by
  simp [postingJ, Val.arrowText, Val.arrow, Val.keyOf, J.lookup]
@[simp] theorem posting_amount (p : Posting) : Val.castNumeric (Val.arrowText (.json (postingJ p)) (.text "amount")) = .int p.amount := by
  simp [postingJ, Val.arrowText, Val.arrow, Val.keyOf, J.lookup, Val.castNumeric]

theorem col_exists {A : Type} (o : Option A) : col o (fun _ => Val.bool true) = exVal o.isSome := by
  cases o <;> rfl

theorem find_isSome_any {α} (xs : List α) (p : α → Bool) : (xs.find? p).isSome = xs.any p := by
  induction xs with
  | nil => rfl
  | cons x xs ih => by_cases h : p x = true <;> simp [h, ih]

theorem insert_posting_conc (A : ADB) (txSeq : Val) (l : String) (ins : Val) (eff : Int) (p : Posting) (am : List (String × Meta)) :
    insert_posting (conc A) txSeq (.text l) ins (.ts eff) (.json (postingJ p)) (.json (.obj (amObj am))) =
      conc (aInsertPosting A txSeq l ins eff p am) := by
  have hs := accounts_find_conc A l p.source
  have hd := accounts_find_conc A l p.destination
  simp only [conc] at hs hd
  have us := fun A1 => upsert_account_conc A1 l p.source _ _ ins (am_arrow am p.source)
  have ud := fun A1 => upsert_account_conc A1 l p.destination _ _ ins (am_arrow am p.destination)
  have imT := fun A1 a x amt src h => insert_move_conc' A1 txSeq l ins eff a x amt src true h
  simp only [exVal, if_true] at imT
  by_cases hsd : p.source = p.destination
  · simp [insert_posting, aInsertPosting, hd, col_exists, find_isSome_any, ud, hsd, insert_move_conc', imT, aUpsertAccount_any]
  · simp [insert_posting, aInsertPosting, hs, hd, col_exists, find_isSome_any, us, ud, hsd, insert_move_conc', aUpsertAccount_any]

-- ---------------------------------------------------------------- insert_transaction

theorem lookup_append_left (k : String) (a b : Kvs) (v : J) (h : J.lookup k a = some v) : J.lookup k (a ++ b) = some v := by
  induction a with
  | nil => simp [J.lookup] at h
  | cons x xs ih =>
    obtain ⟨k', v'⟩ := x
    by_cases hk : (k' == k) = true
    · simpa [J.lookup, hk] using h
    · simp only [List.cons_append, J.lookup, hk] at h ⊢; exact ih h

theorem lookup_append_right (k : String) (a b : Kvs) (h : J.lookup k a = none) : J.lookup k (a ++ b) = J.lookup k b := by
  induction a with
  | nil => rfl
  | cons x xs ih =>
    obtain ⟨k', v'⟩ := x
    by_cases hk : (k' == k) = true
    · simp [J.lookup, hk] at h
    · simp only [List.cons_append, J.lookup, hk] at h ⊢; exact ih h

@[simp] theorem tx_postings (off : Int) (tx : Tx) :
    Val.arrow (.json (txJ off tx)) (.text "postings") = .json (.arr (tx.postings.map postingJ)) := by
  simp [txJ, Val.arrow, Val.keyOf, J.lookup]
@[simp] theorem tx_metadata (off : Int) (tx : Tx) :
    Val.arrow (.json (txJ off tx)) (.text "metadata") = .json (.obj (kvsOf tx.metadata)) := by
  simp [txJ, Val.arrow, Val.keyOf, J.lookup, metaJ_eq]
@[simp] theorem tx_metadata_text (off : Int) (tx : Tx) :
    Val.arrowText (.json (txJ off tx)) (.text "metadata") = .jsontext (.obj (kvsOf tx.metadata)) := by
  simp [Val.arrowText]
@[simp] theorem tx_timestamp (off : Int) (tx : Tx) :
    Val.castTimestamp (Val.arrowText (.json (txJ off tx)) (.text "timestamp")) = .ts (tx.timestamp + off) := by
  simp [txJ, Val.arrowText, Val.arrow, Val.keyOf, J.lookup, Val.castTimestamp]
@[simp] theorem tx_id (off : Int) (tx : Tx) :
    Val.castNumeric (Val.arrowText (.json (txJ off tx)) (.text "id")) = .int tx.id := by
  by_cases h : (tx.reference == "") = true <;> simp [txJ, Val.arrowText, Val.arrow, Val.keyOf, J.lookup, Val.castNumeric, h]

@[simp] theorem ne_jsontext_text (j : J) (s : String) : Val.ne (.jsontext j) (.text s) = .bool true := rfl
@[simp] theorem isNotNull_json (j : J) : Val.isNotNull (.json j) = .bool true := rfl

def aTxRow (seq : Nat) (l : String) (tx : Tx) : ATx :=
  let data := Val.json (txJ 0 tx)
  let ps := Val.json (.arr (tx.postings.map postingJ))
  { seq := seq, ledger := l, id := tx.id, ts := tx.timestamp, reference := Val.arrowText data (.text "reference"), revertedAt := .null,
    updatedAt := .ts tx.timestamp, postings := Val.jsonbPretty ps,
    sources := Sql.aggElements (fun (v : Val) => (Val.arrowText v (Val.text "source"))) ps,
    destinations := Sql.aggElements (fun (v : Val) => (Val.arrowText v (Val.text "destination"))) ps,
    sourcesArrays := Sql.aggElements (fun (v : Val) => (Sql.explodeAddress (Val.arrowText v (Val.text "source")))) ps,
    destinationsArrays := Sql.aggElements (fun (v : Val) => (Sql.explodeAddress (Val.arrowText v (Val.text "destination")))) ps,
    md := kvsOf tx.metadata }

/-- the `insert into transactions` of `insert_transaction`, with the revision 1 its trigger writes -/
def aTxInserted (A : ADB) (l : String) (tx : Tx) : ADB :=
  aTxInsHist { A with txs := A.txs ++ [aTxRow A.txSeq l tx], txSeq := A.txSeq + 1 } (aTxRow A.txSeq l tx)

def aInsertTransaction (A : ADB) (l : String) (tx : Tx) (d : Val) (am : List (String × Meta)) : ADB :=
  let A2 := tx.postings.foldl (fun B p => aInsertPosting B (.int A.txSeq) l d tx.timestamp p am) (aTxInserted A l tx)
  { A2 with txMeta := A2.txMeta ++ [{ seq := A2.txMetaSeq, ledger := l, base := A.txSeq, revision := .int 0, date := .ts tx.timestamp, md := kvsOf tx.metadata }],
            txMetaSeq := A2.txMetaSeq + 1 }

theorem insert_transactions_conc (A : ADB) (t : ATx) :
    insert_transactions (conc A) { t.row with seq := .null } =
      (conc (aTxInsHist { A with txs := A.txs ++ [{ t with seq := A.txSeq }], txSeq := A.txSeq + 1 } { t with seq := A.txSeq }),
       ({ t with seq := A.txSeq } : ATx).row) := by
  rw [← insert_tx_hist_conc]
  simp [insert_transactions, Sql.insertRow, tbl_transactions, conc, ATx.row]

theorem insert_transactions_metadata_conc (A : ADB) (h : ATxMeta) :
    insert_transactions_metadata (conc A) { h.rowT with seq := .null } =
      (conc { A with txMeta := A.txMeta ++ [{ h with seq := A.txMetaSeq }], txMetaSeq := A.txMetaSeq + 1 }, ({ h with seq := A.txMetaSeq } : ATxMeta).rowT) := by
  simp [insert_transactions_metadata, Sql.insertRow, tbl_transactions_metadata, conc, AMeta.rowT]

/-- a `for … in select jsonb_array_elements(postings)` loop whose body refines `f` -/
theorem forEach_postings {E : Type} (body : Val → DB × E → DB × E) (P : E → Prop) (f : ADB → Posting → ADB)
    (hbody : ∀ A e p, P e → (body (.json (postingJ p)) (conc A, e)).1 = conc (f A p) ∧ P (body (.json (postingJ p)) (conc A, e)).2) :
    ∀ (ps : List Posting) (A : ADB) (e : E), P e →
      (Sql.forEach ((ps.map postingJ).map Val.json) body (conc A, e)).1 = conc (ps.foldl f A) ∧
      P (Sql.forEach ((ps.map postingJ).map Val.json) body (conc A, e)).2 := by
  intro ps
  induction ps with
  | nil => intro A e he; exact ⟨rfl, he⟩
  | cons p ps ih =>
    intro A e he
    obtain ⟨h1, h2⟩ := hbody A e p he
    simp only [Sql.forEach, List.map_cons, List.foldl_cons] at ih ⊢
    have : body (Val.json (postingJ p)) (conc A, e) = (conc (f A p), (body (Val.json (postingJ p)) (conc A, e)).2) := by
      rw [← h1]
    rw [this]
    exact ih (f A p) _ h2

theorem forEach_postings' {E : Type} {body : Val → DB × E → DB × E} {ps : List Posting} {A : ADB} {e : E} {s' : DB × E}
    (hfe : Sql.forEach ((ps.map postingJ).map Val.json) body (conc A, e) = s') (P : E → Prop) (f : ADB → Posting → ADB)
    (hbody : ∀ A e p, P e → (body (.json (postingJ p)) (conc A, e)).1 = conc (f A p) ∧ P (body (.json (postingJ p)) (conc A, e)).2)
    (he : P e) : s'.1 = conc (ps.foldl f A) ∧ P s'.2 := by
  rw [← hfe]; exact forEach_postings body P f hbody ps A e he

@[simp] theorem jsonbArrayElements_arr (xs : List J) : jsonbArrayElements (.json (.arr xs)) = xs.map Val.json := rfl

theorem insert_transaction_conc (A : ADB) (l : String) (tx : Tx) (d : Val) (am : List (String × Meta)) :
    insert_transaction (conc A) (.text l) (.json (txJ 0 tx)) d (.json (.obj (amObj am))) = conc (aInsertTransaction A l tx d am) := by
  have ins_ := insert_transactions_conc A (aTxRow 0 l tx)
  simp only [ATx.row, aTxRow] at ins_
  unfold insert_transaction
  simp only [tx_postings, tx_metadata, tx_timestamp, tx_id, Int.add_zero, coalesce_json, ins_, jsonbArrayElements_arr]
  generalize hfe : Sql.forEach _ _ _ = s'
  obtain ⟨k1, k2, k3, k4⟩ := forEach_postings' hfe
    (fun e => e._ledger = .text l ∧ e.data = .json (txJ 0 tx) ∧ e._seq = .int A.txSeq ∧ e._date = d ∧ e._account_metadata = .json (.obj (amObj am)))
    (fun A1 p => aInsertPosting A1 (.int A.txSeq) l d tx.timestamp p am)
    (by
      rintro A1 e p ⟨h1, h2, h3, h4, h5⟩
      simp [h1, h2, h3, h4, h5, insert_posting_conc])
    ⟨rfl, rfl, rfl, rfl, rfl⟩
  have ins2 := fun A2 => insert_transactions_metadata_conc A2
    { seq := 0, ledger := l, base := A.txSeq, revision := .int 0, date := .ts tx.timestamp, md := kvsOf tx.metadata }
  simp only [AMeta.rowT] at ins2
  obtain ⟨db', e'⟩ := s'
  simp only at k1 k2 k3 k4
  subst k1
  simp [k2, k3, k4.1, ins2, aInsertTransaction, aTxInserted, aTxRow]

-- ---------------------------------------------------------------- handle_log, and one INSERT into logs

def aHandle (A : ADB) (log : CLog) : ADB :=
  match log.payload with
  | .newTx tx am =>
    am.foldl (fun A km => aUpsertAccount A log.ledger km.1 (kvsOf km.2) (.ts tx.timestamp)) (aInsertTransaction A log.ledger tx (.ts log.date) am)
  | .revert rid tx => aRevertTransaction (aInsertTransaction A log.ledger tx (.ts log.date) []) log.ledger rid (.ts tx.timestamp)
  | .setMeta (.transaction id) m => aUpdateTransactionMetadata A log.ledger id (kvsOf m) (.ts log.date)
  | .setMeta (.account a) m => aUpsertAccount A log.ledger a (kvsOf m) (.ts log.date)
  | .delMeta (.transaction id) k => aDeleteTransactionMetadata A log.ledger id k (.ts log.date)
  | .delMeta (.account a) k => aDeleteAccountMetadata A log.ledger a k (.ts log.date)

def aLogged (A : ADB) (log : CLog) : ADB :=
  { A with logs := A.logs ++ [{ logRow 0 log with seq := .int A.logsSeq }], logsSeq := A.logsSeq + 1 }

/-- what one log entry does to the typed tables -/
def aStep (A : ADB) (log : CLog) : ADB := aHandle (aLogged A log) log

theorem forEach_accountMeta {E : Type} (body : Val × Val → DB × E → DB × E) (f : ADB → String × Meta → ADB)
    (hbody : ∀ A e km, (body (Val.text km.1, Val.json (metaJ km.2)) (conc A, e)).1 = conc (f A km)) :
    ∀ (am : List (String × Meta)) (A : ADB) (e : E),
      (Sql.forEach (jsonbEachText (.json (.obj (amObj am)))) body (conc A, e)).1 = conc (am.foldl f A) := by
  intro am
  induction am with
  | nil => intro A e; rfl
  | cons km rest ih =>
    intro A e
    have h1 := hbody A e km
    have hstep : jsonbEachText (.json (.obj (amObj (km :: rest)))) = (Val.text km.1, Val.json (metaJ km.2)) :: jsonbEachText (.json (.obj (amObj rest))) := by
      simp [jsonbEachText, amObj, metaJ]
    rw [hstep]
    simp only [Sql.forEach, List.foldl_cons] at ih ⊢
    have : body (Val.text km.1, Val.json (metaJ km.2)) (conc A, e) = (conc (f A km), (body (Val.text km.1, Val.json (metaJ km.2)) (conc A, e)).2) := by
      rw [← h1]
    rw [this]
    exact ih (f A km) _

theorem handle_log_conc (A : ADB) (log : CLog) (s : Val) :
    handle_log (conc A) { logRow 0 log with seq := s } = conc (aHandle A log) := by
  obtain ⟨l, id, d, ik, payload⟩ := log
  have arrow_tx : ∀ (rest : Kvs) (j : J), Val.arrow (.json (.obj (("transaction", j) :: rest))) (.text "transaction") = .json j := by
    intro rest j; simp [Val.arrow, Val.keyOf, J.lookup]
  cases payload with
  | newTx tx am =>
    have h1 : Val.arrow (.json (payloadJ 0 (.newTx tx am))) (.text "transaction") = .json (txJ 0 tx) := by
      simp [payloadJ, Val.arrow, Val.keyOf, J.lookup]
    have h2 : Val.arrow (.json (payloadJ 0 (.newTx tx am))) (.text "accountMetadata") = .json (.obj (amObj am)) := by
      simp [payloadJ, Val.arrow, Val.keyOf, J.lookup, amObj]
    simp only [handle_log, logRow, typeName, h1, h2, aHandle, eq_text_text, truthy_bool, insert_transaction_conc, tx_timestamp, Int.add_zero]
    simp only [show ("NEW_TRANSACTION" == "NEW_TRANSACTION") = true from by decide, show ("NEW_TRANSACTION" == "REVERTED_TRANSACTION") = false from by decide,
      show ("NEW_TRANSACTION" == "SET_METADATA") = false from by decide, show ("NEW_TRANSACTION" == "DELETE_METADATA") = false from by decide,
      if_true, if_false, Bool.false_eq_true]
    exact forEach_accountMeta _ (fun A km => aUpsertAccount A l km.1 (kvsOf km.2) (.ts tx.timestamp))
      (by intro A e km; simp only; exact upsert_account_conc A l km.1 _ _ _ (by simp [metaJ_eq])) am _ _
  | revert rid tx =>
    have h1 : Val.arrow (.json (payloadJ 0 (.revert rid tx))) (.text "transaction") = .json (txJ 0 tx) := by
      simp [payloadJ, Val.arrow, Val.keyOf, J.lookup]
    have h2 : Val.castNumeric (Val.arrowText (.json (payloadJ 0 (.revert rid tx))) (.text "revertedTransactionID")) = .int rid := by
      simp [payloadJ, Val.arrowText, Val.arrow, Val.keyOf, J.lookup, Val.castNumeric]
    have h3 := fun A1 => insert_transaction_conc A1 l tx (.ts d) []
    simp only [amObj, List.map_nil] at h3
    simp only [handle_log, logRow, typeName, h1, h2, aHandle, eq_text_text, truthy_bool, tx_timestamp, Int.add_zero]
    simp only [show ("REVERTED_TRANSACTION" == "NEW_TRANSACTION") = false from by decide, show ("REVERTED_TRANSACTION" == "REVERTED_TRANSACTION") = true from by decide,
      show ("REVERTED_TRANSACTION" == "SET_METADATA") = false from by decide, show ("REVERTED_TRANSACTION" == "DELETE_METADATA") = false from by decide,
      if_true, if_false, Bool.false_eq_true]
    rw [h3, revert_transaction_conc]
  | setMeta t m =>
    have hty : ("SET_METADATA" == "NEW_TRANSACTION") = false ∧ ("SET_METADATA" == "REVERTED_TRANSACTION") = false ∧
        ("SET_METADATA" == "SET_METADATA") = true ∧ ("SET_METADATA" == "DELETE_METADATA") = false := by decide
    cases t with
    | account a =>
      have h1 : Val.arrowText (.json (payloadJ 0 (.setMeta (.account a) m))) (.text "targetType") = .text "ACCOUNT" := by
        simp [payloadJ, targetJ, Val.arrowText, Val.arrow, Val.keyOf, J.lookup]
      have h2 : Val.castVarchar (Val.arrowText (.json (payloadJ 0 (.setMeta (.account a) m))) (.text "targetId")) = .text a := by
        simp [payloadJ, targetJ, Val.arrowText, Val.arrow, Val.keyOf, J.lookup, Val.castVarchar]
      have h3 : Val.arrow (.json (payloadJ 0 (.setMeta (.account a) m))) (.text "metadata") = .json (.obj (kvsOf m)) := by
        simp [payloadJ, targetJ, Val.arrow, Val.keyOf, J.lookup, metaJ_eq]
      have h4 := fun A1 => upsert_account_conc A1 l a (.json (.obj (kvsOf m))) (kvsOf m) (.ts d) rfl
      simp only [handle_log, logRow, typeName, h1, h2, h3, h4, aHandle, eq_text_text, truthy_bool, hty,
        show ("ACCOUNT" == "TRANSACTION") = false from by decide, if_true, if_false, Bool.false_eq_true]
    | transaction tid =>
      have h1 : Val.arrowText (.json (payloadJ 0 (.setMeta (.transaction tid) m))) (.text "targetType") = .text "TRANSACTION" := by
        simp [payloadJ, targetJ, Val.arrowText, Val.arrow, Val.keyOf, J.lookup]
      have h2 : Val.castNumeric (Val.arrowText (.json (payloadJ 0 (.setMeta (.transaction tid) m))) (.text "targetId")) = .int tid := by
        simp [payloadJ, targetJ, Val.arrowText, Val.arrow, Val.keyOf, J.lookup, Val.castNumeric]
      have h3 : Val.arrow (.json (payloadJ 0 (.setMeta (.transaction tid) m))) (.text "metadata") = .json (.obj (kvsOf m)) := by
        simp [payloadJ, targetJ, Val.arrow, Val.keyOf, J.lookup, metaJ_eq]
      simp only [handle_log, logRow, typeName, h1, h2, h3, aHandle, eq_text_text, truthy_bool, hty, update_transaction_metadata_conc,
        show ("TRANSACTION" == "TRANSACTION") = true from by decide, if_true, if_false, Bool.false_eq_true]
  | delMeta t k =>
    have hty : ("DELETE_METADATA" == "NEW_TRANSACTION") = false ∧ ("DELETE_METADATA" == "REVERTED_TRANSACTION") = false ∧
        ("DELETE_METADATA" == "SET_METADATA") = false ∧ ("DELETE_METADATA" == "DELETE_METADATA") = true := by decide
    cases t with
    | account a =>
      have h1 : Val.arrowText (.json (payloadJ 0 (.delMeta (.account a) k))) (.text "targetType") = .text "ACCOUNT" := by
        simp [payloadJ, targetJ, Val.arrowText, Val.arrow, Val.keyOf, J.lookup]
      have h2 : Val.castVarchar (Val.arrowText (.json (payloadJ 0 (.delMeta (.account a) k))) (.text "targetId")) = .text a := by
        simp [payloadJ, targetJ, Val.arrowText, Val.arrow, Val.keyOf, J.lookup, Val.castVarchar]
      have h3 : Val.arrowText (.json (payloadJ 0 (.delMeta (.account a) k))) (.text "key") = .text k := by
        simp [payloadJ, targetJ, Val.arrowText, Val.arrow, Val.keyOf, J.lookup]
      simp only [handle_log, logRow, typeName, h1, h2, h3, aHandle, eq_text_text, truthy_bool, hty, delete_account_metadata_conc,
        show ("ACCOUNT" == "TRANSACTION") = false from by decide, if_true, if_false, Bool.false_eq_true]
    | transaction tid =>
      have h1 : Val.arrowText (.json (payloadJ 0 (.delMeta (.transaction tid) k))) (.text "targetType") = .text "TRANSACTION" := by
        simp [payloadJ, targetJ, Val.arrowText, Val.arrow, Val.keyOf, J.lookup]
      have h2 : Val.castNumeric (Val.arrowText (.json (payloadJ 0 (.delMeta (.transaction tid) k))) (.text "targetId")) = .int tid := by
        simp [payloadJ, targetJ, Val.arrowText, Val.arrow, Val.keyOf, J.lookup, Val.castNumeric]
      have h3 : Val.arrowText (.json (payloadJ 0 (.delMeta (.transaction tid) k))) (.text "key") = .text k := by
        simp [payloadJ, targetJ, Val.arrowText, Val.arrow, Val.keyOf, J.lookup]
      simp only [handle_log, logRow, typeName, h1, h2, h3, aHandle, eq_text_text, truthy_bool, hty, delete_transaction_metadata_conc,
        show ("TRANSACTION" == "TRANSACTION") = true from by decide, if_true, if_false, Bool.false_eq_true]

/-- **the generated trigger chain refines the typed step**: one `INSERT` into `logs` on the rendering of a typed database is the
rendering of `aStep` -/
theorem stepDB_conc (A : ADB) (log : CLog) : stepDB 0 (conc A) log = conc (aStep A log) := by
  have h := handle_log_conc (aLogged A log) log (.int A.logsSeq)
  simp only [stepDB, insert_logs, Sql.insertRow, tbl_logs, aStep]
  rw [← h]
  rfl

theorem project_conc (logs : List CLog) (A : ADB) : projectFrom 0 (conc A) logs = conc (logs.foldl aStep A) := by
  induction logs generalizing A with
  | nil => rfl
  | cons l ls ih => simp only [projectFrom, List.foldl_cons, stepDB_conc] at ih ⊢; exact ih _

end StoreSql
