import Model.Store.Search
/-! C04 stage 2: kernel evaluation of the generated projection on every history of ≤ 2 entries (kept in its own module: it
takes most of a minute and is re-checked only when `Generated/Schema.lean` or the models change). -/
namespace StoreSql
open Store

/-- no discrepancy of a history is left unexplained by one of the known shapes, and no frame break -/
def smallScopeOk (logs : List CLog) : Bool :=
  (discrepancies logs).all (fun d => explanation (logs.map (fun l => (l, 0))) d != "unexplained") && (frameBad logs).isEmpty

set_option maxRecDepth 1000000 in
theorem smallScope_depth2 : (Search.histories 2).all smallScopeOk = true := by
  decide +kernel

end StoreSql
