import Model.Store.Search
/-! C04 stage 2: kernel evaluation of the generated projection on every history of ≤ 2 entries (kept in its own module: it
takes most of a minute and is re-checked only when `Generated/Schema.lean` or the models change). -/
namespace StoreSql
open Store

/-- the tables say what the replay says on every clause (i)–(iv), and no row of another ledger was touched (v) -/
def smallScopeOk (logs : List CLog) : Bool :=
  (discrepancies logs).isEmpty && (frameBad logs).isEmpty

set_option maxRecDepth 1000000 in
theorem smallScope_depth2 : (Search.histories 2).all smallScopeOk = true := by
  decide +kernel

end StoreSql
