import Model.Engine.SkelSys
import Model.Engine.SkelAutoGuard
import Model.Engine.Guard
import Lemmas.EngineGuard
import Std.Data.String.ToNat
/-! The system that interprets the regenerated skeleton (`SkelSys`), scheduled at the yield points (`RunY`), refines the
`Guard` machine — for its three instances (idempotency keys, references, revert targets) at once: `v : VId`.

`Model/Engine/SkelAutoGuard.lean` is the per-request automaton; here: what every token does to the commander's state and
to the machine's (`item_step`), the coupling invariant (`PInv` per request, `GInv` globally), the step lemma and
`runY_refines`.  The coupling of the reservations: `Guard` keeps a reservation until the holder's `finish`, the
referencer until the `release`; in between (the WINDOW) the request is the running one (no scheduling point lies in a
window — checked by the automaton), so whenever ANOTHER request attempts a reservation the two tables agree. -/
namespace Engine.Skel.GuardRef
open Engine Engine.Skel Engine.Skel.Sys

-- ------------------------------------------------------------------------------------------------ the three views

/-- the key a log carries for the view -/
def VId.keyOf : VId → LogE → String
  | .ik, l => l.ik
  | .ref, l => l.ref
  | .rev, l => Guard.revKey l.reverts

def VId.view (isRevert : Nat → Bool) : VId → Ev → Guard.GEv
  | .ik => Guard.ikView
  | .ref => Guard.refView
  | .rev => Guard.revView isRevert

/-- the machine's entry for a queued log -/
def entryOf (v : VId) (q : Nat × LogE) : Guard.Entry := ⟨v.keyOf q.2, q.2.id, q.1⟩

/-- the machine of one view -/
abbrev gm (v : VId) (isRevert : Nat → Bool) : Guard.S → Ev → Except String Guard.S := Guard.stepOf (v.view isRevert)

theorem view_committed (v : VId) (ir : Nat → Bool) (a : Nat) (l : LogE) (lt : Int) :
    v.view ir (.committed a l lt) = .commit a (v.keyOf l) l.id := by
  cases v <;> rfl

theorem view_gate (v : VId) (ir : Nat → Bool) (n : Nat) (ok : Bool) : v.view ir (.gate n ok) = .gate n ok := by
  cases v <;> rfl

theorem view_finish (v : VId) (ir : Nat → Bool) (a : Nat) (ok : Bool) (e : String) (t : Option Nat) :
    v.view ir (.finish a ok e t) = .finish a := by
  cases v <;> rfl

theorem view_crash (v : VId) (ir : Nat → Bool) : v.view ir .crash = .crash := by
  cases v <;> rfl

theorem view_taken (v : VId) (ir : Nat → Bool) (a : Nat) (k : RefKind) (key : String) (ok : Bool) :
    v.view ir (.taken a (kindName k) key ok) = if k = v.K then .take a key ok else .other := by
  cases v <;> cases k <;> simp [VId.view, VId.K, kindName, Guard.ikView, Guard.refView, Guard.revView]

theorem revKey_eq_toString (r : Option Nat) (t : Nat) : Guard.revKey r = toString t ↔ r = some t := by
  cases r with
  | none =>
    simp only [Guard.revKey, reduceCtorEq, iff_false]
    intro h
    have := Nat.length_repr_pos (n := t)
    rw [show toString t = t.repr from rfl] at h
    rw [← h] at this
    simp at this
  | some t' =>
    simp only [Guard.revKey, Option.some.injEq]
    exact ⟨fun h => Nat.repr_injective h, fun h => by rw [h]⟩

theorem revKey_eq_empty (r : Option Nat) : Guard.revKey r = "" ↔ r = none := by
  cases r with
  | none => simp [Guard.revKey]
  | some t =>
    simp only [Guard.revKey, reduceCtorEq, iff_false]
    intro h
    have := Nat.length_repr_pos (n := t)
    rw [show toString t = t.repr from rfl] at h
    rw [h] at this
    simp at this

theorem keyOf_default (v : VId) : v.keyOf (default : LogE) = "" := by
  cases v <;> rfl

-- ------------------------------------------------------------------------------------------------ the machine's steps

theorem runOn_single {S : Type} (step : S → Ev → Except String S) (s s' : S) (e : Ev) (h : step s e = .ok s') :
    runOn step s [e] = .ok s' := by
  simp [runOn, h]

theorem step_take_ok (s : Guard.S) (a : Nat) (k : String) (h : Guard.isHeld s k = false) :
    Guard.step s (.take a k true) = .ok { s with held := (k, a) :: s.held } := by
  simp [Guard.step, h]

theorem step_take_no (s : Guard.S) (a : Nat) (k : String) (h : Guard.isHeld s k = true) :
    Guard.step s (.take a k false) = .ok s := by
  simp [Guard.step, h]

theorem step_read_hit (s : Guard.S) (a : Nat) (k : String) (hh : (k, a) ∈ s.held)
    (hd : s.durable.any (·.key = k) = true) (hp : s.pending.any (fun e => e.by_ = a ∧ e.key = k) = false) :
    Guard.step s (.read a k true) = .ok s := by
  simp only [Guard.step, hh, not_true_eq_false, if_false, hd, ne_eq, hp, Bool.false_eq_true, if_true]

theorem step_read_miss (s : Guard.S) (a : Nat) (k : String) (hh : (k, a) ∈ s.held)
    (hd : s.durable.any (·.key = k) = false) (hp : s.pending.any (fun e => e.by_ = a ∧ e.key = k) = false) :
    Guard.step s (.read a k false) = .ok { s with missed := (a, k) :: s.missed } := by
  simp only [Guard.step, hh, not_true_eq_false, if_false, hd, ne_eq, hp, Bool.false_eq_true]

theorem step_commit_plain (s : Guard.S) (a id : Nat) :
    Guard.step s (.commit a "" id) = .ok { s with pending := s.pending ++ [⟨"", id, a⟩] } := by
  simp [Guard.step]

theorem step_commit_keyed (s : Guard.S) (a id : Nat) (k : String) (hk : k ≠ "") (hh : (k, a) ∈ s.held)
    (hm : (a, k) ∈ s.missed) :
    Guard.step s (.commit a k id) = .ok { s with pending := s.pending ++ [⟨k, id, a⟩], missed := s.missed.filter (· ≠ (a, k)) } := by
  simp [Guard.step, hk, hh, hm]

theorem step_finish (s : Guard.S) (a : Nat) (hp : s.pending.any (fun e => e.by_ = a ∧ e.key ≠ "") = false) :
    Guard.step s (.finish a) = .ok { s with held := s.held.filter (·.2 ≠ a), missed := s.missed.filter (·.1 ≠ a) } := by
  simp only [Guard.step, hp, Bool.false_eq_true, if_false]

/-- the event is about request `a` (or about nobody) -/
def actorIs (a : Nat) : Guard.GEv → Prop
  | .take b _ _ => b = a
  | .read b _ _ => b = a
  | .commit b _ _ => b = a
  | .finish b => b = a
  | .other => True
  | _ => False

/-- an accepted event of request `a` leaves the other requests' reservations and misses, and the persisted log, alone -/
theorem step_frame (s s' : Guard.S) (e : Guard.GEv) (a : Nat) (h : Guard.step s e = .ok s') (ha : actorIs a e) :
    (∀ k b, b ≠ a → ((k, b) ∈ s'.held ↔ (k, b) ∈ s.held)) ∧ (∀ k b, b ≠ a → (b, k) ∈ s.missed → (b, k) ∈ s'.missed) ∧
    s'.durable = s.durable := by
  cases e with
  | take b k ok =>
    simp only [actorIs] at ha
    subst ha
    simp only [Guard.step] at h
    split at h <;> split at h <;> first | cases h | (simp only [Except.ok.injEq] at h; subst h)
    · refine ⟨?_, fun _ _ _ hm => hm, rfl⟩
      intro k' b' hb
      simp only [List.mem_cons, Prod.mk.injEq]
      constructor
      · rintro (⟨_, h2⟩ | h2)
        · exact absurd h2 hb
        · exact h2
      · exact fun h2 => .inr h2
    · exact ⟨fun _ _ _ => Iff.rfl, fun _ _ _ hm => hm, rfl⟩
  | read b k found =>
    simp only [actorIs] at ha
    subst ha
    simp only [Guard.step] at h
    split at h
    · cases h
    · split at h
      · cases h
      · split at h
        · cases h
        · split at h <;> (simp only [Except.ok.injEq] at h; subst h)
          · exact ⟨fun _ _ _ => Iff.rfl, fun _ _ _ hm => hm, rfl⟩
          · exact ⟨fun _ _ _ => Iff.rfl, fun _ _ _ hm => List.mem_cons_of_mem _ hm, rfl⟩
  | commit b k id =>
    simp only [actorIs] at ha
    subst ha
    simp only [Guard.step] at h
    split at h
    · simp only [Except.ok.injEq] at h; subst h
      exact ⟨fun _ _ _ => Iff.rfl, fun _ _ _ hm => hm, rfl⟩
    · split at h
      · cases h
      · split at h
        · cases h
        · simp only [Except.ok.injEq] at h; subst h
          refine ⟨fun _ _ _ => Iff.rfl, ?_, rfl⟩
          intro k' b' hb hm
          refine List.mem_filter.mpr ⟨hm, ?_⟩
          simp only [ne_eq, Prod.mk.injEq, not_and, decide_eq_true_eq]
          exact fun h1 => absurd h1 hb
  | finish b =>
    simp only [actorIs] at ha
    subst ha
    simp only [Guard.step] at h
    split at h
    · cases h
    · simp only [Except.ok.injEq] at h; subst h
      refine ⟨?_, ?_, rfl⟩
      · intro k' b' hb
        simp only [List.mem_filter, ne_eq, decide_eq_true_eq, hb, not_false_eq_true, and_true]
      · intro k' b' hb hm
        exact List.mem_filter.mpr ⟨hm, by simpa using hb⟩
  | other =>
    simp only [Guard.step, Except.ok.injEq] at h; subst h
    exact ⟨fun _ _ _ => Iff.rfl, fun _ _ _ hm => hm, rfl⟩
  | gate n ok => cases ha
  | crash => cases ha

theorem run_frame (view : Ev → Guard.GEv) (a : Nat) :
    ∀ (evs : List Ev) (s s' : Guard.S), runOn (Guard.stepOf view) s evs = .ok s' → (∀ e ∈ evs, actorIs a (view e)) →
      (∀ k b, b ≠ a → ((k, b) ∈ s'.held ↔ (k, b) ∈ s.held)) ∧ (∀ k b, b ≠ a → (b, k) ∈ s.missed → (b, k) ∈ s'.missed) ∧
      s'.durable = s.durable := by
  intro evs
  induction evs with
  | nil =>
    intro s s' h _
    simp only [runOn, Except.ok.injEq] at h
    subst h
    exact ⟨fun _ _ _ => Iff.rfl, fun _ _ _ hm => hm, rfl⟩
  | cons e es ih =>
    intro s s' h hall
    simp only [runOn] at h
    cases hs : Guard.stepOf view s e with
    | error m => rw [hs] at h; cases h
    | ok s1 =>
      rw [hs] at h
      obtain ⟨f1, f2, f3⟩ := step_frame s s1 (view e) a hs (hall e List.mem_cons_self)
      obtain ⟨g1, g2, g3⟩ := ih s1 s' h (fun e' he' => hall e' (List.mem_cons_of_mem _ he'))
      exact ⟨fun k b hb => (g1 k b hb).trans (f1 k b hb), fun k b hb hm => g2 k b hb (f2 k b hb hm), g3.trans f3⟩

theorem runOn_ignored (view : Ev → Guard.GEv) (s : Guard.S) (evs : List Ev) (h : ∀ ev ∈ evs, view ev = .other) :
    runOn (Guard.stepOf view) s evs = .ok s := by
  induction evs with
  | nil => rfl
  | cons e es ih =>
    have : Guard.stepOf view s e = .ok s := by
      simp only [Guard.stepOf, h e List.mem_cons_self, Guard.step]
    simp only [runOn, this]
    exact ih (fun ev hev => h ev (List.mem_cons_of_mem _ hev))

-- ------------------------------------------------------------------------------------------------ what items do, in general

theorem effSh_store (sh : Shared) (j : Job) (rg : Regs) (x : Item) : (effSh sh j rg x).store = sh.store := by
  unfold effSh
  split <;> rfl

/-- an item only touches its own request's reservations -/
theorem effSh_held_frame (sh : Shared) (j : Job) (rg : Regs) (x : Item) (K : RefKind) (k : String) (b : Nat) (hb : b ≠ j.a) :
    (K, k, b) ∈ (effSh sh j rg x).held ↔ (K, k, b) ∈ sh.held := by
  unfold effSh
  split <;> simp_all

/-- … and only `take` / `release` of the view's kind touch the reservations of that kind -/
theorem effSh_held_K (v : VId) (ep : String) (sh : Shared) (j : Job) (rg : Regs) (x : Item)
    (h1 : gtok v ep x ≠ .takeOk) (h2 : gtok v ep x ≠ .release) (k : String) (b : Nat) :
    (v.K, k, b) ∈ (effSh sh j rg x).held ↔ (v.K, k, b) ∈ sh.held := by
  unfold effSh
  split <;> simp_all [gtok]
  · intro h; exact absurd h.symm h1
  · intro _; exact .inl (fun h => h2 h.symm)

theorem effSh_queue (v : VId) (ep : String) (sh : Shared) (j : Job) (rg : Regs) (x : Item) (h : gtok v ep x ≠ .append) :
    (effSh sh j rg x).queue = sh.queue := by
  unfold effSh
  split <;> simp_all [gtok]

theorem effSh_queue_mem (sh : Shared) (j : Job) (rg : Regs) (x : Item) :
    ∀ q ∈ (effSh sh j rg x).queue, q ∈ sh.queue ∨ q.1 = j.a := by
  unfold effSh
  split <;> simp_all
  rintro a b (h | h)
  · exact .inl h
  · exact .inr h.1

theorem effRg_chained (v : VId) (ep : String) (sh : Shared) (j : Job) (rg : Regs) (x : Item) (h : gtok v ep x ≠ .chain) :
    (effRg sh j rg x).chained = rg.chained := by
  unfold effRg
  split <;> simp_all [gtok]

-- ------------------------------------------------------------------------------------------------ which item a token stands for

theorem tok_takeOk {v : VId} {ep : String} {x : Item} (h : gtok v ep x = .takeOk) :
    ∃ key via, x = .act (.take v.K key) .ok via := by
  cases x with
  | act a o via =>
    cases a <;> cases o <;> simp [gtok] at h <;> (try (split at h <;> simp at h)) <;> simp_all
  | _ => simp only [gtok] at h <;> (try (split at h <;> (try split at h) <;> simp at h)) <;> simp_all

theorem tok_takeNo {v : VId} {ep : String} {x : Item} (h : gtok v ep x = .takeNo) :
    ∃ key o via, x = .act (.take v.K key) o via ∧ o ≠ .ok := by
  cases x with
  | act a o via =>
    cases a <;> cases o <;> simp [gtok] at h <;> (try (split at h <;> simp at h)) <;> simp_all
    · exact ⟨_, _, ⟨rfl, rfl⟩, by simp⟩
    · exact ⟨_, _, ⟨rfl, rfl⟩, by simp⟩
  | _ => simp only [gtok] at h <;> (try (split at h <;> (try split at h) <;> simp at h)) <;> simp_all

theorem tok_release {v : VId} {ep : String} {x : Item} (h : gtok v ep x = .release) :
    ∃ key o via, x = .act (.release v.K key) o via := by
  cases x with
  | act a o via =>
    cases a <;> cases o <;> simp [gtok] at h <;> (try (split at h <;> simp at h)) <;> simp_all
  | _ => simp only [gtok] at h <;> (try (split at h <;> (try split at h) <;> simp at h)) <;> simp_all

theorem tok_hit {v : VId} {ep : String} {x : Item} (h : gtok v ep x = .hit) :
    (v = .ik ∧ ∃ key via, x = .act (.readIk key) .ok via) ∨ (v = .ref ∧ ∃ key via, x = .act (.readRef key) .ok via) := by
  cases x with
  | act a o via =>
    cases a <;> cases o <;> simp [gtok] at h <;> (try (split at h <;> simp at h)) <;> simp_all
  | _ => simp only [gtok] at h <;> (try (split at h <;> (try split at h) <;> simp at h)) <;> simp_all

theorem tok_miss {v : VId} {ep : String} {x : Item} (h : gtok v ep x = .miss) :
    (v = .ik ∧ ∃ key via, x = .act (.readIk key) .notFound via) ∨ (v = .ref ∧ ∃ key via, x = .act (.readRef key) .notFound via) := by
  cases x with
  | act a o via =>
    cases a <;> cases o <;> simp [gtok] at h <;> (try (split at h <;> simp at h)) <;> simp_all
  | _ => simp only [gtok] at h <;> (try (split at h <;> (try split at h) <;> simp at h)) <;> simp_all

theorem tok_look {v : VId} {ep : String} {x : Item} (h : gtok v ep x = .look) :
    v = .rev ∧ ep = "RevertTransaction" ∧ ∃ key via, x = .act (.readTx key) .ok via := by
  cases x with
  | act a o via =>
    cases a <;> cases o <;> simp [gtok] at h <;> (try (split at h <;> simp at h)) <;> simp_all
  | _ => simp only [gtok] at h <;> (try (split at h <;> (try split at h) <;> simp at h)) <;> simp_all

theorem tok_missTx {v : VId} {ep : String} {x : Item} (h : gtok v ep x = .missTx) :
    v = .rev ∧ ep = "RevertTransaction" ∧ ∃ key via, x = .act (.readTx key) .notFound via := by
  cases x with
  | act a o via =>
    cases a <;> cases o <;> simp [gtok] at h <;> (try (split at h <;> simp at h)) <;> simp_all
  | _ => simp only [gtok] at h <;> (try (split at h <;> (try split at h) <;> simp at h)) <;> simp_all

theorem tok_unrev {v : VId} {ep : String} {x : Item} (h : gtok v ep x = .unrev) :
    v = .rev ∧ ep = "RevertTransaction" ∧ x = .choose "reverted" false := by
  cases x with
  | act a o via =>
    cases a <;> cases o <;> simp [gtok] at h <;> (try (split at h <;> simp at h)) <;> simp_all
  | _ => simp only [gtok] at h <;> (try (split at h <;> (try split at h) <;> simp at h)) <;> simp_all

theorem tok_setKey {v : VId} {ep : String} {x : Item} (h : gtok v ep x = .setKey) :
    v = .ik ∧ ∃ o via, x = .act .setIk o via := by
  cases x with
  | act a o via =>
    cases a <;> cases o <;> simp [gtok] at h <;> (try (split at h <;> simp at h)) <;> simp_all
  | _ => simp only [gtok] at h <;> (try (split at h <;> (try split at h) <;> simp at h)) <;> simp_all

theorem tok_empty {v : VId} {ep : String} {x : Item} (h : gtok v ep x = .empty) :
    v = .ref ∧ x = .choose "ref≠''" false := by
  cases x with
  | act a o via =>
    cases a <;> cases o <;> simp [gtok] at h <;> (try (split at h <;> simp at h)) <;> simp_all
  | _ => simp only [gtok] at h <;> (try (split at h <;> (try split at h) <;> simp at h)) <;> simp_all

theorem tok_chain {v : VId} {ep : String} {x : Item} (h : gtok v ep x = .chain) :
    ∃ o via, x = .act .chainLog o via := by
  cases x with
  | act a o via =>
    cases a <;> cases o <;> simp [gtok] at h <;> (try (split at h <;> simp at h)) <;> simp_all
  | _ => simp only [gtok] at h <;> (try (split at h <;> (try split at h) <;> simp at h)) <;> simp_all

theorem tok_append {v : VId} {ep : String} {x : Item} (h : gtok v ep x = .append) :
    ∃ og cs o via, x = .act (.append og cs) o via := by
  cases x with
  | act a o via =>
    cases a <;> cases o <;> simp [gtok] at h <;> (try (split at h <;> simp at h)) <;> simp_all
  | _ => simp only [gtok] at h <;> (try (split at h <;> (try split at h) <;> simp at h)) <;> simp_all

theorem tok_waitP {v : VId} {ep : String} {x : Item} (h : gtok v ep x = .waitP) :
    ∃ o via, x = .act (.wait "persisted") o via := by
  cases x with
  | act a o via =>
    cases a <;> cases o <;> simp [gtok] at h <;> (try (split at h <;> simp at h)) <;> simp_all
  | _ => simp only [gtok] at h <;> (try (split at h <;> (try split at h) <;> simp at h)) <;> simp_all

theorem tok_yield {v : VId} {ep : String} {x : Item} (h : gtok v ep x = .yield) :
    ∃ pt o via, x = .act (.yield pt) o via := by
  cases x with
  | act a o via =>
    cases a <;> cases o <;> simp [gtok] at h <;> (try (split at h <;> simp at h)) <;> simp_all
  | _ => simp only [gtok] at h <;> (try (split at h <;> (try split at h) <;> simp at h)) <;> simp_all

theorem tok_fin {v : VId} {ep : String} {x : Item} (h : gtok v ep x = .fin) :
    ∃ ok cls, x = .fin ok cls := by
  cases x with
  | act a o via =>
    cases a <;> cases o <;> simp [gtok] at h <;> (try (split at h <;> simp at h)) <;> simp_all
  | _ => simp only [gtok] at h <;> (try (split at h <;> (try split at h) <;> simp at h)) <;> simp_all

-- ------------------------------------------------------------------------------------------------ the events of an item

theorem view_arrive (v : VId) (ir : Nat → Bool) (a : Nat) (pt : String) : v.view ir (.arrive a pt) = .other := by
  cases v <;> rfl
theorem view_resume (v : VId) (ir : Nat → Bool) (a : Nat) (pt : String) : v.view ir (.resume a pt) = .other := by
  cases v <;> rfl
theorem view_balRead (v : VId) (ir : Nat → Bool) (a : Nat) (x y : String) (z : Int) : v.view ir (.balRead a x y z) = .other := by
  cases v <;> rfl
theorem view_lock (v : VId) (ir : Nat → Bool) (a : Nat) (r w : List Acct) : v.view ir (.lock a r w) = .other := by
  cases v <;> rfl
theorem view_unlock (v : VId) (ir : Nat → Bool) (a : Nat) : v.view ir (.unlock a) = .other := by
  cases v <;> rfl
theorem view_publish (v : VId) (ir : Nat → Bool) (a : Nat) (e : BusEv) : v.view ir (.publish a e) = .other := by
  cases v <;> rfl
theorem view_ikRead (v : VId) (ir : Nat → Bool) (a : Nat) (k : String) (f : Option Nat) :
    v.view ir (.ikRead a k f) = if v = .ik then .read a k f.isSome else .other := by
  cases v <;> simp [VId.view, Guard.ikView, Guard.refView, Guard.revView]
theorem view_refRead (v : VId) (ir : Nat → Bool) (a : Nat) (k : String) (f : Bool) :
    v.view ir (.refRead a k f) = if v = .ref then .read a k f else .other := by
  cases v <;> simp [VId.view, Guard.ikView, Guard.refView, Guard.revView]
theorem view_txRead (v : VId) (ir : Nat → Bool) (a t : Nat) (f r : Bool) :
    v.view ir (.txRead a t f r) = if v = .rev ∧ ir a = true then .read a (toString t) r else .other := by
  cases v <;> simp [VId.view, Guard.ikView, Guard.refView, Guard.revView]

theorem actorIs_ite (a : Nat) (c : Prop) [Decidable c] (e1 e2 : Guard.GEv) :
    actorIs a (if c then e1 else e2) ↔ (c → actorIs a e1) ∧ (¬c → actorIs a e2) := by
  split <;> simp [*]

/-- every event of an item of request `j` is about `j` -/
theorem evs_actor (v : VId) (ir : Nat → Bool) (sh : Shared) (j : Job) (rg : Regs) (x : Item) :
    ∀ ev ∈ evsOf sh j rg x, actorIs j.a (v.view ir ev) := by
  unfold evsOf
  split <;> (try split) <;>
    simp [view_finish, view_taken, view_committed, view_arrive, view_resume, view_lock, view_unlock,
      view_publish, view_ikRead, view_refRead, view_txRead, actorIs_ite] <;> simp [actorIs]
  intro ev a b c _ h
  subst h
  simp [view_balRead]

/-- tokens whose items the machine does not hear about -/
def quiet : GTok → Bool
  | .release | .unrev | .setKey | .empty | .chain | .waitP | .yield | .other => true
  | _ => false

theorem evs_quiet (v : VId) (ir : Nat → Bool) (ep : String) (sh : Shared) (j : Job) (rg : Regs) (x : Item)
    (hq : quiet (gtok v ep x) = true) (hrev : v = .rev → ep ≠ "RevertTransaction" → ir j.a = false) :
    ∀ ev ∈ evsOf sh j rg x, v.view ir ev = .other := by
  unfold evsOf
  split <;> (try split) <;> (try simp only [gtok, apply_ite quiet] at hq) <;>
    simp_all [quiet, view_taken, view_arrive, view_resume, view_lock, view_unlock,
      view_publish, view_ikRead, view_refRead, view_txRead]
  · intro hv
    rcases hq with hq | hq
    · exact absurd hv hq
    · exact hrev hv hq
  · intro hv
    rcases hq with hq | hq
    · exact absurd hv hq
    · exact hrev hv hq
  · intro ev a b c _ h
    subst h
    simp [view_balRead]

end Engine.Skel.GuardRef
