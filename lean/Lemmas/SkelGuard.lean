import Model.Engine.SkelSys
import Model.Engine.SkelAutoGuard
import Model.Engine.Guard
import Lemmas.EngineGuard
import Lemmas.SkelChain
import Std.Data.String.ToNat
/-! The system that interprets the regenerated skeleton (`SkelSys`), scheduled at the yield points (`RunY`), refines the
`Guard` machine — for its three instances (idempotency keys, references, revert targets) at once: `v : VId`.

`Model/Engine/SkelAutoGuard.lean` is the per-request automaton; here: what every token does to the commander's state and
to the machine's (`item_step`), the coupling invariant (`PInv` per request, `GInv` globally), the step lemma and
`runY_refines`.  The coupling of the reservations: `Guard` keeps a reservation until the holder's `finish`, the
referencer until the `release`; in between (the WINDOW) the request is the running one (no scheduling point lies in a
window — checked by the automaton), so whenever ANOTHER request attempts a reservation the two tables agree. -/
namespace Engine.Skel.GuardRef
open Engine Engine.Skel Engine.Skel.Sys

-- ------------------------------------------------------------------------------------------------ the three views

/-- the key a log carries for the view -/
def VId.keyOf : VId → LogE → String
  | .ik, l => l.ik
  | .ref, l => l.ref
  | .rev, l => Guard.revKey l.reverts

def VId.view (isRevert : Nat → Bool) : VId → Ev → Guard.GEv
  | .ik => Guard.ikView
  | .ref => Guard.refView
  | .rev => Guard.revView isRevert

/-- the machine's entry for a queued log -/
def entryOf (v : VId) (q : Nat × LogE) : Guard.Entry := ⟨v.keyOf q.2, q.2.id, q.1⟩

/-- the machine of one view -/
abbrev gm (v : VId) (isRevert : Nat → Bool) : Guard.S → Ev → Except String Guard.S := Guard.stepOf (v.view isRevert)

theorem view_committed (v : VId) (ir : Nat → Bool) (a : Nat) (l : LogE) (lt : Int) :
    v.view ir (.committed a l lt) = .commit a (v.keyOf l) l.id := by
  cases v <;> rfl

theorem view_gate (v : VId) (ir : Nat → Bool) (n : Nat) (ok : Bool) : v.view ir (.gate n ok) = .gate n ok := by
  cases v <;> rfl

theorem view_finish (v : VId) (ir : Nat → Bool) (a : Nat) (ok : Bool) (e : String) (t : Option Nat) :
    v.view ir (.finish a ok e t) = .finish a := by
  cases v <;> rfl

theorem view_crash (v : VId) (ir : Nat → Bool) : v.view ir .crash = .crash := by
  cases v <;> rfl

theorem view_taken (v : VId) (ir : Nat → Bool) (a : Nat) (k : RefKind) (key : String) (ok : Bool) :
    v.view ir (.taken a (kindName k) key ok) = if k = v.K then .take a key ok else .other := by
  cases v <;> cases k <;> simp [VId.view, VId.K, kindName, Guard.ikView, Guard.refView, Guard.revView]

theorem revKey_eq_toString (r : Option Nat) (t : Nat) : Guard.revKey r = toString t ↔ r = some t := by
  cases r with
  | none =>
    simp only [Guard.revKey, reduceCtorEq, iff_false]
    intro h
    have := Nat.length_repr_pos (n := t)
    rw [show toString t = t.repr from rfl] at h
    rw [← h] at this
    simp at this
  | some t' =>
    simp only [Guard.revKey, Option.some.injEq]
    exact ⟨fun h => Nat.repr_injective h, fun h => by rw [h]⟩

theorem revKey_eq_empty (r : Option Nat) : Guard.revKey r = "" ↔ r = none := by
  cases r with
  | none => simp [Guard.revKey]
  | some t =>
    simp only [Guard.revKey, reduceCtorEq, iff_false]
    intro h
    have := Nat.length_repr_pos (n := t)
    rw [show toString t = t.repr from rfl] at h
    rw [h] at this
    simp at this

theorem keyOf_default (v : VId) : v.keyOf (default : LogE) = "" := by
  cases v <;> rfl

-- ------------------------------------------------------------------------------------------------ the machine's steps

theorem runOn_single {S : Type} (step : S → Ev → Except String S) (s s' : S) (e : Ev) (h : step s e = .ok s') :
    runOn step s [e] = .ok s' := by
  simp [runOn, h]

theorem step_take_ok (s : Guard.S) (a : Nat) (k : String) (h : Guard.isHeld s k = false) :
    Guard.step s (.take a k true) = .ok { s with held := (k, a) :: s.held } := by
  simp [Guard.step, h]

theorem step_take_no (s : Guard.S) (a : Nat) (k : String) (h : Guard.isHeld s k = true) :
    Guard.step s (.take a k false) = .ok s := by
  simp [Guard.step, h]

theorem step_read_hit (s : Guard.S) (a : Nat) (k : String) (hh : (k, a) ∈ s.held)
    (hd : s.durable.any (·.key = k) = true) (hp : s.pending.any (fun e => e.by_ = a ∧ e.key = k) = false) :
    Guard.step s (.read a k true) = .ok s := by
  simp only [Guard.step, hh, not_true_eq_false, if_false, hd, ne_eq, hp, Bool.false_eq_true, if_true]

theorem step_read_miss (s : Guard.S) (a : Nat) (k : String) (hh : (k, a) ∈ s.held)
    (hd : s.durable.any (·.key = k) = false) (hp : s.pending.any (fun e => e.by_ = a ∧ e.key = k) = false) :
    Guard.step s (.read a k false) = .ok { s with missed := (a, k) :: s.missed } := by
  simp only [Guard.step, hh, not_true_eq_false, if_false, hd, ne_eq, hp, Bool.false_eq_true]

theorem step_commit_plain (s : Guard.S) (a id : Nat) :
    Guard.step s (.commit a "" id) = .ok { s with pending := s.pending ++ [⟨"", id, a⟩] } := by
  simp [Guard.step]

theorem step_commit_keyed (s : Guard.S) (a id : Nat) (k : String) (hk : k ≠ "") (hh : (k, a) ∈ s.held)
    (hm : (a, k) ∈ s.missed) :
    Guard.step s (.commit a k id) = .ok { s with pending := s.pending ++ [⟨k, id, a⟩], missed := s.missed.filter (· ≠ (a, k)) } := by
  simp [Guard.step, hk, hh, hm]

theorem step_finish (s : Guard.S) (a : Nat) (hp : s.pending.any (fun e => e.by_ = a ∧ e.key ≠ "") = false) :
    Guard.step s (.finish a) = .ok { s with held := s.held.filter (·.2 ≠ a), missed := s.missed.filter (·.1 ≠ a) } := by
  simp only [Guard.step, hp, Bool.false_eq_true, if_false]

/-- the event is about request `a` (or about nobody) -/
def actorIs (a : Nat) : Guard.GEv → Prop
  | .take b _ _ => b = a
  | .read b _ _ => b = a
  | .commit b _ _ => b = a
  | .finish b => b = a
  | .other => True
  | _ => False

/-- an accepted event of request `a` leaves the other requests' reservations and misses, and the persisted log, alone -/
theorem step_frame (s s' : Guard.S) (e : Guard.GEv) (a : Nat) (h : Guard.step s e = .ok s') (ha : actorIs a e) :
    (∀ k b, b ≠ a → ((k, b) ∈ s'.held ↔ (k, b) ∈ s.held)) ∧ (∀ k b, b ≠ a → (b, k) ∈ s.missed → (b, k) ∈ s'.missed) ∧
    s'.durable = s.durable := by
  cases e with
  | take b k ok =>
    simp only [actorIs] at ha
    subst ha
    simp only [Guard.step] at h
    split at h <;> split at h <;> first | cases h | (simp only [Except.ok.injEq] at h; subst h)
    · refine ⟨?_, fun _ _ _ hm => hm, rfl⟩
      intro k' b' hb
      simp only [List.mem_cons, Prod.mk.injEq]
      constructor
      · rintro (⟨_, h2⟩ | h2)
        · exact absurd h2 hb
        · exact h2
      · exact fun h2 => .inr h2
    · exact ⟨fun _ _ _ => Iff.rfl, fun _ _ _ hm => hm, rfl⟩
  | read b k found =>
    simp only [actorIs] at ha
    subst ha
    simp only [Guard.step] at h
    split at h
    · cases h
    · split at h
      · cases h
      · split at h
        · cases h
        · split at h <;> (simp only [Except.ok.injEq] at h; subst h)
          · exact ⟨fun _ _ _ => Iff.rfl, fun _ _ _ hm => hm, rfl⟩
          · exact ⟨fun _ _ _ => Iff.rfl, fun _ _ _ hm => List.mem_cons_of_mem _ hm, rfl⟩
  | commit b k id =>
    simp only [actorIs] at ha
    subst ha
    simp only [Guard.step] at h
    split at h
    · simp only [Except.ok.injEq] at h; subst h
      exact ⟨fun _ _ _ => Iff.rfl, fun _ _ _ hm => hm, rfl⟩
    · split at h
      · cases h
      · split at h
        · cases h
        · simp only [Except.ok.injEq] at h; subst h
          refine ⟨fun _ _ _ => Iff.rfl, ?_, rfl⟩
          intro k' b' hb hm
          refine List.mem_filter.mpr ⟨hm, ?_⟩
          simp only [ne_eq, Prod.mk.injEq, not_and, decide_eq_true_eq]
          exact fun h1 => absurd h1 hb
  | finish b =>
    simp only [actorIs] at ha
    subst ha
    simp only [Guard.step] at h
    split at h
    · cases h
    · simp only [Except.ok.injEq] at h; subst h
      refine ⟨?_, ?_, rfl⟩
      · intro k' b' hb
        simp only [List.mem_filter, ne_eq, decide_eq_true_eq, hb, not_false_eq_true, and_true]
      · intro k' b' hb hm
        exact List.mem_filter.mpr ⟨hm, by simpa using hb⟩
  | other =>
    simp only [Guard.step, Except.ok.injEq] at h; subst h
    exact ⟨fun _ _ _ => Iff.rfl, fun _ _ _ hm => hm, rfl⟩
  | gate n ok => cases ha
  | crash => cases ha

theorem run_frame (view : Ev → Guard.GEv) (a : Nat) :
    ∀ (evs : List Ev) (s s' : Guard.S), runOn (Guard.stepOf view) s evs = .ok s' → (∀ e ∈ evs, actorIs a (view e)) →
      (∀ k b, b ≠ a → ((k, b) ∈ s'.held ↔ (k, b) ∈ s.held)) ∧ (∀ k b, b ≠ a → (b, k) ∈ s.missed → (b, k) ∈ s'.missed) ∧
      s'.durable = s.durable := by
  intro evs
  induction evs with
  | nil =>
    intro s s' h _
    simp only [runOn, Except.ok.injEq] at h
    subst h
    exact ⟨fun _ _ _ => Iff.rfl, fun _ _ _ hm => hm, rfl⟩
  | cons e es ih =>
    intro s s' h hall
    simp only [runOn] at h
    cases hs : Guard.stepOf view s e with
    | error m => rw [hs] at h; cases h
    | ok s1 =>
      rw [hs] at h
      obtain ⟨f1, f2, f3⟩ := step_frame s s1 (view e) a hs (hall e List.mem_cons_self)
      obtain ⟨g1, g2, g3⟩ := ih s1 s' h (fun e' he' => hall e' (List.mem_cons_of_mem _ he'))
      exact ⟨fun k b hb => (g1 k b hb).trans (f1 k b hb), fun k b hb hm => g2 k b hb (f2 k b hb hm), g3.trans f3⟩

theorem runOn_ignored (view : Ev → Guard.GEv) (s : Guard.S) (evs : List Ev) (h : ∀ ev ∈ evs, view ev = .other) :
    runOn (Guard.stepOf view) s evs = .ok s := by
  induction evs with
  | nil => rfl
  | cons e es ih =>
    have : Guard.stepOf view s e = .ok s := by
      simp only [Guard.stepOf, h e List.mem_cons_self, Guard.step]
    simp only [runOn, this]
    exact ih (fun ev hev => h ev (List.mem_cons_of_mem _ hev))

-- ------------------------------------------------------------------------------------------------ what items do, in general

theorem effSh_store (sh : Shared) (j : Job) (rg : Regs) (x : Item) : (effSh sh j rg x).store = sh.store := by
  unfold effSh
  split <;> rfl

/-- an item only touches its own request's reservations -/
theorem effSh_held_frame (sh : Shared) (j : Job) (rg : Regs) (x : Item) (K : RefKind) (k : String) (b : Nat) (hb : b ≠ j.a) :
    (K, k, b) ∈ (effSh sh j rg x).held ↔ (K, k, b) ∈ sh.held := by
  unfold effSh
  split <;> simp_all

/-- … and only `take` / `release` of the view's kind touch the reservations of that kind -/
theorem effSh_held_K (v : VId) (ep : String) (sh : Shared) (j : Job) (rg : Regs) (x : Item)
    (h1 : gtok v ep x ≠ .takeOk) (h2 : gtok v ep x ≠ .release) (k : String) (b : Nat) :
    (v.K, k, b) ∈ (effSh sh j rg x).held ↔ (v.K, k, b) ∈ sh.held := by
  unfold effSh
  split <;> simp_all [gtok]
  · intro h; exact absurd h.symm h1
  · intro _; exact .inl (fun h => h2 h.symm)

theorem effSh_queue (v : VId) (ep : String) (sh : Shared) (j : Job) (rg : Regs) (x : Item) (h : gtok v ep x ≠ .append) :
    (effSh sh j rg x).queue = sh.queue := by
  unfold effSh
  split <;> simp_all [gtok]

theorem effSh_queue_mem (sh : Shared) (j : Job) (rg : Regs) (x : Item) :
    ∀ q ∈ (effSh sh j rg x).queue, q ∈ sh.queue ∨ q.1 = j.a := by
  unfold effSh
  split <;> simp_all
  rintro a b (h | h)
  · exact .inl h
  · exact .inr h.1

theorem effRg_chained (v : VId) (ep : String) (sh : Shared) (j : Job) (rg : Regs) (x : Item) (h : gtok v ep x ≠ .chain) :
    (effRg sh j rg x).chained = rg.chained := by
  unfold effRg
  split <;> simp_all [gtok]

-- ------------------------------------------------------------------------------------------------ which item a token stands for

theorem tok_takeOk {v : VId} {ep : String} {x : Item} (h : gtok v ep x = .takeOk) :
    ∃ key via, x = .act (.take v.K key) .ok via := by
  cases x with
  | act a o via =>
    cases a <;> cases o <;> simp [gtok] at h <;> (try (split at h <;> simp at h)) <;> simp_all
  | _ => simp only [gtok] at h <;> (try (split at h <;> (try split at h) <;> simp at h)) <;> simp_all

theorem tok_takeNo {v : VId} {ep : String} {x : Item} (h : gtok v ep x = .takeNo) :
    ∃ key o via, x = .act (.take v.K key) o via ∧ o ≠ .ok := by
  cases x with
  | act a o via =>
    cases a <;> cases o <;> simp [gtok] at h <;> (try (split at h <;> simp at h)) <;> simp_all
    · exact ⟨_, _, ⟨rfl, rfl⟩, by simp⟩
    · exact ⟨_, _, ⟨rfl, rfl⟩, by simp⟩
  | _ => simp only [gtok] at h <;> (try (split at h <;> (try split at h) <;> simp at h)) <;> simp_all

theorem tok_release {v : VId} {ep : String} {x : Item} (h : gtok v ep x = .release) :
    ∃ key o via, x = .act (.release v.K key) o via := by
  cases x with
  | act a o via =>
    cases a <;> cases o <;> simp [gtok] at h <;> (try (split at h <;> simp at h)) <;> simp_all
  | _ => simp only [gtok] at h <;> (try (split at h <;> (try split at h) <;> simp at h)) <;> simp_all

theorem tok_hit {v : VId} {ep : String} {x : Item} (h : gtok v ep x = .hit) :
    (v = .ik ∧ ∃ key via, x = .act (.readIk key) .ok via) ∨ (v = .ref ∧ ∃ key via, x = .act (.readRef key) .ok via) := by
  cases x with
  | act a o via =>
    cases a <;> cases o <;> simp [gtok] at h <;> (try (split at h <;> simp at h)) <;> simp_all
  | _ => simp only [gtok] at h <;> (try (split at h <;> (try split at h) <;> simp at h)) <;> simp_all

theorem tok_miss {v : VId} {ep : String} {x : Item} (h : gtok v ep x = .miss) :
    (v = .ik ∧ ∃ key via, x = .act (.readIk key) .notFound via) ∨ (v = .ref ∧ ∃ key via, x = .act (.readRef key) .notFound via) := by
  cases x with
  | act a o via =>
    cases a <;> cases o <;> simp [gtok] at h <;> (try (split at h <;> simp at h)) <;> simp_all
  | _ => simp only [gtok] at h <;> (try (split at h <;> (try split at h) <;> simp at h)) <;> simp_all

theorem tok_look {v : VId} {ep : String} {x : Item} (h : gtok v ep x = .look) :
    v = .rev ∧ ep = "RevertTransaction" ∧ ∃ key via, x = .act (.readTx key) .ok via := by
  cases x with
  | act a o via =>
    cases a <;> cases o <;> simp [gtok] at h <;> (try (split at h <;> simp at h)) <;> simp_all
  | _ => simp only [gtok] at h <;> (try (split at h <;> (try split at h) <;> simp at h)) <;> simp_all

theorem tok_missTx {v : VId} {ep : String} {x : Item} (h : gtok v ep x = .missTx) :
    v = .rev ∧ ep = "RevertTransaction" ∧ ∃ key via, x = .act (.readTx key) .notFound via := by
  cases x with
  | act a o via =>
    cases a <;> cases o <;> simp [gtok] at h <;> (try (split at h <;> simp at h)) <;> simp_all
  | _ => simp only [gtok] at h <;> (try (split at h <;> (try split at h) <;> simp at h)) <;> simp_all

theorem tok_unrev {v : VId} {ep : String} {x : Item} (h : gtok v ep x = .unrev) :
    v = .rev ∧ ep = "RevertTransaction" ∧ x = .choose "reverted" false := by
  cases x with
  | act a o via =>
    cases a <;> cases o <;> simp [gtok] at h <;> (try (split at h <;> simp at h)) <;> simp_all
  | _ => simp only [gtok] at h <;> (try (split at h <;> (try split at h) <;> simp at h)) <;> simp_all

theorem tok_setKey {v : VId} {ep : String} {x : Item} (h : gtok v ep x = .setKey) :
    v = .ik ∧ ∃ o via, x = .act .setIk o via := by
  cases x with
  | act a o via =>
    cases a <;> cases o <;> simp [gtok] at h <;> (try (split at h <;> simp at h)) <;> simp_all
  | _ => simp only [gtok] at h <;> (try (split at h <;> (try split at h) <;> simp at h)) <;> simp_all

theorem tok_empty {v : VId} {ep : String} {x : Item} (h : gtok v ep x = .empty) :
    v = .ref ∧ x = .choose "ref≠''" false := by
  cases x with
  | act a o via =>
    cases a <;> cases o <;> simp [gtok] at h <;> (try (split at h <;> simp at h)) <;> simp_all
  | _ => simp only [gtok] at h <;> (try (split at h <;> (try split at h) <;> simp at h)) <;> simp_all

theorem tok_chain {v : VId} {ep : String} {x : Item} (h : gtok v ep x = .chain) :
    ∃ o via, x = .act .chainLog o via := by
  cases x with
  | act a o via =>
    cases a <;> cases o <;> simp [gtok] at h <;> (try (split at h <;> simp at h)) <;> simp_all
  | _ => simp only [gtok] at h <;> (try (split at h <;> (try split at h) <;> simp at h)) <;> simp_all

theorem tok_append {v : VId} {ep : String} {x : Item} (h : gtok v ep x = .append) :
    ∃ og cs o via, x = .act (.append og cs) o via := by
  cases x with
  | act a o via =>
    cases a <;> cases o <;> simp [gtok] at h <;> (try (split at h <;> simp at h)) <;> simp_all
  | _ => simp only [gtok] at h <;> (try (split at h <;> (try split at h) <;> simp at h)) <;> simp_all

theorem tok_waitP {v : VId} {ep : String} {x : Item} (h : gtok v ep x = .waitP) :
    ∃ o via, x = .act (.wait "persisted") o via := by
  cases x with
  | act a o via =>
    cases a <;> cases o <;> simp [gtok] at h <;> (try (split at h <;> simp at h)) <;> simp_all
  | _ => simp only [gtok] at h <;> (try (split at h <;> (try split at h) <;> simp at h)) <;> simp_all

theorem tok_yield {v : VId} {ep : String} {x : Item} (h : gtok v ep x = .yield) :
    ∃ pt o via, x = .act (.yield pt) o via := by
  cases x with
  | act a o via =>
    cases a <;> cases o <;> simp [gtok] at h <;> (try (split at h <;> simp at h)) <;> simp_all
  | _ => simp only [gtok] at h <;> (try (split at h <;> (try split at h) <;> simp at h)) <;> simp_all

theorem tok_fin {v : VId} {ep : String} {x : Item} (h : gtok v ep x = .fin) :
    ∃ ok cls, x = .fin ok cls := by
  cases x with
  | act a o via =>
    cases a <;> cases o <;> simp [gtok] at h <;> (try (split at h <;> simp at h)) <;> simp_all
  | _ => simp only [gtok] at h <;> (try (split at h <;> (try split at h) <;> simp at h)) <;> simp_all

-- ------------------------------------------------------------------------------------------------ the events of an item

theorem view_arrive (v : VId) (ir : Nat → Bool) (a : Nat) (pt : String) : v.view ir (.arrive a pt) = .other := by
  cases v <;> rfl
theorem view_resume (v : VId) (ir : Nat → Bool) (a : Nat) (pt : String) : v.view ir (.resume a pt) = .other := by
  cases v <;> rfl
theorem view_balRead (v : VId) (ir : Nat → Bool) (a : Nat) (x y : String) (z : Int) : v.view ir (.balRead a x y z) = .other := by
  cases v <;> rfl
theorem view_lock (v : VId) (ir : Nat → Bool) (a : Nat) (r w : List Acct) : v.view ir (.lock a r w) = .other := by
  cases v <;> rfl
theorem view_unlock (v : VId) (ir : Nat → Bool) (a : Nat) : v.view ir (.unlock a) = .other := by
  cases v <;> rfl
theorem view_publish (v : VId) (ir : Nat → Bool) (a : Nat) (e : BusEv) : v.view ir (.publish a e) = .other := by
  cases v <;> rfl
theorem view_ikRead (v : VId) (ir : Nat → Bool) (a : Nat) (k : String) (f : Option Nat) :
    v.view ir (.ikRead a k f) = if v = .ik then .read a k f.isSome else .other := by
  cases v <;> simp [VId.view, Guard.ikView, Guard.refView, Guard.revView]
theorem view_refRead (v : VId) (ir : Nat → Bool) (a : Nat) (k : String) (f : Bool) :
    v.view ir (.refRead a k f) = if v = .ref then .read a k f else .other := by
  cases v <;> simp [VId.view, Guard.ikView, Guard.refView, Guard.revView]
theorem view_txRead (v : VId) (ir : Nat → Bool) (a t : Nat) (f r : Bool) :
    v.view ir (.txRead a t f r) = if v = .rev ∧ ir a = true then .read a (toString t) r else .other := by
  cases v <;> simp [VId.view, Guard.ikView, Guard.refView, Guard.revView]

theorem actorIs_ite (a : Nat) (c : Prop) [Decidable c] (e1 e2 : Guard.GEv) :
    actorIs a (if c then e1 else e2) ↔ (c → actorIs a e1) ∧ (¬c → actorIs a e2) := by
  split <;> simp [*]

/-- every event of an item of request `j` is about `j` -/
theorem evs_actor (v : VId) (ir : Nat → Bool) (sh : Shared) (j : Job) (rg : Regs) (x : Item) :
    ∀ ev ∈ evsOf sh j rg x, actorIs j.a (v.view ir ev) := by
  unfold evsOf
  split <;> (try split) <;>
    simp [view_finish, view_taken, view_committed, view_arrive, view_resume, view_lock, view_unlock,
      view_publish, view_ikRead, view_refRead, view_txRead, actorIs_ite] <;> simp [actorIs]
  intro ev a b c _ h
  subst h
  simp [view_balRead]

/-- tokens whose items the machine does not hear about -/
def quiet : GTok → Bool
  | .release | .unrev | .setKey | .empty | .chain | .waitP | .yield | .other => true
  | _ => false

theorem evs_quiet (v : VId) (ir : Nat → Bool) (ep : String) (sh : Shared) (j : Job) (rg : Regs) (x : Item)
    (hq : quiet (gtok v ep x) = true) (hrev : v = .rev → ep ≠ "RevertTransaction" → ir j.a = false) :
    ∀ ev ∈ evsOf sh j rg x, v.view ir ev = .other := by
  unfold evsOf
  split <;> (try split) <;> (try simp only [gtok, apply_ite quiet] at hq) <;>
    simp_all [quiet, view_taken, view_arrive, view_resume, view_lock, view_unlock,
      view_publish, view_ikRead, view_refRead, view_txRead]
  · intro hv
    rcases hq with hq | hq
    · exact absurd hv hq
    · exact hrev hv hq
  · intro hv
    rcases hq with hq | hq
    · exact absurd hv hq
    · exact hrev hv hq
  · intro ev a b c _ h
    subst h
    simp [view_balRead]

-- ------------------------------------------------------------------------------------------------ the invariant

/-- what a view needs to know about a request and its entry point (hypotheses of the theorems, via the admission
predicate): the reference view — only `CreateTransaction` produces `create` logs; the revert view — `RevertTransaction`
produces exactly the `revert` logs, and `isRevert` says which requests are reverts -/
def JobOkV (ir : Nat → Bool) : VId → Job → Prop
  | .ik, _ => True
  | .ref, j => j.req.kind = .create → j.ep = "CreateTransaction"
  | .rev, j => (j.req.kind = .revert ↔ j.ep = "RevertTransaction") ∧ ir j.a = decide (j.req.kind = .revert)

/-- a log that reverts `t` only exists next to a persisted log of transaction `t` -/
def RevWf (store : List LogE) (queue : List (Nat × LogE)) : Prop :=
  ∀ l, (l ∈ store ∨ l ∈ queue.map (·.2)) → ∀ t, l.reverts = some t → store.any (fun l' => l'.txid = some t) = true

def SInv : VId → Shared → Prop
  | .rev, sh => RevWf sh.store sh.queue
  | _, _ => True

/-- one request: its automaton state `ph` against the commander's state and the machine's -/
structure PInv (v : VId) (ir : Nat → Bool) (sh : Shared) (s : Guard.S) (j : Job) (rg : Regs) (ph : GPh) : Prop where
  job : JobOkV ir v j
  held : ∀ k, (k, j.a) ∈ s.held ↔ (ph.hold ≠ .idle ∧ k = j.key v.K)
  sys : ∀ k, (v.K, k, j.a) ∈ sh.held ↔ (sysOf ph.hold = true ∧ k = j.key v.K)
  miss : ∀ b, ph.hold = .on .missed b → (j.a, j.key v.K) ∈ s.missed
  look : ∀ b, ph.hold = .on .looked b →
    v = .rev ∧ j.ep = "RevertTransaction" ∧ (rg.reverted = some false → (j.a, j.key v.K) ∈ s.missed)
  seen : v = .rev → seenOf ph.hold = true → sh.store.any (fun l => l.txid = some j.req.target) = true
  clean : ph.dirty = false → ∀ q ∈ sh.queue, q.1 ≠ j.a
  r1 : ph.may = false → v.keyOf (j.content rg.ikSet) = ""
  r2 : ∀ l, rg.chained = some l → (v.keyOf l = "" ∨ v.keyOf l = j.key v.K) ∧
    (l.reverts = none ∨ l.reverts = some j.req.target) ∧ (ph.may = false → v.keyOf l = "")

theorem job_rev {ir : Nat → Bool} {v : VId} {j : Job} (h : JobOkV ir v j) :
    v = .rev → j.ep ≠ "RevertTransaction" → ir j.a = false := by
  intro hv hep
  subst hv
  obtain ⟨h1, h2⟩ := h
  rw [h2]
  simp only [decide_eq_false_iff_not]
  exact fun hk => hep (h1.1 hk)

theorem content_key (v : VId) (j : Job) (b : Bool) : v.keyOf (j.content b) = "" ∨ v.keyOf (j.content b) = j.key v.K := by
  cases v <;> simp only [VId.keyOf, Job.content, Job.key, VId.K]
  · cases b <;> simp
  · split <;> simp
  · split <;> simp [Guard.revKey]

theorem content_reverts (j : Job) (b : Bool) : (j.content b).reverts = none ∨ (j.content b).reverts = some j.req.target := by
  simp only [Job.content]
  split <;> simp

theorem content_key_indep (v : VId) (hv : v ≠ .ik) (j : Job) (b b' : Bool) : v.keyOf (j.content b) = v.keyOf (j.content b') := by
  cases v
  · exact absurd rfl hv
  · rfl
  · rfl

theorem effRg_key (v : VId) (ep : String) (sh : Shared) (j : Job) (rg : Regs) (x : Item) (h : gtok v ep x ≠ .setKey) :
    v.keyOf (j.content (effRg sh j rg x).ikSet) = v.keyOf (j.content rg.ikSet) := by
  unfold effRg
  split <;> (try rfl)
  simp only [gtok, ne_eq, ite_eq_left_iff, reduceCtorEq, imp_false, Decidable.not_not] at h
  exact content_key_indep v h j _ _

theorem effRg_reverted (v : VId) (ep : String) (sh : Shared) (j : Job) (rg : Regs) (x : Item) (h : gtok v ep x ≠ .look) :
    (effRg sh j rg x).reverted = rg.reverted ∨ ¬ (v = .rev ∧ ep = "RevertTransaction") := by
  unfold effRg
  split <;> (try exact .inl rfl)
  simp only [gtok] at h
  refine .inr (fun hc => h ?_)
  simp [hc]

theorem sinv_congr (v : VId) (sh sh' : Shared) (h1 : sh'.store = sh.store) (h2 : sh'.queue = sh.queue) (h : SInv v sh) :
    SInv v sh' := by
  cases v <;> simp only [SInv] at h ⊢
  rw [h1, h2]; exact h

/-- the part of a request's invariant that does not mention its automaton state moves along with any change that keeps
the request's own reservations, misses and queue entries -/
theorem pinv_congr (v : VId) (ir : Nat → Bool) (sh sh' : Shared) (s s' : Guard.S) (j : Job) (rg rg' : Regs) (ph : GPh)
    (h : PInv v ir sh s j rg ph)
    (hh : ∀ k, (k, j.a) ∈ s'.held ↔ (k, j.a) ∈ s.held)
    (hm : ∀ k, (j.a, k) ∈ s.missed → (j.a, k) ∈ s'.missed)
    (hs : ∀ k, (v.K, k, j.a) ∈ sh'.held ↔ (v.K, k, j.a) ∈ sh.held)
    (hst : ∀ t, sh.store.any (fun l => l.txid = some t) = true → sh'.store.any (fun l => l.txid = some t) = true)
    (hq : ∀ q ∈ sh'.queue, q.1 = j.a → q ∈ sh.queue)
    (hc : rg'.chained = rg.chained)
    (hk : v.keyOf (j.content rg'.ikSet) = v.keyOf (j.content rg.ikSet))
    (hr : rg'.reverted = rg.reverted ∨ ¬ (v = .rev ∧ j.ep = "RevertTransaction")) :
    PInv v ir sh' s' j rg' ph := by
  refine ⟨h.job, fun k => (hh k).trans (h.held k), fun k => (hs k).trans (h.sys k), fun b hb => hm _ (h.miss b hb), ?_,
    fun hv hs => hst _ (h.seen hv hs), ?_, fun hm => by rw [hk]; exact h.r1 hm, by rw [hc]; exact h.r2⟩
  · intro b hb
    obtain ⟨l1, l2, l3⟩ := h.look b hb
    refine ⟨l1, l2, ?_⟩
    rcases hr with hr | hr
    · rw [hr]; exact fun h' => hm _ (l3 h')
    · exact absurd ⟨l1, l2⟩ hr
  · intro hd q hq' hqa
    exact h.clean hd q (hq q hq' hqa) hqa

/-- an item whose token leaves the automaton state alone, and to which the machine reacts at most by adding a miss -/
theorem still (v : VId) (ir : Nat → Bool) (sh : Shared) (s s' : Guard.S) (j : Job) (rg : Regs) (x : Item) (ph : GPh)
    (hP : PInv v ir sh s j rg ph) (hpend : s.pending = sh.queue.map (entryOf v)) (hS : SInv v sh)
    (hh : ∀ k, (k, j.a) ∈ s'.held ↔ (k, j.a) ∈ s.held) (hm : ∀ k, (j.a, k) ∈ s.missed → (j.a, k) ∈ s'.missed)
    (hp : s'.pending = s.pending)
    (t1 : gtok v j.ep x ≠ .takeOk) (t2 : gtok v j.ep x ≠ .release) (t3 : gtok v j.ep x ≠ .append)
    (t4 : gtok v j.ep x ≠ .setKey) (t5 : gtok v j.ep x ≠ .look) (t6 : gtok v j.ep x ≠ .chain) :
    s'.pending = (effSh sh j rg x).queue.map (entryOf v) ∧ PInv v ir (effSh sh j rg x) s' j (effRg sh j rg x) ph ∧
      SInv v (effSh sh j rg x) := by
  have hq := effSh_queue v j.ep sh j rg x t3
  refine ⟨by rw [hp, hq]; exact hpend, ?_, sinv_congr v sh _ (effSh_store ..) hq hS⟩
  exact pinv_congr v ir sh _ s s' j rg _ ph hP hh hm (fun k => effSh_held_K v j.ep sh j rg x t1 t2 k j.a)
    (fun t h => by rw [effSh_store]; exact h) (fun q hq' _ => by rw [hq] at hq'; exact hq')
    (effRg_chained v j.ep sh j rg x t6) (effRg_key v j.ep sh j rg x t4) (effRg_reverted v j.ep sh j rg x t5)

theorem dur_any (v : VId) (s : Guard.S) (sh : Shared)
    (hdur : s.durable.map (fun e => (e.key, e.id)) = sh.store.map (fun l => (v.keyOf l, l.id))) (k : String) :
    s.durable.any (·.key = k) = sh.store.any (fun l => v.keyOf l = k) := by
  have h1 : s.durable.any (·.key = k) = (s.durable.map (fun e => (e.key, e.id))).any (fun x => x.1 = k) := by
    simp [List.any_map, Function.comp_def]
  rw [h1, hdur]
  simp [List.any_map, Function.comp_def]

theorem pend_clean (v : VId) (s : Guard.S) (sh : Shared) (a : Nat) (hpend : s.pending = sh.queue.map (entryOf v))
    (hc : ∀ q ∈ sh.queue, q.1 ≠ a) : ∀ e ∈ s.pending, e.by_ ≠ a := by
  intro e he
  rw [hpend] at he
  obtain ⟨q, hq, rfl⟩ := List.mem_map.mp he
  exact hc q hq

theorem isHeld_iff (s : Guard.S) (k : String) : Guard.isHeld s k = true ↔ ∃ b, (k, b) ∈ s.held := by
  unfold Guard.isHeld
  simp only [List.any_eq_true, decide_eq_true_eq, Prod.exists]
  constructor
  · rintro ⟨k', b, h, rfl⟩; exact ⟨b, h⟩
  · rintro ⟨b, h⟩; exact ⟨k, b, h, rfl⟩

/-- the log `chainLog` builds -/
def chainedOf (sh : Shared) (j : Job) (rg : Regs) : LogE :=
  { j.content rg.ikSet with id := nextId sh.last, prevId := sh.last, hashOk := true, txid := rg.txid }

/-- the automaton moves along the protocol (`held → looked → missed → spent`) without touching the tables -/
theorem pinv_hold (v : VId) (ir : Nat → Bool) (sh : Shared) (s : Guard.S) (j : Job) (rg : Regs) (ph : GPh) (h' : Hold)
    (h : PInv v ir sh s j rg ph) (e1 : h' ≠ .idle ↔ ph.hold ≠ .idle) (e2 : sysOf h' = sysOf ph.hold)
    (e3 : ∀ b, h' = .on .missed b → (j.a, j.key v.K) ∈ s.missed)
    (e4 : ∀ b, h' = .on .looked b →
      v = .rev ∧ j.ep = "RevertTransaction" ∧ (rg.reverted = some false → (j.a, j.key v.K) ∈ s.missed))
    (e5 : v = .rev → seenOf h' = true → sh.store.any (fun l => l.txid = some j.req.target) = true) :
    PInv v ir sh s j rg { ph with hold := h' } :=
  ⟨h.job, fun k => by rw [h.held k]; simp only [e1], fun k => by rw [h.sys k]; simp only [e2], e3, e4, e5, h.clean, h.r1, h.r2⟩

theorem ir_of_rev {ir : Nat → Bool} {j : Job} (h : JobOkV ir .rev j) (hep : j.ep = "RevertTransaction") : ir j.a = true := by
  obtain ⟨h1, h2⟩ := h
  rw [h2]
  simpa using h1.2 hep

/-- the request's invariant after its `append` of log `l` (the machine's reservations unchanged; its misses unchanged
unless the log may carry a key) -/
theorem pinv_append (v : VId) (ir : Nat → Bool) (sh : Shared) (s s' : Guard.S) (j : Job) (rg : Regs) (ph ph' : GPh) (l : LogE)
    (hP : PInv v ir sh s j rg ph)
    (hph : (if ph.may = true then
        (match ph.hold with
          | .on .missed b => some { ph with hold := .on .spent b, dirty := true }
          | _ => none)
        else some { ph with dirty := true }) = some ph')
    (hh : s'.held = s.held) (hm : ph.may = false → s'.missed = s.missed) :
    PInv v ir { sh with queue := sh.queue ++ [(j.a, l)] } s' j rg ph' := by
  split at hph
  · rename_i hmay
    split at hph
    · rename_i b hhold
      simp only [Option.some.injEq] at hph; subst hph
      refine ⟨hP.job, ?_, ?_, ?_, ?_, ?_, (fun h => by cases h), hP.r1, hP.r2⟩
      · intro k; rw [hh, hP.held k, hhold]; simp
      · intro k; rw [hP.sys k, hhold]; simp [sysOf]
      · intro b' hb; cases hb
      · intro b' hb; cases hb
      · intro hv _; exact hP.seen hv (by rw [hhold]; rfl)
    · cases hph
  · rename_i hmay
    simp only [Option.some.injEq] at hph; subst hph
    have hmay' : ph.may = false := by simpa using hmay
    refine ⟨hP.job, ?_, hP.sys, ?_, ?_, hP.seen, (fun h => by cases h), hP.r1, hP.r2⟩
    · intro k; rw [hh]; exact hP.held k
    · intro b hb; rw [hm hmay']; exact hP.miss b hb
    · intro b hb; rw [hm hmay']; exact hP.look b hb

/-- **one item of one request**: the machine accepts what it emits and the request's part of the invariant moves with
its automaton state.  `g1`/`g2`: the referencer's table is the machine's, as far as the OTHER requests are concerned
(none of them is in a release window). -/
theorem item_step (v : VId) (ir : Nat → Bool) (sh : Shared) (s : Guard.S) (j : Job) (rg : Regs) (x : Item) (ph ph' : GPh)
    (hen : enabled sh j rg x = true) (hph : gstep ph (gtok v j.ep x) = some ph')
    (hP : PInv v ir sh s j rg ph)
    (hdur : s.durable.map (fun e => (e.key, e.id)) = sh.store.map (fun l => (v.keyOf l, l.id)))
    (hpend : s.pending = sh.queue.map (entryOf v)) (hS : SInv v sh)
    (g1 : ∀ k b, (v.K, k, b) ∈ sh.held → (k, b) ∈ s.held)
    (g2 : ∀ k b, b ≠ j.a → (k, b) ∈ s.held → (v.K, k, b) ∈ sh.held) :
    ∃ s', runOn (gm v ir) s (evsOf sh j rg x) = .ok s' ∧ s'.pending = (effSh sh j rg x).queue.map (entryOf v) ∧
      PInv v ir (effSh sh j rg x) s' j (effRg sh j rg x) ph' ∧ SInv v (effSh sh j rg x) := by
  cases htok : gtok v j.ep x with
  | other =>
    rw [htok] at hph; simp only [gstep, Option.some.injEq] at hph; subst hph
    have hq : runOn (gm v ir) s (evsOf sh j rg x) = .ok s :=
      runOn_ignored _ s _ (evs_quiet v ir j.ep sh j rg x (by rw [htok]; rfl) (job_rev hP.job))
    exact ⟨s, hq, still v ir sh s s j rg x _ hP hpend hS (fun _ => Iff.rfl) (fun _ h => h) rfl (by simp [htok])
      (by simp [htok]) (by simp [htok]) (by simp [htok]) (by simp [htok]) (by simp [htok])⟩
  | yield =>
    rw [htok] at hph; simp only [gstep] at hph
    split at hph
    · cases hph
    · simp only [Option.some.injEq] at hph; subst hph
      have hq : runOn (gm v ir) s (evsOf sh j rg x) = .ok s :=
        runOn_ignored _ s _ (evs_quiet v ir j.ep sh j rg x (by rw [htok]; rfl) (job_rev hP.job))
      exact ⟨s, hq, still v ir sh s s j rg x _ hP hpend hS (fun _ => Iff.rfl) (fun _ h => h) rfl (by simp [htok])
        (by simp [htok]) (by simp [htok]) (by simp [htok]) (by simp [htok]) (by simp [htok])⟩
  | takeNo =>
    rw [htok] at hph; simp only [gstep, Option.some.injEq] at hph; subst hph
    obtain ⟨key, o, via, rfl, ho⟩ := tok_takeNo htok
    have hfree : keyFree sh j v.K = false := by
      simpa [enabled, ho] using hen
    have hheld : Guard.isHeld s (j.key v.K) = true := by
      rw [isHeld_iff]
      simp only [keyFree, Bool.not_eq_false', List.any_eq_true, decide_eq_true_eq] at hfree
      obtain ⟨⟨K, k, b⟩, hmem, hK, hk⟩ := hfree
      simp only at hK hk
      subst hK; subst hk
      exact ⟨b, g1 _ _ hmem⟩
    have hq : runOn (gm v ir) s (evsOf sh j rg (.act (.take v.K key) o via)) = .ok s := by
      simp only [evsOf]
      apply runOn_single
      simp only [Guard.stepOf, view_taken, if_true, ho, decide_false]
      exact step_take_no s j.a _ hheld
    exact ⟨s, hq, still v ir sh s s j rg _ _ hP hpend hS (fun _ => Iff.rfl) (fun _ h => h) rfl (by simp [htok])
      (by simp [htok]) (by simp [htok]) (by simp [htok]) (by simp [htok]) (by simp [htok])⟩
  | hit =>
    rw [htok] at hph; simp only [gstep] at hph
    split at hph
    · rename_i r sys hhold
      split at hph
      · cases hph
      · rename_i hdirty
        simp only [Option.some.injEq] at hph; subst hph
        have hne : ph.hold ≠ .idle := by rw [hhold]; simp
        have hk : (j.key v.K, j.a) ∈ s.held := (hP.held _).2 ⟨hne, rfl⟩
        have hcl := pend_clean v s sh j.a hpend (hP.clean (by simpa using hdirty))
        have hp0 : s.pending.any (fun e => e.by_ = j.a ∧ e.key = j.key v.K) = false :=
          List.any_eq_false.mpr (fun e he => by simp [hcl e he])
        have hq : runOn (gm v ir) s (evsOf sh j rg x) = .ok s := by
          rcases tok_hit htok with ⟨rfl, key, via, rfl⟩ | ⟨rfl, key, via, rfl⟩
          · simp only [evsOf]
            apply runOn_single
            have hf : (sh.store.find? (fun l => l.ik = j.req.ik)).isSome = true := by simpa [enabled] using hen
            simp only [Guard.stepOf, view_ikRead, if_true, Option.isSome_map, hf]
            refine step_read_hit s j.a _ hk ?_ hp0
            rw [dur_any .ik s sh hdur]
            simp only [List.find?_isSome, decide_eq_true_eq] at hf
            simp only [VId.keyOf, List.any_eq_true]
            obtain ⟨l, hl, hle⟩ := hf
            exact ⟨l, hl, decide_eq_true hle⟩
          · simp only [evsOf]
            apply runOn_single
            have hf : sh.store.any (fun l => l.ref = j.req.ref) = true := by simpa [enabled] using hen
            simp only [Guard.stepOf, view_refRead, if_true]
            refine step_read_hit s j.a _ hk ?_ hp0
            rw [dur_any .ref s sh hdur]
            exact hf
        exact ⟨s, hq, still v ir sh s s j rg x _ hP hpend hS (fun _ => Iff.rfl) (fun _ h => h) rfl (by simp [htok])
          (by simp [htok]) (by simp [htok]) (by simp [htok]) (by simp [htok]) (by simp [htok])⟩
    · cases hph
  | miss =>
    rw [htok] at hph; simp only [gstep] at hph
    have hv : v ≠ .rev := by rcases tok_miss htok with ⟨rfl, _⟩ | ⟨rfl, _⟩ <;> simp
    have hx : ∃ r sys, ph.hold = .on r sys ∧ ph.dirty = false ∧ ph' = { ph with hold := .on .missed sys } := by
      split at hph
      · split at hph
        · cases hph
        · rename_i sys hh hd; exact ⟨_, sys, hh, by simpa using hd, by simpa using hph.symm⟩
      · split at hph
        · cases hph
        · rename_i sys hh hd; exact ⟨_, sys, hh, by simpa using hd, by simpa using hph.symm⟩
      · cases hph
    obtain ⟨r, sys, hhold, hdirty, rfl⟩ := hx
    have hne : ph.hold ≠ .idle := by rw [hhold]; simp
    have hk : (j.key v.K, j.a) ∈ s.held := (hP.held _).2 ⟨hne, rfl⟩
    have hcl := pend_clean v s sh j.a hpend (hP.clean hdirty)
    have hp0 : s.pending.any (fun e => e.by_ = j.a ∧ e.key = j.key v.K) = false :=
      List.any_eq_false.mpr (fun e he => by simp [hcl e he])
    have hq : runOn (gm v ir) s (evsOf sh j rg x) = .ok { s with missed := (j.a, j.key v.K) :: s.missed } := by
      rcases tok_miss htok with ⟨rfl, key, via, rfl⟩ | ⟨rfl, key, via, rfl⟩
      · simp only [evsOf]
        apply runOn_single
        have hf : (sh.store.find? (fun l => l.ik = j.req.ik)).isNone = true := by simpa [enabled] using hen
        simp only [Guard.stepOf, view_ikRead, if_true, Option.isSome_none]
        refine step_read_miss s j.a _ hk ?_ hp0
        rw [dur_any .ik s sh hdur]
        simp only [Option.isNone_iff_eq_none, List.find?_eq_none] at hf
        simp only [VId.keyOf, List.any_eq_false]
        exact hf
      · simp only [evsOf]
        apply runOn_single
        have hf : sh.store.any (fun l => l.ref = j.req.ref) = false := by simpa [enabled] using hen
        simp only [Guard.stepOf, view_refRead, if_true]
        refine step_read_miss s j.a _ hk ?_ hp0
        rw [dur_any .ref s sh hdur]
        exact hf
    obtain ⟨h1, h2, h3⟩ := still v ir sh s { s with missed := (j.a, j.key v.K) :: s.missed } j rg x _ hP hpend hS
      (fun _ => Iff.rfl) (fun _ h => List.mem_cons_of_mem _ h) rfl (by simp [htok])
      (by simp [htok]) (by simp [htok]) (by simp [htok]) (by simp [htok]) (by simp [htok])
    refine ⟨_, hq, h1, ?_, h3⟩
    exact pinv_hold v ir _ _ j _ ph (.on .missed sys) h2 (by simp [hhold]) (by simp [hhold, sysOf])
      (fun _ _ => List.mem_cons_self) (fun _ h => by cases h) (fun h => absurd h hv)
  | missTx =>
    rw [htok] at hph; simp only [gstep] at hph
    obtain ⟨rfl, hep, key, via, rfl⟩ := tok_missTx htok
    split at hph
    · rename_i r sys hhold
      split at hph
      · cases hph
      · rename_i hdirty
        simp only [Option.some.injEq] at hph; subst hph
        have hne : ph.hold ≠ .idle := by rw [hhold]; simp
        have hk : (j.key VId.rev.K, j.a) ∈ s.held := (hP.held _).2 ⟨hne, rfl⟩
        have hcl := pend_clean .rev s sh j.a hpend (hP.clean (by simpa using hdirty))
        have hp0 : s.pending.any (fun e => e.by_ = j.a ∧ e.key = j.key VId.rev.K) = false :=
          List.any_eq_false.mpr (fun e he => by simp [hcl e he])
        have hq : runOn (gm .rev ir) s (evsOf sh j rg (.act (.readTx key) .notFound via)) =
            .ok { s with missed := (j.a, j.key VId.rev.K) :: s.missed } := by
          simp only [evsOf]
          apply runOn_single
          have hf : sh.store.any (fun l => l.txid = some j.req.target) = false := by simpa [enabled] using hen
          simp only [Guard.stepOf, view_txRead, ir_of_rev hP.job hep, and_self, if_true]
          refine step_read_miss s j.a _ hk ?_ hp0
          rw [dur_any .rev s sh hdur]
          simp only [VId.keyOf, List.any_eq_false, decide_eq_true_eq, revKey_eq_toString]
          intro l hl hr
          have := hS l (.inl hl) _ hr
          rw [hf] at this
          cases this
        exact ⟨_, hq, still .rev ir sh s _ j rg _ _ hP hpend hS (fun _ => Iff.rfl) (fun _ h => List.mem_cons_of_mem _ h) rfl
          (by simp [htok]) (by simp [htok]) (by simp [htok]) (by simp [htok]) (by simp [htok]) (by simp [htok])⟩
    · cases hph
  | unrev =>
    rw [htok] at hph; simp only [gstep] at hph
    obtain ⟨rfl, hep, rfl⟩ := tok_unrev htok
    have hq : runOn (gm .rev ir) s (evsOf sh j rg (.choose "reverted" false)) = .ok s :=
      runOn_ignored _ s _ (evs_quiet .rev ir j.ep sh j rg _ (by rw [htok]; rfl) (job_rev hP.job))
    obtain ⟨h1, h2, h3⟩ := still .rev ir sh s s j rg (.choose "reverted" false) _ hP hpend hS (fun _ => Iff.rfl) (fun _ h => h) rfl (by simp [htok])
      (by simp [htok]) (by simp [htok]) (by simp [htok]) (by simp [htok]) (by simp [htok])
    have hrv : rg.reverted = some false := by simpa [enabled, atomOk] using hen
    split at hph
    · rename_i sys hhold
      simp only [Option.some.injEq] at hph; subst hph
      refine ⟨s, hq, h1, ?_, h3⟩
      have hl := (hP.look sys hhold).2.2 hrv
      exact pinv_hold .rev ir _ _ j _ ph (.on .missed sys) h2 (by simp [hhold]) (by simp [hhold, sysOf])
        (fun _ _ => hl) (fun _ h => by cases h) (fun _ _ => hP.seen rfl (by rw [hhold]; rfl))
    · simp only [Option.some.injEq] at hph; subst hph
      exact ⟨s, hq, h1, h2, h3⟩
  | setKey =>
    rw [htok] at hph; simp only [gstep, Option.some.injEq] at hph; subst hph
    obtain ⟨rfl, o, via, rfl⟩ := tok_setKey htok
    have hq : runOn (gm .ik ir) s (evsOf sh j rg (.act .setIk o via)) = .ok s :=
      runOn_ignored _ s _ (evs_quiet .ik ir j.ep sh j rg _ (by rw [htok]; rfl) (job_rev hP.job))
    have e1 : effSh sh j rg (.act .setIk o via) = sh := by simp [effSh]
    have e2 : effRg sh j rg (.act .setIk o via) = { rg with ikSet := true } := by simp [effRg]
    rw [e1, e2]
    refine ⟨s, hq, hpend, ⟨hP.job, hP.held, hP.sys, hP.miss, hP.look, hP.seen, hP.clean, (fun h => by cases h), ?_⟩, hS⟩
    intro l hl
    obtain ⟨a1, a2, _⟩ := hP.r2 l hl
    exact ⟨a1, a2, fun h => by cases h⟩
  | empty =>
    rw [htok] at hph; simp only [gstep, Option.some.injEq] at hph; subst hph
    obtain ⟨rfl, rfl⟩ := tok_empty htok
    have hq : runOn (gm .ref ir) s (evsOf sh j rg (.choose "ref≠''" false)) = .ok s :=
      runOn_ignored _ s _ (evs_quiet .ref ir j.ep sh j rg _ (by rw [htok]; rfl) (job_rev hP.job))
    have e1 : effSh sh j rg (.choose "ref≠''" false) = sh := by simp [effSh]
    have e2 : effRg sh j rg (.choose "ref≠''" false) = rg := by simp [effRg]
    have href : j.req.ref = "" := by simpa [enabled, atomOk] using hen
    rw [e1, e2]
    refine ⟨s, hq, hpend, ⟨hP.job, hP.held, hP.sys, hP.miss, hP.look, hP.seen, hP.clean, fun _ => ?_, ?_⟩, hS⟩
    · simp [VId.keyOf, Job.content, href]
    · intro l hl
      obtain ⟨a1, a2, _⟩ := hP.r2 l hl
      have : VId.ref.keyOf l = "" := by
        rcases a1 with a1 | a1
        · exact a1
        · rw [a1]; exact href
      exact ⟨.inl this, a2, fun _ => this⟩
  | waitP =>
    rw [htok] at hph; simp only [gstep, Option.some.injEq] at hph; subst hph
    obtain ⟨o, via, rfl⟩ := tok_waitP htok
    have hq : runOn (gm v ir) s (evsOf sh j rg (.act (.wait "persisted") o via)) = .ok s :=
      runOn_ignored _ s _ (evs_quiet v ir j.ep sh j rg _ (by rw [htok]; rfl) (job_rev hP.job))
    have e1 : effSh sh j rg (.act (.wait "persisted") o via) = sh := by simp [effSh]
    have e2 : effRg sh j rg (.act (.wait "persisted") o via) = rg := by simp [effRg]
    have hcl : ∀ q ∈ sh.queue, q.1 ≠ j.a := by
      have : sh.queue.any (fun q => q.1 = j.a) = false := by simpa [enabled] using hen
      intro q hq'
      have := List.any_eq_false.mp this q hq'
      simpa using this
    rw [e1, e2]
    exact ⟨s, hq, hpend, ⟨hP.job, hP.held, hP.sys, hP.miss, hP.look, hP.seen, fun _ => hcl, hP.r1, hP.r2⟩, hS⟩
  | chain =>
    rw [htok] at hph; simp only [gstep, Option.some.injEq] at hph; subst hph
    obtain ⟨o, via, rfl⟩ := tok_chain htok
    have hq : runOn (gm v ir) s (evsOf sh j rg (.act .chainLog o via)) = .ok s :=
      runOn_ignored _ s _ (evs_quiet v ir j.ep sh j rg _ (by rw [htok]; rfl) (job_rev hP.job))
    have e1 : effSh sh j rg (.act .chainLog o via) = { sh with last := some (nextId sh.last) } := by simp [effSh]
    have e2 : effRg sh j rg (.act .chainLog o via) = { rg with chained := some (chainedOf sh j rg) } := by
      simp [effRg, chainedOf]
    rw [e1, e2]
    refine ⟨s, hq, hpend, ⟨hP.job, hP.held, hP.sys, hP.miss, hP.look, hP.seen, hP.clean, hP.r1, ?_⟩, ?_⟩
    · intro l hl
      simp only [Option.some.injEq] at hl
      subst hl
      have hk : v.keyOf (chainedOf sh j rg) = v.keyOf (j.content rg.ikSet) := by cases v <;> rfl
      rw [hk]
      exact ⟨content_key v j rg.ikSet, content_reverts j rg.ikSet, hP.r1⟩
    · cases v <;> exact hS
  | release =>
    rw [htok] at hph; simp only [gstep] at hph
    obtain ⟨key, o, via, rfl⟩ := tok_release htok
    have hq : runOn (gm v ir) s (evsOf sh j rg (.act (.release v.K key) o via)) = .ok s :=
      runOn_ignored _ s _ (evs_quiet v ir j.ep sh j rg _ (by rw [htok]; rfl) (job_rev hP.job))
    have e1 : effSh sh j rg (.act (.release v.K key) o via) =
        { sh with held := sh.held.filter (fun h => !(h.1 = v.K ∧ h.2.1 = j.key v.K ∧ h.2.2 = j.a)) } := by simp [effSh]
    have e2 : effRg sh j rg (.act (.release v.K key) o via) = rg := by simp [effRg]
    split at hph
    · rename_i r hhold
      simp only [Option.some.injEq] at hph; subst hph
      rw [e1, e2]
      refine ⟨s, hq, hpend, ⟨hP.job, ?_, ?_, ?_, ?_, ?_, hP.clean, hP.r1, hP.r2⟩, ?_⟩
      · intro k; rw [hP.held k, hhold]; simp
      · intro k
        have := hP.sys k
        simp only [List.mem_filter, this, sysOf]
        simp
      · intro b hb
        simp only [Hold.on.injEq] at hb
        exact hP.miss true (by rw [hhold, hb.1])
      · intro b hb
        simp only [Hold.on.injEq] at hb
        exact hP.look true (by rw [hhold, hb.1])
      · intro hv hs
        exact hP.seen hv (by rw [hhold]; cases r <;> simp_all [seenOf])
      · cases v <;> exact hS
    · cases hph
  | takeOk =>
    rw [htok] at hph; simp only [gstep] at hph
    obtain ⟨key, via, rfl⟩ := tok_takeOk htok
    have e1 : effSh sh j rg (.act (.take v.K key) .ok via) = { sh with held := (v.K, j.key v.K, j.a) :: sh.held } := by
      simp [effSh]
    have e2 : effRg sh j rg (.act (.take v.K key) .ok via) = rg := by simp [effRg]
    split at hph
    · rename_i hhold
      simp only [Option.some.injEq] at hph; subst hph
      have hfree : keyFree sh j v.K = true := by simpa [enabled] using hen
      have hnot : Guard.isHeld s (j.key v.K) = false := by
        cases hh : Guard.isHeld s (j.key v.K) with
        | false => rfl
        | true =>
          obtain ⟨b, hb⟩ := (isHeld_iff s _).1 hh
          by_cases hba : b = j.a
          · subst hba
            exact absurd hhold ((hP.held _).1 hb).1
          · have := g2 _ _ hba hb
            simp only [keyFree, Bool.not_eq_eq_eq_not, Bool.not_true, List.any_eq_false, Bool.decide_and,
              Bool.and_eq_true, decide_eq_true_eq, not_and] at hfree
            exact absurd rfl (hfree _ this rfl)
      have hq : runOn (gm v ir) s (evsOf sh j rg (.act (.take v.K key) .ok via)) =
          .ok { s with held := (j.key v.K, j.a) :: s.held } := by
        simp only [evsOf]
        apply runOn_single
        simp only [Guard.stepOf, view_taken, if_true, decide_true]
        exact step_take_ok s j.a _ hnot
      rw [e1, e2]
      refine ⟨_, hq, hpend, ⟨hP.job, ?_, ?_, ?_, ?_, ?_, hP.clean, hP.r1, hP.r2⟩, ?_⟩
      · intro k
        have := hP.held k
        simp only [hhold, ne_eq, not_true_eq_false, false_and, iff_false] at this
        simp [this]
      · intro k
        have := hP.sys k
        simp only [hhold, sysOf, Bool.false_eq_true, false_and, iff_false] at this
        simp [this, sysOf]
      · intro b hb; cases hb
      · intro b hb; cases hb
      · intro _ hs; simp [seenOf] at hs
      · cases v <;> exact hS
    all_goals cases hph
  | look =>
    rw [htok] at hph; simp only [gstep] at hph
    obtain ⟨rfl, hep, key, via, rfl⟩ := tok_look htok
    have e1 : effSh sh j rg (.act (.readTx key) .ok via) = sh := by simp [effSh]
    have e2 : effRg sh j rg (.act (.readTx key) .ok via) =
        { rg with reverted := some (sh.store.any (fun l => l.reverts = some j.req.target)) } := by simp [effRg]
    split at hph
    · rename_i sys hhold
      split at hph
      · cases hph
      · rename_i hdirty
        simp only [Option.some.injEq] at hph; subst hph
        have hne : ph.hold ≠ .idle := by rw [hhold]; simp
        have hk : (j.key VId.rev.K, j.a) ∈ s.held := (hP.held _).2 ⟨hne, rfl⟩
        have hcl := pend_clean .rev s sh j.a hpend (hP.clean (by simpa using hdirty))
        have hp0 : s.pending.any (fun e => e.by_ = j.a ∧ e.key = j.key VId.rev.K) = false :=
          List.any_eq_false.mpr (fun e he => by simp [hcl e he])
        have hseen : sh.store.any (fun l => l.txid = some j.req.target) = true := by simpa [enabled] using hen
        have hd : s.durable.any (·.key = j.key VId.rev.K) = sh.store.any (fun l => l.reverts = some j.req.target) := by
          rw [dur_any .rev s sh hdur]
          simp only [VId.keyOf, Job.key, VId.K, revKey_eq_toString]
        rw [e1, e2]
        cases hr : sh.store.any (fun l => l.reverts = some j.req.target) with
        | true =>
          have hq : runOn (gm .rev ir) s (evsOf sh j rg (.act (.readTx key) .ok via)) = .ok s := by
            simp only [evsOf]
            apply runOn_single
            simp only [Guard.stepOf, view_txRead, ir_of_rev hP.job hep, and_self, if_true, hr]
            exact step_read_hit s j.a _ hk (hd.trans hr) hp0
          refine ⟨s, hq, hpend, ⟨hP.job, ?_, ?_, ?_, ?_, fun _ _ => hseen, hP.clean, hP.r1, hP.r2⟩, hS⟩
          · intro k; rw [hP.held k, hhold]; simp
          · intro k; rw [hP.sys k, hhold]; simp [sysOf]
          · intro b hb; cases hb
          · intro b _
            exact ⟨rfl, hep, fun h => by cases h⟩
        | false =>
          have hq : runOn (gm .rev ir) s (evsOf sh j rg (.act (.readTx key) .ok via)) =
              .ok { s with missed := (j.a, j.key VId.rev.K) :: s.missed } := by
            simp only [evsOf]
            apply runOn_single
            simp only [Guard.stepOf, view_txRead, ir_of_rev hP.job hep, and_self, if_true, hr]
            exact step_read_miss s j.a _ hk (hd.trans hr) hp0
          refine ⟨_, hq, hpend, ⟨hP.job, ?_, ?_, ?_, ?_, fun _ _ => hseen, hP.clean, hP.r1, hP.r2⟩, hS⟩
          · intro k; rw [hP.held k, hhold]; simp
          · intro k; rw [hP.sys k, hhold]; simp [sysOf]
          · intro b hb; cases hb
          · intro b _
            exact ⟨rfl, hep, fun _ => List.mem_cons_self⟩
    all_goals cases hph
  | fin =>
    rw [htok] at hph; simp only [gstep] at hph
    obtain ⟨ok, cls, rfl⟩ := tok_fin htok
    have e1 : effSh sh j rg (.fin ok cls) = sh := by simp [effSh]
    have e2 : effRg sh j rg (.fin ok cls) = rg := by simp [effRg]
    split at hph
    · cases hph
    · rename_i hdirty
      have hx : sysOf ph.hold = false ∧ ph' = { ph with hold := .idle } := by
        split at hph
        · rename_i hh
          simp only [Option.some.injEq] at hph
          refine ⟨by rw [hh]; rfl, ?_⟩
          rw [← hph, ← hh]
        · rename_i hh
          simp only [Option.some.injEq] at hph
          exact ⟨by rw [hh]; rfl, hph.symm⟩
        · cases hph
      obtain ⟨hsys, rfl⟩ := hx
      have hcl := pend_clean v s sh j.a hpend (hP.clean (by simpa using hdirty))
      have hp0 : s.pending.any (fun e => e.by_ = j.a ∧ e.key ≠ "") = false :=
        List.any_eq_false.mpr (fun e he => by simp [hcl e he])
      have hq : runOn (gm v ir) s (evsOf sh j rg (.fin ok cls)) =
          .ok { s with held := s.held.filter (·.2 ≠ j.a), missed := s.missed.filter (·.1 ≠ j.a) } := by
        simp only [evsOf]
        apply runOn_single
        simp only [Guard.stepOf, view_finish]
        exact step_finish s j.a hp0
      rw [e1, e2]
      refine ⟨_, hq, hpend, ⟨hP.job, ?_, ?_, ?_, ?_, ?_, hP.clean, hP.r1, hP.r2⟩, hS⟩
      · intro k; simp [List.mem_filter]
      · intro k; rw [hP.sys k, hsys]; simp [sysOf]
      · intro b hb; cases hb
      · intro b hb; cases hb
      · intro _ hs; simp [seenOf] at hs
  | append =>
    rw [htok] at hph; simp only [gstep] at hph
    obtain ⟨og, cs, o, via, rfl⟩ := tok_append htok
    obtain ⟨l, hldef⟩ : ∃ l : LogE, l = (if og = "chained" then rg.chained.getD default else default) := ⟨_, rfl⟩
    have e1 : effSh sh j rg (.act (.append og cs) o via) = { sh with queue := sh.queue ++ [(j.a, l)] } := by
      simp [effSh, hldef]
    have e2 : effRg sh j rg (.act (.append og cs) o via) = rg := by simp [effRg]
    have hev : evsOf sh j rg (.act (.append og cs) o via) = [.committed j.a l sh.lastTx] := by simp [evsOf, hldef]
    have hl : (v.keyOf l = "" ∨ v.keyOf l = j.key v.K) ∧ (l.reverts = none ∨ l.reverts = some j.req.target) ∧
        (ph.may = false → v.keyOf l = "") := by
      have hdft : (v.keyOf default = "" ∨ v.keyOf default = j.key v.K) ∧
          ((default : LogE).reverts = none ∨ (default : LogE).reverts = some j.req.target) ∧
          (ph.may = false → v.keyOf default = "") := ⟨.inl (keyOf_default v), .inl rfl, fun _ => keyOf_default v⟩
      rw [hldef]
      split
      · cases hc : rg.chained with
        | none => simpa using hdft
        | some l0 => simpa using hP.r2 l0 hc
      · exact hdft
    rw [e1, e2, hev]
    by_cases hk : v.keyOf l = ""
    · have hq : runOn (gm v ir) s [.committed j.a l sh.lastTx] = .ok { s with pending := s.pending ++ [⟨"", l.id, j.a⟩] } := by
        apply runOn_single
        simp only [Guard.stepOf, view_committed, hk]
        exact step_commit_plain s j.a l.id
      refine ⟨_, hq, ?_, pinv_append v ir sh s _ j rg ph ph' l hP hph rfl (fun _ => rfl), ?_⟩
      · simp [hpend, entryOf, hk]
      · cases v
        · trivial
        · trivial
        · intro l' hl' t ht
          simp only [List.map_append, List.map_cons, List.map_nil, List.mem_append, List.mem_singleton] at hl'
          rcases hl' with h | h | rfl
          · exact hS l' (.inl h) t ht
          · exact hS l' (.inr h) t ht
          · have := (revKey_eq_empty _).1 hk
            rw [ht] at this
            cases this
    · have hkey : v.keyOf l = j.key v.K := hl.1.resolve_left hk
      have hmay : ph.may = true := by
        cases h : ph.may with
        | false => exact absurd (hl.2.2 h) hk
        | true => rfl
      have hx : ∃ b, ph.hold = .on .missed b := by
        rw [hmay] at hph
        simp only [if_true] at hph
        split at hph
        · exact ⟨_, by assumption⟩
        · cases hph
      obtain ⟨b, hhold⟩ := hx
      have hne : ph.hold ≠ .idle := by rw [hhold]; simp
      have hheld : (v.keyOf l, j.a) ∈ s.held := by rw [hkey]; exact (hP.held _).2 ⟨hne, rfl⟩
      have hmiss : (j.a, v.keyOf l) ∈ s.missed := by rw [hkey]; exact hP.miss b hhold
      have hq : runOn (gm v ir) s [.committed j.a l sh.lastTx] =
          .ok { s with pending := s.pending ++ [⟨v.keyOf l, l.id, j.a⟩], missed := s.missed.filter (· ≠ (j.a, v.keyOf l)) } := by
        apply runOn_single
        simp only [Guard.stepOf, view_committed]
        exact step_commit_keyed s j.a l.id _ hk hheld hmiss
      refine ⟨_, hq, ?_, pinv_append v ir sh s _ j rg ph ph' l hP hph rfl (fun h => by rw [hmay] at h; cases h), ?_⟩
      · simp [hpend, entryOf]
      · cases v
        · trivial
        · trivial
        · intro l' hl' t ht
          simp only [List.map_append, List.map_cons, List.map_nil, List.mem_append, List.mem_singleton] at hl'
          rcases hl' with h | h | rfl
          · exact hS l' (.inl h) t ht
          · exact hS l' (.inr h) t ht
          · have htt : t = j.req.target := by
              rcases hl.2.1 with h | h
              · rw [h] at ht; cases ht
              · rw [h] at ht; exact (Option.some.inj ht).symm
            rw [htt]
            exact hP.seen rfl (by rw [hhold]; rfl)

-- ------------------------------------------------------------------------------------------------ the automaton on paths

theorem grun_snoc (v : VId) (ep : String) (ph : GPh) (xs : Path) (x : Item) :
    grun v ep ph (xs ++ [x]) = (grun v ep ph xs).bind (fun ph' => gstep ph' (gtok v ep x)) := by
  induction xs generalizing ph with
  | nil => simp [grun]; cases gstep ph (gtok v ep x) <;> simp
  | cons y ys ih =>
    simp only [List.cons_append, grun]
    cases gstep ph (gtok v ep y) with
    | none => simp
    | some ph' => exact ih ph'

theorem gacc_cons (v : VId) (ep : String) (ph : GPh) (x : Item) (rest : Path) (h : gacc v ep ph (x :: rest) = true) :
    ∃ ph', gstep ph (gtok v ep x) = some ph' ∧ gacc v ep ph' rest = true := by
  simp only [gacc, grun] at h
  cases hc : gstep ph (gtok v ep x) with
  | none => simp [hc] at h
  | some ph' => exact ⟨ph', rfl, by simpa [gacc, hc] using h⟩

theorem gacc_nil (v : VId) (ep : String) (ph : GPh) (h : gacc v ep ph [] = true) : ph.hold = .idle := by
  simpa [gacc, grun] using h

/-- no scheduling point inside a release window: an item after which the request is in a window does not end a segment -/
theorem window_step (v : VId) (ep : String) (ph ph' : GPh) (x : Item) (h : gstep ph (gtok v ep x) = some ph')
    (hw : window ph'.hold = true) : endsSegment x = false := by
  cases he : endsSegment x with
  | false => rfl
  | true =>
    exfalso
    cases x with
    | act a o via =>
      cases a <;> simp [endsSegment] at he
      simp only [gtok, gstep] at h
      split at h
      · cases h
      · rename_i hn
        simp only [Option.some.injEq] at h
        subst h
        exact hn hw
    | fin ok cls =>
      simp only [gtok, gstep] at h
      split at h
      · cases h
      · split at h
        · rename_i hh
          simp only [Option.some.injEq] at h; subst h
          rw [hh] at hw; simp [window] at hw
        · simp only [Option.some.injEq] at h; subst h
          simp [window] at hw
        · cases h
    | choose _ _ => simp [endsSegment] at he
    | panic _ => simp [endsSegment] at he

theorem sysOf_ne_idle (h : Hold) (hs : sysOf h = true) : h ≠ .idle := by
  cases h <;> simp_all [sysOf]

theorem window_of (h : Hold) (h1 : h ≠ .idle) (h2 : sysOf h = false) : window h = true := by
  cases h with
  | idle => exact absurd rfl h1
  | on r b => simp only [sysOf] at h2; subst h2; rfl

-- ------------------------------------------------------------------------------------------------ the global invariant

/-- the coupling between the commander (scheduled at the yield points) and the machine of view `v` -/
structure GInv (v : VId) (ir : Nat → Bool) (y : YState) (s : Guard.S) : Prop where
  /-- the machine's persisted entries are the store's logs, with the view's keys -/
  dur : s.durable.map (fun e => (e.key, e.id)) = y.st.sh.store.map (fun l => (v.keyOf l, l.id))
  /-- its queued entries are the batcher's queue -/
  pend : s.pending = y.st.sh.queue.map (entryOf v)
  nodup : (y.st.procs.map (·.job.a)).Nodup
  sinv : SInv v y.st.sh
  procs : ∀ p ∈ y.st.procs, p.alive = true → ∃ ph, grun v p.job.ep (ginit v p.job.ep) p.done = some ph ∧
    gacc v p.job.ep ph p.todo = true ∧ PInv v ir y.st.sh s p.job p.regs ph ∧
    (window ph.hold = true → y.running = some p.job.a)
  /-- what the referencer holds, the machine holds -/
  g1 : ∀ k b, (v.K, k, b) ∈ y.st.sh.held → (k, b) ∈ s.held
  /-- what the machine holds, the referencer holds — except for the running request, which may be in its release window -/
  g2 : ∀ k b, (k, b) ∈ s.held → (v.K, k, b) ∈ y.st.sh.held ∨ y.running = some b
  g3 : ∀ k b, (k, b) ∈ s.held → b ∈ y.st.procs.map (·.job.a)
  q2 : ∀ q ∈ y.st.sh.queue, q.1 ∈ y.st.procs.map (·.job.a)

theorem other_pinv (v : VId) (ir : Nat → Bool) (sh sh' : Shared) (s s' : Guard.S) (q : Proc) (phq : GPh) (a : Nat)
    (hne : q.job.a ≠ a) (hQ : PInv v ir sh s q.job q.regs phq)
    (fh : ∀ k b, b ≠ a → ((k, b) ∈ s'.held ↔ (k, b) ∈ s.held))
    (fm : ∀ k b, b ≠ a → (b, k) ∈ s.missed → (b, k) ∈ s'.missed)
    (fs : ∀ K k b, b ≠ a → ((K, k, b) ∈ sh'.held ↔ (K, k, b) ∈ sh.held))
    (fst : sh'.store = sh.store) (fq : ∀ x ∈ sh'.queue, x ∈ sh.queue ∨ x.1 = a) :
    PInv v ir sh' s' q.job q.regs phq :=
  pinv_congr v ir sh sh' s s' q.job q.regs q.regs phq hQ (fun k => fh k _ hne) (fun k => fm k _ hne)
    (fun k => fs _ k _ hne) (fun t h => by rw [fst]; exact h)
    (fun x hx hxa => (fq x hx).resolve_right (fun h => hne (hxa.symm.trans h))) rfl rfl (.inl rfl)

theorem ginit_pinv (v : VId) (ir : Nat → Bool) (sh : Shared) (s : Guard.S) (j : Job) (hj : JobOkV ir v j)
    (h1 : ∀ k, (k, j.a) ∉ s.held) (h2 : ∀ k, (v.K, k, j.a) ∉ sh.held) (h3 : ∀ q ∈ sh.queue, q.1 ≠ j.a) :
    PInv v ir sh s j {} (ginit v j.ep) := by
  refine ⟨hj, ?_, ?_, ?_, ?_, ?_, fun _ => h3, ?_, ?_⟩
  · intro k; simp [ginit, h1 k]
  · intro k; simp [ginit, sysOf, h2 k]
  · intro b hb; simp [ginit] at hb
  · intro b hb; simp [ginit] at hb
  · intro _ hs; simp [ginit, seenOf] at hs
  · intro hm
    cases v with
    | ik => simp [VId.keyOf, Job.content]
    | ref =>
      simp only [ginit, decide_eq_false_iff_not] at hm
      have : j.req.kind ≠ .create := fun h => hm (hj h)
      simp [VId.keyOf, Job.content, this]
    | rev =>
      simp only [ginit, decide_eq_false_iff_not] at hm
      have : j.req.kind ≠ .revert := fun h => hm (hj.1.1 h)
      simp [VId.keyOf, Job.content, this, Guard.revKey]
  · intro l hl; cases hl

/-- **the step lemma**: whatever the commander does next under the yield-point discipline, the machine accepts the
events and the coupling is kept -/
theorem stepY_inv (v : VId) (ir : Nat → Bool) (adm : Job → Path → Prop)
    (hadm : ∀ j p, adm j p → gacc v j.ep (ginit v j.ep) p = true ∧ JobOkV ir v j)
    (y y' : YState) (evs : List Ev) (h : StepY adm y evs y') (s : Guard.S) (hi : GInv v ir y s) :
    ∃ s', runOn (gm v ir) s evs = .ok s' ∧ GInv v ir y' s' := by
  cases h with
  | item pre post j rg dn x rest hp hen hq0 hrun =>
    have hmemP : (⟨j, rg, dn, true, x :: rest⟩ : Proc) ∈ y.st.procs := by rw [hp]; simp
    obtain ⟨ph, hdone, hacc, hP, hwin⟩ := hi.procs _ hmemP rfl
    obtain ⟨ph', hph, hacc'⟩ := gacc_cons v j.ep ph x rest hacc
    have g2' : ∀ k b, b ≠ j.a → (k, b) ∈ s.held → (v.K, k, b) ∈ y.st.sh.held := by
      intro k b hb hm
      rcases hi.g2 k b hm with h | h
      · exact h
      · rcases hrun with h' | h' <;> rw [h'] at h
        · cases h
        · exact absurd (Option.some.inj h).symm hb
    obtain ⟨s', hq, hpend', hP', hS'⟩ :=
      item_step v ir y.st.sh s j rg x ph ph' hen hph hP hi.dur hi.pend hi.sinv hi.g1 g2'
    obtain ⟨fh, fm, fd⟩ := run_frame (v.view ir) j.a _ s s' hq (evs_actor v ir y.st.sh j rg x)
    have hwin' : window ph'.hold = true → (if endsSegment x || rest.isEmpty then none else some j.a) = some j.a := by
      intro hw
      have h1 := window_step v j.ep ph ph' x hph hw
      have h2 : rest.isEmpty = false := by
        cases rest with
        | nil => have := gacc_nil v j.ep ph' hacc'; rw [this] at hw; simp [window] at hw
        | cons _ _ => rfl
      simp [h1, h2]
    have hnd := hi.nodup
    rw [hp] at hnd
    have hmap : (pre ++ (⟨j, effRg y.st.sh j rg x, dn ++ [x], true, rest⟩ : Proc) :: post).map (·.job.a) =
        y.st.procs.map (·.job.a) := by rw [hp]; simp
    have hothers : ∀ q, q ∈ pre ∨ q ∈ post → q.alive = true → ∃ phq, grun v q.job.ep (ginit v q.job.ep) q.done = some phq ∧
        gacc v q.job.ep phq q.todo = true ∧ PInv v ir (effSh y.st.sh j rg x) s' q.job q.regs phq ∧
        (window phq.hold = true → (if endsSegment x || rest.isEmpty then none else some j.a) = some q.job.a) := by
      intro q hq' hal
      have hne : q.job.a ≠ j.a := ChainRef.others_ne pre post ⟨j, rg, dn, true, x :: rest⟩ q hnd hq'
      obtain ⟨phq, c1, c2, c3, c4⟩ := hi.procs q (by rw [hp]; rcases hq' with h | h <;> simp [h]) hal
      refine ⟨phq, c1, c2, other_pinv v ir y.st.sh _ s s' q phq j.a hne c3 fh fm
        (fun K k b hb => effSh_held_frame y.st.sh j rg x K k b hb) (effSh_store ..) (effSh_queue_mem y.st.sh j rg x), ?_⟩
      intro hw
      have := c4 hw
      rcases hrun with h' | h' <;> rw [h'] at this
      · cases this
      · exact absurd (Option.some.inj this).symm hne
    refine ⟨s', hq, ⟨?_, hpend', ?_, hS', ?_, ?_, ?_, ?_, ?_⟩⟩
    · show s'.durable.map _ = (effSh y.st.sh j rg x).store.map _
      rw [fd, effSh_store]; exact hi.dur
    · show ((pre ++ _ :: post).map (·.job.a)).Nodup
      rw [hmap]; exact hi.nodup
    · intro q hq' hal
      simp only [List.mem_append, List.mem_cons] at hq'
      rcases hq' with hq' | rfl | hq'
      · exact hothers q (.inl hq') hal
      · exact ⟨ph', by simp [grun_snoc, hdone, hph], hacc', hP', hwin'⟩
      · exact hothers q (.inr hq') hal
    · intro k b hm
      show (k, b) ∈ s'.held
      have hm' : (v.K, k, b) ∈ (effSh y.st.sh j rg x).held := hm
      by_cases hb : b = j.a
      · subst hb
        obtain ⟨h1, h2⟩ := (hP'.sys k).1 hm'
        exact (hP'.held k).2 ⟨sysOf_ne_idle _ h1, h2⟩
      · exact (fh k b hb).2 (hi.g1 k b ((effSh_held_frame y.st.sh j rg x v.K k b hb).1 hm'))
    · intro k b hm
      show (v.K, k, b) ∈ (effSh y.st.sh j rg x).held ∨ (if endsSegment x || rest.isEmpty then none else some j.a) = some b
      by_cases hb : b = j.a
      · subst hb
        obtain ⟨h1, h2⟩ := (hP'.held k).1 hm
        cases hs : sysOf ph'.hold with
        | true => exact .inl ((hP'.sys k).2 ⟨hs, h2⟩)
        | false => exact .inr (hwin' (window_of _ h1 hs))
      · exact .inl ((effSh_held_frame y.st.sh j rg x v.K k b hb).2 (g2' k b hb ((fh k b hb).1 hm)))
    · intro k b hm
      show b ∈ (pre ++ _ :: post).map (·.job.a)
      rw [hmap]
      by_cases hb : b = j.a
      · subst hb; rw [hp]; simp
      · exact hi.g3 k b ((fh k b hb).1 hm)
    · intro q hq'
      show q.1 ∈ (pre ++ _ :: post).map (·.job.a)
      rw [hmap]
      rcases effSh_queue_mem y.st.sh j rg x q hq' with h | h
      · exact hi.q2 q h
      · rw [h, hp]; simp
  | gate n ok h0 hn hrun =>
    have hlen : s.pending.length = y.st.sh.queue.length := by rw [hi.pend]; simp
    have hcond : ¬ (n = 0 ∨ n > s.pending.length) := by omega
    have hprocs : ∀ (sh' : Shared) (s' : Guard.S), s'.held = s.held → s'.missed = s.missed → sh'.held = y.st.sh.held →
        (∀ t, y.st.sh.store.any (fun l => l.txid = some t) = true → sh'.store.any (fun l => l.txid = some t) = true) →
        (∀ q ∈ sh'.queue, q ∈ y.st.sh.queue) →
        ∀ p ∈ y.st.procs, p.alive = true → ∃ ph, grun v p.job.ep (ginit v p.job.ep) p.done = some ph ∧
          gacc v p.job.ep ph p.todo = true ∧ PInv v ir sh' s' p.job p.regs ph ∧
          (window ph.hold = true → (none : Option Nat) = some p.job.a) := by
      intro sh' s' e1 e2 e3 e4 e5 p hp hal
      obtain ⟨ph, c1, c2, c3, c4⟩ := hi.procs p hp hal
      refine ⟨ph, c1, c2, ?_, fun hw => by have := c4 hw; rw [hrun] at this; cases this⟩
      exact pinv_congr v ir y.st.sh sh' s s' p.job p.regs p.regs ph c3 (fun k => by rw [e1]) (fun k h => by rw [e2]; exact h)
        (fun k => by rw [e3]) e4 (fun q hq _ => e5 q hq) rfl rfl (.inl rfl)
    have hg2 : ∀ k b, (k, b) ∈ s.held → (v.K, k, b) ∈ y.st.sh.held ∨ (none : Option Nat) = some b := by
      intro k b hm
      rcases hi.g2 k b hm with h | h
      · exact .inl h
      · rw [hrun] at h; cases h
    cases ok with
    | false =>
      refine ⟨s, ?_, ?_⟩
      · apply runOn_single
        simp [Guard.stepOf, view_gate, Guard.step, hcond]
      · simp only [Bool.false_eq_true, if_false]
        exact ⟨hi.dur, hi.pend, hi.nodup, hi.sinv, hprocs y.st.sh s rfl rfl rfl (fun _ h => h) (fun _ h => h), hi.g1, hg2,
          hi.g3, hi.q2⟩
    | true =>
      refine ⟨{ s with durable := s.durable ++ s.pending.take n, pending := s.pending.drop n }, ?_, ?_⟩
      · apply runOn_single
        simp [Guard.stepOf, view_gate, Guard.step, hcond]
      · simp only [if_true]
        have hany : ∀ t, y.st.sh.store.any (fun l => l.txid = some t) = true →
            (persist y.st.sh n).store.any (fun l => l.txid = some t) = true := by
          intro t h
          simp only [persist, List.any_append, h, Bool.true_or]
        refine ⟨?_, ?_, hi.nodup, ?_, hprocs (persist y.st.sh n) _ rfl rfl rfl hany (fun q hq => List.mem_of_mem_drop hq),
          hi.g1, hg2, hi.g3, fun q hq => hi.q2 q (List.mem_of_mem_drop hq)⟩
        · have := hi.dur
          simp only [persist, List.map_append, this, hi.pend, List.map_take, List.map_map]
          rfl
        · simp [persist, hi.pend, List.map_drop]
        · have hS := hi.sinv
          cases v
          · trivial
          · trivial
          · intro l hl t ht
            apply hany
            refine hS l ?_ t ht
            simp only [persist, List.mem_append, List.mem_map] at hl ⊢
            rcases hl with (hl | ⟨q, hq, rfl⟩) | ⟨q, hq, rfl⟩
            · exact .inl hl
            · exact .inr ⟨q, List.mem_of_mem_take hq, rfl⟩
            · exact .inr ⟨q, List.mem_of_mem_drop hq, rfl⟩
  | crash =>
    refine ⟨{ s with held := [], missed := [], pending := [] }, ?_, ?_⟩
    · apply runOn_single
      simp [Guard.stepOf, view_crash, Guard.step]
    · refine ⟨hi.dur, by simp [restart], ?_, ?_, ?_, ?_, ?_, ?_, ?_⟩
      · have := hi.nodup
        simpa [List.map_map, Function.comp_def] using this
      · have hS := hi.sinv
        cases v
        · trivial
        · trivial
        · intro l hl t ht
          simp only [restart, List.map_nil, List.not_mem_nil, or_false] at hl
          exact hS l (.inl hl) t ht
      · intro q hq hal
        simp only [List.mem_map] at hq
        obtain ⟨q0, _, rfl⟩ := hq
        simp at hal
      · intro k b hm; simp [restart] at hm
      · intro k b hm; cases hm
      · intro k b hm; cases hm
      · intro q hq; simp [restart] at hq
  | arrive j p hfresh hadm' =>
    obtain ⟨ha1, ha2⟩ := hadm j p hadm'
    have hfr : j.a ∉ y.st.procs.map (·.job.a) := by
      intro h
      obtain ⟨q, hq, hqa⟩ := List.mem_map.mp h
      exact hfresh q hq hqa
    refine ⟨s, rfl, ⟨hi.dur, hi.pend, ?_, hi.sinv, ?_, hi.g1, hi.g2, ?_, ?_⟩⟩
    · simp only [List.map_append, List.map_cons, List.map_nil]
      refine List.nodup_append.2 ⟨hi.nodup, by simp, ?_⟩
      intro a ha b hb
      simp only [List.mem_singleton] at hb
      subst hb
      exact fun h => hfr (h ▸ ha)
    · intro q hq hal
      simp only [List.mem_append, List.mem_singleton] at hq
      rcases hq with hq | rfl
      · exact hi.procs q hq hal
      · refine ⟨ginit v j.ep, rfl, ha1, ?_, by simp [ginit, window]⟩
        exact ginit_pinv v ir y.st.sh s j ha2 (fun k h => hfr (hi.g3 k _ h)) (fun k h => hfr (hi.g3 k _ (hi.g1 k _ h)))
          (fun q hq hqa => hfr (hqa ▸ hi.q2 q hq))
    · intro k b hm
      simp only [List.map_append, List.mem_append]
      exact .inl (hi.g3 k b hm)
    · intro q hq
      simp only [List.map_append, List.mem_append]
      exact .inl (hi.q2 q hq)

theorem init_inv (v : VId) (ir : Nat → Bool) (store : List LogE) (hst : SInv v (restart store)) :
    GInv v ir ⟨init store, none⟩ (Guard.init (store.map (fun l => ⟨v.keyOf l, l.id, 0⟩))) := by
  refine ⟨?_, rfl, by simp [init], hst, ?_, ?_, ?_, ?_, ?_⟩
  · simp [Guard.init, init, restart, List.map_map, Function.comp_def]
  · intro p hp; simp [init] at hp
  · intro k b hm; simp [init, restart] at hm
  · intro k b hm; simp [Guard.init] at hm
  · intro k b hm; simp [Guard.init] at hm
  · intro q hq; simp [init, restart] at hq

/-- **`SkelSys` under the yield-point discipline refines `Guard`** (view `v`): every trace of the system that
interprets admitted control paths is accepted -/
theorem runY_refines (v : VId) (ir : Nat → Bool) (adm : Job → Path → Prop)
    (hadm : ∀ j p, adm j p → gacc v j.ep (ginit v j.ep) p = true ∧ JobOkV ir v j)
    (y0 y : YState) (tr : List Ev) (h : RunY adm y0 tr y) (s0 : Guard.S) (hi : GInv v ir y0 s0) :
    ∃ s, runOn (gm v ir) s0 tr = .ok s ∧ GInv v ir y s := by
  induction h with
  | nil => exact ⟨s0, rfl, hi⟩
  | cons y1 y2 evs tr _ hstep ih =>
    obtain ⟨s1, h1, hi1⟩ := ih
    obtain ⟨s2, h2, hi2⟩ := stepY_inv v ir adm hadm y1 y2 evs hstep s1 hi1
    exact ⟨s2, by rw [runOn_append, h1]; exact h2, hi2⟩

-- ------------------------------------------------------------------------------------------------ reading the machine's state back

/-- the machine's entries carrying key `k` are the commander's logs (persisted or queued) carrying it -/
theorem keyed_length (v : VId) (s : Guard.S) (sh : Shared)
    (hdur : s.durable.map (fun e => (e.key, e.id)) = sh.store.map (fun l => (v.keyOf l, l.id)))
    (hpend : s.pending = sh.queue.map (entryOf v)) (k : String) :
    (Guard.keyed s k).length = ((sh.store ++ sh.queue.map (·.2)).filter (fun l => v.keyOf l = k)).length := by
  have h1 : (s.durable.filter (·.key = k)).length = (sh.store.filter (fun l => v.keyOf l = k)).length := by
    have a1 : (s.durable.filter (·.key = k)).length = ((s.durable.map (fun e => (e.key, e.id))).filter (fun x => x.1 = k)).length := by
      simp [List.filter_map, Function.comp_def]
    rw [a1, hdur]
    simp [List.filter_map, Function.comp_def]
  have h2 : (s.pending.filter (·.key = k)).length = ((sh.queue.map (·.2)).filter (fun l => v.keyOf l = k)).length := by
    rw [hpend]
    simp [List.filter_map, Function.comp_def, entryOf]
    first | rfl | (congr 2; funext x; congr)
  simp only [Guard.keyed, List.filter_append, List.length_append, h1, h2]

theorem uniqueKeys_of_store (v : VId) (store : List LogE)
    (h : ∀ k, k ≠ "" → (store.filter (fun l => v.keyOf l = k)).length ≤ 1) :
    Guard.UniqueKeys (store.map (fun l => ⟨v.keyOf l, l.id, 0⟩)) := by
  intro k hk
  have := h k hk
  simpa [List.filter_map, Function.comp_def] using this

-- ------------------------------------------------------------------------------------------------ concrete runs (for the non-vacuity examples)

/-- one request alone, run to the end of its path — if every item is enabled when it is reached -/
def solo (sh : Shared) (j : Job) (rg : Regs) : Path → Option (List Ev × Shared × Regs)
  | [] => some ([], sh, rg)
  | x :: rest =>
    if enabled sh j rg x ∧ blocked sh j.a = false then
      (solo (effSh sh j rg x) j (effRg sh j rg x) rest).map (fun r => (evsOf sh j rg x ++ r.1, r.2))
    else none

theorem solo_cons (sh : Shared) (j : Job) (rg : Regs) (x : Item) (rest : Path) :
    solo sh j rg (x :: rest) = if enabled sh j rg x ∧ blocked sh j.a = false then
      (solo (effSh sh j rg x) j (effRg sh j rg x) rest).map (fun r => (evsOf sh j rg x ++ r.1, r.2)) else none := rfl

/-- what `solo` computes is a yield-point run of the system -/
theorem solo_runY (adm : Job → Path → Prop) (y0 : YState) (j : Job) :
    ∀ (todo : Path) (x : Item) (sh : Shared) (rg : Regs) (dn : Path) (r : Option Nat) (tr0 : List Ev)
      (res : List Ev × Shared × Regs),
      RunY adm y0 tr0 ⟨⟨sh, [⟨j, rg, dn, true, x :: todo⟩]⟩, r⟩ → (r = none ∨ r = some j.a) →
      solo sh j rg (x :: todo) = some res →
      RunY adm y0 (tr0 ++ res.1) ⟨⟨res.2.1, [⟨j, res.2.2, dn ++ x :: todo, true, []⟩]⟩, none⟩ := by
  intro todo
  induction todo with
  | nil =>
    intro x sh rg dn r tr0 res hrun hr hs
    rw [solo_cons] at hs
    split at hs
    · rename_i hen
      simp only [solo, Option.map_some, Option.some.injEq] at hs
      subst hs
      have := RunY.cons _ _ _ _ _ hrun (StepY.item ⟨⟨sh, [⟨j, rg, dn, true, [x]⟩]⟩, r⟩ [] [] j rg dn x [] rfl hen.1 hen.2 hr)
      simpa using this
    · cases hs
  | cons x' todo ih =>
    intro x sh rg dn r tr0 res hrun hr hs
    rw [solo_cons] at hs
    split at hs
    · rename_i hen
      cases hrec : solo (effSh sh j rg x) j (effRg sh j rg x) (x' :: todo) with
      | none => rw [hrec] at hs; cases hs
      | some res' =>
        have hs' : res = (evsOf sh j rg x ++ res'.1, res'.2) := by
          rw [hrec] at hs
          simp only [Option.map_some, Option.some.injEq] at hs
          exact hs.symm
        subst hs'
        have h1 := RunY.cons _ _ _ _ _ hrun
          (StepY.item ⟨⟨sh, [⟨j, rg, dn, true, x :: x' :: todo⟩]⟩, r⟩ [] [] j rg dn x (x' :: todo) rfl hen.1 hen.2 hr)
        have h2 := ih x' (effSh sh j rg x) (effRg sh j rg x) (dn ++ [x])
          (if endsSegment x || (x' :: todo).isEmpty then none else some j.a) (tr0 ++ evsOf sh j rg x) res'
          (by simpa using h1) (by split <;> simp) hrec
        simpa [List.append_assoc] using h2
    · cases hs

theorem solo_runY' (adm : Job → Path → Prop) (y0 : YState) (j : Job) (todo : Path) (hne : todo ≠ []) (sh : Shared) (rg : Regs)
    (dn : Path) (r : Option Nat) (tr0 : List Ev) (res : List Ev × Shared × Regs)
    (hrun : RunY adm y0 tr0 ⟨⟨sh, [⟨j, rg, dn, true, todo⟩]⟩, r⟩) (hr : r = none ∨ r = some j.a)
    (hs : solo sh j rg todo = some res) :
    RunY adm y0 (tr0 ++ res.1) ⟨⟨res.2.1, [⟨j, res.2.2, dn ++ todo, true, []⟩]⟩, none⟩ := by
  cases todo with
  | nil => exact absurd rfl hne
  | cons x rest => exact solo_runY adm y0 j rest x sh rg dn r tr0 res hrun hr hs

end Engine.Skel.GuardRef
