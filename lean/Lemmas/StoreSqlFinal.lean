import Lemmas.StoreSqlAcct
import Lemmas.StoreSqlMovesRel
/-! C04 stage 2, layer 4: **the invariant implies what the executable comparison checks**.

`Inv A v`: the typed database `A` is sane, its `moves` rows carry consistent totals, and its rows of every ledger are the
replay's moves, transactions and accounts.  It holds for the empty database and the empty replay, every log entry with
well-formed metadata maps keeps it (layers 2 and 3), and it implies `discrepanciesOf (conc A) l (v l) = []` for every ledger
(this file): clause by clause, what `StoreSql.discrepancies` looks at in the projected tables is what `Store.replay` says. -/
namespace StoreSql
open Sql Schema Store

structure Inv (A : ADB) (v : View) : Prop where
  sane : Sane A
  vol : VolOk A.moves
  moves : ∀ l, MovesRel A l (v l).moves
  txs : ∀ l, TxsRel A l (v l).txs
  accts : ∀ l, AcctsRel [] 0 A l (v l).accts

theorem inv_empty : Inv {} (fun _ => {}) :=
  ⟨sane_empty, volOk_nil, fun _ => .nil, fun _ => .nil, fun l => acctsRel_empty 0 l⟩

theorem inv_step (A : ADB) (v : View) (log : CLog) (hw : WFLog log) (h : Inv A v) : Inv (aStep A log) (step v log) :=
  ⟨(sane_frame_step A log h.sane).1, volOk_step A log h.sane h.vol, movesRel_step A v log h.sane h.moves,
   txsRel_step A v log h.sane hw h.txs, acctsRel_log A v log h.sane hw h.accts⟩

theorem inv_steps (logs : List CLog) (A : ADB) (v : View) (hw : ∀ log ∈ logs, WFLog log) (h : Inv A v) :
    Inv (logs.foldl aStep A) (replayFrom v logs) := by
  induction logs generalizing A v with
  | nil => exact h
  | cons l ls ih =>
    exact ih _ _ (fun x hx => hw x (List.mem_cons_of_mem _ hx)) (inv_step A v l (hw l (List.mem_cons_self ..)) h)

-- ---------------------------------------------------------------- `order by … limit 1` with an arbitrary selection

theorem lastBySeq_spec (ms : List AMove) (sel : AMove → Bool) :
    (selectFirst ms (fun r => Val.bool (sel r)) seqKeys = none ∧ ∀ r ∈ ms, sel r = false) ∨
    ∃ b, selectFirst ms (fun r => Val.bool (sel r)) seqKeys = some b ∧ b ∈ ms ∧ sel b = true ∧ ∀ r ∈ ms, sel r = true → r.seq ≤ b.seq := by
  unfold selectFirst
  rcases pickBest_none_spec (lexBefore seqKeys) (by intro a; simp [seqBefore_eq])
      (by intro a b c; simp only [seqBefore_eq, decide_eq_true_eq]; omega)
      (ms.filter (fun r => truthy (Val.bool (sel r)))) with ⟨h1, h2⟩ | ⟨b, h1, h2, h3⟩
  · refine .inl ⟨h2, ?_⟩
    intro r hr
    have := List.filter_eq_nil_iff.mp h1 r hr
    simpa using this
  · rw [List.mem_filter] at h2
    refine .inr ⟨b, h1, h2.1, by simpa using h2.2, ?_⟩
    intro r hr hsel
    have := h3 r (List.mem_filter.mpr ⟨hr, by simpa using hsel⟩)
    simp only [seqBefore_eq, decide_eq_false_iff_not] at this
    omega

theorem lastByEff_spec (ms : List AMove) (sel : AMove → Bool) :
    (selectFirst ms (fun r => Val.bool (sel r)) effKeys = none ∧ ∀ r ∈ ms, sel r = false) ∨
    ∃ b, selectFirst ms (fun r => Val.bool (sel r)) effKeys = some b ∧ b ∈ ms ∧ sel b = true ∧
      ∀ r ∈ ms, sel r = true → (r.eff < b.eff ∨ (r.eff = b.eff ∧ r.seq ≤ b.seq)) := by
  unfold selectFirst
  rcases pickBest_none_spec (lexBefore effKeys) (by intro a; simp [effBefore_eq])
      (by
        intro a b c
        simp only [effBefore_eq, Bool.or_eq_true, Bool.and_eq_true, decide_eq_true_eq]
        omega)
      (ms.filter (fun r => truthy (Val.bool (sel r)))) with ⟨h1, h2⟩ | ⟨b, h1, h2, h3⟩
  · refine .inl ⟨h2, ?_⟩
    intro r hr
    have := List.filter_eq_nil_iff.mp h1 r hr
    simpa using this
  · rw [List.mem_filter] at h2
    refine .inr ⟨b, h1, h2.1, by simpa using h2.2, ?_⟩
    intro r hr hsel
    have := h3 r (List.mem_filter.mpr ⟨hr, by simpa using hsel⟩)
    simp only [effBefore_eq, Bool.or_eq_false_iff, Bool.and_eq_false_iff, decide_eq_false_iff_not] at this
    omega

-- ---------------------------------------------------------------- reading `moves` the way the read side does

/-- the rows of one ledger, account and asset -/
def selL (l a x : String) (r : AMove) : Bool := r.ledger == l && r.account == a && r.asset == x

theorem lastMove_conc' (A : ADB) (l a x : String) :
    lastMove (conc A) l a x = (selectFirst A.moves (fun r => Val.bool (selL l a x r)) seqKeys).map AMove.row := by
  simp only [lastMove, conc, selectFirst_map, tText, seqKeys, List.map_cons, List.map_nil]
  congr 1
  apply selectFirst_congr
  intro r _
  simp [AMove.row, selL]

theorem lastEffectiveMove_conc (A : ADB) (l a x : String) (d : Int) :
    lastEffectiveMove (conc A) l a x d =
      (selectFirst A.moves (fun r => Val.bool (selL l a x r && decide (r.eff ≤ d))) effKeys).map AMove.row := by
  simp only [lastEffectiveMove, conc, selectFirst_map, tText, effKeys, List.map_cons, List.map_nil]
  congr 1
  apply selectFirst_congr
  intro r _
  simp [AMove.row, selL]

/-- under `Sane`, "same `accounts_seq`" and "same ledger and address" select the same rows -/
theorem sameKey_iff {A : ADB} (hs : Sane A) {b r : AMove} (hb : b ∈ A.moves) (hr : r ∈ A.moves) :
    r.acctSeq = b.acctSeq ↔ (r.ledger = b.ledger ∧ r.account = b.account) := by
  obtain ⟨a1, ha1, e1, e2, e3⟩ := hs.mv_acct b hb
  obtain ⟨a2, ha2, f1, f2, f3⟩ := hs.mv_acct r hr
  constructor
  · intro h
    have : a2 = a1 := pairwise_lt_inj hs.acct_seq ha2 ha1 (by rw [f1, e1, h])
    subst this
    exact ⟨f2.symm.trans e2, f3.symm.trans e3⟩
  · rintro ⟨h1, h2⟩
    have : a2 = a1 := by
      have hk := hs.acct_key
      apply Classical.byContradiction
      intro hne
      have key : ∀ {xs : List AAcct}, xs.Pairwise (fun a b => ¬ (a.ledger = b.ledger ∧ a.address = b.address)) → a1 ∈ xs → a2 ∈ xs →
          a1.ledger = a2.ledger → a1.address = a2.address → a2 = a1 := by
        intro xs hp
        induction xs with
        | nil => intro h; cases h
        | cons x xs ih =>
          rw [List.pairwise_cons] at hp
          intro m1 m2 g1 g2
          rcases List.mem_cons.mp m1 with rfl | m1' <;> rcases List.mem_cons.mp m2 with rfl | m2'
          · rfl
          · exact absurd ⟨g1, g2⟩ (hp.1 a2 m2')
          · exact absurd ⟨g1.symm, g2.symm⟩ (hp.1 a1 m1')
          · exact ih hp.2 m1' m2' g1 g2
      exact hne (key hk ha1 ha2 (by rw [e2, f2, h1]) (by rw [e3, f3, h2]))
    subst this
    rw [← f1, ← e1]

/-- sums over the typed rows of a ledger are the replay's volumes -/
theorem sumOf_cons (g : AMove → Int) (r : AMove) (rs : List AMove) : sumOf g (r :: rs) = g r + sumOf g rs := by
  simp [sumOf]

theorem sum_rel (w : Int → Bool) (a x : String) {rs : List AMove} {ms : List Move} (h : Rel2 MoveC rs ms) :
    sumOf amtIn (rs.filter (fun r => r.account == a && r.asset == x && w r.eff)) = (volume ms (fun _ e => w e) a x false : Int) ∧
    sumOf amtOut (rs.filter (fun r => r.account == a && r.asset == x && w r.eff)) = (volume ms (fun _ e => w e) a x true : Int) := by
  induction h with
  | nil => simp [volume_nil]
  | @cons r0 m0 rs' ms' r _ ih =>
    obtain ⟨c1, c2, c3, c4, c5⟩ := r
    have hsel : ∀ s : Bool, sel (fun _ e => w e) a x s m0 = (r0.account == a && r0.asset == x && w r0.eff && (r0.isSource == s)) := by
      intro s
      simp only [sel, ← c1, ← c2, ← c4, ← c5]
      cases (r0.account == a) <;> cases (r0.asset == x) <;> cases (r0.isSource == s) <;> cases w r0.eff <;> rfl
    rw [volume_cons, volume_cons, hsel, hsel]
    by_cases hc : (r0.account == a && r0.asset == x && w r0.eff) = true
    · simp only [List.filter_cons, hc, if_true, sumOf_cons, Bool.true_and]
      rw [ih.1, ih.2]
      cases hsrc : r0.isSource <;> simp [amtIn, amtOut, hsrc, c3] <;> omega
    · have hc' : (r0.account == a && r0.asset == x && w r0.eff) = false := by simpa using hc
      simp only [List.filter_cons, hc', Bool.false_eq_true, if_false, Bool.false_and, Nat.zero_add]
      exact ih

theorem Rel2.exists_left {α β : Type} {R : α → β → Prop} {xs : List α} {ys : List β} (h : Rel2 R xs ys) {y : β} (hy : y ∈ ys) :
    ∃ x ∈ xs, R x y := by
  induction h with
  | nil => cases hy
  | cons r _ ih =>
    rcases List.mem_cons.mp hy with rfl | hy
    · exact ⟨_, List.mem_cons_self .., r⟩
    · obtain ⟨x, hx, hr⟩ := ih hy
      exact ⟨x, List.mem_cons_of_mem _ hx, hr⟩

theorem volPair_beq (i o : Int) (i' o' : Nat) (h1 : i = i') (h2 : o = o') : (Val.vol (.int i) (.int o) == volPair i' o') = true := by
  subst h1; subst h2
  show Val.beq _ _ = true
  simp [volPair, Val.beq]

theorem filter_selL (A : ADB) (l a x : String) (w : AMove → Bool) :
    A.moves.filter (fun r => selL l a x r && w r) =
      (A.moves.filter (fun r => r.ledger == l)).filter (fun r => r.account == a && r.asset == x && w r) := by
  rw [List.filter_filter]
  apply List.filter_congr
  intro r _
  simp only [selL]
  cases (r.ledger == l) <;> cases (r.account == a) <;> cases (r.asset == x) <;> cases w r <;> rfl

/-- clause (i): the latest move by `seq` of an account and asset that has moves carries the replayed running totals -/
theorem clause_volumes {A : ADB} {v : View} (h : Inv A v) (l a x : String) (hm : ∃ m ∈ (v l).moves, m.account = a ∧ m.asset = x) :
    (col (lastMove (conc A) l a x) (fun r => r.post_commit_volumes) ==
      volPair (input (v l) When.always a x) (output (v l) When.always a x)) = true := by
  obtain ⟨m, hm, ha, hx⟩ := hm
  obtain ⟨r0, hr0, c⟩ := (h.moves l).exists_left hm
  rw [List.mem_filter] at hr0
  have hsel0 : selL l a x r0 = true := by
    have := hr0.2
    simp only [beq_iff_eq] at this
    simp [selL, this, c.account, c.asset, ha, hx]
  rw [lastMove_conc']
  rcases lastBySeq_spec A.moves (selL l a x) with ⟨_, h2⟩ | ⟨b, h1, hb, hsel, hmax⟩
  · rw [h2 r0 hr0.1] at hsel0; cases hsel0
  · rw [h1]
    simp only [Option.map_some, col_some, AMove.row]
    have hselb := hsel
    simp only [selL, Bool.and_eq_true, beq_iff_eq] at hselb
    have hfilter : A.moves.filter (upToSeq b) = A.moves.filter (fun r => selL l a x r && true) := by
      apply List.filter_congr
      intro r hr
      simp only [upToSeq, moveSel, Bool.and_true]
      by_cases hs : selL l a x r = true
      · have hs' := hs
        simp only [selL, Bool.and_eq_true, beq_iff_eq] at hs'
        have hk := (sameKey_iff h.sane hb hr).mpr ⟨by rw [hs'.1.1, hselb.1.1], by rw [hs'.1.2, hselb.1.2]⟩
        have := hmax r hr hs
        simp [hs, hk, hs'.2, hselb.2, this]
      · have hs' : selL l a x r = false := by simpa using hs
        rw [hs']
        rw [Bool.and_eq_false_iff]; left
        rw [Bool.and_eq_false_iff]
        by_cases hk : r.acctSeq = b.acctSeq
        · right
          have := (sameKey_iff h.sane hb hr).mp hk
          simp only [selL, this.1, this.2, hselb.1.1, hselb.1.2, beq_self_eq_true, Bool.true_and] at hs'
          simp only [beq_eq_false_iff_ne, ne_eq] at hs' ⊢
          rw [hselb.2]; exact hs'
        · left; simpa using hk
    have hsum := sum_rel (fun _ => true) a x (h.moves l)
    apply volPair_beq
    · rw [h.vol.pcvIn b hb, hfilter, filter_selL]; exact hsum.1
    · rw [h.vol.pcvOut b hb, hfilter, filter_selL]; exact hsum.2

/-- clause (ii): the move last by (effective_date, seq) among those dated `≤ d` carries the replayed effective totals at `d` -/
theorem clause_effective {A : ADB} {v : View} (h : Inv A v) (l a x : String) (d : Int)
    (hm : ∃ m ∈ (v l).moves, m.account = a ∧ m.asset = x ∧ m.effective ≤ d) :
    (col (lastEffectiveMove (conc A) l a x d) (fun r => r.post_commit_effective_volumes) ==
      volPair (input (v l) (When.effectiveBy d) a x) (output (v l) (When.effectiveBy d) a x)) = true := by
  obtain ⟨m, hm, ha, hx, hd⟩ := hm
  obtain ⟨r0, hr0, c⟩ := (h.moves l).exists_left hm
  rw [List.mem_filter] at hr0
  have hsel0 : (selL l a x r0 && decide (r0.eff ≤ d)) = true := by
    have := hr0.2
    simp only [beq_iff_eq] at this
    simp [selL, this, c.account, c.asset, c.eff, ha, hx, hd]
  rw [lastEffectiveMove_conc]
  rcases lastByEff_spec A.moves (fun r => selL l a x r && decide (r.eff ≤ d)) with ⟨_, h2⟩ | ⟨b, h1, hb, hsel, hmax⟩
  · rw [h2 r0 hr0.1] at hsel0; cases hsel0
  · rw [h1]
    simp only [Option.map_some, col_some, AMove.row]
    have hselb := hsel
    simp only [selL, Bool.and_eq_true, beq_iff_eq, decide_eq_true_eq] at hselb
    have hfilter : A.moves.filter (upToEff b) = A.moves.filter (fun r => selL l a x r && decide (r.eff ≤ d)) := by
      apply List.filter_congr
      intro r hr
      simp only [upToEff, moveSel, effLe]
      by_cases hs : selL l a x r = true
      · have hs' := hs
        simp only [selL, Bool.and_eq_true, beq_iff_eq] at hs'
        have hk := (sameKey_iff h.sane hb hr).mpr ⟨by rw [hs'.1.1, hselb.1.1.1], by rw [hs'.1.2, hselb.1.1.2]⟩
        simp only [hs, hk, hs'.2, hselb.1.2, beq_self_eq_true, Bool.true_and]
        rw [Bool.eq_iff_iff]
        simp only [Bool.or_eq_true, Bool.and_eq_true, decide_eq_true_eq]
        constructor
        · intro hh; omega
        · intro hh
          have := hmax r hr (by simp [hs, hh])
          omega
      · have hs' : selL l a x r = false := by simpa using hs
        rw [hs', Bool.false_and]
        rw [Bool.and_eq_false_iff]; left
        rw [Bool.and_eq_false_iff]
        by_cases hk : r.acctSeq = b.acctSeq
        · right
          have := (sameKey_iff h.sane hb hr).mp hk
          simp only [selL, this.1, this.2, hselb.1.1.1, hselb.1.1.2, beq_self_eq_true, Bool.true_and] at hs'
          simp only [beq_eq_false_iff_ne, ne_eq] at hs' ⊢
          rw [hselb.1.2]; exact hs'
        · left; simpa using hk
    have hsum := sum_rel (fun e => decide (e ≤ d)) a x (h.moves l)
    apply volPair_beq
    · rw [h.vol.pcevIn b hb, hfilter, filter_selL A l a x (fun r => decide (r.eff ≤ d))]; exact hsum.1
    · rw [h.vol.pcevOut b hb, hfilter, filter_selL A l a x (fun r => decide (r.eff ≤ d))]; exact hsum.2

-- ---------------------------------------------------------------- transactions

theorem hist_conc_tx (A : ADB) (t : ATx) :
    ((conc A).transactions_metadata.filter (fun h => h.transactions_seq == t.row.seq)).map (fun h => (h.revision, jOf h.metadata)) =
      (histOf A.txMeta t.seq).map jrow := by
  simp only [conc, List.filter_map, List.map_map, histOf]
  have : ((fun h : TransactionsMetadataRow => h.transactions_seq == t.row.seq) ∘ AMeta.rowT) = (fun h => h.base == t.seq) := by
    funext h; simp [AMeta.rowT, ATx.row]
  rw [this]
  apply List.map_congr_left
  intro h _
  simp [AMeta.rowT, jrow, jOf]

theorem hist_conc_acct (A : ADB) (r : AAcct) :
    ((conc A).accounts_metadata.filter (fun h => h.accounts_seq == r.row.seq)).map (fun h => (h.revision, jOf h.metadata)) =
      (histOf A.acctMeta r.seq).map jrow := by
  simp only [conc, List.filter_map, List.map_map, histOf]
  have : ((fun h : AccountsMetadataRow => h.accounts_seq == r.row.seq) ∘ AMeta.rowA) = (fun h => h.base == r.seq) := by
    funext h; simp [AMeta.rowA, AAcct.row]
  rw [this]
  apply List.map_congr_left
  intro h _
  simp [AMeta.rowA, jrow, jOf]

theorem val_beq_refVal (tx : Tx) : (refVal tx == (if tx.reference == "" then Val.null else .text tx.reference)) = true := by
  unfold refVal
  by_cases h : (tx.reference == "") = true
  · simp only [h, if_true]; rfl
  · simp only [h, Bool.false_eq_true, if_false]; simp

/-- clauses (iii) and (iv) for one transaction -/
theorem txRowBad_nil {A : ADB} {t : ATx} {rec : TxRec} (h : TxOk A t rec) : txRowBad (conc A) t.row rec = [] := by
  have hcur := (h.current h.hist_ne).beq
  obtain ⟨k, vals, h1, _, h3⟩ := h.hist
  have hhist : J.beqList (txHistSql (conc A) t.row) (histSpec rec.metaHist) = true := by
    unfold txHistSql histSpec
    rw [hist_conc_tx, h1.sorted]
    exact h3.canon
  have hrev : ((!Val.isNullB t.row.reverted_at) == rec.reverted.isSome) = true := by
    have := h.rev
    simp only [ATx.row, this]
    cases rec.reverted <;> rfl
  have hid : (t.row.id == Val.int rec.tx.id) = true := by simp [ATx.row, h.id]
  have hts : (t.row.timestamp == Val.ts rec.tx.timestamp) = true := by simp [ATx.row, h.ts]
  have href : (t.row.reference == (if rec.tx.reference == "" then Val.null else .text rec.tx.reference)) = true := by
    simp only [ATx.row, h.ref]; exact val_beq_refVal rec.tx
  have hmd : (jOf t.row.metadata == metaJ (txMeta rec)) = true := by simpa [ATx.row, jOf, txMeta] using hcur
  simp only [txRowBad, hid, hts, href, hmd, hhist, hrev, if_true, List.append_nil]

theorem zipBad_nil {rows : List ATx} {recs : List TxRec} {A : ADB} (h : Rel2 (TxOk A) rows recs) :
    zipBad (txRowBad (conc A)) (rows.map ATx.row) recs = [] := by
  induction h with
  | nil => rfl
  | cons r _ ih => simp [zipBad, txRowBad_nil r, ih]

theorem txRows_conc (A : ADB) (l : String) : txRows (conc A) l = (A.txs.filter (fun t => t.ledger == l)).map ATx.row := by
  simp only [txRows, conc, List.filter_map, tText]
  congr 1

theorem moveRows_conc (A : ADB) (l : String) : moveRows (conc A) l = (A.moves.filter (fun t => t.ledger == l)).map AMove.row := by
  simp only [moveRows, conc, List.filter_map, tText]
  congr 1

theorem acctRows_conc (A : ADB) (l : String) : acctRows (conc A) l = (A.accounts.filter (fun t => t.ledger == l)).map AAcct.row := by
  simp only [acctRows, conc, List.filter_map, tText]
  congr 1

-- ---------------------------------------------------------------- accounts

theorem acct_unique {A : ADB} (hs : Sane A) {a1 a2 : AAcct} (h1 : a1 ∈ A.accounts) (h2 : a2 ∈ A.accounts)
    (g1 : a1.ledger = a2.ledger) (g2 : a1.address = a2.address) : a2 = a1 := by
  have key : ∀ {xs : List AAcct}, xs.Pairwise (fun a b => ¬ (a.ledger = b.ledger ∧ a.address = b.address)) → a1 ∈ xs → a2 ∈ xs → a2 = a1 := by
    intro xs hp
    induction xs with
    | nil => intro h; cases h
    | cons x xs ih =>
      rw [List.pairwise_cons] at hp
      intro m1 m2
      rcases List.mem_cons.mp m1 with rfl | m1' <;> rcases List.mem_cons.mp m2 with rfl | m2'
      · rfl
      · exact absurd ⟨g1, g2⟩ (hp.1 a2 m2')
      · exact absurd ⟨g1.symm, g2.symm⟩ (hp.1 a1 m1')
      · exact ih hp.2 m1' m2'
  exact key hs.acct_key h1 h2

theorem acctRowBad_nil {A : ADB} {r : AAcct} {rec : AcctRec} (ha : r.address = rec.address) (h : AcctOk A r rec) :
    acctRowBad (conc A) r.row rec = [] := by
  have hcur := h.current.2.beq
  obtain ⟨k, vals, h1, _, h3⟩ := h
  have hhist : J.beqList (acctHistSql (conc A) r.row) (histSpec rec.metaHist) = true := by
    unfold acctHistSql histSpec
    rw [hist_conc_acct, h1.sorted]
    exact h3.canon
  have hadr : (r.row.address == tText rec.address) = true := by simp [AAcct.row, tText, ha]
  have hmd : (jOf r.row.metadata == metaJ (histCurrent rec.metaHist)) = true := by simpa [AAcct.row, jOf] using hcur
  simp only [acctRowBad, hadr, hmd, hhist, if_true, List.append_nil]

theorem acctsBad_nil {A : ADB} {l : String} {accts : List AcctRec} (hs : Sane A) (h : AcctsRel [] 0 A l accts) (st : LedgerState)
    (hst : st.accts = accts) : acctsBad (conc A) l st = [] := by
  subst hst
  unfold acctsBad
  rw [acctRows_conc]
  have hcount : (((A.accounts.filter (fun t => t.ledger == l)).map AAcct.row).length == st.accts.length) = true := by
    simp [h.count]
  simp only [hcount, if_true, List.nil_append]
  rw [List.flatMap_eq_nil_iff]
  intro rec hrec
  obtain ⟨r, hr, e1, e2, hx⟩ := h.fwd rec hrec
  have hok : AcctOk A r rec := by
    rcases hx with hx | ⟨km, f, _⟩
    · exact hx
    · simp at f
  rw [List.find?_map]
  cases hf : (A.accounts.filter (fun t => t.ledger == l)).find? ((fun row => row.address == tText rec.address) ∘ AAcct.row) with
  | none =>
    rw [List.find?_eq_none] at hf
    have := hf r (List.mem_filter.mpr ⟨hr, by simp [e1]⟩)
    simp [AAcct.row, tText, e2] at this
  | some r' =>
    have hmem := List.mem_of_find?_eq_some hf
    rw [List.mem_filter] at hmem
    have hp := List.find?_some hf
    simp only [Function.comp, AAcct.row, tText, beq_text_text, beq_iff_eq] at hp
    have : r' = r := acct_unique hs hr hmem.1 (by rw [e1]; exact (by simpa using hmem.2 : r'.ledger = l).symm) (by rw [e2, hp])
    subst this
    simp only [Option.map_some]
    exact acctRowBad_nil e2 hok

-- ---------------------------------------------------------------- all clauses

theorem mem_pairs {ms : List Move} {ax : String × String} (h : ax ∈ pairs ms) : ∃ m ∈ ms, m.account = ax.1 ∧ m.asset = ax.2 := by
  unfold pairs at h
  rw [List.mem_eraseDups, List.mem_map] at h
  obtain ⟨m, hm, e⟩ := h
  exact ⟨m, hm, by rw [← e], by rw [← e]⟩

theorem volumesBad_nil {A : ADB} {v : View} (h : Inv A v) (l : String) : volumesBad (conc A) l (v l) = [] := by
  unfold volumesBad
  rw [List.filter_eq_nil_iff]
  intro ax hax
  have := clause_volumes h l ax.1 ax.2 (mem_pairs hax)
  simp [this]

theorem effectiveBad_nil {A : ADB} {v : View} (h : Inv A v) (l : String) : effectiveBad (conc A) l (v l) = [] := by
  unfold effectiveBad
  rw [List.filter_eq_nil_iff]
  intro axd haxd
  rw [List.mem_flatMap] at haxd
  obtain ⟨ax, hax, hd⟩ := haxd
  rw [List.mem_map] at hd
  obtain ⟨d, hd, rfl⟩ := hd
  rw [List.mem_eraseDups, List.mem_map] at hd
  obtain ⟨m, hm, rfl⟩ := hd
  rw [List.mem_filter] at hm
  have hm2 : m.account = ax.1 ∧ m.asset = ax.2 := by simpa using hm.2
  have := clause_effective h l ax.1 ax.2 m.effective ⟨m, hm.1, hm2.1, hm2.2, Int.le_refl _⟩
  simp [this]

/-- **the invariant implies that the executable comparison finds nothing**, ledger by ledger -/
theorem discrepanciesOf_nil {A : ADB} {v : View} (h : Inv A v) (l : String) : discrepanciesOf (conc A) l (v l) = [] := by
  unfold discrepanciesOf
  have h1 : ((moveRows (conc A) l).length == (v l).moves.length) = true := by
    rw [moveRows_conc, List.length_map, (h.moves l).length]; simp
  have h4 : zipBad (txRowBad (conc A)) (txRows (conc A) l) (v l).txs = [] := by
    rw [txRows_conc]; exact zipBad_nil (h.txs l)
  simp only [h1, if_true, volumesBad_nil h l, effectiveBad_nil h l, h4, acctsBad_nil h.sane (h.accts l) (v l) rfl, List.map_nil, List.append_nil]

/-- the metadata maps of every entry have distinct keys -/
def WFHistory (logs : List CLog) : Prop := ∀ log ∈ logs, WFLog log

theorem project_eq (logs : List CLog) : project logs = conc (logs.foldl aStep {}) := by
  unfold project; rw [← conc_empty]; exact project_conc logs {}

/-- **`projection_refines_replay`, clauses (i)–(iv)**: for every log sequence whose metadata maps have distinct keys, the tables the
generated trigger chain fills say what `Store.replay` says -/
theorem discrepancies_nil (logs : List CLog) (hw : WFHistory logs) : discrepancies logs = [] := by
  have hinv : Inv (logs.foldl aStep {}) (replay logs) := inv_steps logs {} _ hw inv_empty
  unfold discrepancies discrepanciesO
  have e1 : (logs.map (fun l => (l, (0 : Int)))).map (·.1) = logs := by simp [List.map_map, Function.comp_def]
  have e2 : projectO (logs.map (fun l => (l, (0 : Int)))) = project logs := by
    unfold projectO project projectFrom
    rw [List.foldl_map]
  simp only [e1, e2]
  rw [List.flatMap_eq_nil_iff]
  intro l _
  rw [project_eq]
  exact discrepanciesOf_nil hinv l

end StoreSql
