import Lemmas.NumRunEq
/-! Lifting theorems about `Spec.run` to the compiled program on the VM model, through compiler correctness (`run_eq`,
stated as `C08.compile_correct`): whatever the VM model answers for a compiled program is what `Spec.run` answers. -/
namespace Num
open VM

/-- an accepted run of the compiled program on the VM model is an accepted run of `Spec` with the same observations
(postings in order, metadata, printed values) -/
theorem vm_ok_gives_spec_ok {P : Script} {prog : Program} (hc : compile P = .ok prog) (hfr : P.frag2) (req : Request) (store : Store)
    {r : VM.Result} (h : VM.run prog req store = .ok r) : ∃ r', Num.run P req store = .ok r' ∧ r'.obs = r.obs := by
  have e := run_eq hc hfr req store
  rw [h] at e
  cases hr : Num.run P req store with
  | error er => rw [hr] at e; simp [Outcome.map, Outcome.ofExcept, Except.map] at e
  | ok r' =>
    rw [hr] at e
    simp only [Outcome.map, Outcome.ofExcept, Except.map, Outcome.ok.injEq] at e
    exact ⟨r', rfl, e.symm⟩

/-- … in particular the same postings -/
theorem vm_ok_postings {P : Script} {prog : Program} (hc : compile P = .ok prog) (hfr : P.frag2) (req : Request) (store : Store)
    {r : VM.Result} (h : VM.run prog req store = .ok r) : ∃ r', Num.run P req store = .ok r' ∧ r'.postings = r.postings := by
  obtain ⟨r', h1, h2⟩ := vm_ok_gives_spec_ok hc hfr req store h
  refine ⟨r', h1, ?_⟩
  have := congrArg Obs.postings h2
  simpa [Result.obs, VM.Result.obs] using this

/-- a refusal of the compiled program is the same refusal of `Spec` -/
theorem vm_error_gives_spec_error {P : Script} {prog : Program} (hc : compile P = .ok prog) (hfr : P.frag2) (req : Request) (store : Store)
    {er : Err} (h : VM.run prog req store = .error er) : Num.run P req store = .error er := by
  have e := run_eq hc hfr req store
  rw [h] at e
  cases hr : Num.run P req store with
  | error er' => rw [hr] at e; simp [Outcome.map, Outcome.ofExcept, Except.map] at e; rw [e]
  | ok r' => rw [hr] at e; simp [Outcome.map, Outcome.ofExcept, Except.map] at e

end Num
