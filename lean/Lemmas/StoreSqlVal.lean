import Model.Store.Project
/-! C04 stage 2, layer 0: evaluation lemmas for the SQL value operators of `Model/Store/Sql.lean` on TYPED values (texts,
integers, timestamps, json objects), and general lemmas about the relational combinators (`selectFirst` / `pickBest` under a
map of the rows, `updateWhere`, `insertRow`).  Nothing here mentions the generated schema. -/
namespace StoreSql
open Sql

-- ---------------------------------------------------------------- values

@[simp] theorem eq_text_text (a b : String) : Val.eq (.text a) (.text b) = .bool (a == b) := rfl
@[simp] theorem eq_int_int (a b : Int) : Val.eq (.int a) (.int b) = .bool (a == b) := rfl
@[simp] theorem eq_ts_ts (a b : Int) : Val.eq (.ts a) (.ts b) = .bool (a == b) := rfl
@[simp] theorem eq_null_left (a : Val) : Val.eq .null a = .null := rfl
@[simp] theorem eq_null_right_text (a : String) : Val.eq (.text a) .null = .null := rfl
@[simp] theorem eq_null_right_int (a : Int) : Val.eq (.int a) .null = .null := rfl
@[simp] theorem and_bool_bool (a b : Bool) : Val.and (.bool a) (.bool b) = .bool (a && b) := by
  cases a <;> cases b <;> rfl
@[simp] theorem and_null_left (b : Bool) : Val.and .null (.bool b) = if b then .null else .bool false := by
  cases b <;> rfl
@[simp] theorem and_bool_null (a : Bool) : Val.and (.bool a) .null = if a then .null else .bool false := by
  cases a <;> rfl
@[simp] theorem and_null_null : Val.and .null .null = .null := rfl
@[simp] theorem not_bool (a : Bool) : Val.not (.bool a) = .bool (!a) := rfl
@[simp] theorem truthy_bool (b : Bool) : truthy (.bool b) = b := by cases b <;> rfl
@[simp] theorem truthy_null : truthy .null = false := rfl
@[simp] theorem valTruthy_bool (b : Bool) : Val.truthy (.bool b) = b := by cases b <;> rfl
@[simp] theorem valTruthy_null : Val.truthy .null = false := rfl
@[simp] theorem lt_ts_ts (a b : Int) : Val.lt (.ts a) (.ts b) = .bool (decide (a < b)) := rfl
@[simp] theorem lt_int_int (a b : Int) : Val.lt (.int a) (.int b) = .bool (decide (a < b)) := rfl
@[simp] theorem gt_ts_ts (a b : Int) : Val.gt (.ts a) (.ts b) = .bool (decide (b < a)) := rfl
@[simp] theorem gt_int_int (a b : Int) : Val.gt (.int a) (.int b) = .bool (decide (b < a)) := rfl
@[simp] theorem le_ts_ts (a b : Int) : Val.le (.ts a) (.ts b) = .bool (decide (a ≤ b)) := by
  have h : (!decide (b < a)) = decide (a ≤ b) := by
    by_cases h : b < a
    · have : ¬ a ≤ b := by omega
      simp [h, this]
    · have : a ≤ b := by omega
      simp [h, this]
  simp only [Val.le, lt_ts_ts, not_bool, h]
@[simp] theorem add_int_int (a b : Int) : Val.add (.int a) (.int b) = .int (a + b) := rfl
@[simp] theorem field_inputs (a b : Val) : Val.field "inputs" (.vol a b) = a := by simp [Val.field]
@[simp] theorem field_outputs (a b : Val) : Val.field "outputs" (.vol a b) = b := by simp [Val.field]
@[simp] theorem setField_inputs (a b x : Val) : Val.setField "inputs" (.vol a b) x = .vol x b := by simp [Val.setField]
@[simp] theorem setField_outputs (a b x : Val) : Val.setField "outputs" (.vol a b) x = .vol a x := by simp [Val.setField]
@[simp] theorem castVolumes_vol (a b : Val) : Val.castVolumes (.vol a b) = .vol a b := rfl
@[simp] theorem col_some {R} (r : R) (f : R → Val) : col (some r) f = f r := rfl
@[simp] theorem col_none {R} (f : R → Val) : col (none : Option R) f = .null := rfl
@[simp] theorem coalesce_null (b : Val) : Val.coalesce .null b = b := rfl
@[simp] theorem coalesce_json (j : J) (b : Val) : Val.coalesce (.json j) b = .json j := rfl
@[simp] theorem concat_obj (a b : List (String × J)) : Val.concat (.json (.obj a)) (.json (.obj b)) = .json (.obj (J.concatKvs a b)) := rfl
@[simp] theorem sub_obj (a : List (String × J)) (k : String) : Val.sub (.json (.obj a)) (.text k) = .json (.obj (J.removeKey k a)) := rfl
@[simp] theorem containsJ_json (a b : J) : Val.containsJ (.json a) (.json b) = .bool (J.contains a b) := rfl
@[simp] theorem beq_text_text (a b : String) : ((Val.text a) == (Val.text b)) = (a == b) := rfl
@[simp] theorem beq_int_int (a b : Int) : ((Val.int a) == (Val.int b)) = (a == b) := rfl
@[simp] theorem beq_ts_ts (a b : Int) : ((Val.ts a) == (Val.ts b)) = (a == b) := rfl
@[simp] theorem isNullB_ts (a : Int) : Val.isNullB (.ts a) = false := rfl
@[simp] theorem isNullB_int (a : Int) : Val.isNullB (.int a) = false := rfl
@[simp] theorem isNullB_null : Val.isNullB .null = true := rfl

@[simp] theorem col_map {A R} (o : Option A) (f : A → R) (g : R → Val) : col (o.map f) g = col o (fun a => g (f a)) := by
  cases o <;> rfl
@[simp] theorem natCast_beq (a b : Nat) : (((a : Int)) == ((b : Int))) = (a == b) := by
  rw [Bool.eq_iff_iff]; simp; omega

-- ---------------------------------------------------------------- selectFirst under a map of the rows

theorem pickBest_map {A R : Type} (f : A → R) (before : R → R → Bool) (best : Option A) (xs : List A) :
    pickBest before (best.map f) (xs.map f) = (pickBest (fun a b => before (f a) (f b)) best xs).map f := by
  induction xs generalizing best with
  | nil => cases best <;> rfl
  | cons x xs ih =>
    cases best with
    | none => simpa [pickBest] using ih (some x)
    | some b =>
      simp only [List.map_cons, Option.map_some, pickBest]
      by_cases h : before (f x) (f b) = true
      · simpa [h] using ih (some x)
      · simpa [h] using ih (some b)

theorem lexBefore_map {A R : Type} (f : A → R) (keys : List (Key R)) (a b : A) :
    lexBefore keys (f a) (f b) = lexBefore (keys.map (fun k => ({ get := fun x => k.get (f x), desc := k.desc } : Key A))) a b := by
  induction keys with
  | nil => rfl
  | cons k ks ih => simp only [lexBefore, List.map_cons, ih]

/-- a `select … limit 1` over rows that are the image of abstract rows is the image of the select over the abstract rows -/
theorem selectFirst_map {A R : Type} (f : A → R) (xs : List A) (pred : R → Val) (keys : List (Key R)) :
    selectFirst (xs.map f) pred keys =
      (selectFirst xs (fun a => pred (f a)) (keys.map (fun k => ({ get := fun x => k.get (f x), desc := k.desc } : Key A)))).map f := by
  unfold selectFirst
  rw [List.filter_map]
  have := pickBest_map f (lexBefore keys) none (xs.filter ((fun r => truthy (pred r)) ∘ f))
  simp only [Option.map_none] at this
  rw [this]
  congr 1
  have h : (fun a b => lexBefore keys (f a) (f b)) =
      lexBefore (keys.map (fun k => ({ get := fun x => k.get (f x), desc := k.desc } : Key A))) := by
    funext a b; exact lexBefore_map f keys a b
  rw [h]; rfl

theorem selectFirst_congr {A : Type} (xs : List A) (p q : A → Val) (keys : List (Key A))
    (h : ∀ a ∈ xs, truthy (p a) = truthy (q a)) : selectFirst xs p keys = selectFirst xs q keys := by
  unfold selectFirst
  congr 1
  exact List.filter_congr h

/-- without `order by`, `limit 1` returns the first selected row -/
theorem pickBest_nokeys {A : Type} (b : A) (xs : List A) : pickBest (lexBefore ([] : List (Key A))) (some b) xs = some b := by
  induction xs with
  | nil => rfl
  | cons x xs ih => simpa [pickBest, lexBefore] using ih

theorem selectFirst_nokeys {A : Type} (xs : List A) (p : A → Val) :
    selectFirst xs p [] = xs.find? (fun a => truthy (p a)) := by
  unfold selectFirst
  induction xs with
  | nil => rfl
  | cons x xs ih =>
    by_cases h : truthy (p x) = true
    · simp [h, pickBest, pickBest_nokeys]
    · simp only [List.filter_cons, h, List.find?_cons]; simpa using ih

end StoreSql
